(* C37 — Decorated generator coroutines behave like native coroutines.
   Definitions only (total, computable).  Code modelled (as of /repo HEAD incl. fixes b6a1816, ace54d0):

   tornado/gen.py   coroutine.wrapper  (first iteration inlined: next(), StopIteration -> result,
                                        CancelledError -> future.cancel(), `except Exception` -> exception,
                                        otherwise Runner(...), then
                                        future.add_done_callback(lambda _: runner))
                    Runner.__init__ / Runner.run / Runner.handle_yield
                    convert_yielded  (None/moment, list/dict -> multi, Future, awaitable -> _wrap_awaitable)
                    multi_future     (children_futs, unfinished_children, listening, callback, inline
                                      callback on already-done children, [] -> immediate result)
                    _wrap_awaitable  (asyncio.ensure_future + done-callback _unregister_task)
   tornado/ioloop.py add_future (future.add_done_callback -> call_soon), add_callback (call_soon)
   asyncio          Future (done-callbacks are scheduled with call_soon in registration order when the
                    future completes or is cancelled; Future.__await__: done -> result() inline, else
                    `yield self` and result() on resumption), Task.__step / __wakeup (bare yield ->
                    call_soon(__step); yielded future -> add_done_callback(__wakeup); StopIteration ->
                    set_result; CancelledError -> cancel; Exception -> set_exception), the FIFO ready
                    queue of BaseEventLoop (one handle per Tick).

   The coroutine BODY (CPython generator / coroutine object) is modelled once, as a resumption tree
   obtained from the program text by [denote]; the two forms differ only in the DRIVER
   (gen.coroutine wrapper + Runner  versus  asyncio.Task) and in how a nested native coroutine is
   run (`yield inner()` -> a new Task via _wrap_awaitable;  `await inner()` -> inline, PEP 380). *)
From Coq Require Import List ZArith Bool String Arith.
Import ListNotations.
From TV Require Import Lib.Obs.
Local Open Scope string_scope.
Local Open Scope nat_scope.
Local Open Scope list_scope.

(* ------------------------------------------------------------------ *)
(* Programs                                                            *)
(* ------------------------------------------------------------------ *)
Inductive exn := EKey | EValue | ECancelled.        (* KeyError, ValueError : Exception; CancelledError : BaseException *)

(* how the environment completes an awaited future *)
Inductive fout := FRes (z : Z) | FExc (e : exn) | FCancel.   (* set_result / set_exception / cancel() *)

Inductive outcome := OVal (v : obs) | OExc (e : exn).        (* what a yield/await expression evaluates to *)

Inductive yexp :=
| YFut (i : nat)            (* yield F[i]                  | await F[i] *)
| YList (l : list nat)      (* yield [F[i],...]            | await gen.multi([F[i],...]) *)
| YDict (l : list nat)      (* yield {0:F[i],1:...}        | await gen.multi({0:F[i],...}) *)
| YMoment                   (* yield gen.moment            | await asyncio.sleep(0) *)
| YNone.                    (* yield None                  | await asyncio.sleep(0) *)

Inductive hpat := HClass (e : exn) | HException | HBase.   (* except KeyError / Exception / BaseException *)

Inductive stmt :=
| SSkip                                         (* pass *)
| SMark (n : nat)                               (* T(n)                      own side effect *)
| SYield (y : yexp)                             (* r = yield y ; G(r)        the value received is logged *)
| SCall (b : stmt)                              (* r = yield inner() ; G(r)  inner = async def with body b *)
| SReturn (n : nat)                             (* return n *)
| SRaise (e : exn)                              (* raise E() *)
| SSeq (a b : stmt)
| STryExcept (b : stmt) (p : hpat) (h : stmt)   (* try: b  except P as e: C(e); h *)
| STryFinally (b f : stmt)                      (* try: b  finally: f *)
(* one context variable V; the caller sets it to "caller" before the call and resets it afterwards *)
| SVarSet (n : nat)                             (* V.set(n) *)
| SVarGet                                       (* R()  = trace.append(("var", V.get())) *)
| SWithVar (n : nat) (b : stmt).                (* tok = V.set(n); try: b  finally: V.reset(tok) *)

Definition exn_eqb (a b : exn) : bool :=
  match a, b with EKey, EKey | EValue, EValue | ECancelled, ECancelled => true | _, _ => false end.

Definition matches (p : hpat) (e : exn) : bool :=
  match p with
  | HClass c => exn_eqb c e
  | HException => negb (exn_eqb e ECancelled)
  | HBase => true
  end.

Definition exn_name (e : exn) : string :=
  match e with EKey => "KeyError" | EValue => "ValueError" | ECancelled => "CancelledError" end.

(* trace entries *)
Definition t_mark (n : nat) : obs := OInt (Z.of_nat n).
Definition t_got (v : obs) : obs := OList [OTag "got"; v].
Definition t_caught (e : exn) : obs := OList [OTag "caught"; OTag (exn_name e)].

(* ------------------------------------------------------------------ *)
(* The coroutine body as a resumption tree (generator semantics)       *)
(*   Yld y k : suspended at `yield y`; send v = k (OVal v); throw e = k (OExc e)            *)
(*   Call b k: suspended at `yield inner()` / executing `await inner()` with inner's body b *)
(* ------------------------------------------------------------------ *)
Inductive itree :=
| Done (o : outcome)                 (* StopIteration(value) / exception leaves the body *)
| Eff (m : obs) (t : itree)
| Yld (y : yexp) (k : outcome -> itree)
| Call (b : itree) (k : outcome -> itree).

Inductive compl := CNormal | CRet (v : obs) | CExc (e : exn).

Definition top (c : compl) : itree :=
  Done (match c with CNormal => OVal ONone | CRet v => OVal v | CExc e => OExc e end).

Definition recv (k : compl -> itree) (o : outcome) : itree :=
  match o with OVal v => Eff (t_got v) (k CNormal) | OExc e => k (CExc e) end.

(* The context variable.  In both forms the body runs inside ONE context for its whole life (the
   wrapper's `ctx_run = copy_context().run`, used by every Runner hop; the Task's own copied context),
   so V behaves as state of the body: [denote] threads its current value [v] through the statements.
   A nested native coroutine reads the value current at its call and leaves it unchanged for the
   caller (`yield inner()` runs it in a Task = on a copy; `await inner()` inline: same as long as inner's
   own writes are the balanced SWithVar -- an unbalanced SVarSet inside a nested body is outside the
   grammar, see NOTES). *)
Definition t_var (v : obs) : obs := OList [OTag "var"; v].
Definition v_caller : obs := OTag "caller".

Fixpoint denote (s : stmt) (v : obs) (k : compl -> obs -> itree) : itree :=
  match s with
  | SSkip => k CNormal v
  | SMark n => Eff (t_mark n) (k CNormal v)
  | SYield y => Yld y (recv (fun c => k c v))
  | SCall b => Call (denote b v (fun c _ => top c)) (recv (fun c => k c v))
  | SReturn n => k (CRet (t_mark n)) v
  | SRaise e => k (CExc e) v
  | SSeq a b => denote a v (fun c v' => match c with CNormal => denote b v' k | _ => k c v' end)
  | STryExcept b p h =>
      denote b v (fun c v' => match c with
                              | CExc e => if matches p e then Eff (t_caught e) (denote h v' k) else k c v'
                              | _ => k c v'
                              end)
  | STryFinally b f =>
      denote b v (fun c v' => denote f v' (fun cf v'' => match cf with CNormal => k c v'' | _ => k cf v'' end))
  | SVarSet n => k CNormal (t_mark n)
  | SVarGet => Eff (t_var v) (k CNormal v)
  | SWithVar n b => denote b (t_mark n) (fun c _ => k c v)       (* reset(tok) restores the value seen at set() *)
  end.

Definition body (p : stmt) : itree := denote p v_caller (fun c _ => top c).

(* ------------------------------------------------------------------ *)
(* Futures of the environment, multi                                   *)
(* ------------------------------------------------------------------ *)
Definition env := list (nat * fout).          (* the external futures that are done, with their outcome *)

Fixpoint lookup (i : nat) (e : env) : option fout :=
  match e with
  | [] => None
  | (j, o) :: e' => if Nat.eqb i j then Some o else lookup i e'
  end.

Definition outcome_of (f : fout) : outcome :=
  match f with FRes z => OVal (OInt z) | FExc e => OExc e | FCancel => OExc ECancelled end.

Definition child_out (e : env) (i : nat) : option outcome := option_map outcome_of (lookup i e).

(* the gathering loop of multi_future.callback: results in order, or the first failure in order;
   None when some child is not done *)
Fixpoint gather (e : env) (l : list nat) : option (exn + list obs) :=
  match l with
  | [] => Some (inr [])
  | c :: l' =>
      match child_out e c, gather e l' with
      | Some (OExc x), Some _ => Some (inl x)
      | Some (OVal v), Some (inl x) => Some (inl x)
      | Some (OVal v), Some (inr vs) => Some (inr (v :: vs))
      | _, _ => None
      end
  end.

Fixpoint dictify (i : nat) (vs : list obs) : list obs :=       (* dict(zip(keys, result_list)), keys 0.. *)
  match vs with [] => [] | v :: vs' => OList [OInt (Z.of_nat i); v] :: dictify (S i) vs' end.

Definition multi_out (e : env) (l : list nat) (isdict : bool) : option outcome :=
  match gather e l with
  | None => None
  | Some (inl x) => Some (OExc x)
  | Some (inr vs) => Some (OVal (OList (if isdict then dictify 0 vs else vs)))
  end.

(* what a yield expression evaluates to once everything it waits for is done (None: not yet) *)
Definition youtcome (e : env) (y : yexp) : option outcome :=
  match y with
  | YFut i => child_out e i
  | YList l => multi_out e l false
  | YDict l => multi_out e l true
  | YMoment | YNone => Some (OVal ONone)
  end.

(* ------------------------------------------------------------------ *)
(* Reference semantics: the body run against a FIXED set of completed futures.  *)
(* It is a function of the outcomes only -- no loop, no queue, no order.        *)
(* ------------------------------------------------------------------ *)
Inductive rres := RFin (o : outcome) | RBlk.

Fixpoint ref (e : env) (t : itree) (tr : list obs) : list obs * rres :=
  match t with
  | Done o => (tr, RFin o)
  | Eff m t' => ref e t' (tr ++ [m])
  | Yld y k => match youtcome e y with Some o => ref e (k o) tr | None => (tr, RBlk) end
  | Call b k =>
      match ref e b tr with
      | (tr', RFin o) => ref e (k o) tr'
      | (tr', RBlk) => (tr', RBlk)
      end
  end.

(* ------------------------------------------------------------------ *)
(* The world: event loop + futures + the two kinds of driver           *)
(* ------------------------------------------------------------------ *)
Inductive cb :=
| CbRunner        (* Runner.run, via handle_yield.inner (add_future) or add_callback(self.run) *)
| CbMulti (c : nat)   (* multi_future.callback(children future c) *)
| CbTask          (* Task.__step() (start / after a bare yield) or Task.__wakeup(fut) *)
| CbNop.          (* lambda _: runner   /   lambda f: loop._unregister_task(f) *)

Record mstate := mkM {
  m_children : list nat;
  m_dict : bool;
  m_unf : list nat;               (* unfinished_children (a set) *)
  m_res : option outcome;         (* state of the future returned by multi() *)
  m_cbs : list cb                 (* its done-callbacks *)
}.

Inductive rfut := RfExt (i : nat) | RfMulti | RfTask | RfMoment.      (* Runner.future *)
Inductive rstate :=
| RNone                                        (* no Runner exists *)
| RWait (f : rfut) (k : outcome -> itree)      (* generator suspended at a yield, self.future = f *)
| RFinished.
Inductive dres := DNoFuture | DPending | DSet (o : outcome).
   (* the decorated call's future; DSet (OExc ECancelled) = cancelled *)

Inductive tstate :=
| TNone
| TStart (b : itree)       (* created; first __step is in the ready queue *)
| TBlocked (t : itree)     (* suspended; the leftmost Yld of t is where it waits *)
| TDone.

Record world := mkW {
  w_env : env;
  w_fcbs : list (nat * cb);      (* done-callbacks registered on pending external futures, in order *)
  w_ready : list cb;             (* loop._ready *)
  w_trace : list obs;
  w_multi : option mstate;       (* the live multi future *)
  w_rst : rstate;
  w_dres : dres;
  w_tst : tstate;
  w_tres : option outcome;       (* the task's future; Some (OExc ECancelled) = cancelled *)
  w_tcbs : list cb;              (* its done-callbacks *)
  w_spur : bool                  (* a branch was taken in which the real code would do something the model
                                    does not describe (InvalidStateError thrown into the coroutine / set on
                                    the multi future); proved unreachable: C37_model_never_leaves_its_domain *)
}.

Definition set_env x w := mkW x (w_fcbs w) (w_ready w) (w_trace w) (w_multi w) (w_rst w) (w_dres w) (w_tst w) (w_tres w) (w_tcbs w) (w_spur w).
Definition set_fcbs x w := mkW (w_env w) x (w_ready w) (w_trace w) (w_multi w) (w_rst w) (w_dres w) (w_tst w) (w_tres w) (w_tcbs w) (w_spur w).
Definition set_ready x w := mkW (w_env w) (w_fcbs w) x (w_trace w) (w_multi w) (w_rst w) (w_dres w) (w_tst w) (w_tres w) (w_tcbs w) (w_spur w).
Definition set_trace x w := mkW (w_env w) (w_fcbs w) (w_ready w) x (w_multi w) (w_rst w) (w_dres w) (w_tst w) (w_tres w) (w_tcbs w) (w_spur w).
Definition set_multi x w := mkW (w_env w) (w_fcbs w) (w_ready w) (w_trace w) x (w_rst w) (w_dres w) (w_tst w) (w_tres w) (w_tcbs w) (w_spur w).
Definition set_rst x w := mkW (w_env w) (w_fcbs w) (w_ready w) (w_trace w) (w_multi w) x (w_dres w) (w_tst w) (w_tres w) (w_tcbs w) (w_spur w).
Definition set_dres x w := mkW (w_env w) (w_fcbs w) (w_ready w) (w_trace w) (w_multi w) (w_rst w) x (w_tst w) (w_tres w) (w_tcbs w) (w_spur w).
Definition set_tst x w := mkW (w_env w) (w_fcbs w) (w_ready w) (w_trace w) (w_multi w) (w_rst w) (w_dres w) x (w_tres w) (w_tcbs w) (w_spur w).
Definition set_tres x w := mkW (w_env w) (w_fcbs w) (w_ready w) (w_trace w) (w_multi w) (w_rst w) (w_dres w) (w_tst w) x (w_tcbs w) (w_spur w).
Definition set_tcbs x w := mkW (w_env w) (w_fcbs w) (w_ready w) (w_trace w) (w_multi w) (w_rst w) (w_dres w) (w_tst w) (w_tres w) x (w_spur w).
Definition set_spur w := mkW (w_env w) (w_fcbs w) (w_ready w) (w_trace w) (w_multi w) (w_rst w) (w_dres w) (w_tst w) (w_tres w) (w_tcbs w) true.

Definition log (m : obs) (w : world) : world := set_trace (w_trace w ++ [m]) w.
Definition push (c : cb) (w : world) : world := set_ready (w_ready w ++ [c]) w.       (* call_soon *)
Definition pushes (cs : list cb) (w : world) : world := set_ready (w_ready w ++ cs) w.
Definition register (i : nat) (c : cb) (w : world) : world := set_fcbs (w_fcbs w ++ [(i, c)]) w.  (* add_done_callback on a pending future *)

Definition mem (c : nat) (l : list nat) : bool := existsb (Nat.eqb c) l.
Fixpoint dedup (seen l : list nat) : list nat :=
  match l with
  | [] => []
  | c :: l' => if mem c seen then dedup seen l' else c :: dedup (c :: seen) l'
  end.
Definition rm (c : nat) (l : list nat) : list nat := filter (fun x => negb (Nat.eqb c x)) l.

(* ---- multi_future ---- *)
(* unfinished_children became empty inside callback: gather, settle the future, schedule its callbacks *)
Definition m_resolve (m : mstate) (w : world) : world :=
  match multi_out (w_env w) (m_children m) (m_dict m) with
  | Some o => pushes (m_cbs m) (set_multi (Some (mkM (m_children m) (m_dict m) [] (Some o) [])) w)
  | None => set_spur w
  end.

Definition m_callback (c : nat) (w : world) : world :=
  match w_multi w with
  | Some m =>
      if mem c (m_unf m) then
        let u := rm c (m_unf m) in
        let m' := mkM (m_children m) (m_dict m) u (m_res m) (m_cbs m) in
        match u with
        | [] => m_resolve m' w
        | _ :: _ => set_multi (Some m') w
        end
      else w        (* unfinished_children.remove raises KeyError: it escapes the callback into the loop's
                       exception handler (logged); no state changes *)
  | None => w       (* no multi future exists, hence no such callback *)
  end.

(* `for f in children_futs: if f not in listening: listening.add(f); future_add_done_callback(f, callback)` *)
Fixpoint m_listen (cs : list nat) (w : world) : world :=
  match cs with
  | [] => w
  | c :: cs' =>
      m_listen cs' (match lookup c (w_env w) with
                    | Some _ => m_callback c w              (* already done: called at once *)
                    | None => register c (CbMulti c) w
                    end)
  end.

Definition m_create (l : list nat) (isdict : bool) (w : world) : world :=
  let d := dedup [] l in
  let r := match l with [] => Some (OVal (OList [])) | _ => None end in
  m_listen d (set_multi (Some (mkM l isdict d r [])) w).

Definition m_result (w : world) : option outcome :=
  match w_multi w with Some m => m_res m | None => None end.
Definition m_set_cbs (cs : list cb) (w : world) : world :=
  match w_multi w with
  | Some m => set_multi (Some (mkM (m_children m) (m_dict m) (m_unf m) (m_res m) cs)) w
  | None => w
  end.

(* ---- asyncio.Task driving a native coroutine ---- *)
Inductive tres := TFin (o : outcome) | TBlk (t : itree).

(* coro.send(None) from a point where the coroutine is running: execute until it finishes or an await
   really suspends.  `await fut` on a done future does not suspend; `await inner()` runs inline. *)
Fixpoint tadv (t : itree) (w : world) : world * tres :=
  match t with
  | Done o => (w, TFin o)
  | Eff m t' => tadv t' (log m w)
  | Yld y k =>
      match y with
      | YMoment | YNone => (push CbTask w, TBlk t)                 (* bare yield: call_soon(__step) *)
      | YFut i =>
          match lookup i (w_env w) with
          | Some f => tadv (k (outcome_of f)) w                    (* Future.__await__: done -> result() *)
          | None => (register i CbTask w, TBlk t)                  (* add_done_callback(__wakeup) *)
          end
      | YList l | YDict l =>
          let w' := m_create l (match y with YDict _ => true | _ => false end) w in
          match m_result w' with
          | Some o => tadv (k o) w'
          | None => (m_set_cbs [CbTask] w', TBlk t)
          end
      end
  | Call b k =>
      match tadv b w with
      | (w', TFin o) => tadv (k o) w'
      | (w', TBlk b') => (w', TBlk (Call b' k))
      end
  end.

(* the value/exception delivered when the task is woken at `yield y` *)
Definition wake_outcome (y : yexp) (w : world) : option outcome :=
  match y with
  | YMoment | YNone => Some (OVal ONone)
  | YFut i => child_out (w_env w) i
  | YList _ | YDict _ => m_result w
  end.

Fixpoint tresume (t : itree) (w : world) : world * tres :=
  match t with
  | Yld y k =>
      match wake_outcome y w with
      | Some o => tadv (k o) w
      | None => (set_spur w, TBlk t)          (* woken although the awaited future is not done: unreachable *)
      end
  | Call b k =>
      match tresume b w with
      | (w', TFin o) => tadv (k o) w'
      | (w', TBlk b') => (w', TBlk (Call b' k))
      end
  | _ => (set_spur w, TBlk t)
  end.

(* Task.__step epilogue: StopIteration -> set_result, CancelledError -> cancel(), Exception -> set_exception;
   in all cases the task future's done-callbacks are scheduled *)
Definition t_settle (r : world * tres) : world :=
  match r with
  | (w, TFin o) => pushes (w_tcbs w) (set_tcbs [] (set_tres (Some o) (set_tst TDone w)))
  | (w, TBlk t) => set_tst (TBlocked t) w
  end.

Definition task_cb (w : world) : world :=
  match w_tst w with
  | TStart b => t_settle (tadv b w)
  | TBlocked t => t_settle (tresume t w)
  | TNone | TDone => w      (* Task.__step on a finished task raises InvalidStateError inside the handle: the
                               loop's exception handler logs it; no state changes *)
  end.

(* ---- gen.Runner ---- *)
(* run(): resume the generator with the outcome of self.future, loop while what it yields is ready *)
Definition r_finish (o : outcome) (w : world) : world :=
  (* StopIteration -> set_result; CancelledError -> result_future.cancel(); Exception -> set_exception;
     the future's done-callback `lambda _: runner` is scheduled *)
  push CbNop (set_dres (DSet o) (set_rst RFinished w)).

Definition r_spawn (b : itree) (w : world) : world :=
  (* _wrap_awaitable: ensure_future -> Task (first step via call_soon); add_done_callback(unregister);
     then handle_yield: io_loop.add_future(task, inner) *)
  set_tcbs [CbNop; CbRunner] (set_tres None (push CbTask (set_tst (TStart b) w))).

Fixpoint rrun (t : itree) (w : world) : world :=
  match t with
  | Done o => r_finish o w
  | Eff m t' => rrun t' (log m w)
  | Yld y k =>
      match y with
      | YMoment | YNone => set_rst (RWait RfMoment k) (push CbRunner w)       (* add_callback(self.run) *)
      | YFut i =>
          match lookup i (w_env w) with
          | Some f => rrun (k (outcome_of f)) w                                (* handle_yield -> True *)
          | None => set_rst (RWait (RfExt i) k) (register i CbRunner w)        (* add_future(fut, inner) *)
          end
      | YList l | YDict l =>
          let w' := m_create l (match y with YDict _ => true | _ => false end) w in
          match m_result w' with
          | Some o => rrun (k o) w'
          | None => set_rst (RWait RfMulti k) (m_set_cbs [CbRunner] w')
          end
      end
  | Call b k => set_rst (RWait RfTask k) (r_spawn b w)
  end.

(* the wrapper: next(gen) inlined; a Runner is created only if the generator yields *)
Fixpoint rfirst (t : itree) (w : world) : world :=
  match t with
  | Done o => set_dres (DSet o) w        (* set_result / future.cancel() / set_exception; no Runner, no done-callback *)
  | Eff m t' => rfirst t' (log m w)
  | Yld _ _ | Call _ _ => rrun t w
  end.

Definition runner_cb (w : world) : world :=
  match w_rst w with
  | RWait f k =>
      let o := match f with
               | RfMoment => Some (OVal ONone)
               | RfExt i => child_out (w_env w) i
               | RfMulti => m_result w
               | RfTask => w_tres w
               end in
      match o with
      | Some o => rrun (k o) w
      | None => w                 (* `if not future.done(): return` *)
      end
  | RNone | RFinished => w        (* `if self.running or self.finished: return` *)
  end.

(* ---- events ---- *)
Inductive event := EvDone (i : nat) (f : fout) | EvTick.

Definition complete (i : nat) (f : fout) (w : world) : world :=
  match lookup i (w_env w) with
  | Some _ => w                   (* already done: the environment's second completion is refused *)
  | None =>
      let mine := filter (fun p => Nat.eqb (fst p) i) (w_fcbs w) in
      let rest := filter (fun p => negb (Nat.eqb (fst p) i)) (w_fcbs w) in
      pushes (map snd mine) (set_fcbs rest (set_env (w_env w ++ [(i, f)]) w))
  end.

Definition run_cb (c : cb) (w : world) : world :=
  match c with
  | CbRunner => runner_cb w
  | CbMulti i => m_callback i w
  | CbTask => task_cb w
  | CbNop => w
  end.

Definition tick (w : world) : world :=
  match w_ready w with
  | [] => w
  | c :: r => run_cb c (set_ready r w)
  end.

Definition step (w : world) (e : event) : world :=
  match e with EvDone i f => complete i f w | EvTick => tick w end.

Definition run (w : world) (s : list event) : world := fold_left step s w.

Definition w0 (pre : env) : world := mkW pre [] [] [] None RNone DNoFuture TNone None [] false.

(* futures completed before the call: the first completion of each id wins *)
Fixpoint mkenv (pre : list (nat * fout)) (acc : env) : env :=
  match pre with
  | [] => acc
  | (i, f) :: pre' => mkenv pre' (match lookup i acc with Some _ => acc | None => acc ++ [(i, f)] end)
  end.

(* fut = dec()  *)
Definition start_dec (p : stmt) (pre : env) : world := rfirst (body p) (set_dres DPending (w0 pre)).
(* fut = asyncio.ensure_future(nat()) *)
Definition start_nat (p : stmt) (pre : env) : world := push CbTask (set_tst (TStart (body p)) (w0 pre)).

(* final state of the form's own future *)
Inductive status := StPending | StSet (o : outcome).
Definition status_of (w : world) : status :=
  match w_dres w with
  | DNoFuture => match w_tres w with Some o => StSet o | None => StPending end
  | DPending => StPending
  | DSet o => StSet o
  end.

