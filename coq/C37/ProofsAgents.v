(* C37 proofs, part 4: the two drivers (asyncio.Task, gen.Runner) simulate the reference semantics. *)
From Coq Require Import List ZArith Bool String Arith Lia.
Import ListNotations.
From TV Require Import Lib.Obs C37.Model C37.ProofsBase C37.ProofsDefs C37.ProofsMulti.
Local Open Scope nat_scope.
Local Open Scope list_scope.

Implicit Types S : cb -> Prop.
Implicit Types w : world.

Definition F : cb -> Prop := fun _ => False.

(* ---------- per-agent wake-up invariants ---------- *)
Definition TI S w : Prop :=
  match w_tst w with
  | TNone => True
  | TStart _ => rin S w CbTask /\ w_tres w = None
  | TBlocked t => (exists y, lm t = Some y /\ waits_ok S y CbTask w) /\ w_tres w = None
  | TDone => w_tres w <> None
  end.

Definition RI S w : Prop :=
  match w_rst w with
  | RNone => True
  | RWait (RfExt i) _ => waits_ok S (YFut i) CbRunner w
  | RWait RfMoment _ => rin S w CbRunner
  | RWait RfMulti _ => exists l d, waits_multi S w l d CbRunner
  | RWait RfTask _ =>
      match w_tst w with
      | TNone => False
      | TDone => rin S w CbRunner
      | _ => w_tcbs w = [CbNop; CbRunner]
      end
  | RFinished => True
  end.

Definition DI w : Prop :=
  match w_dres w with
  | DNoFuture => w_rst w = RNone /\ w_tcbs w = []
  | DPending => exists f k, w_rst w = RWait f k
  | DSet _ => w_rst w = RFinished \/ w_rst w = RNone
  end.

Definition active (t : tstate) : Prop := match t with TStart _ | TBlocked _ => True | _ => False end.

(* decorated form: a task is alive only while the Runner waits for it *)
Definition XI w : Prop :=
  w_dres w <> DNoFuture -> active (w_tst w) -> exists k, w_rst w = RWait RfTask k.

(* ---------- the computation that remains to be done ---------- *)
Definition task_tree w : option itree :=
  match w_tst w with
  | TNone => None
  | TStart b => Some b
  | TBlocked t => Some t
  | TDone => match w_tres w with Some o => Some (Done o) | None => None end
  end.

Definition multi_y w : option yexp :=
  match w_multi w with
  | Some m => Some (if m_dict m then YDict (m_children m) else YList (m_children m))
  | None => None
  end.

Definition resid w : option itree :=
  match w_rst w with
  | RWait (RfExt i) k => Some (Yld (YFut i) k)
  | RWait RfMoment k => Some (Yld YMoment k)
  | RWait RfMulti k => option_map (fun y => Yld y k) (multi_y w)
  | RWait RfTask k => option_map (fun b => Call b k) (task_tree w)
  | RFinished => match w_dres w with DSet o => Some (Done o) | _ => None end
  | RNone => match w_dres w with DNoFuture => task_tree w | DSet o => Some (Done o) | DPending => None end
  end.

Definition Sem (t0 : itree) w : Prop :=
  exists t, resid w = Some t /\
            forall E, ext (w_env w) E -> ref E t0 [] = ref E t (w_trace w).

Record Inv S (t0 : itree) w : Prop := {
  inv_sem : Sem t0 w;
  inv_mi : MI S w;
  inv_r1 : R1 w;
  inv_r2 : R2 w;
  inv_ti : TI S w;
  inv_ri : RI S w;
  inv_di : DI w;
  inv_xi : XI w
}.

(* ---------- small transport lemmas ---------- *)
Lemma MI_weaken S S' w w' :
  (forall x, S (CbMulti x) -> S' (CbMulti x)) -> wle w w' -> w_multi w' = w_multi w -> MI S w -> MI S' w'.
Proof. intros HS Hle Hm H. exact (MIr_wle S S' _ _ w w' HS (fun _ h => h) Hle Hm H). Qed.

Lemma MIr_set_cbs S ex cs w : Forall notmulti cs -> MIr S ex w -> MIr S ex (m_set_cbs cs w).
Proof.
  intros Hc H. unfold m_set_cbs, MIr in *. destruct (w_multi w) as [m|] eqn:Hw; [|rewrite Hw; exact I].
  cbn. destruct H as [_ H]. split; [exact Hc|]. exact H.
Qed.

Lemma m_set_cbs_env cs w : w_env (m_set_cbs cs w) = w_env w.
Proof. unfold m_set_cbs; destruct (w_multi w); reflexivity. Qed.
Lemma m_set_cbs_ready cs w : w_ready (m_set_cbs cs w) = w_ready w.
Proof. unfold m_set_cbs; destruct (w_multi w); reflexivity. Qed.
Lemma m_set_cbs_fcbs cs w : w_fcbs (m_set_cbs cs w) = w_fcbs w.
Proof. unfold m_set_cbs; destruct (w_multi w); reflexivity. Qed.
Lemma m_set_cbs_trace cs w : w_trace (m_set_cbs cs w) = w_trace w.
Proof. unfold m_set_cbs; destruct (w_multi w); reflexivity. Qed.

(* after multi(): either the combined future is already done with the reference outcome, or the
   agent registers its callback and waits *)
Lemma multi_step S l d c w w1 :
  notmulti c -> R1 w -> R2 w -> w1 = m_create l d w ->
  MI S w1 /\ R1 w1 /\ R2 w1 /\ wle w w1 /\ w_trace w1 = w_trace w /\
  match m_result w1 with
  | Some o => multi_out (w_env w) l d = Some o
  | None =>
      let w2 := m_set_cbs [c] w1 in
      MI S w2 /\ R1 w2 /\ R2 w2 /\ wle w w2 /\ w_trace w2 = w_trace w /\
      waits_multi S w2 l d c /\ multi_y w2 = Some (if d then YDict l else YList l)
  end.
Proof.
  intros Hc H1 H2 ->.
  destruct (m_create_ok S l d w H1 H2) as [A [B [C [D [E [G [m [Hm [Hl [Hd Hcb]]]]]]]]]].
  split; [exact A|]. split; [exact B|]. split; [exact C|]. split; [exact D|]. split; [exact G|].
  unfold m_result. rewrite Hm.
  destruct (m_res m) as [o|] eqn:Hres.
  - unfold MI, MIr in A. rewrite Hm in A. destruct A as [_ A]. rewrite Hres in A.
    rewrite (wle_env _ _ D), Hl, Hd in A. exact A.
  - cbn zeta.
    split; [apply MIr_set_cbs; [constructor; [exact Hc|constructor]|exact A]|].
    split; [eapply R1_wle_same; [apply m_set_cbs_env|apply m_set_cbs_ready|exact B]|].
    split; [eapply R2_same; [apply m_set_cbs_fcbs|exact C]|].
    split; [eapply wle_trans; [exact D|apply wle_m_set_cbs]|].
    split; [rewrite m_set_cbs_trace; exact G|].
    unfold m_set_cbs, waits_multi, multi_y. rewrite Hm. cbn.
    split.
    + eexists; split; [reflexivity|]. cbn. repeat split; auto. intros Hx; congruence.
    + rewrite Hl, Hd. reflexivity.
Qed.

(* ---------- asyncio.Task: running the coroutine until it finishes or suspends ---------- *)
Definition task_post (t : itree) w w' (r : tres) : Prop :=
  MI F w' /\ R1 w' /\ R2 w' /\ wle w w' /\
  match r with
  | TFin o => forall E, ext (w_env w) E -> ref E t (w_trace w) = (w_trace w', RFin o)
  | TBlk t' => (exists y, lm t' = Some y /\ waits_ok F y CbTask w') /\
               forall E, ext (w_env w) E -> ref E t (w_trace w) = ref E t' (w_trace w')
  end.

Lemma task_post_frame t t2 w w1 w' r :
  wle w w1 -> MI F w1 -> R1 w1 -> R2 w1 ->
  (forall E, ext (w_env w) E -> ref E t (w_trace w) = ref E t2 (w_trace w1)) ->
  task_post t2 w1 w' r -> task_post t w w' r.
Proof.
  intros Hle _ _ _ Hr [A [B [C [D P]]]].
  split; [exact A|]. split; [exact B|]. split; [exact C|]. split; [eapply wle_trans; eauto|].
  destruct r as [o|t'].
  - intros E HE. rewrite (Hr E HE). apply P. rewrite (wle_env _ _ Hle). exact HE.
  - destruct P as [P1 P2]. split; [exact P1|].
    intros E HE. rewrite (Hr E HE). apply P2. rewrite (wle_env _ _ Hle). exact HE.
Qed.

Lemma tadv_ok t : forall w w' r,
  tadv t w = (w', r) -> MI F w -> R1 w -> R2 w -> task_post t w w' r.
Proof.
  induction t as [o|m t IH|y k IH|b IHb k IHk]; intros w w' r Hrun HM H1 H2; simpl in Hrun.
  - inversion Hrun; subst. split; [exact HM|]. split; [exact H1|]. split; [exact H2|].
    split; [apply wle_refl|]. intros E HE. reflexivity.
  - apply (task_post_frame _ t w (log m w)); [apply wle_log| | | | |].
    + eapply MI_weaken; [| apply wle_log | reflexivity | exact HM]; auto.
    + eapply R1_wle_same; [| |exact H1]; reflexivity.
    + eapply R2_same; [|exact H2]; reflexivity.
    + intros E HE. reflexivity.
    + apply IH; auto.
  - destruct y as [i|l|l| |].
    + (* future *)
      destruct (lookup i (w_env w)) as [f|] eqn:Hl.
      * apply (task_post_frame _ (k (outcome_of f)) w w);
          [apply wle_refl|exact HM|exact H1|exact H2| |apply IH; assumption].
        intros E HE. simpl. unfold child_out. rewrite (HE _ _ Hl). reflexivity.
      * inversion Hrun; subst. split.
        { eapply MI_weaken; [| apply wle_register | reflexivity | exact HM]; auto. }
        split; [eapply R1_wle_same; [| |exact H1]; reflexivity|].
        split; [apply R2_register; [discriminate|exact H2]|].
        split; [apply wle_register|].
        split; [|intros; reflexivity].
        exists (YFut i). split; [reflexivity|]. simpl. split.
        -- intros _. apply in_or_app; right; left; reflexivity.
        -- intros Hx; congruence.
    + (* list *)
      destruct (multi_step F l false CbTask w _ I H1 H2 eq_refl) as [A [B [C [D [G P]]]]].
      destruct (m_result (m_create l false w)) as [o|] eqn:Hres.
      * apply (task_post_frame _ (k o) w (m_create l false w));
          [exact D|exact A|exact B|exact C| |apply IH; assumption].
        intros E HE. simpl. rewrite (multi_out_mono _ _ _ _ _ HE P), G. reflexivity.
      * inversion Hrun; subst. destruct P as [A' [B' [C' [D' [G' [P1 P2]]]]]].
        split; [exact A'|]. split; [exact B'|]. split; [exact C'|]. split; [exact D'|].
        split; [|intros E HE; rewrite G'; reflexivity].
        exists (YList l). split; [reflexivity|exact P1].
    + (* dict *)
      destruct (multi_step F l true CbTask w _ I H1 H2 eq_refl) as [A [B [C [D [G P]]]]].
      destruct (m_result (m_create l true w)) as [o|] eqn:Hres.
      * apply (task_post_frame _ (k o) w (m_create l true w));
          [exact D|exact A|exact B|exact C| |apply IH; assumption].
        intros E HE. simpl. rewrite (multi_out_mono _ _ _ _ _ HE P), G. reflexivity.
      * inversion Hrun; subst. destruct P as [A' [B' [C' [D' [G' [P1 P2]]]]]].
        split; [exact A'|]. split; [exact B'|]. split; [exact C'|]. split; [exact D'|].
        split; [|intros E HE; rewrite G'; reflexivity].
        exists (YDict l). split; [reflexivity|exact P1].
    + (* moment *)
      inversion Hrun; subst. split.
      { eapply MI_weaken; [| apply wle_push | reflexivity | exact HM]; auto. }
      split; [apply R1_push; [exact I|exact H1]|].
      split; [eapply R2_same; [|exact H2]; reflexivity|].
      split; [apply wle_push|].
      split; [|intros; reflexivity].
      exists YMoment. split; [reflexivity|]. right. simpl. apply in_or_app; right; left; reflexivity.
    + inversion Hrun; subst. split.
      { eapply MI_weaken; [| apply wle_push | reflexivity | exact HM]; auto. }
      split; [apply R1_push; [exact I|exact H1]|].
      split; [eapply R2_same; [|exact H2]; reflexivity|].
      split; [apply wle_push|].
      split; [|intros; reflexivity].
      exists YNone. split; [reflexivity|]. right. simpl. apply in_or_app; right; left; reflexivity.
  - (* nested native coroutine: inline *)
    destruct (tadv b w) as [w1 r1] eqn:Hb.
    destruct (IHb _ _ _ Hb HM H1 H2) as [A [B [C [D P]]]].
    destruct r1 as [o|b'].
    + apply (task_post_frame _ (k o) w w1);
        [exact D|exact A|exact B|exact C| |apply IHk; assumption].
      intros E HE. simpl. rewrite (P E HE). reflexivity.
    + inversion Hrun; subst. destruct P as [[y [Hy Hw]] P].
      split; [exact A|]. split; [exact B|]. split; [exact C|]. split; [exact D|].
      split; [exists y; split; [exact Hy|exact Hw]|].
      intros E HE. simpl. rewrite (P E HE). reflexivity.
Qed.

(* resumption of a suspended task by its wake-up callback *)
Lemma wake_sound S y c w o :
  waits_ok S y c w -> MI F w -> wake_outcome y w = Some o ->
  forall E, ext (w_env w) E -> youtcome E y = Some o.
Proof.
  intros Hw HM Ho E HE.
  assert (Hm : forall l d, waits_multi S w l d c -> m_result w = Some o -> multi_out E l d = Some o).
  { intros l d [m [Hmw [Hl [Hd _]]]] Hr. unfold m_result in Hr. rewrite Hmw in Hr.
    unfold MI, MIr in HM. rewrite Hmw in HM. destruct HM as [_ HM]. rewrite Hr in HM.
    rewrite Hl, Hd in HM. eapply multi_out_mono; eauto. }
  destruct y as [i|l|l| |]; simpl in *.
  - eapply child_out_mono; eauto.
  - eapply Hm; eauto.
  - eapply Hm; eauto.
  - exact Ho.
  - exact Ho.
Qed.

Lemma waits_still S y c w :
  waits_ok S y c w -> wake_outcome y w = None -> waits_ok F y c w.
Proof.
  intros Hw Hn.
  assert (Hm : forall l d, waits_multi S w l d c -> m_result w = None -> waits_multi F w l d c).
  { intros l d [m [Hmw [Hl [Hd [Ha Hb]]]]] Hr. unfold m_result in Hr. rewrite Hmw in Hr.
    exists m. repeat split; auto. intros Hx; congruence. }
  destruct y as [i|l|l| |]; simpl in *; try discriminate; auto.
  destruct Hw as [Ha Hb]. unfold child_out in Hn.
  destruct (lookup i (w_env w)); [discriminate|]. split; [exact Ha|intros Hx; congruence].
Qed.

Lemma tresume_ok S t : forall w w' r y,
  tresume t w = (w', r) -> lm t = Some y -> waits_ok S y CbTask w ->
  MI F w -> R1 w -> R2 w -> task_post t w w' r.
Proof.
  induction t as [o|m t IH|y0 k IH|b IHb k IHk]; intros w w' r y Hrun Hlm Hw HM H1 H2;
    simpl in Hrun, Hlm; try discriminate.
  - inversion Hlm; subst y0.
    destruct (wake_outcome y w) as [o|] eqn:Ho.
    + apply (task_post_frame _ (k o) w w);
        [apply wle_refl|exact HM|exact H1|exact H2| |apply tadv_ok; assumption].
      intros E HE. simpl. rewrite (wake_sound _ _ _ _ _ Hw HM Ho E HE). reflexivity.
    + inversion Hrun; subst.
      split; [eapply MI_weaken; [|apply wle_set_spur|reflexivity|exact HM]; auto|].
      split; [eapply R1_wle_same; [| |exact H1]; reflexivity|].
      split; [eapply R2_same; [|exact H2]; reflexivity|].
      split; [apply wle_set_spur|].
      split; [|intros; reflexivity].
      exists y. split; [reflexivity|].
      eapply waits_ok_wle; [| apply wle_set_spur | reflexivity | eapply waits_still; eauto]. auto.
  - destruct (tresume b w) as [w1 r1] eqn:Hb.
    destruct (IHb _ _ _ _ Hb Hlm Hw HM H1 H2) as [A [B [C [D P]]]].
    destruct r1 as [o|b'].
    + apply (task_post_frame _ (k o) w w1);
        [exact D|exact A|exact B|exact C| |apply tadv_ok; assumption].
      intros E HE. simpl. rewrite (P E HE). reflexivity.
    + inversion Hrun; subst. destruct P as [[y' [Hy Hw']] P].
      split; [exact A|]. split; [exact B|]. split; [exact C|]. split; [exact D|].
      split; [exists y'; split; [exact Hy|exact Hw']|].
      intros E HE. simpl. rewrite (P E HE). reflexivity.
Qed.
