(* Executable entry points used by the correspondence check. *)
From Coq Require Import List ZArith Bool String Arith.
Import ListNotations.
From TV Require Import Lib.Obs C37.Model.
Local Open Scope string_scope.
Local Open Scope nat_scope.
Local Open Scope list_scope.

(* one case: program, futures completed before the call, schedule, number of extra ticks allowed for draining *)
Definition input := (stmt * list (nat * fout) * list event * nat)%type.

Definition o_nat (n : nat) : obs := OInt (Z.of_nat n).
Definition o_status (s : status) : obs :=
  match s with
  | StPending => OTag "pending"
  | StSet (OVal v) => OList [OTag "result"; v]
  | StSet (OExc e) => OList [OTag "exc"; OTag (exn_name e)]      (* a cancelled future reports CancelledError *)
  end.

Definition snap (w : world) : obs := OList [o_nat (List.length (w_trace w)); o_nat (List.length (w_ready w))].

(* run the schedule, recording (trace length, ready-queue length) after every event *)
Fixpoint run_snaps (w : world) (s : list event) : world * list obs :=
  match s with
  | [] => (w, [])
  | e :: s' => let w' := step w e in
               let '(w'', l) := run_snaps w' s' in (w'', snap w' :: l)
  end.

Fixpoint drain (fuel : nat) (w : world) : world :=
  match fuel with
  | O => w
  | S f => match w_ready w with [] => w | _ :: _ => drain f (tick w) end
  end.

Definition quiescent (w : world) : bool := match w_ready w with [] => true | _ => false end.

Definition obs_form (w0 : world) (s : list event) (fuel : nat) : obs :=
  let '(w1, snaps) := run_snaps w0 s in
  let w2 := drain fuel w1 in
  OList [ (if w_spur w2 then OTag "MODEL-unreachable-callback" else o_status (status_of w2));
          OList (w_trace w2);
          OBool (quiescent w2);
          OList (snap w0 :: snaps);
          OBool true  (* context variable set by the caller visible at every own side effect: harness-only *) ].

Definition run_case (c : input) : obs :=
  let '(p, pre, s, fuel) := c in
  let e := mkenv pre [] in
  OList [obs_form (start_dec p e) s fuel; obs_form (start_nat p e) s fuel].

(* The property on observables: both forms drained, same final state of their future, same own trace,
   caller's context visible in both. *)
Definition check_case (c : input) (o : obs) : bool :=
  match o with
  | OList [OList [sd; td; OBool true; _; OBool true]; OList [sn; tn; OBool true; _; OBool true]] =>
      obs_eqb sd sn && obs_eqb td tn
  | _ => false
  end.
