(* C44 — proofs, part 7: float text in plain decimal notation  [ws][sign]ddd.ddd[ws]  is read as the
   correctly rounded binary64 of the decimal it denotes. *)
From Coq Require Import List ZArith NArith Bool Lia.
Import ListNotations.
From TV Require Import C44.Model C44.Proofs1 C44.Proofs3 C44.Proofs6.
Local Open Scope Z_scope.

Definition numch (c : N) : Prop := is_digit c = true \/ c = 46%N.

Lemma numch_facts c : numch c ->
  is_ws_num c = false /\ c <> 95%N /\ c <> 45%N /\ c <> 43%N /\ lower c = c /\ c <> 105%N /\ c <> 110%N.
Proof.
  intros [H| ->]; [|repeat split; try discriminate; reflexivity].
  pose proof (digit_not_ws c H) as W. apply digit_range in H.
  repeat split; auto; try lia. unfold lower, in_range. destruct (N.leb_spec 65 c); simpl; auto. lia.
Qed.

Lemma us_ok_num t : Forall numch t -> forall prev, us_ok t prev = true.
Proof.
  induction 1 as [|c t Hc _ IH]; intros prev; simpl; auto.
  destruct (numch_facts c Hc) as [_ [H95 _]]. destruct (N.eqb_spec c 95); [contradiction|]. apply IH.
Qed.
Lemma filter_num t : Forall numch t -> filter (fun c => negb (c =? 95)%N) t = t.
Proof.
  induction 1 as [|c t Hc _ IH]; simpl; auto.
  destruct (numch_facts c Hc) as [_ [H95 _]]. destruct (N.eqb_spec c 95); [contradiction|]. simpl. rewrite IH. reflexivity.
Qed.
Lemma lower_num t : Forall numch t -> lower_text t = t.
Proof.
  induction 1 as [|c t Hc _ IH]; simpl; auto.
  destruct (numch_facts c Hc) as [_ [_ [_ [_ [L _]]]]]. rewrite L, IH. reflexivity.
Qed.

Lemma parse_decimal_point ip fp : digits ip -> digits fp -> (ip <> [] \/ fp <> []) ->
  parse_decimal (ip ++ 46%N :: fp) = Some (digits_val (ip ++ fp) 0, - Z.of_nat (length fp), []).
Proof.
  intros Hi Hf Hne. unfold parse_decimal.
  rewrite (span_app is_digit ip (46%N :: fp) Hi) by reflexivity.
  change ((46 =? 46)%N) with true. cbv iota.
  pose proof (span_app is_digit fp [] Hf I) as Sf. rewrite app_nil_r in Sf. rewrite Sf.
  destruct ip as [|a ip']; destruct fp as [|b fp']; try reflexivity.
  destruct Hne; contradiction.
Qed.

Definition neg_of (s : option bool) : bool := match s with Some true => true | _ => false end.

Theorem parse_float_point w1 w2 s ip fp :
  all_true is_ws_num w1 -> all_true is_ws_num w2 -> digits ip -> digits fp -> (ip <> [] \/ fp <> []) ->
  parse_float (w1 ++ sign_text s ++ (ip ++ 46%N :: fp) ++ w2)
  = Some (float_of_decimal (neg_of s) (digits_val (ip ++ fp) 0) (- Z.of_nat (length fp))).
Proof.
  intros H1 H2 Hi Hf Hne. unfold parse_float.
  set (body := ip ++ 46%N :: fp).
  assert (Hb : Forall numch body).
  { subst body. apply Forall_app. split; [eapply Forall_impl; [|exact Hi]; intros; left; auto|].
    constructor; [right; reflexivity|eapply Forall_impl; [|exact Hf]; intros; left; auto]. }
  assert (Hhd : exists c r, body = c :: r /\ numch c).
  { destruct body as [|c r] eqn:E; [subst body; destruct ip; discriminate|]. inversion Hb; subst. eauto. }
  replace (w1 ++ sign_text s ++ body ++ w2) with (w1 ++ (sign_text s ++ body) ++ w2)
    by (rewrite <- !app_assoc; reflexivity).
  rewrite strip_pad; auto.
  2:{ apply Forall_app. split; [apply sign_not_ws|]. eapply Forall_impl; [|exact Hb]. intros c Hc. apply numch_facts; auto. }
  assert (Eu : us_ok (sign_text s ++ body) false = true).
  { destruct s as [[|]|]; simpl; apply us_ok_num; auto. }
  assert (Ef : filter (fun c => negb (c =? 95)%N) (sign_text s ++ body) = sign_text s ++ body).
  { rewrite filter_app, (filter_num body Hb). destruct s as [[|]|]; reflexivity. }
  rewrite Eu, Ef. cbn [negb].
  destruct Hhd as [c [r [Eb Hc]]]. destruct (numch_facts c Hc) as [_ [_ [H45 [H43 [_ [H105 H110]]]]]].
  assert (Es : split_sign (sign_text s ++ body) = (neg_of s, body)).
  { destruct s as [[|]|]; simpl; auto. rewrite Eb. simpl.
    destruct (N.eqb_spec c 45); [contradiction|]. destruct (N.eqb_spec c 43); [contradiction|]. reflexivity. }
  rewrite Es, (lower_num body Hb).
  assert (Ew : forall w x y, w = x :: y -> c <> x -> text_eqb body w = false).
  { intros w x y -> Hx. rewrite Eb. simpl. destruct (N.eqb_spec c x); [contradiction|]. reflexivity. }
  rewrite (Ew w_inf _ _ eq_refl H105), (Ew w_infinity _ _ eq_refl H105), (Ew w_nan _ _ eq_refl H110). cbn [orb].
  subst body. rewrite parse_decimal_point by auto. reflexivity.
Qed.

(* ... and that value is round_pos of the exact decimal *)
Lemma float_of_decimal_fraction neg mant k :
  mant <> 0%N -> (k <= 400)%nat ->
  float_of_decimal neg mant (- Z.of_nat k) =
    let r := round_pos (Z.of_N mant) (10 ^ Z.of_nat k) in if neg then fl_neg r else r.
Proof.
  intros Hm Hk. unfold float_of_decimal.
  destruct (Z.eqb_spec (Z.of_N mant) 0); [lia|].
  destruct (Z.ltb_spec 400 (- Z.of_nat k)); [lia|].
  pose proof (Z.log2_nonneg (Z.of_N mant)).
  destruct (Z.ltb_spec (- Z.of_nat k) (- 400 - Z.log2 (Z.of_N mant) - 1)); [lia|].
  destruct (Z.leb_spec 0 (- Z.of_nat k)).
  - assert (k = 0%nat) by lia. subst k. simpl. rewrite Z.mul_1_r. reflexivity.
  - rewrite Z.opp_involutive. reflexivity.
Qed.
