(* C44 — proofs, part 2: define / parse_command_line / parse_config_file:
   unknown options, missing values, error propagation, unset options keep their
   defaults; the model satisfies check_case. *)
From Coq Require Import String.
From Coq Require Import List ZArith NArith Bool Lia.
Import ListNotations.
From TV Require Import Lib.Obs C44.Model C44.Run C44.Proofs1.

Lemma text_eqb_sym a b : text_eqb a b = text_eqb b a.
Proof.
  destruct (text_eqb a b) eqn:E.
  - apply text_eqb_true in E. subst. symmetry. apply text_eqb_refl.
  - symmetry. apply text_eqb_false. intros ->. rewrite text_eqb_refl in E. discriminate.
Qed.

(* ------------------------------------------------------------------ *)
(* the option table                                                    *)
Lemma lookup_key k os o : lookup k os = Some o -> o_key o = k.
Proof.
  induction os as [|x os IH]; simpl; [discriminate|].
  destruct (text_eqb (o_key x) k) eqn:E; auto. intros [= <-]. apply text_eqb_true; auto.
Qed.
Lemma lookup_in k os o : lookup k os = Some o -> In o os.
Proof.
  induction os as [|x os IH]; simpl; [discriminate|].
  destruct (text_eqb (o_key x) k); auto. intros [= <-]. auto.
Qed.
Lemma lookup_none k os : lookup k os = None <-> existsb (text_eqb k) (map o_key os) = false.
Proof.
  induction os as [|x os IH]; simpl; [tauto|]. rewrite (text_eqb_sym k (o_key x)).
  destruct (text_eqb (o_key x) k); simpl; [split; discriminate|auto].
Qed.
Lemma update_keys o' os : map o_key (update o' os) = map o_key os.
Proof.
  induction os as [|x os IH]; simpl; auto.
  destruct (text_eqb (o_key x) (o_key o')) eqn:E; simpl; [|rewrite IH; auto].
  apply text_eqb_true in E. rewrite E. reflexivity.
Qed.
Lemma lookup_update_same o' os :
  lookup (o_key o') os <> None -> lookup (o_key o') (update o' os) = Some o'.
Proof.
  induction os as [|x os IH]; simpl; [congruence|].
  destruct (text_eqb (o_key x) (o_key o')) eqn:E; simpl.
  - rewrite text_eqb_refl. reflexivity.
  - rewrite E. auto.
Qed.

Lemma opt_parse_key o s : o_key (fst (opt_parse o s)) = o_key o.
Proof.
  unfold opt_parse. destruct (o_multiple o).
  - destruct (parse_parts _ _ _). reflexivity.
  - destruct (parse_one _ _); reflexivity.
Qed.
Lemma opt_set_key o v : o_key (fst (opt_set o v)) = o_key o.
Proof.
  unfold opt_set. destruct (o_multiple o).
  - destruct v; try reflexivity. destruct (forallb _ _); reflexivity.
  - destruct (_ || _); reflexivity.
Qed.

(* ------------------------------------------------------------------ *)
(* one-step characterisation of the command-line loop                  *)
Definition dashes (t : text) := all_true (fun c => (c =? 45)%N) t.

Lemma arg_shape ds name val :
  dashes ds -> no_char 61 name -> (forall c r, name = c :: r -> c <> 45%N) ->
  partition_at 61 (lstrip (fun c => (c =? 45)%N) (ds ++ name ++ 61%N :: val)) = (name, true, val).
Proof.
  intros Hd Hn Hs. rewrite lstrip_all_true by auto.
  assert (E : lstrip (fun c => (c =? 45)%N) (name ++ 61%N :: val) = name ++ 61%N :: val).
  { destruct name as [|c r]; [reflexivity|]. simpl.
    destruct (N.eqb_spec c 45); [exfalso; eapply Hs; eauto|reflexivity]. }
  rewrite E. apply partition_first; auto.
Qed.

Lemma cmd_step os a rest name equals val o :
  starts_dash a = true -> a <> dashdash ->
  partition_at 61 (lstrip (fun c => (c =? 45)%N) a) = (name, equals, val) ->
  lookup (normalize name) os = Some o ->
  cmd_loop os (a :: rest) =
    let go v := let '(o', e) := opt_parse o v in
                match e with Some e => (update o' os, Err e) | None => cmd_loop (update o' os) rest end in
    if equals then go val
    else if ty_eqb (o_ty o) TBool then go w_true else (os, Err EError).
Proof.
  intros Hs Hdd EP EL. simpl. rewrite Hs. simpl.
  rewrite (text_eqb_false a dashdash Hdd). rewrite EP, EL. reflexivity.
Qed.

(* unknown command-line option: rejected, nothing changes *)
Lemma cmd_unknown os a rest :
  starts_dash a = true -> a <> dashdash -> lookup (key_of_arg a) os = None ->
  cmd_loop os (a :: rest) = (os, Err EError).
Proof.
  intros Hs Hdd EL. simpl. rewrite Hs. simpl. rewrite (text_eqb_false a dashdash Hdd).
  unfold key_of_arg in EL.
  destruct (partition_at 61 (lstrip (fun c => (c =? 45)%N) a)) as [[name equals] val].
  simpl in EL. rewrite EL. reflexivity.
Qed.

(* --name without "=value" for a non-bool option: rejected, nothing changes *)
Lemma cmd_missing_value os ds name rest o :
  ds <> [] -> dashes ds -> no_char 61 name -> name <> [] ->
  (forall c r, name = c :: r -> c <> 45%N) ->
  lookup (normalize name) os = Some o -> o_ty o <> TBool ->
  cmd_loop os ((ds ++ name) :: rest) = (os, Err EError).
Proof.
  intros Hne Hd Hn Hnn Hs EL Ht.
  assert (Hsd : starts_dash (ds ++ name) = true).
  { destruct ds as [|c r]; [contradiction|]. inversion Hd; subst. simpl. auto. }
  assert (Hdd : ds ++ name <> dashdash).
  { intros E. destruct name as [|c r]; [contradiction|].
    assert (In c dashdash) by (rewrite <- E; apply in_or_app; right; left; auto).
    specialize (Hs c r eq_refl). simpl in H. destruct H as [H|[H|[]]]; congruence. }
  assert (EP : partition_at 61 (lstrip (fun c => (c =? 45)%N) (ds ++ name)) = (name, false, [])).
  { rewrite lstrip_all_true by auto.
    assert (E : lstrip (fun c => (c =? 45)%N) name = name).
    { destruct name as [|c r]; [reflexivity|]. simpl.
      destruct (N.eqb_spec c 45); [exfalso; eapply Hs; eauto|reflexivity]. }
    rewrite E. apply partition_none; auto. }
  rewrite (cmd_step _ _ _ _ _ _ _ Hsd Hdd EP EL). cbv beta zeta.
  destruct (o_ty o); try contradiction; reflexivity.
Qed.

(* --name=text for a defined option: the text goes through _Option.parse;
   success stores the value and continues, failure raises that error *)
Lemma cmd_assign os ds name val rest o :
  ds <> [] -> dashes ds -> no_char 61 name -> name <> [] ->
  (forall c r, name = c :: r -> c <> 45%N) ->
  lookup (normalize name) os = Some o ->
  cmd_loop os ((ds ++ name ++ 61%N :: val) :: rest) =
    match opt_parse o val with
    | (o', Some e) => (update o' os, Err e)
    | (o', None) => cmd_loop (update o' os) rest
    end.
Proof.
  intros Hne Hd Hn Hnn Hs EL.
  assert (Hsd : starts_dash (ds ++ name ++ 61%N :: val) = true).
  { destruct ds as [|c r]; [contradiction|]. inversion Hd; subst. simpl. auto. }
  assert (Hdd : ds ++ name ++ 61%N :: val <> dashdash).
  { intros E. assert (In 61%N dashdash) by (rewrite <- E; apply in_or_app; right; apply in_or_app; right; left; auto).
    simpl in H. destruct H as [H|[H|[]]]; discriminate. }
  rewrite (cmd_step _ _ _ _ _ _ _ Hsd Hdd (arg_shape ds name val Hd Hn Hs) EL). cbv beta zeta.
  destruct (opt_parse o val) as [o' [e|]]; reflexivity.
Qed.

(* after a successful assignment the option reads back the stored value *)
Lemma read_back os o o' :
  lookup (o_key o) os = Some o -> o_key o' = o_key o ->
  lookup (o_key o) (update o' os) = Some o'.
Proof.
  intros EL Ek. rewrite <- Ek. apply lookup_update_same. rewrite Ek, EL. discriminate.
Qed.

(* the command line ends at the first non-dash argument / at "--" *)
Lemma cmd_positional os a rest : starts_dash a = false -> cmd_loop os (a :: rest) = (os, Ok (a :: rest)).
Proof. intros H. simpl. rewrite H. reflexivity. Qed.
Lemma cmd_dashdash os rest : cmd_loop os (dashdash :: rest) = (os, Ok rest).
Proof. reflexivity. Qed.

(* one-step characterisation of the config loop *)
Lemma cfg_string os name s bs o :
  lookup (normalize name) os = Some o -> (o_ty o <> TStr \/ o_multiple o = true) ->
  cfg_loop os ((name, VStr s) :: bs) =
    match opt_parse o s with
    | (o', Some e) => (update o' os, Some e)
    | (o', None) => cfg_loop (update o' os) bs
    end.
Proof.
  intros EL H. simpl. rewrite EL. rewrite andb_false_r. simpl.
  assert (E : negb (ty_eqb (o_ty o) TStr) || o_multiple o = true).
  { destruct H as [H|H]; [|rewrite H; apply orb_true_r]. destruct (o_ty o); try contradiction; reflexivity. }
  rewrite E. destruct (opt_parse o s) as [o' [e|]]; reflexivity.
Qed.

Lemma cfg_object os name v bs o :
  lookup (normalize name) os = Some o -> is_str v = false -> (o_multiple o = true -> is_list v = true) ->
  cfg_loop os ((name, v) :: bs) =
    match opt_set o v with
    | (o', Some e) => (update o' os, Some e)
    | (o', None) => cfg_loop (update o' os) bs
    end.
Proof.
  intros EL Hs Hl. simpl. rewrite EL, Hs.
  assert (E : o_multiple o && negb (is_list v || false) = false).
  { destruct (o_multiple o); [rewrite Hl by auto; reflexivity|reflexivity]. }
  rewrite E. simpl. destruct (opt_set o v) as [o' [e|]]; reflexivity.
Qed.

(* wrong-typed config objects are refused by _Option.set *)
Lemma opt_set_wrong_type o v :
  o_multiple o = false -> is_none v = false -> inst (o_ty o) v = false -> opt_set o v = (o, Some EError).
Proof. intros Hm Hn Hi. unfold opt_set. rewrite Hm, Hn, Hi. reflexivity. Qed.
Lemma opt_set_right_type o v :
  o_multiple o = false -> inst (o_ty o) v = true -> opt_set o v = (set_value o v, None).
Proof. intros Hm Hi. unfold opt_set. rewrite Hm, Hi, orb_true_r. reflexivity. Qed.

(* ------------------------------------------------------------------ *)
(* options nobody mentions are untouched; names, types and arity never change *)
Definition same_static (o o' : opt) : Prop :=
  o_key o' = o_key o /\ o_ty o' = o_ty o /\ o_multiple o' = o_multiple o.

Lemma opt_parse_static o s : same_static o (fst (opt_parse o s)).
Proof.
  unfold opt_parse, same_static. destruct (o_multiple o) eqn:E.
  - destruct (parse_parts _ _ _). simpl. auto.
  - destruct (parse_one _ _); simpl; auto.
Qed.
Lemma opt_set_static o v : same_static o (fst (opt_set o v)).
Proof.
  unfold opt_set, same_static. destruct (o_multiple o) eqn:E.
  - destruct v; simpl; auto. destruct (forallb _ _); simpl; auto.
  - destruct (_ || _); simpl; auto.
Qed.

Section Unmentioned.
  Variable M : text -> bool.
  Definition R (o o' : opt) := same_static o o' /\ (M (o_key o) = false -> o' = o).

  Lemma R_refl o : R o o. Proof. repeat split; auto. Qed.
  Lemma F2_refl os : Forall2 R os os.
  Proof. induction os; constructor; auto using R_refl. Qed.
  Lemma F2_trans a : forall b c, Forall2 R a b -> Forall2 R b c -> Forall2 R a c.
  Proof.
    induction a as [|x a IH]; intros b c H1 H2; inversion H1; subst; inversion H2; subst; constructor.
    - destruct H3 as [[K1 [T1 U1]] E1], H4 as [[K2 [T2 U2]] E2]. split; [repeat split; congruence|].
      intros Hm. rewrite <- (E1 Hm). apply E2. rewrite (E1 Hm). auto.
    - eapply IH; eauto.
  Qed.
  Lemma update_R o o' os : lookup (o_key o) os = Some o -> same_static o o' -> M (o_key o) = true ->
    Forall2 R os (update o' os).
  Proof.
    intros EL [K [T U]] Hm. induction os as [|x os IH]; simpl in *; [constructor|].
    rewrite K. destruct (text_eqb (o_key x) (o_key o)) eqn:E.
    - inversion EL; subst x. constructor; [|apply F2_refl]. split; [repeat split; auto|]. rewrite Hm. discriminate.
    - constructor; [apply R_refl|auto].
  Qed.

  Lemma cmd_loop_R args : forall os, (forall a, In a args -> M (key_of_arg a) = true) ->
    Forall2 R os (fst (cmd_loop os args)).
  Proof.
    induction args as [|a args IH]; intros os H; simpl; [apply F2_refl|].
    destruct (negb (starts_dash a)); [apply F2_refl|].
    destruct (text_eqb a dashdash); [apply F2_refl|].
    pose proof (H a (or_introl eq_refl)) as Ha. unfold key_of_arg in Ha.
    destruct (partition_at 61 (lstrip (fun c => (c =? 45)%N) a)) as [[name equals] val].
    simpl in Ha. destruct (lookup (normalize name) os) as [o|] eqn:EL; [|apply F2_refl].
    pose proof (lookup_key _ _ _ EL) as EK. rewrite <- EK in EL, Ha.
    assert (G : forall v, Forall2 R os (fst (let '(o', e) := opt_parse o v in
               let os' := update o' os in
               match e with Some e => (os', Err e) | None => cmd_loop os' args end))).
    { intros v. pose proof (opt_parse_static o v) as K. destruct (opt_parse o v) as [o' e]. simpl in K.
      assert (Hu : Forall2 R os (update o' os)) by (apply (update_R o); auto).
      destruct e; simpl; auto. eapply F2_trans; [exact Hu|]. apply IH. intros; apply H; right; auto. }
    destruct equals; [exact (G val)|]. destruct (ty_eqb (o_ty o) TBool); [exact (G w_true)|apply F2_refl].
  Qed.

  Lemma cfg_loop_R bs : forall os, (forall b, In b bs -> M (normalize (fst b)) = true) ->
    Forall2 R os (fst (cfg_loop os bs)).
  Proof.
    induction bs as [|[name v] bs IH]; intros os H; simpl; [apply F2_refl|].
    assert (IH' : forall os, Forall2 R os (fst (cfg_loop os bs))) by (intros; apply IH; intros; apply H; right; auto).
    pose proof (H _ (or_introl eq_refl)) as Ha. simpl in Ha.
    destruct (lookup (normalize name) os) as [o|] eqn:EL; [|auto].
    pose proof (lookup_key _ _ _ EL) as EK. rewrite <- EK in EL, Ha.
    destruct (o_multiple o && negb (is_list v || is_str v)); [apply F2_refl|].
    destruct (if is_str v && (negb (ty_eqb (o_ty o) TStr) || o_multiple o)
              then match v with VStr s => opt_parse o s | _ => (o, None) end
              else opt_set o v) as [o' e] eqn:EO.
    assert (K : same_static o o').
    { destruct (is_str v && (negb (ty_eqb (o_ty o) TStr) || o_multiple o)).
      - destruct v; try (inversion EO; subst; repeat split; reflexivity).
        pose proof (opt_parse_static o t) as K. rewrite EO in K. exact K.
      - pose proof (opt_set_static o v) as K. rewrite EO in K. exact K. }
    assert (Hu : Forall2 R os (update o' os)) by (apply (update_R o); auto).
    destruct e; simpl; auto. eapply F2_trans; [exact Hu|]. auto.
  Qed.

  Lemma set_loop_R bs : forall os, (forall b, In b bs -> M (normalize (fst b)) = true) ->
    Forall2 R os (fst (set_loop os bs)).
  Proof.
    induction bs as [|[name v] bs IH]; intros os H; simpl; [apply F2_refl|].
    assert (IH' : forall os, Forall2 R os (fst (set_loop os bs))) by (intros; apply IH; intros; apply H; right; auto).
    pose proof (H _ (or_introl eq_refl)) as Ha. simpl in Ha.
    destruct (lookup (normalize name) os) as [o|] eqn:EL; [|apply F2_refl].
    pose proof (lookup_key _ _ _ EL) as EK. rewrite <- EK in EL, Ha.
    pose proof (opt_set_static o v) as K. destruct (opt_set o v) as [o' e]. simpl in K.
    assert (Hu : Forall2 R os (update o' os)) by (apply (update_R o); auto).
    destruct e; simpl; auto. eapply F2_trans; [exact Hu|]. auto.
  Qed.

  Lemma run_sources_R ss : forall os,
    (forall s k, In s ss -> mentions k s = true -> M k = true) ->
    Forall2 R os (fst (run_sources os ss)).
  Proof.
    induction ss as [|s ss IH]; intros os H; simpl; [apply F2_refl|].
    assert (IH' : forall os, Forall2 R os (fst (run_sources os ss))) by (intros; apply IH; intros; eapply H; eauto; right; auto).
    destruct s as [argv|bs|bs].
    - assert (F : Forall2 R os (fst (parse_command_line os argv))).
      { unfold parse_command_line. destruct argv as [|a0 args]; [apply F2_refl|].
        apply cmd_loop_R. intros a Ha. apply (H (SCmd (a0 :: args))); [left; auto|].
        simpl. apply orb_true_iff. right. apply existsb_exists. exists a. split; auto. apply text_eqb_refl. }
      destruct (parse_command_line os argv) as [os' [rem|e]]; simpl in F; [|exact F].
      specialize (IH' os'). destruct (run_sources os' ss) as [os'' outs]. simpl in *. eapply F2_trans; eauto.
    - assert (F : Forall2 R os (fst (cfg_loop os bs))).
      { apply cfg_loop_R. intros b Hb. apply (H (SCfg bs)); [left; auto|].
        simpl. apply existsb_exists. exists b. split; auto. apply text_eqb_refl. }
      destruct (cfg_loop os bs) as [os' [e|]]; simpl in F; [exact F|].
      specialize (IH' os'). destruct (run_sources os' ss) as [os'' outs]. simpl in *. eapply F2_trans; eauto.
    - assert (F : Forall2 R os (fst (set_loop os bs))).
      { apply set_loop_R. intros b Hb. apply (H (SSet bs)); [left; auto|].
        simpl. apply existsb_exists. exists b. split; auto. apply text_eqb_refl. }
      destruct (set_loop os bs) as [os' [e|]]; simpl in F; [exact F|].
      specialize (IH' os'). destruct (run_sources os' ss) as [os'' outs]. simpl in *. eapply F2_trans; eauto.
  Qed.

  Lemma lookup_R os os' k : Forall2 R os os' -> M k = false -> lookup k os' = lookup k os.
  Proof.
    induction 1 as [|o o' os os' [[K _] E] _ IH]; intros Hk; simpl; auto.
    rewrite K. destruct (text_eqb (o_key o) k) eqn:Ek; auto.
    apply text_eqb_true in Ek. rewrite E by congruence. reflexivity.
  Qed.
End Unmentioned.

Lemma run_sources_unmentioned os ss k :
  mentioned k ss = false -> lookup k (fst (run_sources os ss)) = lookup k os.
Proof.
  intros Hk. apply (lookup_R (fun k => mentioned k ss)); auto.
  apply run_sources_R. intros s k' Hs Hm. unfold mentioned. apply existsb_exists. exists s. auto.
Qed.

(* ------------------------------------------------------------------ *)
(* define                                                              *)
Definition init_opt (d : optdef) : opt :=
  {| o_key := normalize (d_name d);
     o_ty := match d_ty d with
             | Some t => t
             | None => if negb (d_multiple d) && negb (is_none (d_default d))
                       then type_of_value (d_default d) else TStr
             end;
     o_multiple := d_multiple d;
     o_default := eff_default d;
     o_value := None |}.
Definition def_key (d : optdef) : text := normalize (d_name d).

Lemma define_all_spec ds : forall os,
  define_all os ds =
    if dup_from (map o_key os) (map def_key ds) then None else Some (os ++ map init_opt ds).
Proof.
  induction ds as [|d ds IH]; intros os; simpl.
  - rewrite app_nil_r. reflexivity.
  - unfold define1. fold (def_key d).
    destruct (lookup (def_key d) os) as [o|] eqn:EL.
    + assert (E : existsb (text_eqb (def_key d)) (map o_key os) = true).
      { destruct (existsb _ _) eqn:E; auto. apply lookup_none in E. congruence. }
      rewrite E. reflexivity.
    + apply lookup_none in EL. rewrite EL. simpl. rewrite IH.
      rewrite map_app. simpl. rewrite <- app_assoc. reflexivity.
Qed.

Lemma define_all_fresh defs os :
  define_all [] defs = Some os -> os = map init_opt defs.
Proof. rewrite define_all_spec. simpl. destruct (dup_from _ _); [discriminate|]. intros [= <-]. reflexivity. Qed.

(* an option that no source mentions still has its default afterwards *)
Lemma unset_keeps_default defs os ss k o :
  define_all [] defs = Some os -> lookup k os = Some o -> mentioned k ss = false ->
  exists o', lookup k (fst (run_sources os ss)) = Some o' /\ opt_value o' = o_default o.
Proof.
  intros Hd EL Hm. exists o. rewrite run_sources_unmentioned by auto. split; auto.
  apply define_all_fresh in Hd. subst os. apply lookup_in in EL.
  apply in_map_iff in EL as [d [<- _]]. reflexivity.
Qed.

(* ------------------------------------------------------------------ *)
(* the model satisfies the checker                                     *)
Lemma list_eqb_N_refl (l : list N) : list_eqb N.eqb l l = true.
Proof. induction l as [|x l IH]; simpl; [reflexivity|]. rewrite N.eqb_refl, IH. reflexivity. Qed.

Lemma obs_eqb_refl : forall o, obs_eqb o o = true.
Proof.
  fix IH 1. intros o. destruct o as [|b|z|l|s|l]; simpl.
  - reflexivity.
  - destruct b; reflexivity.
  - apply Z.eqb_refl.
  - apply list_eqb_N_refl.
  - apply String.eqb_refl.
  - revert l. fix IHl 1. intros [|a l]; [reflexivity|].
    rewrite IH. simpl. apply IHl.
Qed.

Lemma defaults_kept_model ss defs : forall os',
  Forall2 (R (fun k => mentioned k ss)) (map init_opt defs) os' ->
  defaults_kept ss defs (map (fun o => value_obs (opt_value o)) os') = true.
Proof.
  induction defs as [|d defs IH]; intros os' H; inversion H; subst; simpl; auto.
  rewrite IH by auto. rewrite andb_true_r.
  destruct H2 as [[K _] E]. simpl in E.
  destruct (mentioned (normalize (d_name d)) ss); [reflexivity|].
  rewrite (E eq_refl). simpl. apply obs_eqb_refl.
Qed.

Lemma unknown_raises keys args : forall os,
  map o_key os = keys -> unknown_before_end keys args = true ->
  exists e, snd (cmd_loop os args) = Err e.
Proof.
  induction args as [|a args IH]; intros os Hk Hu; simpl in *; [discriminate|].
  destruct (negb (starts_dash a)); [discriminate|].
  destruct (text_eqb a dashdash); [discriminate|].
  unfold key_of_arg in Hu.
  destruct (partition_at 61 (lstrip (fun c => (c =? 45)%N) a)) as [[name equals] val].
  simpl in Hu.
  destruct (lookup (normalize name) os) as [o|] eqn:EL.
  - assert (Ex : existsb (text_eqb (normalize name)) keys = true).
    { destruct (existsb _ _) eqn:E; auto. rewrite <- Hk in E. apply lookup_none in E. congruence. }
    rewrite Ex in Hu.
    assert (G : forall v, exists e, snd (let '(o', e) := opt_parse o v in
               let os' := update o' os in
               match e with Some e => (os', Err e) | None => cmd_loop os' args end) = Err e).
    { intros v. destruct (opt_parse o v) as [o' [e|]]; simpl; [eauto|].
      apply IH; auto. rewrite update_keys. auto. }
    destruct equals; [exact (G val)|]. destruct (ty_eqb (o_ty o) TBool); [exact (G w_true)|simpl; eauto].
  - simpl; eauto.
Qed.

(* (4) accepted assignments are well-typed, element-wise *)
Definition rel (d : optdef) (o : opt) : Prop :=
  o_key o = def_key d /\ o_ty o = eff_ty d /\ o_multiple o = d_multiple d.
Definition MT : text -> bool := fun _ => true.

Lemma rel_init defs : Forall2 rel defs (map init_opt defs).
Proof. induction defs; simpl; constructor; auto. repeat split. Qed.
Lemma rel_R defs os : forall os', Forall2 rel defs os -> Forall2 (R MT) os os' -> Forall2 rel defs os'.
Proof.
  intros os' H. revert os'. induction H as [|d o defs os [K [T U]] _ IH]; intros os' HR; inversion HR; subst; constructor.
  - destruct H1 as [[K' [T' U']] _]. repeat split; congruence.
  - apply IH. auto.
Qed.
Lemma lookup_find defs os k : Forall2 rel defs os ->
  match lookup k os with
  | Some o => exists d, find_def k defs = Some d /\ rel d o
  | None => find_def k defs = None
  end.
Proof.
  induction 1 as [|d o defs os Hr _ IH]; simpl; auto.
  destruct Hr as [K TU]. rewrite K. unfold def_key.
  destruct (text_eqb (normalize (d_name d)) k); [|exact IH].
  exists d. split; auto. split; auto.
Qed.
Lemma opt_set_ok o v o' : opt_set o v = (o', None) -> acceptable (o_ty o) (o_multiple o) v = true.
Proof.
  unfold opt_set, acceptable. destruct (o_multiple o).
  - destruct v; try discriminate. destruct (forallb _ _); [reflexivity|discriminate].
  - destruct (_ || _); [reflexivity|discriminate].
Qed.
Lemma update_rel defs os o o' : Forall2 rel defs os -> lookup (o_key o) os = Some o -> same_static o o' ->
  Forall2 rel defs (update o' os).
Proof. intros Hr EL Hs. eapply rel_R; [exact Hr|]. apply (update_R MT o); auto. Qed.

Lemma cfg_ok defs bs : forall os os', Forall2 rel defs os -> cfg_loop os bs = (os', None) ->
  forallb (binding_ok defs true) bs = true.
Proof.
  induction bs as [|[name v] bs IH]; intros os os' Hr H; simpl in *; auto.
  unfold binding_ok at 1. cbn [fst snd].
  pose proof (lookup_find defs os (normalize name) Hr) as LF.
  destruct (lookup (normalize name) os) as [o|] eqn:EL.
  - destruct LF as [d [Fd [K [T U]]]]. rewrite Fd.
    pose proof (lookup_key _ _ _ EL) as EK. rewrite <- EK in EL.
    destruct (o_multiple o && negb (is_list v || is_str v)); [discriminate|].
    destruct (is_str v && (negb (ty_eqb (o_ty o) TStr) || o_multiple o)) eqn:Eb.
    + apply andb_true_iff in Eb as [Es _]. rewrite Es. simpl.
      destruct v; try discriminate.
      pose proof (opt_parse_static o t) as St. destruct (opt_parse o t) as [o' [e|]]; [discriminate|].
      eapply IH; [|exact H]. eapply update_rel; eauto.
    + pose proof (opt_set_static o v) as St. destruct (opt_set o v) as [o' [e|]] eqn:Eo; [discriminate|].
      rewrite <- T, <- U, (opt_set_ok _ _ _ Eo), orb_true_r. simpl.
      eapply IH; [|exact H]. eapply update_rel; eauto.
  - rewrite LF. simpl. eapply IH; eauto.
Qed.
Lemma set_ok defs bs : forall os os', Forall2 rel defs os -> set_loop os bs = (os', None) ->
  forallb (binding_ok defs false) bs = true.
Proof.
  induction bs as [|[name v] bs IH]; intros os os' Hr H; simpl in *; auto.
  unfold binding_ok at 1. cbn [fst snd].
  pose proof (lookup_find defs os (normalize name) Hr) as LF.
  destruct (lookup (normalize name) os) as [o|] eqn:EL; [|discriminate].
  destruct LF as [d [Fd [K [T U]]]]. rewrite Fd.
  pose proof (lookup_key _ _ _ EL) as EK. rewrite <- EK in EL.
  pose proof (opt_set_static o v) as St. destruct (opt_set o v) as [o' [e|]] eqn:Eo; [discriminate|].
  rewrite <- T, <- U, (opt_set_ok _ _ _ Eo). simpl.
  eapply IH; [|exact H]. eapply update_rel; eauto.
Qed.

Lemma accepted_model defs ss : forall os os' outs, Forall2 rel defs os ->
  run_sources os ss = (os', outs) -> accepted_ok defs ss (map outcome_obs outs) = true.
Proof.
  induction ss as [|s ss IH]; intros os os' outs Hr H; simpl in H.
  - inversion H; subst. reflexivity.
  - destruct s as [argv|bs|bs].
    + destruct (parse_command_line os argv) as [os1 [rem|e]] eqn:EP.
      * assert (Hr1 : Forall2 rel defs os1).
        { eapply rel_R; [exact Hr|]. replace os1 with (fst (parse_command_line os argv)) by (rewrite EP; auto).
          unfold parse_command_line. destruct argv; [apply F2_refl|]. apply cmd_loop_R. reflexivity. }
        destruct (run_sources os1 ss) as [os2 outs2] eqn:ER. inversion H; subst.
        simpl. eapply IH; eauto.
      * inversion H; subst. simpl. destruct e; destruct ss; reflexivity.
    + destruct (cfg_loop os bs) as [os1 [e|]] eqn:EC.
      * inversion H; subst. simpl. destruct e; destruct ss; reflexivity.
      * assert (Hr1 : Forall2 rel defs os1).
        { eapply rel_R; [exact Hr|]. replace os1 with (fst (cfg_loop os bs)) by (rewrite EC; auto).
          apply cfg_loop_R. reflexivity. }
        destruct (run_sources os1 ss) as [os2 outs2] eqn:ER. inversion H; subst.
        simpl. rewrite (cfg_ok defs bs os os1 Hr EC). simpl. eapply IH; eauto.
    + destruct (set_loop os bs) as [os1 [e|]] eqn:EC.
      * inversion H; subst. simpl. destruct e; destruct ss; reflexivity.
      * assert (Hr1 : Forall2 rel defs os1).
        { eapply rel_R; [exact Hr|]. replace os1 with (fst (set_loop os bs)) by (rewrite EC; auto).
          apply set_loop_R. reflexivity. }
        destruct (run_sources os1 ss) as [os2 outs2] eqn:ER. inversion H; subst.
        simpl. rewrite (set_ok defs bs os os1 Hr EC). simpl. eapply IH; eauto.
Qed.

(* ------------------------------------------------------------------ *)
(* attribute assignment (options.name = value) and element-wise typing  *)
Lemma set_unknown os name v bs : lookup (normalize name) os = None ->
  set_loop os ((name, v) :: bs) = (os, Some EAttributeError).
Proof. intros H. simpl. rewrite H. reflexivity. Qed.
Lemma set_step os name v bs o : lookup (normalize name) os = Some o ->
  set_loop os ((name, v) :: bs) =
    match opt_set o v with
    | (o', Some e) => (update o' os, Some e)
    | (o', None) => set_loop (update o' os) bs
    end.
Proof. intros H. simpl. rewrite H. destruct (opt_set o v) as [o' [e|]]; reflexivity. Qed.

Lemma opt_set_list_elementwise o l x :
  o_multiple o = true -> In x l -> is_none x = false -> inst (o_ty o) x = false ->
  opt_set o (VList l) = (o, Some EError).
Proof.
  intros Hm Hin Hn Hi. unfold opt_set. rewrite Hm.
  assert (E : forallb (fun x => is_none x || inst (o_ty o) x) l = false).
  { destruct (forallb _ l) eqn:E; auto. rewrite forallb_forall in E. specialize (E x Hin). rewrite Hn, Hi in E. discriminate. }
  rewrite E. reflexivity.
Qed.
Lemma opt_set_list_ok o l :
  o_multiple o = true -> (forall x, In x l -> is_none x = true \/ inst (o_ty o) x = true) ->
  opt_set o (VList l) = (set_value o (VList l), None).
Proof.
  intros Hm H. unfold opt_set. rewrite Hm.
  assert (E : forallb (fun x => is_none x || inst (o_ty o) x) l = true).
  { apply forallb_forall. intros x Hx. destruct (H x Hx) as [E|E]; rewrite E; auto using orb_true_r. }
  rewrite E. reflexivity.
Qed.

Lemma rel_defined defs os : define_all [] defs = Some os -> Forall2 rel defs os.
Proof. intros H. apply define_all_fresh in H. subst. apply rel_init. Qed.

Theorem accepted_sources_well_typed defs os ss os' outs :
  define_all [] defs = Some os -> run_sources os ss = (os', outs) ->
  accepted_ok defs ss (map outcome_obs outs) = true.
Proof. intros Hd Hr. eapply accepted_model; [apply rel_defined; eauto|eauto]. Qed.
