(* C44 — executable entry points used by the correspondence check. *)
From Coq Require Import List ZArith NArith Bool String.
Import ListNotations.
From TV Require Import Lib.Obs C44.Model.
Local Open Scope Z_scope.

Definition err_tag (e : err) : obs :=
  OTag (match e with
        | EError => "Error" | EValueError => "ValueError" | ETypeError => "TypeError"
        | EOverflowError => "OverflowError" | EException => "Exception" | EAttributeError => "AttributeError"
        end)%string.

(* doubles are observed as (odd mantissa, exponent); the sign of zero is not observed *)
Fixpoint strip2 (p : positive) (e : Z) : positive * Z :=
  match p with xO p' => strip2 p' (e + 1) | _ => (p, e) end.
Definition canon (m e : Z) : Z * Z :=
  match m with
  | Z0 => (0, 0)
  | Zpos p => let '(p', e') := strip2 p e in (Zpos p', e')
  | Zneg p => let '(p', e') := strip2 p e in (Zneg p', e')
  end.
Definition fl_obs (f : fl) : obs :=
  match f with
  | FFin m e => let '(m', e') := canon m e in OList [OTag "f"; OInt m'; OInt e']
  | FInf false => OTag "inf"
  | FInf true => OTag "-inf"
  | FNan => OTag "nan"
  end.

Fixpoint value_obs (v : value) : obs :=
  match v with
  | VNone => ONone
  | VStr t => OBytes t
  | VInt z => OInt z
  | VBool b => OBool b
  | VFloat f => fl_obs f
  | VDt d => OList [OTag "dt"; OInt (dt_Y d); OInt (dt_m d); OInt (dt_d d); OInt (dt_H d); OInt (dt_M d); OInt (dt_S d)]
  | VTd us => OList [OTag "td"; OInt us]
  | VList l => OList (map value_obs l)
  end.

Definition outcome_obs (r : res (list text)) : obs :=
  match r with Ok rem => OList (map OBytes rem) | Err e => err_tag e end.

Definition dd := Build_optdef.
Definition dt := Build_dtv.
Definition input := (list optdef * list source)%type.

Definition run_case (i : input) : obs :=
  let '(defs, srcs) := i in
  match define_all [] defs with
  | None => OList [OTag "DefineError"]
  | Some os =>
      let '(os', outs) := run_sources os srcs in
      OList [OList (map outcome_obs outs); OList (map (fun o => value_obs (opt_value o)) os')]
  end.

(* ------------------------------------------------------------------ *)
(* The property on observables, formulated without running the parser:
   (1) defining two options with the same normalised name is refused;
   (2) an option that no command line / config file mentions keeps its default;
   (3) a command line that names an undefined option before its options end
       (first non-dash argument or "--") raises;
   (4) values of the wrong type are rejected, element-wise: a config file / a run of
       attribute assignments that completed without raising bound every defined
       option only to None, a value of its type, or (multiple) a list all of whose
       elements are None or of its type; config strings go through parse instead;
       assigning to an undefined option raises;
   (5) a timedelta text denotes the sum of its components (td_first_ok below). *)
Definition key_of_arg (a : text) : text :=
  normalize (fst (fst (partition_at 61 (lstrip (fun c => (c =? 45)%N) a)))).

Definition mentions (k : text) (s : source) : bool :=
  match s with
  | SCmd argv => existsb (fun a => text_eqb (key_of_arg a) k) argv
  | SCfg bs | SSet bs => existsb (fun b => text_eqb (normalize (fst b)) k) bs
  end.
Definition mentioned (k : text) (ss : list source) : bool := existsb (mentions k) ss.

Fixpoint dup_from (seen ks : list text) : bool :=
  match ks with
  | [] => false
  | k :: ks' => existsb (text_eqb k) seen || dup_from (seen ++ [k]) ks'
  end.
Definition has_dup (ks : list text) : bool := dup_from [] ks.

Definition eff_default (d : optdef) : value :=
  if is_none (d_default d) && d_multiple d then VList [] else d_default d.

Fixpoint unknown_before_end (keys : list text) (args : list text) : bool :=
  match args with
  | [] => false
  | a :: rest =>
      if negb (starts_dash a) then false
      else if text_eqb a dashdash then false
      else if existsb (text_eqb (key_of_arg a)) keys then unknown_before_end keys rest
      else true
  end.

Fixpoint defaults_kept (ss : list source) (defs : list optdef) (vals : list obs) : bool :=
  match defs, vals with
  | [], [] => true
  | d :: defs', v :: vals' =>
      (mentioned (normalize (d_name d)) ss || obs_eqb v (value_obs (eff_default d)))
      && defaults_kept ss defs' vals'
  | _, _ => false
  end.

Definition eff_ty (d : optdef) : ty :=
  match d_ty d with
  | Some t => t
  | None => if negb (d_multiple d) && negb (is_none (d_default d))
            then type_of_value (d_default d) else TStr
  end.
Definition acceptable (t : ty) (multiple : bool) (v : value) : bool :=
  if multiple then match v with
                   | VList l => forallb (fun x => is_none x || inst t x) l
                   | _ => false
                   end
  else is_none v || inst t v.
Fixpoint find_def (k : text) (defs : list optdef) : option optdef :=
  match defs with
  | [] => None
  | d :: defs' => if text_eqb (normalize (d_name d)) k then Some d else find_def k defs'
  end.
(* [cfg]: config-file semantics (strings are parsed, unknown names ignored) *)
Definition binding_ok (defs : list optdef) (cfg : bool) (b : text * value) : bool :=
  match find_def (normalize (fst b)) defs with
  | None => cfg
  | Some d => (cfg && is_str (snd b)) || acceptable (eff_ty d) (d_multiple d) (snd b)
  end.
Definition source_ok (defs : list optdef) (s : source) : bool :=
  match s with
  | SCmd _ => true
  | SCfg bs => forallb (binding_ok defs true) bs
  | SSet bs => forallb (binding_ok defs false) bs
  end.
Fixpoint accepted_ok (defs : list optdef) (ss : list source) (outs : list obs) : bool :=
  match ss, outs with
  | s :: ss', o :: outs' =>
      (match o with OTag _ => true | _ => source_ok defs s end) && accepted_ok defs ss' outs'
  | _, _ => true
  end.

Inductive tdunit := Uh | Uhours | Um | Umin | Uminutes | Us | Usec | Useconds
                  | Ums | Umilliseconds | Uus | Umicroseconds | Ud | Udays | Uw | Uweeks.
Definition unit_text (u : tdunit) : text :=
  match u with
  | Uh => [104] | Uhours => [104;111;117;114;115]
  | Um => [109] | Umin => [109;105;110] | Uminutes => [109;105;110;117;116;101;115]
  | Us => [115] | Usec => [115;101;99] | Useconds => [115;101;99;111;110;100;115]
  | Ums => [109;115] | Umilliseconds => [109;105;108;108;105;115;101;99;111;110;100;115]
  | Uus => [117;115] | Umicroseconds => [109;105;99;114;111;115;101;99;111;110;100;115]
  | Ud => [100] | Udays => [100;97;121;115]
  | Uw => [119] | Uweeks => [119;101;101;107;115]
  end%N.
Definition unit_us (u : tdunit) : Z :=
  match u with
  | Uh | Uhours => 3600000000
  | Um | Umin | Uminutes => 60000000
  | Us | Usec | Useconds => 1000000
  | Ums | Umilliseconds => 1000
  | Uus | Umicroseconds => 1
  | Ud | Udays => 86400000000
  | Uw | Uweeks => 604800000000
  end.


(* ------------------------------------------------------------------ *)
(* (5) "a timedelta text denotes the SUM of its components": an independent reference reading of
   the simple form  <int><unit> <int><unit> ...  (single blanks, any of the 16 unit spellings, the
   last component may omit the unit = seconds, components may be negative): tokenise on blanks,
   look the unit up in a table, add.  None = the text is not of this form (no claim). *)
Definition two53 : Z := 9007199254740992.
Definition all_units : list tdunit :=
  [Uh; Uhours; Um; Umin; Uminutes; Us; Usec; Useconds; Ums; Umilliseconds; Uus; Umicroseconds; Ud; Udays; Uw; Uweeks].
Fixpoint assoc_unit (u : text) (l : list tdunit) : option Z :=
  match l with
  | [] => None
  | x :: l' => if text_eqb u (unit_text x) then Some (unit_us x) else assoc_unit u l'
  end.
Definition td_token (last : bool) (tok : text) : option Z :=
  let '(neg, b) := split_sign tok in
  let '(ds, u) := span is_digit b in
  match ds with
  | [] => None
  | _ =>
      let n := Z.of_N (digits_val ds 0) in
      if two53 <=? n then None
      else match (match u with
                  | [] => if last then Some 1000000 else None
                  | _ => assoc_unit u all_units
                  end) with
           | Some f => Some ((if neg then - n else n) * f)
           | None => None
           end
  end.
Fixpoint td_sum (toks : list text) (acc : Z) : option Z :=
  match toks with
  | [] => Some acc
  | t :: ts =>
      match td_token (match ts with [] => true | _ => false end) t with
      | Some v => if td_in_range v && td_in_range (acc + v) then td_sum ts (acc + v) else None
      | None => None
      end
  end.
Definition td_ref (t : text) : option Z :=
  match t with [] => Some 0 | _ => td_sum (split_on 32 t) 0 end.

Definition td_obs (us : Z) : obs := OList [OTag "td"; OInt us].
Fixpoint all_some_z (l : list (option Z)) : option (list Z) :=
  match l with
  | [] => Some []
  | Some a :: l' => match all_some_z l' with Some r => Some (a :: r) | None => None end
  | None :: _ => None
  end.
Definition td_expected (multiple : bool) (val : text) : option obs :=
  if multiple then
    match all_some_z (map td_ref (split_on 44 val)) with
    | Some l => Some (OList (map td_obs l))
    | None => None
    end
  else match td_ref val with Some s => Some (td_obs s) | None => None end.
Fixpoint val_at (k : text) (defs : list optdef) (vals : list obs) : option obs :=
  match defs, vals with
  | d :: defs', v :: vals' => if text_eqb (normalize (d_name d)) k then Some v else val_at k defs' vals'
  | _, _ => None
  end.
(* the option [k], assigned the text [val] and never mentioned again, must show the reference sum *)
Definition td_claim (defs : list optdef) (k val : text) (vals : list obs) : bool :=
  match find_def k defs with
  | Some d =>
      if ty_eqb (eff_ty d) TTimedelta then
        match td_expected (d_multiple d) val with
        | Some e => match val_at k defs vals with Some v => obs_eqb v e | None => false end
        | None => true
        end
      else true
  | None => true
  end.
Definition td_first_ok (defs : list optdef) (srcs : list source) (vals : list obs) : bool :=
  match srcs with
  | SCmd (a0 :: a :: rest) :: ss =>
      let '(name, eq, val) := partition_at 61 (lstrip (fun c => (c =? 45)%N) a) in
      if starts_dash a && eq && negb (mentioned (normalize name) (SCmd (a0 :: rest) :: ss))
      then td_claim defs (normalize name) val vals else true
  | SCfg ((name, VStr val) :: bs) :: ss =>
      if negb (mentioned (normalize name) (SCfg bs :: ss))
      then td_claim defs (normalize name) val vals else true
  | _ => true
  end.

Definition check_case (i : input) (o : obs) : bool :=
  let '(defs, srcs) := i in
  let keys := map (fun d => normalize (d_name d)) defs in
  if has_dup keys then obs_eqb o (OList [OTag "DefineError"])
  else
    match o with
    | OList [OList outs; OList vals] =>
        defaults_kept srcs defs vals
        && accepted_ok defs srcs outs
        && td_first_ok defs srcs vals
        && match srcs with
           | SCmd (_ :: args) :: _ =>
               if unknown_before_end keys args
               then match outs with [OTag _] => true | _ => false end
               else true
           | _ => true
           end
    | _ => false
    end.
