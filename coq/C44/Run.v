(* C44 — executable entry points used by the correspondence check. *)
From Coq Require Import List ZArith NArith Bool String.
Import ListNotations.
From TV Require Import Lib.Obs C44.Model.
Local Open Scope Z_scope.

Definition err_tag (e : err) : obs :=
  OTag (match e with
        | EError => "Error" | EValueError => "ValueError" | ETypeError => "TypeError"
        | EOverflowError => "OverflowError" | EException => "Exception" | EAttributeError => "AttributeError"
        end)%string.

(* doubles are observed as (odd mantissa, exponent); the sign of zero is not observed *)
Fixpoint strip2 (p : positive) (e : Z) : positive * Z :=
  match p with xO p' => strip2 p' (e + 1) | _ => (p, e) end.
Definition canon (m e : Z) : Z * Z :=
  match m with
  | Z0 => (0, 0)
  | Zpos p => let '(p', e') := strip2 p e in (Zpos p', e')
  | Zneg p => let '(p', e') := strip2 p e in (Zneg p', e')
  end.
Definition fl_obs (f : fl) : obs :=
  match f with
  | FFin m e => let '(m', e') := canon m e in OList [OTag "f"; OInt m'; OInt e']
  | FInf false => OTag "inf"
  | FInf true => OTag "-inf"
  | FNan => OTag "nan"
  end.

Fixpoint value_obs (v : value) : obs :=
  match v with
  | VNone => ONone
  | VStr t => OBytes t
  | VInt z => OInt z
  | VBool b => OBool b
  | VFloat f => fl_obs f
  | VDt d => OList [OTag "dt"; OInt (dt_Y d); OInt (dt_m d); OInt (dt_d d); OInt (dt_H d); OInt (dt_M d); OInt (dt_S d)]
  | VTd us => OList [OTag "td"; OInt us]
  | VList l => OList (map value_obs l)
  end.

Definition outcome_obs (r : res (list text)) : obs :=
  match r with Ok rem => OList (map OBytes rem) | Err e => err_tag e end.

Definition dd := Build_optdef.
Definition dt := Build_dtv.
Definition input := (list optdef * list source)%type.

Definition run_case (i : input) : obs :=
  let '(defs, srcs) := i in
  match define_all [] defs with
  | None => OList [OTag "DefineError"]
  | Some os =>
      let '(os', outs) := run_sources os srcs in
      OList [OList (map outcome_obs outs); OList (map (fun o => value_obs (opt_value o)) os')]
  end.

(* ------------------------------------------------------------------ *)
(* The property on observables, formulated without running the parser:
   (1) defining two options with the same normalised name is refused;
   (2) an option that no command line / config file mentions keeps its default;
   (3) a command line that names an undefined option before its options end
       (first non-dash argument or "--") raises;
   (4) values of the wrong type are rejected, element-wise: a config file / a run of
       attribute assignments that completed without raising bound every defined
       option only to None, a value of its type, or (multiple) a list all of whose
       elements are None or of its type; config strings go through parse instead;
       assigning to an undefined option raises. *)
Definition key_of_arg (a : text) : text :=
  normalize (fst (fst (partition_at 61 (lstrip (fun c => (c =? 45)%N) a)))).

Definition mentions (k : text) (s : source) : bool :=
  match s with
  | SCmd argv => existsb (fun a => text_eqb (key_of_arg a) k) argv
  | SCfg bs | SSet bs => existsb (fun b => text_eqb (normalize (fst b)) k) bs
  end.
Definition mentioned (k : text) (ss : list source) : bool := existsb (mentions k) ss.

Fixpoint dup_from (seen ks : list text) : bool :=
  match ks with
  | [] => false
  | k :: ks' => existsb (text_eqb k) seen || dup_from (seen ++ [k]) ks'
  end.
Definition has_dup (ks : list text) : bool := dup_from [] ks.

Definition eff_default (d : optdef) : value :=
  if is_none (d_default d) && d_multiple d then VList [] else d_default d.

Fixpoint unknown_before_end (keys : list text) (args : list text) : bool :=
  match args with
  | [] => false
  | a :: rest =>
      if negb (starts_dash a) then false
      else if text_eqb a dashdash then false
      else if existsb (text_eqb (key_of_arg a)) keys then unknown_before_end keys rest
      else true
  end.

Fixpoint defaults_kept (ss : list source) (defs : list optdef) (vals : list obs) : bool :=
  match defs, vals with
  | [], [] => true
  | d :: defs', v :: vals' =>
      (mentioned (normalize (d_name d)) ss || obs_eqb v (value_obs (eff_default d)))
      && defaults_kept ss defs' vals'
  | _, _ => false
  end.

Definition eff_ty (d : optdef) : ty :=
  match d_ty d with
  | Some t => t
  | None => if negb (d_multiple d) && negb (is_none (d_default d))
            then type_of_value (d_default d) else TStr
  end.
Definition acceptable (t : ty) (multiple : bool) (v : value) : bool :=
  if multiple then match v with
                   | VList l => forallb (fun x => is_none x || inst t x) l
                   | _ => false
                   end
  else is_none v || inst t v.
Fixpoint find_def (k : text) (defs : list optdef) : option optdef :=
  match defs with
  | [] => None
  | d :: defs' => if text_eqb (normalize (d_name d)) k then Some d else find_def k defs'
  end.
(* [cfg]: config-file semantics (strings are parsed, unknown names ignored) *)
Definition binding_ok (defs : list optdef) (cfg : bool) (b : text * value) : bool :=
  match find_def (normalize (fst b)) defs with
  | None => cfg
  | Some d => (cfg && is_str (snd b)) || acceptable (eff_ty d) (d_multiple d) (snd b)
  end.
Definition source_ok (defs : list optdef) (s : source) : bool :=
  match s with
  | SCmd _ => true
  | SCfg bs => forallb (binding_ok defs true) bs
  | SSet bs => forallb (binding_ok defs false) bs
  end.
Fixpoint accepted_ok (defs : list optdef) (ss : list source) (outs : list obs) : bool :=
  match ss, outs with
  | s :: ss', o :: outs' =>
      (match o with OTag _ => true | _ => source_ok defs s end) && accepted_ok defs ss' outs'
  | _, _ => true
  end.

Definition check_case (i : input) (o : obs) : bool :=
  let '(defs, srcs) := i in
  let keys := map (fun d => normalize (d_name d)) defs in
  if has_dup keys then obs_eqb o (OList [OTag "DefineError"])
  else
    match o with
    | OList [OList outs; OList vals] =>
        defaults_kept srcs defs vals
        && accepted_ok defs srcs outs
        && match srcs with
           | SCmd (_ :: args) :: _ =>
               if unknown_before_end keys args
               then match outs with [OTag _] => true | _ => false end
               else true
           | _ => true
           end
    | _ => false
    end.
