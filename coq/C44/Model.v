(* C44 — tornado.options: executable model of _Option.parse / set,
   OptionParser.define / parse_command_line / parse_config_file.
   Definitions only.  Text = list of code points (N); the model is exact for
   code points < 256 (see NOTES.md for the Unicode caveat). *)
From Coq Require Import List ZArith NArith Bool.
Import ListNotations.
Local Open Scope Z_scope.

Definition text := list N.

(* ------------------------------------------------------------------ *)
(* characters                                                          *)
Definition in_range (lo hi c : N) : bool := (lo <=? c)%N && (c <=? hi)%N.
Definition is_digit (c : N) : bool := in_range 48 57 c.
(* whitespace stripped by int()/float(): Py_ISSPACE on ASCII, and the
   non-ASCII Unicode spaces (mapped to ' ' first); < 256 these are 0x85, 0xa0 *)
Definition is_ws_num (c : N) : bool :=
  in_range 9 13 c || (c =? 32)%N || (c =? 133)%N || (c =? 160)%N.
(* regex \s on str (= str.isspace) *)
Definition is_ws_re (c : N) : bool := is_ws_num c || in_range 28 31 c.
(* regex \w on str, code points < 256 *)
Definition is_word (c : N) : bool :=
  is_digit c || in_range 65 90 c || in_range 97 122 c || (c =? 95)%N
  || (c =? 170)%N || (c =? 178)%N || (c =? 179)%N || (c =? 181)%N
  || (c =? 185)%N || (c =? 186)%N || in_range 188 190 c
  || in_range 192 214 c || in_range 216 246 c || in_range 248 255 c.
Definition lower (c : N) : N := if in_range 65 90 c then (c + 32)%N else c.

Fixpoint lstrip (p : N -> bool) (t : text) : text :=
  match t with c :: t' => if p c then lstrip p t' else t | [] => [] end.
Definition rstrip p (t : text) : text := rev (lstrip p (rev t)).
Definition strip p (t : text) : text := rstrip p (lstrip p t).

Fixpoint span (p : N -> bool) (t : text) : text * text :=
  match t with
  | c :: t' => if p c then let '(a, b) := span p t' in (c :: a, b) else ([], t)
  | [] => ([], [])
  end.

Fixpoint text_eqb (a b : text) : bool :=
  match a, b with
  | [], [] => true
  | x :: a', y :: b' => (x =? y)%N && text_eqb a' b'
  | _, _ => false
  end.

(* str.partition(sep): (before, found, after) at the first occurrence *)
Fixpoint partition_at (sep : N) (t : text) : text * bool * text :=
  match t with
  | [] => ([], false, [])
  | c :: t' => if (c =? sep)%N then ([], true, t')
               else let '(a, f, b) := partition_at sep t' in (c :: a, f, b)
  end.

(* str.split(sep): always at least one piece *)
Fixpoint split_on (sep : N) (t : text) : list text :=
  match t with
  | [] => [[]]
  | c :: t' =>
      if (c =? sep)%N then [] :: split_on sep t'
      else match split_on sep t' with
           | p :: ps => (c :: p) :: ps
           | [] => [[c]]      (* unreachable: split_on is never empty *)
           end
  end.

(* ------------------------------------------------------------------ *)
(* errors                                                              *)
Inductive err := EError | EValueError | ETypeError | EOverflowError | EException | EAttributeError.
Inductive res (A : Type) := Ok (a : A) | Err (e : err).
Arguments Ok {A} a. Arguments Err {A} e.

(* ------------------------------------------------------------------ *)
(* int(text), base 10                                                  *)
Definition dval (c : N) : N := (c - 48)%N.
Fixpoint digits_val (ds : text) (acc : N) : N :=
  match ds with [] => acc | c :: ds' => digits_val ds' (10 * acc + dval c)%N end.

(* digit (_? digit)*   -- [last]: the previous character was a digit *)
Fixpoint dig_us (t : text) (acc : N) (last : bool) : option N :=
  match t with
  | [] => if last then Some acc else None
  | c :: t' =>
      if is_digit c then dig_us t' (10 * acc + dval c)%N true
      else if (c =? 95)%N && last then dig_us t' acc false
      else None
  end.

Definition split_sign (t : text) : bool * text :=
  match t with
  | c :: t' => if (c =? 45)%N then (true, t') else if (c =? 43)%N then (false, t') else (false, t)
  | [] => (false, [])
  end.

Definition parse_int (t : text) : option Z :=
  let '(neg, b) := split_sign (strip is_ws_num t) in
  match dig_us b 0 false with
  | Some n => Some (if neg then - Z.of_N n else Z.of_N n)
  | None => None
  end.

(* ------------------------------------------------------------------ *)
(* binary64 values as exact dyadic rationals m * 2^e                   *)
Inductive fl := FFin (m e : Z) | FInf (neg : bool) | FNan.

(* correctly rounded (nearest, ties to even) binary64 of n/d, n, d > 0 *)
Definition round_pos (n d : Z) : fl :=
  let e0 := Z.log2 n - Z.log2 d in
  let ex1 := e0 - 52 in
  let q1 := if 0 <=? ex1 then n / (d * 2 ^ ex1) else (n * 2 ^ (- ex1)) / d in
  let ex2 := if q1 <? 2 ^ 52 then ex1 - 1 else ex1 in
  let ex := Z.max ex2 (-1074) in
  let n' := if 0 <=? ex then n else n * 2 ^ (- ex) in
  let d' := if 0 <=? ex then d * 2 ^ ex else d in
  let q := n' / d' in
  let r := n' mod d' in
  let q' := if (d' <? 2 * r) || ((2 * r =? d') && Z.odd q) then q + 1 else q in
  if (971 <? ex) || ((ex =? 971) && (2 ^ 53 <=? q')) then FInf false else FFin q' ex.

Definition fl_neg (f : fl) : fl :=
  match f with FFin m e => FFin (- m) e | FInf b => FInf (negb b) | FNan => FNan end.

(* nearest double of (-1)^neg * mant * 10^e10 *)
Definition float_of_decimal (neg : bool) (mant : N) (e10 : Z) : fl :=
  let m := Z.of_N mant in
  let r :=
    if m =? 0 then FFin 0 0
    else if 400 <? e10 then FInf false
    else if e10 <? - 400 - Z.log2 m - 1 then FFin 0 0
    else if 0 <=? e10 then round_pos (m * 10 ^ e10) 1
    else round_pos m (10 ^ (- e10)) in
  if neg then fl_neg r else r.

(* unsigned decimal numeral  DIGITS [. [DIGITS]] | . DIGITS, then an optional
   exponent [eE] [sign] DIGITS: mantissa, decimal exponent, unconsumed rest *)
Definition parse_decimal (t : text) : option (N * Z * text) :=
  let '(ip, r1) := span is_digit t in
  let '(fp, r2) :=
    match r1 with
    | c :: r => if (c =? 46)%N then span is_digit r else ([], r1)
    | [] => ([], r1)
    end in
  match ip, fp with
  | [], [] => None
  | _, _ =>
      let mant := digits_val (ip ++ fp) 0 in
      let fe := - Z.of_nat (length fp) in
      let noexp := Some (mant, fe, r2) in
      match r2 with
      | c :: r3 =>
          if (c =? 101)%N || (c =? 69)%N then
            let '(eneg, r4) := split_sign r3 in
            let '(ed, r5) := span is_digit r4 in
            match ed with
            | [] => noexp
            | _ => let ev := Z.of_N (digits_val ed 0) in
                   Some (mant, fe + (if eneg then - ev else ev), r5)
            end
          else noexp
      | [] => noexp
      end
  end.

(* underscores only between digits *)
Fixpoint us_ok (t : text) (prev_digit : bool) : bool :=
  match t with
  | [] => true
  | c :: t' =>
      if (c =? 95)%N then
        prev_digit && (match t' with d :: _ => is_digit d | [] => false end) && us_ok t' false
      else us_ok t' (is_digit c)
  end.

Definition lower_text (t : text) : text := map lower t.
Definition w_inf : text := [105; 110; 102]%N.
Definition w_infinity : text := [105; 110; 102; 105; 110; 105; 116; 121]%N.
Definition w_nan : text := [110; 97; 110]%N.

Definition parse_float (t : text) : option fl :=
  let s := strip is_ws_num t in
  if negb (us_ok s false) then None
  else
    let s' := filter (fun c => negb (c =? 95)%N) s in
    let '(neg, b) := split_sign s' in
    let lb := lower_text b in
    if text_eqb lb w_inf || text_eqb lb w_infinity then Some (FInf neg)
    else if text_eqb lb w_nan then Some FNan
    else match parse_decimal b with
         | Some (mant, e10, []) => Some (float_of_decimal neg mant e10)
         | _ => None
         end.

(* ------------------------------------------------------------------ *)
(* bool                                                                *)
Definition bool_true_words : list text :=
  [[116;114;117;101]; [49]; [116]; [121;101;115]; [121]; [111;110]]%N.
Definition bool_false_words : list text :=
  [[102;97;108;115;101]; [48]; [102]; [110;111]; [110]; [111;102;102]]%N.
Definition parse_bool (t : text) : option bool :=
  let l := lower_text t in
  if existsb (text_eqb l) bool_true_words then Some true
  else if existsb (text_eqb l) bool_false_words then Some false
  else None.

(* ------------------------------------------------------------------ *)
(* timedelta: total microseconds                                       *)
Definition unit_factor (u : text) : option Z :=
  let is := text_eqb u in
  if is [104]%N || is [104;111;117;114;115]%N then Some 3600000000
  else if is [109]%N || is [109;105;110]%N || is [109;105;110;117;116;101;115]%N then Some 60000000
  else if is [115]%N || is [115;101;99]%N || is [115;101;99;111;110;100;115]%N || is [] then Some 1000000
  else if is [109;115]%N || is [109;105;108;108;105;115;101;99;111;110;100;115]%N then Some 1000
  else if is [117;115]%N || is [109;105;99;114;111;115;101;99;111;110;100;115]%N then Some 1
  else if is [100]%N || is [100;97;121;115]%N then Some 86400000000
  else if is [119]%N || is [119;101;101;107;115]%N then Some 604800000000
  else None.

(* modf of the dyadic m*2^e: integer part (towards zero) and the fraction as
   a numerator over 2^k *)
Definition dy_modf (m e : Z) : Z * (Z * Z) :=
  if 0 <=? e then (m * 2 ^ e, (0, 0))
  else (Z.quot m (2 ^ (- e)), (Z.rem m (2 ^ (- e)), - e)).

Definition round_signed (n d : Z) : fl :=   (* d > 0 *)
  if n =? 0 then FFin 0 0
  else if n <? 0 then fl_neg (round_pos (- n) d) else round_pos n d.

Definition max_days : Z := 999999999.
Definition us_per_day : Z := 86400000000.
Definition td_in_range (us : Z) : bool :=
  let days := us / us_per_day in (- max_days <=? days) && (days <=? max_days).

(* datetime.timedelta(unit=num) for a float num, C implementation
   (accum + round-half-even of the leftover): microseconds or an error *)
Definition td_term (num : fl) (factor : Z) : res Z :=
  match num with
  | FFin m e =>
      let '(ip, (fn, fk)) := dy_modf m e in
      let x := ip * factor in
      let total : res Z :=
        if fn =? 0 then Ok x
        else
          match round_signed (factor * fn) (2 ^ fk) with
          | FFin m2 e2 =>
              let '(ip2, (fn2, fk2)) := dy_modf m2 e2 in
              let y := x + ip2 in
              (* leftover = fn2 / 2^fk2, |leftover| < 1 *)
              let twice := 2 * Z.abs fn2 in
              let one := 2 ^ fk2 in
              let sgn := if fn2 <? 0 then -1 else 1 in
              Ok (if fn2 =? 0 then y
                  else if twice <? one then y
                  else if one <? twice then y + sgn
                  else if Z.odd y then y + sgn else y)
          | _ => Err EException   (* unreachable: |factor * frac| < 2^40 *)
          end in
      match total with
      | Ok us => if td_in_range us then Ok us else Err EOverflowError
      | Err e => Err e
      end
  | _ => Err EOverflowError
  end.

Fixpoint td_loop (fuel : nat) (t : text) (sum : Z) : res Z :=
  match t with
  | [] => Ok sum
  | _ =>
    match fuel with
    | O => Err EException    (* unreachable: every round consumes a character *)
    | S fuel' =>
      let t1 := lstrip is_ws_re t in
      let '(neg, t2) := split_sign t1 in
      match parse_decimal t2 with
      | None => Err EException
      | Some (mant, e10, t3) =>
          let num := float_of_decimal neg mant e10 in
          let t4 := lstrip is_ws_re t3 in
          let '(u, t5) := span is_word t4 in
          let t6 := lstrip is_ws_re t5 in
          match unit_factor u with
          | None => Err ETypeError
          | Some f =>
              match td_term num f with
              | Err e => Err e
              | Ok us =>
                  let s := sum + us in
                  if td_in_range s then td_loop fuel' t6 s else Err EOverflowError
              end
          end
      end
    end
  end.
Definition parse_timedelta (t : text) : res Z := td_loop (length t) t 0.

(* ------------------------------------------------------------------ *)
(* datetime.strptime: the regex fragment _strptime builds               *)
Inductive cls := CR (lo hi : N)      (* a range *)
               | CI (c : N).         (* ASCII letter c (lower case), either case *)
Definition cls_match (k : cls) (x : N) : bool :=
  match k with CR lo hi => in_range lo hi x | CI c => (lower x =? c)%N end.
Definition D := CR 48 57.
Definition C (c : N) := CR c c.

Inductive fkind := KY | Km | Kd | KH | KM | KS | Ka | Kb | KLit.
Inductive item := IAlt (k : fkind) (alts : list (list cls)) | IWs.

Fixpoint match_pat (p : list cls) (t : text) : option (text * text) :=
  match p with
  | [] => Some ([], t)
  | k :: p' =>
      match t with
      | x :: t' =>
          if cls_match k x then
            match match_pat p' t' with Some (c, r) => Some (x :: c, r) | None => None end
          else None
      | [] => None
      end
  end.

(* ordered alternation: (alternative index, consumed, rest) *)
Fixpoint alts_of (i : nat) (alts : list (list cls)) (t : text) : list (nat * text * text) :=
  match alts with
  | [] => []
  | p :: ps =>
      match match_pat p t with
      | Some (c, r) => (i, c, r) :: alts_of (S i) ps t
      | None => alts_of (S i) ps t
      end
  end.

(* rests after consuming 1, 2, ... leading whitespace characters *)
Fixpoint ws_rests (t : text) : list text :=
  match t with
  | c :: t' => if is_ws_re c then t' :: ws_rests t' else []
  | [] => []
  end.

Fixpoint first_some {A B} (f : A -> option B) (l : list A) : option B :=
  match l with
  | [] => None
  | a :: l' => match f a with Some b => Some b | None => first_some f l' end
  end.

Definition capture := (fkind * nat * text)%type.

(* backtracking match of the item sequence at the start of t: first success in
   regex priority order; returns captures and the unconsumed rest *)
Fixpoint mseq (fs : list item) (t : text) : option (list capture * text) :=
  match fs with
  | [] => Some ([], t)
  | IAlt k alts :: fs' =>
      first_some (fun '(i, c, r) =>
                    match mseq fs' r with
                    | Some (cs, r') => Some ((k, i, c) :: cs, r')
                    | None => None
                    end) (alts_of 0 alts t)
  | IWs :: fs' => first_some (mseq fs') (rev (ws_rests t))   (* greedy \s+ *)
  end.

Definition word (w : list N) : list cls := map CI w.
Definition f_Y := IAlt KY [[D; D; D; D]].
Definition f_m := IAlt Km [[C 49; CR 48 50]; [C 48; CR 49 57]; [CR 49 57]].
Definition f_d := IAlt Kd [[C 51; CR 48 49]; [CR 49 50; D]; [C 48; CR 49 57]; [CR 49 57]; [C 32; CR 49 57]].
Definition f_H := IAlt KH [[C 50; CR 48 51]; [CR 48 49; D]; [D]].
Definition f_M := IAlt KM [[CR 48 53; D]; [D]].
Definition f_S := IAlt KS [[C 54; CR 48 49]; [CR 48 53; D]; [D]].
Definition f_a := IAlt Ka (map word
  [[109;111;110]; [116;117;101]; [119;101;100]; [116;104;117]; [102;114;105]; [115;97;116]; [115;117;110]]%N).
Definition f_b := IAlt Kb (map word
  [[106;97;110]; [102;101;98]; [109;97;114]; [97;112;114]; [109;97;121]; [106;117;110];
   [106;117;108]; [97;117;103]; [115;101;112]; [111;99;116]; [110;111;118]; [100;101;99]]%N).
Definition lit (c : N) := IAlt KLit [[C c]].
Definition dash := lit 45.
Definition colon := lit 58.
Definition f_T := IAlt KLit [[CI 116]].

Definition datetime_formats : list (list item) :=
  [ [f_a; IWs; f_b; IWs; f_d; IWs; f_H; colon; f_M; colon; f_S; IWs; f_Y];
    [f_Y; dash; f_m; dash; f_d; IWs; f_H; colon; f_M; colon; f_S];
    [f_Y; dash; f_m; dash; f_d; IWs; f_H; colon; f_M];
    [f_Y; dash; f_m; dash; f_d; f_T; f_H; colon; f_M];
    [f_Y; f_m; f_d; IWs; f_H; colon; f_M; colon; f_S];
    [f_Y; f_m; f_d; IWs; f_H; colon; f_M];
    [f_Y; dash; f_m; dash; f_d];
    [f_Y; f_m; f_d];
    [f_H; colon; f_M; colon; f_S];
    [f_H; colon; f_M] ].

Record dtv := { dt_Y : Z; dt_m : Z; dt_d : Z; dt_H : Z; dt_M : Z; dt_S : Z }.
Definition dt_default : dtv := {| dt_Y := 1900; dt_m := 1; dt_d := 1; dt_H := 0; dt_M := 0; dt_S := 0 |}.

Definition num_of (c : text) : Z := Z.of_N (digits_val (filter is_digit c) 0).

Fixpoint apply_caps (cs : list capture) (v : dtv) : dtv :=
  match cs with
  | [] => v
  | (k, i, c) :: cs' =>
      let v' :=
        match k with
        | KY => {| dt_Y := num_of c; dt_m := dt_m v; dt_d := dt_d v; dt_H := dt_H v; dt_M := dt_M v; dt_S := dt_S v |}
        | Km => {| dt_Y := dt_Y v; dt_m := num_of c; dt_d := dt_d v; dt_H := dt_H v; dt_M := dt_M v; dt_S := dt_S v |}
        | Kb => {| dt_Y := dt_Y v; dt_m := Z.of_nat (S i); dt_d := dt_d v; dt_H := dt_H v; dt_M := dt_M v; dt_S := dt_S v |}
        | Kd => {| dt_Y := dt_Y v; dt_m := dt_m v; dt_d := num_of c; dt_H := dt_H v; dt_M := dt_M v; dt_S := dt_S v |}
        | KH => {| dt_Y := dt_Y v; dt_m := dt_m v; dt_d := dt_d v; dt_H := num_of c; dt_M := dt_M v; dt_S := dt_S v |}
        | KM => {| dt_Y := dt_Y v; dt_m := dt_m v; dt_d := dt_d v; dt_H := dt_H v; dt_M := num_of c; dt_S := dt_S v |}
        | KS => {| dt_Y := dt_Y v; dt_m := dt_m v; dt_d := dt_d v; dt_H := dt_H v; dt_M := dt_M v; dt_S := num_of c |}
        | Ka | KLit => v
        end in
      apply_caps cs' v'
  end.

Definition is_leap (y : Z) : bool :=
  ((y mod 4 =? 0) && negb (y mod 100 =? 0)) || (y mod 400 =? 0).
Definition days_in_month (y m : Z) : Z :=
  if m =? 2 then (if is_leap y then 29 else 28)
  else if (m =? 4) || (m =? 6) || (m =? 9) || (m =? 11) then 30 else 31.
Definition dt_valid (v : dtv) : bool :=
  (1 <=? dt_Y v) && (dt_Y v <=? 9999) && (1 <=? dt_m v) && (dt_m v <=? 12)
  && (1 <=? dt_d v) && (dt_d v <=? days_in_month (dt_Y v) (dt_m v))
  && (0 <=? dt_H v) && (dt_H v <=? 23) && (0 <=? dt_M v) && (dt_M v <=? 59)
  && (0 <=? dt_S v) && (dt_S v <=? 59).

(* datetime.datetime.strptime(t, fmt): None = ValueError *)
Definition strptime (fmt : list item) (t : text) : option dtv :=
  match mseq fmt t with
  | Some (cs, []) => let v := apply_caps cs dt_default in if dt_valid v then Some v else None
  | _ => None
  end.

Definition parse_datetime (t : text) : option dtv :=
  first_some (fun fmt => strptime fmt t) datetime_formats.

(* ------------------------------------------------------------------ *)
(* option values, _Option.parse / set                                  *)
Inductive ty := TStr | TInt | TFloat | TBool | TDatetime | TTimedelta.
Inductive value :=
| VNone | VStr (t : text) | VInt (z : Z) | VBool (b : bool) | VFloat (f : fl)
| VDt (v : dtv) | VTd (us : Z) | VList (l : list value).

Definition ty_eqb (a b : ty) : bool :=
  match a, b with
  | TStr, TStr | TInt, TInt | TFloat, TFloat | TBool, TBool
  | TDatetime, TDatetime | TTimedelta, TTimedelta => true
  | _, _ => false
  end.

Definition parse_one (t : ty) (s : text) : res value :=
  match t with
  | TStr => Ok (VStr s)
  | TInt => match parse_int s with Some z => Ok (VInt z) | None => Err EValueError end
  | TFloat => match parse_float s with Some f => Ok (VFloat f) | None => Err EValueError end
  | TBool => match parse_bool s with Some b => Ok (VBool b) | None => Err EError end
  | TDatetime => match parse_datetime s with Some v => Ok (VDt v) | None => Err EError end
  | TTimedelta => match parse_timedelta s with Ok us => Ok (VTd us) | Err e => Err e end
  end.

(* numbers.Integral: int and bool *)
Definition integral (t : ty) : bool := match t with TInt | TBool => true | _ => false end.
Definition as_int (v : value) : option Z :=
  match v with VInt z => Some z | VBool b => Some (if b then 1 else 0) | _ => None end.

(* range(lo, hi+1) *)
Fixpoint zrange (lo : Z) (n : nat) : list Z :=
  match n with O => [] | S n' => lo :: zrange (lo + 1) n' end.
Definition range_incl (lo hi : Z) : list Z := zrange lo (Z.to_nat (hi + 1 - lo)).

(* one comma-separated part of a multiple option: values appended, or error *)
Definition parse_part (t : ty) (part : text) : res (list value) :=
  if integral t then
    let '(lo_s, _, hi_s) := partition_at 58 part in
    match parse_one t lo_s with
    | Err e => Err e
    | Ok lov =>
        match hi_s with
        | [] => match as_int lov with
                | Some lo => Ok (map VInt (range_incl lo lo))
                | None => Err EException   (* unreachable *)
                end
        | _ => match parse_one t hi_s with
               | Err e => Err e
               | Ok hiv =>
                   match as_int lov, as_int hiv with
                   | Some lo, Some hi => Ok (map VInt (range_incl lo hi))
                   | _, _ => Err EException   (* unreachable *)
                   end
               end
        end
    end
  else match parse_one t part with Ok v => Ok [v] | Err e => Err e end.

(* self._value = []; for part in value.split(","): ...   the list is extended
   in place, so an error leaves the parts parsed so far *)
Fixpoint parse_parts (t : ty) (parts : list text) (acc : list value) : list value * option err :=
  match parts with
  | [] => (acc, None)
  | p :: ps =>
      match parse_part t p with
      | Ok vs => parse_parts t ps (acc ++ vs)
      | Err e => (acc, Some e)
      end
  end.

Record opt := {
  o_key : text;          (* normalised name *)
  o_ty : ty;
  o_multiple : bool;
  o_default : value;
  o_value : option value (* None = UNSET *)
}.
Definition set_value (o : opt) (v : value) : opt :=
  {| o_key := o_key o; o_ty := o_ty o; o_multiple := o_multiple o; o_default := o_default o; o_value := Some v |}.
Definition opt_value (o : opt) : value :=
  match o_value o with Some v => v | None => o_default o end.

(* _Option.parse: new option state and possibly an error *)
Definition opt_parse (o : opt) (s : text) : opt * option err :=
  if o_multiple o then
    let '(vs, e) := parse_parts (o_ty o) (split_on 44 s) [] in (set_value o (VList vs), e)
  else match parse_one (o_ty o) s with
       | Ok v => (set_value o v, None)
       | Err e => (o, Some e)
       end.

(* isinstance(v, type) *)
Definition inst (t : ty) (v : value) : bool :=
  match t, v with
  | TStr, VStr _ | TInt, VInt _ | TInt, VBool _ | TFloat, VFloat _ | TBool, VBool _
  | TDatetime, VDt _ | TTimedelta, VTd _ => true
  | _, _ => false
  end.
Definition is_none (v : value) : bool := match v with VNone => true | _ => false end.

(* _Option.set *)
Definition opt_set (o : opt) (v : value) : opt * option err :=
  if o_multiple o then
    match v with
    | VList l => if forallb (fun x => is_none x || inst (o_ty o) x) l then (set_value o v, None)
                 else (o, Some EError)
    | _ => (o, Some EError)
    end
  else if is_none v || inst (o_ty o) v then (set_value o v, None) else (o, Some EError).

(* ------------------------------------------------------------------ *)
(* OptionParser                                                        *)
Definition normalize (n : text) : text := map (fun c => if (c =? 95)%N then 45%N else c) n.

Record optdef := { d_name : text; d_ty : option ty; d_multiple : bool; d_default : value }.

Definition type_of_value (v : value) : ty :=
  match v with
  | VInt _ => TInt | VBool _ => TBool | VFloat _ => TFloat | VDt _ => TDatetime | VTd _ => TTimedelta
  | _ => TStr      (* str; other classes are outside the supported types *)
  end.

Fixpoint lookup (k : text) (os : list opt) : option opt :=
  match os with
  | [] => None
  | o :: os' => if text_eqb (o_key o) k then Some o else lookup k os'
  end.
Fixpoint update (o' : opt) (os : list opt) : list opt :=
  match os with
  | [] => []
  | o :: os' => if text_eqb (o_key o) (o_key o') then o' :: os' else o :: update o' os'
  end.

Definition define1 (os : list opt) (d : optdef) : option (list opt) :=
  let k := normalize (d_name d) in
  match lookup k os with
  | Some _ => None                 (* Error: already defined *)
  | None =>
      let t := match d_ty d with
               | Some t => t
               | None => if negb (d_multiple d) && negb (is_none (d_default d))
                         then type_of_value (d_default d) else TStr
               end in
      let dflt := if is_none (d_default d) && d_multiple d then VList [] else d_default d in
      Some (os ++ [{| o_key := k; o_ty := t; o_multiple := d_multiple d; o_default := dflt; o_value := None |}])
  end.
Fixpoint define_all (os : list opt) (ds : list optdef) : option (list opt) :=
  match ds with
  | [] => Some os
  | d :: ds' => match define1 os d with Some os' => define_all os' ds' | None => None end
  end.

Definition starts_dash (a : text) : bool := match a with c :: _ => (c =? 45)%N | [] => false end.
Definition w_true : text := [116; 114; 117; 101]%N.
Definition dashdash : text := [45; 45]%N.

(* the loop of parse_command_line over args[1:] *)
Fixpoint cmd_loop (os : list opt) (args : list text) : list opt * res (list text) :=
  match args with
  | [] => (os, Ok [])
  | a :: rest =>
      if negb (starts_dash a) then (os, Ok args)
      else if text_eqb a dashdash then (os, Ok rest)
      else
        let '(name, equals, val) := partition_at 61 (lstrip (fun c => (c =? 45)%N) a) in
        match lookup (normalize name) os with
        | None => (os, Err EError)                    (* unrecognized option *)
        | Some o =>
            let go v :=
              let '(o', e) := opt_parse o v in
              let os' := update o' os in
              match e with Some e => (os', Err e) | None => cmd_loop os' rest end in
            if equals then go val
            else if ty_eqb (o_ty o) TBool then go w_true
            else (os, Err EError)                     (* requires a value *)
        end
  end.
Definition parse_command_line (os : list opt) (argv : list text) : list opt * res (list text) :=
  match argv with [] => (os, Ok []) | _ :: args => cmd_loop os args end.

Definition is_str (v : value) : bool := match v with VStr _ => true | _ => false end.
Definition is_list (v : value) : bool := match v with VList _ => true | _ => false end.

(* the loop of parse_config_file over the executed file's namespace *)
Fixpoint cfg_loop (os : list opt) (bs : list (text * value)) : list opt * option err :=
  match bs with
  | [] => (os, None)
  | (name, v) :: bs' =>
      match lookup (normalize name) os with
      | None => cfg_loop os bs'
      | Some o =>
          if o_multiple o && negb (is_list v || is_str v) then (os, Some EError)
          else
            let '(o', e) :=
              if is_str v && (negb (ty_eqb (o_ty o) TStr) || o_multiple o)
              then match v with VStr s => opt_parse o s | _ => (o, None) end
              else opt_set o v in
            let os' := update o' os in
            match e with Some e => (os', Some e) | None => cfg_loop os' bs' end
      end
  end.

(* OptionParser.__setattr__ / __setitem__: options.name = value, one assignment after another *)
Fixpoint set_loop (os : list opt) (bs : list (text * value)) : list opt * option err :=
  match bs with
  | [] => (os, None)
  | (name, v) :: bs' =>
      match lookup (normalize name) os with
      | None => (os, Some EAttributeError)
      | Some o =>
          let '(o', e) := opt_set o v in
          let os' := update o' os in
          match e with Some e => (os', Some e) | None => set_loop os' bs' end
      end
  end.

Inductive source := SCmd (argv : list text) | SCfg (bindings : list (text * value))
                  | SSet (assignments : list (text * value)).

(* a sequence of parse_command_line / parse_config_file calls on one parser;
   stops at the first call that raises.  Outcome per executed call: the
   remaining arguments (command line) / [] (config file) or the error. *)
Fixpoint run_sources (os : list opt) (ss : list source) : list opt * list (res (list text)) :=
  match ss with
  | [] => (os, [])
  | SCmd argv :: ss' =>
      match parse_command_line os argv with
      | (os', Ok rem) => let '(os'', outs) := run_sources os' ss' in (os'', Ok rem :: outs)
      | (os', Err e) => (os', [Err e])
      end
  | SCfg bs :: ss' =>
      match cfg_loop os bs with
      | (os', None) => let '(os'', outs) := run_sources os' ss' in (os'', Ok [] :: outs)
      | (os', Some e) => (os', [Err e])
      end
  | SSet bs :: ss' =>
      match set_loop os bs with
      | (os', None) => let '(os'', outs) := run_sources os' ss' in (os'', Ok [] :: outs)
      | (os', Some e) => (os', [Err e])
      end
  end.
