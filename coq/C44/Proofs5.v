(* C44 — proofs, part 5: end-to-end corollaries on the command line. *)
From Coq Require Import List ZArith NArith Bool Lia.
Import ListNotations.
From TV Require Import C44.Model C44.Run C44.Proofs1 C44.Proofs2 C44.Proofs3 C44.Proofs4.
Local Open Scope Z_scope.

Definition arg_ok (ds name : text) : Prop :=
  ds <> [] /\ dashes ds /\ no_char 61 name /\ name <> [] /\ (forall c r, name = c :: r -> c <> 45%N).

Lemma cmd_assign' os ds name val rest o : arg_ok ds name ->
  lookup (normalize name) os = Some o ->
  cmd_loop os ((ds ++ name ++ 61%N :: val) :: rest) =
    match opt_parse o val with
    | (o', Some e) => (update o' os, Err e)
    | (o', None) => cmd_loop (update o' os) rest
    end.
Proof. intros [H1 [H2 [H3 [H4 H5]]]]. apply cmd_assign; auto. Qed.

(* --flag=<text that is not a boolean spelling>: options.Error, value untouched
   (the behaviour repaired by fix f6563c3; before it the value became True) *)
Lemma cmd_bool_rejects os ds name val rest o : arg_ok ds name ->
  lookup (normalize name) os = Some o -> o_ty o = TBool -> o_multiple o = false ->
  ~ In (lower_text val) (bool_true_words ++ bool_false_words) ->
  cmd_loop os ((ds ++ name ++ 61%N :: val) :: rest) = (update o os, Err EError).
Proof.
  intros Ha EL Ht Hm Hv. erewrite (cmd_assign' _ _ _ _ _ _ Ha EL).
  unfold opt_parse. rewrite Hm, Ht. simpl. rewrite parse_bool_reject by auto. reflexivity.
Qed.

Lemma cmd_bool_sets os ds name val rest o (b : bool) : arg_ok ds name ->
  lookup (normalize name) os = Some o -> o_ty o = TBool -> o_multiple o = false ->
  In (lower_text val) (if b then bool_true_words else bool_false_words) ->
  cmd_loop os ((ds ++ name ++ 61%N :: val) :: rest) = cmd_loop (update (set_value o (VBool b)) os) rest.
Proof.
  intros Ha EL Ht Hm Hv. erewrite (cmd_assign' _ _ _ _ _ _ Ha EL).
  unfold opt_parse. rewrite Hm, Ht. simpl. apply parse_bool_spec in Hv. rewrite Hv. reflexivity.
Qed.

Lemma cmd_int_sets os ds name w1 w2 z rest o : arg_ok ds name ->
  lookup (normalize name) os = Some o -> o_ty o = TInt -> o_multiple o = false ->
  all_true is_ws_num w1 -> all_true is_ws_num w2 ->
  cmd_loop os ((ds ++ name ++ 61%N :: w1 ++ print_int z ++ w2) :: rest) = cmd_loop (update (set_value o (VInt z)) os) rest.
Proof.
  intros Ha EL Ht Hm H1 H2. erewrite (cmd_assign' _ _ _ _ _ _ Ha EL).
  unfold opt_parse. rewrite Hm, Ht. simpl. rewrite parse_int_print_padded by auto. reflexivity.
Qed.

Lemma cmd_int_rejects os ds name val c rest o : arg_ok ds name ->
  lookup (normalize name) os = Some o -> o_ty o = TInt -> o_multiple o = false ->
  In c val -> is_digit c = false -> is_ws_num c = false -> c <> 43%N -> c <> 45%N -> c <> 95%N ->
  cmd_loop os ((ds ++ name ++ 61%N :: val) :: rest) = (update o os, Err EValueError).
Proof.
  intros Ha EL Ht Hm Hc H1 H2 H3 H4 H5. erewrite (cmd_assign' _ _ _ _ _ _ Ha EL).
  unfold opt_parse. rewrite Hm, Ht. simpl. rewrite (parse_int_bad_char val c) by auto. reflexivity.
Qed.

Lemma cmd_datetime_sets os ds name k wd y mo d h mi s rest o : arg_ok ds name ->
  lookup (normalize name) os = Some o -> o_ty o = TDatetime -> o_multiple o = false ->
  (k < 10)%nat -> In wd wd_names -> date_ok y mo d -> time_ok h mi s ->
  cmd_loop os ((ds ++ name ++ 61%N :: print_dt k wd y mo d h mi s) :: rest) =
    cmd_loop (update (set_value o (VDt (proj_dt k y mo d h mi s))) os) rest.
Proof.
  intros Ha EL Ht Hm Hk Hw Hd Hti. erewrite (cmd_assign' _ _ _ _ _ _ Ha EL).
  unfold opt_parse. rewrite Hm, Ht. simpl. rewrite datetime_roundtrip by auto. reflexivity.
Qed.

Lemma cmd_timedelta_sets os ds name us rest o : arg_ok ds name ->
  lookup (normalize name) os = Some o -> o_ty o = TTimedelta -> o_multiple o = false ->
  td_in_range us = true ->
  cmd_loop os ((ds ++ name ++ 61%N :: print_td us) :: rest) = cmd_loop (update (set_value o (VTd us)) os) rest.
Proof.
  intros Ha EL Ht Hm Hr. erewrite (cmd_assign' _ _ _ _ _ _ Ha EL).
  unfold opt_parse. rewrite Hm, Ht. simpl. rewrite parse_timedelta_print by auto. reflexivity.
Qed.

(* --flag alone, for a bool option, is --flag=true *)
Lemma cmd_bool_flag os ds name rest o : arg_ok ds name ->
  lookup (normalize name) os = Some o -> o_ty o = TBool -> o_multiple o = false ->
  cmd_loop os ((ds ++ name) :: rest) = cmd_loop (update (set_value o (VBool true)) os) rest.
Proof.
  intros [Hne [Hd [Hn [Hnn Hs]]]] EL Ht Hm.
  assert (Hsd : starts_dash (ds ++ name) = true).
  { destruct ds as [|c r]; [contradiction|]. inversion Hd; subst. simpl. auto. }
  assert (Hdd : ds ++ name <> dashdash).
  { intros E. destruct name as [|c r]; [contradiction|].
    assert (In c dashdash) by (rewrite <- E; apply in_or_app; right; left; auto).
    specialize (Hs c r eq_refl). simpl in H. destruct H as [H|[H|[]]]; congruence. }
  assert (EP : partition_at 61 (lstrip (fun c => (c =? 45)%N) (ds ++ name)) = (name, false, [])).
  { rewrite lstrip_all_true by auto.
    assert (E : lstrip (fun c => (c =? 45)%N) name = name).
    { destruct name as [|c r]; [reflexivity|]. simpl.
      destruct (N.eqb_spec c 45); [exfalso; eapply Hs; eauto|reflexivity]. }
    rewrite E. apply partition_none; auto. }
  rewrite (cmd_step _ _ _ _ _ _ _ Hsd Hdd EP EL). cbv beta zeta. rewrite Ht. simpl ty_eqb. cbv iota.
  unfold opt_parse. rewrite Hm, Ht. reflexivity.
Qed.

(* timedelta text that does not start (after whitespace) with a number *)
Lemma parse_timedelta_not_number t c r :
  lstrip is_ws_re t = c :: r -> is_digit c = false -> c <> 43%N -> c <> 45%N -> c <> 46%N ->
  parse_timedelta t = Err EException.
Proof.
  intros El Hd H43 H45 H46. unfold parse_timedelta.
  destruct t as [|x t']; [discriminate|]. cbn [length td_loop]. rewrite El.
  simpl split_sign. destruct (N.eqb_spec c 45); [contradiction|]. destruct (N.eqb_spec c 43); [contradiction|].
  unfold parse_decimal. simpl span. rewrite Hd. destruct (N.eqb_spec c 46); [contradiction|]. reflexivity.
Qed.
