(* C44 — Command-line and config options parse to the values they denote.
   Property theorems only; proofs are in Proofs1..5.v.  Printers (print_int,
   print_seg, print_td, print_dt, join) are defined in the proof files. *)
From Coq Require Import List ZArith NArith Bool.
Import ListNotations.
From TV Require Import Lib.Obs C44.Model C44.Run C44.Src C44.Proofs1 C44.Proofs2 C44.Proofs3 C44.Proofs4 C44.Proofs5 C44.Proofs6 C44.Proofs7 C44.Proofs8 C44.ProofsP4a Gen.C44_src Gen.C44_equiv.
Local Open Scope Z_scope.

(* ---------------- str ---------------- *)
Theorem C44_str_identity : forall s, parse_one TStr s = Ok (VStr s).
Proof. reflexivity. Qed.
Print Assumptions C44_str_identity.

(* ---------------- bool ---------------- *)
(* a text is read as b exactly when its lower-casing is one of the six spellings of b *)
Theorem C44_bool_spellings : forall t b,
  parse_bool t = Some b <-> In (lower_text t) (if b then bool_true_words else bool_false_words).
Proof. exact parse_bool_spec. Qed.
Print Assumptions C44_bool_spellings.

(* wrong-typed text: anything else is an options.Error (full strength since fix f6563c3) *)
Theorem C44_bool_rejects_other_text : forall t,
  ~ In (lower_text t) (bool_true_words ++ bool_false_words) -> parse_one TBool t = Err EError.
Proof. intros t H. simpl. rewrite parse_bool_reject by exact H. reflexivity. Qed.
Print Assumptions C44_bool_rejects_other_text.

(* ---------------- int ---------------- *)
Theorem C44_int_roundtrip : forall w1 w2 z,
  all_true is_ws_num w1 -> all_true is_ws_num w2 -> parse_int (w1 ++ print_int z ++ w2) = Some z.
Proof. exact parse_int_print_padded. Qed.
Print Assumptions C44_int_roundtrip.

(* alternative forms: optional sign, leading zeros (any digit string), padding *)
Theorem C44_int_alternative_forms : forall w1 w2 s ds,
  all_true is_ws_num w1 -> all_true is_ws_num w2 -> digits ds -> ds <> [] ->
  parse_int (w1 ++ sign_text s ++ ds ++ w2) = Some (apply_sign s (digits_val ds 0)).
Proof. exact parse_int_forms. Qed.
Print Assumptions C44_int_alternative_forms.

Theorem C44_int_leading_zeros : forall k n, digits_val (repeat 48%N k ++ print_N n) 0 = n.
Proof. intros. rewrite digits_val_leading_zeros. apply print_N_val. Qed.
Print Assumptions C44_int_leading_zeros.

(* 1_000_000 *)
Theorem C44_int_underscore_groups : forall w1 w2 s gs,
  all_true is_ws_num w1 -> all_true is_ws_num w2 ->
  gs <> [] -> Forall (fun g => digits g /\ g <> []) gs ->
  parse_int (w1 ++ sign_text s ++ join 95 gs ++ w2) = Some (apply_sign s (digits_val (concat gs) 0)).
Proof. exact parse_int_groups. Qed.
Print Assumptions C44_int_underscore_groups.

(* wrong-typed text: any character that is not a digit, padding, sign or underscore *)
Theorem C44_int_rejects_bad_char : forall t c,
  In c t -> is_digit c = false -> is_ws_num c = false -> c <> 43%N -> c <> 45%N -> c <> 95%N ->
  parse_one TInt t = Err EValueError.
Proof. intros. simpl. rewrite (parse_int_bad_char t c) by assumption. reflexivity. Qed.
Print Assumptions C44_int_rejects_bad_char.

Theorem C44_int_rejects_blank : forall t, all_true is_ws_num t -> parse_one TInt t = Err EValueError.
Proof. intros. simpl. rewrite parse_int_blank by assumption. reflexivity. Qed.
Print Assumptions C44_int_rejects_blank.

(* ---------------- multiple values, integer ranges ---------------- *)
Theorem C44_multiple_int_ranges : forall o ss,
  o_multiple o = true -> o_ty o = TInt -> ss <> [] ->
  opt_parse o (join 44 (map print_seg ss)) =
    (set_value o (VList (map VInt (flat_map seg_values ss))), None).
Proof. exact opt_parse_int_multiple. Qed.
Print Assumptions C44_multiple_int_ranges.

Theorem C44_range_is_inclusive : forall lo hi z, In z (range_incl lo hi) <-> lo <= z <= hi.
Proof. exact range_incl_spec. Qed.
Print Assumptions C44_range_is_inclusive.

Theorem C44_multiple_str : forall o ts,
  o_multiple o = true -> o_ty o = TStr -> ts <> [] -> Forall (no_char 44) ts ->
  opt_parse o (join 44 ts) = (set_value o (VList (map VStr ts)), None).
Proof. exact opt_parse_str_multiple. Qed.
Print Assumptions C44_multiple_str.

(* any non-integral type, any comma-free printer that round-trips element-wise *)
Theorem C44_multiple_generic : forall o (pr : value -> text) vs,
  o_multiple o = true -> integral (o_ty o) = false -> vs <> [] ->
  (forall v, In v vs -> parse_one (o_ty o) (pr v) = Ok v /\ no_char 44 (pr v)) ->
  opt_parse o (join 44 (map pr vs)) = (set_value o (VList vs), None).
Proof. exact opt_parse_multiple_generic. Qed.
Print Assumptions C44_multiple_generic.

(* ---------------- float ---------------- *)
(* plain decimal notation  [ws][sign]ddd.ddd[ws]  (also "ddd." and ".ddd") is read as float_of_decimal of
   its digits ... *)
Theorem C44_float_decimal_notation : forall w1 w2 s ip fp,
  all_true is_ws_num w1 -> all_true is_ws_num w2 -> digits ip -> digits fp -> (ip <> [] \/ fp <> []) ->
  parse_float (w1 ++ sign_text s ++ (ip ++ 46%N :: fp) ++ w2)
  = Some (float_of_decimal (neg_of s) (digits_val (ip ++ fp) 0) (- Z.of_nat (length fp))).
Proof. exact parse_float_point. Qed.
Print Assumptions C44_float_decimal_notation.

(* ... which is round_pos of the exact rational mant / 10^k (sign applied afterwards) ... *)
Theorem C44_float_value_is_rounded_decimal : forall neg mant k,
  mant <> 0%N -> (k <= 400)%nat ->
  float_of_decimal neg mant (- Z.of_nat k) =
    let r := round_pos (Z.of_N mant) (10 ^ Z.of_nat k) in if neg then fl_neg r else r.
Proof. exact float_of_decimal_fraction. Qed.
Print Assumptions C44_float_value_is_rounded_decimal.

(* ... and round_pos IS IEEE-754 binary64 round-to-nearest, ties-to-even, for every positive rational n/d:
   the result q*2^ex is a valid double (subnormals included), in the right binade, no further than half an
   ulp from n/d, even on a tie; infinity only at or above the overflow threshold (2^54-1)*2^970 *)
Theorem C44_round_pos_is_correct_rounding : forall n d, 0 < n -> 0 < d ->
  match round_pos n d with
  | FFin q ex => valid_double q ex /\ binade_ok n d ex /\ nearest_even n d q ex
  | FInf false => (2 ^ 54 - 1) * 2 ^ 970 * d <= n
  | _ => False
  end.
Proof. exact round_pos_correct. Qed.
Print Assumptions C44_round_pos_is_correct_rounding.

(* integer numerals below 2^53 in every int-like spelling are read exactly *)
Theorem C44_float_integers_exact : forall w1 w2 s ds,
  all_true is_ws_num w1 -> all_true is_ws_num w2 -> digits ds -> ds <> [] ->
  Z.of_N (digits_val ds 0) < two53 ->
  exists f, parse_float (w1 ++ sign_text s ++ ds ++ w2) = Some f /\ fl_is_int f (apply_sign s (digits_val ds 0)).
Proof. exact parse_float_int. Qed.
Print Assumptions C44_float_integers_exact.

(* ---------------- timedelta ---------------- *)
(* every representable timedelta, printed as "<days>d <seconds>s <micro>us", is read back *)
Theorem C44_timedelta_roundtrip : forall us,
  td_in_range us = true -> parse_one TTimedelta (print_td us) = Ok (VTd us).
Proof. intros us H. simpl. rewrite parse_timedelta_print by exact H. reflexivity. Qed.
Print Assumptions C44_timedelta_roundtrip.

(* alternative forms: any sequence of <integer><unit> terms (all 16 unit spellings) sums up;
   partial w.r.t. fractional numerals, whose float arithmetic is modelled but not proved about *)
Theorem C44_timedelta_terms_partial : forall ts,
  terms_ok 0 ts -> parse_timedelta (join 32 (map term_text ts)) = Ok (terms_total ts).
Proof. exact parse_timedelta_terms. Qed.
Print Assumptions C44_timedelta_terms_partial.

(* a timedelta text denotes the SUM of its components: whenever the independent reference reading
   (tokenise on blanks, [sign]digits + unit-table lookup, add; Run.td_ref) reads a text as S, so does the parser.
   Repeated units (same or different spelling), a unit-less last component (= seconds) and negative components included. *)
Theorem C44_timedelta_text_denotes_sum : forall t S, td_ref t = Some S -> parse_timedelta t = Ok S.
Proof. exact td_ref_sound. Qed.
Print Assumptions C44_timedelta_text_denotes_sum.

(* fractional numerals (phase 4, the exact-dyadic fragment): round_pos is exact on every binary64 value ... *)
Theorem C44_round_pos_exact_on_doubles : forall n d M j,
  0 < n -> 0 < d -> 0 < M < 2 ^ 53 -> 0 <= j <= 1074 -> n * 2 ^ j = M * d ->
  exists e', j <= e' /\ round_pos n d = FFin (M * 2 ^ (e' - j)) (- e').
Proof. exact round_pos_exact. Qed.
Print Assumptions C44_round_pos_exact_on_doubles.

(* ... so a numeral mant/10^k whose value is the dyadic M/2^k (5^k | mant: x.5, x.25, x.125 ..., k <= 13 fraction
   digits, M < 2^53) denotes, as timedelta(unit = it) in the C constructor's float arithmetic, exactly
   trunc(x)*factor + frac(x)*factor rounded half-even to microseconds (td_dyadic), e.g. 1.5h = 5400 s, 2.5us = 2 us *)
Theorem C44_timedelta_fraction_denotes_half_even : forall neg mant k M f,
  (k <= 13)%nat -> Z.of_N mant = M * 5 ^ Z.of_nat k -> 0 < M < 2 ^ 53 -> 0 < f < 2 ^ 40 ->
  td_term (float_of_decimal neg mant (- Z.of_nat k)) f =
    let v := td_dyadic (if neg then - M else M) (Z.of_nat k) f in
    if td_in_range v then Ok v else Err EOverflowError.
Proof. exact td_fraction_term. Qed.
Print Assumptions C44_timedelta_fraction_denotes_half_even.

Theorem C44_timedelta_rejects_non_number : forall t c r,
  lstrip is_ws_re t = c :: r -> is_digit c = false -> c <> 43%N -> c <> 45%N -> c <> 46%N ->
  parse_timedelta t = Err EException.
Proof. exact parse_timedelta_not_number. Qed.
Print Assumptions C44_timedelta_rejects_non_number.

(* ---------------- datetime ---------------- *)
(* at most one of the ten formats accepts a text: the order of _DATETIME_FORMATS never decides *)
Theorem C44_datetime_formats_exclusive : forall t j k fj fk vj vk,
  nth_error datetime_formats j = Some fj -> nth_error datetime_formats k = Some fk ->
  strptime fj t = Some vj -> strptime fk t = Some vk -> j = k.
Proof. exact formats_exclusive. Qed.
Print Assumptions C44_datetime_formats_exclusive.

(* every valid date/time printed in any of the ten formats is read back (fields the format
   does not carry take strptime's defaults 1900-01-01 00:00:00) *)
Theorem C44_datetime_roundtrip : forall k wd y mo d h mi s,
  (k < 10)%nat -> In wd wd_names -> date_ok y mo d -> time_ok h mi s ->
  parse_one TDatetime (print_dt k wd y mo d h mi s) = Ok (VDt (proj_dt k y mo d h mi s)).
Proof. intros. simpl. rewrite datetime_roundtrip by assumption. reflexivity. Qed.
Print Assumptions C44_datetime_roundtrip.

(* ---------------- command line ---------------- *)
Theorem C44_unknown_option_rejected : forall os a rest,
  starts_dash a = true -> a <> dashdash -> lookup (key_of_arg a) os = None ->
  cmd_loop os (a :: rest) = (os, Err EError).
Proof. exact cmd_unknown. Qed.
Print Assumptions C44_unknown_option_rejected.

Theorem C44_missing_value_rejected : forall os ds name rest o,
  ds <> [] -> dashes ds -> no_char 61 name -> name <> [] -> (forall c r, name = c :: r -> c <> 45%N) ->
  lookup (normalize name) os = Some o -> o_ty o <> TBool ->
  cmd_loop os ((ds ++ name) :: rest) = (os, Err EError).
Proof. exact cmd_missing_value. Qed.
Print Assumptions C44_missing_value_rejected.

(* --name=text: exactly _Option.parse of the text; an error is raised, not swallowed *)
Theorem C44_assignment_parses_or_raises : forall os ds name val rest o,
  arg_ok ds name -> lookup (normalize name) os = Some o ->
  cmd_loop os ((ds ++ name ++ 61%N :: val) :: rest) =
    match opt_parse o val with
    | (o', Some e) => (update o' os, Err e)
    | (o', None) => cmd_loop (update o' os) rest
    end.
Proof. exact cmd_assign'. Qed.
Print Assumptions C44_assignment_parses_or_raises.

Theorem C44_cmdline_bool_rejects_nonboolean : forall os ds name val rest o,
  arg_ok ds name -> lookup (normalize name) os = Some o -> o_ty o = TBool -> o_multiple o = false ->
  ~ In (lower_text val) (bool_true_words ++ bool_false_words) ->
  cmd_loop os ((ds ++ name ++ 61%N :: val) :: rest) = (update o os, Err EError).
Proof. exact cmd_bool_rejects. Qed.
Print Assumptions C44_cmdline_bool_rejects_nonboolean.

Theorem C44_cmdline_int_sets_value : forall os ds name w1 w2 z rest o,
  arg_ok ds name -> lookup (normalize name) os = Some o -> o_ty o = TInt -> o_multiple o = false ->
  all_true is_ws_num w1 -> all_true is_ws_num w2 ->
  cmd_loop os ((ds ++ name ++ 61%N :: w1 ++ print_int z ++ w2) :: rest) = cmd_loop (update (set_value o (VInt z)) os) rest.
Proof. exact cmd_int_sets. Qed.
Print Assumptions C44_cmdline_int_sets_value.

Theorem C44_cmdline_int_rejects_bad_char : forall os ds name val c rest o,
  arg_ok ds name -> lookup (normalize name) os = Some o -> o_ty o = TInt -> o_multiple o = false ->
  In c val -> is_digit c = false -> is_ws_num c = false -> c <> 43%N -> c <> 45%N -> c <> 95%N ->
  cmd_loop os ((ds ++ name ++ 61%N :: val) :: rest) = (update o os, Err EValueError).
Proof. exact cmd_int_rejects. Qed.
Print Assumptions C44_cmdline_int_rejects_bad_char.

Theorem C44_cmdline_datetime_sets_value : forall os ds name k wd y mo d h mi s rest o,
  arg_ok ds name -> lookup (normalize name) os = Some o -> o_ty o = TDatetime -> o_multiple o = false ->
  (k < 10)%nat -> In wd wd_names -> date_ok y mo d -> time_ok h mi s ->
  cmd_loop os ((ds ++ name ++ 61%N :: print_dt k wd y mo d h mi s) :: rest) =
    cmd_loop (update (set_value o (VDt (proj_dt k y mo d h mi s))) os) rest.
Proof. exact cmd_datetime_sets. Qed.
Print Assumptions C44_cmdline_datetime_sets_value.

Theorem C44_cmdline_timedelta_sets_value : forall os ds name us rest o,
  arg_ok ds name -> lookup (normalize name) os = Some o -> o_ty o = TTimedelta -> o_multiple o = false ->
  td_in_range us = true ->
  cmd_loop os ((ds ++ name ++ 61%N :: print_td us) :: rest) = cmd_loop (update (set_value o (VTd us)) os) rest.
Proof. exact cmd_timedelta_sets. Qed.
Print Assumptions C44_cmdline_timedelta_sets_value.

Theorem C44_cmdline_bool_flag_is_true : forall os ds name rest o,
  arg_ok ds name -> lookup (normalize name) os = Some o -> o_ty o = TBool -> o_multiple o = false ->
  cmd_loop os ((ds ++ name) :: rest) = cmd_loop (update (set_value o (VBool true)) os) rest.
Proof. exact cmd_bool_flag. Qed.
Print Assumptions C44_cmdline_bool_flag_is_true.

(* a stored value is what the option reads afterwards *)
Theorem C44_stored_value_reads_back : forall os o o',
  lookup (o_key o) os = Some o -> o_key o' = o_key o -> lookup (o_key o) (update o' os) = Some o'.
Proof. exact read_back. Qed.
Print Assumptions C44_stored_value_reads_back.

(* ---------------- config file ---------------- *)
Theorem C44_config_string_is_parsed : forall os name s bs o,
  lookup (normalize name) os = Some o -> (o_ty o <> TStr \/ o_multiple o = true) ->
  cfg_loop os ((name, VStr s) :: bs) =
    match opt_parse o s with
    | (o', Some e) => (update o' os, Some e)
    | (o', None) => cfg_loop (update o' os) bs
    end.
Proof. exact cfg_string. Qed.
Print Assumptions C44_config_string_is_parsed.

Theorem C44_config_object_is_type_checked : forall os name v bs o,
  lookup (normalize name) os = Some o -> is_str v = false -> (o_multiple o = true -> is_list v = true) ->
  cfg_loop os ((name, v) :: bs) =
    match opt_set o v with
    | (o', Some e) => (update o' os, Some e)
    | (o', None) => cfg_loop (update o' os) bs
    end.
Proof. exact cfg_object. Qed.
Print Assumptions C44_config_object_is_type_checked.

Theorem C44_config_wrong_type_rejected : forall o v,
  o_multiple o = false -> is_none v = false -> inst (o_ty o) v = false -> opt_set o v = (o, Some EError).
Proof. exact opt_set_wrong_type. Qed.
Print Assumptions C44_config_wrong_type_rejected.

Theorem C44_config_right_type_stored : forall o v,
  o_multiple o = false -> inst (o_ty o) v = true -> opt_set o v = (set_value o v, None).
Proof. exact opt_set_right_type. Qed.
Print Assumptions C44_config_right_type_stored.

(* ---------------- attribute assignment; wrong-typed values rejected element-wise ---------------- *)
Theorem C44_setattr_unknown_option_raises : forall os name v bs,
  lookup (normalize name) os = None -> set_loop os ((name, v) :: bs) = (os, Some EAttributeError).
Proof. exact set_unknown. Qed.
Print Assumptions C44_setattr_unknown_option_raises.

Theorem C44_setattr_is_type_checked : forall os name v bs o,
  lookup (normalize name) os = Some o ->
  set_loop os ((name, v) :: bs) =
    match opt_set o v with
    | (o', Some e) => (update o' os, Some e)
    | (o', None) => set_loop (update o' os) bs
    end.
Proof. exact set_step. Qed.
Print Assumptions C44_setattr_is_type_checked.

(* one wrong-typed element anywhere in the list is enough (the seeded change C44_2 broke this) *)
Theorem C44_list_rejected_elementwise : forall o l x,
  o_multiple o = true -> In x l -> is_none x = false -> inst (o_ty o) x = false ->
  opt_set o (VList l) = (o, Some EError).
Proof. exact opt_set_list_elementwise. Qed.
Print Assumptions C44_list_rejected_elementwise.

Theorem C44_list_accepted_when_all_elements_typed : forall o l,
  o_multiple o = true -> (forall x, In x l -> is_none x = true \/ inst (o_ty o) x = true) ->
  opt_set o (VList l) = (set_value o (VList l), None).
Proof. exact opt_set_list_ok. Qed.
Print Assumptions C44_list_accepted_when_all_elements_typed.

(* over any sequence of command lines / config files / assignments on a freshly defined parser: every
   config file or run of assignments that completed bound defined options to well-typed objects only *)
Theorem C44_accepted_objects_are_well_typed : forall defs os ss os' outs,
  define_all [] defs = Some os -> run_sources os ss = (os', outs) ->
  accepted_ok defs ss (map outcome_obs outs) = true.
Proof. exact accepted_sources_well_typed. Qed.
Print Assumptions C44_accepted_objects_are_well_typed.

(* ---------------- unset options keep their defaults ---------------- *)
(* over any sequence of command lines / config files (including ones that raise) *)
Theorem C44_unmentioned_option_untouched : forall os ss k,
  mentioned k ss = false -> lookup k (fst (run_sources os ss)) = lookup k os.
Proof. exact run_sources_unmentioned. Qed.
Print Assumptions C44_unmentioned_option_untouched.

Theorem C44_unset_options_keep_defaults : forall defs os ss k o,
  define_all [] defs = Some os -> lookup k os = Some o -> mentioned k ss = false ->
  exists o', lookup k (fst (run_sources os ss)) = Some o' /\ opt_value o' = o_default o.
Proof. exact unset_keeps_default. Qed.
Print Assumptions C44_unset_options_keep_defaults.

(* ---------------- the model satisfies the checker applied to the implementation ---------------- *)
Theorem C44_model_satisfies_checker : forall i, check_case i (run_case i) = true.
Proof. exact check_case_model. Qed.
Print Assumptions C44_model_satisfies_checker.

(* ---------------- tie to the source text (regenerated from tornado/options.py on every run) ---------------- *)
Theorem C44_source_tables_are_the_model's :
  src_bool_true = bool_true_words /\ src_bool_false = bool_false_words
  /\ src_dt_formats = datetime_formats
  /\ (forall u, unit_factor_src u = unit_factor u).
Proof. split; [apply src_bool_tables|]. split; [apply src_bool_tables|]. split; [exact src_formats|exact unit_factor_src_eq]. Qed.
Print Assumptions C44_source_tables_are_the_model's.

Theorem C44_source_methods_unchanged :
  src_float_pattern = expected_float_pattern /\ src_td_pattern = expected_td_pattern
  /\ src_parse = expected_parse /\ src_set = expected_set /\ src_parse_datetime = expected_parse_datetime
  /\ src_parse_timedelta = expected_parse_timedelta /\ src_parse_bool = expected_parse_bool
  /\ src_parse_command_line = expected_parse_command_line /\ src_parse_config_file = expected_parse_config_file
  /\ src_setattr = expected_setattr /\ src_normalize_name = expected_normalize_name.
Proof. repeat split; reflexivity. Qed.
Print Assumptions C44_source_methods_unchanged.
