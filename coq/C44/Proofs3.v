(* C44 — proofs, part 3: float and timedelta (integer-valued numerals are exact). *)
From Coq Require Import List ZArith NArith Bool Lia.
Import ListNotations.
From TV Require Import Lib.Obs C44.Model C44.Run C44.Proofs1.
Local Open Scope Z_scope.

(* ------------------------------------------------------------------ *)
(* scanning helpers                                                    *)
Definition starts_false (p : N -> bool) (t : text) : Prop :=
  match t with [] => True | c :: _ => p c = false end.

Lemma span_app p ds tail : all_true p ds -> starts_false p tail -> span p (ds ++ tail) = (ds, tail).
Proof.
  induction 1 as [|c ds Hc _ IH]; intros Ht; simpl.
  - destruct tail as [|c r]; simpl in *; [reflexivity|rewrite Ht; reflexivity].
  - rewrite Hc, IH by auto. reflexivity.
Qed.

(* what may follow an integer numeral without changing how it is read *)
Definition num_tail_ok (tail : text) : Prop :=
  match tail with
  | [] => True
  | c :: _ => is_digit c = false /\ c <> 46%N /\ c <> 101%N /\ c <> 69%N
  end.

Lemma parse_decimal_int ds tail : digits ds -> ds <> [] -> num_tail_ok tail ->
  parse_decimal (ds ++ tail) = Some (digits_val ds 0, 0, tail).
Proof.
  intros Hd Hne Ht. unfold parse_decimal.
  rewrite (span_app is_digit ds tail Hd) by (destruct tail; simpl in *; tauto).
  destruct ds as [|d ds']; [contradiction|].
  destruct tail as [|c r].
  - simpl. rewrite app_nil_r. reflexivity.
  - destruct Ht as [H1 [H2 [H3 H4]]].
    destruct (N.eqb_spec c 46); [contradiction|].
    cbn [app length]. rewrite app_nil_r.
    destruct (N.eqb_spec c 101); [contradiction|]. destruct (N.eqb_spec c 69); [contradiction|].
    reflexivity.
Qed.

(* ------------------------------------------------------------------ *)
(* rounding an integer below 2^53 is exact                             *)
Lemma two53_eq : 2 ^ 53 = two53. Proof. reflexivity. Qed.

Lemma round_pos_int n : 0 < n < two53 -> exists k, 0 <= k /\ round_pos n 1 = FFin (n * 2 ^ k) (- k).
Proof.
  intros Hn. unfold round_pos.
  assert (HL : Z.log2 n < 53) by (apply Z.log2_lt_pow2; [lia|rewrite two53_eq; lia]).
  change (Z.log2 1) with 0.
  set (ex1 := Z.log2 n - 0 - 52).
  set (q1 := if 0 <=? ex1 then n / (1 * 2 ^ ex1) else n * 2 ^ (- ex1) / 1).
  set (ex2 := if q1 <? 2 ^ 52 then ex1 - 1 else ex1).
  set (ex := Z.max ex2 (-1074)).
  assert (Hex : ex <= 0).
  { subst ex ex2 ex1. destruct (q1 <? 2 ^ 52); lia. }
  assert (Hex' : -1074 <= ex) by (subst ex; lia).
  destruct (Z.leb_spec 0 ex) as [H0|H0].
  - assert (E : ex = 0) by lia. rewrite E. exists 0. split; [lia|].
    change (1 * 2 ^ 0) with 1. rewrite Z.div_1_r, Z.mod_1_r.
    change (1 <? 2 * 0) with false. change (2 * 0 =? 1) with false. simpl orb.
    change (971 <? 0) with false. change (0 =? 971) with false. simpl.
    rewrite Z.mul_1_r. reflexivity.
  - exists (- ex). split; [lia|]. rewrite Z.div_1_r, Z.mod_1_r.
    change (1 <? 2 * 0) with false. change (2 * 0 =? 1) with false. simpl orb.
    cbv beta iota.
    destruct (Z.ltb_spec 971 ex); [lia|]. destruct (Z.eqb_spec ex 971); [lia|]. simpl.
    rewrite Z.opp_involutive. reflexivity.
Qed.

Definition sgn_of (neg : bool) : Z := if neg then -1 else 1.

Lemma float_of_decimal_int neg a : Z.of_N a < two53 ->
  exists k, 0 <= k /\ float_of_decimal neg a 0 = FFin (sgn_of neg * Z.of_N a * 2 ^ k) (- k).
Proof.
  intros Ha. unfold float_of_decimal.
  destruct (Z.eqb_spec (Z.of_N a) 0) as [E|E].
  - exists 0. split; [lia|]. rewrite E. destruct neg; reflexivity.
  - change (400 <? 0) with false. cbv iota.
    destruct (Z.ltb_spec 0 (- 400 - Z.log2 (Z.of_N a) - 1)) as [H|H].
    { pose proof (Z.log2_nonneg (Z.of_N a)). lia. }
    change (0 <=? 0) with true. cbv iota. change (10 ^ 0) with 1. rewrite Z.mul_1_r.
    destruct (round_pos_int (Z.of_N a)) as [k [Hk Er]]; [lia|].
    exists k. split; auto. rewrite Er. destruct neg; unfold sgn_of, fl_neg; f_equal; ring.
Qed.

(* float("123"), float("-123"), with padding: the exact integer *)
Definition fl_is_int (f : fl) (z : Z) : Prop :=
  exists k, 0 <= k /\ f = FFin (z * 2 ^ k) (- k).

Lemma us_ok_digits ds : forall prev, digits ds -> us_ok ds prev = true.
Proof.
  induction ds as [|c ds IH]; intros prev Hd; simpl; auto. inversion Hd; subst.
  apply digit_range in H1. destruct (N.eqb_spec c 95); [lia|]. auto.
Qed.
Lemma filter_no_us ds : digits ds -> filter (fun c => negb (c =? 95)%N) ds = ds.
Proof.
  induction 1 as [|c ds Hc _ IH]; simpl; auto. apply digit_range in Hc.
  destruct (N.eqb_spec c 95); [lia|]. simpl. rewrite IH. reflexivity.
Qed.
Lemma lower_digits ds : digits ds -> lower_text ds = ds.
Proof.
  induction 1 as [|c ds Hc _ IH]; simpl; auto. apply digit_range in Hc. rewrite IH. f_equal.
  unfold lower, in_range. destruct (N.leb_spec 65 c); simpl; auto. lia.
Qed.
Lemma digits_not_word ds w c r : digits ds -> ds <> [] -> w = c :: r -> is_digit c = false -> text_eqb ds w = false.
Proof.
  intros Hd Hne -> Hc. destruct ds as [|d ds]; [contradiction|]. inversion Hd; subst. simpl.
  destruct (N.eqb_spec d c); [congruence|]. reflexivity.
Qed.

Lemma parse_float_int w1 w2 s ds :
  all_true is_ws_num w1 -> all_true is_ws_num w2 -> digits ds -> ds <> [] ->
  Z.of_N (digits_val ds 0) < two53 ->
  exists f, parse_float (w1 ++ sign_text s ++ ds ++ w2) = Some f /\ fl_is_int f (apply_sign s (digits_val ds 0)).
Proof.
  intros H1 H2 Hd Hne Hb. unfold parse_float.
  replace (w1 ++ sign_text s ++ ds ++ w2) with (w1 ++ (sign_text s ++ ds) ++ w2)
    by (rewrite <- !app_assoc; reflexivity).
  rewrite strip_pad; auto.
  2:{ apply Forall_app. split; [apply sign_not_ws|]. eapply Forall_impl; [|exact Hd]. apply digit_not_ws. }
  assert (Eu : us_ok (sign_text s ++ ds) false = true).
  { destruct s as [[|]|]; simpl; apply us_ok_digits; auto. }
  assert (Ef : filter (fun c => negb (c =? 95)%N) (sign_text s ++ ds) = sign_text s ++ ds).
  { rewrite filter_app, (filter_no_us ds Hd). destruct s as [[|]|]; reflexivity. }
  rewrite Eu, Ef. cbn [negb]. rewrite split_sign_spec by auto.
  rewrite (lower_digits ds Hd).
  rewrite (digits_not_word ds w_inf 105%N _ Hd Hne eq_refl eq_refl).
  rewrite (digits_not_word ds w_infinity 105%N _ Hd Hne eq_refl eq_refl).
  rewrite (digits_not_word ds w_nan 110%N _ Hd Hne eq_refl eq_refl). cbn [orb].
  pose proof (parse_decimal_int ds [] Hd Hne I) as Ep. rewrite app_nil_r in Ep. rewrite Ep.
  destruct (float_of_decimal_int (match s with Some true => true | _ => false end) (digits_val ds 0) Hb) as [k [Hk Ek]].
  eexists. split; [reflexivity|]. exists k. split; auto. rewrite Ek. f_equal.
  destruct s as [[|]|]; unfold sgn_of, apply_sign; lia.
Qed.

Lemma parse_float_print_int z : Z.abs z < two53 ->
  exists f, parse_float (print_int z) = Some f /\ fl_is_int f z.
Proof.
  intros Hz. rewrite print_int_form.
  destruct (parse_float_int [] [] (if z <? 0 then Some true else None) (print_N (Z.to_N (Z.abs z)))) as [f [E F]];
    try constructor; auto using print_N_digits, print_N_nonempty.
  { rewrite print_N_val. lia. }
  exists f. simpl in E. rewrite app_nil_r in E. split; auto.
  rewrite print_N_val in F. replace z with (apply_sign (if z <? 0 then Some true else None) (Z.to_N (Z.abs z))); auto.
  destruct (Z.ltb_spec z 0); simpl; lia.
Qed.

(* ------------------------------------------------------------------ *)
(* timedelta                                                           *)
Lemma unit_factor_text u : unit_factor (unit_text u) = Some (unit_us u).
Proof. destruct u; reflexivity. Qed.
Lemma unit_text_word u : forallb is_word (unit_text u) = true.
Proof. destruct u; reflexivity. Qed.
Lemma unit_text_head u : exists c r, unit_text u = c :: r /\ is_ws_re c = false /\ is_digit c = false
                                     /\ c <> 46%N /\ c <> 101%N /\ c <> 69%N.
Proof. destruct u; eexists; eexists; (split; [reflexivity|]); repeat split; discriminate. Qed.

Definition term_text (t : Z * tdunit) : text := print_int (fst t) ++ unit_text (snd t).
Definition term_us (t : Z * tdunit) : Z := fst t * unit_us (snd t).

Lemma dy_modf_int z k : 0 <= k -> dy_modf (z * 2 ^ k) (- k) = (z, (0, if k =? 0 then 0 else k)).
Proof.
  intros Hk. unfold dy_modf. destruct (Z.leb_spec 0 (- k)).
  - assert (k = 0) by lia. subst. simpl. rewrite Z.mul_1_r. rewrite Z.mul_1_r. reflexivity.
  - rewrite Z.opp_involutive. assert (2 ^ k <> 0) by (apply Z.pow_nonzero; lia).
    rewrite Z.quot_mul, Z.rem_mul by auto. destruct (Z.eqb_spec k 0); [lia|reflexivity].
Qed.

Lemma td_term_int z k f : 0 <= k ->
  td_term (FFin (z * 2 ^ k) (- k)) f = if td_in_range (z * f) then Ok (z * f) else Err EOverflowError.
Proof.
  intros Hk. unfold td_term. rewrite dy_modf_int by auto. cbv beta iota. simpl (0 =? 0). cbv iota. reflexivity.
Qed.

Definition rest_ok (rest : text) : Prop :=
  rest = [] \/ exists c r, rest = 32%N :: c :: r /\ is_ws_re c = false.

Lemma print_int_head z : exists c r, print_int z = c :: r /\ is_ws_re c = false.
Proof.
  unfold print_int. destruct (z <? 0).
  - eexists; eexists; split; [reflexivity|reflexivity].
  - pose proof (print_N_digits (Z.to_N z)) as Hd. pose proof (print_N_nonempty (Z.to_N z)) as Hne.
    destruct (print_N (Z.to_N z)) as [|c r]; [contradiction|]. inversion Hd; subst.
    exists c, r. split; auto. apply digit_not_ws_re; auto.
Qed.

Lemma lstrip_head p c r : p c = false -> lstrip p (c :: r) = c :: r.
Proof. intros H. simpl. rewrite H. reflexivity. Qed.

Lemma span_word_unit u rest : rest_ok rest -> span is_word (unit_text u ++ rest) = (unit_text u, rest).
Proof.
  intros Hr. apply span_app.
  - pose proof (unit_text_word u) as H. rewrite forallb_forall in H. apply Forall_forall. auto.
  - destruct Hr as [-> |[c [r [-> _]]]]; simpl; auto.
Qed.

(* one round of the loop on  <int><unit>  followed by the end or " <non-space>..." *)
Lemma td_round fuel n u rest sum :
  Z.abs n < two53 -> rest_ok rest ->
  td_loop (S fuel) (term_text (n, u) ++ rest) sum =
    if td_in_range (n * unit_us u) then
      if td_in_range (sum + n * unit_us u)
      then td_loop fuel (tl rest) (sum + n * unit_us u)
      else Err EOverflowError
    else Err EOverflowError.
Proof.
  intros Hn Hr. unfold term_text. cbn [fst snd].
  destruct (print_int_head n) as [c0 [r0 [E0 Hc0]]].
  destruct (unit_text_head u) as [cu [ru [Eu [Hu1 [Hu2 [Hu3 [Hu4 Hu5]]]]]]].
  assert (Hnz : (print_int n ++ unit_text u) ++ rest = c0 :: (r0 ++ unit_text u ++ rest)).
  { rewrite E0. simpl. rewrite <- app_assoc. reflexivity. }
  rewrite Hnz. cbn [td_loop]. rewrite (lstrip_head is_ws_re c0 _ Hc0). rewrite <- Hnz.
  rewrite print_int_form, <- !app_assoc.
  set (ds := print_N (Z.to_N (Z.abs n))).
  assert (Hd : digits ds) by apply print_N_digits.
  assert (Hne : ds <> []) by apply print_N_nonempty.
  pose proof (split_sign_spec (if n <? 0 then Some true else None) (ds ++ unit_text u ++ rest)) as Ess.
  assert (Ess' : split_sign (sign_text (if n <? 0 then Some true else None) ++ ds ++ unit_text u ++ rest)
                 = (match (if n <? 0 then Some true else None) with Some true => true | _ => false end,
                    ds ++ unit_text u ++ rest)).
  { destruct (n <? 0); simpl; auto.
    destruct ds as [|d ds']; [contradiction|]. inversion Hd; subst. apply digit_range in H1. simpl.
    destruct (N.eqb_spec d 45); [lia|]. destruct (N.eqb_spec d 43); [lia|]. reflexivity. }
  rewrite Ess'. clear Ess Ess'.
  rewrite (parse_decimal_int ds (unit_text u ++ rest) Hd Hne) by (rewrite Eu; simpl; auto).
  set (neg := match (if n <? 0 then Some true else None) with Some true => true | _ => false end).
  assert (Hb : Z.of_N (digits_val ds 0) < two53) by (subst ds; rewrite print_N_val; lia).
  destruct (float_of_decimal_int neg (digits_val ds 0) Hb) as [k [Hk Ek]]. rewrite Ek.
  assert (Ez : sgn_of neg * Z.of_N (digits_val ds 0) = n).
  { subst ds neg. rewrite print_N_val. unfold sgn_of. destruct (Z.ltb_spec n 0); lia. }
  rewrite Ez.
  assert (El : lstrip is_ws_re (unit_text u ++ rest) = unit_text u ++ rest) by (rewrite Eu; simpl; rewrite Hu1; reflexivity).
  rewrite El, (span_word_unit u rest Hr), unit_factor_text, td_term_int by auto.
  destruct (td_in_range (n * unit_us u)); [|reflexivity].
  destruct (td_in_range (sum + n * unit_us u)); [|reflexivity].
  f_equal. destruct Hr as [-> |[c [r [-> Hc]]]]; [reflexivity|].
  simpl. rewrite Hc. reflexivity.
Qed.

Fixpoint terms_ok (sum : Z) (ts : list (Z * tdunit)) : Prop :=
  match ts with
  | [] => True
  | t :: ts' =>
      Z.abs (fst t) < two53 /\ td_in_range (term_us t) = true /\ td_in_range (sum + term_us t) = true
      /\ terms_ok (sum + term_us t) ts'
  end.
Definition terms_total (ts : list (Z * tdunit)) : Z := fold_right (fun t a => term_us t + a) 0 ts.

Lemma term_text_head t : exists c r, term_text t = c :: r /\ is_ws_re c = false.
Proof.
  destruct (print_int_head (fst t)) as [c [r [E H]]]. exists c, (r ++ unit_text (snd t)).
  unfold term_text. rewrite E. split; auto.
Qed.

Lemma td_loop_terms ts : forall fuel sum,
  (length (join 32 (map term_text ts)) <= fuel)%nat -> terms_ok sum ts ->
  td_loop fuel (join 32 (map term_text ts)) sum = Ok (sum + terms_total ts).
Proof.
  induction ts as [|[n u] ts IH]; intros fuel sum Hf Hok.
  - simpl. destruct fuel; simpl; f_equal; lia.
  - destruct Hok as [Hn [Ht [Hs Hok]]]. unfold term_us in *. cbn [fst snd] in *.
    remember (match ts with [] => [] | _ => 32%N :: join 32 (map term_text ts) end) as rest eqn:Erest.
    assert (Ej : join 32 (map term_text ((n, u) :: ts)) = term_text (n, u) ++ rest).
    { subst rest. destruct ts as [|t2 ts]; [simpl; rewrite app_nil_r; reflexivity|reflexivity]. }
    assert (Hr : rest_ok rest).
    { subst rest. destruct ts as [|t2 ts]; [left; reflexivity|right].
      destruct (term_text_head t2) as [c [r [E H]]].
      destruct ts as [|t3 ts].
      - exists c, r. simpl. rewrite E. auto.
      - exists c, (r ++ 32%N :: join 32 (map term_text (t3 :: ts))).
        change (join 32 (map term_text (t2 :: t3 :: ts))) with (term_text t2 ++ 32%N :: join 32 (map term_text (t3 :: ts))).
        rewrite E. auto. }
    rewrite Ej in *.
    destruct (term_text_head (n, u)) as [c [r [E _]]].
    destruct fuel as [|fuel]; [rewrite E in Hf; simpl in Hf; lia|].
    rewrite td_round by auto. rewrite Ht, Hs.
    assert (Er : tl rest = join 32 (map term_text ts)).
    { subst rest. destruct ts; reflexivity. }
    rewrite Er, IH; auto.
    + f_equal. simpl. unfold term_us. cbn [fst snd]. lia.
    + rewrite <- Er. rewrite app_length, E in Hf. cbn [length] in Hf.
      assert (length (tl rest) <= length rest)%nat by (destruct rest; simpl; lia). lia.
Qed.

Theorem parse_timedelta_terms ts :
  terms_ok 0 ts -> parse_timedelta (join 32 (map term_text ts)) = Ok (terms_total ts).
Proof. intros H. unfold parse_timedelta. rewrite td_loop_terms; auto. Qed.

(* every representable timedelta has an exact text: "<days>d <seconds>s <micro>us" *)
Definition us_per_s : Z := 1000000.
Definition print_td (us : Z) : text :=
  join 32 (map term_text [(us / us_per_day, Ud); ((us mod us_per_day) / us_per_s, Us); (us mod us_per_s, Uus)]).

Lemma parse_timedelta_print us : td_in_range us = true -> parse_timedelta (print_td us) = Ok us.
Proof.
  intros Hr. unfold print_td. rewrite parse_timedelta_terms.
  - f_equal. unfold terms_total, term_us, us_per_day, us_per_s. cbn [fold_right fst snd unit_us].
    Ltac dm := Z.div_mod_to_equations.
    dm. lia.
  - unfold td_in_range, max_days, us_per_day in *. apply andb_true_iff in Hr as [H1 H2].
    apply Z.leb_le in H1, H2.
    unfold terms_ok, term_us, td_in_range, max_days, us_per_day, us_per_s, two53. cbn [fst snd unit_us].
    repeat split; try (apply andb_true_iff; split; apply Z.leb_le); try (dm; lia).
Qed.

(* ------------------------------------------------------------------ *)
(* the reference reading td_ref (Run.v) is sound for the model: whenever it reads a text as
   the sum S of its components, parse_timedelta returns S *)
Definition unit_ok (ut rest : text) : Prop :=
  (ut = [] /\ rest = []) \/ (exists u, ut = unit_text u /\ rest_ok rest).

Lemma td_round_gen fuel s ds ut f rest sum :
  digits ds -> ds <> [] -> Z.of_N (digits_val ds 0) < two53 ->
  unit_factor ut = Some f -> unit_ok ut rest ->
  td_loop (S fuel) (sign_text s ++ ds ++ ut ++ rest) sum =
    if td_in_range (apply_sign s (digits_val ds 0) * f) then
      if td_in_range (sum + apply_sign s (digits_val ds 0) * f)
      then td_loop fuel (tl rest) (sum + apply_sign s (digits_val ds 0) * f)
      else Err EOverflowError
    else Err EOverflowError.
Proof.
  intros Hd Hne Hb Hf Hu.
  assert (Hhd : exists c0 r0, sign_text s ++ ds ++ ut ++ rest = c0 :: r0 /\ is_ws_re c0 = false).
  { destruct s as [[|]|]; simpl; [eexists; eexists; split; reflexivity..|].
    destruct ds as [|d ds']; [contradiction|]. inversion Hd; subst. exists d, (ds' ++ ut ++ rest).
    split; [reflexivity|apply digit_not_ws_re; auto]. }
  destruct Hhd as [c0 [r0 [E0 Hc0]]].
  rewrite E0. cbn [td_loop]. rewrite (lstrip_head is_ws_re c0 _ Hc0). rewrite <- E0.
  assert (Ess : split_sign (sign_text s ++ ds ++ ut ++ rest)
                = (match s with Some true => true | _ => false end, ds ++ ut ++ rest)).
  { destruct s as [[|]|]; simpl; auto.
    destruct ds as [|d ds']; [contradiction|]. inversion Hd; subst. apply digit_range in H1. simpl.
    destruct (N.eqb_spec d 45); [lia|]. destruct (N.eqb_spec d 43); [lia|]. reflexivity. }
  rewrite Ess. clear Ess.
  assert (Hnt : num_tail_ok (ut ++ rest)).
  { destruct Hu as [[-> ->]|[u [-> Hr]]]; [exact I|].
    destruct (unit_text_head u) as [cu [ru [Eu [Hu1 [Hu2 [Hu3 [Hu4 Hu5]]]]]]]. rewrite Eu. simpl. auto. }
  rewrite (parse_decimal_int ds (ut ++ rest) Hd Hne Hnt).
  set (neg := match s with Some true => true | _ => false end).
  destruct (float_of_decimal_int neg (digits_val ds 0) Hb) as [k [Hk Ek]]. rewrite Ek.
  assert (Ez : sgn_of neg * Z.of_N (digits_val ds 0) = apply_sign s (digits_val ds 0)).
  { subst neg. destruct s as [[|]|]; unfold sgn_of, apply_sign; lia. }
  rewrite Ez.
  assert (El : lstrip is_ws_re (ut ++ rest) = ut ++ rest /\ span is_word (ut ++ rest) = (ut, rest)
               /\ lstrip is_ws_re rest = tl rest).
  { destruct Hu as [[-> ->]|[u [-> Hr]]]; [repeat split; reflexivity|].
    destruct (unit_text_head u) as [cu [ru [Eu [Hu1 _]]]].
    split; [rewrite Eu; simpl; rewrite Hu1; reflexivity|]. split; [apply span_word_unit; auto|].
    destruct Hr as [-> |[c [r [-> Hc]]]]; [reflexivity|]. simpl. rewrite Hc. reflexivity. }
  destruct El as [El1 [El2 El3]].
  rewrite El1, El2, Hf, td_term_int by auto.
  destruct (td_in_range (apply_sign s (digits_val ds 0) * f)); [|reflexivity].
  destruct (td_in_range (sum + apply_sign s (digits_val ds 0) * f)); [|reflexivity].
  rewrite El3. reflexivity.
Qed.

Lemma span_spec p t : forall a b, span p t = (a, b) -> t = a ++ b /\ all_true p a.
Proof.
  induction t as [|c t IH]; intros a b H; simpl in H.
  - inversion H; subst. split; [reflexivity|constructor].
  - destruct (p c) eqn:E.
    + destruct (span p t) as [a' b']. inversion H; subst. destruct (IH a' b eq_refl) as [-> Ha].
      split; [reflexivity|constructor; auto].
    + inversion H; subst. split; [reflexivity|constructor].
Qed.

Lemma assoc_unit_spec u l f : assoc_unit u l = Some f -> exists x, u = unit_text x /\ f = unit_us x.
Proof.
  induction l as [|x l IH]; simpl; [discriminate|].
  destruct (text_eqb u (unit_text x)) eqn:E; auto. intros [= <-]. apply text_eqb_true in E. eauto.
Qed.

Lemma td_token_spec last tok v : td_token last tok = Some v ->
  exists s ds ut f, tok = sign_text s ++ ds ++ ut /\ digits ds /\ ds <> [] /\ Z.of_N (digits_val ds 0) < two53
    /\ unit_factor ut = Some f /\ v = apply_sign s (digits_val ds 0) * f
    /\ ((ut = [] /\ last = true) \/ exists u, ut = unit_text u).
Proof.
  unfold td_token. intros H.
  assert (Hs : exists s, tok = sign_text s ++ snd (split_sign tok) /\ fst (split_sign tok) = match s with Some true => true | _ => false end).
  { destruct tok as [|c t]; [exists None; split; reflexivity|]. simpl.
    destruct (N.eqb_spec c 45); [subst; exists (Some true); split; reflexivity|].
    destruct (N.eqb_spec c 43); [subst; exists (Some false); split; reflexivity|].
    exists None. split; reflexivity. }
  destruct Hs as [s [Et En]]. destruct (split_sign tok) as [neg b]. simpl in Et, En.
  destruct (span is_digit b) as [ds u] eqn:Es. apply span_spec in Es as [Eb Hd].
  destruct ds as [|d0 ds0] eqn:Eds; [discriminate|]. rewrite <- Eds in *.
  destruct (Z.leb_spec two53 (Z.of_N (digits_val ds 0))); [discriminate|].
  assert (Hne : ds <> []) by (rewrite Eds; discriminate).
  destruct u as [|cu ru] eqn:Eu.
  - destruct last; [|discriminate]. inversion H; subst v.
    exists s, ds, [], 1000000. rewrite Et, Eb. repeat split; auto.
    subst neg. destruct s as [[|]|]; reflexivity.
  - rewrite <- Eu in *. destruct (assoc_unit u all_units) as [f|] eqn:Ea; [|discriminate].
    inversion H; subst v. destruct (assoc_unit_spec _ _ _ Ea) as [x [Ex Ef]].
    exists s, ds, u, f. rewrite Et, Eb. repeat split; auto.
    + rewrite Ex, Ef. apply unit_factor_text.
    + subst neg. destruct s as [[|]|]; reflexivity.
    + right. eauto.
Qed.

Lemma split_on_nonempty sep t : split_on sep t <> [].
Proof. destruct t as [|c t]; simpl; [discriminate|]. destruct (c =? sep)%N; [discriminate|]. destruct (split_on sep t); discriminate. Qed.

Lemma join_split sep t : join sep (split_on sep t) = t.
Proof.
  induction t as [|c t IH]; [reflexivity|]. simpl.
  pose proof (split_on_nonempty sep t) as Hne.
  destruct (N.eqb_spec c sep) as [->|Hc].
  - destruct (split_on sep t) as [|p ps] eqn:E; [contradiction|].
    change (join sep ([] :: p :: ps)) with ([] ++ sep :: join sep (p :: ps)). rewrite IH. reflexivity.
  - destruct (split_on sep t) as [|p ps] eqn:E; [contradiction|].
    destruct ps as [|q ps]; simpl in *; rewrite <- IH; reflexivity.
Qed.

Lemma token_head last tok v : td_token last tok = Some v -> exists c r, tok = c :: r /\ is_ws_re c = false.
Proof.
  intros H. destruct (td_token_spec _ _ _ H) as [s [ds [ut [f [E [Hd [Hne _]]]]]]]. subst tok.
  destruct s as [[|]|]; simpl; [eexists; eexists; split; reflexivity..|].
  destruct ds as [|d ds']; [contradiction|]. inversion Hd; subst. exists d, (ds' ++ ut). split; [reflexivity|].
  apply digit_not_ws_re; auto.
Qed.

Lemma td_sum_sound toks : forall acc S fuel,
  td_sum toks acc = Some S -> (length (join 32 toks) <= fuel)%nat ->
  td_loop fuel (join 32 toks) acc = Ok S.
Proof.
  induction toks as [|t ts IH]; intros acc S fuel H Hf.
  - simpl in *. inversion H; subst. destruct fuel; reflexivity.
  - cbn [td_sum] in H.
    destruct (td_token (match ts with [] => true | _ => false end) t) as [v|] eqn:Et; [|discriminate].
    destruct (td_in_range v && td_in_range (acc + v)) eqn:Er; [|discriminate].
    apply andb_true_iff in Er as [Er1 Er2].
    destruct (td_token_spec _ _ _ Et) as [s [ds [ut [f [E [Hd [Hne [Hb [Hfac [Ev Hut]]]]]]]]]].
    remember (match ts with [] => [] | _ => 32%N :: join 32 ts end) as rest eqn:Erest.
    assert (Ej : join 32 (t :: ts) = sign_text s ++ ds ++ ut ++ rest).
    { subst rest t. destruct ts as [|t2 ts]; [simpl; rewrite app_nil_r; reflexivity|].
      change (join 32 ((sign_text s ++ ds ++ ut) :: t2 :: ts)) with ((sign_text s ++ ds ++ ut) ++ 32%N :: join 32 (t2 :: ts)).
      rewrite <- !app_assoc. reflexivity. }
    assert (Hu : unit_ok ut rest).
    { destruct ts as [|t2 ts'].
      - subst rest. destruct Hut as [[-> _]|[u Eu]]; [left; auto|right; exists u; split; auto; left; reflexivity].
      - destruct Hut as [[_ Hl]|[u Eu]]; [discriminate|]. right. exists u. split; auto. right.
        cbn [td_sum] in H.
        destruct (td_token (match ts' with [] => true | _ => false end) t2) as [v2|] eqn:Et2; [|discriminate].
        destruct (token_head _ _ _ Et2) as [c [r [Ec Hc]]]. subst rest.
        destruct ts' as [|t3 ts'].
        + exists c, r. simpl. rewrite Ec. auto.
        + exists c, (r ++ 32%N :: join 32 (t3 :: ts')).
          change (join 32 (t2 :: t3 :: ts')) with (t2 ++ 32%N :: join 32 (t3 :: ts')). rewrite Ec. auto. }
    rewrite Ej in *.
    assert (Hlen : (1 <= length (sign_text s ++ ds ++ ut ++ rest))%nat).
    { rewrite !app_length. destruct ds; [contradiction|]. simpl. lia. }
    destruct fuel as [|fuel]; [lia|].
    rewrite (td_round_gen fuel s ds ut f rest acc) by auto. rewrite <- Ev, Er1, Er2.
    assert (Etl : tl rest = join 32 ts) by (subst rest; destruct ts; reflexivity).
    rewrite Etl. apply IH; auto.
    rewrite <- Etl. assert (length (tl rest) <= length rest)%nat by (destruct rest; simpl; lia).
    rewrite !app_length in Hf. rewrite !app_length in Hlen. destruct ds; [contradiction|]. simpl in *. lia.
Qed.

Theorem td_ref_sound t S : td_ref t = Some S -> parse_timedelta t = Ok S.
Proof.
  unfold td_ref, parse_timedelta. destruct t as [|c t']; [intros [= <-]; reflexivity|].
  intros H. rewrite <- (join_split 32 (c :: t')) at 2. apply td_sum_sound; auto.
  rewrite join_split. lia.
Qed.
