(* C44 — phase 4: what a fractional timedelta numeral denotes.  (1) round_pos is exact on every
   rational that is a binary64 value M/2^j; (2) datetime.timedelta(unit=x) for such an x with at most
   13 fraction bits is  trunc(x)*factor  plus  frac(x)*factor rounded half-even to microseconds,
   with no floating-point error. *)
From Coq Require Import List ZArith NArith Bool Lia.
Import ListNotations.
From TV Require Import C44.Model C44.Proofs1 C44.Proofs3 C44.Proofs6 C44.Proofs7.
Local Open Scope Z_scope.

Lemma pow2_split a b : 0 <= b <= a -> 2 ^ a = 2 ^ b * 2 ^ (a - b).
Proof. intros H. rewrite <- Z.pow_add_r by lia. f_equal. lia. Qed.
Lemma pow2_pos a : 0 <= a -> 0 < 2 ^ a.
Proof. intros. apply Z.pow_pos_nonneg; lia. Qed.

Lemma round_pos_exact n d M j :
  0 < n -> 0 < d -> 0 < M < 2 ^ 53 -> 0 <= j <= 1074 -> n * 2 ^ j = M * d ->
  exists e', j <= e' /\ round_pos n d = FFin (M * 2 ^ (e' - j)) (- e').
Proof.
  intros Hn Hd HM Hj E. pose proof (round_pos_correct n d Hn Hd) as C.
  pose proof (pow2_pos j ltac:(lia)) as Pj.
  assert (Hlt : n < 2 ^ 53 * d) by nia.
  destruct (round_pos n d) as [q ex|[|]|]; try contradiction.
  2:{ exfalso. set (P := 2 ^ 970) in *. assert (0 < P) by (subst P; apply pow2_pos; lia).
      change (2 ^ 54) with 18014398509481984 in C. change (2 ^ 53) with 9007199254740992 in Hlt. nia. }
  destruct C as [[Hex [Hq [_ Hq52]]] [[BU BL] [NE _]]].
  assert (Hex0 : ex <= 0).
  { destruct (Z.le_gt_cases ex 0); auto. exfalso. specialize (BL ltac:(lia)).
    unfold sA, sB in BL. rewrite (pw_neg (- ex)), (pw_nonneg ex) in BL by lia.
    assert (2 ^ 1 <= 2 ^ ex) by (apply Z.pow_le_mono_r; lia). change (2 ^ 1) with 2 in H0.
    change (2 ^ 53) with (2 * 2 ^ 52) in Hlt. set (P := 2 ^ 52) in *. assert (0 < P) by (subst P; apply pow2_pos; lia). nia. }
  unfold sA, sB in *. rewrite (pw_nonneg (- ex)), (pw_neg ex) in * by lia.
  set (e' := - ex) in *.
  assert (He' : j <= e').
  { destruct (Z.eq_dec ex (-1074)); [lia|]. specialize (BL ltac:(lia)).
    destruct (Z.le_gt_cases j e'); auto. exfalso.
    pose proof (pow2_split j e' ltac:(lia)) as S. pose proof (pow2_pos e' ltac:(lia)).
    assert (2 ^ 1 <= 2 ^ (j - e')) by (apply Z.pow_le_mono_r; lia). change (2 ^ 1) with 2 in H1.
    change (2 ^ 53) with (2 * 2 ^ 52) in HM. set (P := 2 ^ 52) in *. assert (0 < P) by (subst P; apply pow2_pos; lia).
    set (X := 2 ^ e') in *. set (Y := 2 ^ (j - e')) in *. rewrite S in E. nia. }
  exists e'. split; auto. replace ex with (- e') by lia. f_equal.
  pose proof (pow2_split e' j ltac:(lia)) as S. pose proof (pow2_pos (e' - j) ltac:(lia)) as PK.
  set (K := 2 ^ (e' - j)) in *. rewrite S in NE.
  assert (EA : n * (2 ^ j * K) - q * (d * 1) = (M * K - q) * d) by nia.
  rewrite EA, Z.abs_mul, (Z.abs_eq d) in NE by lia.
  assert (Z.abs (M * K - q) = 0) by (pose proof (Z.abs_nonneg (M * K - q)); nia).
  lia.
Qed.

(* modf of a dyadic with j <= e' *)
Lemma dy_modf_dy Ms j e' : 0 <= j <= e' ->
  dy_modf (Ms * 2 ^ (e' - j)) (- e') = (Z.quot Ms (2 ^ j), (Z.rem Ms (2 ^ j) * 2 ^ (e' - j), e')).
Proof.
  intros H. unfold dy_modf. destruct (Z.leb_spec 0 (- e')).
  - assert (e' = 0) by lia. assert (j = 0) by lia. subst. change (2 ^ (0 - 0)) with 1. change (2 ^ (- 0)) with 1. change (2 ^ 0) with 1.
    rewrite Z.quot_1_r, Z.rem_1_r, !Z.mul_1_r. reflexivity.
  - rewrite Z.opp_involutive, (pow2_split e' j) by lia.
    pose proof (pow2_pos j ltac:(lia)). pose proof (pow2_pos (e' - j) ltac:(lia)).
    rewrite Z.quot_mul_cancel_r, Z.mul_rem_distr_r by lia. reflexivity.
Qed.

Lemma ltb_scale a b k : 0 < k -> (a * k <? b * k) = (a <? b).
Proof. intros. destruct (Z.ltb_spec (a * k) (b * k)), (Z.ltb_spec a b); auto; nia. Qed.
Lemma eqb0_scale a k : 0 < k -> (a * k =? 0) = (a =? 0).
Proof. intros. destruct (Z.eqb_spec (a * k) 0), (Z.eqb_spec a 0); auto; nia. Qed.

(* the value of timedelta(unit = Ms/2^j), in microseconds, before the range check *)
Definition half_even (y r D : Z) : Z :=
  if r =? 0 then y
  else if 2 * Z.abs r <? D then y
  else if D <? 2 * Z.abs r then y + (if r <? 0 then -1 else 1)
  else if Z.odd y then y + (if r <? 0 then -1 else 1) else y.
Definition td_dyadic (Ms j f : Z) : Z :=
  let ip := Z.quot Ms (2 ^ j) in
  let R := Z.rem Ms (2 ^ j) in
  if R =? 0 then ip * f
  else half_even (ip * f + Z.quot (f * R) (2 ^ j)) (Z.rem (f * R) (2 ^ j)) (2 ^ j).

Lemma round_signed_exact n e' M j :
  n <> 0 -> 0 < Z.abs M < 2 ^ 53 -> 0 <= j <= e' -> e' <= 1074 -> n = M * 2 ^ (e' - j) ->
  exists e'', j <= e'' /\ round_signed n (2 ^ e') = FFin (M * 2 ^ (e'' - j)) (- e'').
Proof.
  intros Hn HM Hj He En. unfold round_signed.
  pose proof (pow2_pos e' ltac:(lia)) as Pe. pose proof (pow2_pos (e' - j) ltac:(lia)) as PK. pose proof (pow2_pos j ltac:(lia)) as Pj.
  pose proof (pow2_split e' j ltac:(lia)) as S.
  destruct (Z.eqb_spec n 0); [contradiction|].
  destruct (Z.ltb_spec n 0).
  - assert (HM0 : M < 0) by nia.
    assert (A1 : 0 < - n) by lia. assert (A2 : 0 < - M < 2 ^ 53) by lia. assert (A3 : 0 <= j <= 1074) by lia.
    assert (A4 : - n * 2 ^ j = - M * 2 ^ e') by (rewrite En, S; ring).
    destruct (round_pos_exact (- n) (2 ^ e') (- M) j A1 Pe A2 A3 A4) as [e'' [H1 H2]].
    exists e''. split; auto. rewrite H2. unfold fl_neg. f_equal. ring.
  - assert (HM0 : 0 < M) by nia.
    assert (A1 : 0 < n) by lia. assert (A2 : 0 < M < 2 ^ 53) by lia. assert (A3 : 0 <= j <= 1074) by lia.
    assert (A4 : n * 2 ^ j = M * 2 ^ e') by (rewrite En, S; ring).
    destruct (round_pos_exact n (2 ^ e') M j A1 Pe A2 A3 A4) as [e'' [H1 H2]].
    exists e''. split; auto.
Qed.

Theorem td_term_dyadic Ms j e' f :
  Z.abs Ms < 2 ^ 53 -> 0 <= j <= 13 -> j <= e' -> e' <= 1074 -> 0 < f < 2 ^ 40 ->
  td_term (FFin (Ms * 2 ^ (e' - j)) (- e')) f =
    if td_in_range (td_dyadic Ms j f) then Ok (td_dyadic Ms j f) else Err EOverflowError.
Proof.
  intros HM Hj He He' Hf. unfold td_term. rewrite dy_modf_dy by lia.
  pose proof (pow2_pos j ltac:(lia)) as Pj. pose proof (pow2_pos (e' - j) ltac:(lia)) as PK.
  set (D := 2 ^ j) in *. set (K := 2 ^ (e' - j)) in *.
  set (ip := Z.quot Ms D). set (R := Z.rem Ms D).
  assert (HR : Z.abs R < D).
  { pose proof (Z.rem_bound_abs Ms D ltac:(lia)) as B. rewrite (Z.abs_eq D) in B by lia. exact B. }
  unfold td_dyadic. fold D ip R.
  destruct (Z.eqb_spec R 0) as [ER|ER].
  - rewrite ER. simpl. reflexivity.
  - rewrite eqb0_scale by lia. destruct (Z.eqb_spec R 0) as [E0|E0]; [contradiction|].
    assert (HD : D <= 2 ^ 13) by (subst D; apply Z.pow_le_mono_r; lia).
    change (2 ^ 13) with 8192 in HD. change (2 ^ 40) with 1099511627776 in Hf.
    assert (B1 : f * (R * K) <> 0) by (apply Z.neq_mul_0; split; [lia|apply Z.neq_mul_0; split; lia]).
    assert (B2 : 0 < Z.abs (f * R) < 2 ^ 53).
    { rewrite Z.abs_mul, (Z.abs_eq f) by lia. assert (0 < Z.abs R) by lia. split; [apply Z.mul_pos_pos; lia|].
      change (2 ^ 53) with (1099511627776 * 8192). apply Z.mul_lt_mono_nonneg; lia. }
    assert (B3 : f * (R * K) = f * R * 2 ^ (e' - j)) by (fold K; ring).
    destruct (round_signed_exact (f * (R * K)) e' (f * R) j B1 B2 ltac:(lia) He' B3) as [e'' [H1 H2]].
    rewrite H2. rewrite dy_modf_dy by lia.
    pose proof (pow2_pos (e'' - j) ltac:(lia)) as PK2. set (K2 := 2 ^ (e'' - j)) in *.
    fold D. set (r2 := Z.rem (f * R) D). set (y := ip * f + Z.quot (f * R) D).
    assert (S2 : 2 ^ e'' = D * K2) by (subst D K2; apply pow2_split; lia). rewrite S2.
    assert (Eh : (if r2 * K2 =? 0 then y
                  else if 2 * Z.abs (r2 * K2) <? D * K2 then y
                  else if D * K2 <? 2 * Z.abs (r2 * K2) then y + (if r2 * K2 <? 0 then -1 else 1)
                  else if Z.odd y then y + (if r2 * K2 <? 0 then -1 else 1) else y) = half_even y r2 D).
    { unfold half_even. rewrite Z.abs_mul, (Z.abs_eq K2) by lia.
      rewrite (Z.mul_assoc 2 (Z.abs r2) K2), !ltb_scale, eqb0_scale by lia.
      replace (r2 * K2 <? 0) with (r2 <? 0) by (rewrite <- (ltb_scale r2 0 K2) by lia; reflexivity).
      reflexivity. }
    rewrite Eh. reflexivity.
Qed.

(* a decimal numeral  mant / 10^k  whose value is the dyadic M / 2^k (i.e. 5^k divides mant: x.5, x.25,
   x.125, x.0625 ...) is converted without error, and timedelta(unit = it) is td_dyadic *)
Lemma float_of_decimal_dyadic neg mant k M :
  (k <= 13)%nat -> Z.of_N mant = M * 5 ^ Z.of_nat k -> 0 < M < 2 ^ 53 ->
  exists e', Z.of_nat k <= e' <= 1074 /\
    float_of_decimal neg mant (- Z.of_nat k) = FFin ((if neg then - M else M) * 2 ^ (e' - Z.of_nat k)) (- e').
Proof.
  intros Hk Em HM.
  assert (P5 : 0 < 5 ^ Z.of_nat k) by (apply Z.pow_pos_nonneg; lia).
  assert (Hm : mant <> 0%N) by (intros ->; simpl in Em; nia).
  rewrite (float_of_decimal_fraction neg mant k Hm ltac:(lia)). cbv zeta. set (j := Z.of_nat k) in *.
  assert (E10 : 10 ^ j = 2 ^ j * 5 ^ j) by (change 10 with (2 * 5); apply Z.pow_mul_l).
  assert (A4 : Z.of_N mant * 2 ^ j = M * 10 ^ j) by (rewrite Em, E10; ring).
  destruct (round_pos_exact (Z.of_N mant) (10 ^ j) M j ltac:(lia) ltac:(apply Z.pow_pos_nonneg; lia) HM ltac:(lia) A4)
    as [e' [H1 H2]].
  pose proof (round_pos_correct (Z.of_N mant) (10 ^ j) ltac:(lia) ltac:(apply Z.pow_pos_nonneg; lia)) as C.
  rewrite H2 in C. destruct C as [[Hex _] _].
  exists e'. split; [lia|]. rewrite H2. destruct neg; [unfold fl_neg; f_equal; ring|reflexivity].
Qed.

Theorem td_fraction_term neg mant k M f :
  (k <= 13)%nat -> Z.of_N mant = M * 5 ^ Z.of_nat k -> 0 < M < 2 ^ 53 -> 0 < f < 2 ^ 40 ->
  td_term (float_of_decimal neg mant (- Z.of_nat k)) f =
    let v := td_dyadic (if neg then - M else M) (Z.of_nat k) f in
    if td_in_range v then Ok v else Err EOverflowError.
Proof.
  intros Hk Em HM Hf. destruct (float_of_decimal_dyadic neg mant k M Hk Em HM) as [e' [He E]].
  rewrite E. apply td_term_dyadic; try lia. destruct neg; lia.
Qed.

(* "1.5h" = 5400 s;  "0.5us" -> 0, "1.5us" -> 2, "2.5us" -> 2 (ties to even), "-1.5us" -> -2 *)
Example ex_fraction_terms :
  td_dyadic 3 1 3600000000 = 5400000000 /\ td_dyadic 1 1 1 = 0 /\ td_dyadic 3 1 1 = 2
  /\ td_dyadic 5 1 1 = 2 /\ td_dyadic (-3) 1 1 = -2 /\ (15 = 3 * 5 ^ 1).
Proof. repeat split; vm_compute; reflexivity. Qed.
