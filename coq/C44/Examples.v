(* C44 — the hypotheses of the Property.v theorems are satisfiable: concrete instances. *)
From Coq Require Import List ZArith NArith Bool Lia String.
Import ListNotations.
From TV Require Import Lib.Obs C44.Model C44.Run C44.Proofs1 C44.Proofs2 C44.Proofs3 C44.Proofs4 C44.Proofs5 C44.Proofs6 C44.Proofs7.
Local Open Scope Z_scope.

(* "\t-0_12 " *)
Example ex_int_forms : parse_int [9; 45; 48; 95; 49; 50; 32]%N = Some (-12).
Proof. vm_compute. reflexivity. Qed.
Example ex_int_print : print_int (-1203) = [45; 49; 50; 48; 51]%N.
Proof. vm_compute. reflexivity. Qed.
Example ex_int_bad : parse_int [49; 46; 53]%N = None.      (* "1.5" *)
Proof. vm_compute. reflexivity. Qed.

(* "banana" is not a boolean spelling; "YES" is *)
Example ex_bool_reject :
  ~ In (lower_text [98; 97; 110; 97; 110; 97]%N) (bool_true_words ++ bool_false_words).
Proof. simpl. intros H. repeat (destruct H as [H|H]; [discriminate H|]). exact H. Qed.
Example ex_bool_yes : In (lower_text [89; 69; 83]%N) bool_true_words.
Proof. simpl. auto 10. Qed.

(* "1:3,5,7:" for a multiple int option *)
Example ex_segs :
  join 44 (map print_seg [SRange 1 3; SOne 5; SOpen 7]) = [49; 58; 51; 44; 53; 44; 55; 58]%N
  /\ flat_map seg_values [SRange 1 3; SOne 5; SOpen 7] = [1; 2; 3; 5; 7].
Proof. split; vm_compute; reflexivity. Qed.

(* float("  -0042 ") *)
Example ex_float_int :
  exists f, parse_float [32; 32; 45; 48; 48; 52; 50; 32]%N = Some f /\ fl_obs f = fl_obs (FFin (-42) 0).
Proof. eexists. split; vm_compute; reflexivity. Qed.
(* float("0.1") is the binary64 nearest to 1/10 *)
Example ex_float_tenth : parse_float [48; 46; 49]%N = Some (FFin 7205759403792794 (-56)).
Proof. vm_compute. reflexivity. Qed.

(* "1h 30m" *)
Example ex_terms : terms_ok 0 [(1, Uh); (30, Um)]
  /\ join 32 (map term_text [(1, Uh); (30, Um)]) = [49; 104; 32; 51; 48; 109]%N
  /\ terms_total [(1, Uh); (30, Um)] = 5400000000.
Proof. repeat split; vm_compute; try reflexivity; intros; discriminate. Qed.
(* 1 day 1 h 1 min 1 s 1 us, and a negative value *)
Example ex_td_print : td_in_range 90061000001 = true /\ td_in_range (-1) = true
  /\ parse_timedelta (print_td (-1)) = Ok (-1).
Proof. repeat split; vm_compute; reflexivity. Qed.
(* "0.1s" -> 100000 us, "1.5us" -> 2 us (ties to even), "abc" -> Exception, "1 day" -> TypeError *)
Example ex_td_fraction : parse_timedelta [48; 46; 49; 115]%N = Ok 100000
  /\ parse_timedelta [49; 46; 53; 117; 115]%N = Ok 2
  /\ parse_timedelta [97; 98; 99]%N = Err EException
  /\ parse_timedelta [49; 32; 100; 97; 121]%N = Err ETypeError.
Proof. repeat split; vm_compute; reflexivity. Qed.

(* Thu Feb 29 23:59:59 2024 in all ten formats *)
Example ex_dt_hyps : In [84; 104; 117]%N wd_names /\ date_ok 2024 2 29 /\ time_ok 23 59 59.
Proof. split; [simpl; auto 10|]. split; vm_compute; repeat split; discriminate. Qed.
Example ex_dt_ctime :
  print_dt 0 [84; 104; 117]%N 2024 2 29 23 59 59
  = [84;104;117;32;70;101;98;32;50;57;32;50;51;58;53;57;58;53;57;32;50;48;50;52]%N.
Proof. vm_compute. reflexivity. Qed.
Example ex_dt_invalid : parse_datetime [50;48;50;51;45;48;50;45;50;57]%N = None.   (* 2023-02-29 *)
Proof. vm_compute. reflexivity. Qed.

(* --port=...   /  an option table with one int option *)
Example ex_arg_ok : arg_ok [45; 45]%N [112; 111; 114; 116]%N.
Proof.
  repeat split; try discriminate.
  - repeat constructor.
  - repeat constructor; discriminate.
  - intros c r [= <- _]. discriminate.
Qed.
Example ex_define_lookup :
  exists os o, define_all [] [dd [112; 111; 114; 116]%N None false (VInt 8080)] = Some os
            /\ lookup (normalize [112; 111; 114; 116]%N) os = Some o /\ o_ty o = TInt /\ o_multiple o = false.
Proof. eexists. eexists. repeat split; vm_compute; reflexivity. Qed.

(* the repaired defect, end to end: define("flag", type=bool); --flag=banana raises Error *)
Example ex_flag_banana :
  run_case ([dd [102; 108; 97; 103]%N (Some TBool) false VNone],
            [SCmd [[112]%N; [45; 45; 102; 108; 97; 103; 61; 98; 97; 110; 97; 110; 97]%N]])
  = OList [OList [OTag "Error"]; OList [ONone]].
Proof. vm_compute. reflexivity. Qed.

(* round_pos 1 10 (= float("0.1")): a valid double in the right binade within half an ulp of 1/10 *)
Example ex_round_tenth : round_pos 1 10 = FFin 7205759403792794 (-56)
  /\ valid_double 7205759403792794 (-56) /\ binade_ok 1 10 (-56) /\ nearest_even 1 10 7205759403792794 (-56).
Proof.
  split; [vm_compute; reflexivity|]. pose proof (round_pos_correct 1 10 ltac:(lia) ltac:(lia)) as H.
  replace (round_pos 1 10) with (FFin 7205759403792794 (-56)) in H by (vm_compute; reflexivity). exact H.
Qed.
(* a tie goes to even: 2^53 + 1 -> 2^53 ; the overflow threshold rounds to infinity *)
Example ex_round_tie : fl_obs (round_pos 9007199254740993 1) = fl_obs (FFin 9007199254740992 0).
Proof. vm_compute. reflexivity. Qed.
(* a mixed list for a multiple int option is rejected because of its one wrong element *)
Example ex_mixed_list :
  run_case ([dd [112]%N (Some TInt) true VNone], [SCfg [([112]%N, VList [VInt 8001; VStr [56]%N; VInt 8003])]])
  = OList [OList [OTag "Error"]; OList [OList []]].
Proof. vm_compute. reflexivity. Qed.
Example ex_setattr_unknown :
  run_case ([dd [112]%N (Some TInt) false VNone], [SSet [([113]%N, VInt 1)]])
  = OList [OList [OTag "AttributeError"]; OList [ONone]].
Proof. vm_compute. reflexivity. Qed.

(* "90s 30s" and "30sec 90": repeated units add up (seeded change C44_3 made the later one overwrite) *)
Example ex_td_repeated : td_ref [57;48;115;32;51;48;115]%N = Some 120000000
  /\ td_ref [51;48;115;101;99;32;57;48]%N = Some 120000000
  /\ parse_timedelta [57;48;115;32;51;48;115]%N = Ok 120000000.
Proof. repeat split; vm_compute; reflexivity. Qed.
