(* C44 — proofs, part 6: round_pos is IEEE-754 binary64 round-to-nearest, ties-to-even. *)
From Coq Require Import List ZArith NArith Bool Lia.
Import ListNotations.
From TV Require Import C44.Model.
Local Open Scope Z_scope.

(* n / (d * 2^x) as the fraction sA n x / sB d x of positive integers *)
Definition pw (x : Z) : Z := 2 ^ Z.max x 0.
Definition sA (n x : Z) : Z := n * pw (- x).
Definition sB (d x : Z) : Z := d * pw x.

Lemma pw_pos x : 0 < pw x.
Proof. unfold pw. apply Z.pow_pos_nonneg; lia. Qed.
Lemma pw_nonneg x : 0 <= x -> pw x = 2 ^ x.
Proof. intros H. unfold pw. rewrite Z.max_l by lia. reflexivity. Qed.
Lemma pw_neg x : x <= 0 -> pw x = 1.
Proof. intros H. unfold pw. rewrite Z.max_r by lia. reflexivity. Qed.
Lemma sA_if n x : (if 0 <=? x then n else n * 2 ^ (- x)) = sA n x.
Proof.
  unfold sA. destruct (Z.leb_spec 0 x).
  - rewrite pw_neg by lia. lia.
  - rewrite pw_nonneg by lia. reflexivity.
Qed.
Lemma sB_if d x : (if 0 <=? x then d * 2 ^ x else d) = sB d x.
Proof.
  unfold sB. destruct (Z.leb_spec 0 x).
  - rewrite pw_nonneg by lia. reflexivity.
  - rewrite pw_neg by lia. lia.
Qed.
Lemma sA_pos n x : 0 < n -> 0 < sA n x.
Proof. intros. unfold sA. pose proof (pw_pos (- x)). nia. Qed.
Lemma sB_pos d x : 0 < d -> 0 < sB d x.
Proof. intros. unfold sB. pose proof (pw_pos x). nia. Qed.

(* 2^a * pw(-x) <= 2^b * pw x  whenever  a - x <= b *)
Lemma pw_cmp a b x : 0 <= a -> 0 <= b -> a - x <= b -> 2 ^ a * pw (- x) <= 2 ^ b * pw x.
Proof.
  intros Ha Hb H. unfold pw. rewrite <- !Z.pow_add_r by lia. apply Z.pow_le_mono_r; lia.
Qed.
Lemma pw_cmp' a b x : 0 <= a -> 0 <= b -> b <= a - x -> 2 ^ b * pw x <= 2 ^ a * pw (- x).
Proof.
  intros Ha Hb H. unfold pw. rewrite <- !Z.pow_add_r by lia. apply Z.pow_le_mono_r; lia.
Qed.

(* decreasing the exponent by one doubles the ratio *)
Lemma scale_step n d x : sA n (x - 1) * sB d x = 2 * (sA n x * sB d (x - 1)).
Proof.
  unfold sA, sB. destruct (Z.le_gt_cases 1 x).
  - rewrite (pw_neg (- (x - 1))), (pw_neg (- x)) by lia.
    rewrite (pw_nonneg x), (pw_nonneg (x - 1)) by lia.
    replace x with (Z.succ (x - 1)) at 1 by lia. rewrite Z.pow_succ_r by lia. ring.
  - rewrite (pw_neg x), (pw_neg (x - 1)) by lia.
    rewrite (pw_nonneg (- (x - 1))), (pw_nonneg (- x)) by lia.
    replace (- (x - 1)) with (Z.succ (- x)) by lia. rewrite Z.pow_succ_r by lia. ring.
Qed.

(* increasing the exponent never increases the ratio *)
Lemma scale_mono n d x y : 0 < n -> 0 < d -> x <= y -> sA n y * sB d x <= sA n x * sB d y.
Proof.
  intros Hn Hd H. unfold sA, sB.
  assert (E : pw (- y) * pw x <= pw (- x) * pw y).
  { unfold pw. rewrite <- !Z.pow_add_r by lia. apply Z.pow_le_mono_r; lia. }
  replace (n * pw (- y) * (d * pw x)) with (n * d * (pw (- y) * pw x)) by ring.
  replace (n * pw (- x) * (d * pw y)) with (n * d * (pw (- x) * pw y)) by ring.
  apply Z.mul_le_mono_nonneg_l; [nia|exact E].
Qed.

Section Exponent.
  Variables n d : Z.
  Hypothesis Hn : 0 < n.
  Hypothesis Hd : 0 < d.
  Let ex1 := Z.log2 n - Z.log2 d - 52.

  Lemma ex1_upper : sA n ex1 < 2 ^ 53 * sB d ex1.
  Proof.
    pose proof (Z.log2_spec n Hn) as [_ Hn2]. pose proof (Z.log2_spec d Hd) as [Hd1 _].
    pose proof (Z.log2_nonneg n). pose proof (Z.log2_nonneg d). set (ln := Z.log2 n) in *. set (ld := Z.log2 d) in *.
    unfold sA, sB.
    assert (E : 2 ^ Z.succ ln * pw (- ex1) <= 2 ^ (53 + ld) * pw ex1) by (apply pw_cmp; subst ex1; lia).
    rewrite Z.pow_add_r in E by lia.
    pose proof (pw_pos (- ex1)). pose proof (pw_pos ex1).
    assert (0 < 2 ^ 53) by (apply Z.pow_pos_nonneg; lia).
    nia.
  Qed.
  Lemma ex1_lower : 2 ^ 51 * sB d ex1 < sA n ex1.
  Proof.
    pose proof (Z.log2_spec n Hn) as [Hn1 _]. pose proof (Z.log2_spec d Hd) as [_ Hd2].
    pose proof (Z.log2_nonneg n). pose proof (Z.log2_nonneg d). set (ln := Z.log2 n) in *. set (ld := Z.log2 d) in *.
    unfold sA, sB.
    assert (E : 2 ^ (51 + Z.succ ld) * pw ex1 <= 2 ^ ln * pw (- ex1)) by (apply pw_cmp'; subst ex1; lia).
    rewrite Z.pow_add_r in E by lia.
    pose proof (pw_pos (- ex1)). pose proof (pw_pos ex1).
    assert (0 < 2 ^ 51) by (apply Z.pow_pos_nonneg; lia).
    nia.
  Qed.

  Let q1 := sA n ex1 / sB d ex1.
  Let ex2 := if q1 <? 2 ^ 52 then ex1 - 1 else ex1.

  Lemma ex2_bounds : 2 ^ 52 * sB d ex2 <= sA n ex2 /\ sA n ex2 < 2 ^ 53 * sB d ex2.
  Proof.
    pose proof ex1_upper as U. pose proof ex1_lower as L.
    pose proof (sB_pos d ex1 Hd) as B1. pose proof (sB_pos d (ex1 - 1) Hd) as B0.
    pose proof (sA_pos n ex1 Hn) as A1. pose proof (sA_pos n (ex1 - 1) Hn) as A0.
    change (2 ^ 53) with (2 * 2 ^ 52) in *. change (2 ^ 52) with (2 * 2 ^ 51) in *.
    set (P := 2 ^ 51) in *. assert (0 < P) by (subst P; apply Z.pow_pos_nonneg; lia).
    subst ex2. destruct (Z.ltb_spec q1 (2 * P)) as [Hq|Hq].
    - assert (Hlt : sA n ex1 < sB d ex1 * (2 * P)).
      { destruct (Z.lt_ge_cases (sA n ex1) (sB d ex1 * (2 * P))) as [|Hge]; auto.
        exfalso. apply (Z.div_le_lower_bound _ _ _ B1) in Hge. subst q1. lia. }
      pose proof (scale_step n d ex1) as S. nia.
    - assert (Hge : sB d ex1 * (2 * P) <= sA n ex1).
      { subst q1. pose proof (Z.mul_div_le (sA n ex1) (sB d ex1) B1). nia. }
      nia.
  Qed.

  Let ex := Z.max ex2 (-1074).

  Lemma ex_upper : sA n ex < 2 ^ 53 * sB d ex.
  Proof.
    destruct ex2_bounds as [_ U].
    pose proof (scale_mono n d ex2 ex Hn Hd ltac:(subst ex; lia)) as M.
    pose proof (sB_pos d ex2 Hd). pose proof (sB_pos d ex Hd). pose proof (sA_pos n ex Hn).
    set (P := 2 ^ 53) in *. nia.
  Qed.
  Lemma ex_lower : -1074 < ex -> 2 ^ 52 * sB d ex <= sA n ex.
  Proof. intros H. assert (ex = ex2) by (subst ex; lia). rewrite H0. apply ex2_bounds. Qed.
End Exponent.

(* what "q * 2^ex is the binary64 nearest to n/d, ties to even" means *)
Definition nearest_even (n d q ex : Z) : Prop :=
  2 * Z.abs (sA n ex - q * sB d ex) <= sB d ex
  /\ (2 * Z.abs (sA n ex - q * sB d ex) = sB d ex -> Z.even q = true).
Definition valid_double (q ex : Z) : Prop :=
  -1074 <= ex <= 971 /\ 0 <= q <= 2 ^ 53 /\ (ex = 971 -> q < 2 ^ 53) /\ (-1074 < ex -> 2 ^ 52 <= q).
(* the exponent is the right one: above the subnormal range n/d >= 2^52 * 2^ex, and always n/d < 2^53 * 2^ex *)
Definition binade_ok (n d ex : Z) : Prop :=
  sA n ex < 2 ^ 53 * sB d ex /\ (-1074 < ex -> 2 ^ 52 * sB d ex <= sA n ex).

Lemma round_pos_unfold n d :
  round_pos n d =
    let ex1 := Z.log2 n - Z.log2 d - 52 in
    let q1 := sA n ex1 / sB d ex1 in
    let ex2 := if q1 <? 2 ^ 52 then ex1 - 1 else ex1 in
    let ex := Z.max ex2 (-1074) in
    let q := sA n ex / sB d ex in
    let r := sA n ex mod sB d ex in
    let q' := if (sB d ex <? 2 * r) || ((2 * r =? sB d ex) && Z.odd q) then q + 1 else q in
    if (971 <? ex) || ((ex =? 971) && (2 ^ 53 <=? q')) then FInf false else FFin q' ex.
Proof.
  unfold round_pos. cbv zeta. rewrite !sA_if, !sB_if.
  replace (Z.log2 n - Z.log2 d - 52) with (Z.log2 n - Z.log2 d - 52) by reflexivity.
  assert (E : (if 0 <=? Z.log2 n - Z.log2 d - 52
               then n / (d * 2 ^ (Z.log2 n - Z.log2 d - 52))
               else (n * 2 ^ (- (Z.log2 n - Z.log2 d - 52))) / d)
              = sA n (Z.log2 n - Z.log2 d - 52) / sB d (Z.log2 n - Z.log2 d - 52)).
  { rewrite <- sA_if, <- sB_if. destruct (0 <=? Z.log2 n - Z.log2 d - 52); reflexivity. }
  rewrite E. reflexivity.
Qed.

Theorem round_pos_correct n d : 0 < n -> 0 < d ->
  match round_pos n d with
  | FFin q ex => valid_double q ex /\ binade_ok n d ex /\ nearest_even n d q ex
  | FInf false => (2 ^ 54 - 1) * 2 ^ 970 * d <= n      (* at or above the overflow threshold *)
  | _ => False
  end.
Proof.
  intros Hn Hd. rewrite round_pos_unfold. cbv zeta.
  set (ex1 := Z.log2 n - Z.log2 d - 52).
  set (q1 := sA n ex1 / sB d ex1).
  set (ex2 := if q1 <? 2 ^ 52 then ex1 - 1 else ex1).
  set (ex := Z.max ex2 (-1074)).
  pose proof (ex_upper n d Hn Hd) as U. pose proof (ex_lower n d Hn Hd) as L.
  fold ex1 in U, L. fold q1 in U, L. fold ex2 in U, L. fold ex in U, L.
  pose proof (sB_pos d ex Hd) as HB. pose proof (sA_pos n ex Hn) as HA.
  set (A := sA n ex) in *. set (B := sB d ex) in *.
  pose proof (Z.div_mod A B ltac:(lia)) as DM. pose proof (Z.mod_pos_bound A B HB) as MB.
  set (q := A / B) in *. set (r := A mod B) in *.
  assert (Hq0 : 0 <= q) by (subst q; apply Z.div_pos; lia).
  assert (Hq53 : q < 2 ^ 53).
  { subst q. apply Z.div_lt_upper_bound; lia. }
  assert (Hq52 : -1074 < ex -> 2 ^ 52 <= q).
  { intros H. subst q. apply Z.div_le_lower_bound; auto. specialize (L H). lia. }
  assert (Hex : -1074 <= ex) by (subst ex; lia).
  set (up := (B <? 2 * r) || ((2 * r =? B) && Z.odd q)).
  assert (Hup : up = true -> B <= 2 * r /\ (2 * r = B -> Z.odd q = true)).
  { subst up. intros H. apply orb_true_iff in H as [H|H].
    - apply Z.ltb_lt in H. split; lia.
    - apply andb_true_iff in H as [H1 H2]. apply Z.eqb_eq in H1. split; [lia|auto]. }
  assert (Hdn : up = false -> 2 * r <= B /\ (2 * r = B -> Z.odd q = false)).
  { subst up. intros H. apply orb_false_iff in H as [H1 H2]. apply Z.ltb_ge in H1. split; [lia|].
    intros E. apply Z.eqb_eq in E. rewrite E in H2. simpl in H2. exact H2. }
  destruct ((971 <? ex) || ((ex =? 971) && (2 ^ 53 <=? (if up then q + 1 else q)))) eqn:Eov.
  - (* overflow *)
    apply orb_true_iff in Eov as [Eov|Eov].
    + apply Z.ltb_lt in Eov. specialize (L ltac:(lia)).
      subst A B. unfold sA, sB in L. rewrite (pw_neg (- ex)), (pw_nonneg ex) in L by lia.
      assert (2 ^ 972 <= 2 ^ ex) by (apply Z.pow_le_mono_r; lia).
      change (2 ^ 972) with (4 * 2 ^ 970) in H.
      set (P := 2 ^ 970) in *. assert (0 < P) by (subst P; apply Z.pow_pos_nonneg; lia).
      change (2 ^ 54) with 18014398509481984. change (2 ^ 52) with 4503599627370496 in L. nia.
    + apply andb_true_iff in Eov as [E1 E2]. apply Z.eqb_eq in E1. apply Z.leb_le in E2.
      destruct up eqn:Eu; [|lia]. destruct (Hup eq_refl) as [Hr _].
      assert (q = 2 ^ 53 - 1) by lia.
      subst A B. unfold sA, sB in *. rewrite (pw_neg (- ex)), (pw_nonneg ex) in * by lia. rewrite E1 in *.
      change (2 ^ 971) with (2 * 2 ^ 970) in *.
      set (P := 2 ^ 970) in *. assert (0 < P) by (subst P; apply Z.pow_pos_nonneg; lia).
      change (2 ^ 54) with 18014398509481984. change (2 ^ 53) with 9007199254740992 in *. nia.
  - apply orb_false_iff in Eov as [E1 E2]. apply Z.ltb_ge in E1.
    assert (Hv971 : ex = 971 -> (if up then q + 1 else q) < 2 ^ 53).
    { intros E. apply Z.eqb_eq in E. rewrite E in E2. simpl in E2. apply Z.leb_gt in E2. exact E2. }
    split; [|split; [split; [exact U|exact L]|]].
    + unfold valid_double. destruct up; repeat split; try lia; try (intros H; specialize (Hq52 H); lia).
    + unfold nearest_even. fold A B. destruct up eqn:Eu.
      * destruct (Hup eq_refl) as [H1 H2].
        replace (A - (q + 1) * B) with (r - B) by lia. rewrite Z.abs_neq by lia. split; [lia|].
        intros E. replace (q + 1) with (Z.succ q) by lia. rewrite Z.even_succ. apply H2. lia.
      * destruct (Hdn eq_refl) as [H1 H2].
        replace (A - q * B) with r by lia. rewrite Z.abs_eq by lia. split; [lia|].
        intros E. rewrite <- Z.negb_odd, H2 by lia. reflexivity.
Qed.
