(* C44 — the source text (ast.unparse, docstrings removed) of the tornado/options.py methods and regex
   patterns that C44/Model.v was transcribed from.  Gen/C44_equiv.v proves that the text regenerated from the
   working tree on every run is identical, so any edit of these methods breaks a proof obligation until
   the model is re-examined.  (Produced once with `translators/c44_src.py /repo expected`.) *)
From Coq Require Import String.
Definition expected_float_pattern : string := "[-+]?(?:\d+(?:\.\d*)?|\.\d+)(?:[eE][-+]?\d+)?"%string.
Definition expected_td_pattern : string := "re.compile('\\s*(%s)\\s*(\\w*)\\s*' % _FLOAT_PATTERN, re.IGNORECASE)"%string.
Definition expected_parse : string :=
"def parse(self, value: str) -> Any:
    _parse: Callable[[str], Any] = {datetime.datetime: self._parse_datetime, datetime.timedelta: self._parse_timedelta, bool: self._parse_bool, basestring_type: self._parse_string}.get(self.type, self.type)
    if self.multiple:
        self._value = []
        for part in value.split(','):
            if issubclass(self.type, numbers.Integral):
                lo_str, _, hi_str = part.partition(':')
                lo = _parse(lo_str)
                hi = _parse(hi_str) if hi_str else lo
                self._value.extend(range(lo, hi + 1))
            else:
                self._value.append(_parse(part))
    else:
        self._value = _parse(value)
    if self.callback is not None:
        self.callback(self._value)
    return self.value()"%string.
Definition expected_set : string :=
"def set(self, value: Any) -> None:
    if self.multiple:
        if not isinstance(value, list):
            raise Error('Option %r is required to be a list of %s' % (self.name, self.type.__name__))
        for item in value:
            if item is not None and (not isinstance(item, self.type)):
                raise Error('Option %r is required to be a list of %s' % (self.name, self.type.__name__))
    elif value is not None and (not isinstance(value, self.type)):
        raise Error('Option %r is required to be a %s (%s given)' % (self.name, self.type.__name__, type(value)))
    self._value = value
    if self.callback is not None:
        self.callback(self._value)"%string.
Definition expected_value : string :=
"def value(self) -> Any:
    return self.default if self._value is _Option.UNSET else self._value"%string.
Definition expected_parse_datetime : string :=
"def _parse_datetime(self, value: str) -> datetime.datetime:
    for format in self._DATETIME_FORMATS:
        try:
            return datetime.datetime.strptime(value, format)
        except ValueError:
            pass
    raise Error('Unrecognized date/time format: %r' % value)"%string.
Definition expected_parse_timedelta : string :=
"def _parse_timedelta(self, value: str) -> datetime.timedelta:
    try:
        sum = datetime.timedelta()
        start = 0
        while start < len(value):
            m = self._TIMEDELTA_PATTERN.match(value, start)
            if not m:
                raise Exception()
            num = float(m.group(1))
            units = m.group(2) or 'seconds'
            units = self._TIMEDELTA_ABBREV_DICT.get(units, units)
            sum += datetime.timedelta(**{units: num})
            start = m.end()
        return sum
    except Exception:
        raise"%string.
Definition expected_parse_bool : string :=
"def _parse_bool(self, value: str) -> bool:
    lowered = value.lower()
    if lowered in ('true', '1', 't', 'yes', 'y', 'on'):
        return True
    if lowered in ('false', '0', 'f', 'no', 'n', 'off'):
        return False
    raise Error('Option %r: invalid boolean value %r' % (self.name, value))"%string.
Definition expected_parse_string : string :=
"def _parse_string(self, value: str) -> str:
    return _unicode(value)"%string.
Definition expected_normalize_name : string :=
"def _normalize_name(self, name: str) -> str:
    return name.replace('_', '-')"%string.
Definition expected_setattr : string :=
"def __setattr__(self, name: str, value: Any) -> None:
    name = self._normalize_name(name)
    if isinstance(self._options.get(name), _Option):
        return self._options[name].set(value)
    raise AttributeError('Unrecognized option %r' % name)"%string.
Definition expected_setitem : string :=
"def __setitem__(self, name: str, value: Any) -> None:
    return self.__setattr__(name, value)"%string.
Definition expected_parse_command_line : string :=
"def parse_command_line(self, args: list[str] | None=None, final: bool=True) -> list[str]:
    if args is None:
        args = sys.argv
    remaining: list[str] = []
    for i in range(1, len(args)):
        if not args[i].startswith('-'):
            remaining = args[i:]
            break
        if args[i] == '--':
            remaining = args[i + 1:]
            break
        arg = args[i].lstrip('-')
        name, equals, value = arg.partition('=')
        name = self._normalize_name(name)
        if name not in self._options:
            self.print_help()
            raise Error('Unrecognized command line option: %r' % name)
        option = self._options[name]
        if not equals:
            if option.type == bool:
                value = 'true'
            else:
                raise Error('Option %r requires a value' % name)
        option.parse(value)
    if final:
        self.run_parse_callbacks()
    return remaining"%string.
Definition expected_parse_config_file : string :=
"def parse_config_file(self, path: str, final: bool=True) -> None:
    config = {'__file__': os.path.abspath(path)}
    with open(path, 'rb') as f:
        exec_in(native_str(f.read()), config, config)
    for name in config:
        normalized = self._normalize_name(name)
        if normalized in self._options:
            option = self._options[normalized]
            if option.multiple:
                if not isinstance(config[name], (list, str)):
                    raise Error('Option %r is required to be a list of %s or a comma-separated string' % (option.name, option.type.__name__))
            if type(config[name]) is str and (option.type is not str or option.multiple):
                option.parse(config[name])
            else:
                option.set(config[name])
    if final:
        self.run_parse_callbacks()"%string.
