(* C44 — proofs, part 8: the timedelta-sum clause of check_case and the full
   "model satisfies the checker" theorem. *)
From Coq Require Import String.
From Coq Require Import List ZArith NArith Bool Lia.
Import ListNotations.
From TV Require Import Lib.Obs C44.Model C44.Run C44.Proofs1 C44.Proofs2 C44.Proofs3.

Lemma parse_parts_td parts : forall l acc, all_some_z (map td_ref parts) = Some l ->
  parse_parts TTimedelta parts acc = (acc ++ map VTd l, None).
Proof.
  induction parts as [|p ps IH]; intros l acc H; simpl in H.
  - inversion H; subst. simpl. rewrite app_nil_r. reflexivity.
  - destruct (td_ref p) as [s|] eqn:Ep; [|discriminate].
    destruct (all_some_z (map td_ref ps)) as [r|] eqn:Er; [|discriminate]. inversion H; subst.
    cbn [parse_parts]. unfold parse_part. cbn [integral parse_one]. rewrite (td_ref_sound _ _ Ep).
    rewrite (IH r _ eq_refl). rewrite <- app_assoc. reflexivity.
Qed.

Lemma td_expected_sound o val e : o_ty o = TTimedelta -> td_expected (o_multiple o) val = Some e ->
  exists v, opt_parse o val = (set_value o v, None) /\ value_obs v = e.
Proof.
  intros Ht H. unfold td_expected in H. unfold opt_parse. rewrite Ht. destruct (o_multiple o).
  - destruct (all_some_z (map td_ref (split_on 44 val))) as [l|] eqn:E; [|discriminate]. inversion H; subst.
    rewrite (parse_parts_td _ l [] E). simpl. eexists. split; [reflexivity|].
    simpl. rewrite map_map. reflexivity.
  - destruct (td_ref val) as [s|] eqn:E; [|discriminate]. inversion H; subst.
    simpl. rewrite (td_ref_sound _ _ E). eexists. split; reflexivity.
Qed.

Lemma val_at_lookup defs os k : Forall2 rel defs os ->
  val_at k defs (map (fun o => value_obs (opt_value o)) os)
  = match lookup k os with Some o => Some (value_obs (opt_value o)) | None => None end.
Proof.
  induction 1 as [|d o defs os [K _] _ IH]; simpl; auto.
  rewrite K. unfold def_key. destruct (text_eqb (normalize (d_name d)) k); auto.
Qed.

Lemma rel_after defs os ss : Forall2 rel defs os -> Forall2 rel defs (fst (run_sources os ss)).
Proof. intros H. eapply rel_R; [exact H|]. apply run_sources_R. reflexivity. Qed.

(* the claim for an option assigned [val] (giving os1) and then never mentioned again *)
Lemma td_claim_model defs os0 os1 later k val o :
  Forall2 rel defs os0 -> lookup k os0 = Some o ->
  (forall v, opt_parse o val = (set_value o v, None) -> os1 = update (set_value o v) os0) ->
  (o_ty o = TTimedelta -> forall e, td_expected (o_multiple o) val = Some e ->
     exists v, opt_parse o val = (set_value o v, None) /\ value_obs v = e) ->
  mentioned k later = false ->
  td_claim defs k val (map (fun o => value_obs (opt_value o)) (fst (run_sources os1 later))) = true.
Proof.
  intros Hr EL Hos1 Hexp Hm. unfold td_claim.
  pose proof (lookup_find defs os0 k Hr) as LF. rewrite EL in LF. destruct LF as [d [Fd [K [T U]]]].
  rewrite Fd, <- T.
  destruct (ty_eqb (o_ty o) TTimedelta) eqn:Ety; [|reflexivity].
  assert (Ht : o_ty o = TTimedelta) by (destruct (o_ty o); try discriminate; reflexivity).
  rewrite <- U. destruct (td_expected (o_multiple o) val) as [e|] eqn:Ee; [|reflexivity].
  destruct (Hexp Ht e eq_refl) as [v [Ep Ev]]. specialize (Hos1 v Ep). subst os1.
  pose proof (lookup_key _ _ _ EL) as EK.
  assert (Hr1 : Forall2 rel defs (update (set_value o v) os0)).
  { eapply update_rel; [exact Hr|rewrite EK; exact EL|repeat split]. }
  rewrite (val_at_lookup defs _ k (rel_after defs _ later Hr1)).
  rewrite run_sources_unmentioned by auto.
  assert (EL1 : lookup k (update (set_value o v) os0) = Some (set_value o v)).
  { rewrite <- EK. apply (read_back os0 o (set_value o v)); [rewrite EK; exact EL|reflexivity]. }
  rewrite EL1. cbv beta iota. change (opt_value (set_value o v)) with v. rewrite Ev. apply obs_eqb_refl.
Qed.

Lemma td_first_model defs srcs :
  td_first_ok defs srcs (map (fun o => value_obs (opt_value o)) (fst (run_sources (map init_opt defs) srcs))) = true.
Proof.
  pose proof (rel_init defs) as Hr. set (os0 := map init_opt defs) in *.
  destruct srcs as [|[[|a0 [|a rest]]|[|[name [| val | | | | | |]] bs]|bs] ss]; try reflexivity.
  - (* first command-line argument *)
    unfold td_first_ok.
    destruct (partition_at 61 (lstrip (fun c => (c =? 45)%N) a)) as [[name eq] val] eqn:EP.
    destruct (starts_dash a && eq && negb (mentioned (normalize name) (SCmd (a0 :: rest) :: ss))) eqn:Ec; [|reflexivity].
    apply andb_true_iff in Ec as [Ec Hm]. apply andb_true_iff in Ec as [Hsd Heq]. subst eq.
    apply negb_true_iff in Hm.
    destruct (lookup (normalize name) os0) as [o|] eqn:EL.
    2:{ unfold td_claim. pose proof (lookup_find defs os0 (normalize name) Hr) as LF. rewrite EL in LF. rewrite LF. reflexivity. }
    assert (Hdd : a <> dashdash) by (intros ->; discriminate EP).
    destruct (opt_parse o val) as [o' e] eqn:Eo.
    assert (Erun : forall v, opt_parse o val = (set_value o v, None) ->
              run_sources os0 (SCmd (a0 :: a :: rest) :: ss)
              = run_sources (update (set_value o v) os0) (SCmd (a0 :: rest) :: ss)).
    { intros v Ev. cbn [run_sources parse_command_line].
      rewrite (cmd_step _ _ _ _ _ _ _ Hsd Hdd EP EL). cbv beta zeta. rewrite Ev. reflexivity. }
    destruct (ty_eqb (o_ty o) TTimedelta) eqn:Ety.
    + assert (Ht : o_ty o = TTimedelta) by (destruct (o_ty o); try discriminate; reflexivity).
      destruct (td_expected (o_multiple o) val) as [ex|] eqn:Ee.
      * destruct (td_expected_sound o val ex Ht Ee) as [v [Ep Ev]].
        rewrite (Erun v Ep).
        apply (td_claim_model defs os0 _ _ _ val o Hr EL); auto.
        -- intros v' Ep'. rewrite Ep in Ep'. inversion Ep'. reflexivity.
        -- intros _ e' Ee'. rewrite Ee in Ee'. inversion Ee'; subst. eauto.
      * unfold td_claim. pose proof (lookup_find defs os0 (normalize name) Hr) as LF. rewrite EL in LF.
        destruct LF as [d [Fd [K [T U]]]]. rewrite Fd, <- T, Ety, <- U, Ee. reflexivity.
    + unfold td_claim. pose proof (lookup_find defs os0 (normalize name) Hr) as LF. rewrite EL in LF.
      destruct LF as [d [Fd [K [T U]]]]. rewrite Fd, <- T, Ety. reflexivity.
  - (* first config binding, a string *)
    unfold td_first_ok.
    destruct (negb (mentioned (normalize name) (SCfg bs :: ss))) eqn:Hm; [|reflexivity].
    apply negb_true_iff in Hm.
    destruct (lookup (normalize name) os0) as [o|] eqn:EL.
    2:{ unfold td_claim. pose proof (lookup_find defs os0 (normalize name) Hr) as LF. rewrite EL in LF. rewrite LF. reflexivity. }
    destruct (ty_eqb (o_ty o) TTimedelta) eqn:Ety.
    + assert (Ht : o_ty o = TTimedelta) by (destruct (o_ty o); try discriminate; reflexivity).
      assert (Erun : forall v, opt_parse o val = (set_value o v, None) ->
                run_sources os0 (SCfg ((name, VStr val) :: bs) :: ss)
                = run_sources (update (set_value o v) os0) (SCfg bs :: ss)).
      { intros v Ev. cbn [run_sources].
        rewrite (cfg_string os0 name val bs o EL) by (left; rewrite Ht; discriminate). rewrite Ev. reflexivity. }
      destruct (td_expected (o_multiple o) val) as [ex|] eqn:Ee.
      * destruct (td_expected_sound o val ex Ht Ee) as [v [Ep Ev]].
        rewrite (Erun v Ep).
        apply (td_claim_model defs os0 _ _ _ val o Hr EL); auto.
        -- intros v' Ep'. rewrite Ep in Ep'. inversion Ep'. reflexivity.
        -- intros _ e' Ee'. rewrite Ee in Ee'. inversion Ee'; subst. eauto.
      * unfold td_claim. pose proof (lookup_find defs os0 (normalize name) Hr) as LF. rewrite EL in LF.
        destruct LF as [d [Fd [K [T U]]]]. rewrite Fd, <- T, Ety, <- U, Ee. reflexivity.
    + unfold td_claim. pose proof (lookup_find defs os0 (normalize name) Hr) as LF. rewrite EL in LF.
      destruct LF as [d [Fd [K [T U]]]]. rewrite Fd, <- T, Ety. reflexivity.
Qed.

Lemma check_case_model : forall i, check_case i (run_case i) = true.
Proof.
  intros [defs srcs]. unfold check_case, run_case. rewrite define_all_spec. simpl map.
  unfold has_dup. fold def_key. change (map (fun d => normalize (d_name d)) defs) with (map def_key defs).
  destruct (dup_from [] (map def_key defs)); [reflexivity|]. simpl app.
  pose proof (td_first_model defs srcs) as TD.
  destruct (run_sources (map init_opt defs) srcs) as [os' outs] eqn:ER. simpl fst in TD.
  apply andb_true_intro. split; [apply andb_true_intro; split; [apply andb_true_intro; split|]|].
  - apply defaults_kept_model. replace os' with (fst (run_sources (map init_opt defs) srcs)) by (rewrite ER; auto).
    apply run_sources_R. intros s k Hs Hm. unfold mentioned. apply existsb_exists. exists s. auto.
  - eapply accepted_model; [apply rel_init|exact ER].
  - exact TD.
  - destruct srcs as [|[[|a0 args]|bs|bs] ss]; auto.
    destruct (unknown_before_end (map def_key defs) args) eqn:EU; auto.
    destruct (unknown_raises (map def_key defs) args (map init_opt defs)) as [e He]; auto.
    { rewrite map_map. reflexivity. }
    simpl in ER. destruct (cmd_loop (map init_opt defs) args) as [os1 r]. simpl in He. subst r.
    inversion ER; subst. destruct e; reflexivity.
Qed.
