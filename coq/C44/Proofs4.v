(* C44 — proofs, part 4: datetime.  (A) at most one of the ten formats accepts
   any given text, so the order of _DATETIME_FORMATS never matters; (B) every
   valid datetime printed in any of the ten formats is read back. *)
From Coq Require Import List ZArith NArith Bool Lia.
Import ListNotations.
From TV Require Import C44.Model C44.Proofs1.
Local Open Scope Z_scope.

(* ------------------------------------------------------------------ *)
(* (A) signatures: what is left of a text when digits and whitespace are
   removed (case-folded), and whether it contains whitespace           *)
Definition key1 (x : N) : list N := if is_digit x || is_ws_re x then [] else [lower x].
Definition sig (t : text) : list N * bool := (flat_map key1 t, existsb is_ws_re t).
Definition sig_app (a b : list N * bool) : list N * bool := (fst a ++ fst b, snd a || snd b).

Lemma sig_app_spec a b : sig (a ++ b) = sig_app (sig a) (sig b).
Proof. unfold sig, sig_app. simpl. rewrite flat_map_app, existsb_app. reflexivity. Qed.

Definition cls_info (k : cls) : option (list N * bool) :=
  match k with
  | CR lo hi =>
      if (48 <=? lo)%N && (hi <=? 57)%N then Some ([], false)
      else if (lo =? hi)%N then
        (if is_ws_re lo then Some ([], true) else if is_digit lo then None else Some ([lower lo], false))
      else None
  | CI c => if in_range 97 122 c then Some ([c], false) else None
  end.

Lemma cls_info_sound k i x : cls_info k = Some i -> cls_match k x = true -> sig [x] = i.
Proof.
  destruct k as [lo hi|c]; simpl; intros Hi Hm.
  - unfold in_range in Hm. apply andb_true_iff in Hm as [H1 H2]. apply N.leb_le in H1, H2.
    destruct ((48 <=? lo)%N && (hi <=? 57)%N) eqn:E.
    + apply andb_true_iff in E as [E1 E2]. apply N.leb_le in E1, E2. inversion Hi; subst.
      assert (Hd : is_digit x = true) by (apply digit_range; lia).
      unfold sig, key1. simpl. rewrite Hd, (digit_not_ws_re x Hd). reflexivity.
    + destruct (N.eqb_spec lo hi) as [->|]; [|discriminate]. assert (x = hi) by lia. subst x.
      unfold sig, key1. simpl. destruct (is_ws_re hi).
      * inversion Hi. rewrite orb_true_r. reflexivity.
      * destruct (is_digit hi); [discriminate|]. inversion Hi. reflexivity.
  - destruct (in_range 97 122 c) eqn:E; [|discriminate]. inversion Hi; subst. apply N.eqb_eq in Hm.
    unfold in_range in E. apply andb_true_iff in E as [E1 E2]. apply N.leb_le in E1, E2.
    assert (Hx : (x = c \/ x + 32 = c)%N).
    { unfold lower, in_range in Hm. destruct ((65 <=? x)%N && (x <=? 90)%N); auto. }
    unfold sig, key1. simpl. rewrite Hm.
    assert (Hd : is_digit x = false).
    { unfold is_digit, in_range. destruct (N.leb_spec 48 x); simpl; auto. destruct (N.leb_spec x 57); auto. lia. }
    assert (Hw : is_ws_re x = false).
    { unfold is_ws_re, is_ws_num, in_range. cls_cases. }
    rewrite Hd, Hw. reflexivity.
Qed.

Fixpoint pat_info (p : list cls) : option (list N * bool) :=
  match p with
  | [] => Some ([], false)
  | k :: p' => match cls_info k, pat_info p' with
               | Some a, Some b => Some (sig_app a b)
               | _, _ => None
               end
  end.

Lemma match_pat_info p : forall t c r i, pat_info p = Some i -> match_pat p t = Some (c, r) ->
  t = c ++ r /\ sig c = i.
Proof.
  induction p as [|k p IH]; intros t c r i Hi Hm; simpl in *.
  - inversion Hi; inversion Hm; subst. split; reflexivity.
  - destruct t as [|x t]; [discriminate|]. destruct (cls_match k x) eqn:Ek; [|discriminate].
    destruct (match_pat p t) as [[c' r']|] eqn:Em; [|discriminate]. inversion Hm; subst.
    destruct (cls_info k) as [a|] eqn:Ea; [|discriminate].
    destruct (pat_info p) as [b|] eqn:Eb; [|discriminate]. inversion Hi; subst.
    destruct (IH t c' r b eq_refl Em) as [-> Hs]. split; [reflexivity|].
    change (x :: c') with ([x] ++ c'). rewrite sig_app_spec, Hs, (cls_info_sound k a x Ea Ek). reflexivity.
Qed.

Fixpoint all_some {A} (l : list (option A)) : option (list A) :=
  match l with
  | [] => Some []
  | Some a :: l' => match all_some l' with Some r => Some (a :: r) | None => None end
  | None :: _ => None
  end.

Definition item_infos (f : item) : option (list (list N * bool)) :=
  match f with
  | IAlt _ alts => all_some (map pat_info alts)
  | IWs => Some [([], true)]
  end.

Fixpoint fmt_infos (fs : list item) : option (list (list N * bool)) :=
  match fs with
  | [] => Some [([], false)]
  | f :: fs' => match item_infos f, fmt_infos fs' with
                | Some a, Some b => Some (flat_map (fun x => map (sig_app x) b) a)
                | _, _ => None
                end
  end.

Lemma first_some_in {A B} (f : A -> option B) l b : first_some f l = Some b -> exists a, In a l /\ f a = Some b.
Proof.
  induction l as [|a l IH]; simpl; [discriminate|]. destruct (f a) eqn:E.
  - intros [= <-]. exists a. auto.
  - intros H. destruct (IH H) as [a' [Hin Hf]]. exists a'. auto.
Qed.

Lemma alts_of_in alts : forall n t i c r, In (i, c, r) (alts_of n alts t) ->
  exists p, In p alts /\ match_pat p t = Some (c, r).
Proof.
  induction alts as [|p ps IH]; intros n t i c r H; simpl in H; [contradiction|].
  destruct (match_pat p t) as [[c' r']|] eqn:E.
  - destruct H as [H|H].
    + inversion H; subst. exists p. split; [left; auto|auto].
    + destruct (IH _ _ _ _ _ H) as [p' [Hin Hm]]. exists p'. split; [right; auto|auto].
  - destruct (IH _ _ _ _ _ H) as [p' [Hin Hm]]. exists p'. split; [right; auto|auto].
Qed.

Lemma all_some_in {A} (l : list (option A)) r x : all_some l = Some r -> In (Some x) l -> In x r.
Proof.
  revert r. induction l as [|[a|] l IH]; intros r H Hin; simpl in *; try contradiction; try discriminate.
  destruct (all_some l) as [r'|]; [|discriminate]. inversion H; subst.
  destruct Hin as [Hin|Hin]; [inversion Hin; left; auto|right; auto].
Qed.
Lemma all_some_none {A} (l : list (option A)) r : all_some l = Some r -> ~ In None l.
Proof.
  revert r. induction l as [|[a|] l IH]; intros r H Hin; simpl in *; try contradiction; try discriminate.
  destruct (all_some l) as [r'|]; [|discriminate]. destruct Hin as [Hin|Hin]; [discriminate|]. eapply IH; eauto.
Qed.

Lemma ws_rests_in t : forall r, In r (ws_rests t) -> exists w, t = w ++ r /\ sig w = ([], true).
Proof.
  induction t as [|x t IH]; intros r H; simpl in H; [contradiction|].
  destruct (is_ws_re x) eqn:E; [|contradiction]. destruct H as [<-|H].
  - exists [x]. split; [reflexivity|]. unfold sig, key1. simpl. rewrite E, orb_true_r. reflexivity.
  - destruct (IH r H) as [w [-> Hs]]. exists (x :: w). split; [reflexivity|].
    change (x :: w) with ([x] ++ w). rewrite sig_app_spec, Hs. unfold sig, key1. simpl. rewrite E, orb_true_r. reflexivity.
Qed.

Lemma mseq_infos fs : forall t cs r L, fmt_infos fs = Some L -> mseq fs t = Some (cs, r) ->
  exists c, t = c ++ r /\ In (sig c) L.
Proof.
  induction fs as [|f fs IH]; intros t cs r L HL Hm; simpl in *.
  - inversion HL; inversion Hm; subst. exists []. split; [reflexivity|left; reflexivity].
  - destruct (item_infos f) as [a|] eqn:Ea; [|discriminate].
    destruct (fmt_infos fs) as [b|] eqn:Eb; [|discriminate]. inversion HL; subst L. clear HL.
    destruct f as [k alts|].
    + apply first_some_in in Hm as [[[i c] r1] [Hin Hf]].
      destruct (mseq fs r1) as [[cs' r']|] eqn:Em; [|discriminate]. inversion Hf; subst.
      apply alts_of_in in Hin as [p [Hp Hmp]].
      simpl in Ea.
      destruct (pat_info p) as [ip|] eqn:Eip.
      2:{ exfalso. eapply all_some_none; [exact Ea|]. rewrite <- Eip. apply in_map. auto. }
      assert (Hia : In ip a).
      { eapply all_some_in; [exact Ea|]. rewrite <- Eip. apply in_map. auto. }
      destruct (match_pat_info p t c r1 ip Eip Hmp) as [-> Hs].
      destruct (IH r1 cs' r b eq_refl Em) as [c2 [-> Hin2]].
      exists (c ++ c2). split; [rewrite app_assoc; reflexivity|].
      apply in_flat_map. exists ip. split; auto. rewrite sig_app_spec, Hs. apply in_map. auto.
    + apply first_some_in in Hm as [r1 [Hin Hf]]. apply in_rev in Hin.
      destruct (ws_rests_in t r1 Hin) as [w [-> Hs]].
      destruct (IH r1 cs r b eq_refl Hf) as [c2 [-> Hin2]].
      exists (w ++ c2). split; [rewrite app_assoc; reflexivity|].
      inversion Ea; subst a. simpl. rewrite app_nil_r. rewrite sig_app_spec, Hs. apply in_map. auto.
Qed.

Lemma strptime_sig fs t v L : fmt_infos fs = Some L -> strptime fs t = Some v -> In (sig t) L.
Proof.
  intros HL H. unfold strptime in H. destruct (mseq fs t) as [[cs [|x r]]|] eqn:E; try discriminate.
  destruct (mseq_infos fs t cs [] L HL E) as [c [-> Hin]]. rewrite app_nil_r. auto.
Qed.

(* the signature sets of the ten formats are pairwise disjoint *)
Definition sig_eqb (a b : list N * bool) : bool := text_eqb (fst a) (fst b) && Bool.eqb (snd a) (snd b).
Definition disjointb (A B : list (list N * bool)) : bool :=
  forallb (fun a => negb (existsb (sig_eqb a) B)) A.

Lemma disjointb_sound A B x : disjointb A B = true -> In x A -> In x B -> False.
Proof.
  unfold disjointb. rewrite forallb_forall. intros H HA HB. specialize (H x HA).
  apply negb_true_iff in H. assert (existsb (sig_eqb x) B = true); [|congruence].
  apply existsb_exists. exists x. split; auto. unfold sig_eqb. rewrite text_eqb_refl, eqb_reflx. reflexivity.
Qed.

Definition fmt_sigs : list (list (list N * bool)) :=
  map (fun f => match fmt_infos f with Some L => L | None => [] end) datetime_formats.

Lemma fmt_infos_all : forallb (fun f => match fmt_infos f with Some _ => true | None => false end) datetime_formats = true.
Proof. vm_compute. reflexivity. Qed.

Fixpoint pairwise_disjoint (Ls : list (list (list N * bool))) : bool :=
  match Ls with
  | [] => true
  | L :: Ls' => forallb (disjointb L) Ls' && pairwise_disjoint Ls'
  end.
Lemma fmt_sigs_disjoint : pairwise_disjoint fmt_sigs = true.
Proof. vm_compute. reflexivity. Qed.

Lemma pairwise_nth Ls : pairwise_disjoint Ls = true ->
  forall j k A B, nth_error Ls j = Some A -> nth_error Ls k = Some B -> j <> k -> disjointb A B = true \/ disjointb B A = true.
Proof.
  induction Ls as [|L Ls IH]; intros H j k A B Hj Hk Hne; [destruct j; discriminate|].
  simpl in H. apply andb_true_iff in H as [H1 H2]. rewrite forallb_forall in H1.
  destruct j as [|j], k as [|k]; simpl in *; try congruence.
  - inversion Hj; subst. left. apply H1. eapply nth_error_In; eauto.
  - inversion Hk; subst. right. apply H1. eapply nth_error_In; eauto.
  - eapply IH; eauto.
Qed.

Theorem formats_exclusive t j k fj fk vj vk :
  nth_error datetime_formats j = Some fj -> nth_error datetime_formats k = Some fk ->
  strptime fj t = Some vj -> strptime fk t = Some vk -> j = k.
Proof.
  intros Hj Hk Sj Sk. destruct (Nat.eq_dec j k) as [|Hne]; auto. exfalso.
  pose proof fmt_infos_all as Hall. rewrite forallb_forall in Hall.
  assert (Ij : exists Lj, fmt_infos fj = Some Lj).
  { specialize (Hall fj (nth_error_In _ _ Hj)). destruct (fmt_infos fj); [eauto|discriminate]. }
  assert (Ik : exists Lk, fmt_infos fk = Some Lk).
  { specialize (Hall fk (nth_error_In _ _ Hk)). destruct (fmt_infos fk); [eauto|discriminate]. }
  destruct Ij as [Lj Ej], Ik as [Lk Ek].
  assert (Nj : nth_error fmt_sigs j = Some Lj).
  { unfold fmt_sigs. rewrite nth_error_map, Hj. simpl. rewrite Ej. reflexivity. }
  assert (Nk : nth_error fmt_sigs k = Some Lk).
  { unfold fmt_sigs. rewrite nth_error_map, Hk. simpl. rewrite Ek. reflexivity. }
  pose proof (strptime_sig fj t vj Lj Ej Sj) as Inj.
  pose proof (strptime_sig fk t vk Lk Ek Sk) as Ink.
  destruct (pairwise_nth _ fmt_sigs_disjoint j k Lj Lk Nj Nk Hne) as [D|D];
    eapply disjointb_sound; eauto.
Qed.

(* hence: whichever format accepts the text decides the result *)
Lemma first_some_nth {A B} (f : A -> option B) l : forall k a b,
  nth_error l k = Some a -> f a = Some b ->
  (forall j a', (j < k)%nat -> nth_error l j = Some a' -> f a' = None) ->
  first_some f l = Some b.
Proof.
  induction l as [|x l IH]; intros k a b Hk Hf Hn; [destruct k; discriminate|].
  destruct k as [|k]; simpl in *.
  - inversion Hk; subst. rewrite Hf. reflexivity.
  - rewrite (Hn 0%nat x) by (auto; lia). eapply IH; eauto.
    intros j a' Hj Ha. apply (Hn (S j) a'); [lia|auto].
Qed.

Theorem parse_datetime_any_format t k fk v :
  nth_error datetime_formats k = Some fk -> strptime fk t = Some v -> parse_datetime t = Some v.
Proof.
  intros Hk Sk. unfold parse_datetime. eapply first_some_nth; eauto.
  intros j fj Hj Nj. destruct (strptime fj t) as [vj|] eqn:Sj; auto.
  pose proof (formats_exclusive t j k fj fk vj v Nj Hk Sj Sk). lia.
Qed.

(* ------------------------------------------------------------------ *)
(* (B) printing and reading back                                       *)
Definition dch (z : Z) : N := Z.to_N (48 + z).
Definition p2 (z : Z) : text := [dch (z / 10); dch (z mod 10)].
Definition p4 (z : Z) : text := [dch (z / 1000); dch ((z / 100) mod 10); dch ((z / 10) mod 10); dch (z mod 10)].

Lemma dch_digit z : 0 <= z <= 9 -> is_digit (dch z) = true.
Proof. intros H. apply digit_range. unfold dch. lia. Qed.
Lemma dch_val z : 0 <= z <= 9 -> Z.of_N (dval (dch z)) = z.
Proof. intros H. unfold dval, dch. lia. Qed.

Lemma mseq_alt_first k alts fs t i c r others cs r' :
  alts_of 0 alts t = (i, c, r) :: others -> mseq fs r = Some (cs, r') ->
  mseq (IAlt k alts :: fs) t = Some ((k, i, c) :: cs, r').
Proof. intros Ha Hm. simpl. rewrite Ha. simpl. rewrite Hm. reflexivity. Qed.

Lemma mseq_lit c fs rest cs r' :
  mseq fs rest = Some (cs, r') -> mseq (lit c :: fs) (c :: rest) = Some ((KLit, 0%nat, [c]) :: cs, r').
Proof.
  intros Hm. unfold lit. eapply mseq_alt_first; [|exact Hm]. simpl. unfold in_range.
  rewrite N.leb_refl. reflexivity.
Qed.

Lemma mseq_T fs rest cs r' :
  mseq fs rest = Some (cs, r') -> mseq (f_T :: fs) (84%N :: rest) = Some ((KLit, 0%nat, [84%N]) :: cs, r').
Proof. intros Hm. unfold f_T. eapply mseq_alt_first; [|exact Hm]. reflexivity. Qed.

Lemma mseq_space fs x rest cs r' : is_ws_re x = false ->
  mseq fs (x :: rest) = Some (cs, r') -> mseq (IWs :: fs) (32%N :: x :: rest) = Some (cs, r').
Proof. intros Hx Hm. simpl. rewrite Hx. simpl. rewrite Hm. reflexivity. Qed.

(* a capture list for the numeric fields, in any order, determines the value *)
Lemma num_of_p2 z : 0 <= z <= 99 -> num_of (p2 z) = z.
Proof.
  intros H. unfold num_of, p2. cbn [filter].
  rewrite !dch_digit by (Z.div_mod_to_equations; lia).
  cbn [digits_val].
  assert (E1 : Z.of_N (dval (dch (z / 10))) = z / 10) by (apply dch_val; Z.div_mod_to_equations; lia).
  assert (E2 : Z.of_N (dval (dch (z mod 10))) = z mod 10) by (apply dch_val; Z.div_mod_to_equations; lia).
  repeat (rewrite N2Z.inj_add || rewrite N2Z.inj_mul). rewrite E1, E2. change (Z.of_N 10) with 10. change (Z.of_N 0) with 0.
  Z.div_mod_to_equations. lia.
Qed.
Lemma num_of_p4 z : 0 <= z <= 9999 -> num_of (p4 z) = z.
Proof.
  intros H. unfold num_of, p4. cbn [filter].
  rewrite !dch_digit by (Z.div_mod_to_equations; lia).
  cbn [digits_val].
  assert (E1 : Z.of_N (dval (dch (z / 1000))) = z / 1000) by (apply dch_val; Z.div_mod_to_equations; lia).
  assert (E2 : Z.of_N (dval (dch ((z / 100) mod 10))) = (z / 100) mod 10) by (apply dch_val; Z.div_mod_to_equations; lia).
  assert (E3 : Z.of_N (dval (dch ((z / 10) mod 10))) = (z / 10) mod 10) by (apply dch_val; Z.div_mod_to_equations; lia).
  assert (E4 : Z.of_N (dval (dch (z mod 10))) = z mod 10) by (apply dch_val; Z.div_mod_to_equations; lia).
  repeat (rewrite N2Z.inj_add || rewrite N2Z.inj_mul). rewrite E1, E2, E3, E4. change (Z.of_N 10) with 10. change (Z.of_N 0) with 0.
  Z.div_mod_to_equations. lia.
Qed.

(* finite case analysis on a bounded integer *)
Tactic Notation "zcases" constr(z) integer(n) tactic(tac) :=
  let k := fresh "k" in let E := fresh "E" in
  remember (Z.to_nat z) as k eqn:E;
  assert (z = Z.of_nat k) by lia; subst z; clear E;
  do n (destruct k as [|k]; [first [exfalso; lia | tac]|]); exfalso; lia.

Ltac alt_case := eexists; eexists; cbv; reflexivity.

Lemma alts_m z rest : 1 <= z <= 12 -> exists i others,
  alts_of 0 [[C 49; CR 48 50]; [C 48; CR 49 57]; [CR 49 57]] (p2 z ++ rest) = (i, p2 z, rest) :: others.
Proof. intros H. zcases z 13 alt_case. Qed.
Lemma alts_d z rest : 1 <= z <= 31 -> exists i others,
  alts_of 0 [[C 51; CR 48 49]; [CR 49 50; D]; [C 48; CR 49 57]; [CR 49 57]; [C 32; CR 49 57]] (p2 z ++ rest)
  = (i, p2 z, rest) :: others.
Proof. intros H. zcases z 32 alt_case. Qed.
Lemma alts_H z rest : 0 <= z <= 23 -> exists i others,
  alts_of 0 [[C 50; CR 48 51]; [CR 48 49; D]; [D]] (p2 z ++ rest) = (i, p2 z, rest) :: others.
Proof. intros H. zcases z 24 alt_case. Qed.
Lemma alts_M z rest : 0 <= z <= 59 -> exists i others,
  alts_of 0 [[CR 48 53; D]; [D]] (p2 z ++ rest) = (i, p2 z, rest) :: others.
Proof. intros H. zcases z 60 alt_case. Qed.
Lemma alts_S z rest : 0 <= z <= 59 -> exists i others,
  alts_of 0 [[C 54; CR 48 49]; [CR 48 53; D]; [D]] (p2 z ++ rest) = (i, p2 z, rest) :: others.
Proof. intros H. zcases z 60 alt_case. Qed.

Lemma alts_Y z rest : 0 <= z <= 9999 ->
  alts_of 0 [[D; D; D; D]] (p4 z ++ rest) = [(0%nat, p4 z, rest)].
Proof.
  intros H. unfold p4. cbn [app alts_of match_pat cls_match D].
  change (in_range 48 57) with is_digit.
  rewrite !dch_digit by (Z.div_mod_to_equations; lia). reflexivity.
Qed.

(* weekday and month names as printed by ctime / strftime("%a %b") *)
Definition wd_names : list text :=
  [[77;111;110]; [84;117;101]; [87;101;100]; [84;104;117]; [70;114;105]; [83;97;116]; [83;117;110]]%N.
Definition mon_names : list text :=
  [[74;97;110]; [70;101;98]; [77;97;114]; [65;112;114]; [77;97;121]; [74;117;110];
   [74;117;108]; [65;117;103]; [83;101;112]; [79;99;116]; [78;111;118]; [68;101;99]]%N.

Lemma alts_a w rest : In w wd_names -> exists i others,
  alts_of 0 (match f_a with IAlt _ a => a | IWs => [] end) (w ++ rest) = (i, w, rest) :: others.
Proof.
  unfold wd_names. simpl. intros H.
  repeat (destruct H as [<-|H]; [alt_case|]). contradiction.
Qed.
Lemma alts_b z rest : 1 <= z <= 12 -> exists others,
  alts_of 0 (match f_b with IAlt _ a => a | IWs => [] end) (nth (Z.to_nat (z - 1)) mon_names [] ++ rest)
  = (Z.to_nat (z - 1), nth (Z.to_nat (z - 1)) mon_names [], rest) :: others.
Proof. intros H. zcases z 13 ltac:(eexists; cbv; reflexivity). Qed.

Lemma p2_head z : 0 <= z <= 99 -> exists a b, p2 z = [a; b] /\ is_ws_re a = false.
Proof.
  intros H. exists (dch (z / 10)), (dch (z mod 10)). split; [reflexivity|].
  apply digit_not_ws_re, dch_digit. Z.div_mod_to_equations; lia.
Qed.
Lemma p4_head z : 0 <= z <= 9999 -> exists a r, p4 z = a :: r /\ is_ws_re a = false.
Proof.
  intros H. eexists; eexists. split; [reflexivity|].
  apply digit_not_ws_re, dch_digit. Z.div_mod_to_equations; lia.
Qed.

Definition time_ok (h mi s : Z) := 0 <= h <= 23 /\ 0 <= mi <= 59 /\ 0 <= s <= 59.
Definition date_ok (y mo d : Z) := 1 <= y <= 9999 /\ 1 <= mo <= 12 /\ 1 <= d <= days_in_month y mo.

Lemma dim_le y mo : days_in_month y mo <= 31.
Proof. unfold days_in_month. repeat match goal with |- context [if ?b then _ else _] => destruct b end; lia. Qed.

Lemma dt_valid_ok y mo d h mi s : date_ok y mo d -> time_ok h mi s ->
  dt_valid {| dt_Y := y; dt_m := mo; dt_d := d; dt_H := h; dt_M := mi; dt_S := s |} = true.
Proof.
  intros [Hy [Hm Hd]] [Hh [Hmi Hs]]. unfold dt_valid. cbn [dt_Y dt_m dt_d dt_H dt_M dt_S].
  repeat (apply andb_true_intro; split); apply Z.leb_le; lia.
Qed.


Lemma strptime_of_mseq fs t cs v :
  mseq fs t = Some (cs, []) -> apply_caps cs dt_default = v -> dt_valid v = true -> strptime fs t = Some v.
Proof. intros Hm Ha Hv. unfold strptime. rewrite Hm, Ha, Hv. reflexivity. Qed.

Lemma mseq_space' fs t x r cs r' : t = x :: r -> is_ws_re x = false ->
  mseq fs t = Some (cs, r') -> mseq (IWs :: fs) (32%N :: t) = Some (cs, r').
Proof. intros -> Hx Hm. apply mseq_space; auto. Qed.

Lemma mon_name_head z : 1 <= z <= 12 -> exists a r, nth (Z.to_nat (z - 1)) mon_names [] = a :: r /\ is_ws_re a = false.
Proof. intros H. zcases z 13 ltac:(eexists; eexists; split; reflexivity). Qed.

(* the ten canonical texts (built right-nested; [p2 s ++ []] is [p2 s]) *)
Definition hms_k h mi s (rest : text) : text := p2 h ++ 58%N :: p2 mi ++ 58%N :: p2 s ++ rest.
Definition hm_k h mi (rest : text) : text := p2 h ++ 58%N :: p2 mi ++ rest.
Definition ymd_dash_k y mo d (rest : text) : text := p4 y ++ 45%N :: p2 mo ++ 45%N :: p2 d ++ rest.
Definition ymd_k y mo d (rest : text) : text := p4 y ++ p2 mo ++ p2 d ++ rest.
Definition mon_name (mo : Z) : text := nth (Z.to_nat (mo - 1)) mon_names [].

Definition print_dt (k : nat) (wd : text) (y mo d h mi s : Z) : text :=
  match k with
  | 0%nat => wd ++ 32%N :: mon_name mo ++ 32%N :: p2 d ++ 32%N :: hms_k h mi s (32%N :: p4 y ++ [])
  | 1%nat => ymd_dash_k y mo d (32%N :: hms_k h mi s [])
  | 2%nat => ymd_dash_k y mo d (32%N :: hm_k h mi [])
  | 3%nat => ymd_dash_k y mo d (84%N :: hm_k h mi [])
  | 4%nat => ymd_k y mo d (32%N :: hms_k h mi s [])
  | 5%nat => ymd_k y mo d (32%N :: hm_k h mi [])
  | 6%nat => ymd_dash_k y mo d []
  | 7%nat => ymd_k y mo d []
  | 8%nat => hms_k h mi s []
  | _ => hm_k h mi []
  end.
(* the fields a format carries; the others take strptime's defaults *)
Definition proj_dt (k : nat) (y mo d h mi s : Z) : dtv :=
  let has_date := negb (Nat.leb 8 k) in
  let has_time := negb (Nat.eqb k 6 || Nat.eqb k 7) in
  let has_sec := Nat.eqb k 0 || Nat.eqb k 1 || Nat.eqb k 4 || Nat.eqb k 8 in
  {| dt_Y := if has_date then y else 1900; dt_m := if has_date then mo else 1; dt_d := if has_date then d else 1;
     dt_H := if has_time then h else 0; dt_M := if has_time then mi else 0; dt_S := if has_sec then s else 0 |}.

Lemma date_ok_default : date_ok 1900 1 1. Proof. unfold date_ok. change (days_in_month 1900 1) with 31. lia. Qed.
Lemma time_ok_zero : time_ok 0 0 0. Proof. unfold time_ok. lia. Qed.

Section Roundtrip.
  Variables (wd : text) (y mo d h mi s : Z).
  Hypothesis Hwd : In wd wd_names.
  Hypothesis Hdate : date_ok y mo d.
  Hypothesis Htime : time_ok h mi s.

  Lemma Hd31 : 1 <= d <= 31.
  Proof. destruct Hdate as [_ [_ H]]. pose proof (dim_le y mo). lia. Qed.
  Lemma Hy : 0 <= y <= 9999. Proof. destruct Hdate; lia. Qed.
  Lemma Hmo : 1 <= mo <= 12. Proof. destruct Hdate as [_ [H _]]; lia. Qed.
  Lemma Hh : 0 <= h <= 23. Proof. destruct Htime; lia. Qed.
  Lemma Hmi : 0 <= mi <= 59. Proof. destruct Htime as [_ [H _]]; lia. Qed.
  Lemma Hs : 0 <= s <= 59. Proof. destruct Htime as [_ [_ H]]; lia. Qed.

  Lemma seg_time3 fs rest cs r' : mseq fs rest = Some (cs, r') -> exists i1 i2 i3,
    mseq (f_H :: colon :: f_M :: colon :: f_S :: fs) (hms_k h mi s rest) =
      Some ((KH, i1, p2 h) :: (KLit, 0%nat, [58%N]) :: (KM, i2, p2 mi) :: (KLit, 0%nat, [58%N]) :: (KS, i3, p2 s) :: cs, r').
  Proof.
    intros Hm. unfold hms_k.
    destruct (alts_S s rest Hs) as [i3 [o3 E3]].
    destruct (alts_M mi (58%N :: p2 s ++ rest) Hmi) as [i2 [o2 E2]].
    destruct (alts_H h (58%N :: p2 mi ++ 58%N :: p2 s ++ rest) Hh) as [i1 [o1 E1]].
    exists i1, i2, i3.
    apply (mseq_alt_first KH _ _ _ _ _ _ _ _ _ E1). apply mseq_lit.
    apply (mseq_alt_first KM _ _ _ _ _ _ _ _ _ E2). apply mseq_lit.
    apply (mseq_alt_first KS _ _ _ _ _ _ _ _ _ E3). exact Hm.
  Qed.
  Lemma seg_time2 fs rest cs r' : mseq fs rest = Some (cs, r') -> exists i1 i2,
    mseq (f_H :: colon :: f_M :: fs) (hm_k h mi rest) =
      Some ((KH, i1, p2 h) :: (KLit, 0%nat, [58%N]) :: (KM, i2, p2 mi) :: cs, r').
  Proof.
    intros Hm. unfold hm_k.
    destruct (alts_M mi rest Hmi) as [i2 [o2 E2]].
    destruct (alts_H h (58%N :: p2 mi ++ rest) Hh) as [i1 [o1 E1]].
    exists i1, i2.
    apply (mseq_alt_first KH _ _ _ _ _ _ _ _ _ E1). apply mseq_lit.
    apply (mseq_alt_first KM _ _ _ _ _ _ _ _ _ E2). exact Hm.
  Qed.
  Lemma seg_date_dash fs rest cs r' : mseq fs rest = Some (cs, r') -> exists i2 i3,
    mseq (f_Y :: dash :: f_m :: dash :: f_d :: fs) (ymd_dash_k y mo d rest) =
      Some ((KY, 0%nat, p4 y) :: (KLit, 0%nat, [45%N]) :: (Km, i2, p2 mo) :: (KLit, 0%nat, [45%N]) :: (Kd, i3, p2 d) :: cs, r').
  Proof.
    intros Hm. unfold ymd_dash_k.
    destruct (alts_d d rest Hd31) as [i3 [o3 E3]].
    destruct (alts_m mo (45%N :: p2 d ++ rest) Hmo) as [i2 [o2 E2]].
    pose proof (alts_Y y (45%N :: p2 mo ++ 45%N :: p2 d ++ rest) Hy) as E1.
    exists i2, i3.
    apply (mseq_alt_first KY _ _ _ _ _ _ _ _ _ E1). apply mseq_lit.
    apply (mseq_alt_first Km _ _ _ _ _ _ _ _ _ E2). apply mseq_lit.
    apply (mseq_alt_first Kd _ _ _ _ _ _ _ _ _ E3). exact Hm.
  Qed.
  Lemma seg_date fs rest cs r' : mseq fs rest = Some (cs, r') -> exists i2 i3,
    mseq (f_Y :: f_m :: f_d :: fs) (ymd_k y mo d rest) =
      Some ((KY, 0%nat, p4 y) :: (Km, i2, p2 mo) :: (Kd, i3, p2 d) :: cs, r').
  Proof.
    intros Hm. unfold ymd_k.
    destruct (alts_d d rest Hd31) as [i3 [o3 E3]].
    destruct (alts_m mo (p2 d ++ rest) Hmo) as [i2 [o2 E2]].
    pose proof (alts_Y y (p2 mo ++ p2 d ++ rest) Hy) as E1.
    exists i2, i3.
    apply (mseq_alt_first KY _ _ _ _ _ _ _ _ _ E1).
    apply (mseq_alt_first Km _ _ _ _ _ _ _ _ _ E2).
    apply (mseq_alt_first Kd _ _ _ _ _ _ _ _ _ E3). exact Hm.
  Qed.

  Lemma p2_not_ws z : 0 <= z <= 99 -> is_ws_re (dch (z / 10)) = false.
  Proof. intros H. apply digit_not_ws_re, dch_digit. Z.div_mod_to_equations; lia. Qed.

  Lemma sp_hms fs rest cs r' : mseq fs (hms_k h mi s rest) = Some (cs, r') ->
    mseq (IWs :: fs) (32%N :: hms_k h mi s rest) = Some (cs, r').
  Proof. intros H. eapply mseq_space'; [reflexivity| |exact H]. apply p2_not_ws. pose proof Hh; lia. Qed.
  Lemma sp_hm fs rest cs r' : mseq fs (hm_k h mi rest) = Some (cs, r') ->
    mseq (IWs :: fs) (32%N :: hm_k h mi rest) = Some (cs, r').
  Proof. intros H. eapply mseq_space'; [reflexivity| |exact H]. apply p2_not_ws. pose proof Hh; lia. Qed.

  Ltac bounds := pose proof Hd31; pose proof Hy; pose proof Hmo; pose proof Hh; pose proof Hmi; pose proof Hs.
  Ltac caps := cbv beta iota zeta delta [apply_caps dt_default dt_Y dt_m dt_d dt_H dt_M dt_S];
               rewrite ?num_of_p2, ?num_of_p4 by (bounds; lia); reflexivity.
  Ltac tok := bounds; unfold time_ok; lia.

  Definition full := {| dt_Y := y; dt_m := mo; dt_d := d; dt_H := h; dt_M := mi; dt_S := s |}.
  Definition nosec := {| dt_Y := y; dt_m := mo; dt_d := d; dt_H := h; dt_M := mi; dt_S := 0 |}.
  Definition dateonly := {| dt_Y := y; dt_m := mo; dt_d := d; dt_H := 0; dt_M := 0; dt_S := 0 |}.

  Lemma rt1 : strptime [f_Y; dash; f_m; dash; f_d; IWs; f_H; colon; f_M; colon; f_S] (print_dt 1 wd y mo d h mi s) = Some full.
  Proof.
    destruct (seg_time3 [] [] [] [] eq_refl) as [i1 [i2 [i3 HT]]]. apply sp_hms in HT.
    destruct (seg_date_dash _ _ _ _ HT) as [j2 [j3 HD]].
    eapply strptime_of_mseq; [exact HD|caps|apply dt_valid_ok; auto].
  Qed.
  Lemma rt2 : strptime [f_Y; dash; f_m; dash; f_d; IWs; f_H; colon; f_M] (print_dt 2 wd y mo d h mi s) = Some nosec.
  Proof.
    destruct (seg_time2 [] [] [] [] eq_refl) as [i1 [i2 HT]]. apply sp_hm in HT.
    destruct (seg_date_dash _ _ _ _ HT) as [j2 [j3 HD]].
    eapply strptime_of_mseq; [exact HD|caps|apply dt_valid_ok; auto; tok].
  Qed.
  Lemma rt3 : strptime [f_Y; dash; f_m; dash; f_d; f_T; f_H; colon; f_M] (print_dt 3 wd y mo d h mi s) = Some nosec.
  Proof.
    destruct (seg_time2 [] [] [] [] eq_refl) as [i1 [i2 HT]]. apply mseq_T in HT.
    destruct (seg_date_dash _ _ _ _ HT) as [j2 [j3 HD]].
    eapply strptime_of_mseq; [exact HD|caps|apply dt_valid_ok; auto; tok].
  Qed.
  Lemma rt4 : strptime [f_Y; f_m; f_d; IWs; f_H; colon; f_M; colon; f_S] (print_dt 4 wd y mo d h mi s) = Some full.
  Proof.
    destruct (seg_time3 [] [] [] [] eq_refl) as [i1 [i2 [i3 HT]]]. apply sp_hms in HT.
    destruct (seg_date _ _ _ _ HT) as [j2 [j3 HD]].
    eapply strptime_of_mseq; [exact HD|caps|apply dt_valid_ok; auto].
  Qed.
  Lemma rt5 : strptime [f_Y; f_m; f_d; IWs; f_H; colon; f_M] (print_dt 5 wd y mo d h mi s) = Some nosec.
  Proof.
    destruct (seg_time2 [] [] [] [] eq_refl) as [i1 [i2 HT]]. apply sp_hm in HT.
    destruct (seg_date _ _ _ _ HT) as [j2 [j3 HD]].
    eapply strptime_of_mseq; [exact HD|caps|apply dt_valid_ok; auto; tok].
  Qed.
  Lemma rt6 : strptime [f_Y; dash; f_m; dash; f_d] (print_dt 6 wd y mo d h mi s) = Some dateonly.
  Proof.
    destruct (seg_date_dash [] [] [] [] eq_refl) as [j2 [j3 HD]].
    eapply strptime_of_mseq; [exact HD|caps|apply dt_valid_ok; auto using time_ok_zero].
  Qed.
  Lemma rt7 : strptime [f_Y; f_m; f_d] (print_dt 7 wd y mo d h mi s) = Some dateonly.
  Proof.
    destruct (seg_date [] [] [] [] eq_refl) as [j2 [j3 HD]].
    eapply strptime_of_mseq; [exact HD|caps|apply dt_valid_ok; auto using time_ok_zero].
  Qed.
  Lemma rt8 : strptime [f_H; colon; f_M; colon; f_S] (print_dt 8 wd y mo d h mi s)
              = Some {| dt_Y := 1900; dt_m := 1; dt_d := 1; dt_H := h; dt_M := mi; dt_S := s |}.
  Proof.
    destruct (seg_time3 [] [] [] [] eq_refl) as [i1 [i2 [i3 HT]]].
    eapply strptime_of_mseq; [exact HT|caps|apply dt_valid_ok; auto using date_ok_default].
  Qed.
  Lemma rt9 : strptime [f_H; colon; f_M] (print_dt 9 wd y mo d h mi s)
              = Some {| dt_Y := 1900; dt_m := 1; dt_d := 1; dt_H := h; dt_M := mi; dt_S := 0 |}.
  Proof.
    destruct (seg_time2 [] [] [] [] eq_refl) as [i1 [i2 HT]].
    eapply strptime_of_mseq; [exact HT|caps|apply dt_valid_ok; auto using date_ok_default; tok].
  Qed.

  Lemma rt0 : strptime [f_a; IWs; f_b; IWs; f_d; IWs; f_H; colon; f_M; colon; f_S; IWs; f_Y]
                (print_dt 0 wd y mo d h mi s) = Some full.
  Proof.
    pose proof (alts_Y y [] Hy) as EY.
    assert (HY : mseq [f_Y] (p4 y ++ []) = Some ([(KY, 0%nat, p4 y)], [])).
    { apply (mseq_alt_first KY _ _ _ _ _ _ _ _ _ EY). reflexivity. }
    assert (HS1 : mseq [IWs; f_Y] (32%N :: p4 y ++ []) = Some ([(KY, 0%nat, p4 y)], [])).
    { eapply mseq_space'; [reflexivity| |exact HY]. apply digit_not_ws_re, dch_digit. pose proof Hy. Z.div_mod_to_equations; lia. }
    destruct (seg_time3 _ _ _ _ HS1) as [i1 [i2 [i3 HT]]]. apply sp_hms in HT.
    destruct (alts_d d (32%N :: hms_k h mi s (32%N :: p4 y ++ [])) Hd31) as [j3 [o3 E3]].
    pose proof (mseq_alt_first Kd _ _ _ _ _ _ _ _ _ E3 HT) as HD.
    assert (HS3 : mseq (IWs :: f_d :: IWs :: f_H :: colon :: f_M :: colon :: f_S :: [IWs; f_Y])
                    (32%N :: p2 d ++ 32%N :: hms_k h mi s (32%N :: p4 y ++ [])) = Some
                    ((Kd, j3, p2 d) :: (KH, i1, p2 h) :: (KLit, 0%nat, [58%N]) :: (KM, i2, p2 mi) :: (KLit, 0%nat, [58%N]) :: (KS, i3, p2 s) :: [(KY, 0%nat, p4 y)], [])).
    { eapply mseq_space'; [reflexivity| |exact HD]. apply p2_not_ws. pose proof Hd31; lia. }
    destruct (alts_b mo (32%N :: p2 d ++ 32%N :: hms_k h mi s (32%N :: p4 y ++ [])) Hmo) as [ob Eb].
    pose proof (mseq_alt_first Kb _ _ _ _ _ _ _ _ _ Eb HS3) as HB.
    destruct (mon_name_head mo Hmo) as [a [r [Em Ha]]].
    pose proof (mseq_space' _ (mon_name mo ++ 32%N :: p2 d ++ 32%N :: hms_k h mi s (32%N :: p4 y ++ [])) a
                  (r ++ 32%N :: p2 d ++ 32%N :: hms_k h mi s (32%N :: p4 y ++ [])) _ _
                  ltac:(unfold mon_name; rewrite Em; reflexivity) Ha HB) as HS4.
    destruct (alts_a wd (32%N :: mon_name mo ++ 32%N :: p2 d ++ 32%N :: hms_k h mi s (32%N :: p4 y ++ [])) Hwd) as [ia [oa Ea]].
    pose proof (mseq_alt_first Ka _ _ _ _ _ _ _ _ _ Ea HS4) as HA.
    eapply strptime_of_mseq; [exact HA| |apply dt_valid_ok; auto].
    cbv beta iota zeta delta [apply_caps dt_default dt_Y dt_m dt_d dt_H dt_M dt_S].
    rewrite ?num_of_p2, ?num_of_p4 by (bounds; lia).
    replace (Z.of_nat (S (Z.to_nat (mo - 1)))) with mo by (pose proof Hmo; lia).
    reflexivity.
  Qed.
End Roundtrip.

Theorem datetime_roundtrip k wd y mo d h mi s :
  (k < 10)%nat -> In wd wd_names -> date_ok y mo d -> time_ok h mi s ->
  parse_datetime (print_dt k wd y mo d h mi s) = Some (proj_dt k y mo d h mi s).
Proof.
  intros Hk Hwd Hd Ht.
  destruct k as [|[|[|[|[|[|[|[|[|[|k]]]]]]]]]]; [| | | | | | | | | |lia].
  - apply (parse_datetime_any_format _ 0%nat _ _ eq_refl). apply rt0; auto.
  - apply (parse_datetime_any_format _ 1%nat _ _ eq_refl). apply rt1; auto.
  - apply (parse_datetime_any_format _ 2%nat _ _ eq_refl). apply rt2; auto.
  - apply (parse_datetime_any_format _ 3%nat _ _ eq_refl). apply rt3; auto.
  - apply (parse_datetime_any_format _ 4%nat _ _ eq_refl). apply rt4; auto.
  - apply (parse_datetime_any_format _ 5%nat _ _ eq_refl). apply rt5; auto.
  - apply (parse_datetime_any_format _ 6%nat _ _ eq_refl). apply rt6; auto.
  - apply (parse_datetime_any_format _ 7%nat _ _ eq_refl). apply rt7; auto.
  - apply (parse_datetime_any_format _ 8%nat _ _ eq_refl). apply rt8; auto.
  - apply (parse_datetime_any_format _ 9%nat _ _ eq_refl). apply rt9; auto.
Qed.
