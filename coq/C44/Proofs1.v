(* C44 — proofs, part 1: text utilities, str, bool, int, multiple values and ranges. *)
From Coq Require Import List ZArith NArith Bool Lia.
Import ListNotations.
From TV Require Import C44.Model.
Local Open Scope Z_scope.

(* ------------------------------------------------------------------ *)
(* printers (specification side only)                                  *)
Fixpoint le_digits (fuel : nat) (n : N) : list N :=
  match fuel with
  | O => [n]
  | S f => if (n <? 10)%N then [n] else (n mod 10)%N :: le_digits f (n / 10)%N
  end.
Definition print_N (n : N) : text :=
  rev (map (fun d => (48 + d)%N) (le_digits (N.to_nat (N.log2 n)) n)).
Definition print_int (z : Z) : text :=
  if z <? 0 then 45%N :: print_N (Z.to_N (- z)) else print_N (Z.to_N z).
Fixpoint join (sep : N) (parts : list text) : text :=
  match parts with
  | [] => []
  | [p] => p
  | p :: ps => p ++ sep :: join sep ps
  end.

Definition all_true (p : N -> bool) (t : text) := Forall (fun c => p c = true) t.
Definition all_false (p : N -> bool) (t : text) := Forall (fun c => p c = false) t.
Definition digits (t : text) := all_true is_digit t.

(* ------------------------------------------------------------------ *)
(* text equality                                                       *)
Lemma text_eqb_refl a : text_eqb a a = true.
Proof. induction a as [|x a IH]; simpl; auto. rewrite N.eqb_refl; auto. Qed.
Lemma text_eqb_true a b : text_eqb a b = true -> a = b.
Proof.
  revert b; induction a as [|x a IH]; intros [|y b] H; simpl in H; try discriminate; auto.
  apply andb_true_iff in H as [H1 H2]. apply N.eqb_eq in H1. f_equal; auto.
Qed.
Lemma text_eqb_false a b : a <> b -> text_eqb a b = false.
Proof. intros H. destruct (text_eqb a b) eqn:E; auto. apply text_eqb_true in E. contradiction. Qed.
Lemma existsb_text_eqb l ws : existsb (text_eqb l) ws = true <-> In l ws.
Proof.
  rewrite existsb_exists. split.
  - intros [x [Hin He]]. apply text_eqb_true in He. subst; auto.
  - intros H. exists l. split; auto. apply text_eqb_refl.
Qed.

(* ------------------------------------------------------------------ *)
(* character classes                                                   *)
Ltac cls_cases :=
  repeat match goal with
         | |- context [(?a <=? ?b)%N] => destruct (N.leb_spec a b)
         | |- context [(?a =? ?b)%N] => destruct (N.eqb_spec a b)
         end; simpl; try reflexivity; try lia.

Lemma digit_range c : is_digit c = true <-> (48 <= c <= 57)%N.
Proof. unfold is_digit, in_range. rewrite andb_true_iff, !N.leb_le. tauto. Qed.
Lemma digit_not_ws c : is_digit c = true -> is_ws_num c = false.
Proof. rewrite digit_range. intros H. unfold is_ws_num, in_range. cls_cases. Qed.
Lemma digit_not_ws_re c : is_digit c = true -> is_ws_re c = false.
Proof. rewrite digit_range. intros H. unfold is_ws_re, is_ws_num, in_range. cls_cases. Qed.
Lemma dval_digit d : dval (48 + d) = d.
Proof. unfold dval. lia. Qed.

(* ------------------------------------------------------------------ *)
(* strip                                                               *)
Lemma lstrip_all_true p w t : all_true p w -> lstrip p (w ++ t) = lstrip p t.
Proof. induction 1 as [|c w Hc _ IH]; simpl; auto. rewrite Hc. auto. Qed.
Lemma lstrip_all_false p t : all_false p t -> lstrip p t = t.
Proof. destruct 1 as [|c t Hc _]; simpl; auto. rewrite Hc. auto. Qed.
Lemma lstrip_nil p w : all_true p w -> lstrip p w = [].
Proof. intros H. rewrite <- (app_nil_r w). rewrite lstrip_all_true; auto. Qed.
Lemma all_rev (P : N -> Prop) t : Forall P t -> Forall P (rev t).
Proof. intros H. apply Forall_forall. intros x Hx. apply in_rev in Hx. revert x Hx. apply Forall_forall. auto. Qed.

Lemma strip_pad p w1 w2 body :
  all_true p w1 -> all_true p w2 -> all_false p body -> strip p (w1 ++ body ++ w2) = body.
Proof.
  intros H1 H2 Hb. unfold strip, rstrip. rewrite lstrip_all_true by auto.
  destruct body as [|c b].
  - simpl. rewrite (lstrip_nil p w2) by auto. simpl. reflexivity.
  - assert (E : lstrip p ((c :: b) ++ w2) = (c :: b) ++ w2).
    { simpl. inversion Hb; subst. rewrite H3. reflexivity. }
    rewrite E, rev_app_distr, lstrip_all_true by (apply all_rev; auto).
    rewrite lstrip_all_false by (apply all_rev; auto). apply rev_involutive.
Qed.

Lemma in_lstrip p c t : In c t -> p c = false -> In c (lstrip p t).
Proof.
  induction t as [|x t IH]; simpl; auto. intros [-> |H] Hc.
  - rewrite Hc. left; auto.
  - destruct (p x); [auto|right; auto].
Qed.
Lemma in_strip p c t : In c t -> p c = false -> In c (strip p t).
Proof.
  intros H Hc. unfold strip, rstrip. apply in_rev. rewrite rev_involutive.
  apply in_lstrip; auto. apply in_rev. rewrite rev_involutive. apply in_lstrip; auto.
Qed.

(* ------------------------------------------------------------------ *)
(* decimal digits                                                      *)
Lemma digits_val_app a b acc : digits_val (a ++ b) acc = digits_val b (digits_val a acc).
Proof. revert acc; induction a as [|c a IH]; simpl; auto. Qed.

Definition val_le (l : list N) : N := fold_right (fun d a => (d + 10 * a)%N) 0%N l.

Lemma digits_val_rev l :
  digits_val (rev (map (fun d => (48 + d)%N) l)) 0 = val_le l.
Proof.
  induction l as [|d l IH]; [reflexivity|].
  cbn [rev map]. rewrite digits_val_app, IH. cbn [digits_val val_le fold_right]. rewrite dval_digit.
  fold (val_le l). lia.
Qed.

Lemma le_digits_spec f : forall n, (n < 2 ^ N.of_nat (S f))%N ->
  val_le (le_digits f n) = n /\ Forall (fun d => (d < 10)%N) (le_digits f n).
Proof.
  induction f as [|f IH]; intros n Hn.
  - simpl in *. change (2 ^ 1)%N with 2%N in Hn. split; [lia|constructor; [lia|constructor]].
  - cbn [le_digits]. destruct (N.ltb_spec n 10) as [Hlt|Hge].
    + simpl. split; [lia|constructor; [auto|constructor]].
    + assert (Hq : (n / 10 < 2 ^ N.of_nat (S f))%N).
      { apply N.div_lt_upper_bound; [lia|].
        rewrite (Nat2N.inj_succ (S f)), N.pow_succ_r' in Hn. lia. }
      destruct (IH _ Hq) as [Hv Hd]. split.
      * cbn [val_le fold_right]. fold (val_le (le_digits f (n / 10)%N)). rewrite Hv.
        pose proof (N.div_mod n 10). lia.
      * constructor; auto. apply N.mod_lt. lia.
Qed.

Lemma log2_fuel n : (n < 2 ^ N.of_nat (S (N.to_nat (N.log2 n))))%N.
Proof.
  rewrite Nat2N.inj_succ, N2Nat.id. destruct n as [|p]; [reflexivity|].
  apply N.log2_spec. lia.
Qed.

Lemma print_N_val n : digits_val (print_N n) 0 = n.
Proof. unfold print_N. rewrite digits_val_rev. apply le_digits_spec, log2_fuel. Qed.

Lemma print_N_digits n : digits (print_N n).
Proof.
  unfold print_N, digits, all_true. apply all_rev. apply Forall_forall. intros c Hc.
  apply in_map_iff in Hc as [d [<- Hd]].
  destruct (le_digits_spec _ _ (log2_fuel n)) as [_ HF].
  rewrite Forall_forall in HF. specialize (HF _ Hd). apply digit_range. lia.
Qed.

Lemma le_digits_nonempty f n : le_digits f n <> [].
Proof. destruct f; simpl; [discriminate|]. destruct (n <? 10)%N; discriminate. Qed.
Lemma print_N_nonempty n : print_N n <> [].
Proof.
  unfold print_N. intros H. apply (f_equal (@rev N)) in H. rewrite rev_involutive in H. simpl in H.
  apply map_eq_nil in H. revert H. apply le_digits_nonempty.
Qed.

Lemma digits_val_leading_zeros k ds : digits_val (repeat 48%N k ++ ds) 0 = digits_val ds 0.
Proof. induction k as [|k IH]; simpl; auto. Qed.

(* ------------------------------------------------------------------ *)
(* int                                                                 *)
Lemma dig_us_digits ds : forall acc last, digits ds -> (ds <> [] \/ last = true) ->
  dig_us ds acc last = Some (digits_val ds acc).
Proof.
  induction ds as [|c ds IH]; intros acc last Hd Hne; simpl.
  - destruct Hne as [H| ->]; [contradiction|reflexivity].
  - inversion Hd; subst. rewrite H1. apply IH; auto.
Qed.

(* digit groups separated by single underscores: 1_000_000 *)
Lemma dig_us_groups gs : forall acc,
  gs <> [] -> Forall (fun g => digits g /\ g <> []) gs ->
  dig_us (join 95 gs) acc false = Some (digits_val (concat gs) acc).
Proof.
  induction gs as [|g gs IH]; intros acc Hne HF; [contradiction|].
  inversion HF as [|? ? [Hg Hgne] HF']; subst.
  destruct gs as [|g2 gs].
  - simpl. rewrite app_nil_r. apply dig_us_digits; auto.
  - change (join 95 (g :: g2 :: gs)) with (g ++ 95%N :: join 95 (g2 :: gs)).
    change (concat (g :: g2 :: gs)) with (g ++ concat (g2 :: gs)).
    rewrite digits_val_app.
    assert (G : forall g acc last rest, digits g -> (g <> [] \/ last = true) ->
                dig_us (g ++ 95%N :: rest) acc last = dig_us rest (digits_val g acc) false).
    { clear. induction g as [|c g IHg]; intros acc last rest Hd Hne; simpl.
      - destruct Hne as [H| ->]; [contradiction|]. reflexivity.
      - inversion Hd; subst. rewrite H1. apply IHg; auto. }
    rewrite G by auto. apply IH; [discriminate|auto].
Qed.

Definition sign_text (s : option bool) : text :=
  match s with None => [] | Some true => [45%N] | Some false => [43%N] end.
Definition apply_sign (s : option bool) (n : N) : Z :=
  match s with Some true => - Z.of_N n | _ => Z.of_N n end.

Lemma split_sign_spec s ds : digits ds -> ds <> [] ->
  split_sign (sign_text s ++ ds) = (match s with Some true => true | _ => false end, ds).
Proof.
  intros Hd Hne. destruct s as [[|]|]; simpl; auto.
  destruct ds as [|c ds]; [contradiction|]. inversion Hd; subst.
  apply digit_range in H1. simpl.
  destruct (N.eqb_spec c 45); [lia|]. destruct (N.eqb_spec c 43); [lia|]. reflexivity.
Qed.

Lemma sign_not_ws s : all_false is_ws_num (sign_text s).
Proof. destruct s as [[|]|]; repeat constructor. Qed.

(* every accepted spelling without underscores: padding whitespace, optional
   sign, any number of leading zeros *)
Lemma parse_int_forms w1 w2 s ds :
  all_true is_ws_num w1 -> all_true is_ws_num w2 -> digits ds -> ds <> [] ->
  parse_int (w1 ++ sign_text s ++ ds ++ w2) = Some (apply_sign s (digits_val ds 0)).
Proof.
  intros H1 H2 Hd Hne. unfold parse_int.
  replace (w1 ++ sign_text s ++ ds ++ w2) with (w1 ++ (sign_text s ++ ds) ++ w2)
    by (rewrite <- !app_assoc; reflexivity).
  rewrite strip_pad; auto.
  - rewrite split_sign_spec by auto. rewrite dig_us_digits by auto.
    destruct s as [[|]|]; reflexivity.
  - apply Forall_app. split; [apply sign_not_ws|].
    eapply Forall_impl; [|exact Hd]. apply digit_not_ws.
Qed.

(* ... and with underscore-separated digit groups *)
Lemma parse_int_groups w1 w2 s gs :
  all_true is_ws_num w1 -> all_true is_ws_num w2 ->
  gs <> [] -> Forall (fun g => digits g /\ g <> []) gs ->
  parse_int (w1 ++ sign_text s ++ join 95 gs ++ w2) = Some (apply_sign s (digits_val (concat gs) 0)).
Proof.
  intros H1 H2 Hne HF. unfold parse_int.
  replace (w1 ++ sign_text s ++ join 95 gs ++ w2) with (w1 ++ (sign_text s ++ join 95 gs) ++ w2)
    by (rewrite <- !app_assoc; reflexivity).
  assert (Hj : all_false is_ws_num (join 95 gs) /\ exists c r, join 95 gs = c :: r /\ c <> 45%N /\ c <> 43%N).
  { clear -Hne HF. induction gs as [|g gs IH]; [contradiction|].
    inversion HF as [|? ? [Hg Hgne] HF']; subst.
    assert (Hgw : all_false is_ws_num g) by (eapply Forall_impl; [|exact Hg]; apply digit_not_ws).
    assert (Hhd : exists c r, g = c :: r /\ c <> 45%N /\ c <> 43%N).
    { destruct g as [|c r]; [contradiction|]. exists c, r. inversion Hg; subst.
      apply digit_range in H1. repeat split; lia. }
    destruct gs as [|g2 gs].
    - simpl. split; auto.
    - change (join 95 (g :: g2 :: gs)) with (g ++ 95%N :: join 95 (g2 :: gs)).
      destruct (IH ltac:(discriminate) HF') as [IHa _]. split.
      + apply Forall_app. split; auto; constructor; auto.
      + destruct Hhd as [c [r [-> Hc]]]. exists c, (r ++ 95%N :: join 95 (g2 :: gs)). split; auto. }
  destruct Hj as [Hjw [c [r [Ej [Hc1 Hc2]]]]].
  rewrite strip_pad; auto.
  - assert (Es : split_sign (sign_text s ++ join 95 gs) = (match s with Some true => true | _ => false end, join 95 gs)).
    { destruct s as [[|]|]; simpl; auto. rewrite Ej. simpl.
      destruct (N.eqb_spec c 45); [contradiction|]. destruct (N.eqb_spec c 43); [contradiction|]. reflexivity. }
    rewrite Es, dig_us_groups by auto. destruct s as [[|]|]; reflexivity.
  - apply Forall_app. split; [apply sign_not_ws|auto].
Qed.

Lemma print_int_form z :
  print_int z = sign_text (if z <? 0 then Some true else None) ++ print_N (Z.to_N (Z.abs z)).
Proof.
  unfold print_int. destruct (Z.ltb_spec z 0).
  - simpl. rewrite Z.abs_neq by lia. reflexivity.
  - simpl. rewrite Z.abs_eq by lia. reflexivity.
Qed.

Lemma parse_int_print_padded w1 w2 z :
  all_true is_ws_num w1 -> all_true is_ws_num w2 ->
  parse_int (w1 ++ print_int z ++ w2) = Some z.
Proof.
  intros H1 H2. rewrite print_int_form, <- app_assoc.
  rewrite parse_int_forms; auto using print_N_digits, print_N_nonempty.
  rewrite print_N_val. f_equal. destruct (Z.ltb_spec z 0); simpl; lia.
Qed.

Lemma parse_int_print z : parse_int (print_int z) = Some z.
Proof.
  pose proof (parse_int_print_padded [] [] z) as H. simpl in H. rewrite app_nil_r in H.
  apply H; constructor.
Qed.

Lemma dig_us_bad c b : In c b -> is_digit c = false -> c <> 95%N ->
  forall acc last, dig_us b acc last = None.
Proof.
  intros Hin Hd Hu. induction b as [|x b IH]; [contradiction|]. intros acc last. simpl.
  destruct Hin as [-> |Hin].
  - rewrite Hd. destruct (N.eqb_spec c 95); [contradiction|]. reflexivity.
  - destruct (is_digit x); [apply IH; auto|].
    destruct ((x =? 95)%N && last); [apply IH; auto|reflexivity].
Qed.

(* wrong-typed text: any character that is not a digit, padding whitespace,
   a sign or an underscore makes int() fail *)
Lemma parse_int_bad_char t c :
  In c t -> is_digit c = false -> is_ws_num c = false -> c <> 43%N -> c <> 45%N -> c <> 95%N ->
  parse_int t = None.
Proof.
  intros Hin Hd Hw H43 H45 H95. unfold parse_int.
  pose proof (in_strip is_ws_num c t Hin Hw) as Hs.
  destruct (strip is_ws_num t) as [|x s] eqn:E; [contradiction|].
  assert (Hb : In c (snd (split_sign (x :: s)))).
  { simpl. destruct Hs as [-> |Hs].
    - destruct (N.eqb_spec c 45); [contradiction|]. destruct (N.eqb_spec c 43); [contradiction|]. left; auto.
    - destruct (x =? 45)%N; [auto|]. destruct (x =? 43)%N; [auto|]. right; auto. }
  destruct (split_sign (x :: s)) as [neg b]. simpl in Hb.
  rewrite (dig_us_bad c b Hb Hd H95). reflexivity.
Qed.

Lemma parse_int_blank t : all_true is_ws_num t -> parse_int t = None.
Proof.
  intros H. unfold parse_int, strip. rewrite lstrip_nil by auto. reflexivity.
Qed.

(* ------------------------------------------------------------------ *)
(* bool                                                                *)
Lemma bool_words_disjoint w : In w bool_true_words -> In w bool_false_words -> False.
Proof.
  unfold bool_true_words, bool_false_words. simpl.
  intros [<-|[<-|[<-|[<-|[<-|[<-|[]]]]]]] H;
    repeat (destruct H as [H|H]; [discriminate H|]); exact H.
Qed.

Lemma parse_bool_spec t b :
  parse_bool t = Some b <-> In (lower_text t) (if b then bool_true_words else bool_false_words).
Proof.
  unfold parse_bool.
  destruct (existsb (text_eqb (lower_text t)) bool_true_words) eqn:ET.
  - apply existsb_text_eqb in ET. destruct b; split; intros H; auto; try discriminate.
    exfalso. eapply bool_words_disjoint; eauto.
  - destruct (existsb (text_eqb (lower_text t)) bool_false_words) eqn:EF.
    + apply existsb_text_eqb in EF. destruct b; split; intros H; auto; try discriminate.
      apply existsb_text_eqb in H. congruence.
    + split; [discriminate|]. intros H. destruct b; apply existsb_text_eqb in H; congruence.
Qed.

Lemma parse_bool_reject t :
  ~ In (lower_text t) (bool_true_words ++ bool_false_words) -> parse_bool t = None.
Proof.
  intros H. destruct (parse_bool t) as [b|] eqn:E; auto. exfalso. apply H.
  apply parse_bool_spec in E. apply in_or_app. destruct b; auto.
Qed.

(* ------------------------------------------------------------------ *)
(* split / join / partition                                            *)
Definition no_char (c : N) (t : text) := Forall (fun x => x <> c) t.

Lemma split_on_app_sep sep a b : no_char sep a ->
  split_on sep (a ++ sep :: b) = a :: split_on sep b.
Proof.
  induction 1 as [|x a Hx _ IH]; simpl.
  - rewrite N.eqb_refl. reflexivity.
  - destruct (N.eqb_spec x sep); [contradiction|]. rewrite IH. reflexivity.
Qed.
Lemma split_on_none sep a : no_char sep a -> split_on sep a = [a].
Proof.
  induction 1 as [|x a Hx _ IH]; simpl; auto.
  destruct (N.eqb_spec x sep); [contradiction|]. rewrite IH. reflexivity.
Qed.
Lemma split_join sep parts : parts <> [] -> Forall (no_char sep) parts ->
  split_on sep (join sep parts) = parts.
Proof.
  induction parts as [|p ps IH]; intros Hne HF; [contradiction|].
  inversion HF; subst. destruct ps as [|q ps].
  - simpl. apply split_on_none; auto.
  - change (join sep (p :: q :: ps)) with (p ++ sep :: join sep (q :: ps)).
    rewrite split_on_app_sep by auto. f_equal. apply IH; [discriminate|auto].
Qed.

Lemma partition_none sep a : no_char sep a -> partition_at sep a = (a, false, []).
Proof.
  induction 1 as [|x a Hx _ IH]; simpl; auto.
  destruct (N.eqb_spec x sep); [contradiction|]. rewrite IH. reflexivity.
Qed.
Lemma partition_first sep a b : no_char sep a -> partition_at sep (a ++ sep :: b) = (a, true, b).
Proof.
  induction 1 as [|x a Hx _ IH]; simpl.
  - rewrite N.eqb_refl. reflexivity.
  - destruct (N.eqb_spec x sep); [contradiction|]. rewrite IH. reflexivity.
Qed.

Lemma digits_no_char c t : digits t -> is_digit c = false -> no_char c t.
Proof. intros H Hc. eapply Forall_impl; [|exact H]. intros x Hx ->. congruence. Qed.
Lemma print_int_no_char c z : is_digit c = false -> c <> 45%N -> no_char c (print_int z).
Proof.
  intros Hc H45. unfold print_int. destruct (z <? 0).
  - constructor; [congruence|]. apply digits_no_char; auto using print_N_digits.
  - apply digits_no_char; auto using print_N_digits.
Qed.
Lemma print_int_nonempty z : print_int z <> [].
Proof. unfold print_int. destruct (z <? 0); [discriminate|apply print_N_nonempty]. Qed.

(* ------------------------------------------------------------------ *)
(* ranges                                                              *)
Lemma zrange_spec n : forall lo z, In z (zrange lo n) <-> lo <= z < lo + Z.of_nat n.
Proof.
  induction n as [|n IH]; intros lo z; simpl.
  - lia.
  - rewrite IH. lia.
Qed.
Lemma range_incl_spec lo hi z : In z (range_incl lo hi) <-> lo <= z <= hi.
Proof. unfold range_incl. rewrite zrange_spec. lia. Qed.
Lemma zrange_length lo n : length (zrange lo n) = n.
Proof. revert lo; induction n; simpl; auto. Qed.
Lemma zrange_sorted n : forall lo i j, (i < j < n)%nat ->
  nth i (zrange lo n) 0 < nth j (zrange lo n) 0.
Proof.
  assert (G : forall n lo i, (i < n)%nat -> nth i (zrange lo n) 0 = lo + Z.of_nat i).
  { induction n0 as [|n0 IHn]; intros lo i Hi; [lia|]. destruct i; simpl; [lia|]. rewrite IHn by lia. lia. }
  intros lo i j H. rewrite !G by lia. lia.
Qed.

(* one part "lo:hi", "lo:" or "v" of a multiple int option *)
Inductive seg := SOne (v : Z) | SOpen (lo : Z) | SRange (lo hi : Z).
Definition print_seg (s : seg) : text :=
  match s with
  | SOne v => print_int v
  | SOpen lo => print_int lo ++ [58%N]
  | SRange lo hi => print_int lo ++ 58%N :: print_int hi
  end.
Definition seg_values (s : seg) : list Z :=
  match s with SOne v => [v] | SOpen lo => [lo] | SRange lo hi => range_incl lo hi end.

Lemma range_incl_one v : range_incl v v = [v].
Proof. unfold range_incl. replace (v + 1 - v) with 1 by lia. reflexivity. Qed.

Lemma parse_one_int_print z : parse_one TInt (print_int z) = Ok (VInt z).
Proof. simpl. rewrite parse_int_print. reflexivity. Qed.

Lemma parse_part_seg s : parse_part TInt (print_seg s) = Ok (map VInt (seg_values s)).
Proof.
  unfold parse_part. cbn [integral].
  assert (NC : forall z, no_char 58 (print_int z)) by (intros; apply print_int_no_char; [reflexivity|lia]).
  destruct s as [v|lo|lo hi]; cbn [print_seg seg_values].
  - rewrite partition_none by auto. rewrite parse_one_int_print. cbn [as_int]. rewrite range_incl_one. reflexivity.
  - rewrite partition_first by auto. rewrite parse_one_int_print. cbn [as_int]. rewrite range_incl_one. reflexivity.
  - rewrite partition_first by auto. rewrite parse_one_int_print.
    destruct (print_int hi) eqn:E; [exfalso; eapply print_int_nonempty; eauto|]. rewrite <- E.
    rewrite parse_one_int_print. reflexivity.
Qed.

Lemma parse_parts_segs ss : forall acc,
  parse_parts TInt (map print_seg ss) acc = (acc ++ map VInt (flat_map seg_values ss), None).
Proof.
  induction ss as [|s ss IH]; intros acc; simpl.
  - rewrite app_nil_r. reflexivity.
  - rewrite parse_part_seg, IH, map_app, app_assoc. reflexivity.
Qed.

Lemma print_seg_no_comma s : no_char 44 (print_seg s).
Proof.
  assert (NC : forall z, no_char 44 (print_int z)) by (intros; apply print_int_no_char; [reflexivity|lia]).
  destruct s; simpl; auto.
  - apply Forall_app; split; [apply NC|]. constructor; [lia|constructor].
  - apply Forall_app; split; [apply NC|]. constructor; [lia|apply NC].
Qed.

(* the command-line / config text  "1:3,5,7:"  of a multiple int option *)
Lemma opt_parse_int_multiple o ss :
  o_multiple o = true -> o_ty o = TInt -> ss <> [] ->
  opt_parse o (join 44 (map print_seg ss)) =
    (set_value o (VList (map VInt (flat_map seg_values ss))), None).
Proof.
  intros Hm Ht Hne. unfold opt_parse. rewrite Hm, Ht.
  rewrite split_join.
  - rewrite parse_parts_segs. reflexivity.
  - destruct ss; [contradiction|discriminate].
  - apply Forall_forall. intros p Hp. apply in_map_iff in Hp as [s [<- _]]. apply print_seg_no_comma.
Qed.

(* multiple values of a non-integral type with any printer whose output has no comma *)
Lemma parse_parts_generic t (pr : value -> text) vs : integral t = false ->
  (forall v, In v vs -> parse_one t (pr v) = Ok v) ->
  forall acc, parse_parts t (map pr vs) acc = (acc ++ vs, None).
Proof.
  intros Hi. induction vs as [|v vs IH]; intros Hp acc; simpl.
  - rewrite app_nil_r. reflexivity.
  - unfold parse_part. rewrite Hi, (Hp v) by (left; auto).
    rewrite IH by (intros; apply Hp; right; auto). rewrite <- app_assoc. reflexivity.
Qed.

Lemma opt_parse_multiple_generic o (pr : value -> text) vs :
  o_multiple o = true -> integral (o_ty o) = false -> vs <> [] ->
  (forall v, In v vs -> parse_one (o_ty o) (pr v) = Ok v /\ no_char 44 (pr v)) ->
  opt_parse o (join 44 (map pr vs)) = (set_value o (VList vs), None).
Proof.
  intros Hm Hi Hne Hp. unfold opt_parse. rewrite Hm. rewrite split_join.
  - rewrite (parse_parts_generic _ pr vs Hi) by (intros; apply Hp; auto). reflexivity.
  - destruct vs; [contradiction|discriminate].
  - apply Forall_forall. intros p Hin. apply in_map_iff in Hin as [v [<- Hv]]. apply Hp; auto.
Qed.

(* multiple str: comma-free strings *)
Lemma opt_parse_str_multiple o ts :
  o_multiple o = true -> o_ty o = TStr -> ts <> [] -> Forall (no_char 44) ts ->
  opt_parse o (join 44 ts) = (set_value o (VList (map VStr ts)), None).
Proof.
  intros Hm Ht Hne HF.
  pose proof (opt_parse_multiple_generic o (fun v => match v with VStr s => s | _ => [] end) (map VStr ts)) as G.
  rewrite map_map in G. rewrite map_id in G. apply G; auto.
  - rewrite Ht. reflexivity.
  - destruct ts; [contradiction|discriminate].
  - intros v Hv. apply in_map_iff in Hv as [s [<- Hs]]. rewrite Ht. split; [reflexivity|].
    rewrite Forall_forall in HF. auto.
Qed.

(* a failing part stops the loop and keeps the parts parsed so far *)
Lemma parse_parts_error t p ps acc e :
  parse_part t p = Err e -> parse_parts t (p :: ps) acc = (acc, Some e).
Proof. intros H. simpl. rewrite H. reflexivity. Qed.
