(* Executable entry points used by the correspondence check. *)
From Coq Require Import List ZArith String Bool Arith.
Import ListNotations.
From TV Require Import Lib.Obs C42.Model C42.Spec.
Local Open Scope Z_scope.

Definition ev_obs (e : logev) : obs :=
  match e with
  | LCall sid l rc => OList [OInt (Z.of_nat sid); OTag "call"; OInt (Z.of_nat l); OInt rc]
  | LAssert sid => OList [OInt (Z.of_nat sid); OTag "assert"]
  | LKeyError _ => OList [OInt (-1); OTag "KeyError"]
  | LInvalid sid l => OList [OInt (Z.of_nat sid); OTag "invalid"; OInt (Z.of_nat l)]
  | LBadRef sid => OList [OInt (Z.of_nat sid); OTag "badref"]
  end.

Definition fut_obs (x : nat * fut) : obs :=
  let '(l, f) := x in
  match f with
  | FPending => OList [OInt (Z.of_nat l); OTag "pending"]
  | FResult r => OList [OInt (Z.of_nat l); OTag "result"; OInt r]
  | FError r => OList [OInt (Z.of_nat l); OTag "CalledProcessError"; OInt r]
  end.

(* returncode, `_exit_callback is not None`, the futures handed out by wait_for_exit *)
Definition sub_obs (s : sub) : obs :=
  OList [match s_rc s with Some r => OInt r | None => ONone end;
         OBool (match s_cb s with Some _ => true | None => false end);
         OList (map fut_obs (s_futs s))].

Definition world_obs (w : world) : obs :=
  OList [OList (map ev_obs (w_log w));
         OList (map sub_obs (w_subs w));
         OList (map (fun x => OInt (Z.of_nat (snd x))) (w_waiting w));
         OBool (w_init w)].

Definition run_case (es : list event) : obs := world_obs (run es).

(* ---------- the property as a checker of observables ---------- *)
Definition entry_of (sid : nat) (o : obs) : bool :=
  match o with
  | OList (OInt z :: _) => z =? Z.of_nat sid
  | _ => false
  end.
Definition entry_in_range (n : nat) (o : obs) : bool :=
  match o with
  | OList (OInt z :: _) => (0 <=? z) && (z <? Z.of_nat n)
  | _ => false
  end.

(* object sid, as observed, is exactly what the one-child specification says:
   same returncode / pending callback / futures, and the same callback log *)
Definition child_ok (es : list event) (log subs : list obs) (sid : nat) : bool :=
  match track sid es, nth_error subs sid with
  | Some c, Some so =>
      obs_eqb so (sub_obs (c_sub c)) &&
      obs_eqb (OList (filter (entry_of sid) log)) (OList (map ev_obs (c_calls c)))
  | _, _ => false
  end.

Definition check_case (es : list event) (o : obs) : bool :=
  if negb (wf es) then true            (* the kernel handed out a pid twice: outside the statement *)
  else
    match o with
    | OList [OList log; OList subs; OList _; OBool _] =>
        let n := count_spawns es in
        Nat.eqb (List.length subs) n &&
        forallb (entry_in_range n) log &&     (* no KeyError, nothing attributed to unknown objects *)
        forallb (child_ok es log subs) (seq 0 n)
    | _ => false
    end.
