(* C42 — the projection theorem: for every trace with distinct pids and every object,
   the shared world restricted to that object is the one-child automaton's state. *)
From Coq Require Import List ZArith Bool Arith Lia.
Import ListNotations.
From TV Require Import C42.Model C42.Spec C42.Proofs2 C42.Proofs3.
Local Open Scope Z_scope.

Lemma step_R w e sid c : G w -> fresh w e -> R w sid c -> cwf c -> R (step w e) sid (cstep sid (w_init w) c e).
Proof.
  intros Gw F Rw Wf. pose proof Rw as [[Hs Hk Hw Hc] Hq].
  destruct e as [p|p st| |s l|s l re| | |]; simpl.
  - (* another object is created *)
    simpl in F.
    assert (N : p <> s_pid (c_sub c)).
    { intros ->. apply F. apply (in_map s_pid) with (x := c_sub c). exact (nth_error_In _ _ Hs). }
    split; [constructor|]; simpl; try assumption.
    + rewrite nth_error_app1 by exact (nth_error_lt _ _ _ Hs). exact Hs.
    + rewrite a_find_set_other by exact N. exact Hk.
  - destruct (p =? s_pid (c_sub c)) eqn:E.
    + apply Z.eqb_eq in E. subst p. rewrite Hk.
      destruct (c_ph c) eqn:P; simpl; try exact Rw.
      split; [constructor|]; simpl; try assumption; try apply a_find_set_same. unfold q_of in *. simpl. rewrite P in Hq. exact Hq.
    + apply Z.eqb_neq in E.
      destruct (a_find p (w_kern w)) as [[|st'|st']|]; try exact Rw.
      split; [constructor|]; simpl; try assumption. rewrite a_find_set_other by exact E. exact Hk.
  - apply sigchld_R; assumption.
  - destruct (Nat.eqb s sid) eqn:E.
    + apply Nat.eqb_eq in E. subst s. apply reg_self; [apply prep_plain_good|exact Rw|exact Wf].
    + apply Nat.eqb_neq in E. apply reg_other; [apply prep_plain_good|exact Gw|exact Rw|exact E].
  - destruct (Nat.eqb s sid) eqn:E.
    + apply Nat.eqb_eq in E. subst s. apply reg_self; [apply prep_fut_good|exact Rw|exact Wf].
    + apply Nat.eqb_neq in E. apply reg_other; [apply prep_fut_good|exact Gw|exact Rw|exact E].
  - apply run_loop_R; assumption.
  - split; [constructor|]; assumption.
  - split; [constructor|]; assumption.
Qed.

Lemma spawn_new w p : G w -> ~ In p (map s_pid (w_subs w)) ->
  R (step w (ESpawn p)) (length (w_subs w)) (cinit p).
Proof.
  intros Gw F. split; [constructor|]; simpl.
  - rewrite nth_error_app2 by lia. rewrite Nat.sub_diag. reflexivity.
  - apply a_find_set_same.
  - destruct (a_find p (w_waiting w)) as [s|] eqn:W; [|reflexivity].
    apply a_find_in in W. destruct (g_wait w Gw p s W) as [sb [H1 H2]].
    exfalso. apply F. rewrite <- H2. apply in_map. exact (nth_error_In _ _ H1).
  - exact (calls_none _ _ (g_log w Gw) _ (Nat.le_refl _)).
  - exact (qfilter_none _ _ (g_queue w Gw) _ (Nat.le_refl _)).
Qed.

(* ---------- trace lemmas ---------- *)
Lemma run_snoc es e : run (es ++ [e]) = step (run es) e.
Proof. unfold run. rewrite fold_left_app. reflexivity. Qed.

Lemma spawn_pids_snoc es e :
  spawn_pids (es ++ [e]) = spawn_pids es ++ match e with ESpawn p => [p] | _ => [] end.
Proof. unfold spawn_pids. rewrite flat_map_app. simpl. rewrite app_nil_r. reflexivity. Qed.

Lemma count_spawns_pids es : count_spawns es = length (spawn_pids es).
Proof.
  unfold count_spawns, spawn_pids. induction es as [|e es IH]; simpl; [reflexivity|].
  destruct e; simpl; rewrite ?IH; reflexivity.
Qed.

Lemma after_spawn_snoc es e : forall sid,
  after_spawn sid (es ++ [e]) =
    match after_spawn sid es with
    | Some (p, r) => Some (p, r ++ [e])
    | None => match e with
              | ESpawn p => if Nat.eqb (count_spawns es) sid then Some (p, []) else None
              | _ => None
              end
    end.
Proof.
  induction es as [|a es IH]; intros sid; simpl.
  - destruct e; try reflexivity. destruct sid; reflexivity.
  - destruct a; try (rewrite IH; reflexivity).
    destruct sid as [|k]; [reflexivity|]. rewrite IH. unfold count_spawns. simpl.
    destruct (after_spawn k es) as [[p r]|]; reflexivity.
Qed.

Lemma spawn_prefix_some es : forall sid p r, after_spawn sid es = Some (p, r) ->
  es = spawn_prefix sid es ++ r /\ forall x, spawn_prefix sid (es ++ x) = spawn_prefix sid es.
Proof.
  induction es as [|a es IH]; intros sid p r A; simpl in A; [discriminate|].
  destruct a as [q|q st| |s l|s l re| | |]; simpl;
    try (destruct (IH sid p r A) as [E F]; split; [simpl; f_equal; exact E|intros x; f_equal; apply F]).
  destruct sid as [|k].
  - injection A as <- <-. split; [reflexivity|intros x; reflexivity].
  - destruct (IH k p r A) as [E F]. split; [simpl; f_equal; exact E|intros x; f_equal; apply F].
Qed.

Lemma spawn_prefix_none es : forall sid, after_spawn sid es = None -> forall p,
  Nat.eqb (count_spawns es) sid = true -> spawn_prefix sid (es ++ [ESpawn p]) = es ++ [ESpawn p].
Proof.
  induction es as [|a es IH]; intros sid A p C; simpl in *.
  - destruct sid; [reflexivity|discriminate].
  - destruct a as [q|q st| |s l|s l re| | |]; simpl; try (f_equal; apply IH; assumption).
    destruct sid as [|k]; [discriminate|]. f_equal. apply IH; [exact A|]. unfold count_spawns in *. simpl in C. exact C.
Qed.

Lemma pfold_fst sid r : forall w c, fst (fold_left (pstep sid) r (w, c)) = fold_left step r w.
Proof. induction r as [|e r IH]; intros w c; simpl; [reflexivity|]. apply IH. Qed.

Lemma trk_snoc sid w r c e :
  trk sid w (r ++ [e]) c = cstep sid (w_init (fold_left step r w)) (trk sid w r c) e.
Proof.
  unfold trk. rewrite fold_left_app. simpl. rewrite pfold_fst. reflexivity.
Qed.

Lemma wf_snoc es e : wf (es ++ [e]) = true ->
  wf es = true /\ match e with ESpawn p => ~ In p (spawn_pids es) | _ => True end.
Proof.
  unfold wf. rewrite spawn_pids_snoc. intros H. apply znodup_nodup in H.
  destruct e; try (rewrite app_nil_r in H; split; [apply znodup_nodup; exact H|exact I]).
  split.
  - apply znodup_nodup. apply NoDup_remove_1 in H. rewrite app_nil_r in H. exact H.
  - apply NoDup_remove_2 in H. rewrite app_nil_r in H. exact H.
Qed.

Definition proj_inv (es : list event) : Prop :=
  let w := run es in
  G w /\ map s_pid (w_subs w) = spawn_pids es /\
  forall sid, match track sid es with
              | Some c => R w sid c
              | None => (length (w_subs w) <= sid)%nat
              end.

Theorem projection : forall es, wf es = true -> proj_inv es.
Proof.
  induction es as [|e es IH] using rev_ind; intros W.
  - unfold proj_inv. simpl. split; [exact G_w0|]. split; [reflexivity|]. intros sid.
    unfold track. simpl. lia.
  - apply wf_snoc in W as [W F]. destruct (IH W) as [Gw [Pw Tw]].
    unfold proj_inv. rewrite run_snoc.
    assert (Fr : fresh (run es) e) by (destruct e; simpl; try exact I; rewrite Pw; exact F).
    split; [apply step_G; assumption|]. split.
    + rewrite spawn_pids_snoc. destruct e; simpl;
        try (rewrite app_nil_r; rewrite <- Pw).
      * rewrite map_app, Pw. reflexivity.
      * destruct (a_find pid (w_kern (run es))) as [[]|]; reflexivity.
      * destruct (w_init (run es)); [unfold cleanup; rewrite fold_try_subs|]; reflexivity.
      * unfold register. destruct (nth_error (w_subs (run es)) sid) as [s|] eqn:Hs; [|reflexivity].
        destruct (s_rc s); [simpl|rewrite try_subs; simpl]; apply (map_upd_same s_pid _ _ s); try exact Hs; reflexivity.
      * unfold register. destruct (nth_error (w_subs (run es)) sid) as [s|] eqn:Hs; [|reflexivity].
        destruct (s_rc s); [simpl|rewrite try_subs; simpl]; apply (map_upd_same s_pid _ _ s); try exact Hs; reflexivity.
      * unfold run_loop.
        set (w1 := mkW (w_kern (run es)) (w_subs (run es)) (w_waiting (run es)) [] (w_init (run es)) (w_log (run es))).
        assert (G1 : G w1) by (destruct Gw; constructor; simpl; auto; intros x []).
        destruct (fold_items_G (w_queue (run es)) w1 G1 (g_queue _ Gw)) as [_ [_ C]]. exact C.
      * reflexivity.
      * reflexivity.
    + intros sid. specialize (Tw sid). unfold track in *. rewrite after_spawn_snoc.
      destruct (after_spawn sid es) as [[p r]|] eqn:A.
      * destruct (spawn_prefix_some es sid p r A) as [Ees Fpre]. rewrite Fpre, trk_snoc.
        assert (Rn : fold_left step r (run (spawn_prefix sid es)) = run es).
        { assert (X : run (spawn_prefix sid es ++ r) = fold_left step r (run (spawn_prefix sid es))) by (unfold run; apply fold_left_app).
          rewrite <- Ees in X. symmetry. exact X. }
        rewrite Rn. apply step_R; try assumption. apply fold_cwf, cinit_cwf.
      * assert (CL : count_spawns es = length (w_subs (run es))).
        { rewrite count_spawns_pids, <- Pw, map_length. reflexivity. }
        destruct e as [p|p st| |s l|s l re| | |];
          try (rewrite step_len; simpl; lia).
        destruct (Nat.eqb (count_spawns es) sid) eqn:E.
        -- rewrite (spawn_prefix_none es sid A p E). unfold trk. cbn [fold_left snd].
           apply Nat.eqb_eq in E. rewrite CL in E. subst sid. apply spawn_new; [exact Gw|].
           simpl in Fr. exact Fr.
        -- apply Nat.eqb_neq in E. rewrite step_len. simpl. lia.
Qed.
