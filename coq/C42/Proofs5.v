(* C42 — the one-child automaton: invariant (at most one report, right value, future rule)
   and progress (registration + exit, in either order, then SIGCHLD, then a loop turn => reported). *)
From Coq Require Import List ZArith Bool Arith Lia.
Import ListNotations.
From TV Require Import C42.Model C42.Spec C42.Proofs2 C42.Proofs3.
Local Open Scope Z_scope.

Definition cb_valid (s : sub) : Prop :=
  match s_cb s with
  | Some (CbFut l i _) => nth_error (s_futs s) i = Some (l, FPending)
  | _ => True
  end.
Definition cb_pending (cb : cbk) (futs : list (nat * fut)) : Prop :=
  match cb with
  | CbFut l i _ => nth_error futs i = Some (l, FPending)
  | CbPlain _ => True
  end.
Definition late_idx (late : list (cbk * Z)) : list nat :=
  flat_map (fun x => match fst x with CbFut _ i _ => [i] | CbPlain _ => [] end) late.
Definition lates_ok (sid : nat) (es : list event) (rc : Z) (futs : list (nat * fut)) (late : list (cbk * Z)) : Prop :=
  (forall cb rc', In (cb, rc') late -> rc' = rc /\ reg_ok sid es cb /\ cb_pending cb futs) /\ NoDup (late_idx late).

Definition ph_status (ph : phase) : option Z :=
  match ph with PhRun => None | PhZombie st | PhQueued st | PhReported st => Some st end.

Definition olabel (o : option cbk) : list nat := match o with Some cb => [cb_label cb] | None => [] end.
(* the registrations that count: before the report the one in the slot; afterwards those that ran or are queued *)
Definition active (c : cstate) : list nat :=
  match s_rc (c_sub c) with
  | Some _ => call_labels (c_calls c) ++ map (fun x => cb_label (fst x)) (c_late c)
  | None => olabel (s_cb (c_sub c))
  end.

(* the body of the invariant once reported with a decodable status *)
Definition RB (sid : nat) (es : list event) (rc : Z) (s : sub) (calls : list logev) (late : list (cbk * Z)) : Prop :=
  s_rc s = Some rc /\
  (exists cb0 rest, calls = LCall sid (cb_label cb0) rc :: rest /\ reg_ok sid es cb0 /\ cb_done cb0 rc (s_futs s)) /\
  all_calls sid rc calls /\ lates_ok sid es rc (s_futs s) late /\ fut_ok sid es rc calls (s_futs s).

Definition body (sid : nat) (es : list event) (c : cstate) : Prop :=
  let s := c_sub c in
  match c_ph c with
  | PhRun | PhZombie _ =>
      s_rc s = None /\ c_calls c = [] /\ c_late c = [] /\ all_pending (s_futs s) /\ cb_valid s /\
      (c_inw c = true <-> s_cb s <> None)
  | PhQueued _ =>
      s_rc s = None /\ c_calls c = [] /\ c_late c = [] /\ all_pending (s_futs s) /\ cb_valid s /\ s_cb s <> None
  | PhReported st =>
      match decode st with
      | Some rc => RB sid es rc s (c_calls c) (c_late c)
      | None => s_rc s = None /\ c_calls c = [LAssert sid] /\ c_late c = [] /\ all_pending (s_futs s)
      end
  end.

Record Inv (sid : nat) (p : Z) (es : list event) (c : cstate) : Prop := mkInv {
  i_pid : s_pid (c_sub c) = p;
  i_st : ph_status (c_ph c) = first_exit p es;
  i_cb : forall cb, s_cb (c_sub c) = Some cb -> reg_ok sid es cb;
  i_lab : exists dropped, reg_labels sid es = dropped ++ active c;
  i_body : body sid es c
}.

Lemma first_exit_snoc p es e :
  first_exit p (es ++ [e]) =
    match first_exit p es with
    | Some s => Some s
    | None => match e with EExit q st => if q =? p then Some st else None | _ => None end
    end.
Proof.
  induction es as [|a es IH]; simpl.
  - destruct e; reflexivity.
  - destruct a; try exact IH. destruct (pid =? p); [reflexivity|exact IH].
Qed.

Lemma reg_labels_snoc sid es e :
  reg_labels sid (es ++ [e]) = reg_labels sid es ++ match reg_label sid e with Some l => [l] | None => [] end.
Proof. unfold reg_labels. rewrite flat_map_app. simpl. rewrite app_nil_r. reflexivity. Qed.

Lemma reg_ok_mono sid es e cb : reg_ok sid es cb -> reg_ok sid (es ++ [e]) cb.
Proof. destruct cb; simpl; intros H; apply in_or_app; left; exact H. Qed.

Lemma lates_ok_mono sid es e rc futs late : lates_ok sid es rc futs late -> lates_ok sid (es ++ [e]) rc futs late.
Proof.
  intros [H N]. split; [|exact N]. intros cb rc' K. destruct (H cb rc' K) as [A [B C]].
  split; [exact A|]. split; [apply reg_ok_mono; exact B|exact C].
Qed.

Lemma fut_ok_mono sid es e rc calls futs : fut_ok sid es rc calls futs -> fut_ok sid (es ++ [e]) rc calls futs.
Proof.
  intros H j l f Hj N. destruct (H j l f Hj N) as [re [A [B C]]]. exists re.
  split; [exact A|]. split; [apply in_or_app; left; exact B|exact C].
Qed.

Lemma RB_mono sid es e rc s calls late : RB sid es rc s calls late -> RB sid (es ++ [e]) rc s calls late.
Proof.
  intros [A [[cb0 [rest [B1 [B2 B3]]]] [C [D E]]]]. split; [exact A|]. split.
  - exists cb0, rest. split; [exact B1|]. split; [apply reg_ok_mono; exact B2|exact B3].
  - split; [exact C|]. split; [apply lates_ok_mono; exact D|apply fut_ok_mono; exact E].
Qed.

Lemma body_mono sid es e c : body sid es c -> body sid (es ++ [e]) c.
Proof.
  unfold body. destruct (c_ph c); try tauto.
  destruct (decode st); [|tauto]. apply RB_mono.
Qed.

Lemma Inv_mono sid p es e c : Inv sid p es c -> first_exit p (es ++ [e]) = first_exit p es ->
  reg_label sid e = None -> Inv sid p (es ++ [e]) c.
Proof.
  intros [H1 H2 H3 [dr H5] H4] F L. constructor; [exact H1|rewrite F; exact H2| | |apply body_mono; exact H4].
  - intros cb H. apply reg_ok_mono. exact (H3 cb H).
  - exists dr. rewrite reg_labels_snoc, L, app_nil_r. exact H5.
Qed.

Lemma Inv_init sid p : Inv sid p [] (cinit p).
Proof.
  constructor; simpl; try reflexivity; [discriminate|exists []; reflexivity|].
  unfold body, cb_valid, all_pending. simpl. repeat split; try constructor; try discriminate. intros H; congruence.
Qed.

Lemma resolve_not_pending re rc : resolve re rc <> FPending.
Proof. unfold resolve. destruct (negb (rc =? 0) && re); discriminate. Qed.

Lemma late_idx_in late j : In j (late_idx late) <-> exists l re rc', In (CbFut l j re, rc') late.
Proof.
  unfold late_idx. rewrite in_flat_map. split.
  - intros [[cb rc'] [H K]]. simpl in K. destruct cb as [l|l i re]; [destruct K|].
    destruct K as [<-|[]]. exists l, re, rc'. exact H.
  - intros [l [re [rc' H]]]. exists (CbFut l j re, rc'). split; [exact H|left; reflexivity].
Qed.

Lemma late_idx_app a b : late_idx (a ++ b) = late_idx a ++ late_idx b.
Proof. unfold late_idx. apply flat_map_app. Qed.

Lemma call_labels_app a b : call_labels (a ++ b) = call_labels a ++ call_labels b.
Proof. unfold call_labels. apply flat_map_app. Qed.

Lemma NoDup_snoc {A} (l : list A) x : NoDup l -> ~ In x l -> NoDup (l ++ [x]).
Proof.
  induction l as [|a l IH]; intros ND N; simpl.
  - constructor; [intros []|constructor].
  - inversion ND as [|? ? H1 H2]; subst. constructor.
    + intros K. apply in_app_or in K as [K|[K|[]]]; [contradiction|]. apply N. left; symmetry; exact K.
    + apply IH; [exact H2|]. intros K. apply N. right; exact K.
Qed.

(* registration, as seen by the invariant *)
Lemma Inv_reg sid p es c e prep cbof extra :
  Inv sid p es c ->
  let s := c_sub c in
  prep s = mkSub (s_pid s) (s_cb s) (s_rc s) (s_futs s ++ extra) ->
  all_pending extra ->
  cb_pending (cbof s) (s_futs s ++ extra) ->
  match cbof s with CbFut _ i _ => i = length (s_futs s) | CbPlain _ => True end ->
  reg_ok sid (es ++ [e]) (cbof s) ->
  reg_label sid e = Some (cb_label (cbof s)) ->
  first_exit p (es ++ [e]) = first_exit p es ->
  Inv sid p (es ++ [e]) (creg prep cbof c).
Proof.
  intros [H1 H2 H3 [dr H5] H4] s Eprep Pex Epend Eidx Ereg Elab F.
  destruct c as [s0 ph inw calls late]. cbn [c_sub c_ph c_inw c_calls c_late] in *. subst s.
  remember (cbof s0) as Cb eqn:HCb.
  assert (AP : all_pending (s_futs s0) -> all_pending (s_futs s0 ++ extra)).
  { intros C. apply Forall_app. split; assumption. }
  assert (Lab : reg_labels sid (es ++ [e]) = (dr ++ active (mkC s0 ph inw calls late)) ++ [cb_label Cb]).
  { rewrite reg_labels_snoc, Elab, H5. reflexivity. }
  unfold creg. cbn [c_sub c_ph c_inw c_calls c_late]. rewrite Eprep. rewrite <- ?HCb.
  unfold body in H4. cbn [c_sub c_ph c_inw c_calls c_late] in H4.
  destruct (s_rc s0) as [rc|] eqn:Rc.
  - (* the exit was already reported: callback(returncode) is queued *)
    assert (Hrb : exists st, ph = PhReported st /\ decode st = Some rc /\ RB sid es rc s0 calls late).
    { destruct ph as [|st|st|st]; try (destruct H4 as [A _]; discriminate A).
      exists st. destruct (decode st) as [rc0|] eqn:Dc; [|destruct H4 as [A _]; discriminate A].
      pose proof H4 as [A _]. assert (rc0 = rc) by congruence. subst rc0.
      split; [reflexivity|]. split; [reflexivity|exact H4]. }
    destruct Hrb as [st [-> [Dc [A [[cb0 [rest [B1 [B2 B3]]]] [C [[D1 D2] E]]]]]]].
    constructor; cbn [c_sub c_ph c_inw c_calls c_late s_pid s_cb s_rc s_futs].
    + exact H1.
    + rewrite F. exact H2.
    + intros cb H. apply reg_ok_mono. exact (H3 cb H).
    + exists dr. rewrite Lab. unfold active. cbn [c_sub c_calls c_late s_rc]. rewrite Rc, map_app. simpl.
      rewrite <- !app_assoc. reflexivity.
    + unfold body. cbn [c_sub c_ph c_inw c_calls c_late]. rewrite Dc. unfold RB. cbn [s_rc s_futs].
      split; [reflexivity|]. split; [|split; [exact C|split]].
      * exists cb0, rest. split; [exact B1|]. split; [apply reg_ok_mono; exact B2|].
        unfold cb_done in *. destruct cb0 as [l|l i re]; [exact I|].
        rewrite nth_error_app1 by exact (nth_error_lt _ _ _ B3). exact B3.
      * split.
        -- intros cb rc' K. apply in_app_or in K as [K|[K|[]]].
           ++ destruct (D1 cb rc' K) as [X [Y Z]]. split; [exact X|]. split; [apply reg_ok_mono; exact Y|].
              unfold cb_pending in *. destruct cb as [l|l i re]; [exact I|].
              rewrite nth_error_app1 by exact (nth_error_lt _ _ _ Z). exact Z.
           ++ injection K as <- <-. split; [reflexivity|]. split; [exact Ereg|exact Epend].
        -- rewrite late_idx_app. unfold late_idx at 2. simpl. destruct Cb as [l|l i re]; simpl.
           ++ rewrite app_nil_r. exact D2.
           ++ apply NoDup_snoc; [exact D2|]. intros K. apply late_idx_in in K as [l' [re' [rc' K]]].
              destruct (D1 _ _ K) as [_ [_ Z]]. simpl in Z. apply nth_error_lt in Z. lia.
      * intros j l f Hj N.
        destruct (Nat.lt_ge_cases j (length (s_futs s0))) as [L|L].
        -- rewrite nth_error_app1 in Hj by exact L. destruct (E j l f Hj N) as [re [X [Y Z]]].
           exists re. split; [exact X|]. split; [apply in_or_app; left; exact Y|exact Z].
        -- rewrite nth_error_app2 in Hj by exact L. apply nth_error_In in Hj.
           exfalso. apply N. exact (proj1 (Forall_forall _ _) Pex _ Hj).
  - (* not reported yet: store the callback, enter _waiting, probe the child *)
    assert (Lab' : exists dropped, reg_labels sid (es ++ [e]) = dropped ++ [cb_label Cb]).
    { eexists. exact Lab. }
    assert (Val : cb_valid (set_cb Cb (mkSub (s_pid s0) (s_cb s0) None (s_futs s0 ++ extra)))).
    { unfold cb_valid, set_cb. simpl. unfold cb_pending in Epend. destruct Cb; [exact I|exact Epend]. }
    unfold ctry. cbn [c_sub c_ph c_inw c_calls c_late].
    destruct ph as [|st|st|st]; cbn [c_sub c_ph c_inw c_calls c_late].
    + destruct H4 as [A [B [C [D [E G]]]]].
      constructor; cbn [c_sub c_ph c_inw c_calls c_late set_cb s_pid s_cb s_rc s_futs];
        [exact H1|rewrite F; exact H2|intros cb' [= <-]; exact Ereg|exact Lab'|].
      unfold body. cbn [c_sub c_ph c_inw c_calls c_late set_cb s_pid s_cb s_rc s_futs].
      repeat split; try assumption; try (apply AP; assumption); try discriminate.
    + destruct H4 as [A [B [C [D [E G]]]]].
      constructor; cbn [c_sub c_ph c_inw c_calls c_late set_cb s_pid s_cb s_rc s_futs];
        [exact H1|rewrite F; exact H2|intros cb' [= <-]; exact Ereg|exact Lab'|].
      unfold body. cbn [c_sub c_ph c_inw c_calls c_late set_cb s_pid s_cb s_rc s_futs].
      repeat split; try assumption; try (apply AP; assumption); try discriminate.
    + destruct H4 as [A [B [C [D [E G]]]]].
      constructor; cbn [c_sub c_ph c_inw c_calls c_late set_cb s_pid s_cb s_rc s_futs];
        [exact H1|rewrite F; exact H2|intros cb' [= <-]; exact Ereg|exact Lab'|].
      unfold body. cbn [c_sub c_ph c_inw c_calls c_late set_cb s_pid s_cb s_rc s_futs].
      repeat split; try assumption; try (apply AP; assumption); try discriminate.
    + constructor; cbn [c_sub c_ph c_inw c_calls c_late set_cb s_pid s_cb s_rc s_futs];
        [exact H1|rewrite F; exact H2|intros cb' [= <-]; exact Ereg|exact Lab'|].
      unfold body. cbn [c_sub c_ph c_inw c_calls c_late set_cb s_pid s_cb s_rc s_futs].
      destruct (decode st) as [rc|].
      * destruct H4 as [A _]. congruence.
      * destruct H4 as [A [B [C D]]]. repeat split; try assumption. apply AP; assumption.
Qed.

(* _set_returncode, as seen by the invariant *)
Lemma Inv_report sid p es c st : Inv sid p es c -> c_ph c = PhQueued st -> Inv sid p es (creport sid st c).
Proof.
  intros [H1 H2 H3 [dr H5] H4] P.
  destruct c as [s ph inw calls late]. cbn [c_sub c_ph c_inw c_calls c_late] in *. subst ph.
  unfold body in H4. cbn [c_sub c_ph c_inw c_calls c_late] in H4. destruct H4 as [A [B [C [D [E G]]]]]. subst calls late.
  unfold active in H5. cbn [c_sub c_calls c_late] in H5. rewrite A in H5.
  unfold creport. cbn [c_sub c_ph c_inw c_calls c_late].
  destruct (decode st) as [rc|] eqn:Dc.
  - destruct (s_cb s) as [cb|] eqn:Hcb; [|congruence].
    pose proof (H3 cb eq_refl) as Rk.
    assert (Lab : exists dropped, reg_labels sid es = dropped ++ [cb_label cb] ++ []) by (exists dr; exact H5).
    destruct cb as [l|l i re]; cbn [invoke s_futs].
    + constructor; cbn [c_sub c_ph c_inw c_calls c_late s_pid s_cb s_rc s_futs app];
        [exact H1|exact H2|intros ? K; discriminate K|exact Lab|].
      unfold body. cbn [c_sub c_ph c_inw c_calls c_late]. rewrite Dc. unfold RB. cbn [s_rc s_futs].
      split; [reflexivity|]. split; [exists (CbPlain l), []; repeat split; exact Rk|].
      split; [constructor; [exists l; reflexivity|constructor]|].
      split; [split; [intros ? ? []|constructor]|].
      intros j l' f Hj N. exfalso. apply N. apply nth_error_In in Hj. exact (proj1 (Forall_forall _ _) D _ Hj).
    + unfold cb_valid in E. rewrite Hcb in E. rewrite E.
      constructor; cbn [c_sub c_ph c_inw c_calls c_late s_pid s_cb s_rc s_futs app];
        [exact H1|exact H2|intros ? K; discriminate K|exact Lab|].
      unfold body. cbn [c_sub c_ph c_inw c_calls c_late]. rewrite Dc. unfold RB. cbn [s_rc s_futs].
      split; [reflexivity|]. split.
      * exists (CbFut l i re), []. split; [reflexivity|]. split; [exact Rk|].
        simpl. apply nth_upd_same. exact (nth_error_lt _ _ _ E).
      * split; [constructor; [exists l; reflexivity|constructor]|].
        split; [split; [intros ? ? []|constructor]|].
        intros j l' f Hj N. destruct (Nat.eq_dec i j) as [<-|NE].
        -- rewrite nth_upd_same in Hj by exact (nth_error_lt _ _ _ E). injection Hj as <- <-.
           exists re. split; [reflexivity|]. split; [exact Rk|left; reflexivity].
        -- rewrite nth_upd_other in Hj by exact NE. exfalso. apply N. apply nth_error_In in Hj.
           exact (proj1 (Forall_forall _ _) D _ Hj).
  - constructor; cbn [c_sub c_ph c_inw c_calls c_late app]; [exact H1|exact H2|exact H3| |].
    + exists dr. unfold active. cbn [c_sub]. rewrite A. exact H5.
    + unfold body. cbn [c_sub c_ph c_inw c_calls c_late]. rewrite Dc. repeat split; assumption.
Qed.

(* the queued callback(returncode) calls, as seen by the invariant *)
Definition stays (a b : list (nat * fut)) : Prop :=
  forall j x, nth_error a j = Some x -> snd x <> FPending -> nth_error b j = Some x.

(* the oldest queued call runs *)
Lemma RB_head sid es rc cb rc' late s calls : RB sid es rc s calls ((cb, rc') :: late) ->
  let s3 := fst (invoke sid s cb rc') in
  rc' = rc /\ snd (invoke sid s cb rc') = [LCall sid (cb_label cb) rc] /\
  RB sid es rc s3 (calls ++ [LCall sid (cb_label cb) rc]) late /\
  s_pid s3 = s_pid s /\ s_cb s3 = s_cb s /\ stays (s_futs s) (s_futs s3) /\ cb_done cb rc (s_futs s3).
Proof.
  intros [A [[cb0 [rest [B1 [B2 B3]]]] [C [[D1 D2] E]]]].
  destruct (D1 cb rc' (or_introl eq_refl)) as [-> [Rk Pd]].
  assert (Tail : forall futs', (forall cb' rc'', In (cb', rc'') late -> cb_pending cb' futs') ->
                 lates_ok sid es rc futs' late).
  { intros futs' K. split.
    - intros cb' rc'' Hin. destruct (D1 cb' rc'' (or_intror Hin)) as [X [Y _]]. split; [exact X|]. split; [exact Y|exact (K _ _ Hin)].
    - unfold late_idx in D2 |- *. simpl in D2. destruct cb; simpl in D2; [exact D2|inversion D2; assumption]. }
  assert (Calls : all_calls sid rc (calls ++ [LCall sid (cb_label cb) rc])).
  { apply Forall_app; split; [exact C|constructor; [eexists; reflexivity|constructor]]. }
  destruct cb as [l|l i re]; cbn [invoke fst snd cb_label].
  - split; [reflexivity|]. split; [reflexivity|]. split.
    + split; [exact A|]. split; [exists cb0, (rest ++ [LCall sid l rc]); rewrite B1; auto|].
      split; [exact Calls|]. split.
      * apply Tail. intros cb' rc'' Hin. exact (proj2 (proj2 (D1 _ _ (or_intror Hin)))).
      * intros j l' f Hj N. destruct (E j l' f Hj N) as [re [X [Y Z]]]. exists re.
        split; [exact X|]. split; [exact Y|apply in_or_app; left; exact Z].
    + split; [reflexivity|]. split; [reflexivity|]. split; [intros j x H _; exact H|exact I].
  - simpl in Pd. rewrite Pd. cbn [fst snd s_futs s_pid s_cb].
    assert (Li := nth_error_lt _ _ _ Pd).
    assert (Nin : ~ In i (late_idx late)).
    { unfold late_idx in D2. simpl in D2. inversion D2; assumption. }
    assert (St : stays (s_futs s) (upd_nth i (l, resolve re rc) (s_futs s))).
    { intros j x Hj N. destruct (Nat.eq_dec i j) as [<-|NE]; [|rewrite nth_upd_other by exact NE; exact Hj].
      rewrite Pd in Hj. injection Hj as <-. exfalso. apply N. reflexivity. }
    split; [reflexivity|]. split; [reflexivity|]. split.
    + split; [exact A|]. split.
      * exists cb0, (rest ++ [LCall sid l rc]). split; [rewrite B1; reflexivity|]. split; [exact B2|].
        unfold cb_done in *. destruct cb0 as [l0|l0 i0 re0]; [exact I|].
        apply St; [exact B3|]. simpl. apply resolve_not_pending.
      * split; [exact Calls|]. split.
        -- apply Tail. intros cb' rc'' Hin. pose proof (proj2 (proj2 (D1 _ _ (or_intror Hin)))) as Z.
           unfold cb_pending in *. destruct cb' as [l'|l' j re']; [exact I|]. cbv beta iota in Z |- *. cbn [s_futs].
           destruct (Nat.eq_dec i j) as [<-|NE]; [|rewrite nth_upd_other by exact NE; exact Z].
           exfalso. apply Nin. apply late_idx_in. eauto.
        -- intros j l' f Hj N. cbn [s_futs] in Hj. destruct (Nat.eq_dec i j) as [<-|NE].
           ++ rewrite nth_upd_same in Hj by exact Li. injection Hj as <- <-. exists re.
              split; [reflexivity|]. split; [exact Rk|apply in_or_app; right; left; reflexivity].
           ++ rewrite nth_upd_other in Hj by exact NE. destruct (E j l' f Hj N) as [re1 [X [Y Z]]]. exists re1.
              split; [exact X|]. split; [exact Y|apply in_or_app; left; exact Z].
    + split; [reflexivity|]. split; [reflexivity|]. split; [exact St|]. simpl. apply nth_upd_same. exact Li.
Qed.

Lemma run_lates_unfold sid s calls cb rc late :
  run_lates sid s calls ((cb, rc) :: late) =
  run_lates sid (fst (invoke sid s cb rc)) (calls ++ snd (invoke sid s cb rc)) late.
Proof. simpl. destruct (invoke sid s cb rc). reflexivity. Qed.

Lemma RB_run sid es rc : forall late s calls, RB sid es rc s calls late ->
  let r := run_lates sid s calls late in
  RB sid es rc (fst r) (snd r) [] /\ s_pid (fst r) = s_pid s /\ s_cb (fst r) = s_cb s /\
  call_labels (snd r) = call_labels calls ++ map (fun x => cb_label (fst x)) late /\
  (forall x, In x calls -> In x (snd r)) /\ stays (s_futs s) (s_futs (fst r)) /\
  (forall cb rc', In (cb, rc') late -> In (LCall sid (cb_label cb) rc) (snd r) /\ cb_done cb rc (s_futs (fst r))).
Proof.
  induction late as [|[cb rc'] late IH]; intros s calls H.
  - simpl. rewrite app_nil_r. split; [exact H|]. split; [reflexivity|]. split; [reflexivity|]. split; [reflexivity|].
    split; [auto|]. split; [intros j x K _; exact K|intros ? ? []].
  - destruct (RB_head sid es rc cb rc' late s calls H) as [-> [Ev [H3 [P3 [C3 [St3 Dn3]]]]]].
    cbv zeta. rewrite run_lates_unfold, Ev.
    destruct (IH _ _ H3) as [Y1 [Y2 [Y3 [Y4 [Y5 [Y6 Y7]]]]]].
    split; [exact Y1|]. split; [congruence|]. split; [congruence|]. split.
    + rewrite Y4, call_labels_app. simpl. rewrite <- app_assoc. reflexivity.
    + split; [intros x K; apply Y5; apply in_or_app; left; exact K|]. split.
      * intros j x K N. apply Y6; [apply St3; assumption|exact N].
      * intros cb' rc'' [K|K]; [|exact (Y7 _ _ K)]. injection K as <- <-. split.
        -- apply Y5. apply in_or_app. right. left. reflexivity.
        -- unfold cb_done in *. destruct cb as [l|l i re]; [exact I|].
           apply Y6; [exact Dn3|]. simpl. apply resolve_not_pending.
Qed.

Lemma crun_late_nil sid s ph inw calls : crun_late sid (mkC s ph inw calls []) = mkC s ph inw calls [].
Proof. reflexivity. Qed.

Lemma Inv_runlate sid p es c : Inv sid p es c -> Inv sid p es (crun_late sid c).
Proof.
  intros Hc. pose proof Hc as [H1 H2 H3 [dr H5] H4].
  destruct c as [s ph inw calls late].
  destruct late as [|x late]; [exact Hc|].
  cbn [c_sub c_ph c_inw c_calls c_late] in *. unfold body in H4. cbn [c_sub c_ph c_inw c_calls c_late] in H4.
  destruct ph as [|st|st|st]; try (destruct H4 as [_ [_ [K _]]]; discriminate K).
  destruct (decode st) as [rc|] eqn:Dc; [|destruct H4 as [_ [_ [K _]]]; discriminate K].
  pose proof (RB_run sid es rc (x :: late) s calls H4) as [Y1 [Y2 [Y3 [Y4 _]]]].
  unfold crun_late. cbn [c_sub c_ph c_inw c_calls c_late].
  destruct (run_lates sid s calls (x :: late)) as [s' calls']. cbn [fst snd] in *.
  constructor; cbn [c_sub c_ph c_inw c_calls c_late].
  - congruence.
  - exact H2.
  - intros cb K. apply H3. congruence.
  - exists dr. rewrite H5. unfold active. cbn [c_sub c_calls c_late].
    destruct H4 as [A _]. destruct Y1 as [A' _]. rewrite A, A', Y4. simpl. rewrite app_nil_r. reflexivity.
  - unfold body. cbn [c_sub c_ph c_inw c_calls c_late]. rewrite Dc. exact Y1.
Qed.

Lemma Inv_step sid p es c e h : Inv sid p es c -> Inv sid p (es ++ [e]) (cstep sid h c e).
Proof.
  intros Hc. pose proof Hc as [H1 H2 H3 H5 H4].
  pose proof (first_exit_snoc p es e) as F.
  destruct e as [q|q st| |s l|s l re| | |]; cbn [cstep].
  - apply Inv_mono; [exact Hc| |reflexivity]. rewrite F. destruct (first_exit p es); reflexivity.
  - rewrite H1. destruct (q =? p) eqn:E.
    + destruct c as [s ph inw calls late]. cbn [c_sub c_ph c_inw c_calls c_late] in *.
      destruct ph as [|st'|st'|st']; simpl in H2;
        try (apply Inv_mono; [exact Hc| |reflexivity]; rewrite F, <- H2; reflexivity).
      constructor; cbn [c_sub c_ph c_inw c_calls c_late]; [exact H1|rewrite F, <- H2; reflexivity| | |].
      * intros cb H. apply reg_ok_mono. exact (H3 cb H).
      * destruct H5 as [dr H5]. exists dr. rewrite reg_labels_snoc. simpl. rewrite app_nil_r. exact H5.
      * exact H4.
    + apply Inv_mono; [exact Hc| |reflexivity]. rewrite F. destruct (first_exit p es); reflexivity.
  - assert (F' : first_exit p (es ++ [ESigchld]) = first_exit p es) by (rewrite F; destruct (first_exit p es); reflexivity).
    destruct c as [s ph inw calls late]. cbn [c_sub c_ph c_inw c_calls c_late] in *.
    destruct h; [|apply Inv_mono; [assumption|assumption|reflexivity]]. cbn [andb].
    destruct inw; [|apply Inv_mono; [assumption|assumption|reflexivity]].
    unfold ctry. cbn [c_sub c_ph c_inw c_calls c_late].
    destruct ph as [|st'|st'|st']; try (apply Inv_mono; [assumption|assumption|reflexivity]).
    constructor; cbn [c_sub c_ph c_inw c_calls c_late]; [exact H1|rewrite F'; exact H2| | |].
    * intros cb H. apply reg_ok_mono. exact (H3 cb H).
    * destruct H5 as [dr H5]. exists dr. rewrite reg_labels_snoc. simpl. rewrite app_nil_r. exact H5.
    * unfold body in *. cbn [c_sub c_ph c_inw c_calls c_late] in *. destruct H4 as [A [B [C [D [E G]]]]].
      repeat split; try assumption. apply G. reflexivity.
  - assert (F' : first_exit p (es ++ [EReg s l]) = first_exit p es) by (rewrite F; destruct (first_exit p es); reflexivity).
    destruct (Nat.eqb s sid) eqn:E.
    2:{ apply Inv_mono; [assumption|assumption|]. simpl. rewrite E. reflexivity. }
    apply Nat.eqb_eq in E. subst s.
    apply (Inv_reg sid p es c (EReg sid l) prep_plain (cb_plain l) []); try assumption.
    + unfold prep_plain. rewrite app_nil_r. destruct (c_sub c); reflexivity.
    + constructor.
    + exact I.
    + exact I.
    + simpl. apply in_or_app. right. left. reflexivity.
    + simpl. rewrite Nat.eqb_refl. reflexivity.
  - assert (F' : first_exit p (es ++ [EWait s l re]) = first_exit p es) by (rewrite F; destruct (first_exit p es); reflexivity).
    destruct (Nat.eqb s sid) eqn:E.
    2:{ apply Inv_mono; [assumption|assumption|]. simpl. rewrite E. reflexivity. }
    apply Nat.eqb_eq in E. subst s.
    apply (Inv_reg sid p es c (EWait sid l re) (prep_fut l) (cb_fut l re) [(l, FPending)]); try assumption.
    + reflexivity.
    + constructor; [reflexivity|constructor].
    + unfold cb_pending, cb_fut. rewrite nth_error_app2 by lia. rewrite Nat.sub_diag. reflexivity.
    + reflexivity.
    + simpl. apply in_or_app. right. left. reflexivity.
    + simpl. rewrite Nat.eqb_refl. reflexivity.
  - assert (F' : first_exit p (es ++ [ELoop]) = first_exit p es) by (rewrite F; destruct (first_exit p es); reflexivity).
    assert (Hc' : Inv sid p (es ++ [ELoop]) c) by (apply Inv_mono; [assumption|assumption|reflexivity]).
    unfold cloop. apply Inv_runlate.
    destruct (c_ph c) eqn:P; try exact Hc'. apply Inv_report; assumption.
  - apply Inv_mono; [exact Hc| |reflexivity]. rewrite F. destruct (first_exit p es); reflexivity.
  - apply Inv_mono; [exact Hc| |reflexivity]. rewrite F. destruct (first_exit p es); reflexivity.
Qed.

Lemma trk_cons sid w e r c : trk sid w (e :: r) c = trk sid (step w e) r (cstep sid (w_init w) c e).
Proof. reflexivity. Qed.

Lemma pfold_fst' sid r : forall w c, fst (fold_left (pstep sid) r (w, c)) = fold_left step r w.
Proof. induction r as [|e r IH]; intros w c; simpl; [reflexivity|]. apply IH. Qed.

Lemma trk_app sid a b : forall w c, trk sid w (a ++ b) c = trk sid (fold_left step a w) b (trk sid w a c).
Proof.
  induction a as [|e a IH]; intros w c; [reflexivity|].
  rewrite <- app_comm_cons, !trk_cons. simpl fold_left. apply IH.
Qed.

Lemma Inv_fold sid p r : forall es w c, Inv sid p es c -> Inv sid p (es ++ r) (trk sid w r c).
Proof.
  induction r as [|e r IH]; intros es w c H.
  - rewrite app_nil_r. exact H.
  - replace (es ++ e :: r) with ((es ++ [e]) ++ r) by (rewrite <- app_assoc; reflexivity).
    rewrite trk_cons. apply IH. apply Inv_step. exact H.
Qed.

Lemma Inv_track sid p w r : Inv sid p r (trk sid w r (cinit p)).
Proof. exact (Inv_fold sid p r [] w (cinit p) (Inv_init sid p)). Qed.

(* ---------- progress ---------- *)
Definition exited (st : Z) (c : cstate) : Prop :=
  c_ph c = PhZombie st \/ c_ph c = PhQueued st \/ c_ph c = PhReported st.
Definition reaped (st : Z) (c : cstate) : Prop := c_ph c = PhQueued st \/ c_ph c = PhReported st.
Definition reported (st : Z) (c : cstate) : Prop := c_ph c = PhReported st.
Definition registered (c : cstate) : Prop :=
  c_inw c = true \/ exists st, c_ph c = PhQueued st \/ c_ph c = PhReported st.

Lemma ctry_phase c :
  match c_ph c with
  | PhZombie st => c_ph (ctry c) = PhZombie st \/ c_ph (ctry c) = PhQueued st
  | ph => c_ph (ctry c) = ph
  end.
Proof. unfold ctry. destruct c as [s [|st|st|st] [|] calls lt]; simpl; auto. Qed.

Lemma creg_phase prep cbof c :
  match c_ph c with
  | PhZombie st => c_ph (creg prep cbof c) = PhZombie st \/ c_ph (creg prep cbof c) = PhQueued st
  | ph => c_ph (creg prep cbof c) = ph
  end.
Proof.
  unfold creg. destruct (s_rc (c_sub c)).
  - simpl. destruct (c_ph c); auto.
  - pose proof (ctry_phase (mkC (set_cb (cbof (c_sub c)) (prep (c_sub c))) (c_ph c) true (c_calls c) (c_late c))) as H.
    simpl in H. exact H.
Qed.

Lemma cloop_phase sid c :
  match c_ph c with
  | PhQueued st => c_ph (cloop sid c) = PhReported st
  | ph => c_ph (cloop sid c) = ph
  end.
Proof.
  unfold cloop. destruct (c_ph c) eqn:P.
  - destruct (crun_late_ph sid c) as [A _]. congruence.
  - destruct (crun_late_ph sid c) as [A _]. congruence.
  - destruct (crun_late_ph sid (creport sid st c)) as [A _]. destruct (creport_ph sid st c) as [B _]. congruence.
  - destruct (crun_late_ph sid c) as [A _]. congruence.
Qed.

(* what one event can do to the phase *)
Lemma cstep_phase sid h c e :
  match c_ph c with
  | PhRun => c_ph (cstep sid h c e) = PhRun \/ exists st, c_ph (cstep sid h c e) = PhZombie st
  | PhZombie st => c_ph (cstep sid h c e) = PhZombie st \/ c_ph (cstep sid h c e) = PhQueued st
  | PhQueued st => c_ph (cstep sid h c e) = PhQueued st \/ c_ph (cstep sid h c e) = PhReported st
  | PhReported st => c_ph (cstep sid h c e) = PhReported st
  end.
Proof.
  destruct e as [q|q st0| |s0 l|s0 l re| | |]; cbn [cstep]; try (destruct (c_ph c); auto; fail).
  - destruct (q =? s_pid (c_sub c)); destruct (c_ph c) eqn:P; simpl; rewrite ?P; eauto.
  - destruct (h && c_inw c); [|destruct (c_ph c); auto]. pose proof (ctry_phase c) as H. destruct (c_ph c); auto.
  - destruct (Nat.eqb s0 sid); [|destruct (c_ph c); auto].
    pose proof (creg_phase prep_plain (cb_plain l) c) as H. destruct (c_ph c); auto.
  - destruct (Nat.eqb s0 sid); [|destruct (c_ph c); auto].
    pose proof (creg_phase (prep_fut l) (cb_fut l re) c) as H. destruct (c_ph c); auto.
  - pose proof (cloop_phase sid c) as H. destruct (c_ph c); auto.
Qed.

Lemma exited_step sid st h c e : exited st c -> exited st (cstep sid h c e).
Proof.
  unfold exited. pose proof (cstep_phase sid h c e) as H.
  intros [E|[E|E]]; rewrite E in H; tauto.
Qed.
Lemma reaped_step sid st h c e : reaped st c -> reaped st (cstep sid h c e).
Proof.
  unfold reaped. pose proof (cstep_phase sid h c e) as H.
  intros [E|E]; rewrite E in H; tauto.
Qed.
Lemma reported_step sid st h c e : reported st c -> reported st (cstep sid h c e).
Proof.
  unfold reported. pose proof (cstep_phase sid h c e) as H.
  intros E; rewrite E in H; tauto.
Qed.

Lemma creg_inw prep cbof c : c_inw c = true ->
  c_inw (creg prep cbof c) = true \/ exists st, c_ph (creg prep cbof c) = PhQueued st.
Proof.
  intros H. unfold creg. destruct (s_rc (c_sub c)); [left; exact H|].
  unfold ctry. simpl. destruct (c_ph c); simpl; eauto.
Qed.

Lemma registered_step sid h c e : registered c -> registered (cstep sid h c e).
Proof.
  unfold registered. intros [H|[st H]].
  - destruct e as [q|q st0| |s0 l|s0 l re| | |]; cbn [cstep]; try (left; exact H).
    + destruct (q =? s_pid (c_sub c)); [|left; exact H]. destruct (c_ph c); simpl; auto.
    + destruct h; [|left; exact H]. rewrite H. cbn [andb]. unfold ctry. rewrite H.
      destruct (c_ph c) eqn:P; simpl; rewrite ?P; eauto.
    + destruct (Nat.eqb s0 sid); [|left; exact H].
      destruct (creg_inw prep_plain (cb_plain l) c H) as [K|[st K]]; eauto.
    + destruct (Nat.eqb s0 sid); [|left; exact H].
      destruct (creg_inw (prep_fut l) (cb_fut l re) c H) as [K|[st K]]; eauto.
    + pose proof (cloop_phase sid c) as K. unfold cloop in *.
      destruct (c_ph c) eqn:P.
      * left. destruct (crun_late_ph sid c) as [_ [_ A]]. congruence.
      * left. destruct (crun_late_ph sid c) as [_ [_ A]]. congruence.
      * right. exists st. right. exact K.
      * left. destruct (crun_late_ph sid c) as [_ [_ A]]. congruence.
  - right. exists st. pose proof (cstep_phase sid h c e) as K.
    destruct H as [H|H]; rewrite H in K; tauto.
Qed.

Lemma fold_stable (P : cstate -> Prop) sid :
  (forall h c e, P c -> P (cstep sid h c e)) -> forall r w c, P c -> P (trk sid w r c).
Proof.
  intros S r. induction r as [|e r IH]; intros w c H; [exact H|]. rewrite trk_cons. apply IH, S, H.
Qed.

(* the child's first exit is what the automaton remembers (read off the invariant) *)
Lemma fold_exited sid p w r st : first_exit p r = Some st -> exited st (trk sid w r (cinit p)).
Proof.
  intros F. pose proof (i_st _ _ _ _ (Inv_track sid p w r)) as S. rewrite F in S. unfold exited.
  destruct (c_ph (trk sid w r (cinit p))); simpl in S; try discriminate; injection S as ->; auto.
Qed.

Lemma reg_registers sid h c e : cwf c -> is_reg_of sid e -> registered (cstep sid h c e).
Proof.
  unfold is_reg_of, registered. intros W.
  assert (K : forall prep cbof, c_inw (creg prep cbof c) = true \/
                                 exists st, c_ph (creg prep cbof c) = PhQueued st \/ c_ph (creg prep cbof c) = PhReported st).
  { intros prep cbof. unfold creg. destruct (s_rc (c_sub c)) eqn:Rc.
    - right. unfold cwf in W. simpl. destruct (c_ph c); try (destruct W; congruence). eauto.
    - unfold ctry. simpl. destruct (c_ph c); simpl; eauto. }
  destruct e as [q|q st0| |s0 l|s0 l re| | |]; simpl; try tauto.
  - destruct (Nat.eqb s0 sid); [|tauto]. intros _. apply K.
  - destruct (Nat.eqb s0 sid); [|tauto]. intros _. apply K.
Qed.

Lemma fold_registered sid w r c : cwf c -> (exists e, In e r /\ is_reg_of sid e) -> registered (trk sid w r c).
Proof.
  intros W [e [H K]]. apply in_split in H as [r1 [r2 ->]]. rewrite trk_app, trk_cons.
  apply fold_stable; [intros; apply registered_step; assumption|]. apply reg_registers; [apply fold_cwf; exact W|exact K].
Qed.

(* a registration finds the zombie at once; a SIGCHLD finds it if the object is registered and the handler installed *)
Lemma reg_reaps sid st h c e : cwf c -> exited st c -> is_reg_of sid e -> reaped st (cstep sid h c e).
Proof.
  unfold exited, reaped, is_reg_of. intros W X.
  assert (K : forall prep cbof, c_ph (creg prep cbof c) = PhQueued st \/ c_ph (creg prep cbof c) = PhReported st).
  { intros prep cbof. destruct X as [X|X].
    - unfold creg. unfold cwf in W. rewrite X in W. destruct W as [W _]. rewrite W.
      unfold ctry. simpl. rewrite X. left; reflexivity.
    - pose proof (creg_phase prep cbof c) as H. destruct X as [X|X]; rewrite X in H; auto. }
  destruct e as [q|q st0| |s0 l|s0 l re| | |]; simpl; try tauto.
  - destruct (Nat.eqb s0 sid); [|tauto]. intros _. apply K.
  - destruct (Nat.eqb s0 sid); [|tauto]. intros _. apply K.
Qed.

Lemma sigchld_reaps sid st c : exited st c -> registered c -> reaped st (cstep sid true c ESigchld).
Proof.
  unfold exited, reaped, registered. destruct c as [s ph inw calls lt]. simpl.
  intros X Y. destruct inw; unfold ctry; simpl.
  - destruct X as [ -> | [ -> | -> ] ]; simpl; auto.
  - destruct Y as [Y|[st' Y]]; [discriminate|].
    destruct X as [ -> | [ -> | -> ] ]; auto. destruct Y; discriminate.
Qed.

Lemma loop_reports sid st h c : reaped st c -> reported st (cstep sid h c ELoop).
Proof.
  unfold reaped, reported. cbn [cstep]. pose proof (cloop_phase sid c) as H.
  intros [E|E]; rewrite E in H; exact H.
Qed.

Lemma fold_with (P Q : cstate -> Prop) sid (e0 : event) r w c :
  (forall h c e, Q c -> Q (cstep sid h c e)) ->
  (forall h c, P c -> Q (cstep sid h c e0)) ->
  (forall h c e, P c -> P (cstep sid h c e)) ->
  In e0 r -> P c -> Q (trk sid w r c).
Proof.
  intros SQ PQ SP H Pc. apply in_split in H as [r1 [r2 ->]]. rewrite trk_app, trk_cons.
  apply fold_stable; [exact SQ|]. apply PQ. apply fold_stable; [exact SP|exact Pc].
Qed.

(* (A) registration and exit in either order (r1), then a SIGCHLD delivered while the handler is installed, then a loop turn *)
Theorem spec_reported_A sid p w r1 r3 r4 st :
  first_exit p r1 = Some st -> (exists e, In e r1 /\ is_reg_of sid e) ->
  w_init (fold_left step r1 w) = true -> In ELoop r3 ->
  reported st (trk sid w (r1 ++ ESigchld :: r3 ++ r4) (cinit p)).
Proof.
  intros F Rg Hd L. rewrite trk_app, trk_cons, Hd, trk_app.
  apply fold_stable; [intros; apply reported_step; assumption|].
  apply (fold_with (reaped st) (reported st) sid ELoop); try exact L.
  - intros; apply reported_step; assumption.
  - intros; apply loop_reports; assumption.
  - intros; apply reaped_step; assumption.
  - apply sigchld_reaps; [apply fold_exited; exact F|apply fold_registered; [apply cinit_cwf|exact Rg]].
Qed.

(* (B) the child is already dead when the object is registered: no SIGCHLD (and no handler) is needed *)
Theorem spec_reported_B sid p w r1 r2 r3 r4 st :
  first_exit p r1 = Some st -> (exists e, In e r2 /\ is_reg_of sid e) -> In ELoop r3 ->
  reported st (trk sid w (r1 ++ r2 ++ r3 ++ r4) (cinit p)).
Proof.
  intros F [e0 [Rg K]] L. rewrite !trk_app.
  apply fold_stable; [intros; apply reported_step; assumption|].
  apply (fold_with (reaped st) (reported st) sid ELoop); try exact L.
  - intros; apply reported_step; assumption.
  - intros; apply loop_reports; assumption.
  - intros; apply reaped_step; assumption.
  - apply (fold_with (fun c => cwf c /\ exited st c) (reaped st) sid e0); try exact Rg.
    + intros; apply reaped_step; assumption.
    + intros h c [W A]. apply reg_reaps; assumption.
    + intros h c e [W A]. split; [apply cstep_cwf|apply exited_step]; assumption.
    + split; [apply fold_cwf, cinit_cwf|apply fold_exited; exact F].
Qed.
