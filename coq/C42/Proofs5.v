(* C42 — the one-child automaton: invariant (at most one report, right value, future rule)
   and progress (registration + exit, in either order, then SIGCHLD, then a loop turn => reported). *)
From Coq Require Import List ZArith Bool Arith Lia.
Import ListNotations.
From TV Require Import C42.Model C42.Spec C42.Proofs2.
Local Open Scope Z_scope.

Definition cb_valid (s : sub) : Prop :=
  match s_cb s with
  | Some (CbFut l i _) => nth_error (s_futs s) i = Some (l, FPending)
  | _ => True
  end.
Definition ph_status (ph : phase) : option Z :=
  match ph with PhRun => None | PhZombie st | PhQueued st | PhReported st => Some st end.

Definition body (sid : nat) (es : list event) (c : cstate) : Prop :=
  let s := c_sub c in
  match c_ph c with
  | PhRun | PhZombie _ =>
      s_rc s = None /\ c_calls c = [] /\ all_pending (s_futs s) /\ cb_valid s /\ (c_inw c = true <-> s_cb s <> None)
  | PhQueued _ =>
      s_rc s = None /\ c_calls c = [] /\ all_pending (s_futs s) /\ cb_valid s /\ s_cb s <> None
  | PhReported st =>
      match decode st with
      | Some rc => s_rc s = Some rc /\
                   exists cb, c_calls c = [LCall sid (cb_label cb) rc] /\ reg_ok sid es cb /\
                              cb_done cb rc (s_futs s) /\ others_pending cb (s_futs s)
      | None => s_rc s = None /\ c_calls c = [LAssert sid] /\ all_pending (s_futs s)
      end
  end.

Record Inv (sid : nat) (p : Z) (es : list event) (c : cstate) : Prop := mkInv {
  i_pid : s_pid (c_sub c) = p;
  i_st : ph_status (c_ph c) = first_exit p es;
  i_cb : forall cb, s_cb (c_sub c) = Some cb -> reg_ok sid es cb;
  i_body : body sid es c
}.

Lemma first_exit_snoc p es e :
  first_exit p (es ++ [e]) =
    match first_exit p es with
    | Some s => Some s
    | None => match e with EExit q st => if q =? p then Some st else None | _ => None end
    end.
Proof.
  induction es as [|a es IH]; simpl.
  - destruct e; reflexivity.
  - destruct a; try exact IH. destruct (pid =? p); [reflexivity|exact IH].
Qed.

Lemma reg_ok_mono sid es e cb : reg_ok sid es cb -> reg_ok sid (es ++ [e]) cb.
Proof. destruct cb; simpl; intros H; apply in_or_app; left; exact H. Qed.

Lemma body_mono sid es e c : body sid es c -> body sid (es ++ [e]) c.
Proof.
  unfold body. destruct (c_ph c); try tauto.
  destruct (decode st); [|tauto]. intros [H [cb [H1 [H2 H3]]]]. split; [exact H|].
  exists cb. split; [exact H1|]. split; [apply reg_ok_mono; exact H2|exact H3].
Qed.

Lemma Inv_mono sid p es e c : Inv sid p es c -> first_exit p (es ++ [e]) = first_exit p es -> Inv sid p (es ++ [e]) c.
Proof.
  intros [H1 H2 H3 H4] F. constructor; [exact H1|rewrite F; exact H2| |apply body_mono; exact H4].
  intros cb H. apply reg_ok_mono. exact (H3 cb H).
Qed.

Lemma Inv_init sid p : Inv sid p [] (cinit p).
Proof.
  constructor; simpl; try reflexivity; [discriminate|].
  unfold body, cb_valid, all_pending. simpl. repeat split; try constructor; try discriminate. intros H; congruence.
Qed.

Lemma all_pending_others cb futs : all_pending futs -> others_pending cb futs.
Proof.
  intros A j x H N. exfalso. apply N. apply nth_error_In in H.
  exact (proj1 (Forall_forall _ _) A x H).
Qed.

(* registration, as seen by the invariant *)
Lemma Inv_reg sid p es c e mk cb extra :
  Inv sid p es c ->
  mk (c_sub c) = mkSub (s_pid (c_sub c)) (Some cb) (s_rc (c_sub c)) (s_futs (c_sub c) ++ extra) ->
  all_pending extra ->
  cb_valid (mk (c_sub c)) ->
  reg_ok sid (es ++ [e]) cb ->
  first_exit p (es ++ [e]) = first_exit p es ->
  Inv sid p (es ++ [e]) (creg mk c).
Proof.
  intros [H1 H2 H3 H4] Emk Pex Eval Ereg F.
  destruct c as [s ph inw calls]. simpl in *. rewrite Emk in Eval.
  unfold creg, ctry. simpl. unfold body in H4. simpl in H4.
  assert (AP : all_pending (s_futs s) -> all_pending (s_futs s ++ extra)).
  { intros C. apply Forall_app. split; assumption. }
  destruct ph as [|st|st|st]; simpl.
  - constructor; simpl; rewrite ?Emk; simpl; [exact H1|rewrite F; exact H2|intros cb' [= <-]; exact Ereg|].
    unfold body. simpl. rewrite ?Emk. simpl. destruct H4 as [A [B [C [D E]]]].
    repeat split; try assumption; try (apply AP; assumption); try discriminate.
  - constructor; simpl; rewrite ?Emk; simpl; [exact H1|rewrite F; exact H2|intros cb' [= <-]; exact Ereg|].
    unfold body. simpl. rewrite ?Emk. simpl. destruct H4 as [A [B [C [D E]]]].
    repeat split; try assumption; try (apply AP; assumption); try discriminate.
  - constructor; simpl; rewrite ?Emk; simpl; [exact H1|rewrite F; exact H2|intros cb' [= <-]; exact Ereg|].
    unfold body. simpl. rewrite ?Emk. simpl. destruct H4 as [A [B [C [D E]]]].
    repeat split; try assumption; try (apply AP; assumption); try discriminate.
  - constructor; simpl; rewrite ?Emk; simpl; [exact H1|rewrite F; exact H2|intros cb' [= <-]; exact Ereg|].
    unfold body. simpl. rewrite ?Emk. simpl. destruct (decode st) as [rc|].
    + destruct H4 as [A [cb0 [B [C [D E]]]]]. split; [exact A|]. exists cb0.
      split; [exact B|]. split; [apply reg_ok_mono; exact C|]. split.
      * unfold cb_done in *. destruct cb0 as [l|l i re]; [exact I|].
        rewrite nth_error_app1 by exact (nth_error_lt _ _ _ D). exact D.
      * intros j x Hj N.
        destruct (Nat.lt_ge_cases j (length (s_futs s))) as [L|L].
        -- rewrite nth_error_app1 in Hj by exact L. exact (E j x Hj N).
        -- rewrite nth_error_app2 in Hj by exact L. apply nth_error_In in Hj.
           exfalso. apply N. exact (proj1 (Forall_forall _ _) Pex x Hj).
    + destruct H4 as [A [B C]]. repeat split; try assumption. apply AP; assumption.
Qed.

Lemma Inv_step sid p es c e : Inv sid p es c -> Inv sid p (es ++ [e]) (cstep sid c e).
Proof.
  intros Hc. pose proof Hc as [H1 H2 H3 H4].
  pose proof (first_exit_snoc p es e) as F.
  destruct e as [q|q st| |s l|s l re|]; simpl.
  - apply Inv_mono; [exact Hc|]. rewrite F. destruct (first_exit p es); reflexivity.
  - rewrite H1. destruct (q =? p) eqn:E.
    + destruct c as [s ph inw calls]. cbn [c_sub c_ph c_inw c_calls] in *.
      destruct ph as [|st'|st'|st']; simpl in H2;
        try (apply Inv_mono; [exact Hc|]; rewrite F, <- H2; reflexivity).
      constructor; simpl; [exact H1|rewrite F, <- H2; reflexivity| |].
      * intros cb H. apply reg_ok_mono. exact (H3 cb H).
      * exact H4.
    + apply Inv_mono; [exact Hc|]. rewrite F. destruct (first_exit p es); reflexivity.
  - assert (F' : first_exit p (es ++ [ESigchld]) = first_exit p es) by (rewrite F; destruct (first_exit p es); reflexivity).
    destruct c as [s ph inw calls]. cbn [c_sub c_ph c_inw c_calls] in *.
    destruct inw; [|apply Inv_mono; assumption].
    unfold ctry. simpl. destruct ph as [|st'|st'|st']; try (apply Inv_mono; assumption).
    constructor; simpl; [exact H1|rewrite F'; exact H2| |].
    * intros cb H. apply reg_ok_mono. exact (H3 cb H).
    * unfold body in *. simpl in *. destruct H4 as [A [B [C [D E]]]].
      repeat split; try assumption. apply E. reflexivity.
  - assert (F' : first_exit p (es ++ [EReg s l]) = first_exit p es) by (rewrite F; destruct (first_exit p es); reflexivity).
    destruct (Nat.eqb s sid) eqn:E; [|apply Inv_mono; assumption].
    apply Nat.eqb_eq in E. subst s.
    apply (Inv_reg sid p es c (EReg sid l) (set_cb (CbPlain l)) (CbPlain l) []); try assumption.
    + unfold set_cb. rewrite app_nil_r. reflexivity.
    + constructor.
    + exact I.
    + simpl. apply in_or_app. right. left. reflexivity.
  - assert (F' : first_exit p (es ++ [EWait s l re]) = first_exit p es) by (rewrite F; destruct (first_exit p es); reflexivity).
    destruct (Nat.eqb s sid) eqn:E; [|apply Inv_mono; assumption].
    apply Nat.eqb_eq in E. subst s.
    apply (Inv_reg sid p es c (EWait sid l re) (add_fut l re) (CbFut l (length (s_futs (c_sub c))) re) [(l, FPending)]); try assumption.
    + reflexivity.
    + constructor; [reflexivity|constructor].
    + unfold cb_valid, add_fut. simpl. rewrite nth_error_app2 by lia. rewrite Nat.sub_diag. reflexivity.
    + simpl. apply in_or_app. right. left. reflexivity.
  - assert (F' : first_exit p (es ++ [ELoop]) = first_exit p es) by (rewrite F; destruct (first_exit p es); reflexivity).
    destruct c as [s ph inw calls]. cbn [c_sub c_ph c_inw c_calls] in *.
    destruct ph as [|st'|st'|st']; try (apply Inv_mono; assumption).
    unfold body in H4. cbn [c_sub c_ph c_inw c_calls] in H4. destruct H4 as [A [B [C [D E]]]].
    unfold creport. cbn [c_sub c_ph c_inw c_calls].
    destruct (decode st') as [rc|] eqn:Dc.
    + destruct (s_cb s) as [cb|] eqn:Hcb; [|congruence].
      pose proof (H3 cb eq_refl) as Rk.
      destruct cb as [l|l i re]; simpl.
      * constructor; simpl; [exact H1|rewrite F'; exact H2|intros ? K; discriminate K|].
        unfold body. simpl. rewrite Dc. split; [reflexivity|]. exists (CbPlain l). rewrite B. simpl.
        split; [reflexivity|]. split; [exact (reg_ok_mono sid es ELoop (CbPlain l) Rk)|]. split; [exact I|apply all_pending_others; exact C].
      * unfold cb_valid in D. rewrite Hcb in D. rewrite D.
        constructor; simpl; [exact H1|rewrite F'; exact H2|intros ? K; discriminate K|].
        unfold body. simpl. rewrite Dc. split; [reflexivity|]. exists (CbFut l i re). rewrite B. simpl.
        split; [reflexivity|]. split; [exact (reg_ok_mono sid es ELoop (CbFut l i re) Rk)|]. split.
        -- apply nth_upd_same. exact (nth_error_lt _ _ _ D).
        -- intros j x Hj N. destruct (Nat.eq_dec i j) as [<-|NE]; [exists l, re; reflexivity|].
           rewrite nth_upd_other in Hj by exact NE. exfalso. apply N. apply nth_error_In in Hj.
           exact (proj1 (Forall_forall _ _) C x Hj).
    + constructor; simpl; [exact H1|rewrite F'; exact H2|intros cb H; apply reg_ok_mono; exact (H3 cb H)|].
      unfold body. simpl. rewrite Dc, B. repeat split; assumption.
Qed.

Lemma Inv_fold sid p r : forall es c, Inv sid p es c -> Inv sid p (es ++ r) (fold_left (cstep sid) r c).
Proof.
  induction r as [|e r IH]; intros es c H; simpl.
  - rewrite app_nil_r. exact H.
  - replace (es ++ e :: r) with ((es ++ [e]) ++ r) by (rewrite <- app_assoc; reflexivity).
    apply IH. apply Inv_step. exact H.
Qed.

Lemma Inv_track sid p r : Inv sid p r (fold_left (cstep sid) r (cinit p)).
Proof. exact (Inv_fold sid p r [] (cinit p) (Inv_init sid p)). Qed.

(* ---------- progress ---------- *)
Definition exited (st : Z) (c : cstate) : Prop :=
  c_ph c = PhZombie st \/ c_ph c = PhQueued st \/ c_ph c = PhReported st.
Definition reaped (st : Z) (c : cstate) : Prop := c_ph c = PhQueued st \/ c_ph c = PhReported st.
Definition reported (st : Z) (c : cstate) : Prop := c_ph c = PhReported st.
Definition registered (c : cstate) : Prop :=
  c_inw c = true \/ exists st, c_ph c = PhQueued st \/ c_ph c = PhReported st.

Lemma creport_ph' sid st c : c_ph (creport sid st c) = PhReported st.
Proof.
  unfold creport. destruct (decode st) as [rc|]; [|reflexivity].
  destruct (s_cb (c_sub c)) as [cb|]; [|reflexivity].
  destruct (invoke sid _ cb rc) as [s3 evs]. reflexivity.
Qed.
Lemma creport_inw sid st c : c_inw (creport sid st c) = c_inw c.
Proof.
  unfold creport. destruct (decode st) as [rc|]; [|reflexivity].
  destruct (s_cb (c_sub c)) as [cb|]; [|reflexivity].
  destruct (invoke sid _ cb rc) as [s3 evs]. reflexivity.
Qed.

(* what one event can do to the phase *)
Lemma cstep_phase sid c e :
  let c' := cstep sid c e in
  match c_ph c with
  | PhRun => c_ph c' = PhRun \/ exists st, c_ph c' = PhZombie st
  | PhZombie st => c_ph c' = PhZombie st \/ c_ph c' = PhQueued st
  | PhQueued st => c_ph c' = PhQueued st \/ c_ph c' = PhReported st
  | PhReported st => c_ph c' = PhReported st
  end.
Proof.
  destruct c as [s ph inw calls].
  destruct e as [q|q st0| |s0 l|s0 l re|]; simpl.
  - destruct ph; auto.
  - destruct (q =? s_pid s); destruct ph; simpl; eauto.
  - destruct inw; unfold ctry; simpl; destruct ph; simpl; auto. 
  - destruct (Nat.eqb s0 sid); unfold creg, ctry; simpl; destruct ph; simpl; auto.
  - destruct (Nat.eqb s0 sid); unfold creg, ctry; simpl; destruct ph; simpl; auto.
  - destruct ph; simpl; auto. right. apply creport_ph'.
Qed.

Lemma exited_step sid st c e : exited st c -> exited st (cstep sid c e).
Proof.
  unfold exited. pose proof (cstep_phase sid c e) as H. simpl in H.
  intros [E|[E|E]]; rewrite E in H; tauto.
Qed.
Lemma reaped_step sid st c e : reaped st c -> reaped st (cstep sid c e).
Proof.
  unfold reaped. pose proof (cstep_phase sid c e) as H. simpl in H.
  intros [E|E]; rewrite E in H; tauto.
Qed.
Lemma reported_step sid st c e : reported st c -> reported st (cstep sid c e).
Proof.
  unfold reported. pose proof (cstep_phase sid c e) as H. simpl in H.
  intros E; rewrite E in H; tauto.
Qed.

Lemma registered_step sid c e : registered c -> registered (cstep sid c e).
Proof.
  unfold registered. intros [H|[st H]].
  - destruct c as [s ph inw calls]. simpl in H. subst inw.
    destruct e as [q|q st0| |s0 l|s0 l re|]; simpl.
    + left; reflexivity.
    + destruct (q =? s_pid s); destruct ph; simpl; auto.
    + unfold ctry; simpl. destruct ph; simpl; eauto.
    + destruct (Nat.eqb s0 sid); unfold creg, ctry; simpl; destruct ph; simpl; eauto.
    + destruct (Nat.eqb s0 sid); unfold creg, ctry; simpl; destruct ph; simpl; eauto.
    + destruct ph; simpl; auto. right. exists st. right. apply creport_ph'.
  - right. exists st. pose proof (cstep_phase sid c e) as K. cbv zeta in K.
    destruct H as [H|H]; rewrite H in K; tauto.
Qed.

Lemma fold_stable (P : cstate -> Prop) sid :
  (forall c e, P c -> P (cstep sid c e)) -> forall r c, P c -> P (fold_left (cstep sid) r c).
Proof. intros S r. induction r as [|e r IH]; intros c H; simpl; [exact H|]. apply IH, S, H. Qed.

Lemma cstep_pid sid c e : s_pid (c_sub (cstep sid c e)) = s_pid (c_sub c).
Proof.
  destruct c as [s ph inw calls].
  destruct e as [q|q st0| |s0 l|s0 l re|]; simpl.
  - reflexivity.
  - destruct (q =? s_pid s); destruct ph; reflexivity.
  - destruct inw; unfold ctry; simpl; destruct ph; reflexivity.
  - destruct (Nat.eqb s0 sid); unfold creg, ctry; simpl; destruct ph; reflexivity.
  - destruct (Nat.eqb s0 sid); unfold creg, ctry; simpl; destruct ph; reflexivity.
  - destruct ph; try reflexivity. simpl. unfold creport. simpl.
    destruct (decode st) as [rc|]; [|reflexivity].
    destruct (s_cb s) as [cb|]; [|reflexivity].
    pose proof (invoke_pid sid (mkSub (s_pid s) None (Some rc) (s_futs s)) cb rc) as P.
    destruct (invoke sid _ cb rc) as [s3 evs]. exact P.
Qed.

(* the child's first exit is what the automaton remembers *)
Lemma fold_exited sid r : forall c st, first_exit (s_pid (c_sub c)) r = Some st -> c_ph c = PhRun ->
  exited st (fold_left (cstep sid) r c).
Proof.
  induction r as [|e r IH]; intros c st F P; [discriminate|].
  cbn [fold_left].
  destruct (match e with EExit q _ => q =? s_pid (c_sub c) | _ => false end) eqn:X.
  - destruct e as [q|q st0| |s0 l|s0 l re|]; try discriminate.
    cbn [first_exit] in F. rewrite X in F. injection F as ->.
    apply fold_stable; [apply exited_step|]. left. cbn [cstep]. rewrite X, P. reflexivity.
  - apply IH.
    + rewrite cstep_pid. destruct e as [q|q st0| |s0 l|s0 l re|]; cbn [first_exit] in F; try exact F.
      rewrite X in F. exact F.
    + destruct c as [s ph inw calls]. cbn [c_ph c_sub] in *. subst ph.
      destruct e as [q|q st0| |s0 l|s0 l re|]; cbn [cstep c_sub c_ph c_inw].
      * reflexivity.
      * rewrite X. reflexivity.
      * destruct inw; reflexivity.
      * destruct (Nat.eqb s0 sid); reflexivity.
      * destruct (Nat.eqb s0 sid); reflexivity.
      * reflexivity.
Qed.

Lemma reg_registers sid c e : is_reg_of sid e -> registered (cstep sid c e).
Proof.
  unfold is_reg_of, registered. destruct c as [s ph inw calls].
  destruct e as [q|q st0| |s0 l|s0 l re|]; simpl; try tauto.
  - destruct (Nat.eqb s0 sid); [|tauto]. intros _. unfold creg, ctry. simpl. destruct ph; simpl; eauto.
  - destruct (Nat.eqb s0 sid); [|tauto]. intros _. unfold creg, ctry. simpl. destruct ph; simpl; eauto.
Qed.

Lemma fold_registered sid r c : (exists e, In e r /\ is_reg_of sid e) -> registered (fold_left (cstep sid) r c).
Proof.
  intros [e [H K]]. apply in_split in H as [r1 [r2 ->]]. rewrite fold_left_app. simpl.
  apply fold_stable; [apply registered_step|]. apply reg_registers. exact K.
Qed.

(* a registration finds the zombie at once; a SIGCHLD finds it if the object is registered *)
Lemma reg_reaps sid st c e : exited st c -> is_reg_of sid e -> reaped st (cstep sid c e).
Proof.
  unfold exited, reaped, is_reg_of. destruct c as [s ph inw calls]. simpl.
  intros X. destruct e as [q|q st0| |s0 l|s0 l re|]; simpl; try tauto.
  - destruct (Nat.eqb s0 sid); [|tauto]. intros _. unfold creg, ctry. simpl.
    destruct X as [ -> | [ -> | -> ] ]; simpl; auto.
  - destruct (Nat.eqb s0 sid); [|tauto]. intros _. unfold creg, ctry. simpl.
    destruct X as [ -> | [ -> | -> ] ]; simpl; auto.
Qed.

Lemma sigchld_reaps sid st c : exited st c -> registered c -> reaped st (cstep sid c ESigchld).
Proof.
  unfold exited, reaped, registered. destruct c as [s ph inw calls]. simpl.
  intros X Y. destruct inw; unfold ctry; simpl.
  - destruct X as [ -> | [ -> | -> ] ]; simpl; auto.
  - destruct Y as [Y|[st' Y]]; [discriminate|].
    destruct X as [ -> | [ -> | -> ] ]; auto. destruct Y; discriminate.
Qed.

Lemma loop_reports sid st c : reaped st c -> reported st (cstep sid c ELoop).
Proof.
  unfold reaped, reported. destruct c as [s ph inw calls]. simpl.
  intros [ -> | -> ]; simpl; [apply creport_ph'|reflexivity].
Qed.

Lemma fold_with (P Q : cstate -> Prop) sid (e0 : event) r c :
  (forall c e, Q c -> Q (cstep sid c e)) ->
  (forall c, P c -> Q (cstep sid c e0)) ->
  (forall c e, P c -> P (cstep sid c e)) ->
  In e0 r -> P c -> Q (fold_left (cstep sid) r c).
Proof.
  intros SQ PQ SP H Pc. apply in_split in H as [r1 [r2 ->]]. rewrite fold_left_app. simpl.
  apply fold_stable; [exact SQ|]. apply PQ. apply fold_stable; [exact SP|exact Pc].
Qed.

(* (A) registration and exit in either order, then a SIGCHLD, then a loop turn *)
Theorem spec_reported_A sid p r1 r2 r3 r4 st :
  first_exit p r1 = Some st -> (exists e, In e r1 /\ is_reg_of sid e) -> In ESigchld r2 -> In ELoop r3 ->
  reported st (fold_left (cstep sid) (r1 ++ r2 ++ r3 ++ r4) (cinit p)).
Proof.
  intros F Rg S L. rewrite !fold_left_app.
  apply fold_stable; [apply reported_step|].
  apply (fold_with (reaped st) (reported st) sid ELoop); try exact L.
  - apply reported_step.
  - apply loop_reports.
  - apply reaped_step.
  - apply (fold_with (fun c => exited st c /\ registered c) (reaped st) sid ESigchld); try exact S.
    + apply reaped_step.
    + intros c [A B]. apply sigchld_reaps; assumption.
    + intros c e [A B]. split; [apply exited_step|apply registered_step]; assumption.
    + split; [apply fold_exited; [exact F|reflexivity]|apply fold_registered; exact Rg].
Qed.

(* (B) the child is already dead when the object is registered: no SIGCHLD is needed *)
Theorem spec_reported_B sid p r1 r2 r3 r4 st :
  first_exit p r1 = Some st -> (exists e, In e r2 /\ is_reg_of sid e) -> In ELoop r3 ->
  reported st (fold_left (cstep sid) (r1 ++ r2 ++ r3 ++ r4) (cinit p)).
Proof.
  intros F [e0 [Rg K]] L. rewrite !fold_left_app.
  apply fold_stable; [apply reported_step|].
  apply (fold_with (reaped st) (reported st) sid ELoop); try exact L.
  - apply reported_step.
  - apply loop_reports.
  - apply reaped_step.
  - apply (fold_with (exited st) (reaped st) sid e0); try exact Rg.
    + apply reaped_step.
    + intros c A. apply reg_reaps; assumption.
    + apply exited_step.
    + apply fold_exited; [exact F|reflexivity].
Qed.
