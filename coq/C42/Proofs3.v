(* C42 — projection: every Subprocess object of the shared world behaves as the one-child automaton. *)
From Coq Require Import List ZArith Bool Arith Lia.
Import ListNotations.
From TV Require Import C42.Model C42.Spec C42.Proofs2.
Local Open Scope Z_scope.

Record Rcore (w : world) (sid : nat) (c : cstate) : Prop := mkR {
  r_sub : nth_error (w_subs w) sid = Some (c_sub c);
  r_kern : a_find (s_pid (c_sub c)) (w_kern w) = Some (kst_of (c_ph c));
  r_wait : a_find (s_pid (c_sub c)) (w_waiting w) = if c_inw c then Some sid else None;
  r_calls : calls_of sid (w_log w) = c_calls c;
  r_init : c_inw c = true -> w_init w = true
}.
Definition R (w : world) (sid : nat) (c : cstate) : Prop :=
  Rcore w sid c /\ qstat sid (w_queue w) = q_of (c_ph c).

Definition probe_ok (c : cstate) : Prop := c_inw c = true \/ forall st, c_ph c <> PhZombie st.

Lemma ctry_sub c : c_sub (ctry c) = c_sub c.
Proof. unfold ctry. destruct (c_ph c); try reflexivity. destruct (c_inw c); reflexivity. Qed.
Lemma ctry_idem c : ctry (ctry c) = ctry c.
Proof. unfold ctry. destruct c as [s [|st|st|st] [|] l]; reflexivity. Qed.
Lemma ctry_probe_ok c : probe_ok c -> probe_ok (ctry c).
Proof.
  unfold probe_ok, ctry. destruct c as [s [|st|st|st] [|] l]; simpl; intros [H|H];
    try discriminate; try (left; reflexivity); try (right; intros st'; discriminate).
  exfalso. exact (H st eq_refl).
Qed.

(* ---------- _try_cleanup_process on the object's own pid / on another pid ---------- *)
Lemma try_self w sid c : R w sid c -> probe_ok c -> R (try_cleanup w (s_pid (c_sub c))) sid (ctry c).
Proof.
  intros [[Hs Hk Hw Hc Hi] Hq] P. unfold try_cleanup, ctry. rewrite Hk.
  destruct (c_ph c) as [|st|st|st] eqn:E; simpl; try (split; [constructor|]; rewrite ?E; assumption).
  destruct P as [P|P]; [|exfalso; exact (P _ E)].
  rewrite P in Hw |- *. rewrite Hw. split; [constructor|]; simpl.
  - exact Hs.
  - apply a_find_set_same.
  - apply a_find_remove_same.
  - exact Hc.
  - discriminate.
  - rewrite qstat_app, Hq. unfold qstat. simpl. rewrite Nat.eqb_refl. reflexivity.
Qed.

Lemma try_other w sid c q : G w -> R w sid c -> q <> s_pid (c_sub c) -> R (try_cleanup w q) sid c.
Proof.
  intros Gw [[Hs Hk Hw Hc Hi] Hq] N. unfold try_cleanup.
  destruct (a_find q (w_kern w)) as [[|st|st]|] eqn:K; try (split; [constructor|]; assumption).
  destruct (a_find q (w_waiting w)) as [s'|] eqn:W; (split; [constructor|]); simpl; try assumption.
  - rewrite a_find_set_other by exact N. exact Hk.
  - rewrite a_find_remove_other by exact N. exact Hw.
  - rewrite qstat_app, Hq. unfold qstat. simpl.
    destruct (Nat.eqb s' sid) eqn:E; [|apply app_nil_r].
    apply Nat.eqb_eq in E. subst s'. apply a_find_in in W. destruct (g_wait w Gw q sid W) as [sb [H1 H2]].
    rewrite Hs in H1. injection H1 as <-. congruence.
  - rewrite a_find_set_other by exact N. exact Hk.
  - rewrite calls_app, Hc. simpl. apply app_nil_r.
Qed.

Lemma cleanup_fold sid ps : forall w c, G w -> R w sid c -> (In (s_pid (c_sub c)) ps -> probe_ok c) ->
  R (fold_left try_cleanup ps w) sid (if zmem (s_pid (c_sub c)) ps then ctry c else c).
Proof.
  induction ps as [|q ps IH]; intros w c Gw Rw P; simpl; [exact Rw|].
  destruct (Z.eq_dec (s_pid (c_sub c)) q) as [<-|N].
  - rewrite Z.eqb_refl. simpl.
    assert (Pc : probe_ok c) by (apply P; left; reflexivity).
    specialize (IH (try_cleanup w (s_pid (c_sub c))) (ctry c) (try_G _ _ Gw) (try_self w sid c Rw Pc)
                   (fun _ => ctry_probe_ok c Pc)).
    rewrite ctry_sub, ctry_idem in IH. destruct (zmem (s_pid (c_sub c)) ps); exact IH.
  - assert (E : (s_pid (c_sub c) =? q) = false) by (apply Z.eqb_neq; exact N). rewrite E. simpl.
    apply IH; [apply try_G; exact Gw|apply try_other; [exact Gw|exact Rw|congruence]|].
    intros H. apply P. right; exact H.
Qed.

Lemma sigchld_R w sid c : G w -> R w sid c ->
  R (if w_init w then cleanup w else w) sid (if c_inw c then ctry c else c).
Proof.
  intros Gw Rw. pose proof Rw as [[Hs Hk Hw Hc Hi] Hq].
  destruct (w_init w) eqn:I.
  - unfold cleanup.
    assert (Hin : In (s_pid (c_sub c)) (map fst (w_waiting w)) <-> c_inw c = true).
    { destruct (c_inw c) eqn:E.
      - split; [reflexivity|]. intros _. apply a_find_in in Hw. apply (in_map fst) in Hw. exact Hw.
      - apply a_find_none_keys in Hw. split; [contradiction|discriminate]. }
    pose proof (cleanup_fold sid (map fst (w_waiting w)) w c Gw Rw (fun H => or_introl (proj1 Hin H))) as F.
    destruct (c_inw c) eqn:E.
    + assert (Z : zmem (s_pid (c_sub c)) (map fst (w_waiting w)) = true) by (apply zmem_in, Hin; reflexivity).
      rewrite Z in F. exact F.
    + destruct (zmem (s_pid (c_sub c)) (map fst (w_waiting w))) eqn:Z; [|exact F].
      apply zmem_in, Hin in Z. discriminate.
  - destruct (c_inw c) eqn:E; [|exact Rw]. specialize (Hi eq_refl). congruence.
Qed.

(* ---------- set_exit_callback / wait_for_exit ---------- *)
Lemma reg_self w sid c mk : keeps_pid mk -> R w sid c -> R (register w sid mk) sid (creg mk c).
Proof.
  intros K Rw. pose proof Rw as [[Hs Hk Hw Hc Hi] Hq].
  rewrite (register_eq w sid mk (c_sub c) K Hs). unfold creg.
  set (c1 := mkC (mk (c_sub c)) (c_ph c) true (c_calls c)).
  assert (E : s_pid (c_sub c) = s_pid (c_sub c1)) by (symmetry; apply K). rewrite E.
  apply try_self; [|left; reflexivity].
  split; [constructor|]; simpl.
  - apply nth_upd_same. exact (nth_error_lt _ _ _ Hs).
  - rewrite K. exact Hk.
  - apply a_find_set_same.
  - exact Hc.
  - reflexivity.
  - exact Hq.
Qed.

Lemma reg_other w sid sid' c mk : keeps_pid mk -> G w -> R w sid c -> sid' <> sid -> R (register w sid' mk) sid c.
Proof.
  intros K Gw Rw N. pose proof Rw as [[Hs Hk Hw Hc Hi] Hq].
  destruct (nth_error (w_subs w) sid') as [s'|] eqn:Hs'; [|unfold register; rewrite Hs'; exact Rw].
  rewrite (register_eq w sid' mk s' K Hs').
  assert (NP : s_pid s' <> s_pid (c_sub c)).
  { intros E. apply N. exact (nodup_map_nth s_pid _ _ _ _ _ (g_pids w Gw) Hs' Hs E). }
  apply try_other; [apply (reg_mid_G w sid' s'); [exact Gw|exact Hs'|apply K]| |exact NP].
  split; [constructor|]; simpl.
  - rewrite nth_upd_other by exact N. exact Hs.
  - exact Hk.
  - rewrite K, a_find_set_other by exact NP. exact Hw.
  - exact Hc.
  - reflexivity.
  - exact Hq.
Qed.

(* ---------- the IOLoop turn ---------- *)
Lemma setrc_other w sid c s' st : Rcore w sid c -> s' <> sid -> Rcore (set_rc w (s', st)) sid c.
Proof.
  intros [Hs Hk Hw Hc Hi] N. unfold set_rc.
  destruct (nth_error (w_subs w) s') as [s|] eqn:Hs'.
  2:{ constructor; simpl; try assumption. rewrite calls_app, Hc. simpl.
      assert (Nat.eqb s' sid = false) as -> by (apply Nat.eqb_neq; exact N). apply app_nil_r. }
  destruct (decode st) as [rc|].
  2:{ constructor; simpl; try assumption. rewrite calls_app, Hc. simpl.
      assert (Nat.eqb s' sid = false) as -> by (apply Nat.eqb_neq; exact N). apply app_nil_r. }
  destruct (s_cb s) as [cb|].
  - pose proof (invoke_calls_other sid s' (mkSub (s_pid s) None (Some rc) (s_futs s)) cb rc N) as Q.
    destruct (invoke s' _ cb rc) as [s3 evs]. simpl in Q.
    constructor; simpl; try assumption.
    + rewrite nth_upd_other by exact N. exact Hs.
    + rewrite calls_app, Hc, Q. apply app_nil_r.
  - constructor; simpl; try assumption. rewrite nth_upd_other by exact N. exact Hs.
Qed.

Lemma creport_sub_pid sid st c : s_pid (c_sub (creport sid st c)) = s_pid (c_sub c).
Proof.
  unfold creport. destruct (decode st) as [rc|]; [|reflexivity].
  destruct (s_cb (c_sub c)) as [cb|]; [|reflexivity].
  pose proof (invoke_pid sid (mkSub (s_pid (c_sub c)) None (Some rc) (s_futs (c_sub c))) cb rc) as P.
  destruct (invoke sid _ cb rc) as [s3 evs]. exact P.
Qed.

Lemma setrc_self w sid c st : Rcore w sid c -> c_ph c = PhQueued st ->
  Rcore (set_rc w (sid, st)) sid (creport sid st c).
Proof.
  intros [Hs Hk Hw Hc Hi] E. pose proof (creport_sub_pid sid st c) as PP.
  unfold set_rc, creport in *. rewrite Hs. rewrite E in Hk. simpl in Hk.
  assert (L := nth_error_lt _ _ _ Hs).
  destruct (decode st) as [rc|].
  - destruct (s_cb (c_sub c)) as [cb|] eqn:Hcb.
    + pose proof (invoke_calls_self sid (mkSub (s_pid (c_sub c)) None (Some rc) (s_futs (c_sub c))) cb rc) as Q.
      destruct (invoke sid _ cb rc) as [s3 evs]. simpl in Q, PP.
      constructor; simpl; rewrite ?PP; try assumption.
      * apply nth_upd_same. exact L.
      * rewrite calls_app, Hc, Q. reflexivity.
    + constructor; simpl; try assumption. apply nth_upd_same. exact L.
  - constructor; simpl; try assumption.
    rewrite calls_app, Hc. simpl. rewrite Nat.eqb_refl. reflexivity.
Qed.

Definition cloop (sid : nat) (c : cstate) : cstate :=
  match c_ph c with PhQueued st => creport sid st c | _ => c end.

Lemma creport_ph sid st c : c_ph (creport sid st c) = PhReported st.
Proof.
  unfold creport. destruct (decode st) as [rc|]; [|reflexivity].
  destruct (s_cb (c_sub c)) as [cb|]; [|reflexivity].
  destruct (invoke sid _ cb rc) as [s3 evs]. reflexivity.
Qed.

Lemma loop_fold sid q : forall w c, G w -> Rcore w sid c ->
  (forall s st, In (s, st) q -> (s < length (w_subs w))%nat) ->
  qstat sid q = q_of (c_ph c) ->
  G (fold_left set_rc q w) /\ Rcore (fold_left set_rc q w) sid (cloop sid c) /\
  w_queue (fold_left set_rc q w) = w_queue w /\ length (w_subs (fold_left set_rc q w)) = length (w_subs w).
Proof.
  induction q as [|[s' st'] q IH]; intros w c Gw Rw V Q; simpl.
  - split; [exact Gw|]. split; [|split; reflexivity]. unfold cloop. destruct (c_ph c); try exact Rw. discriminate Q.
  - assert (L : (s' < length (w_subs w))%nat) by (apply (V s' st'); left; reflexivity).
    assert (V' : forall s st, In (s, st) q -> (s < length (w_subs (set_rc w (s', st'))))%nat).
    { intros s st H. rewrite set_rc_len. apply (V s st). right; exact H. }
    assert (G' := set_rc_G w s' st' Gw L).
    unfold qstat in Q. simpl in Q. destruct (Nat.eqb s' sid) eqn:E.
    + apply Nat.eqb_eq in E. subst s'. simpl in Q.
      destruct (c_ph c) as [|st|st|st] eqn:P; simpl in Q; try discriminate.
      injection Q as -> Q.
      destruct (IH (set_rc w (sid, st)) (creport sid st c) G' (setrc_self w sid c st Rw P) V') as [A [B [C D]]].
      { rewrite creport_ph. exact Q. }
      split; [exact A|]. split; [|split; [exact (eq_trans C (set_rc_queue _ _))|exact (eq_trans D (set_rc_len _ _))]].
      unfold cloop in B |- *. rewrite creport_ph in B. rewrite P. exact B.
    + apply Nat.eqb_neq in E.
      destruct (IH (set_rc w (s', st')) c G' (setrc_other w sid c s' st' Rw E) V' Q) as [A [B [C D]]].
      split; [exact A|]. split; [exact B|]. split; [exact (eq_trans C (set_rc_queue _ _))|exact (eq_trans D (set_rc_len _ _))].
Qed.

Lemma run_loop_G w : G w -> G (run_loop w) /\ length (w_subs (run_loop w)) = length (w_subs w).
Proof.
  intros Gw. unfold run_loop.
  set (w1 := mkW (w_kern w) (w_subs w) (w_waiting w) [] (w_init w) (w_log w)).
  assert (G1 : G w1) by (destruct Gw; constructor; simpl; auto; intros s st []).
  revert G1. generalize (g_queue w Gw). change (w_subs w) with (w_subs w1). generalize w1.
  induction (w_queue w) as [|[s st] q IH]; intros w2 V G2; simpl; [split; [exact G2|reflexivity]|].
  assert (L : (s < length (w_subs w2))%nat) by (apply (V s st); left; reflexivity).
  destruct (IH (set_rc w2 (s, st))) as [A B].
  - intros s' st' H. rewrite set_rc_len. apply (V s' st'). right; exact H.
  - apply set_rc_G; assumption.
  - split; [exact A|]. exact (eq_trans B (set_rc_len _ _)).
Qed.

Lemma run_loop_R w sid c : G w -> R w sid c -> R (run_loop w) sid (cloop sid c).
Proof.
  intros Gw [Rw Q]. unfold run_loop.
  set (w1 := mkW (w_kern w) (w_subs w) (w_waiting w) [] (w_init w) (w_log w)).
  assert (G1 : G w1) by (destruct Gw; constructor; simpl; auto; intros s st []).
  assert (R1 : Rcore w1 sid c) by (destruct Rw; constructor; assumption).
  destruct (loop_fold sid (w_queue w) w1 c G1 R1 (g_queue w Gw) Q) as [A [B [C D]]].
  split; [exact B|]. rewrite C. simpl. unfold cloop.
  destruct (c_ph c) eqn:P; try (rewrite P; reflexivity). rewrite creport_ph. reflexivity.
Qed.

(* ---------- one event ---------- *)
Lemma cleanup_G w : G w -> G (cleanup w).
Proof. apply fold_try_G. Qed.

Lemma step_len w e : length (w_subs (step w e)) = (length (w_subs w) + (if is_spawn e then 1 else 0))%nat.
Proof.
  destruct e as [p|p st| |s l|s l re|]; simpl.
  - rewrite app_length. reflexivity.
  - destruct (a_find p (w_kern w)) as [[]|]; simpl; lia.
  - destruct (w_init w); [unfold cleanup; rewrite fold_try_subs|]; lia.
  - rewrite register_len. lia.
  - rewrite register_len. lia.
  - pose proof (run_loop_len_aux := I). unfold run_loop.
    assert (H : forall q w1, length (w_subs (fold_left set_rc q w1)) = length (w_subs w1)).
    { induction q as [|x q IH]; intros w1; simpl; [reflexivity|]. rewrite IH. apply set_rc_len. }
    rewrite H. simpl. lia.
Qed.

Lemma NoDup_app_snoc {A} (l : list A) x : NoDup l -> ~ In x l -> NoDup (l ++ [x]).
Proof.
  induction l as [|a l IH]; intros ND N; simpl.
  - constructor; [intros []|constructor].
  - inversion ND as [|? ? H1 H2]; subst. constructor.
    + intros K. apply in_app_or in K as [K|[K|[]]]; [contradiction|]. apply N. left; symmetry; exact K.
    + apply IH; [exact H2|]. intros K. apply N. right; exact K.
Qed.

Definition fresh (w : world) (e : event) : Prop :=
  match e with ESpawn p => ~ In p (map s_pid (w_subs w)) | _ => True end.

Lemma step_G w e : G w -> fresh w e -> G (step w e).
Proof.
  intros Gw F. destruct e as [p|p st| |s l|s l re|]; simpl.
  - simpl in F. constructor; simpl.
    + intros q x H. destruct (g_wait w Gw q x H) as [sb [H1 H2]]. exists sb. split; [|exact H2].
      rewrite nth_error_app1 by exact (nth_error_lt _ _ _ H1). exact H1.
    + rewrite map_app. simpl. apply NoDup_app_snoc; [exact (g_pids w Gw)|exact F].
    + intros x st H. rewrite app_length. pose proof (g_queue w Gw x st H). lia.
    + intros e H. apply (log_ok_mono (length (w_subs w))); [rewrite app_length; lia|exact (g_log w Gw e H)].
    + intros q k H. rewrite map_app. apply in_or_app. destruct (Z.eq_dec p q) as [<-|N]; [right; left; reflexivity|].
      rewrite a_find_set_other in H by exact N. left. exact (g_kern w Gw q k H).
  - destruct (a_find p (w_kern w)) as [[|st'|st']|] eqn:K; try exact Gw.
    destruct Gw as [a b c d e]. constructor; simpl; auto.
    intros q k H. destruct (Z.eq_dec p q) as [<-|N]; [exact (e p _ K)|].
    rewrite a_find_set_other in H by exact N. exact (e q k H).
  - destruct (w_init w); [apply cleanup_G|]; exact Gw.
  - apply register_G; [apply set_cb_keeps|exact Gw].
  - apply register_G; [apply add_fut_keeps|exact Gw].
  - apply run_loop_G. exact Gw.
Qed.
