(* C42 — projection: every Subprocess object of the shared world behaves as the one-child automaton. *)
From Coq Require Import List ZArith Bool Arith Lia.
Import ListNotations.
From TV Require Import C42.Model C42.Spec C42.Proofs2.
Local Open Scope Z_scope.

Record Rcore (w : world) (sid : nat) (c : cstate) : Prop := mkR {
  r_sub : nth_error (w_subs w) sid = Some (c_sub c);
  r_kern : a_find (s_pid (c_sub c)) (w_kern w) = Some (kst_of (c_ph c));
  r_wait : a_find (s_pid (c_sub c)) (w_waiting w) = if c_inw c then Some sid else None;
  r_calls : calls_of sid (w_log w) = c_calls c
}.
Definition R (w : world) (sid : nat) (c : cstate) : Prop :=
  Rcore w sid c /\ qfilter sid (w_queue w) = q_of sid c.

(* structural invariant of the one-child automaton: before the report there is no returncode and no late call *)
Definition cwf (c : cstate) : Prop :=
  match c_ph c with
  | PhReported _ => True
  | _ => s_rc (c_sub c) = None /\ c_late c = []
  end.

Definition probe_ok (c : cstate) : Prop := c_inw c = true \/ forall st, c_ph c <> PhZombie st.

Lemma ctry_sub c : c_sub (ctry c) = c_sub c.
Proof. unfold ctry. destruct (c_ph c); try reflexivity. destruct (c_inw c); reflexivity. Qed.
Lemma ctry_idem c : ctry (ctry c) = ctry c.
Proof. unfold ctry. destruct c as [s [|st|st|st] [|] l lt]; reflexivity. Qed.
Lemma ctry_probe_ok c : probe_ok c -> probe_ok (ctry c).
Proof.
  unfold probe_ok, ctry. destruct c as [s [|st|st|st] [|] l lt]; simpl; intros [H|H];
    try discriminate; try (left; reflexivity); try (right; intros st'; discriminate).
  exfalso. exact (H st eq_refl).
Qed.
Lemma ctry_cwf c : cwf c -> cwf (ctry c).
Proof. unfold cwf, ctry. destruct c as [s [|st|st|st] [|] l lt]; simpl; auto. Qed.

Lemma run_lates_pid sid l : forall s calls, s_pid (fst (run_lates sid s calls l)) = s_pid s.
Proof.
  induction l as [|[cb rc] l IH]; intros s calls; simpl; [reflexivity|].
  pose proof (invoke_pid sid s cb rc) as P. destruct (invoke sid s cb rc) as [s3 evs]. simpl in P.
  rewrite IH. exact P.
Qed.

Lemma crun_late_ph sid c : c_ph (crun_late sid c) = c_ph c /\ c_late (crun_late sid c) = [] /\ c_inw (crun_late sid c) = c_inw c.
Proof. unfold crun_late. destruct (run_lates sid (c_sub c) (c_calls c) (c_late c)). repeat split. Qed.

Lemma creport_ph sid st c : c_ph (creport sid st c) = PhReported st /\ c_late (creport sid st c) = c_late c /\ c_inw (creport sid st c) = c_inw c.
Proof.
  unfold creport. destruct (decode st) as [rc|]; [|repeat split].
  destruct (s_cb (c_sub c)) as [cb|]; [|repeat split].
  destruct (invoke sid _ cb rc) as [s3 evs]. repeat split.
Qed.

Lemma cstep_cwf sid h c e : cwf c -> cwf (cstep sid h c e).
Proof.
  intros W. destruct e as [q|q st| |s l|s l re| | |]; cbn [cstep].
  - exact W.
  - destruct (q =? s_pid (c_sub c)); [|exact W]. unfold cwf in *. destruct c as [sb [|st'|st'|st'] inw calls lt]; simpl in *; auto.
  - destruct (h && c_inw c); [apply ctry_cwf|]; exact W.
  - destruct (Nat.eqb s sid); [|exact W]. unfold creg. destruct (s_rc (c_sub c)) eqn:Rc.
    + unfold cwf in *. simpl. destruct (c_ph c); try exact I; destruct W; congruence.
    + apply ctry_cwf. unfold cwf in *. simpl. destruct (c_ph c); try exact I; (split; [exact Rc|apply W]).
  - destruct (Nat.eqb s sid); [|exact W]. unfold creg. destruct (s_rc (c_sub c)) eqn:Rc.
    + unfold cwf in *. simpl. destruct (c_ph c); try exact I; destruct W; congruence.
    + apply ctry_cwf. unfold cwf in *. simpl. destruct (c_ph c); try exact I; (split; [exact Rc|apply W]).
  - unfold cloop. destruct (c_ph c) as [|st|st|st] eqn:P.
    + unfold cwf in *. rewrite P in W. destruct W as [W1 W2].
      unfold crun_late. rewrite W2. simpl. rewrite P. split; [exact W1|reflexivity].
    + unfold cwf in *. rewrite P in W. destruct W as [W1 W2].
      unfold crun_late. rewrite W2. simpl. rewrite P. split; [exact W1|reflexivity].
    + unfold cwf. destruct (crun_late_ph sid (creport sid st c)) as [A _]. rewrite A.
      destruct (creport_ph sid st c) as [B _]. rewrite B. exact I.
    + unfold cwf. destruct (crun_late_ph sid c) as [A _]. rewrite A, P. exact I.
  - exact W.
  - exact W.
Qed.

Lemma fold_cwf sid r : forall w c, cwf c -> cwf (trk sid w r c).
Proof.
  unfold trk. induction r as [|e r IH]; intros w c W; simpl; [exact W|].
  apply (IH (step w e)). apply cstep_cwf, W.
Qed.

Lemma cinit_cwf p : cwf (cinit p).
Proof. split; reflexivity. Qed.

(* ---------- _try_cleanup_process on the object's own pid / on another pid ---------- *)
Lemma try_self w sid c : R w sid c -> cwf c -> probe_ok c -> R (try_cleanup w (s_pid (c_sub c))) sid (ctry c).
Proof.
  intros Rw Wf P. pose proof Rw as [[Hs Hk Hw Hc] Hq]. unfold try_cleanup, ctry. rewrite Hk.
  destruct (c_ph c) as [|st|st|st] eqn:E; simpl; try exact Rw.
  destruct P as [P|P]; [|exfalso; exact (P _ E)].
  unfold cwf in Wf. rewrite E in Wf. destruct Wf as [_ Wl].
  rewrite P in Hw |- *. rewrite Hw. split; [constructor|]; simpl.
  - exact Hs.
  - apply a_find_set_same.
  - apply a_find_remove_same.
  - exact Hc.
  - rewrite qfilter_app, Hq. unfold q_of, qfilter. simpl. rewrite E, Wl, Nat.eqb_refl. reflexivity.
Qed.

Lemma try_other w sid c q : G w -> R w sid c -> q <> s_pid (c_sub c) -> R (try_cleanup w q) sid c.
Proof.
  intros Gw [[Hs Hk Hw Hc] Hq] N. unfold try_cleanup.
  destruct (a_find q (w_kern w)) as [[|st|st]|] eqn:K; try (split; [constructor|]; assumption).
  destruct (a_find q (w_waiting w)) as [s'|] eqn:W; (split; [constructor|]); simpl; try assumption.
  - rewrite a_find_set_other by exact N. exact Hk.
  - rewrite a_find_remove_other by exact N. exact Hw.
  - rewrite qfilter_app, Hq. unfold qfilter at 1. simpl.
    destruct (Nat.eqb s' sid) eqn:E; [|apply app_nil_r].
    apply Nat.eqb_eq in E. subst s'. apply a_find_in in W. destruct (g_wait w Gw q sid W) as [sb [H1 H2]].
    rewrite Hs in H1. injection H1 as <-. congruence.
  - rewrite a_find_set_other by exact N. exact Hk.
  - rewrite calls_app, Hc. simpl. apply app_nil_r.
Qed.

Lemma cleanup_fold sid ps : forall w c, G w -> R w sid c -> cwf c -> (In (s_pid (c_sub c)) ps -> probe_ok c) ->
  R (fold_left try_cleanup ps w) sid (if zmem (s_pid (c_sub c)) ps then ctry c else c).
Proof.
  induction ps as [|q ps IH]; intros w c Gw Rw Wf P; simpl; [exact Rw|].
  destruct (Z.eq_dec (s_pid (c_sub c)) q) as [<-|N].
  - rewrite Z.eqb_refl. simpl.
    assert (Pc : probe_ok c) by (apply P; left; reflexivity).
    specialize (IH (try_cleanup w (s_pid (c_sub c))) (ctry c) (try_G _ _ Gw) (try_self w sid c Rw Wf Pc)
                   (ctry_cwf c Wf) (fun _ => ctry_probe_ok c Pc)).
    rewrite ctry_sub, ctry_idem in IH. destruct (zmem (s_pid (c_sub c)) ps); exact IH.
  - assert (E : (s_pid (c_sub c) =? q) = false) by (apply Z.eqb_neq; exact N). rewrite E. simpl.
    apply IH; [apply try_G; exact Gw|apply try_other; [exact Gw|exact Rw|congruence]|exact Wf|].
    intros H. apply P. right; exact H.
Qed.

Lemma sigchld_R w sid c : G w -> R w sid c -> cwf c ->
  R (if w_init w then cleanup w else w) sid (if w_init w && c_inw c then ctry c else c).
Proof.
  intros Gw Rw Wf. pose proof Rw as [[Hs Hk Hw Hc] Hq].
  destruct (w_init w) eqn:I; [|exact Rw]. simpl.
  unfold cleanup.
  assert (Hin : In (s_pid (c_sub c)) (map fst (w_waiting w)) <-> c_inw c = true).
  { destruct (c_inw c) eqn:E.
    - split; [reflexivity|]. intros _. apply a_find_in in Hw. apply (in_map fst) in Hw. exact Hw.
    - apply a_find_none_keys in Hw. split; [contradiction|discriminate]. }
  pose proof (cleanup_fold sid (map fst (w_waiting w)) w c Gw Rw Wf (fun H => or_introl (proj1 Hin H))) as F.
  destruct (c_inw c) eqn:E.
  - assert (Z : zmem (s_pid (c_sub c)) (map fst (w_waiting w)) = true) by (apply zmem_in, Hin; reflexivity).
    rewrite Z in F. exact F.
  - destruct (zmem (s_pid (c_sub c)) (map fst (w_waiting w))) eqn:Z; [|exact F].
    apply zmem_in, Hin in Z. discriminate.
Qed.

(* ---------- set_exit_callback / wait_for_exit ---------- *)
Lemma reg_self w sid c prep cbof : good_prep prep -> R w sid c -> cwf c ->
  R (register w sid prep cbof) sid (creg prep cbof c).
Proof.
  intros K Rw Wf. pose proof Rw as [[Hs Hk Hw Hc] Hq].
  destruct (K (c_sub c)) as [Kp [Kc Kr]]. unfold creg.
  destruct (s_rc (c_sub c)) as [rc|] eqn:Rc.
  - rewrite (register_late_eq w sid prep cbof (c_sub c) rc Hs Rc). unfold reg_late.
    split; [constructor|]; simpl; rewrite ?Kp; try assumption.
    + apply nth_upd_same. exact (nth_error_lt _ _ _ Hs).
    + rewrite qfilter_app, Hq. unfold q_of, qfilter. simpl. rewrite Nat.eqb_refl, map_app, app_assoc. reflexivity.
  - rewrite (register_eq w sid prep cbof (c_sub c) K Hs Rc).
    set (c1 := mkC (set_cb (cbof (c_sub c)) (prep (c_sub c))) (c_ph c) true (c_calls c) (c_late c)).
    assert (E : s_pid (c_sub c) = s_pid (c_sub c1)) by (symmetry; exact Kp). rewrite E.
    apply try_self; [| |left; reflexivity].
    + split; [constructor|]; simpl.
      * apply nth_upd_same. exact (nth_error_lt _ _ _ Hs).
      * rewrite Kp. exact Hk.
      * apply a_find_set_same.
      * exact Hc.
      * exact Hq.
    + unfold cwf in *. simpl. destruct (c_ph c); try exact I; (split; [congruence|apply Wf]).
Qed.

Lemma reg_other w sid sid' c prep cbof : good_prep prep -> G w -> R w sid c -> sid' <> sid ->
  R (register w sid' prep cbof) sid c.
Proof.
  intros K Gw Rw N. pose proof Rw as [[Hs Hk Hw Hc] Hq].
  destruct (nth_error (w_subs w) sid') as [s'|] eqn:Hs'; [|unfold register; rewrite Hs'; exact Rw].
  destruct (K s') as [Kp [Kc Kr]].
  destruct (s_rc s') as [rc|] eqn:Rc.
  - rewrite (register_late_eq w sid' prep cbof s' rc Hs' Rc). unfold reg_late.
    split; [constructor|]; simpl; try assumption.
    + rewrite nth_upd_other by exact N. exact Hs.
    + rewrite qfilter_app, Hq. unfold qfilter at 1. simpl.
      assert (Nat.eqb sid' sid = false) as -> by (apply Nat.eqb_neq; exact N). apply app_nil_r.
  - rewrite (register_eq w sid' prep cbof s' K Hs' Rc).
    assert (NP : s_pid s' <> s_pid (c_sub c)).
    { intros E. apply N. exact (nodup_map_nth s_pid _ _ _ _ _ (g_pids w Gw) Hs' Hs E). }
    apply try_other; [apply (reg_mid_G w sid' s'); [exact Gw|exact Hs'|simpl; exact Kp]| |exact NP].
    split; [constructor|]; simpl.
    + rewrite nth_upd_other by exact N. exact Hs.
    + exact Hk.
    + rewrite Kp, a_find_set_other by exact NP. exact Hw.
    + exact Hc.
    + exact Hq.
Qed.

(* ---------- the IOLoop turn ---------- *)
Lemma setrc_other w sid c s' st : Rcore w sid c -> s' <> sid -> Rcore (set_rc w (s', st)) sid c.
Proof.
  intros [Hs Hk Hw Hc] N. unfold set_rc.
  destruct (nth_error (w_subs w) s') as [s|] eqn:Hs'.
  2:{ constructor; simpl; try assumption. rewrite calls_app, Hc. simpl.
      assert (Nat.eqb s' sid = false) as -> by (apply Nat.eqb_neq; exact N). apply app_nil_r. }
  destruct (decode st) as [rc|].
  2:{ constructor; simpl; try assumption. rewrite calls_app, Hc. simpl.
      assert (Nat.eqb s' sid = false) as -> by (apply Nat.eqb_neq; exact N). apply app_nil_r. }
  destruct (s_cb s) as [cb|].
  - pose proof (invoke_calls_other sid s' (mkSub (s_pid s) None (Some rc) (s_futs s)) cb rc N) as Q.
    destruct (invoke s' _ cb rc) as [s3 evs]. simpl in Q.
    constructor; simpl; try assumption.
    + rewrite nth_upd_other by exact N. exact Hs.
    + rewrite calls_app, Hc, Q. apply app_nil_r.
  - constructor; simpl; try assumption. rewrite nth_upd_other by exact N. exact Hs.
Qed.

Lemma late_other w sid c s' cb rc : Rcore w sid c -> s' <> sid -> Rcore (late_call w s' cb rc) sid c.
Proof.
  intros [Hs Hk Hw Hc] N. unfold late_call.
  destruct (nth_error (w_subs w) s') as [s|] eqn:Hs'.
  2:{ constructor; simpl; try assumption. rewrite calls_app, Hc. simpl.
      assert (Nat.eqb s' sid = false) as -> by (apply Nat.eqb_neq; exact N). apply app_nil_r. }
  pose proof (invoke_calls_other sid s' s cb rc N) as Q.
  destruct (invoke s' s cb rc) as [s3 evs]. simpl in Q.
  constructor; simpl; try assumption.
  - rewrite nth_upd_other by exact N. exact Hs.
  - rewrite calls_app, Hc, Q. apply app_nil_r.
Qed.

Lemma creport_sub_pid sid st c : s_pid (c_sub (creport sid st c)) = s_pid (c_sub c).
Proof.
  unfold creport. destruct (decode st) as [rc|]; [|reflexivity].
  destruct (s_cb (c_sub c)) as [cb|]; [|reflexivity].
  pose proof (invoke_pid sid (mkSub (s_pid (c_sub c)) None (Some rc) (s_futs (c_sub c))) cb rc) as P.
  destruct (invoke sid _ cb rc) as [s3 evs]. exact P.
Qed.

Lemma setrc_self w sid c st : Rcore w sid c -> c_ph c = PhQueued st ->
  Rcore (set_rc w (sid, st)) sid (creport sid st c).
Proof.
  intros [Hs Hk Hw Hc] E. pose proof (creport_sub_pid sid st c) as PP.
  unfold set_rc, creport in *. rewrite Hs. rewrite E in Hk. simpl in Hk.
  assert (L := nth_error_lt _ _ _ Hs).
  destruct (decode st) as [rc|].
  - destruct (s_cb (c_sub c)) as [cb|] eqn:Hcb.
    + pose proof (invoke_calls_self sid (mkSub (s_pid (c_sub c)) None (Some rc) (s_futs (c_sub c))) cb rc) as Q.
      destruct (invoke sid _ cb rc) as [s3 evs]. simpl in Q, PP.
      constructor; simpl; rewrite ?PP; try assumption.
      * apply nth_upd_same. exact L.
      * rewrite calls_app, Hc, Q. reflexivity.
    + constructor; simpl; try assumption. apply nth_upd_same. exact L.
  - constructor; simpl; try assumption.
    rewrite calls_app, Hc. simpl. rewrite Nat.eqb_refl. reflexivity.
Qed.

Lemma late_self w sid c cb rc lt : Rcore w sid c ->
  Rcore (late_call w sid cb rc) sid
        (mkC (fst (invoke sid (c_sub c) cb rc)) (c_ph c) (c_inw c) (c_calls c ++ snd (invoke sid (c_sub c) cb rc)) lt).
Proof.
  intros [Hs Hk Hw Hc]. unfold late_call. rewrite Hs.
  pose proof (invoke_pid sid (c_sub c) cb rc) as P. pose proof (invoke_calls_self sid (c_sub c) cb rc) as Q.
  destruct (invoke sid (c_sub c) cb rc) as [s3 evs]. simpl in *.
  constructor; simpl; rewrite ?P; try assumption.
  - apply nth_upd_same. exact (nth_error_lt _ _ _ Hs).
  - rewrite calls_app, Hc, Q. reflexivity.
Qed.

Lemma crun_late_step sid s ph inw calls cb rc lt :
  crun_late sid (mkC s ph inw calls ((cb, rc) :: lt)) =
  crun_late sid (mkC (fst (invoke sid s cb rc)) ph inw (calls ++ snd (invoke sid s cb rc)) lt).
Proof. unfold crun_late. simpl. destruct (invoke sid s cb rc) as [s3 evs]. reflexivity. Qed.

Lemma loop_fold sid q : forall w c, G w -> Rcore w sid c ->
  (forall x, In x q -> (q_sid x < length (w_subs w))%nat) ->
  qfilter sid q = q_of sid c ->
  Rcore (fold_left run_item q w) sid (cloop sid c).
Proof.
  induction q as [|x q IH]; intros w c Gw Rw V Q; cbn [fold_left].
  - unfold q_of in Q. unfold cloop. destruct c as [s ph inw calls lt]. simpl in *.
    destruct ph; simpl in Q; try discriminate;
      (destruct lt; [|discriminate]); unfold crun_late; simpl; exact Rw.
  - assert (L : (q_sid x < length (w_subs w))%nat) by (apply V; left; reflexivity).
    assert (V' : forall x', In x' q -> (q_sid x' < length (w_subs (run_item w x)))%nat).
    { intros x' H. rewrite run_item_len. apply V. right; exact H. }
    assert (G' := run_item_G w x Gw L).
    unfold qfilter in Q. cbn [filter] in Q. destruct (Nat.eqb (q_sid x) sid) eqn:E.
    + apply Nat.eqb_eq in E. fold (qfilter sid q) in Q.
      destruct c as [s ph inw calls lt]. unfold q_of in Q. cbn [c_ph c_late] in Q.
      destruct ph as [|st|st|st]; cbn [app] in Q.
      1,2,4: (destruct lt as [|[cb rc] lt]; [discriminate|]; cbn [map fst snd] in Q; injection Q as -> Q;
              cbn [run_item]; unfold cloop; cbn [c_ph]; rewrite crun_late_step;
              lazymatch goal with |- Rcore _ _ (crun_late _ ?c') => change (crun_late sid c') with (cloop sid c') end;
              apply (IH _ _ G');
              [exact (late_self w sid _ cb rc lt Rw)|exact V'|exact Q]).
      injection Q as -> Q. cbn [run_item].
      destruct (creport_ph sid st (mkC s (PhQueued st) inw calls lt)) as [P1 [P2 _]].
      pose proof (IH _ (creport sid st (mkC s (PhQueued st) inw calls lt)) G'
                     (setrc_self w sid _ st Rw eq_refl) V') as H.
      unfold cloop in H |- *. rewrite P1 in H. cbn [c_ph]. apply H.
      unfold q_of. rewrite P1, P2. exact Q.
    + apply Nat.eqb_neq in E. fold (qfilter sid q) in Q.
      apply (IH _ c G'); [|exact V'|exact Q].
      destruct x as [s' st'|s' cb rc]; cbn [run_item q_sid] in *;
        [apply setrc_other|apply late_other]; assumption.
Qed.

Lemma cloop_q sid c : q_of sid (cloop sid c) = [].
Proof.
  unfold cloop, q_of.
  set (c1 := match c_ph c with PhQueued st => creport sid st c | _ => c end).
  destruct (crun_late_ph sid c1) as [A [B _]]. rewrite A, B.
  assert (N : forall st, c_ph c1 <> PhQueued st).
  { unfold c1. destruct (c_ph c) eqn:P; try (rewrite P; discriminate).
    destruct (creport_ph sid st c) as [X _]. rewrite X. discriminate. }
  destruct (c_ph c1) eqn:P; try reflexivity. exfalso. exact (N _ eq_refl).
Qed.

Lemma run_loop_G w : G w -> G (run_loop w) /\ length (w_subs (run_loop w)) = length (w_subs w).
Proof.
  intros Gw. unfold run_loop.
  set (w1 := mkW (w_kern w) (w_subs w) (w_waiting w) [] (w_init w) (w_log w)).
  assert (G1 : G w1) by (destruct Gw; constructor; simpl; auto; intros x []).
  destruct (fold_items_G (w_queue w) w1 G1 (g_queue w Gw)) as [A [B _]]. split; assumption.
Qed.

Lemma fold_items_queue q : forall w, w_queue (fold_left run_item q w) = w_queue w.
Proof. induction q as [|x q IH]; intros w; cbn [fold_left]; [reflexivity|]. rewrite IH. apply run_item_queue. Qed.

Lemma run_loop_R w sid c : G w -> R w sid c -> R (run_loop w) sid (cloop sid c).
Proof.
  intros Gw [Rw Q]. unfold run_loop.
  set (w1 := mkW (w_kern w) (w_subs w) (w_waiting w) [] (w_init w) (w_log w)).
  assert (G1 : G w1) by (destruct Gw; constructor; simpl; auto; intros x []).
  assert (R1 : Rcore w1 sid c) by (destruct Rw; constructor; assumption).
  split; [exact (loop_fold sid (w_queue w) w1 c G1 R1 (g_queue w Gw) Q)|].
  rewrite fold_items_queue, cloop_q. reflexivity.
Qed.

(* ---------- one event ---------- *)
Lemma cleanup_G w : G w -> G (cleanup w).
Proof. apply fold_try_G. Qed.

Lemma step_len w e : length (w_subs (step w e)) = (length (w_subs w) + (if is_spawn e then 1 else 0))%nat.
Proof.
  destruct e as [p|p st| |s l|s l re| | |]; simpl; try lia.
  - rewrite app_length. reflexivity.
  - destruct (a_find p (w_kern w)) as [[]|]; simpl; lia.
  - destruct (w_init w); [unfold cleanup; rewrite fold_try_subs|]; lia.
  - rewrite register_len. lia.
  - rewrite register_len. lia.
  - unfold run_loop.
    assert (H : forall q w1, length (w_subs (fold_left run_item q w1)) = length (w_subs w1)).
    { induction q as [|x q IH]; intros w1; cbn [fold_left]; [reflexivity|]. rewrite IH. apply run_item_len. }
    rewrite H. simpl. lia.
Qed.

Lemma NoDup_app_snoc {A} (l : list A) x : NoDup l -> ~ In x l -> NoDup (l ++ [x]).
Proof.
  induction l as [|a l IH]; intros ND N; simpl.
  - constructor; [intros []|constructor].
  - inversion ND as [|? ? H1 H2]; subst. constructor.
    + intros K. apply in_app_or in K as [K|[K|[]]]; [contradiction|]. apply N. left; symmetry; exact K.
    + apply IH; [exact H2|]. intros K. apply N. right; exact K.
Qed.

Definition fresh (w : world) (e : event) : Prop :=
  match e with ESpawn p => ~ In p (map s_pid (w_subs w)) | _ => True end.

Lemma step_G w e : G w -> fresh w e -> G (step w e).
Proof.
  intros Gw F. destruct e as [p|p st| |s l|s l re| | |]; simpl;
    try (destruct Gw; constructor; simpl; assumption).
  - simpl in F. constructor; simpl.
    + intros q x H. destruct (g_wait w Gw q x H) as [sb [H1 H2]]. exists sb. split; [|exact H2].
      rewrite nth_error_app1 by exact (nth_error_lt _ _ _ H1). exact H1.
    + rewrite map_app. simpl. apply NoDup_app_snoc; [exact (g_pids w Gw)|exact F].
    + intros x H. rewrite app_length. pose proof (g_queue w Gw x H). lia.
    + intros e H. apply (log_ok_mono (length (w_subs w))); [rewrite app_length; lia|exact (g_log w Gw e H)].
    + intros q k H. rewrite map_app. apply in_or_app. destruct (Z.eq_dec p q) as [<-|N]; [right; left; reflexivity|].
      rewrite a_find_set_other in H by exact N. left. exact (g_kern w Gw q k H).
  - destruct (a_find p (w_kern w)) as [[|st'|st']|] eqn:K; try exact Gw.
    destruct Gw as [a b c d e]. constructor; simpl; auto.
    intros q k H. destruct (Z.eq_dec p q) as [<-|N]; [exact (e p _ K)|].
    rewrite a_find_set_other in H by exact N. exact (e q k H).
  - destruct (w_init w); [apply cleanup_G|]; exact Gw.
  - apply register_G; [apply prep_plain_good|exact Gw].
  - apply register_G; [apply prep_fut_good|exact Gw].
  - apply run_loop_G. exact Gw.
Qed.
