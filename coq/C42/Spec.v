(* C42 — the specification side: the life of ONE child, as a small automaton
   driven by the same event trace, plus trace-level vocabulary.  Definitions only.

   The concrete model (Model.v) shares one kernel table, one _waiting dict, one
   IOLoop queue and one log between all Subprocess objects.  The specification
   follows a single object and ignores everything that concerns other children. *)
From Coq Require Import List ZArith Bool Arith.
Import ListNotations.
From TV Require Import C42.Model.
Local Open Scope Z_scope.

Inductive phase :=
| PhRun                 (* child still running *)
| PhZombie (st : Z)     (* child terminated with status st, nobody waited for it yet *)
| PhQueued (st : Z)     (* reaped by _try_cleanup_process; _set_returncode(st) is pending on the IOLoop *)
| PhReported (st : Z).  (* _set_returncode(st) ran *)

Record cstate := mkC {
  c_sub : sub;            (* the object's fields *)
  c_ph : phase;
  c_inw : bool;           (* has an entry in Subprocess._waiting *)
  c_calls : list logev    (* what this object's callbacks have logged *)
}.

Definition cinit (pid : Z) : cstate := mkC (mkSub pid None None []) PhRun false [].

(* _try_cleanup_process(own pid) *)
Definition ctry (c : cstate) : cstate :=
  match c_ph c with
  | PhZombie st => if c_inw c then mkC (c_sub c) (PhQueued st) false (c_calls c) else c
  | _ => c
  end.

Definition creg (mk : sub -> sub) (c : cstate) : cstate :=
  ctry (mkC (mk (c_sub c)) (c_ph c) true (c_calls c)).

(* _set_returncode(st) *)
Definition creport (sid : nat) (st : Z) (c : cstate) : cstate :=
  let s := c_sub c in
  match decode st with
  | None => mkC s (PhReported st) (c_inw c) (c_calls c ++ [LAssert sid])
  | Some rc =>
      match s_cb s with
      | None => mkC (mkSub (s_pid s) None (Some rc) (s_futs s)) (PhReported st) (c_inw c) (c_calls c)
      | Some cb =>
          let '(s3, evs) := invoke sid (mkSub (s_pid s) None (Some rc) (s_futs s)) cb rc in
          mkC s3 (PhReported st) (c_inw c) (c_calls c ++ evs)
      end
  end.

Definition cstep (sid : nat) (c : cstate) (e : event) : cstate :=
  match e with
  | ESpawn _ => c
  | EExit p st =>
      if p =? s_pid (c_sub c) then
        match c_ph c with PhRun => mkC (c_sub c) (PhZombie st) (c_inw c) (c_calls c) | _ => c end
      else c
  | ESigchld => if c_inw c then ctry c else c
  | EReg s l => if Nat.eqb s sid then creg (set_cb (CbPlain l)) c else c
  | EWait s l re => if Nat.eqb s sid then creg (add_fut l re) c else c
  | ELoop => match c_ph c with PhQueued st => creport sid st c | _ => c end
  end.

(* ---------- trace vocabulary ---------- *)
Definition is_spawn (e : event) : bool := match e with ESpawn _ => true | _ => false end.
Definition count_spawns (es : list event) : nat := length (filter is_spawn es).

(* the pid given to object number sid and the events that follow its creation *)
Fixpoint after_spawn (sid : nat) (es : list event) : option (Z * list event) :=
  match es with
  | [] => None
  | ESpawn p :: r =>
      match sid with O => Some (p, r) | S k => after_spawn k r end
  | _ :: r => after_spawn sid r
  end.

(* the wait status with which child p terminates: its first EExit *)
Fixpoint first_exit (p : Z) (es : list event) : option Z :=
  match es with
  | [] => None
  | EExit q st :: r => if q =? p then Some st else first_exit p r
  | _ :: r => first_exit p r
  end.

Definition exit_status (sid : nat) (es : list event) : option Z :=
  match after_spawn sid es with
  | Some (p, r) => first_exit p r
  | None => None
  end.

(* the specification's account of object sid after the whole trace *)
Definition track (sid : nat) (es : list event) : option cstate :=
  match after_spawn sid es with
  | Some (p, r) => Some (fold_left (cstep sid) r (cinit p))
  | None => None
  end.

(* labels of the callbacks registered on object sid *)
Definition reg_label (sid : nat) (e : event) : option nat :=
  match e with
  | EReg s l => if Nat.eqb s sid then Some l else None
  | EWait s l _ => if Nat.eqb s sid then Some l else None
  | _ => None
  end.
Definition reg_labels (sid : nat) (es : list event) : list nat :=
  flat_map (fun e => match reg_label sid e with Some l => [l] | None => [] end) es.

Definition is_sigchld (e : event) : bool := match e with ESigchld => true | _ => false end.
Definition is_loop (e : event) : bool := match e with ELoop => true | _ => false end.

(* ---------- vocabulary of the statements ---------- *)
(* statuses of the pending _set_returncode calls of object sid in the IOLoop queue *)
Definition qstat (sid : nat) (q : list (nat * Z)) : list Z :=
  map snd (filter (fun x => Nat.eqb (fst x) sid) q).


(* what the kernel table / the queue hold for a child in a given phase *)
Definition kst_of (ph : phase) : kst :=
  match ph with
  | PhRun => KRun
  | PhZombie st => KZombie st
  | PhQueued st => KReaped st
  | PhReported st => KReaped st
  end.
Definition q_of (ph : phase) : list Z := match ph with PhQueued st => [st] | _ => [] end.


(* callback cb was registered on object sid somewhere in the trace *)
Definition reg_ok (sid : nat) (es : list event) (cb : cbk) : Prop :=
  match cb with
  | CbPlain l => In (EReg sid l) es
  | CbFut l _ re => In (EWait sid l re) es
  end.
(* the future behind the callback that ran was resolved by wait_for_exit's rule *)
Definition cb_done (cb : cbk) (rc : Z) (futs : list (nat * fut)) : Prop :=
  match cb with
  | CbFut l i re => nth_error futs i = Some (l, resolve re rc)
  | CbPlain _ => True
  end.
Definition others_pending (cb : cbk) (futs : list (nat * fut)) : Prop :=
  forall j x, nth_error futs j = Some x -> snd x <> FPending -> exists l re, cb = CbFut l j re.
Definition all_pending (futs : list (nat * fut)) : Prop := Forall (fun x => snd x = FPending) futs.

Definition is_reg_of (sid : nat) (e : event) : Prop :=
  match reg_label sid e with Some _ => True | None => False end.


(* what can be observed of one object, in every reachable world *)
Inductive child_report (sid : nat) (p : Z) (r : list event) (log : list logev) (sb : sub) : Prop :=
| CR_nothing :                     (* not (yet) reported *)
    log = [] -> s_rc sb = None -> all_pending (s_futs sb) -> child_report sid p r log sb
| CR_called st rc cb :             (* reported once, with the decoded status of the child's first exit *)
    first_exit p r = Some st -> decode st = Some rc ->
    log = [LCall sid (cb_label cb) rc] -> s_rc sb = Some rc ->
    reg_ok sid r cb -> cb_done cb rc (s_futs sb) -> others_pending cb (s_futs sb) ->
    child_report sid p r log sb
| CR_assert st :                   (* stopped/continued-shaped status: `assert os.WIFEXITED(status)` failed *)
    first_exit p r = Some st -> decode st = None ->
    log = [LAssert sid] -> s_rc sb = None -> all_pending (s_futs sb) -> child_report sid p r log sb.


(* reported exactly once, with the decoded status; the future (if any) resolved by the rule *)
Definition exactly_once (es : list event) (sid : nat) (r : list event) (st : Z) : Prop :=
  exists sb, nth_error (w_subs (run es)) sid = Some sb /\
    match decode st with
    | Some rc => exists cb, calls_of sid (w_log (run es)) = [LCall sid (cb_label cb) rc] /\ s_rc sb = Some rc /\
                            reg_ok sid r cb /\ cb_done cb rc (s_futs sb) /\ others_pending cb (s_futs sb)
    | None => calls_of sid (w_log (run es)) = [LAssert sid] /\ s_rc sb = None
    end.

