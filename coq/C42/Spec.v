(* C42 — the specification side: the life of ONE child, as a small automaton
   driven by the same event trace, plus trace-level vocabulary.  Definitions only.

   The concrete model (Model.v) shares one kernel table, one _waiting dict, one
   IOLoop queue and one log between all Subprocess objects.  The specification
   follows a single object and ignores everything that concerns other children. *)
From Coq Require Import List ZArith Bool Arith.
Import ListNotations.
From TV Require Import C42.Model.
Local Open Scope Z_scope.

Inductive phase :=
| PhRun                 (* child still running *)
| PhZombie (st : Z)     (* child terminated with status st, nobody waited for it yet *)
| PhQueued (st : Z)     (* reaped by _try_cleanup_process; _set_returncode(st) is pending on the IOLoop *)
| PhReported (st : Z).  (* _set_returncode(st) ran *)

Record cstate := mkC {
  c_sub : sub;            (* the object's fields *)
  c_ph : phase;
  c_inw : bool;           (* has an entry in Subprocess._waiting *)
  c_calls : list logev;   (* what this object's callbacks have logged *)
  c_late : list (cbk * Z) (* callback(returncode) calls pending on the IOLoop (registrations made after the report) *)
}.

Definition cinit (pid : Z) : cstate := mkC (mkSub pid None None []) PhRun false [] [].

(* _try_cleanup_process(own pid) *)
Definition ctry (c : cstate) : cstate :=
  match c_ph c with
  | PhZombie st => if c_inw c then mkC (c_sub c) (PhQueued st) false (c_calls c) (c_late c) else c
  | _ => c
  end.

(* set_exit_callback: returncode already known -> queue callback(returncode); else store, enter _waiting, probe *)
Definition creg (prep : sub -> sub) (cbof : sub -> cbk) (c : cstate) : cstate :=
  let s := c_sub c in
  match s_rc s with
  | Some rc => mkC (prep s) (c_ph c) (c_inw c) (c_calls c) (c_late c ++ [(cbof s, rc)])
  | None => ctry (mkC (set_cb (cbof s) (prep s)) (c_ph c) true (c_calls c) (c_late c))
  end.

(* _set_returncode(st) *)
Definition creport (sid : nat) (st : Z) (c : cstate) : cstate :=
  let s := c_sub c in
  match decode st with
  | None => mkC s (PhReported st) (c_inw c) (c_calls c ++ [LAssert sid]) (c_late c)
  | Some rc =>
      match s_cb s with
      | None => mkC (mkSub (s_pid s) None (Some rc) (s_futs s)) (PhReported st) (c_inw c) (c_calls c) (c_late c)
      | Some cb =>
          let '(s3, evs) := invoke sid (mkSub (s_pid s) None (Some rc) (s_futs s)) cb rc in
          mkC s3 (PhReported st) (c_inw c) (c_calls c ++ evs) (c_late c)
      end
  end.

(* the pending callback(returncode) calls run, oldest first *)
Fixpoint run_lates (sid : nat) (s : sub) (calls : list logev) (l : list (cbk * Z)) : sub * list logev :=
  match l with
  | [] => (s, calls)
  | (cb, rc) :: l' => let '(s3, evs) := invoke sid s cb rc in run_lates sid s3 (calls ++ evs) l'
  end.
Definition crun_late (sid : nat) (c : cstate) : cstate :=
  let '(s, calls) := run_lates sid (c_sub c) (c_calls c) (c_late c) in
  mkC s (c_ph c) (c_inw c) calls [].

(* one IOLoop turn *)
Definition cloop (sid : nat) (c : cstate) : cstate :=
  crun_late sid (match c_ph c with PhQueued st => creport sid st c | _ => c end).

(* h = is the SIGCHLD handler installed (the one bit of shared state the object's life depends on) *)
Definition cstep (sid : nat) (h : bool) (c : cstate) (e : event) : cstate :=
  match e with
  | ESpawn _ => c
  | EExit p st =>
      if p =? s_pid (c_sub c) then
        match c_ph c with PhRun => mkC (c_sub c) (PhZombie st) (c_inw c) (c_calls c) (c_late c) | _ => c end
      else c
  | ESigchld => if h && c_inw c then ctry c else c
  | EReg s l => if Nat.eqb s sid then creg prep_plain (cb_plain l) c else c
  | EWait s l re => if Nat.eqb s sid then creg (prep_fut l) (cb_fut l re) c else c
  | ELoop => cloop sid c
  | EInit => c
  | EUninit => c
  end.

(* the object's automaton runs alongside the world, from which it reads only Subprocess._initialized *)
Definition pstep (sid : nat) (wc : world * cstate) (e : event) : world * cstate :=
  (step (fst wc) e, cstep sid (w_init (fst wc)) (snd wc) e).
Definition trk (sid : nat) (w : world) (r : list event) (c : cstate) : cstate :=
  snd (fold_left (pstep sid) r (w, c)).

(* ---------- trace vocabulary ---------- *)
Definition is_spawn (e : event) : bool := match e with ESpawn _ => true | _ => false end.
Definition count_spawns (es : list event) : nat := length (filter is_spawn es).

(* the pid given to object number sid and the events that follow its creation *)
Fixpoint after_spawn (sid : nat) (es : list event) : option (Z * list event) :=
  match es with
  | [] => None
  | ESpawn p :: r =>
      match sid with O => Some (p, r) | S k => after_spawn k r end
  | _ :: r => after_spawn sid r
  end.

(* the wait status with which child p terminates: its first EExit *)
Fixpoint first_exit (p : Z) (es : list event) : option Z :=
  match es with
  | [] => None
  | EExit q st :: r => if q =? p then Some st else first_exit p r
  | _ :: r => first_exit p r
  end.

Definition exit_status (sid : nat) (es : list event) : option Z :=
  match after_spawn sid es with
  | Some (p, r) => first_exit p r
  | None => None
  end.

(* the specification's account of object sid after the whole trace *)
(* the trace up to and including the creation of object number sid *)
Fixpoint spawn_prefix (sid : nat) (es : list event) : list event :=
  match es with
  | [] => []
  | ESpawn p :: r =>
      match sid with O => [ESpawn p] | S k => ESpawn p :: spawn_prefix k r end
  | e :: r => e :: spawn_prefix sid r
  end.

Definition track (sid : nat) (es : list event) : option cstate :=
  match after_spawn sid es with
  | Some (p, r) => Some (trk sid (run (spawn_prefix sid es)) r (cinit p))
  | None => None
  end.

(* labels of the callbacks registered on object sid *)
Definition reg_label (sid : nat) (e : event) : option nat :=
  match e with
  | EReg s l => if Nat.eqb s sid then Some l else None
  | EWait s l _ => if Nat.eqb s sid then Some l else None
  | _ => None
  end.
Definition reg_labels (sid : nat) (es : list event) : list nat :=
  flat_map (fun e => match reg_label sid e with Some l => [l] | None => [] end) es.

Definition is_sigchld (e : event) : bool := match e with ESigchld => true | _ => false end.
Definition is_loop (e : event) : bool := match e with ELoop => true | _ => false end.

(* ---------- vocabulary of the statements ---------- *)
(* the pending IOLoop calls that concern object sid *)
Definition qfilter (sid : nat) (q : list qitem) : list qitem :=
  filter (fun x => Nat.eqb (q_sid x) sid) q.

(* what the kernel table / the queue hold for a child in a given state *)
Definition kst_of (ph : phase) : kst :=
  match ph with
  | PhRun => KRun
  | PhZombie st => KZombie st
  | PhQueued st => KReaped st
  | PhReported st => KReaped st
  end.
Definition q_of (sid : nat) (c : cstate) : list qitem :=
  match c_ph c with PhQueued st => [QSet sid st] | _ => [] end ++
  map (fun x => QCall sid (fst x) (snd x)) (c_late c).

(* callback cb was registered on object sid somewhere in the trace *)
Definition reg_ok (sid : nat) (es : list event) (cb : cbk) : Prop :=
  match cb with
  | CbPlain l => In (EReg sid l) es
  | CbFut l _ re => In (EWait sid l re) es
  end.
(* the future behind the callback that ran was resolved by wait_for_exit's rule *)
Definition cb_done (cb : cbk) (rc : Z) (futs : list (nat * fut)) : Prop :=
  match cb with
  | CbFut l i re => nth_error futs i = Some (l, resolve re rc)
  | CbPlain _ => True
  end.
Definition all_pending (futs : list (nat * fut)) : Prop := Forall (fun x => snd x = FPending) futs.

(* every resolved future holds what wait_for_exit's rule says, and its callback is in the log *)
Definition fut_ok (sid : nat) (r : list event) (rc : Z) (log : list logev) (futs : list (nat * fut)) : Prop :=
  forall j l f, nth_error futs j = Some (l, f) -> f <> FPending ->
    exists re, f = resolve re rc /\ In (EWait sid l re) r /\ In (LCall sid l rc) log.

Definition is_reg_of (sid : nat) (e : event) : Prop :=
  match reg_label sid e with Some _ => True | None => False end.

Definition call_labels (log : list logev) : list nat :=
  flat_map (fun e => match e with LCall _ l _ => [l] | _ => [] end) log.
Definition all_calls (sid : nat) (rc : Z) (log : list logev) : Prop :=
  Forall (fun e => exists l, e = LCall sid l rc) log.
(* labels of the callback(returncode) calls of object sid still pending on the IOLoop *)
Definition late_labels (sid : nat) (q : list qitem) : list nat :=
  flat_map (fun x => match x with QCall s c _ => if Nat.eqb s sid then [cb_label c] else [] | QSet _ _ => [] end) q.

(* what can be observed of one object, in every reachable world (log = its part of the callback log, q = the IOLoop queue) *)
Inductive child_report (sid : nat) (p : Z) (r : list event) (log : list logev) (q : list qitem) (sb : sub) : Prop :=
| CR_nothing :                     (* not (yet) reported *)
    log = [] -> s_rc sb = None -> all_pending (s_futs sb) -> late_labels sid q = [] -> child_report sid p r log q sb
| CR_called st rc cb rest :        (* reported: every invocation carries the decoded status of the child's first exit;
                                      the invocations made and still queued are, in order, the registration that was in
                                      place when _set_returncode ran followed by every later registration *)
    first_exit p r = Some st -> decode st = Some rc ->
    log = LCall sid (cb_label cb) rc :: rest -> all_calls sid rc log -> s_rc sb = Some rc ->
    reg_ok sid r cb -> cb_done cb rc (s_futs sb) -> fut_ok sid r rc log (s_futs sb) ->
    (exists dropped, reg_labels sid r = dropped ++ call_labels log ++ late_labels sid q) ->
    child_report sid p r log q sb
| CR_assert st :                   (* stopped/continued-shaped status: `assert os.WIFEXITED(status)` failed *)
    first_exit p r = Some st -> decode st = None ->
    log = [LAssert sid] -> s_rc sb = None -> all_pending (s_futs sb) -> late_labels sid q = [] -> child_report sid p r log q sb.

(* reported: the callback in place ran first, with the decoded status; its future (if any) resolved by the rule *)
Definition exactly_once (es : list event) (sid : nat) (r : list event) (st : Z) : Prop :=
  exists sb, nth_error (w_subs (run es)) sid = Some sb /\
    match decode st with
    | Some rc => exists cb rest, calls_of sid (w_log (run es)) = LCall sid (cb_label cb) rc :: rest /\ s_rc sb = Some rc /\
                                 reg_ok sid r cb /\ cb_done cb rc (s_futs sb)
    | None => calls_of sid (w_log (run es)) = [LAssert sid] /\ s_rc sb = None
    end.
