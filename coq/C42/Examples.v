(* C42 — the hypotheses of the theorems are met by concrete non-trivial traces; witnesses of the boundary cases. *)
From Coq Require Import List ZArith Bool.
Import ListNotations.
From TV Require Import Lib.Obs C42.Model C42.Spec C42.Run.
Local Open Scope Z_scope.

(* two children; object 0 registered before its child dies, object 1 (wait_for_exit) after; one coalesced SIGCHLD *)
Definition ex_trace : list event :=
  [ESpawn 10; ESpawn 11; EReg 0 0; EExit 11 9; EExit 10 768; ESigchld; ELoop; EWait 1 1 true; ELoop].

Example ex_wf : wf ex_trace = true. Proof. reflexivity. Qed.
Example ex_after : after_spawn 1 ex_trace = Some (11, [EReg 0 0; EExit 11 9; EExit 10 768; ESigchld; ELoop; EWait 1 1 true; ELoop]).
Proof. reflexivity. Qed.
Example ex_log : w_log (run ex_trace) = [LCall 0 0 3; LCall 1 1 (-9)]. Proof. vm_compute. reflexivity. Qed.
Example ex_future : option_map s_futs (nth_error (w_subs (run ex_trace)) 1) = Some [(1%nat, FError (-9))].
Proof. vm_compute. reflexivity. Qed.

(* hypotheses of C42_exactly_once_any_order for object 0: es0 = [], r1 = [ESpawn 11; EReg 0 0; EExit 11 9; EExit 10 768] *)
Example ex_hyp_A :
  first_exit 10 [ESpawn 11; EReg 0 0; EExit 11 9; EExit 10 768] = Some 768 /\
  (exists e, In e [ESpawn 11; EReg 0 0; EExit 11 9; EExit 10 768] /\ is_reg_of 0 e) /\
  w_init (run ([] ++ ESpawn 10 :: [ESpawn 11; EReg 0 0; EExit 11 9; EExit 10 768])) = true /\ In ELoop [ELoop].
Proof. split; [reflexivity|]. split; [exists (EReg 0 0); split; [right; left; reflexivity|exact I]|]. split; [reflexivity|left; reflexivity]. Qed.

(* hypotheses of C42_one_sigchld_serves_all_children: five registered children, all dead, handler installed *)
Definition ex_five : list event :=
  [ESpawn 10; ESpawn 11; ESpawn 12; ESpawn 13; ESpawn 14; EReg 0 0; EReg 1 1; EReg 2 2; EReg 3 3; EReg 4 4;
   EExit 13 768; EExit 11 256; EExit 14 1024; EExit 10 0; EExit 12 512].
Example ex_five_hyp : wf ex_five = true /\ w_init (run ex_five) = true /\
  map (fun sid => option_map (fun c => (c_ph c, c_inw c)) (track sid ex_five)) [0;1;2;3;4]%nat =
  [Some (PhZombie 0, true); Some (PhZombie 256, true); Some (PhZombie 512, true); Some (PhZombie 768, true); Some (PhZombie 1024, true)].
Proof. vm_compute. repeat split. Qed.
Example ex_five_result : w_log (run (ex_five ++ [ESigchld; ELoop])) = [LCall 0 0 0; LCall 1 1 1; LCall 2 2 2; LCall 3 3 3; LCall 4 4 4].
Proof. vm_compute. reflexivity. Qed.

(* uninitialize(): the SIGCHLD is lost on the process; the child is found when the handler is back and another SIGCHLD comes *)
Example ex_uninit :
  w_log (run [ESpawn 5; EReg 0 0; EUninit; EExit 5 256; ESigchld; ELoop]) = [] /\
  w_log (run [ESpawn 5; EReg 0 0; EUninit; EExit 5 256; ESigchld; ELoop; EInit; ESigchld; ELoop]) = [LCall 0 0 1].
Proof. vm_compute. split; reflexivity. Qed.

(* hypotheses of C42_exactly_once_exit_before_registration for object 1 *)
Example ex_hyp_B :
  first_exit 11 [EReg 0 0; EExit 11 9; EExit 10 768; ESigchld; ELoop] = Some 9 /\
  (exists e, In e [EWait 1 1 true] /\ is_reg_of 1 e) /\ In ELoop [ELoop].
Proof. split; [reflexivity|]. split; [exists (EWait 1 1 true); split; [left; reflexivity|exact I]|]. left; reflexivity. Qed.

(* a second wait_for_exit after the exit was reported (hypotheses of C42_late_registration_fires): it used to stay
   pending for ever; since fix 830934b it is resolved at the next loop turn and nothing is left in _waiting *)
Definition ex_late : list event :=
  [ESpawn 5; EWait 0 0 false; EExit 5 0; ESigchld; ELoop; EWait 0 1 true; ELoop].
Example ex_late_phase : option_map c_ph (track 0 [ESpawn 5; EWait 0 0 false; EExit 5 0; ESigchld; ELoop]) = Some (PhReported 0).
Proof. vm_compute. reflexivity. Qed.
Example ex_late_result :
  w_log (run ex_late) = [LCall 0 0 0; LCall 0 1 0] /\
  option_map s_futs (nth_error (w_subs (run ex_late)) 0) = Some [(0%nat, FResult 0); (1%nat, FResult 0)] /\
  w_waiting (run ex_late) = [].
Proof. vm_compute. repeat split. Qed.

(* a registration that is REPLACED before _set_returncode runs never fires (one callback slot): label 0 below *)
Example ex_superseded : w_log (run [ESpawn 5; EReg 0 0; EReg 0 1; EExit 5 0; ESigchld; ELoop; ESigchld; ELoop]) = [LCall 0 1 0].
Proof. vm_compute. reflexivity. Qed.

(* a stale _waiting entry can still arise: re-registration between reaping and the loop turn (returncode still None) *)
Example ex_stale : w_waiting (run [ESpawn 5; EReg 0 0; EExit 5 0; ESigchld; EReg 0 1; ELoop]) = [(5, 0%nat)].
Proof. vm_compute. reflexivity. Qed.

(* why the rely condition is needed: with that stale entry and a reused pid, the OLD object swallows the new child's
   status (its returncode is overwritten: 0 becomes 1) and the new object is never told *)
Definition ex_reuse : list event :=
  [ESpawn 5; EReg 0 0; EExit 5 0; ESigchld; EReg 0 1; ELoop; ESpawn 5; EExit 5 256; ESigchld; ELoop; EReg 1 2; ELoop; ESigchld; ELoop].
Example ex_reuse_not_wf : wf ex_reuse = false. Proof. reflexivity. Qed.
Example ex_reuse_result : w_log (run ex_reuse) = [LCall 0 1 0] /\ map s_rc (w_subs (run ex_reuse)) = [Some 1; None].
Proof. vm_compute. split; reflexivity. Qed.

(* the stopped-shaped status: assertion, returncode stays None, callback never runs *)
Example ex_assert : w_log (run [ESpawn 5; EReg 0 0; EExit 5 4991; ESigchld; ELoop]) = [LAssert 0].
Proof. vm_compute. reflexivity. Qed.
