(* C42 — tornado/process.py: Subprocess.set_exit_callback / wait_for_exit /
   initialize / _cleanup / _try_cleanup_process / _set_returncode.
   Executable model of the code as it is in /repo.  Definitions only.

   The world is: the kernel's child table (the oracle behind os.waitpid), the
   Subprocess objects created so far (index = object identity "sid"), the class
   attributes Subprocess._waiting (an insertion-ordered dict pid -> object) and
   Subprocess._initialized, the IOLoop's pending `add_callback(_set_returncode,
   status)` calls, and a log of what the callbacks observed.                      *)
From Coq Require Import List ZArith Bool Arith.
Import ListNotations.
Local Open Scope Z_scope.

(* ---------- wait-status macros (glibc, as used by CPython's os module) ---------- *)
Definition WTERMSIG (s : Z) : Z := Z.land s 127.
(* ((signed char)((s & 0x7f) + 1) >> 1) > 0 *)
Definition WIFSIGNALED (s : Z) : bool :=
  negb (Z.land s 127 =? 0) && negb (Z.land s 127 =? 127).
Definition WIFEXITED (s : Z) : bool := Z.land s 127 =? 0.
Definition WEXITSTATUS (s : Z) : Z := Z.land (Z.shiftr s 8) 255.

(* the decoding done by _set_returncode; None = `assert os.WIFEXITED(status)` fails *)
Definition decode (st : Z) : option Z :=
  if WIFSIGNALED st then Some (- WTERMSIG st)
  else if WIFEXITED st then Some (WEXITSTATUS st)
  else None.

(* ---------- dicts keyed by pid (insertion ordered, like Python's) ---------- *)
Fixpoint a_find {V} (pid : Z) (d : list (Z * V)) : option V :=
  match d with
  | [] => None
  | (p, v) :: r => if p =? pid then Some v else a_find pid r
  end.
(* d[pid] = v : an existing key keeps its position *)
Fixpoint a_set {V} (pid : Z) (v : V) (d : list (Z * V)) : list (Z * V) :=
  match d with
  | [] => [(pid, v)]
  | (p, x) :: r => if p =? pid then (pid, v) :: r else (p, x) :: a_set pid v r
  end.
Fixpoint a_remove {V} (pid : Z) (d : list (Z * V)) : list (Z * V) :=
  match d with
  | [] => []
  | (p, x) :: r => if p =? pid then a_remove pid r else (p, x) :: a_remove pid r
  end.

(* ---------- the kernel's view of one child ---------- *)
Inductive kst :=
| KRun                 (* waitpid(pid, WNOHANG) = (0, 0) *)
| KZombie (st : Z)     (* exited, not yet waited for: waitpid = (pid, st), then KReaped *)
| KReaped (st : Z).    (* already waited for: waitpid raises ChildProcessError *)
(* a pid absent from the table is not a child: ChildProcessError as well *)

(* ---------- Subprocess objects ---------- *)
Inductive cbk :=
| CbPlain (label : nat)                               (* callback given to set_exit_callback *)
| CbFut (label : nat) (idx : nat) (raise_error : bool).   (* the closure made by wait_for_exit; idx = which future *)
Definition cb_label (c : cbk) : nat :=
  match c with CbPlain l => l | CbFut l _ _ => l end.

Inductive fut := FPending | FResult (r : Z) | FError (r : Z).   (* FError = CalledProcessError(r, "unknown") *)

Record sub := mkSub {
  s_pid : Z;
  s_cb : option cbk;              (* self._exit_callback *)
  s_rc : option Z;                (* self.returncode (= self.proc.returncode) *)
  s_futs : list (nat * fut)       (* futures returned by wait_for_exit on this object, (label, state), oldest first *)
}.

Inductive logev :=
| LCall (sid label : nat) (ret : Z)   (* an exit callback ran with this argument *)
| LAssert (sid : nat)                 (* _set_returncode raised AssertionError (logged by the IOLoop) *)
| LKeyError (pid : Z)                 (* cls._waiting.pop(pid) raised KeyError *)
| LInvalid (sid label : nat)          (* a future was resolved twice (InvalidStateError) *)
| LBadRef (sid : nat).                (* model-only: dangling object index; proved unreachable *)

(* what is pending on the IOLoop (io_loop.add_callback) *)
Inductive qitem :=
| QSet (sid : nat) (st : Z)               (* subproc._set_returncode(status), queued by _try_cleanup_process *)
| QCall (sid : nat) (c : cbk) (rc : Z).   (* callback(returncode), queued by set_exit_callback on an already reported object *)
Definition q_sid (x : qitem) : nat := match x with QSet s _ => s | QCall s _ _ => s end.

Record world := mkW {
  w_kern : list (Z * kst);
  w_subs : list sub;
  w_waiting : list (Z * nat);      (* Subprocess._waiting : pid -> object *)
  w_queue : list qitem;            (* pending io_loop.add_callback(...) calls, oldest first *)
  w_init : bool;                   (* Subprocess._initialized: the SIGCHLD handler is installed *)
  w_log : list logev
}.

Definition w0 : world := mkW [] [] [] [] false [].

Fixpoint upd_nth {A} (n : nat) (x : A) (l : list A) : list A :=
  match l, n with
  | [], _ => []
  | _ :: r, O => x :: r
  | a :: r, S n' => a :: upd_nth n' x r
  end.

(* ---------- _try_cleanup_process(pid) ---------- *)
Definition try_cleanup (w : world) (pid : Z) : world :=
  match a_find pid (w_kern w) with
  | Some (KZombie st) =>                     (* ret_pid == pid *)
      match a_find pid (w_waiting w) with
      | Some sid =>
          mkW (a_set pid (KReaped st) (w_kern w)) (w_subs w) (a_remove pid (w_waiting w))
              (w_queue w ++ [QSet sid st]) (w_init w) (w_log w)
      | None =>                               (* pop raises KeyError after the child was reaped *)
          mkW (a_set pid (KReaped st) (w_kern w)) (w_subs w) (w_waiting w)
              (w_queue w) (w_init w) (w_log w ++ [LKeyError pid])
      end
  | Some KRun => w                            (* ret_pid == 0 *)
  | Some (KReaped _) => w                     (* ChildProcessError *)
  | None => w                                 (* ChildProcessError *)
  end.

(* ---------- _cleanup(): for pid in list(cls._waiting.keys()) ---------- *)
Definition cleanup (w : world) : world :=
  fold_left try_cleanup (map fst (w_waiting w)) w.

(* ---------- set_exit_callback(cb) on object sid.
   wait_for_exit first creates its future ([prep]) and builds the closure ([cbof], computed from the object as it
   was before); set_exit_callback then either
     - (returncode is not None: the exit was already reported) queues callback(returncode) on the IOLoop and returns, or
     - stores the callback, calls initialize(), puts the object into _waiting and probes the child once. ---------- *)
Definition set_cb (c : cbk) (s : sub) : sub := mkSub (s_pid s) (Some c) (s_rc s) (s_futs s).

Definition register (w : world) (sid : nat) (prep : sub -> sub) (cbof : sub -> cbk) : world :=
  match nth_error (w_subs w) sid with
  | None => w                                  (* no such object: the event is not executable *)
  | Some s =>
      match s_rc s with
      | Some rc =>
          mkW (w_kern w) (upd_nth sid (prep s) (w_subs w)) (w_waiting w)
              (w_queue w ++ [QCall sid (cbof s) rc]) (w_init w) (w_log w)
      | None =>
          try_cleanup
            (mkW (w_kern w) (upd_nth sid (set_cb (cbof s) (prep s)) (w_subs w)) (a_set (s_pid s) sid (w_waiting w))
                 (w_queue w) true (w_log w))
            (s_pid s)
      end
  end.

Definition prep_plain (s : sub) : sub := s.
Definition cb_plain (label : nat) (s : sub) : cbk := CbPlain label.
Definition prep_fut (label : nat) (s : sub) : sub :=
  mkSub (s_pid s) (s_cb s) (s_rc s) (s_futs s ++ [(label, FPending)]).
Definition cb_fut (label : nat) (raise_error : bool) (s : sub) : cbk := CbFut label (length (s_futs s)) raise_error.

(* ---------- the callback bodies ---------- *)
Definition resolve (raise_error : bool) (rc : Z) : fut :=
  if negb (rc =? 0) && raise_error then FError rc else FResult rc.

Definition invoke (sid : nat) (s : sub) (c : cbk) (rc : Z) : sub * list logev :=
  match c with
  | CbPlain l => (s, [LCall sid l rc])
  | CbFut l i re =>
      match nth_error (s_futs s) i with
      | Some (l', FPending) =>
          (mkSub (s_pid s) (s_cb s) (s_rc s) (upd_nth i (l', resolve re rc) (s_futs s)),
           [LCall sid l rc])
      | Some (_, _) => (s, [LCall sid l rc; LInvalid sid l])
      | None => (s, [LCall sid l rc; LBadRef sid])
      end
  end.

(* ---------- _set_returncode(status) run by the IOLoop ---------- *)
Definition set_rc (w : world) (x : nat * Z) : world :=
  let '(sid, st) := x in
  match nth_error (w_subs w) sid with
  | None => mkW (w_kern w) (w_subs w) (w_waiting w) (w_queue w) (w_init w) (w_log w ++ [LBadRef sid])
  | Some s =>
      match decode st with
      | None => mkW (w_kern w) (w_subs w) (w_waiting w) (w_queue w) (w_init w) (w_log w ++ [LAssert sid])
      | Some rc =>
          let s1 := mkSub (s_pid s) (s_cb s) (Some rc) (s_futs s) in
          match s_cb s with
          | None => mkW (w_kern w) (upd_nth sid s1 (w_subs w)) (w_waiting w) (w_queue w) (w_init w) (w_log w)
          | Some c =>
              let s2 := mkSub (s_pid s) None (Some rc) (s_futs s) in
              let '(s3, evs) := invoke sid s2 c rc in
              mkW (w_kern w) (upd_nth sid s3 (w_subs w)) (w_waiting w) (w_queue w) (w_init w) (w_log w ++ evs)
          end
      end
  end.

(* callback(returncode) run by the IOLoop for a late registration *)
Definition late_call (w : world) (sid : nat) (c : cbk) (rc : Z) : world :=
  match nth_error (w_subs w) sid with
  | None => mkW (w_kern w) (w_subs w) (w_waiting w) (w_queue w) (w_init w) (w_log w ++ [LBadRef sid])
  | Some s =>
      let '(s3, evs) := invoke sid s c rc in
      mkW (w_kern w) (upd_nth sid s3 (w_subs w)) (w_waiting w) (w_queue w) (w_init w) (w_log w ++ evs)
  end.

Definition run_item (w : world) (x : qitem) : world :=
  match x with
  | QSet sid st => set_rc w (sid, st)
  | QCall sid c rc => late_call w sid c rc
  end.

(* one turn of the IOLoop: the callbacks queued so far run in order *)
Definition run_loop (w : world) : world :=
  fold_left run_item (w_queue w)
            (mkW (w_kern w) (w_subs w) (w_waiting w) [] (w_init w) (w_log w)).

(* ---------- events ---------- *)
Inductive event :=
| ESpawn (pid : Z)                          (* Subprocess(...) : Popen returned this pid *)
| EExit (pid : Z) (st : Z)                  (* kernel: the child terminates with wait status st *)
| ESigchld                                  (* the process receives (possibly coalesced) SIGCHLD *)
| EReg (sid label : nat)                    (* objects[sid].set_exit_callback(cb_label) *)
| EWait (sid label : nat) (raise_error : bool)   (* objects[sid].wait_for_exit(raise_error) *)
| ELoop                                     (* the IOLoop runs its pending callbacks *)
| EInit                                     (* Subprocess.initialize(): install the SIGCHLD handler *)
| EUninit.                                  (* Subprocess.uninitialize(): remove it *)

Definition step (w : world) (e : event) : world :=
  match e with
  | ESpawn pid =>
      mkW (a_set pid KRun (w_kern w)) (w_subs w ++ [mkSub pid None None []])
          (w_waiting w) (w_queue w) (w_init w) (w_log w)
  | EExit pid st =>
      match a_find pid (w_kern w) with
      | Some KRun => mkW (a_set pid (KZombie st) (w_kern w)) (w_subs w) (w_waiting w)
                         (w_queue w) (w_init w) (w_log w)
      | _ => w
      end
  | ESigchld => if w_init w then cleanup w else w      (* no handler installed: signal ignored *)
  | EReg sid l => register w sid prep_plain (cb_plain l)
  | EWait sid l re => register w sid (prep_fut l) (cb_fut l re)
  | ELoop => run_loop w
  | EInit => mkW (w_kern w) (w_subs w) (w_waiting w) (w_queue w) true (w_log w)
  | EUninit => mkW (w_kern w) (w_subs w) (w_waiting w) (w_queue w) false (w_log w)
  end.

Definition run (es : list event) : world := fold_left step es w0.

(* ---------- trace vocabulary used by the statements ---------- *)
Definition spawn_pids (es : list event) : list Z :=
  flat_map (fun e => match e with ESpawn p => [p] | _ => [] end) es.

Fixpoint zmem (x : Z) (l : list Z) : bool :=
  match l with [] => false | y :: r => (x =? y) || zmem x r end.
Fixpoint znodup (l : list Z) : bool :=
  match l with [] => true | x :: r => negb (zmem x r) && znodup r end.

(* the kernel never hands out the pid of a child twice (sufficient form: all spawned pids distinct) *)
Definition wf (es : list event) : bool := znodup (spawn_pids es).

Definition is_call_of (sid : nat) (e : logev) : bool :=
  match e with
  | LCall s _ _ => Nat.eqb s sid
  | LAssert s => Nat.eqb s sid
  | LInvalid s _ => Nat.eqb s sid
  | LBadRef s => Nat.eqb s sid
  | LKeyError _ => false
  end.
Definition calls_of (sid : nat) (log : list logev) : list logev := filter (is_call_of sid) log.
