(* C42 — basic lemmas: dicts, object table, the global invariant of the world. *)
From Coq Require Import List ZArith Bool Arith Lia.
Import ListNotations.
From TV Require Import C42.Model C42.Spec.
Local Open Scope Z_scope.

(* ---------- dicts ---------- *)
Lemma a_find_set_same {V} p (v : V) d : a_find p (a_set p v d) = Some v.
Proof.
  induction d as [|[q x] d IH]; simpl.
  - rewrite Z.eqb_refl. reflexivity.
  - destruct (q =? p) eqn:E; simpl; [rewrite Z.eqb_refl; reflexivity|rewrite E; exact IH].
Qed.

Lemma a_find_set_other {V} p q (v : V) d : p <> q -> a_find q (a_set p v d) = a_find q d.
Proof.
  intros N. induction d as [|[r x] d IH]; simpl.
  - destruct (p =? q) eqn:E; [apply Z.eqb_eq in E; contradiction|reflexivity].
  - destruct (r =? p) eqn:E; simpl.
    + apply Z.eqb_eq in E. subst r. destruct (p =? q) eqn:E2; [apply Z.eqb_eq in E2; contradiction|reflexivity].
    + destruct (r =? q); [reflexivity|exact IH].
Qed.

Lemma a_find_remove_same {V} p (d : list (Z * V)) : a_find p (a_remove p d) = None.
Proof.
  induction d as [|[r x] d IH]; simpl; [reflexivity|].
  destruct (r =? p) eqn:E; [exact IH|]. simpl. rewrite E. exact IH.
Qed.

Lemma a_find_remove_other {V} p q (d : list (Z * V)) : p <> q -> a_find q (a_remove p d) = a_find q d.
Proof.
  intros N. induction d as [|[r x] d IH]; simpl; [reflexivity|].
  destruct (r =? p) eqn:E.
  - apply Z.eqb_eq in E. subst r. destruct (p =? q) eqn:E2; [apply Z.eqb_eq in E2; contradiction|exact IH].
  - simpl. destruct (r =? q); [reflexivity|exact IH].
Qed.

Lemma in_a_set {V} p (v : V) d q x : In (q, x) (a_set p v d) -> (q, x) = (p, v) \/ In (q, x) d.
Proof.
  induction d as [|[r y] d IH]; simpl.
  - intros [H|[]]; left; symmetry; exact H.
  - destruct (r =? p) eqn:E; simpl.
    + intros [H|H]; [left; symmetry; exact H|right; right; exact H].
    + intros [H|H]; [right; left; exact H|]. destruct (IH H) as [K|K]; [left; exact K|right; right; exact K].
Qed.

Lemma in_a_remove {V} p (d : list (Z * V)) q x : In (q, x) (a_remove p d) -> In (q, x) d.
Proof.
  induction d as [|[r y] d IH]; simpl; [tauto|].
  destruct (r =? p); simpl; [intros H; right; exact (IH H)|].
  intros [H|H]; [left; exact H|right; exact (IH H)].
Qed.

Lemma a_find_in {V} p d (v : V) : a_find p d = Some v -> In (p, v) d.
Proof.
  induction d as [|[r y] d IH]; simpl; [discriminate|].
  destruct (r =? p) eqn:E.
  - apply Z.eqb_eq in E. subst r. intros [= ->]. left; reflexivity.
  - intros H. right. exact (IH H).
Qed.

Lemma a_find_none_keys {V} p (d : list (Z * V)) : a_find p d = None <-> ~ In p (map fst d).
Proof.
  induction d as [|[r y] d IH]; simpl; [tauto|].
  destruct (r =? p) eqn:E.
  - apply Z.eqb_eq in E. split; [discriminate|]. intros H. exfalso. apply H. left; exact E.
  - apply Z.eqb_neq in E. rewrite IH. tauto.
Qed.

Lemma zmem_in x l : zmem x l = true <-> In x l.
Proof.
  induction l as [|y l IH]; simpl; [split; [discriminate|tauto]|].
  rewrite orb_true_iff, IH, Z.eqb_eq. split; intros [H|H]; auto.
Qed.

Lemma znodup_nodup l : znodup l = true <-> NoDup l.
Proof.
  induction l as [|y l IH]; simpl.
  - split; [constructor|reflexivity].
  - rewrite andb_true_iff, negb_true_iff, IH. split.
    + intros [H1 H2]. constructor; [|exact H2]. intros K. apply zmem_in in K. congruence.
    + intros H. inversion H as [|? ? H1 H2]; subst. split; [|exact H2].
      destruct (zmem y l) eqn:E; [apply zmem_in in E; contradiction|reflexivity].
Qed.

(* ---------- the object table ---------- *)
Lemma length_upd {A} n (x : A) l : length (upd_nth n x l) = length l.
Proof. revert n; induction l as [|a l IH]; intros [|n]; simpl; auto. Qed.

Lemma nth_upd_same {A} n (x : A) l : (n < length l)%nat -> nth_error (upd_nth n x l) n = Some x.
Proof.
  revert n; induction l as [|a l IH]; intros [|n] H; simpl in *; try lia; [reflexivity|].
  apply IH. lia.
Qed.

Lemma nth_upd_other {A} n m (x : A) l : n <> m -> nth_error (upd_nth n x l) m = nth_error l m.
Proof.
  revert n m; induction l as [|a l IH]; intros [|n] [|m] H; simpl; try reflexivity; try congruence.
  apply IH. congruence.
Qed.

Lemma map_upd_same {A B} (f : A -> B) n x y l :
  nth_error l n = Some y -> f x = f y -> map f (upd_nth n x l) = map f l.
Proof.
  revert n; induction l as [|a l IH]; intros [|n] H E; simpl in *; try discriminate.
  - injection H as ->. rewrite E. reflexivity.
  - f_equal. exact (IH n H E).
Qed.

Lemma nth_error_lt {A} (l : list A) n x : nth_error l n = Some x -> (n < length l)%nat.
Proof. intros H. apply nth_error_Some. congruence. Qed.

Lemma nodup_map_nth {A B} (f : A -> B) l i j a b :
  NoDup (map f l) -> nth_error l i = Some a -> nth_error l j = Some b -> f a = f b -> i = j.
Proof.
  intros ND Hi Hj E.
  apply (proj1 (NoDup_nth_error (map f l)) ND).
  - rewrite map_length. exact (nth_error_lt _ _ _ Hi).
  - rewrite (map_nth_error f _ _ Hi), (map_nth_error f _ _ Hj), E. reflexivity.
Qed.

(* ---------- per-object views of the shared queue and log ---------- *)
Lemma qfilter_app sid a b : qfilter sid (a ++ b) = qfilter sid a ++ qfilter sid b.
Proof. unfold qfilter. apply filter_app. Qed.

Lemma calls_app sid a b : calls_of sid (a ++ b) = calls_of sid a ++ calls_of sid b.
Proof. unfold calls_of. apply filter_app. Qed.

Definition log_ok (n : nat) (e : logev) : Prop :=
  match e with
  | LCall s _ _ | LAssert s | LInvalid s _ | LBadRef s => (s < n)%nat
  | LKeyError _ => True
  end.

Lemma log_ok_mono n m e : (n <= m)%nat -> log_ok n e -> log_ok m e.
Proof. destruct e; simpl; lia. Qed.

Lemma calls_none n log : (forall e, In e log -> log_ok n e) -> forall sid, (n <= sid)%nat -> calls_of sid log = [].
Proof.
  intros H sid L. unfold calls_of. induction log as [|e log IH]; simpl; [reflexivity|].
  assert (K := H e (or_introl eq_refl)).
  assert (is_call_of sid e = false) as ->.
  { destruct e; simpl in *; try reflexivity; apply Nat.eqb_neq; lia. }
  apply IH. intros e' He'. apply H. right; exact He'.
Qed.

Lemma qfilter_none n q : (forall x, In x q -> (q_sid x < n)%nat) -> forall sid, (n <= sid)%nat -> qfilter sid q = [].
Proof.
  intros H sid L. unfold qfilter. induction q as [|x q IH]; simpl; [reflexivity|].
  assert (K := H x (or_introl eq_refl)).
  assert (Nat.eqb (q_sid x) sid = false) as -> by (apply Nat.eqb_neq; lia).
  apply IH. intros x' H'. apply H. right; exact H'.
Qed.

(* ---------- the global invariant ---------- *)
Record G (w : world) : Prop := mkG {
  g_wait : forall p s, In (p, s) (w_waiting w) -> exists sb, nth_error (w_subs w) s = Some sb /\ s_pid sb = p;
  g_pids : NoDup (map s_pid (w_subs w));
  g_queue : forall x, In x (w_queue w) -> (q_sid x < length (w_subs w))%nat;
  g_log : forall e, In e (w_log w) -> log_ok (length (w_subs w)) e;
  g_kern : forall p k, a_find p (w_kern w) = Some k -> In p (map s_pid (w_subs w))
}.

Lemma G_w0 : G w0.
Proof. constructor; simpl; try tauto; try constructor; discriminate. Qed.

(* ---------- _try_cleanup_process ---------- *)
Lemma try_subs w q : w_subs (try_cleanup w q) = w_subs w.
Proof. unfold try_cleanup. destruct (a_find q (w_kern w)) as [[]|]; try reflexivity. destruct (a_find q (w_waiting w)); reflexivity. Qed.

Lemma try_init w q : w_init (try_cleanup w q) = w_init w.
Proof. unfold try_cleanup. destruct (a_find q (w_kern w)) as [[]|]; try reflexivity. destruct (a_find q (w_waiting w)); reflexivity. Qed.

Lemma try_G w q : G w -> G (try_cleanup w q).
Proof.
  intros Gw. unfold try_cleanup.
  destruct (a_find q (w_kern w)) as [[|st|st]|] eqn:K; try exact Gw.
  assert (Hq : In q (map s_pid (w_subs w))) by exact (g_kern w Gw q _ K).
  assert (Hk : forall p k, a_find p (a_set q (KReaped st) (w_kern w)) = Some k -> In p (map s_pid (w_subs w))).
  { intros p k H. destruct (Z.eq_dec q p) as [<-|N]; [exact Hq|].
    rewrite a_find_set_other in H by exact N. exact (g_kern w Gw p k H). }
  destruct (a_find q (w_waiting w)) as [sid|] eqn:W; constructor; simpl.
  - intros p s H. apply in_a_remove in H. exact (g_wait w Gw p s H).
  - exact (g_pids w Gw).
  - intros x H. apply in_app_or in H as [H|[<-|[]]]; [exact (g_queue w Gw x H)|].
    simpl. apply a_find_in in W. destruct (g_wait w Gw q sid W) as [sb [Hs _]].
    exact (nth_error_lt _ _ _ Hs).
  - exact (g_log w Gw).
  - exact Hk.
  - exact (g_wait w Gw).
  - exact (g_pids w Gw).
  - exact (g_queue w Gw).
  - intros e H. apply in_app_or in H as [H|[<-|[]]]; [exact (g_log w Gw e H)|exact I].
  - exact Hk.
Qed.

Lemma fold_try_G ps : forall w, G w -> G (fold_left try_cleanup ps w).
Proof. induction ps as [|q ps IH]; intros w Gw; simpl; [exact Gw|]. apply IH. apply try_G. exact Gw. Qed.

Lemma fold_try_subs ps : forall w, w_subs (fold_left try_cleanup ps w) = w_subs w.
Proof. induction ps as [|q ps IH]; intros w; simpl; [reflexivity|]. rewrite IH. apply try_subs. Qed.

Lemma fold_try_init ps : forall w, w_init (fold_left try_cleanup ps w) = w_init w.
Proof. induction ps as [|q ps IH]; intros w; simpl; [reflexivity|]. rewrite IH. apply try_init. Qed.

(* ---------- registration ---------- *)
(* what wait_for_exit / set_exit_callback may do to the object before the callback is stored or queued *)
Definition good_prep (prep : sub -> sub) : Prop :=
  forall s, s_pid (prep s) = s_pid s /\ s_cb (prep s) = s_cb s /\ s_rc (prep s) = s_rc s.
Lemma prep_plain_good : good_prep prep_plain.
Proof. intros s. repeat split. Qed.
Lemma prep_fut_good l : good_prep (prep_fut l).
Proof. intros s. repeat split. Qed.

Definition reg_mid (w : world) (sid : nat) (s' : sub) : world :=
  mkW (w_kern w) (upd_nth sid s' (w_subs w)) (a_set (s_pid s') sid (w_waiting w)) (w_queue w) true (w_log w).
Definition reg_late (w : world) (sid : nat) (s' : sub) (c : cbk) (rc : Z) : world :=
  mkW (w_kern w) (upd_nth sid s' (w_subs w)) (w_waiting w) (w_queue w ++ [QCall sid c rc]) (w_init w) (w_log w).

Lemma register_eq w sid prep cbof s : good_prep prep -> nth_error (w_subs w) sid = Some s -> s_rc s = None ->
  register w sid prep cbof = try_cleanup (reg_mid w sid (set_cb (cbof s) (prep s))) (s_pid s).
Proof. intros K H N. unfold register, reg_mid. rewrite H, N. simpl. rewrite (proj1 (K s)). reflexivity. Qed.

Lemma register_late_eq w sid prep cbof s rc : nth_error (w_subs w) sid = Some s -> s_rc s = Some rc ->
  register w sid prep cbof = reg_late w sid (prep s) (cbof s) rc.
Proof. intros H N. unfold register, reg_late. rewrite H, N. reflexivity. Qed.

Lemma upd_G_core w sid s s' : G w -> nth_error (w_subs w) sid = Some s -> s_pid s' = s_pid s ->
  (forall p x, In (p, x) (w_waiting w) -> exists sb, nth_error (upd_nth sid s' (w_subs w)) x = Some sb /\ s_pid sb = p) /\
  map s_pid (upd_nth sid s' (w_subs w)) = map s_pid (w_subs w).
Proof.
  intros Gw Hs E. assert (L := nth_error_lt _ _ _ Hs). split.
  - intros p x H. destruct (g_wait w Gw p x H) as [sb [H1 H2]].
    destruct (Nat.eq_dec sid x) as [<-|N].
    + exists s'. split; [apply nth_upd_same; exact L|]. rewrite Hs in H1. injection H1 as <-. congruence.
    + exists sb. split; [rewrite nth_upd_other by exact N; exact H1|exact H2].
  - exact (map_upd_same s_pid _ _ _ _ Hs E).
Qed.

Lemma reg_mid_G w sid s s' : G w -> nth_error (w_subs w) sid = Some s -> s_pid s' = s_pid s -> G (reg_mid w sid s').
Proof.
  intros Gw Hs E. assert (L := nth_error_lt _ _ _ Hs).
  destruct (upd_G_core w sid s s' Gw Hs E) as [Wt M].
  constructor; simpl.
  - intros p x H. apply in_a_set in H as [H|H].
    + injection H as -> ->. exists s'. split; [apply nth_upd_same; exact L|reflexivity].
    + exact (Wt p x H).
  - rewrite M. exact (g_pids w Gw).
  - intros x H. rewrite length_upd. exact (g_queue w Gw x H).
  - intros e H. rewrite length_upd. exact (g_log w Gw e H).
  - intros p k H. rewrite M. exact (g_kern w Gw p k H).
Qed.

Lemma reg_late_G w sid s s' c rc : G w -> nth_error (w_subs w) sid = Some s -> s_pid s' = s_pid s -> G (reg_late w sid s' c rc).
Proof.
  intros Gw Hs E. assert (L := nth_error_lt _ _ _ Hs).
  destruct (upd_G_core w sid s s' Gw Hs E) as [Wt M].
  constructor; simpl.
  - exact Wt.
  - rewrite M. exact (g_pids w Gw).
  - intros x H. rewrite length_upd. apply in_app_or in H as [H|[<-|[]]]; [exact (g_queue w Gw x H)|exact L].
  - intros e H. rewrite length_upd. exact (g_log w Gw e H).
  - intros p k H. rewrite M. exact (g_kern w Gw p k H).
Qed.

Lemma register_G w sid prep cbof : good_prep prep -> G w -> G (register w sid prep cbof).
Proof.
  intros K Gw. destruct (nth_error (w_subs w) sid) as [s|] eqn:Hs.
  - destruct (s_rc s) as [rc|] eqn:Rc.
    + rewrite (register_late_eq w sid prep cbof s rc Hs Rc). apply (reg_late_G w sid s); [exact Gw|exact Hs|apply K].
    + rewrite (register_eq w sid prep cbof s K Hs Rc). apply try_G.
      apply (reg_mid_G w sid s); [exact Gw|exact Hs|]. simpl. apply K.
  - unfold register. rewrite Hs. exact Gw.
Qed.

Lemma register_len w sid prep cbof : length (w_subs (register w sid prep cbof)) = length (w_subs w).
Proof.
  unfold register. destruct (nth_error (w_subs w) sid) as [s|]; [|reflexivity].
  destruct (s_rc s); [simpl; apply length_upd|]. rewrite try_subs. simpl. apply length_upd.
Qed.

(* ---------- _set_returncode ---------- *)
Lemma invoke_pid sid s c rc : s_pid (fst (invoke sid s c rc)) = s_pid s.
Proof.
  destruct c as [l|l i re]; simpl; [reflexivity|].
  destruct (nth_error (s_futs s) i) as [[l' []]|]; reflexivity.
Qed.

Lemma invoke_calls_self sid s c rc : calls_of sid (snd (invoke sid s c rc)) = snd (invoke sid s c rc).
Proof.
  unfold calls_of. destruct c as [l|l i re]; simpl.
  - rewrite Nat.eqb_refl. reflexivity.
  - destruct (nth_error (s_futs s) i) as [[l' []]|]; simpl; rewrite ?Nat.eqb_refl; reflexivity.
Qed.

Lemma invoke_calls_other sid sid' s c rc : sid' <> sid -> calls_of sid (snd (invoke sid' s c rc)) = [].
Proof.
  intros N. apply Nat.eqb_neq in N. unfold calls_of. destruct c as [l|l i re]; simpl.
  - rewrite N. reflexivity.
  - destruct (nth_error (s_futs s) i) as [[l' []]|]; simpl; rewrite ?N; reflexivity.
Qed.

Lemma invoke_log_ok n sid s c rc : (sid < n)%nat -> forall e, In e (snd (invoke sid s c rc)) -> log_ok n e.
Proof.
  intros L e. destruct c as [l|l i re]; simpl.
  - intros [<-|[]]. exact L.
  - destruct (nth_error (s_futs s) i) as [[l' []]|]; simpl; intros H;
      repeat (destruct H as [<-|H]; [exact L|]); destruct H.
Qed.

Lemma set_rc_len w x : length (w_subs (set_rc w x)) = length (w_subs w).
Proof.
  destruct x as [sid st]. unfold set_rc.
  destruct (nth_error (w_subs w) sid) as [s|]; [|reflexivity].
  destruct (decode st) as [rc|]; [|reflexivity].
  destruct (s_cb s) as [c|]; [|simpl; apply length_upd].
  destruct (invoke sid _ c rc) as [s3 evs]. simpl. apply length_upd.
Qed.

Lemma set_rc_queue w x : w_queue (set_rc w x) = w_queue w.
Proof.
  destruct x as [sid st]. unfold set_rc.
  destruct (nth_error (w_subs w) sid) as [s|]; [|reflexivity].
  destruct (decode st) as [rc|]; [|reflexivity].
  destruct (s_cb s) as [c|]; [|reflexivity].
  destruct (invoke sid _ c rc) as [s3 evs]. reflexivity.
Qed.

Lemma set_rc_G w sid st : G w -> (sid < length (w_subs w))%nat -> G (set_rc w (sid, st)).
Proof.
  intros Gw L. unfold set_rc.
  destruct (nth_error (w_subs w) sid) as [s|] eqn:Hs; [|apply nth_error_None in Hs; lia].
  assert (Upd : forall s', s_pid s' = s_pid s -> forall evs, (forall e, In e evs -> log_ok (length (w_subs w)) e) ->
            G (mkW (w_kern w) (upd_nth sid s' (w_subs w)) (w_waiting w) (w_queue w) (w_init w) (w_log w ++ evs))).
  { intros s' E evs Hev.
    assert (M : map s_pid (upd_nth sid s' (w_subs w)) = map s_pid (w_subs w)) by exact (map_upd_same s_pid _ _ _ _ Hs E).
    constructor; simpl.
    - intros p x H. destruct (g_wait w Gw p x H) as [sb [H1 H2]].
      destruct (Nat.eq_dec sid x) as [<-|N].
      + exists s'. split; [apply nth_upd_same; exact L|]. rewrite Hs in H1. injection H1 as <-. congruence.
      + exists sb. split; [rewrite nth_upd_other by exact N; exact H1|exact H2].
    - rewrite M. exact (g_pids w Gw).
    - intros x H. rewrite length_upd. exact (g_queue w Gw x H).
    - intros e H. rewrite length_upd. apply in_app_or in H as [H|H]; [exact (g_log w Gw e H)|exact (Hev e H)].
    - intros p k H. rewrite M. exact (g_kern w Gw p k H). }
  destruct (decode st) as [rc|].
  - destruct (s_cb s) as [c|] eqn:Hc.
    + pose proof (invoke_pid sid (mkSub (s_pid s) None (Some rc) (s_futs s)) c rc) as P.
      pose proof (invoke_log_ok (length (w_subs w)) sid (mkSub (s_pid s) None (Some rc) (s_futs s)) c rc L) as Q.
      destruct (invoke sid _ c rc) as [s3 evs]. simpl in P, Q. apply Upd; [exact P|exact Q].
    + replace (w_log w) with (w_log w ++ []) by apply app_nil_r. apply Upd; [reflexivity|intros e []].
  - destruct Gw as [a b c d e]. constructor; simpl; auto.
    intros e' H. apply in_app_or in H as [H|[<-|[]]]; [exact (d e' H)|exact L].
Qed.

(* ---------- callback(returncode) for a late registration; one queue item ---------- *)
Lemma late_call_len w sid c rc : length (w_subs (late_call w sid c rc)) = length (w_subs w).
Proof.
  unfold late_call. destruct (nth_error (w_subs w) sid) as [s|]; [|reflexivity].
  destruct (invoke sid s c rc) as [s3 evs]. simpl. apply length_upd.
Qed.

Lemma late_call_queue w sid c rc : w_queue (late_call w sid c rc) = w_queue w.
Proof.
  unfold late_call. destruct (nth_error (w_subs w) sid) as [s|]; [|reflexivity].
  destruct (invoke sid s c rc) as [s3 evs]. reflexivity.
Qed.

Lemma late_call_G w sid c rc : G w -> (sid < length (w_subs w))%nat -> G (late_call w sid c rc).
Proof.
  intros Gw L. unfold late_call.
  destruct (nth_error (w_subs w) sid) as [s|] eqn:Hs; [|apply nth_error_None in Hs; lia].
  pose proof (invoke_pid sid s c rc) as P. pose proof (invoke_log_ok (length (w_subs w)) sid s c rc L) as Q.
  destruct (invoke sid s c rc) as [s3 evs]. simpl in P, Q.
  destruct (upd_G_core w sid s s3 Gw Hs P) as [Wt M].
  constructor; simpl.
  - exact Wt.
  - rewrite M. exact (g_pids w Gw).
  - intros x H. rewrite length_upd. exact (g_queue w Gw x H).
  - intros e H. rewrite length_upd. apply in_app_or in H as [H|H]; [exact (g_log w Gw e H)|exact (Q e H)].
  - intros p k H. rewrite M. exact (g_kern w Gw p k H).
Qed.

Lemma run_item_len w x : length (w_subs (run_item w x)) = length (w_subs w).
Proof. destruct x as [sid st|sid c rc]; cbn [run_item]; [apply (set_rc_len w (sid, st))|apply late_call_len]. Qed.
Lemma run_item_queue w x : w_queue (run_item w x) = w_queue w.
Proof. destruct x as [sid st|sid c rc]; cbn [run_item]; [apply (set_rc_queue w (sid, st))|apply late_call_queue]. Qed.
Lemma run_item_G w x : G w -> (q_sid x < length (w_subs w))%nat -> G (run_item w x).
Proof. destruct x as [sid st|sid c rc]; cbn [run_item q_sid]; intros; [apply set_rc_G|apply late_call_G]; assumption. Qed.

Lemma fold_items_G q : forall w, G w -> (forall x, In x q -> (q_sid x < length (w_subs w))%nat) ->
  G (fold_left run_item q w) /\ length (w_subs (fold_left run_item q w)) = length (w_subs w) /\
  map s_pid (w_subs (fold_left run_item q w)) = map s_pid (w_subs w).
Proof.
  induction q as [|x q IH]; intros w Gw V; cbn [fold_left]; [split; [exact Gw|split; reflexivity]|].
  assert (L : (q_sid x < length (w_subs w))%nat) by (apply V; left; reflexivity).
  destruct (IH (run_item w x) (run_item_G w x Gw L)) as [A [B C]].
  { intros x' H'. rewrite run_item_len. apply V. right; exact H'. }
  split; [exact A|]. split; [exact (eq_trans B (run_item_len _ _))|].
  rewrite C. clear - Gw L. destruct x as [sid st|sid c rc]; cbn [run_item q_sid] in *.
  - unfold set_rc. destruct (nth_error (w_subs w) sid) as [sb|] eqn:Hs; [|reflexivity].
    destruct (decode st) as [rc|]; [|reflexivity].
    destruct (s_cb sb) as [c|]; [|simpl; apply (map_upd_same s_pid _ _ sb); [exact Hs|reflexivity]].
    pose proof (invoke_pid sid (mkSub (s_pid sb) None (Some rc) (s_futs sb)) c rc) as P.
    destruct (invoke sid _ c rc) as [s3 evs]. simpl in *.
    apply (map_upd_same s_pid _ _ sb); [exact Hs|exact P].
  - unfold late_call. destruct (nth_error (w_subs w) sid) as [sb|] eqn:Hs; [|reflexivity].
    pose proof (invoke_pid sid sb c rc) as P. destruct (invoke sid sb c rc) as [s3 evs]. simpl in *.
    apply (map_upd_same s_pid _ _ sb); [exact Hs|exact P].
Qed.
