(* C42 — wait-status decoding. *)
From Coq Require Import List ZArith Bool Lia.
Import ListNotations.
From TV Require Import C42.Model.
Local Open Scope Z_scope.

Lemma land127 s : Z.land s 127 = s mod 128.
Proof. change 127 with (Z.ones 7). rewrite Z.land_ones by lia. reflexivity. Qed.
Lemma land255 s : Z.land s 255 = s mod 256.
Proof. change 255 with (Z.ones 8). rewrite Z.land_ones by lia. reflexivity. Qed.

(* the macros read arithmetically *)
Lemma decode_arith st :
  decode st =
    if st mod 128 =? 0 then Some ((st / 256) mod 256)
    else if st mod 128 =? 127 then None
    else Some (- (st mod 128)).
Proof.
  unfold decode, WIFSIGNALED, WIFEXITED, WTERMSIG, WEXITSTATUS.
  rewrite !land127, land255, Z.shiftr_div_pow2 by lia. change (2 ^ 8) with 256.
  destruct (st mod 128 =? 0); simpl; [reflexivity|].
  destruct (st mod 128 =? 127); reflexivity.
Qed.

(* a child that called exit(c): status c * 256 *)
Lemma decode_exit c : 0 <= c < 256 -> decode (c * 256) = Some c.
Proof.
  intros H. rewrite decode_arith.
  assert (E : (c * 256) mod 128 = 0).
  { replace (c * 256) with (0 + (c * 2) * 128) by lia. rewrite Z_mod_plus_full. reflexivity. }
  rewrite E. cbn [Z.eqb]. rewrite Z_div_mult by lia. rewrite Z.mod_small by lia. reflexivity.
Qed.

(* a child killed by signal s, with or without the core-dump flag (bit 7), and whatever the high byte *)
Lemma decode_signal s core hi : 1 <= s < 127 -> 0 <= core <= 1 -> decode (s + 128 * core + 256 * hi) = Some (- s).
Proof.
  intros H Hc. rewrite decode_arith.
  replace (s + 128 * core + 256 * hi) with (s + (core + 2 * hi) * 128) by lia.
  rewrite Z_mod_plus_full, Z.mod_small by lia.
  destruct (s =? 0) eqn:E0; [lia|]. destruct (s =? 127) eqn:E1; [lia|]. reflexivity.
Qed.

(* stopped / continued-shaped statuses (never returned by waitpid without WUNTRACED/WCONTINUED) fail the assertion *)
Lemma decode_stopped st : st mod 128 = 127 -> decode st = None.
Proof. intros H. rewrite decode_arith, H. reflexivity. Qed.

Lemma decode_some_iff st : (exists rc, decode st = Some rc) <-> st mod 128 <> 127.
Proof.
  rewrite decode_arith. split.
  - intros [rc H] E. rewrite E in H. simpl in H. discriminate.
  - intros H. destruct (st mod 128 =? 0) eqn:E0; [eexists; reflexivity|].
    destruct (st mod 128 =? 127) eqn:E1; [lia|]. eexists; reflexivity.
Qed.

(* the reported value is in the documented range *)
Lemma decode_range st rc : decode st = Some rc -> -126 <= rc <= 255.
Proof.
  rewrite decode_arith. pose proof (Z.mod_pos_bound st 128 ltac:(lia)). pose proof (Z.mod_pos_bound (st / 256) 256 ltac:(lia)).
  destruct (st mod 128 =? 0) eqn:E0; [intros [= <-]; lia|].
  destruct (st mod 128 =? 127) eqn:E1; [discriminate|]. intros [= <-]. lia.
Qed.
