(* C42 — no internal error path is reachable; the model satisfies the checker. *)
From Coq Require Import List ZArith Bool Arith Lia.
From Coq Require String.
Import ListNotations.
From TV Require Import Lib.Obs C42.Model C42.Spec C42.Run C42.Proofs2 C42.Proofs3 C42.Proofs4 C42.Proofs5 C42.Proofs6.
Local Open Scope Z_scope.

(* ---------- `cls._waiting.pop(pid)` never raises KeyError (any trace, no rely condition) ---------- *)
Definition is_keyerr (e : logev) : bool := match e with LKeyError _ => true | _ => false end.
Definition nokey (w : world) : Prop := forall e, In e (w_log w) -> is_keyerr e = false.
Definition safe_probe (w : world) (q : Z) : Prop :=
  a_find q (w_waiting w) <> None \/ forall st, a_find q (w_kern w) <> Some (KZombie st).

Lemma try_nokey w q : nokey w -> safe_probe w q -> nokey (try_cleanup w q).
Proof.
  intros N S. unfold try_cleanup.
  destruct (a_find q (w_kern w)) as [[|st|st]|] eqn:K; try exact N.
  destruct (a_find q (w_waiting w)) as [sid|] eqn:W; [exact N|].
  destruct S as [S|S]; [congruence|]. exfalso. exact (S st K).
Qed.

Lemma try_safe w q0 q : safe_probe w q -> safe_probe (try_cleanup w q0) q.
Proof.
  intros S. unfold try_cleanup, safe_probe in *.
  destruct (a_find q0 (w_kern w)) as [[|st|st]|] eqn:K; try exact S.
  destruct (Z.eq_dec q0 q) as [->|NE].
  - right. intros st'. destruct (a_find q (w_waiting w)); simpl; rewrite a_find_set_same; discriminate.
  - destruct (a_find q0 (w_waiting w)); simpl.
    + rewrite a_find_remove_other, a_find_set_other by exact NE. exact S.
    + rewrite a_find_set_other by exact NE. exact S.
Qed.

Lemma fold_nokey ps : forall w, nokey w -> (forall q, In q ps -> safe_probe w q) -> nokey (fold_left try_cleanup ps w).
Proof.
  induction ps as [|q0 ps IH]; intros w N S; simpl; [exact N|].
  apply IH; [apply try_nokey; [exact N|apply S; left; reflexivity]|].
  intros q H. apply try_safe. apply S. right; exact H.
Qed.

Lemma set_rc_nokey w x : nokey w -> nokey (set_rc w x).
Proof.
  intros N. destruct x as [sid st]. unfold set_rc.
  destruct (nth_error (w_subs w) sid) as [s|].
  2:{ intros e H. simpl in H. apply in_app_or in H as [H|[<-|[]]]; [exact (N e H)|reflexivity]. }
  destruct (decode st) as [rc|].
  2:{ intros e H. simpl in H. apply in_app_or in H as [H|[<-|[]]]; [exact (N e H)|reflexivity]. }
  destruct (s_cb s) as [c|]; [|exact N].
  destruct (invoke sid (mkSub (s_pid s) None (Some rc) (s_futs s)) c rc) as [s3 evs] eqn:I.
  intros e H. simpl in H. apply in_app_or in H as [H|H]; [exact (N e H)|].
  destruct c as [l|l i re]; simpl in I.
  - injection I as <- <-. destruct H as [<-|[]]. reflexivity.
  - destruct (nth_error (s_futs s) i) as [[l' []]|]; injection I as <- <-; simpl in H;
      repeat (destruct H as [<-|H]; [reflexivity|]); destruct H.
Qed.

Lemma late_call_nokey w sid c rc : nokey w -> nokey (late_call w sid c rc).
Proof.
  intros N. unfold late_call. destruct (nth_error (w_subs w) sid) as [s|].
  2:{ intros e H. simpl in H. apply in_app_or in H as [H|[<-|[]]]; [exact (N e H)|reflexivity]. }
  destruct (invoke sid s c rc) as [s3 evs] eqn:I.
  intros e H. simpl in H. apply in_app_or in H as [H|H]; [exact (N e H)|].
  destruct c as [l|l i re]; simpl in I.
  - injection I as <- <-. destruct H as [<-|[]]. reflexivity.
  - destruct (nth_error (s_futs s) i) as [[l' []]|]; injection I as <- <-; simpl in H;
      repeat (destruct H as [<-|H]; [reflexivity|]); destruct H.
Qed.

Theorem no_keyerror : forall es, nokey (run es).
Proof.
  induction es as [|e es IH] using rev_ind; [intros e []|].
  rewrite run_snoc. set (w := run es) in *.
  destruct e as [p|p st| |s l|s l re| | |]; simpl; try exact IH.
  - destruct (a_find p (w_kern w)) as [[]|]; exact IH.
  - destruct (w_init w); [|exact IH]. apply fold_nokey; [exact IH|].
    intros q H. left. intros K. apply a_find_none_keys in K. contradiction.
  - unfold register. destruct (nth_error (w_subs w) s) as [sb|]; [|exact IH].
    destruct (s_rc sb); [exact IH|].
    apply try_nokey; [exact IH|]. left. simpl. rewrite a_find_set_same. discriminate.
  - unfold register. destruct (nth_error (w_subs w) s) as [sb|]; [|exact IH].
    destruct (s_rc sb); [exact IH|].
    apply try_nokey; [exact IH|]. left. simpl. rewrite a_find_set_same. discriminate.
  - unfold run_loop.
    assert (H : forall q w1, nokey w1 -> nokey (fold_left run_item q w1)).
    { induction q as [|x q IHq]; intros w1 N; cbn [fold_left]; [exact N|]. apply IHq.
      destruct x as [s0 st0|s0 c0 rc0]; cbn [run_item]; [apply (set_rc_nokey w1 (s0, st0))|apply late_call_nokey]; exact N. }
    apply H. exact IH.
Qed.

(* ---------- no InvalidStateError / dangling reference either (distinct pids) ---------- *)
Theorem only_calls_and_asserts es : wf es = true ->
  forall e, In e (w_log (run es)) -> exists s, (exists l rc, e = LCall s l rc) \/ e = LAssert s.
Proof.
  intros W e H. destruct (projection es W) as [Gw [Pw T]].
  pose proof (g_log _ Gw e H) as Ok.
  assert (Sid : forall s, (s < length (w_subs (run es)))%nat -> is_call_of s e = true ->
                exists s, (exists l rc, e = LCall s l rc) \/ e = LAssert s).
  { intros s L C. specialize (T s). destruct (track s es) as [c|] eqn:Tr; [|lia].
    unfold track in Tr. destruct (after_spawn s es) as [[p r]|] eqn:A; [|discriminate].
    destruct (at_most_once es s p r W A) as [sb [_ [_ CR]]].
    assert (M : In e (calls_of s (w_log (run es)))) by (apply filter_In; split; assumption).
    destruct CR as [E _ _ _|st rc cb rest _ _ _ Ac _ _ _ _ _|st _ _ E _ _ _].
    - rewrite E in M. destruct M.
    - destruct (proj1 (Forall_forall _ _) Ac _ M) as [l ->]. exists s. left. eauto.
    - rewrite E in M. destruct M as [<-|[]]. exists s. right. reflexivity. }
  destruct e as [s l rc|s|q|s l|s]; simpl in Ok.
  - exists s. left. eauto.
  - exists s. right. reflexivity.
  - pose proof (no_keyerror es _ H). discriminate.
  - apply (Sid s Ok). simpl. apply Nat.eqb_refl.
  - apply (Sid s Ok). simpl. apply Nat.eqb_refl.
Qed.

(* ---------- the model satisfies the checker ---------- *)
Lemma list_eqb_N_refl (l : list N) : list_eqb N.eqb l l = true.
Proof. induction l as [|x l IH]; simpl; [reflexivity|]. rewrite N.eqb_refl, IH. reflexivity. Qed.

Lemma obs_eqb_refl : forall o, obs_eqb o o = true.
Proof.
  fix IH 1. intros o. destruct o as [|b|z|l|s|l]; simpl.
  - reflexivity.
  - destruct b; reflexivity.
  - apply Z.eqb_refl.
  - apply list_eqb_N_refl.
  - apply String.eqb_refl.
  - revert l. fix IHl 1. intros [|a l]; [reflexivity|].
    rewrite IH. simpl. apply IHl.
Qed.

Lemma entry_of_ev sid e : entry_of sid (ev_obs e) = is_call_of sid e.
Proof.
  assert (K : forall s, (Z.of_nat s =? Z.of_nat sid) = Nat.eqb s sid).
  { intros s. destruct (Nat.eqb s sid) eqn:E;
      [apply Nat.eqb_eq in E; subst; apply Z.eqb_refl|apply Nat.eqb_neq in E; apply Z.eqb_neq; lia]. }
  destruct e as [s l rc|s|q|s l|s]; cbn [ev_obs entry_of is_call_of]; try apply K.
  apply Z.eqb_neq. lia.
Qed.

Lemma filter_entries sid log : filter (entry_of sid) (map ev_obs log) = map ev_obs (calls_of sid log).
Proof.
  unfold calls_of. induction log as [|e log IH]; simpl; [reflexivity|].
  rewrite entry_of_ev. destruct (is_call_of sid e); simpl; rewrite IH; reflexivity.
Qed.

Theorem model_satisfies_checker : forall es, check_case es (run_case es) = true.
Proof.
  intros es. unfold check_case. destruct (wf es) eqn:W; [|reflexivity]. simpl.
  destruct (projection es W) as [Gw [Pw T]].
  assert (CL : count_spawns es = length (w_subs (run es))).
  { rewrite count_spawns_pids, <- Pw, map_length. reflexivity. }
  rewrite map_length, <- CL, Nat.eqb_refl. simpl.
  apply andb_true_iff. split.
  - apply forallb_forall. intros o H. apply in_map_iff in H as [e [<- H]].
    destruct (only_calls_and_asserts es W e H) as [s [[l [rc ->]]| ->]];
      pose proof (g_log _ Gw _ H) as Ok; simpl in Ok; simpl;
      apply andb_true_iff; split; [apply Z.leb_le; lia|apply Z.ltb_lt; lia|apply Z.leb_le; lia|apply Z.ltb_lt; lia].
  - apply forallb_forall. intros sid H. apply in_seq in H. unfold child_ok.
    specialize (T sid). destruct (track sid es) as [c|]; [|lia].
    destruct T as [[Hs Hk Hw Hc] Hq].
    rewrite (map_nth_error sub_obs _ _ Hs), obs_eqb_refl. simpl andb.
    rewrite filter_entries, Hc. exact (obs_eqb_refl (OList (map ev_obs (c_calls c)))).
Qed.
