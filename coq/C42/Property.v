(* C42 — Subprocess exit is reported once with the right status.
   Property theorems only; proofs are in Proofs1..7.v, definitions in Model.v / Spec.v / Run.v.

   Vocabulary.  A trace `es : list event` is any sequence of: Subprocess creations (ESpawn pid), child terminations
   with a wait status (EExit pid st), SIGCHLD deliveries (ESigchld — one delivery may stand for several coalesced
   signals), set_exit_callback / wait_for_exit calls on object number sid (EReg / EWait), IOLoop turns (ELoop) and
   Subprocess.initialize() / uninitialize() calls (EInit / EUninit).
   `run es` is the state of the model of tornado/process.py after the trace.  `wf es`: the pids handed out are
   pairwise distinct (rely condition on the kernel).  `after_spawn sid es = Some (p, r)`: object sid was created
   with pid p and r is the rest of the trace after its creation; `first_exit p r` is the status of the child's
   termination; `calls_of sid log` are the log entries made by the callbacks of object sid.                       *)
From Coq Require Import List ZArith Bool.
Import ListNotations.
From TV Require Import Lib.Obs C42.Model C42.Spec C42.Run.
From TV Require Import C42.Proofs1 C42.Proofs3 C42.Proofs4 C42.Proofs5 C42.Proofs6 C42.Proofs7.
Local Open Scope Z_scope.

(* ---- status decoding (_set_returncode) ---- *)
Theorem C42_decode_exit : forall c, 0 <= c < 256 -> decode (c * 256) = Some c.
Proof. exact decode_exit. Qed.
Print Assumptions C42_decode_exit.

(* killed by signal s, with or without the core-dump flag, whatever the high byte: minus the signal number *)
Theorem C42_decode_signal : forall s core hi, 1 <= s < 127 -> 0 <= core <= 1 ->
  decode (s + 128 * core + 256 * hi) = Some (- s).
Proof. exact decode_signal. Qed.
Print Assumptions C42_decode_signal.

(* the bit macros read arithmetically, for every integer; the assertion fails exactly on stopped/continued shapes *)
Theorem C42_decode_total : forall st,
  decode st = (if st mod 128 =? 0 then Some ((st / 256) mod 256)
               else if st mod 128 =? 127 then None else Some (- (st mod 128))) /\
  ((exists rc, decode st = Some rc) <-> st mod 128 <> 127) /\
  (forall rc, decode st = Some rc -> -126 <= rc <= 255).
Proof. intros st. split; [apply decode_arith|]. split; [apply decode_some_iff|apply decode_range]. Qed.
Print Assumptions C42_decode_total.

(* ---- non-interference: each object of the shared world is the one-child automaton ---- *)
(* For every trace with distinct pids and every object: its fields, the kernel's entry for its pid, its entry in
   Subprocess._waiting, its pending IOLoop calls (_set_returncode / late callbacks) and its part of the log are exactly those of the
   one-child specification `track` — whatever the other children, their exits, registrations and callbacks do.  The
   only shared state the object's life depends on is one bit: whether the SIGCHLD handler is installed. *)
Theorem C42_objects_do_not_interfere : forall es sid c, wf es = true -> track sid es = Some c ->
  let w := run es in let p := s_pid (c_sub c) in
  nth_error (w_subs w) sid = Some (c_sub c) /\
  a_find p (w_kern w) = Some (kst_of (c_ph c)) /\
  a_find p (w_waiting w) = (if c_inw c then Some sid else None) /\
  qfilter sid (w_queue w) = q_of sid c /\
  calls_of sid (w_log w) = c_calls c.
Proof.
  intros es sid c W T. destruct (projection es W) as [_ [_ P]]. specialize (P sid). rewrite T in P.
  destruct P as [[A B C D] E]. repeat split; assumption.
Qed.
Print Assumptions C42_objects_do_not_interfere.

(* ---- only with the right status, no registration twice (every trace, every schedule) ---- *)
(* In every reachable world each object has logged nothing (returncode None, all futures pending, nothing queued), or
   exactly one AssertionError (stopped/continued-shaped status), or a non-empty list of callback invocations ALL of
   which carry decode(status of the child's FIRST exit).  In that case the invocations made so far followed by the
   late calls still queued on the IOLoop are, label by label and in order, a SUFFIX of the registrations made on this
   object: the registration that was in place when _set_returncode ran, then every registration made afterwards.
   Every resolved future holds the value / CalledProcessError prescribed by wait_for_exit's rule. *)
Theorem C42_reported_with_the_right_status : forall es sid p r,
  wf es = true -> after_spawn sid es = Some (p, r) ->
  exists sb, nth_error (w_subs (run es)) sid = Some sb /\ s_pid sb = p /\
             child_report sid p r (calls_of sid (w_log (run es))) (w_queue (run es)) sb.
Proof. exact at_most_once. Qed.
Print Assumptions C42_reported_with_the_right_status.

(* consequently no registered callback ever runs twice (labels = identities of the registrations) *)
Theorem C42_each_registration_fires_at_most_once : forall es sid p r,
  wf es = true -> after_spawn sid es = Some (p, r) ->
  NoDup (reg_labels sid r) -> NoDup (call_labels (calls_of sid (w_log (run es)))).
Proof. exact each_registration_at_most_once. Qed.
Print Assumptions C42_each_registration_fires_at_most_once.

Theorem C42_nothing_reported_before_the_child_exits : forall es sid p r,
  wf es = true -> after_spawn sid es = Some (p, r) -> first_exit p r = None ->
  calls_of sid (w_log (run es)) = [].
Proof. exact nothing_before_exit. Qed.
Print Assumptions C42_nothing_reported_before_the_child_exits.

(* ---- exactly once, for every ordering of exit vs registration ---- *)
(* (A) The object is registered and its child exits, in EITHER order, anywhere in r1 (interleaved with any other
   events: other children, earlier SIGCHLDs, loop turns, re-registrations, initialize/uninitialize); then a SIGCHLD is
   delivered while the handler is installed (one delivery serves every child that died so far); then the IOLoop runs
   (somewhere in r3).  Then — whatever follows (r4) — the log of this object starts with the invocation of a callback
   registered on it, with decode(st); returncode is set; the future behind that callback holds the value /
   CalledProcessError by wait_for_exit's rule.  (Anything after that first entry comes from registrations made after
   the report: see C42_late_registration_fires.) *)
Theorem C42_exactly_once_any_order : forall es0 p r1 r3 r4 sid st,
  let r := r1 ++ ESigchld :: r3 ++ r4 in
  let es := es0 ++ ESpawn p :: r in
  wf es = true -> count_spawns es0 = sid ->
  first_exit p r1 = Some st -> (exists e, In e r1 /\ is_reg_of sid e) ->
  w_init (run (es0 ++ ESpawn p :: r1)) = true -> In ELoop r3 ->
  exactly_once es sid r st.
Proof. exact exactly_once_A. Qed.
Print Assumptions C42_exactly_once_any_order.

(* ONE SIGCHLD serves EVERY registered child that has died, however many there are (signals coalesce): after a
   single delivery and one loop turn each of them has been reported. *)
Theorem C42_one_sigchld_serves_all_children : forall es, wf es = true -> w_init (run es) = true ->
  forall sid p r c st, after_spawn sid es = Some (p, r) -> track sid es = Some c ->
    c_ph c = PhZombie st -> c_inw c = true ->
    exactly_once (es ++ [ESigchld; ELoop]) sid (r ++ [ESigchld; ELoop]) st.
Proof. exact one_sigchld_serves_all. Qed.
Print Assumptions C42_one_sigchld_serves_all_children.

(* ---- the handler: initialize() / uninitialize() ---- *)
(* It is installed by initialize() and by any set_exit_callback / wait_for_exit on an object whose exit has not been
   reported; it stays installed until uninitialize(); without it a SIGCHLD changes nothing (the children that died
   meanwhile are found by the next SIGCHLD after it is installed again, or by their own registration). *)
Theorem C42_registration_installs_handler : forall es e sid sb,
  nth_error (w_subs (run es)) sid = Some sb -> s_rc sb = None ->
  (exists l, e = EReg sid l) \/ (exists l re, e = EWait sid l re) -> w_init (run (es ++ [e])) = true.
Proof. exact registration_installs_handler. Qed.
Print Assumptions C42_registration_installs_handler.

Theorem C42_handler_stays_installed : forall a b,
  w_init (run a) = true -> ~ In EUninit b -> w_init (run (a ++ b)) = true.
Proof. exact handler_stays_installed. Qed.
Print Assumptions C42_handler_stays_installed.

Theorem C42_sigchld_ignored_without_handler : forall es,
  w_init (run es) = false -> run (es ++ [ESigchld]) = run es.
Proof. exact sigchld_ignored_without_handler. Qed.
Print Assumptions C42_sigchld_ignored_without_handler.

(* (B) The child is already dead when the object is registered (its SIGCHLD was delivered before, coalesced,
   or never — seeded change C42_1): registration finds it at once, no signal and no handler is needed. *)
Theorem C42_exactly_once_exit_before_registration : forall es0 p r1 r2 r3 r4 sid st,
  let r := r1 ++ r2 ++ r3 ++ r4 in
  let es := es0 ++ ESpawn p :: r in
  wf es = true -> count_spawns es0 = sid ->
  first_exit p r1 = Some st -> (exists e, In e r2 /\ is_reg_of sid e) -> In ELoop r3 ->
  exactly_once es sid r st.
Proof. exact exactly_once_B. Qed.
Print Assumptions C42_exactly_once_exit_before_registration.

(* with a single registration on the object, "a callback registered on it" is that one *)
Theorem C42_single_registration : forall sid r cb l0,
  reg_ok sid r cb -> reg_labels sid r = [l0] -> cb_label cb = l0.
Proof. exact single_registration. Qed.
Print Assumptions C42_single_registration.

(* ---- wait_for_exit ---- *)
(* Every future handed out by wait_for_exit is pending, or holds: the decoded status if it is 0 or raise_error is
   off, CalledProcessError(status) otherwise — and then its callback is in the log. *)
Theorem C42_wait_for_exit_rule : forall es sid p r, wf es = true -> after_spawn sid es = Some (p, r) ->
  exists sb, nth_error (w_subs (run es)) sid = Some sb /\
  forall j l f, nth_error (s_futs sb) j = Some (l, f) ->
    f = FPending \/
    exists st rc re, first_exit p r = Some st /\ decode st = Some rc /\ In (EWait sid l re) r /\
                     f = (if negb (rc =? 0) && re then FError rc else FResult rc) /\
                     In (LCall sid l rc) (calls_of sid (w_log (run es))).
Proof. exact future_rule. Qed.
Print Assumptions C42_wait_for_exit_rule.

(* ---- no internal error path ---- *)
(* `cls._waiting.pop(pid)` never raises KeyError — for EVERY trace, pid reuse included. *)
Theorem C42_no_keyerror : forall es e, In e (w_log (run es)) -> forall pid, e <> LKeyError pid.
Proof. intros es e H pid ->. pose proof (no_keyerror es _ H). discriminate. Qed.
Print Assumptions C42_no_keyerror.

(* With distinct pids the log consists of callback invocations and assertion failures only: no future is resolved
   twice (InvalidStateError), no dangling object. *)
Theorem C42_log_is_calls_and_asserts_only : forall es, wf es = true ->
  forall e, In e (w_log (run es)) -> exists s, (exists l rc, e = LCall s l rc) \/ e = LAssert s.
Proof. exact only_calls_and_asserts. Qed.
Print Assumptions C42_log_is_calls_and_asserts_only.

(* ---- a registration made AFTER the exit was reported fires too (fix 830934b in /repo) ---- *)
(* The object's exit has been reported with a decodable status (phase Reported after es1); then set_exit_callback or
   wait_for_exit is called on it (event e, label l); then the IOLoop runs once (somewhere in r2); then anything (r3).
   Then the callback labelled l has run with decode(st) and, for wait_for_exit(raise_error = re), its future holds
   the value / CalledProcessError by the rule.  Together with C42_each_registration_fires_at_most_once: exactly once.
   (Before the fix this was refuted: the late callback never ran and the object stayed in _waiting for ever.) *)
Theorem C42_late_registration_fires : forall es1 e r2 r3 sid c1 st rc l,
  let es := es1 ++ e :: r2 ++ r3 in
  wf es = true -> track sid es1 = Some c1 -> c_ph c1 = PhReported st -> decode st = Some rc ->
  reg_label sid e = Some l -> In ELoop r2 ->
  In (LCall sid l rc) (calls_of sid (w_log (run es))) /\
  forall re, e = EWait sid l re ->
    exists sb j, nth_error (w_subs (run es)) sid = Some sb /\ nth_error (s_futs sb) j = Some (l, resolve re rc).
Proof. exact late_registration_fires. Qed.
Print Assumptions C42_late_registration_fires.

(* ---- the model satisfies the checker that is applied to the implementation's observables ---- *)
Theorem C42_model_satisfies_checker : forall es, check_case es (run_case es) = true.
Proof. exact model_satisfies_checker. Qed.
Print Assumptions C42_model_satisfies_checker.
