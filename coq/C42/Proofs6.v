(* C42 — the statements about the shared world, obtained from the projection theorem
   and the one-child invariant / progress lemmas. *)
From Coq Require Import List ZArith Bool Arith Lia.
Import ListNotations.
From TV Require Import C42.Model C42.Spec C42.Proofs2 C42.Proofs3 C42.Proofs4 C42.Proofs5.
Local Open Scope Z_scope.

Lemma after_spawn_split es0 p r : forall sid, count_spawns es0 = sid ->
  after_spawn sid (es0 ++ ESpawn p :: r) = Some (p, r).
Proof.
  induction es0 as [|a es0 IH]; intros sid H; simpl in *.
  - subst sid. reflexivity.
  - destruct a; try (apply IH; exact H).
    unfold count_spawns in H. simpl in H. subst sid. apply IH. reflexivity.
Qed.

Lemma world_child es sid p r : wf es = true -> after_spawn sid es = Some (p, r) ->
  let c := fold_left (cstep sid) r (cinit p) in
  R (run es) sid c /\ Inv sid p r c.
Proof.
  intros W A. destruct (projection es W) as [_ [_ T]]. specialize (T sid). unfold track in T. rewrite A in T.
  split; [exact T|apply Inv_track].
Qed.

Lemma reg_ok_label sid r cb : reg_ok sid r cb -> In (cb_label cb) (reg_labels sid r).
Proof.
  unfold reg_labels. intros H. apply in_flat_map.
  destruct cb as [l|l i re]; simpl in H; eexists; (split; [exact H|]); simpl; rewrite Nat.eqb_refl; left; reflexivity.
Qed.

Theorem at_most_once es sid p r : wf es = true -> after_spawn sid es = Some (p, r) ->
  exists sb, nth_error (w_subs (run es)) sid = Some sb /\ s_pid sb = p /\
             child_report sid p r (calls_of sid (w_log (run es))) sb.
Proof.
  intros W A. destruct (world_child es sid p r W A) as [[[Hs Hk Hw Hc Hi] Hq] [I1 I2 I3 I4]].
  set (c := fold_left (cstep sid) r (cinit p)) in *.
  exists (c_sub c). split; [exact Hs|]. split; [exact I1|]. rewrite Hc.
  unfold body in I4. destruct (c_ph c) as [|st|st|st] eqn:P; simpl in I2.
  - destruct I4 as [A1 [A2 [A3 _]]]. apply CR_nothing; assumption.
  - destruct I4 as [A1 [A2 [A3 _]]]. apply CR_nothing; assumption.
  - destruct I4 as [A1 [A2 [A3 _]]]. apply CR_nothing; assumption.
  - destruct (decode st) as [rc|] eqn:D.
    + destruct I4 as [A1 [cb [A2 [A3 [A4 A5]]]]]. apply (CR_called sid p r _ _ st rc cb); auto.
    + destruct I4 as [A1 [A2 A3]]. apply (CR_assert sid p r _ _ st); auto.
Qed.

(* nothing is reported while the child is alive *)
Theorem nothing_before_exit es sid p r : wf es = true -> after_spawn sid es = Some (p, r) ->
  first_exit p r = None -> calls_of sid (w_log (run es)) = [].
Proof.
  intros W A F. destruct (at_most_once es sid p r W A) as [sb [_ [_ [H| |]]]]; [exact H|congruence|congruence].
Qed.

Lemma reported_world es sid p r st : wf es = true -> after_spawn sid es = Some (p, r) ->
  reported st (fold_left (cstep sid) r (cinit p)) ->
  first_exit p r = Some st /\
  exists sb, nth_error (w_subs (run es)) sid = Some sb /\
    match decode st with
    | Some rc => exists cb, calls_of sid (w_log (run es)) = [LCall sid (cb_label cb) rc] /\ s_rc sb = Some rc /\
                            reg_ok sid r cb /\ cb_done cb rc (s_futs sb) /\ others_pending cb (s_futs sb)
    | None => calls_of sid (w_log (run es)) = [LAssert sid] /\ s_rc sb = None
    end.
Proof.
  intros W A Rp. destruct (world_child es sid p r W A) as [[[Hs Hk Hw Hc Hi] Hq] [I1 I2 I3 I4]].
  set (c := fold_left (cstep sid) r (cinit p)) in *. unfold reported in Rp.
  unfold body in I4. rewrite Rp in I2, I4. simpl in I2. split; [symmetry; exact I2|].
  exists (c_sub c). split; [exact Hs|]. rewrite Hc.
  destruct (decode st) as [rc|].
  - destruct I4 as [A1 [cb [A2 [A3 [A4 A5]]]]]. exists cb. auto.
  - destruct I4 as [A1 [A2 A3]]. auto.
Qed.

(* (A) registration and exit in EITHER order (both somewhere in r1, interleaved with anything), then a
       (possibly coalesced) SIGCHLD, then a loop turn; whatever happens afterwards (r4) *)
Theorem exactly_once_A es0 p r1 r2 r3 r4 sid st :
  let r := r1 ++ r2 ++ r3 ++ r4 in
  let es := es0 ++ ESpawn p :: r in
  wf es = true -> count_spawns es0 = sid ->
  first_exit p r1 = Some st -> (exists e, In e r1 /\ is_reg_of sid e) -> In ESigchld r2 -> In ELoop r3 ->
  exactly_once es sid r st.
Proof.
  intros r es W C F Rg S L.
  assert (A : after_spawn sid es = Some (p, r)) by (apply after_spawn_split; exact C).
  destruct (reported_world es sid p r st W A (spec_reported_A sid p r1 r2 r3 r4 st F Rg S L)) as [_ H]. exact H.
Qed.

(* (B) the child died (and its SIGCHLD, if any, went by) before the object was registered *)
Theorem exactly_once_B es0 p r1 r2 r3 r4 sid st :
  let r := r1 ++ r2 ++ r3 ++ r4 in
  let es := es0 ++ ESpawn p :: r in
  wf es = true -> count_spawns es0 = sid ->
  first_exit p r1 = Some st -> (exists e, In e r2 /\ is_reg_of sid e) -> In ELoop r3 ->
  exactly_once es sid r st.
Proof.
  intros r es W C F Rg L.
  assert (A : after_spawn sid es = Some (p, r)) by (apply after_spawn_split; exact C).
  destruct (reported_world es sid p r st W A (spec_reported_B sid p r1 r2 r3 r4 st F Rg L)) as [_ H]. exact H.
Qed.

(* every future handed out by wait_for_exit is pending, or was resolved by the rule *)
Theorem future_rule es sid p r : wf es = true -> after_spawn sid es = Some (p, r) ->
  exists sb, nth_error (w_subs (run es)) sid = Some sb /\
  forall j l f, nth_error (s_futs sb) j = Some (l, f) ->
    f = FPending \/
    exists st rc re, first_exit p r = Some st /\ decode st = Some rc /\ In (EWait sid l re) r /\
                     f = (if negb (rc =? 0) && re then FError rc else FResult rc) /\
                     calls_of sid (w_log (run es)) = [LCall sid l rc].
Proof.
  intros W A. destruct (at_most_once es sid p r W A) as [sb [Hs [_ CR]]].
  exists sb. split; [exact Hs|]. intros j l f Hj.
  assert (AP : all_pending (s_futs sb) -> f = FPending).
  { intros AP. apply nth_error_In in Hj. exact (proj1 (Forall_forall _ _) AP _ Hj). }
  destruct CR as [_ _ H|st rc cb F D Lg Rc Rk Dn Ot|st _ _ _ _ H]; [left; exact (AP H)| |left; exact (AP H)].
  destruct f as [|x|x]; [left; reflexivity| |];
    (right; destruct (Ot j _ Hj ltac:(discriminate)) as [l' [re ->]]; simpl in *;
     rewrite Hj in Dn; injection Dn as <- Dn; exists st, rc, re; repeat split; auto).
Qed.

(* with a single registration, "the" callback is that one *)
Lemma single_registration sid r cb l0 : reg_ok sid r cb -> reg_labels sid r = [l0] -> cb_label cb = l0.
Proof.
  intros H E. apply reg_ok_label in H. rewrite E in H. destruct H as [H|[]]. symmetry; exact H.
Qed.

Lemma NoDup_app_l {A} (a b : list A) : NoDup (a ++ b) -> NoDup a.
Proof.
  induction a as [|x a IH]; simpl; intros H; [constructor|].
  inversion H as [|? ? H1 H2]; subst. constructor; [|exact (IH H2)].
  intros K. apply H1. apply in_or_app. left; exact K.
Qed.

(* re-registering after the exit was reported never fires: whatever happens later (further registrations,
   SIGCHLDs, loop turns), the log of this object stays as it is *)
Theorem late_registration_never_fires es sid p r st extra : wf (es ++ extra) = true ->
  after_spawn sid es = Some (p, r) -> reported st (fold_left (cstep sid) r (cinit p)) ->
  calls_of sid (w_log (run (es ++ extra))) = calls_of sid (w_log (run es)).
Proof.
  intros W A Rp.
  assert (W0 : wf es = true).
  { unfold wf in *. apply znodup_nodup in W. apply znodup_nodup. unfold spawn_pids in W. rewrite flat_map_app in W.
    exact (NoDup_app_l _ _ W). }
  assert (A' : after_spawn sid (es ++ extra) = Some (p, r ++ extra)).
  { clear - A. revert sid A. induction es as [|a es IH]; intros sid A; simpl in *; [discriminate|].
    destruct a; try (apply IH; exact A). destruct sid; [injection A as -> ->; reflexivity|apply IH; exact A]. }
  destruct (world_child es sid p r W0 A) as [[[_ _ _ Hc _] _] _].
  destruct (world_child (es ++ extra) sid p (r ++ extra) W A') as [[[_ _ _ Hc' _] _] _].
  rewrite Hc, Hc', fold_left_app.
  generalize dependent (fold_left (cstep sid) r (cinit p)). clear.
  intros c Rp _. revert c Rp. induction extra as [|e extra IH]; intros c Rp; simpl; [reflexivity|].
  rewrite IH by (apply reported_step; exact Rp).
  unfold reported in Rp. destruct c as [s ph inw calls]. simpl in Rp. subst ph.
  destruct e as [q|q st0| |s0 l|s0 l re|]; simpl; try reflexivity.
  - destruct (q =? s_pid s); reflexivity.
  - destruct inw; reflexivity.
  - destruct (Nat.eqb s0 sid); reflexivity.
  - destruct (Nat.eqb s0 sid); reflexivity.
Qed.
