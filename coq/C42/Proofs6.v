(* C42 — the statements about the shared world, obtained from the projection theorem
   and the one-child invariant / progress lemmas. *)
From Coq Require Import List ZArith Bool Arith Lia.
Import ListNotations.
From TV Require Import C42.Model C42.Spec C42.Proofs2 C42.Proofs3 C42.Proofs4 C42.Proofs5.
Local Open Scope Z_scope.

Lemma after_spawn_split es0 p r : forall sid, count_spawns es0 = sid ->
  after_spawn sid (es0 ++ ESpawn p :: r) = Some (p, r).
Proof.
  induction es0 as [|a es0 IH]; intros sid H; simpl in *.
  - subst sid. reflexivity.
  - destruct a; try (apply IH; exact H).
    unfold count_spawns in H. simpl in H. subst sid. apply IH. reflexivity.
Qed.

Lemma world_child es sid p r : wf es = true -> after_spawn sid es = Some (p, r) ->
  let c := trk sid (run (spawn_prefix sid es)) r (cinit p) in
  R (run es) sid c /\ Inv sid p r c.
Proof.
  intros W A. destruct (projection es W) as [_ [_ T]]. specialize (T sid). unfold track in T. rewrite A in T.
  split; [exact T|apply Inv_track].
Qed.

Lemma reg_ok_label sid r cb : reg_ok sid r cb -> In (cb_label cb) (reg_labels sid r).
Proof.
  unfold reg_labels. intros H. apply in_flat_map.
  destruct cb as [l|l i re]; simpl in H; eexists; (split; [exact H|]); simpl; rewrite Nat.eqb_refl; left; reflexivity.
Qed.

Lemma late_labels_filter sid q : late_labels sid (qfilter sid q) = late_labels sid q.
Proof.
  unfold late_labels, qfilter. induction q as [|x q IH]; simpl; [reflexivity|].
  destruct (Nat.eqb (q_sid x) sid) eqn:E; simpl; rewrite IH; [reflexivity|].
  destruct x as [s st|s c rc]; simpl in *; [reflexivity|]. rewrite E. reflexivity.
Qed.

Lemma late_labels_q_of sid c : late_labels sid (q_of sid c) = map (fun x => cb_label (fst x)) (c_late c).
Proof.
  unfold q_of, late_labels. rewrite flat_map_app.
  assert (flat_map (fun x : qitem => match x with QSet _ _ => [] | QCall s c0 _ => if Nat.eqb s sid then [cb_label c0] else [] end)
            match c_ph c with PhQueued st => [QSet sid st] | _ => [] end = []) as ->
    by (destruct (c_ph c); reflexivity).
  simpl. induction (c_late c) as [|x l IH]; simpl; [reflexivity|]. rewrite Nat.eqb_refl, IH. reflexivity.
Qed.

Theorem at_most_once es sid p r : wf es = true -> after_spawn sid es = Some (p, r) ->
  exists sb, nth_error (w_subs (run es)) sid = Some sb /\ s_pid sb = p /\
             child_report sid p r (calls_of sid (w_log (run es))) (w_queue (run es)) sb.
Proof.
  intros W A. destruct (world_child es sid p r W A) as [[[Hs Hk Hw Hc] Hq] [I1 I2 I3 [dr I5] I4]].
  set (c := trk sid (run (spawn_prefix sid es)) r (cinit p)) in *.
  assert (LL : late_labels sid (w_queue (run es)) = map (fun x => cb_label (fst x)) (c_late c)).
  { rewrite <- late_labels_filter, Hq. apply late_labels_q_of. }
  exists (c_sub c). split; [exact Hs|]. split; [exact I1|]. rewrite Hc.
  unfold body in I4. destruct (c_ph c) as [|st|st|st] eqn:P; simpl in I2.
  - destruct I4 as [A1 [A2 [A3 [A4 _]]]]. apply CR_nothing; try assumption. rewrite LL, A3. reflexivity.
  - destruct I4 as [A1 [A2 [A3 [A4 _]]]]. apply CR_nothing; try assumption. rewrite LL, A3. reflexivity.
  - destruct I4 as [A1 [A2 [A3 [A4 _]]]]. apply CR_nothing; try assumption. rewrite LL, A3. reflexivity.
  - destruct (decode st) as [rc|] eqn:D.
    + destruct I4 as [A1 [[cb0 [rest [B1 [B2 B3]]]] [C [Dl E]]]].
      apply (CR_called sid p r _ _ _ st rc cb0 rest); auto.
      exists dr. rewrite I5, LL. unfold active. rewrite A1. reflexivity.
    + destruct I4 as [A1 [A2 [A3 A4]]]. apply (CR_assert sid p r _ _ _ st); auto. rewrite LL, A3. reflexivity.
Qed.

(* nothing is reported while the child is alive *)
Theorem nothing_before_exit es sid p r : wf es = true -> after_spawn sid es = Some (p, r) ->
  first_exit p r = None -> calls_of sid (w_log (run es)) = [].
Proof.
  intros W A F. destruct (at_most_once es sid p r W A) as [sb [_ [_ [H| |]]]]; [exact H|congruence|congruence].
Qed.

Lemma NoDup_mid {A} (a b c : list A) : NoDup (a ++ b ++ c) -> NoDup b.
Proof.
  intros H. induction a as [|x a IH]; simpl in H.
  - induction b as [|y b IHb]; [constructor|]. simpl in H. inversion H as [|? ? H1 H2]; subst.
    constructor; [intros K; apply H1; apply in_or_app; left; exact K|exact (IHb H2)].
  - inversion H; subst. apply IH. assumption.
Qed.

(* no registered callback runs twice: if the labels registered on the object are distinct, so are the labels in its log *)
Theorem each_registration_at_most_once es sid p r : wf es = true -> after_spawn sid es = Some (p, r) ->
  NoDup (reg_labels sid r) -> NoDup (call_labels (calls_of sid (w_log (run es)))).
Proof.
  intros W A N. destruct (at_most_once es sid p r W A) as [sb [_ [_ CR]]].
  destruct CR as [E _ _ _|st rc cb rest _ _ _ _ _ _ _ _ [dr E]|st _ _ E _ _ _].
  - rewrite E. constructor.
  - rewrite E in N. exact (NoDup_mid _ _ _ N).
  - rewrite E. simpl. constructor.
Qed.

Lemma reported_world es sid p r st : wf es = true -> after_spawn sid es = Some (p, r) ->
  reported st (trk sid (run (spawn_prefix sid es)) r (cinit p)) ->
  first_exit p r = Some st /\ exactly_once es sid r st.
Proof.
  intros W A Rp. destruct (world_child es sid p r W A) as [[[Hs Hk Hw Hc] Hq] [I1 I2 I3 I5 I4]].
  set (c := trk sid (run (spawn_prefix sid es)) r (cinit p)) in *. unfold reported in Rp.
  unfold body in I4. rewrite Rp in I2, I4. simpl in I2. split; [symmetry; exact I2|].
  exists (c_sub c). split; [exact Hs|]. rewrite Hc.
  destruct (decode st) as [rc|].
  - destruct I4 as [A1 [[cb [rest [A2 [A3 A4]]]] _]]. exists cb, rest. auto.
  - destruct I4 as [A1 [A2 A3]]. auto.
Qed.

Lemma spawn_prefix_split es0 p r : forall sid, count_spawns es0 = sid ->
  spawn_prefix sid (es0 ++ ESpawn p :: r) = es0 ++ [ESpawn p].
Proof.
  induction es0 as [|a es0 IH]; intros sid H; simpl in *.
  - subst sid. reflexivity.
  - destruct a; try (f_equal; apply IH; exact H).
    unfold count_spawns in H. simpl in H. subst sid. f_equal. apply IH. reflexivity.
Qed.

Lemma run_app a b : run (a ++ b) = fold_left step b (run a).
Proof. unfold run. apply fold_left_app. Qed.

(* (A) registration and exit in EITHER order (both somewhere in r1, interleaved with anything), then a
       (possibly coalesced) SIGCHLD delivered while the handler is installed, then a loop turn; whatever happens afterwards (r4) *)
Theorem exactly_once_A es0 p r1 r3 r4 sid st :
  let r := r1 ++ ESigchld :: r3 ++ r4 in
  let es := es0 ++ ESpawn p :: r in
  wf es = true -> count_spawns es0 = sid ->
  first_exit p r1 = Some st -> (exists e, In e r1 /\ is_reg_of sid e) ->
  w_init (run (es0 ++ ESpawn p :: r1)) = true -> In ELoop r3 ->
  exactly_once es sid r st.
Proof.
  intros r es W C F Rg Hd L.
  assert (A : after_spawn sid es = Some (p, r)) by (apply after_spawn_split; exact C).
  assert (Hd' : w_init (fold_left step r1 (run (es0 ++ [ESpawn p]))) = true).
  { rewrite <- run_app, <- app_assoc. exact Hd. }
  pose proof (spec_reported_A sid p (run (es0 ++ [ESpawn p])) r1 r3 r4 st F Rg Hd' L) as Rp.
  rewrite <- (spawn_prefix_split es0 p r sid C) in Rp.
  destruct (reported_world es sid p r st W A Rp) as [_ H]. exact H.
Qed.

(* (B) the child died (and its SIGCHLD, if any, went by) before the object was registered *)
Theorem exactly_once_B es0 p r1 r2 r3 r4 sid st :
  let r := r1 ++ r2 ++ r3 ++ r4 in
  let es := es0 ++ ESpawn p :: r in
  wf es = true -> count_spawns es0 = sid ->
  first_exit p r1 = Some st -> (exists e, In e r2 /\ is_reg_of sid e) -> In ELoop r3 ->
  exactly_once es sid r st.
Proof.
  intros r es W C F Rg L.
  assert (A : after_spawn sid es = Some (p, r)) by (apply after_spawn_split; exact C).
  pose proof (spec_reported_B sid p (run (es0 ++ [ESpawn p])) r1 r2 r3 r4 st F Rg L) as Rp.
  rewrite <- (spawn_prefix_split es0 p r sid C) in Rp.
  destruct (reported_world es sid p r st W A Rp) as [_ H]. exact H.
Qed.

(* every future handed out by wait_for_exit is pending, or was resolved by the rule *)
Theorem future_rule es sid p r : wf es = true -> after_spawn sid es = Some (p, r) ->
  exists sb, nth_error (w_subs (run es)) sid = Some sb /\
  forall j l f, nth_error (s_futs sb) j = Some (l, f) ->
    f = FPending \/
    exists st rc re, first_exit p r = Some st /\ decode st = Some rc /\ In (EWait sid l re) r /\
                     f = (if negb (rc =? 0) && re then FError rc else FResult rc) /\
                     In (LCall sid l rc) (calls_of sid (w_log (run es))).
Proof.
  intros W A. destruct (at_most_once es sid p r W A) as [sb [Hs [_ CR]]].
  exists sb. split; [exact Hs|]. intros j l f Hj.
  assert (AP : all_pending (s_futs sb) -> f = FPending).
  { intros AP. apply nth_error_In in Hj. exact (proj1 (Forall_forall _ _) AP _ Hj). }
  destruct CR as [_ _ H _|st rc cb rest F D Lg Ac Rc Rk Dn Fo _|st _ _ _ _ H _]; [left; exact (AP H)| |left; exact (AP H)].
  destruct f as [|x|x]; [left; reflexivity| |];
    (right; destruct (Fo j l _ Hj ltac:(discriminate)) as [re [X [Y Z]]];
     exists st, rc, re; repeat split; auto).
Qed.

(* with a single registration, "the" callback is that one *)
Lemma single_registration sid r cb l0 : reg_ok sid r cb -> reg_labels sid r = [l0] -> cb_label cb = l0.
Proof.
  intros H E. apply reg_ok_label in H. rewrite E in H. destruct H as [H|[]]. symmetry; exact H.
Qed.

Lemma NoDup_app_l {A} (a b : list A) : NoDup (a ++ b) -> NoDup a.
Proof.
  induction a as [|x a IH]; simpl; intros H; [constructor|].
  inversion H as [|? ? H1 H2]; subst. constructor; [|exact (IH H2)].
  intros K. apply H1. apply in_or_app. left; exact K.
Qed.

(* ---------- a registration made after the exit was reported fires at the next loop turn ---------- *)
Definition pend (cb : cbk) (rc : Z) (c : cstate) : Prop := In (cb, rc) (c_late c).
Definition done (sid : nat) (cb : cbk) (rc : Z) (c : cstate) : Prop :=
  In (LCall sid (cb_label cb) rc) (c_calls c) /\ cb_done cb rc (s_futs (c_sub c)).

Lemma rb_of_inv sid p es c cb rc : Inv sid p es c -> pend cb rc c \/ done sid cb rc c ->
  exists st, c_ph c = PhReported st /\ decode st = Some rc /\ RB sid es rc (c_sub c) (c_calls c) (c_late c).
Proof.
  intros [H1 H2 H3 H5 H4] PD. unfold body in H4.
  assert (NE : c_late c <> [] \/ exists l, In (LCall sid l rc) (c_calls c)).
  { destruct PD as [P|[D _]]; [left; intros E; unfold pend in P; rewrite E in P; destruct P|right; eauto]. }
  destruct (c_ph c) as [|st|st|st].
  1-3: (destruct H4 as [_ [B [C _]]]; destruct NE as [NE|[l NE]]; [contradiction|rewrite B in NE; destruct NE]).
  exists st. destruct (decode st) as [rc0|].
  - assert (rc0 = rc).
    { destruct H4 as [_ [_ [C [[D _] _]]]]. destruct PD as [P|[D' _]].
      - destruct (D _ _ P) as [X _]. symmetry; exact X.
      - destruct (proj1 (Forall_forall _ _) C _ D') as [l X]. congruence. }
    subst rc0. auto.
  - destruct H4 as [_ [B [C _]]]. destruct NE as [NE|[l NE]]; [contradiction|].
    rewrite B in NE. destruct NE as [NE|[]]. discriminate.
Qed.

Lemma cb_done_app cb rc futs extra : cb_done cb rc futs -> cb_done cb rc (futs ++ extra).
Proof.
  unfold cb_done. destruct cb as [l|l i re]; [auto|]. intros H.
  rewrite nth_error_app1 by exact (nth_error_lt _ _ _ H). exact H.
Qed.

Lemma late_step sid p es c cb rc e h : Inv sid p es c -> pend cb rc c \/ done sid cb rc c ->
  (pend cb rc (cstep sid h c e) \/ done sid cb rc (cstep sid h c e)) /\
  (done sid cb rc c -> done sid cb rc (cstep sid h c e)) /\
  (e = ELoop -> done sid cb rc (cstep sid h c e)).
Proof.
  intros Hc PD. destruct (rb_of_inv sid p es c cb rc Hc PD) as [st [P [Dc Rb]]].
  pose proof Rb as [A _].
  assert (Reg : forall prep cbof extra, prep (c_sub c) = mkSub (s_pid (c_sub c)) (s_cb (c_sub c)) (s_rc (c_sub c)) (s_futs (c_sub c) ++ extra) ->
            (pend cb rc (creg prep cbof c) \/ done sid cb rc (creg prep cbof c)) /\
            (done sid cb rc c -> done sid cb rc (creg prep cbof c))).
  { intros prep cbof extra E. unfold creg. rewrite A. unfold pend, done. cbn [c_sub c_calls c_late]. rewrite E. cbn [s_futs].
    split.
    - destruct PD as [X|[X Y]]; [left; apply in_or_app; left; exact X|right; split; [exact X|apply cb_done_app; exact Y]].
    - intros [X Y]. split; [exact X|apply cb_done_app; exact Y]. }
  destruct e as [q|q st0| |s0 l|s0 l re| | |]; cbn [cstep]; try (split; [exact PD|split; [auto|discriminate]]; fail).
  - assert (E : (if q =? s_pid (c_sub c) then match c_ph c with PhRun => mkC (c_sub c) (PhZombie st0) (c_inw c) (c_calls c) (c_late c) | _ => c end else c) = c).
    { destruct (q =? s_pid (c_sub c)); [|reflexivity]. rewrite P. reflexivity. }
    rewrite E. split; [exact PD|split; [auto|discriminate]].
  - assert (E : (if h && c_inw c then ctry c else c) = c).
    { destruct (h && c_inw c); [|reflexivity]. unfold ctry. rewrite P. reflexivity. }
    rewrite E. split; [exact PD|split; [auto|discriminate]].
  - destruct (Nat.eqb s0 sid); [|split; [exact PD|split; [auto|discriminate]]].
    destruct (Reg prep_plain (cb_plain l) []) as [X Y].
    { unfold prep_plain. rewrite app_nil_r. destruct (c_sub c); reflexivity. }
    split; [exact X|split; [exact Y|discriminate]].
  - destruct (Nat.eqb s0 sid); [|split; [exact PD|split; [auto|discriminate]]].
    destruct (Reg (prep_fut l) (cb_fut l re) [(l, FPending)] eq_refl) as [X Y].
    split; [exact X|split; [exact Y|discriminate]].
  - unfold cloop. rewrite P. unfold crun_late.
    pose proof (RB_run sid es rc (c_late c) (c_sub c) (c_calls c) Rb) as [_ [_ [_ [_ [Y5 [Y6 Y7]]]]]].
    destruct (run_lates sid (c_sub c) (c_calls c) (c_late c)) as [s' calls']. cbn [fst snd] in *.
    assert (D : done sid cb rc (mkC s' (c_ph c) (c_inw c) calls' [])).
    { unfold done. cbn [c_sub c_calls]. destruct PD as [X|[X Y]].
      - exact (Y7 _ _ X).
      - split; [apply Y5; exact X|]. unfold cb_done in *. destruct cb as [l|l i re]; [exact I|].
        apply Y6; [exact Y|]. simpl. apply resolve_not_pending. }
    split; [right; exact D|split; intros _; exact D].
Qed.

Lemma late_fold sid p cb rc r : forall es w c, Inv sid p es c -> pend cb rc c \/ done sid cb rc c ->
  (pend cb rc (trk sid w r c) \/ done sid cb rc (trk sid w r c)) /\
  (done sid cb rc c -> done sid cb rc (trk sid w r c)) /\
  (In ELoop r -> done sid cb rc (trk sid w r c)).
Proof.
  induction r as [|e r IH]; intros es w c Hc PD.
  - split; [exact PD|split; [auto|intros []]].
  - rewrite trk_cons. destruct (late_step sid p es c cb rc e (w_init w) Hc PD) as [X [Y Z]].
    destruct (IH (es ++ [e]) (step w e) _ (Inv_step sid p es c e (w_init w) Hc) X) as [X' [Y' Z']].
    split; [exact X'|]. split; [intros D; apply Y', Y, D|].
    intros [E|H]; [apply Y', Z; exact E|exact (Z' H)].
Qed.

Lemma after_spawn_app es extra : forall sid p r, after_spawn sid es = Some (p, r) ->
  after_spawn sid (es ++ extra) = Some (p, r ++ extra).
Proof.
  induction es as [|a es IH]; intros sid p r A; simpl in *; [discriminate|].
  destruct a; try (apply IH; exact A). destruct sid; [injection A as -> ->; reflexivity|apply IH; exact A].
Qed.

(* A registration (set_exit_callback or wait_for_exit, label l) made after the object's exit was reported with a
   decodable status: at the next loop turn its callback runs with the decoded status, its future (if any) is resolved
   by the rule, and this remains so whatever happens later. *)
Theorem late_registration_fires es1 e r2 r3 sid c1 st rc l :
  let es := es1 ++ e :: r2 ++ r3 in
  wf es = true -> track sid es1 = Some c1 -> c_ph c1 = PhReported st -> decode st = Some rc ->
  reg_label sid e = Some l -> In ELoop r2 ->
  In (LCall sid l rc) (calls_of sid (w_log (run es))) /\
  forall re, e = EWait sid l re ->
    exists sb j, nth_error (w_subs (run es)) sid = Some sb /\ nth_error (s_futs sb) j = Some (l, resolve re rc).
Proof.
  intros es W T Rp Dc Lb Lp. unfold track in T.
  destruct (after_spawn sid es1) as [[p r1]|] eqn:A; [|discriminate]. injection T as T.
  assert (A' : after_spawn sid es = Some (p, r1 ++ e :: r2 ++ r3)) by (apply after_spawn_app; exact A).
  destruct (world_child es sid p _ W A') as [[[Hs _ _ Hc] _] _].
  destruct (spawn_prefix_some es1 sid p r1 A) as [Ees Fpre].
  unfold es in Hs, Hc. rewrite Fpre in Hs, Hc. rewrite trk_app, T, trk_cons in Hs, Hc.
  set (w0 := run (spawn_prefix sid es1)) in *.
  assert (I1 : Inv sid p r1 c1) by (rewrite <- T; apply Inv_track).
  assert (Rb : RB sid r1 rc (c_sub c1) (c_calls c1) (c_late c1)).
  { pose proof (i_body _ _ _ _ I1) as B. unfold body in B. rewrite Rp, Dc in B. exact B. }
  pose proof Rb as [Rc _].
  set (h := w_init (fold_left step r1 w0)) in *.
  assert (Hreg : exists cb, cb_label cb = l /\ pend cb rc (cstep sid h c1 e) /\
                 forall re, e = EWait sid l re -> cb = CbFut l (length (s_futs (c_sub c1))) re).
  { destruct e as [q|q st0| |s0 l0|s0 l0 re0| | |]; simpl in Lb; try discriminate.
    - destruct (Nat.eqb s0 sid) eqn:E; [|discriminate]. injection Lb as ->. exists (CbPlain l).
      split; [reflexivity|]. split; [|intros re K; discriminate K].
      cbn [cstep]. rewrite E. unfold creg, pend. rewrite Rc. cbn [c_late]. apply in_or_app. right. left. reflexivity.
    - destruct (Nat.eqb s0 sid) eqn:E; [|discriminate]. injection Lb as ->. exists (CbFut l (length (s_futs (c_sub c1))) re0).
      split; [reflexivity|]. split; [|intros re K; inversion K; subst; reflexivity].
      cbn [cstep]. rewrite E. unfold creg, pend. rewrite Rc. cbn [c_late]. apply in_or_app. right. left. reflexivity. }
  destruct Hreg as [cb [Hl [Hp Hw]]].
  pose proof (Inv_step sid p r1 c1 e h I1) as I2.
  destruct (late_fold sid p cb rc (r2 ++ r3) (r1 ++ [e]) (step (fold_left step r1 w0) e) _ I2 (or_introl Hp)) as [_ [_ Dn]].
  specialize (Dn (in_or_app _ _ _ (or_introl Lp))).
  destruct Dn as [D1 D2]. rewrite Hl in D1. unfold es. split; [rewrite Hc; exact D1|].
  intros re K. rewrite (Hw re K) in D2. simpl in D2. eauto.
Qed.

(* ---------- the SIGCHLD handler: initialize / uninitialize ---------- *)
Lemma run_item_init w x : w_init (run_item w x) = w_init w.
Proof.
  destruct x as [sid st|sid c rc]; cbn [run_item].
  - unfold set_rc. destruct (nth_error (w_subs w) sid) as [s|]; [|reflexivity].
    destruct (decode st) as [rc|]; [|reflexivity]. destruct (s_cb s) as [c|]; [|reflexivity].
    destruct (invoke sid _ c rc). reflexivity.
  - unfold late_call. destruct (nth_error (w_subs w) sid) as [s|]; [|reflexivity].
    destruct (invoke sid s c rc). reflexivity.
Qed.

Lemma run_loop_init w : w_init (run_loop w) = w_init w.
Proof.
  unfold run_loop.
  assert (H : forall q w1, w_init (fold_left run_item q w1) = w_init w1).
  { induction q as [|x q IH]; intros w1; cbn [fold_left]; [reflexivity|]. rewrite IH. apply run_item_init. }
  rewrite H. reflexivity.
Qed.

Lemma step_keeps_handler w e : w_init w = true -> e <> EUninit -> w_init (step w e) = true.
Proof.
  intros H N. destruct e as [q|q st| |s l|s l re| | |]; simpl; try exact H; try reflexivity.
  - destruct (a_find q (w_kern w)) as [[]|]; exact H.
  - rewrite H. unfold cleanup. rewrite fold_try_init. exact H.
  - unfold register. destruct (nth_error (w_subs w) s) as [sb|]; [|exact H].
    destruct (s_rc sb); [exact H|]. rewrite try_init. reflexivity.
  - unfold register. destruct (nth_error (w_subs w) s) as [sb|]; [|exact H].
    destruct (s_rc sb); [exact H|]. rewrite try_init. reflexivity.
  - rewrite run_loop_init. exact H.
  - contradiction.
Qed.

Theorem handler_stays_installed a b : w_init (run a) = true -> ~ In EUninit b -> w_init (run (a ++ b)) = true.
Proof.
  revert a. induction b as [|e b IH]; intros a H N; [rewrite app_nil_r; exact H|].
  replace (a ++ e :: b) with ((a ++ [e]) ++ b) by (rewrite <- app_assoc; reflexivity).
  apply IH.
  - rewrite run_snoc. apply step_keeps_handler; [exact H|]. intros ->. apply N. left; reflexivity.
  - intros K. apply N. right; exact K.
Qed.

(* set_exit_callback / wait_for_exit on an object whose exit has not been reported installs the handler; so does initialize() *)
Theorem registration_installs_handler es e sid sb :
  nth_error (w_subs (run es)) sid = Some sb -> s_rc sb = None ->
  (exists l, e = EReg sid l) \/ (exists l re, e = EWait sid l re) -> w_init (run (es ++ [e])) = true.
Proof.
  intros Hs Rc [[l ->]|[l [re ->]]]; rewrite run_snoc; simpl; unfold register; rewrite Hs, Rc, try_init; reflexivity.
Qed.

(* without the handler (never installed, or removed by uninitialize()) a SIGCHLD changes nothing at all *)
Theorem sigchld_ignored_without_handler es : w_init (run es) = false -> run (es ++ [ESigchld]) = run es.
Proof. intros H. rewrite run_snoc. simpl. rewrite H. reflexivity. Qed.

(* ---------- one SIGCHLD serves every registered child that has died, however many ---------- *)
Theorem one_sigchld_serves_all es : wf es = true -> w_init (run es) = true ->
  forall sid p r c st, after_spawn sid es = Some (p, r) -> track sid es = Some c ->
    c_ph c = PhZombie st -> c_inw c = true ->
    exactly_once (es ++ [ESigchld; ELoop]) sid (r ++ [ESigchld; ELoop]) st.
Proof.
  intros W Hd sid p r c st A T P Iw.
  set (es' := es ++ [ESigchld; ELoop]).
  assert (W' : wf es' = true).
  { unfold wf, es' in *. unfold spawn_pids in *. rewrite flat_map_app. simpl. rewrite app_nil_r. exact W. }
  assert (A' : after_spawn sid es' = Some (p, r ++ [ESigchld; ELoop])) by (apply after_spawn_app; exact A).
  destruct (spawn_prefix_some es sid p r A) as [Ees Fpre].
  unfold track in T. rewrite A in T. injection T as T.
  apply (reported_world es' sid p _ st W' A').
  unfold es'. rewrite Fpre, trk_app, T.
  assert (Rn : fold_left step r (run (spawn_prefix sid es)) = run es).
  { rewrite <- run_app, <- Ees. reflexivity. }
  rewrite Rn, !trk_cons, Hd. unfold trk. cbn [fold_left snd cstep andb]. rewrite Iw.
  unfold reported.
  assert (Q : c_ph (ctry c) = PhQueued st) by (unfold ctry; rewrite P, Iw; reflexivity).
  pose proof (cloop_phase sid (ctry c)) as K. rewrite Q in K. exact K.
Qed.
