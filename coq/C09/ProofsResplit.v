(* C09 — re-splitting the URL that finish() builds for a cross-origin follow-up gives back the
   netloc it was built from, provided that netloc is not empty.  (For an empty netloc and a path
   starting with "//" this is false for CPython 3.12.1's urlunsplit: see NOTES.md.) *)
From Coq Require Import List NArith ZArith Bool Lia String.
Import ListNotations.
From TV Require Import C06.Model C06.ProofsBase C09.Url C09.Redirect C09.ProofsHeaders C09.ProofsRedirect
                       C09.ProofsRedirectTop.
Local Open Scope N_scope.

(* characters of any text that went through urlsplit's cleaning *)
Definition clean (c : N) : bool := (c <? 128) && negb (is_unsafe c).

Lemma forallb_app_iff {A} (p : A -> bool) a b : forallb p (a ++ b) = true <-> forallb p a = true /\ forallb p b = true.
Proof. rewrite forallb_app, andb_true_iff. tauto. Qed.

(* ---------- pieces keep the property of the whole ---------- *)
Lemma partition_forallb : forall (p : N -> bool) d l a b,
  forallb p l = true -> partition_at d l = (a, b) ->
  forallb p a = true /\ (forall z, b = Some z -> forallb p z = true).
Proof.
  intros p d l. induction l as [|c r IH]; intros a b H E; simpl in *.
  - inversion E; subst. split; [reflexivity|discriminate].
  - apply andb_true_iff in H. destruct H as [H1 H2].
    destruct (c =? d).
    + inversion E; subst. split; [reflexivity|]. intros z Hz. inversion Hz; subst. exact H2.
    + destruct (partition_at d r) as [a' b'] eqn:E'. inversion E; subst.
      destruct (IH a' b H2 eq_refl) as [I1 I2]. split; [simpl; rewrite H1; exact I1|exact I2].
Qed.

Lemma partition_no_delim : forall d l a b, partition_at d l = (a, b) -> forallb (fun c => negb (c =? d)) a = true.
Proof.
  intros d l. induction l as [|c r IH]; intros a b E; simpl in *.
  - inversion E; reflexivity.
  - destruct (c =? d) eqn:Ec.
    + inversion E; reflexivity.
    + destruct (partition_at d r) as [a' b'] eqn:E'. inversion E; subst. simpl. rewrite Ec. simpl. eapply IH. reflexivity.
Qed.

Lemma split_opt_forallb : forall (p : N -> bool) d l a b,
  forallb p l = true -> split_opt d l = (a, b) -> forallb p a = true /\ forallb p b = true.
Proof.
  intros p d l a b H E. unfold split_opt in E. destruct (partition_at d l) as [a' [z|]] eqn:Ep; inversion E; subst.
  - destruct (partition_forallb p d l _ _ H Ep) as [I1 I2]. split; [exact I1|apply I2; reflexivity].
  - destruct (partition_forallb p d l _ _ H Ep) as [I1 _]. split; [exact I1|reflexivity].
Qed.

Lemma span_netloc_spec : forall (p : N -> bool) l a b,
  forallb p l = true -> span_netloc l = (a, b) ->
  forallb p a = true /\ forallb p b = true /\ forallb (fun c => negb (is_delim c)) a = true.
Proof.
  intros p l. induction l as [|c r IH]; intros a b H E; simpl in *.
  - inversion E; subst. auto.
  - apply andb_true_iff in H. destruct H as [H1 H2]. destruct (is_delim c) eqn:Ed.
    + inversion E; subst. simpl. rewrite H1, H2. auto.
    + destruct (span_netloc r) as [a' b'] eqn:E'. inversion E; subst.
      destruct (IH a' b H2 eq_refl) as [I1 [I2 I3]]. simpl. rewrite H1, Ed, I1, I3. auto.
Qed.

Lemma lstrip_c0_forallb : forall (p : N -> bool) l, forallb p l = true -> forallb p (lstrip_c0 l) = true.
Proof.
  intros p l. induction l as [|c r IH]; intro H; simpl in *; [reflexivity|].
  apply andb_true_iff in H. destruct H as [H1 H2]. destruct (c <=? 32); [auto|]. simpl. rewrite H1, H2. reflexivity.
Qed.

Lemma remove_unsafe_clean : forall l, forallb (fun c => c <? 128) l = true -> forallb clean (remove_unsafe l) = true.
Proof.
  intros l. induction l as [|c r IH]; intro H; simpl in *; [reflexivity|].
  apply andb_true_iff in H. destruct H as [H1 H2]. destruct (is_unsafe c) eqn:Eu; simpl; [auto|].
  unfold clean at 1. rewrite H1, Eu. simpl. auto.
Qed.

Lemma ascii_of_check : forall l, existsb (fun c => 128 <=? c) l = false -> forallb (fun c => c <? 128) l = true.
Proof.
  induction l as [|c r IH]; intro H; simpl in *; [reflexivity|].
  apply orb_false_iff in H. destruct H as [H1 H2]. rewrite (IH H2), andb_true_r.
  apply N.ltb_lt. apply N.leb_gt in H1. exact H1.
Qed.

Lemma clean_lower : forall c, clean c = true -> clean (lower c) = true.
Proof.
  intros c H. unfold lower, in_range. destruct ((65 <=? c) && (c <=? 90)) eqn:E; [|exact H].
  apply andb_true_iff in E. destruct E as [E1 E2]. apply N.leb_le in E1, E2.
  unfold clean, is_unsafe. repeat (apply andb_true_iff; split).
  - apply N.ltb_lt. lia.
  - apply negb_true_iff. repeat (apply orb_false_iff; split); apply N.eqb_neq; lia.
Qed.

Lemma forallb_map_lower : forall l, forallb clean l = true -> forallb clean (map lower l) = true.
Proof.
  induction l as [|c r IH]; intro H; simpl in *; [reflexivity|].
  apply andb_true_iff in H. destruct H as [H1 H2]. rewrite (clean_lower c H1), (IH H2). reflexivity.
Qed.

(* what urlsplit guarantees about its result *)
Definition scheme_ok (s : text) : Prop :=
  s = [] \/ (exists c r, s = c :: r /\ is_alpha c = true) /\ forallb scheme_char s = true /\ map lower s = s.

Definition nl_ok (c : N) : bool :=
  clean c && negb (is_delim c) && negb ((c =? 91) || (c =? 93)).

Lemma scheme_char_lower : forall c, scheme_char c = true -> scheme_char (lower c) = true.
Proof.
  intros c H. unfold lower, in_range. destruct ((65 <=? c) && (c <=? 90)) eqn:E; [|exact H].
  apply andb_true_iff in E. destruct E as [E1 E2]. apply N.leb_le in E1, E2.
  unfold scheme_char, is_alpha, in_range.
  assert (A : (97 <=? c + 32) && (c + 32 <=? 122) = true).
  { apply andb_true_iff. split; apply N.leb_le; lia. }
  rewrite A. rewrite orb_true_r. reflexivity.
Qed.

Lemma is_alpha_lower : forall c, is_alpha c = true -> is_alpha (lower c) = true.
Proof.
  intros c H. unfold lower, in_range. destruct ((65 <=? c) && (c <=? 90)) eqn:E; [|exact H].
  apply andb_true_iff in E. destruct E as [E1 E2]. apply N.leb_le in E1, E2.
  unfold is_alpha, in_range.
  assert (A : (97 <=? c + 32) && (c + 32 <=? 122) = true).
  { apply andb_true_iff. split; apply N.leb_le; lia. }
  rewrite A. apply orb_true_r.
Qed.

Lemma map_lower_idem : forall l, map lower (map lower l) = map lower l.
Proof. induction l as [|c r IH]; simpl; [reflexivity|]. rewrite lower_lower, IH. reflexivity. Qed.

Lemma forallb_scheme_lower : forall l, forallb scheme_char l = true -> forallb scheme_char (map lower l) = true.
Proof.
  induction l as [|x l IH]; intro H; simpl in *; [reflexivity|].
  apply andb_true_iff in H. destruct H as [B1 B2]. rewrite (scheme_char_lower x B1), (IH B2). reflexivity.
Qed.

Lemma split_scheme_spec : forall url s rest,
  forallb clean url = true -> split_scheme url = (s, rest) ->
  scheme_ok s /\ forallb clean rest = true.
Proof.
  intros url s rest Hc E. unfold split_scheme in E.
  destruct (partition_at c_colon url) as [pre [post|]] eqn:Ep.
  - destruct pre as [|c pre].
    + inversion E; subst. split; [left; reflexivity|exact Hc].
    + destruct (is_alpha c && forallb scheme_char (c :: pre)) eqn:Ea.
      * inversion E; subst. apply andb_true_iff in Ea. destruct Ea as [A1 A2].
        destruct (partition_forallb clean c_colon url _ _ Hc Ep) as [_ I2].
        split; [|apply I2; reflexivity]. right. split; [|split].
        -- exists (lower c), (map lower pre). split; [reflexivity|apply is_alpha_lower; exact A1].
        -- change (forallb scheme_char (map lower (c :: pre)) = true). apply forallb_scheme_lower. exact A2.
        -- change (map lower (map lower (c :: pre)) = map lower (c :: pre)). apply map_lower_idem.
      * inversion E; subst. split; [left; reflexivity|exact Hc].
  - destruct pre; inversion E; subst; (split; [left; reflexivity|exact Hc]).
Qed.

Record usplit_ok (u : usplit) : Prop := {
  uo_scheme : scheme_ok (u_scheme u);
  uo_netloc : forallb nl_ok (u_netloc u) = true;
  uo_path : forallb clean (u_path u) = true;
  uo_query : forallb clean (u_query u) = true;
  uo_frag : forallb clean (u_frag u) = true
}.

Lemma forallb_and {A} (p q : A -> bool) l :
  forallb p l = true -> forallb q l = true -> forallb (fun c => p c && q c) l = true.
Proof.
  induction l as [|c r IH]; intros H1 H2; simpl in *; [reflexivity|].
  apply andb_true_iff in H1, H2. destruct H1 as [A1 A2]. destruct H2 as [B1 B2]. rewrite A1, B1. simpl. auto.
Qed.

Lemma existsb_false_forallb {A} (p : A -> bool) l : existsb p l = false -> forallb (fun c => negb (p c)) l = true.
Proof.
  induction l as [|c r IH]; intro H; simpl in *; [reflexivity|].
  apply orb_false_iff in H. destruct H as [H1 H2]. rewrite H1. simpl. auto.
Qed.

Lemma urlsplit_ok : forall x u, urlsplit x = UOk u -> usplit_ok u.
Proof.
  intros x u H. unfold urlsplit in H.
  destruct (existsb (fun c => 128 <=? c) x) eqn:Ea; [discriminate|].
  pose proof (remove_unsafe_clean _ (lstrip_c0_forallb _ _ (ascii_of_check _ Ea))) as Hc.
  destruct (split_scheme (remove_unsafe (lstrip_c0 x))) as [s rest] eqn:Es.
  destruct (split_scheme_spec _ _ _ Hc Es) as [Hs Hr].
  set (nr := match rest with
             | a :: b :: r => if (a =? c_slash) && (b =? c_slash) then span_netloc r else ([], rest)
             | _ => ([], rest)
             end) in *.
  assert (Hn : forallb clean (fst nr) = true /\ forallb clean (snd nr) = true /\
               forallb (fun c => negb (is_delim c)) (fst nr) = true).
  { unfold nr. destruct rest as [|a [|b r]]; simpl; auto.
    destruct ((a =? c_slash) && (b =? c_slash)); [|simpl; auto].
    simpl in Hr. apply andb_true_iff in Hr. destruct Hr as [_ Hr]. apply andb_true_iff in Hr. destruct Hr as [_ Hr].
    destruct (span_netloc r) as [a' b'] eqn:E'. exact (span_netloc_spec clean r a' b' Hr E'). }
  destruct nr as [netloc rest1]. simpl in Hn. destruct Hn as [N1 [N2 N3]].
  destruct (existsb (fun c => (c =? 91) || (c =? 93)) netloc) eqn:Eb; [discriminate|].
  destruct (split_opt c_hash rest1) as [rest2 frag] eqn:E2.
  destruct (split_opt c_qm rest2) as [path query] eqn:E3.
  inversion H; subst; clear H.
  destruct (split_opt_forallb clean _ _ _ _ N2 E2) as [R2 F2].
  destruct (split_opt_forallb clean _ _ _ _ R2 E3) as [P3 Q3].
  constructor; simpl; auto.
  unfold nl_ok. apply forallb_and; [apply forallb_and; [exact N1|exact N3]|].
  apply existsb_false_forallb. exact Eb.
Qed.

(* ---------- the re-split ---------- *)
Lemma span_netloc_app : forall nl tail,
  forallb (fun c => negb (is_delim c)) nl = true ->
  (tail = [] \/ exists c t, tail = c :: t /\ is_delim c = true) ->
  span_netloc (nl ++ tail) = (nl, tail).
Proof.
  induction nl as [|c r IH]; intros tail H Ht; simpl in *.
  - destruct Ht as [->|[c [t [-> Hd]]]]; simpl; [reflexivity|rewrite Hd; reflexivity].
  - apply andb_true_iff in H. destruct H as [H1 H2]. apply negb_true_iff in H1. rewrite H1.
    rewrite (IH tail H2 Ht). reflexivity.
Qed.

Lemma remove_unsafe_id : forall l, forallb clean l = true -> remove_unsafe l = l.
Proof.
  induction l as [|c r IH]; intro H; simpl in *; [reflexivity|].
  apply andb_true_iff in H. destruct H as [H1 H2]. unfold clean in H1. apply andb_true_iff in H1.
  destruct H1 as [_ H1]. rewrite H1. rewrite (IH H2). reflexivity.
Qed.

Lemma partition_at_app : forall d a r,
  forallb (fun c => negb (c =? d)) a = true -> partition_at d (a ++ d :: r) = (a, Some r).
Proof.
  induction a as [|c a IH]; intros r H; simpl in *.
  - rewrite N.eqb_refl. reflexivity.
  - apply andb_true_iff in H. destruct H as [H1 H2]. apply negb_true_iff in H1. rewrite H1, (IH r H2). reflexivity.
Qed.

Lemma scheme_char_not_colon : forall c, scheme_char c = true -> negb (c =? c_colon) = true.
Proof.
  intros c H. apply negb_true_iff. apply N.eqb_neq. intro E. subst. discriminate H.
Qed.

Lemma scheme_char_clean : forall c, scheme_char c = true -> clean c = true.
Proof.
  intros c H. unfold scheme_char, is_alpha, is_digit, in_range in H. unfold clean, is_unsafe.
  repeat rewrite orb_true_iff in H. repeat rewrite andb_true_iff in H.
  repeat rewrite N.leb_le in H. repeat rewrite N.eqb_eq in H.
  apply andb_true_iff. split; [apply N.ltb_lt|apply negb_true_iff; repeat (apply orb_false_iff; split); apply N.eqb_neq]; lia.
Qed.

Lemma forallb_impl {A} (p q : A -> bool) l : (forall c, p c = true -> q c = true) -> forallb p l = true -> forallb q l = true.
Proof.
  intros Hpq. induction l as [|c r IH]; intro H; simpl in *; [reflexivity|].
  apply andb_true_iff in H. destruct H as [H1 H2]. rewrite (Hpq c H1), (IH H2). reflexivity.
Qed.

Lemma split_scheme_nonalpha : forall x l, is_alpha x = false -> split_scheme (x :: l) = ([], x :: l).
Proof.
  intros x l Hx. unfold split_scheme. cbn [partition_at].
  destruct (x =? c_colon); [reflexivity|].
  destruct (partition_at c_colon l) as [a [b|]]; [|reflexivity]. rewrite Hx. reflexivity.
Qed.

Definition tail_of (path q f : text) : text :=
  let url := match path with
             | c :: _ => if c =? c_slash then path else c_slash :: path
             | [] => path
             end in
  let url := if nonempty q then url ++ c_qm :: q else url in
  if nonempty f then url ++ c_hash :: f else url.

Lemma tail_of_shape : forall path q f,
  tail_of path q f = [] \/ exists c t, tail_of path q f = c :: t /\ is_delim c = true.
Proof.
  intros path q f. unfold tail_of.
  destruct path as [|c p].
  - destruct q as [|qc q]; simpl.
    + destruct f as [|fc f]; simpl; [left; reflexivity|right; eexists _, _; split; [reflexivity|reflexivity]].
    + right. destruct f as [|fc f]; simpl; eexists _, _; split; reflexivity.
  - right. destruct (c =? c_slash) eqn:Ec.
    + apply N.eqb_eq in Ec. subst c. destruct q as [|qc q]; destruct f as [|fc f]; simpl; eexists _, _; split; reflexivity.
    + destruct q as [|qc q]; destruct f as [|fc f]; simpl; eexists _, _; split; reflexivity.
Qed.

Lemma tail_of_clean : forall path q f,
  forallb clean path = true -> forallb clean q = true -> forallb clean f = true ->
  forallb clean (tail_of path q f) = true.
Proof.
  intros path q f Hp Hq Hf. unfold tail_of.
  assert (A : forallb clean (match path with
                             | c :: _ => if c =? c_slash then path else c_slash :: path
                             | [] => path end) = true).
  { destruct path as [|c p]; [reflexivity|]. destruct (c =? c_slash); [exact Hp|]. simpl. simpl in Hp. exact Hp. }
  assert (B : forallb clean (if nonempty q
                             then (match path with
                                   | c :: _ => if c =? c_slash then path else c_slash :: path
                                   | [] => path end) ++ c_qm :: q
                             else (match path with
                                   | c :: _ => if c =? c_slash then path else c_slash :: path
                                   | [] => path end)) = true).
  { destruct (nonempty q); [|exact A]. apply forallb_app_iff. split; [exact A|]. simpl. exact Hq. }
  destruct (nonempty f); [|exact B]. apply forallb_app_iff. split; [exact B|]. simpl. exact Hf.
Qed.

Lemma urlunsplit_shape : forall s nl path q f,
  nl <> [] ->
  urlunsplit (mkU s nl path q f) =
  (if nonempty s then s ++ [c_colon] else []) ++ c_slash :: c_slash :: nl ++ tail_of path q f.
Proof.
  intros s nl path q f Hnl. unfold urlunsplit, tail_of. simpl.
  destruct nl as [|n0 nl]; [congruence|]. cbn [nonempty orb].
  destruct (nonempty s); destruct (nonempty q); destruct (nonempty f); simpl;
    repeat rewrite <- app_assoc; simpl; repeat rewrite <- app_assoc; reflexivity.
Qed.

Theorem resplit_netloc : forall s nl path q f,
  scheme_ok s -> nl <> [] -> forallb nl_ok nl = true ->
  forallb clean path = true -> forallb clean q = true -> forallb clean f = true ->
  exists u', urlsplit (urlunsplit (mkU s nl path q f)) = UOk u' /\ u_netloc u' = nl /\ u_scheme u' = s.
Proof.
  intros s nl path q f Hs Hnl Hn Hp Hq Hf.
  rewrite (urlunsplit_shape s nl path q f Hnl).
  set (tail := tail_of path q f).
  assert (Ht : forallb clean tail = true) by (apply tail_of_clean; assumption).
  assert (Hnc : forallb clean nl = true).
  { eapply forallb_impl; [|exact Hn]. intros c Hc. unfold nl_ok in Hc.
    apply andb_true_iff in Hc. destruct Hc as [Hc _]. apply andb_true_iff in Hc. tauto. }
  assert (Hnd : forallb (fun c => negb (is_delim c)) nl = true).
  { eapply forallb_impl; [|exact Hn]. intros c Hc. unfold nl_ok in Hc.
    apply andb_true_iff in Hc. destruct Hc as [Hc _]. apply andb_true_iff in Hc. tauto. }
  assert (Hnb : existsb (fun c => (c =? 91) || (c =? 93)) nl = false).
  { clear -Hn. induction nl as [|c r IH]; simpl in *; [reflexivity|].
    apply andb_true_iff in Hn. destruct Hn as [H1 H2]. unfold nl_ok in H1.
    apply andb_true_iff in H1. destruct H1 as [_ H1]. apply negb_true_iff in H1. rewrite H1. simpl. auto. }
  set (body := c_slash :: c_slash :: nl ++ tail).
  assert (Hbody : forallb clean body = true).
  { unfold body. simpl. apply forallb_app_iff. split; assumption. }
  destruct Hs as [->|[[c0 [r0 [Es Ha]]] [Hsc Hlow]]].
  - (* no scheme *)
    simpl. fold body. unfold urlsplit.
    assert (Easc : existsb (fun c => 128 <=? c) body = false).
    { clear -Hbody. induction body as [|c r IH]; simpl in *; [reflexivity|].
      apply andb_true_iff in Hbody. destruct Hbody as [H1 H2]. unfold clean in H1.
      apply andb_true_iff in H1. destruct H1 as [H1 _]. apply N.ltb_lt in H1.
      rewrite (IH H2), orb_false_r. apply N.leb_gt. exact H1. }
    rewrite Easc.
    assert (El : lstrip_c0 body = body) by reflexivity. rewrite El.
    rewrite (remove_unsafe_id body Hbody).
    assert (Esch : split_scheme body = ([], body)) by (unfold body; apply split_scheme_nonalpha; reflexivity).
    rewrite Esch. unfold body at 1. rewrite !N.eqb_refl. simpl andb. cbv iota.
    rewrite (span_netloc_app nl tail Hnd (tail_of_shape path q f)). rewrite Hnb.
    destruct (split_opt c_hash tail) as [rest2 frag]. destruct (split_opt c_qm rest2) as [p' q'].
    eexists. split; [reflexivity|]. simpl. auto.
  - (* scheme *)
    assert (Ens : nonempty s = true) by (rewrite Es; reflexivity). rewrite Ens.
    rewrite <- app_assoc. simpl app at 2. fold body. unfold urlsplit.
    assert (Hsclean : forallb clean s = true) by (eapply forallb_impl; [exact scheme_char_clean|exact Hsc]).
    assert (Hall : forallb clean (s ++ c_colon :: body) = true).
    { apply forallb_app_iff. split; [exact Hsclean|]. simpl. exact Hbody. }
    assert (Easc : existsb (fun c => 128 <=? c) (s ++ c_colon :: body) = false).
    { clear -Hall. induction (s ++ c_colon :: body) as [|c r IH]; simpl in *; [reflexivity|].
      apply andb_true_iff in Hall. destruct Hall as [H1 H2]. unfold clean in H1.
      apply andb_true_iff in H1. destruct H1 as [H1 _]. apply N.ltb_lt in H1.
      rewrite (IH H2), orb_false_r. apply N.leb_gt. exact H1. }
    rewrite Easc.
    assert (El : lstrip_c0 (s ++ c_colon :: body) = s ++ c_colon :: body).
    { rewrite Es. simpl. unfold is_alpha, in_range in Ha.
      destruct (c0 <=? 32) eqn:E32; [|reflexivity]. exfalso. apply N.leb_le in E32.
      apply orb_true_iff in Ha. repeat rewrite andb_true_iff in Ha. repeat rewrite N.leb_le in Ha. lia. }
    rewrite El. rewrite (remove_unsafe_id _ Hall).
    assert (Esch : split_scheme (s ++ c_colon :: body) = (s, body)).
    { unfold split_scheme.
      rewrite (partition_at_app c_colon s body
                 (forallb_impl _ _ _ scheme_char_not_colon Hsc)).
      rewrite Es. rewrite <- Es. rewrite Es in Hsc. rewrite Ha. rewrite <- Es in Hsc. rewrite Es.
      rewrite <- Es. rewrite Es in *. rewrite Hsc. simpl andb. cbv iota. rewrite Hlow. reflexivity. }
    rewrite Esch. unfold body at 1. rewrite !N.eqb_refl. simpl andb. cbv iota.
    rewrite (span_netloc_app nl tail Hnd (tail_of_shape path q f)). rewrite Hnb.
    destruct (split_opt c_hash tail) as [rest2 frag]. destruct (split_opt c_qm rest2) as [p' q'].
    eexists. split; [reflexivity|]. simpl. auto.
Qed.

(* ---------- the netloc finish() rebuilds is a good netloc ---------- *)
Lemma rpartition_snd_forallb : forall (p : N -> bool) d l,
  forallb p l = true -> forallb p (snd (rpartition_at d l)) = true.
Proof.
  intros p d l. induction l as [|c r IH]; intro H; simpl in *; [reflexivity|].
  apply andb_true_iff in H. destruct H as [H1 H2]. specialize (IH H2).
  destruct (rpartition_at d r) as [[a|] b]; simpl in *; [exact IH|].
  destruct (c =? d); simpl; [exact IH|]. rewrite H1, IH. reflexivity.
Qed.

Lemma nl_ok_lower : forall c, nl_ok c = true -> nl_ok (lower c) = true.
Proof.
  intros c H. unfold lower, in_range. destruct ((65 <=? c) && (c <=? 90)) eqn:E; [|exact H].
  apply andb_true_iff in E. destruct E as [E1 E2]. apply N.leb_le in E1, E2.
  unfold nl_ok, clean, is_unsafe, is_delim, c_slash, c_qm, c_hash.
  repeat (apply andb_true_iff; split); try (apply N.ltb_lt; lia);
    apply negb_true_iff; repeat (apply orb_false_iff; split); apply N.eqb_neq; lia.
Qed.

Lemma forallb_nl_ok_lower : forall l, forallb nl_ok l = true -> forallb nl_ok (map lower l) = true.
Proof.
  induction l as [|c r IH]; intro H; simpl in *; [reflexivity|].
  apply andb_true_iff in H. destruct H as [H1 H2]. rewrite (nl_ok_lower c H1), (IH H2). reflexivity.
Qed.

Lemma host_port_fst_ok : forall nl, forallb nl_ok nl = true -> forallb nl_ok (fst (host_port nl)) = true.
Proof.
  intros nl H. unfold host_port, hostinfo.
  pose proof (rpartition_snd_forallb nl_ok c_at nl H) as A.
  destruct (partition_at c_colon (snd (rpartition_at c_at nl))) as [h0 b] eqn:Ep.
  destruct (partition_forallb nl_ok c_colon _ _ _ A Ep) as [I1 _].
  destruct b as [[|c p]|]; exact I1.
Qed.

Lemma hostname_ok : forall nl hn, forallb nl_ok nl = true -> hostname nl = Some hn ->
  hn <> [] /\ forallb nl_ok hn = true.
Proof.
  intros nl hn H Hh. unfold hostname in Hh. pose proof (host_port_fst_ok nl H) as A.
  destruct (fst (host_port nl)) as [|c0 h0] eqn:Eh; [discriminate|]. rewrite <- Eh in *.
  destruct (partition_at c_pct (fst (host_port nl))) as [a [z|]] eqn:Ep; inversion Hh; subst; clear Hh.
  - destruct (partition_forallb nl_ok c_pct _ _ _ A Ep) as [I1 I2]. split.
    + intro E. apply app_eq_nil in E. destruct E as [_ E]. discriminate.
    + apply forallb_app_iff. split; [apply forallb_nl_ok_lower; exact I1|].
      cbn [forallb]. rewrite (I2 z eq_refl). reflexivity.
  - destruct (partition_forallb nl_ok c_pct _ _ _ A Ep) as [I1 _]. split.
    + destruct a as [|x a]; [|discriminate].
      exfalso. rewrite Eh in Ep. cbn [partition_at] in Ep. destruct (c0 =? c_pct); [discriminate|].
      destruct (partition_at c_pct h0) as [a' b']. discriminate.
    + apply forallb_nl_ok_lower. exact I1.
Qed.

Lemma dec_digits_ok : forall fu n acc t,
  dec_digits fu n acc = Some t -> forallb nl_ok acc = true -> forallb nl_ok t = true.
Proof.
  induction fu as [|fu IH]; intros n acc t H Ha; cbn [dec_digits] in H; [discriminate|].
  assert (D : forall k, k < 10 -> nl_ok (48 + k) = true).
  { intros k Hk. unfold nl_ok, clean, is_unsafe, is_delim, c_slash, c_qm, c_hash.
    repeat (apply andb_true_iff; split); try (apply N.ltb_lt; lia);
      apply negb_true_iff; repeat (apply orb_false_iff; split); apply N.eqb_neq; lia. }
  destruct (n <? 10) eqn:E.
  - assert (Et : t = (48 + n) :: acc) by congruence. subst t. cbn [forallb].
    apply N.ltb_lt in E. rewrite (D n E), Ha. reflexivity.
  - eapply IH; [exact H|]. cbn [forallb]. rewrite Ha, (D (n mod 10) (N.mod_lt n 10 ltac:(lia))). reflexivity.
Qed.

Lemma stripped_netloc_ok : forall nl nl', forallb nl_ok nl = true -> stripped_netloc nl = NOk nl' ->
  nl' <> [] /\ forallb nl_ok nl' = true.
Proof.
  intros nl nl' H Hs. unfold stripped_netloc in Hs.
  destruct (port nl) as [|n|]; try discriminate.
  - destruct (hostname nl) as [hn|] eqn:Eh; [|discriminate]. inversion Hs; subst. eapply hostname_ok; eauto.
  - destruct (to_dec n) as [d|] eqn:Ed; [|discriminate]. inversion Hs; subst; clear Hs. split.
    + intro E. apply app_eq_nil in E. destruct E as [_ E]. discriminate.
    + apply forallb_app_iff. split.
      * destruct (hostname nl) as [hn|] eqn:Eh; [eapply hostname_ok; eauto|reflexivity].
      * cbn [forallb]. unfold to_dec in Ed. rewrite (dec_digits_ok _ _ _ _ Ed eq_refl). reflexivity.
Qed.

Lemma no_at_rpartition : forall nl, has_at nl = false -> fst (rpartition_at c_at nl) = None.
Proof.
  induction nl as [|c l IH]; intro H; [reflexivity|].
  unfold has_at in *. cbn [existsb] in H. apply orb_false_iff in H. destruct H as [A1 A2].
  specialize (IH A2). cbn [rpartition_at]. destruct (rpartition_at c_at l) as [[a|] b]; [discriminate|].
  rewrite N.eqb_sym in A1. rewrite A1. reflexivity.
Qed.

Lemma no_at_no_userinfo : forall nl, has_at nl = false -> userinfo nl = None.
Proof.
  intros nl H. unfold userinfo. pose proof (no_at_rpartition nl H) as A.
  destruct (rpartition_at c_at nl) as [[ui|] b]; [discriminate|reflexivity].
Qed.

(* ---------- the URL credentials clause at full strength ---------- *)
(* A follow-up whose Location-derived URL has a different scheme or netloc than the original
   request, and a non-empty netloc: the URL it carries re-parses to a netloc WITHOUT userinfo. *)
Theorem redirect_cross_origin_no_userinfo : forall orig r h code joined r' uo un,
  redirect_request orig r h code joined = FRedirect r' ->
  urlsplit orig = UOk uo -> urlsplit joined = UOk un ->
  different_origin uo un -> u_netloc un <> [] ->
  exists u', urlsplit (r_url r') = UOk u' /\ has_at (u_netloc u') = false /\
             userinfo (u_netloc u') = None /\ u_scheme u' = u_scheme un.
Proof.
  intros orig r h code joined r' uo un H Ho En Hd Hne.
  pose proof (urlsplit_ok _ _ En) as [S1 S2 S3 S4 S5].
  pose proof H as H0. apply redirect_inv in H0. destruct H0 as [h1 [h2 [h3 [h4 [uo' [un' F]]]]]].
  pose proof (rf_orig _ _ _ _ _ _ _ _ _ _ _ _ F) as Eo'. pose proof (rf_new _ _ _ _ _ _ _ _ _ _ _ _ F) as En'.
  rewrite Ho in Eo'. rewrite En in En'. inversion Eo'; inversion En'; subst uo' un'. clear Eo' En'.
  apply cross_origin_iff in Hd.
  pose proof no_at_no_userinfo as Hui.
  destruct (rf_cross _ _ _ _ _ _ _ _ _ _ _ _ F) as [[_ [_ [_ [_ Hurl]]]]|[Hx _]]; [|congruence].
  destruct Hurl as [[Hat [nl [Hs Hurl]]]|[Hat Hurl]].
  - destruct (stripped_netloc_ok _ _ S2 Hs) as [N1 N2].
    destruct (resplit_netloc (u_scheme un) nl (u_path un) (u_query un) (u_frag un) S1 N1 N2 S3 S4 S5)
      as [u' [E1 [E2 E3]]].
    exists u'. rewrite Hurl. split; [exact E1|]. rewrite E2.
    pose proof (stripped_netloc_lacks_at _ _ Hs) as A. split; [exact A|]. split; [apply Hui; exact A|exact E3].
  - destruct (resplit_netloc (u_scheme un) (u_netloc un) (u_path un) (u_query un) (u_frag un) S1 Hne S2 S3 S4 S5)
      as [u' [E1 [E2 E3]]].
    exists u'. rewrite Hurl. replace un with (mkU (u_scheme un) (u_netloc un) (u_path un) (u_query un) (u_frag un)) at 1
      by (destruct un; reflexivity).
    split; [exact E1|]. rewrite E2. split; [exact Hat|]. split; [apply Hui; exact Hat|exact E3].
Qed.

(* ... and on the wire it carries neither a Cookie nor an Authorization line *)
Theorem redirect_cross_origin_wire_strict : forall orig r h code joined r' uo un ver w,
  redirect_request orig r h code joined = FRedirect r' ->
  urlsplit orig = UOk uo -> urlsplit joined = UOk un ->
  different_origin uo un -> u_netloc un <> [] ->
  prepare ver r' = Sent w ->
  no_header H_Cookie (w_headers w) /\ no_header H_Authorization (w_headers w).
Proof.
  intros orig r h code joined r' uo un ver w H Ho En Hd Hne Hp.
  destruct (redirect_cross_origin_no_userinfo _ _ _ _ _ _ _ _ H Ho En Hd Hne) as [u' [E1 [E2 [E3 E4]]]].
  destruct (redirect_cross_origin_strips _ _ _ _ _ _ _ _ H Ho En Hd) as [[A _] [[B _] [C [D _]]]].
  pose proof H as H0. apply redirect_inv in H0. destruct H0 as [h1 [h2 [h3 [h4 [uo' [un' F]]]]]].
  pose proof (new_headers_norm _ _ _ _ _ _ _ _ _ _ _ _ F) as Hn.
  destruct (prepare_wire_strip ver r' w Hp Hn) as [P1 P2]. split.
  - apply P1. exact (proj1 (B H_Cookie norm_Cookie)).
  - destruct (P2 (proj1 (A H_Authorization norm_Authorization)) C) as [X|[u [us [pw [X1 X2]]]]]; [exact X|].
    exfalso. rewrite E1 in X1. inversion X1; subst u. rewrite E3 in X2. discriminate.
Qed.
