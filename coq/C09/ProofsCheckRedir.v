(* C09 — the redirect model passes the redirect checker of Run.v:
     check_redir_sound : forall rc, check_redir rc (run_redir rc) = true. *)
From Coq Require Import List NArith ZArith Bool String Lia.
Import ListNotations.
From TV Require Import Lib.Obs C09.Run C06.Model C06.ProofsBase C09.Url C09.Redirect
  C09.ProofsHeaders C09.ProofsRedirect C09.ProofsRedirectTop C09.ProofsResplit C09.ProofsRun.
Local Open Scope string_scope.
Local Open Scope list_scope.
Local Open Scope N_scope.

(* ---------------- rendering of one observed request ---------------- *)
Definition st_of (x : sent) : text := match sn_wire x with Some w => w_start w | None => [] end.
Definition lines_of (x : sent) : list text :=
  match sn_wire x with Some w => map header_line (get_all (w_headers w)) | None => [] end.
Definition body_of (x : sent) : text := match sn_wire x with Some w => w_body w | None => [] end.

Lemma hop_lines_fold : forall L : list (text * text),
  fold_right (fun x acc => match x, acc with OBytes l, Some r => Some (l :: r) | _, _ => None end)
             (Some []) (map (fun kv => OBytes (header_line kv)) L) = Some (map header_line L).
Proof.
  induction L as [|kv L IH]; [reflexivity|]. cbn [map fold_right]. rewrite IH. reflexivity.
Qed.

Lemma hop_start_sent x : hop_start (obs_sent x) = Some (st_of x).
Proof. unfold obs_sent, st_of. destruct (sn_wire x); reflexivity. Qed.
Lemma hop_url_sent x : hop_url (obs_sent x) = Some (sn_url x).
Proof. unfold obs_sent. destruct (sn_wire x); reflexivity. Qed.
Lemma hop_body_sent x : hop_body (obs_sent x) = Some (body_of x).
Proof. unfold obs_sent, body_of. destruct (sn_wire x); reflexivity. Qed.
Lemma hop_lines_sent x : hop_lines (obs_sent x) = Some (lines_of x).
Proof.
  unfold obs_sent, lines_of. destruct (sn_wire x) as [w|]; unfold hop_lines; [|reflexivity].
  apply hop_lines_fold.
Qed.

Lemma chk_pair_sent uo x hp nx :
  chk_pair uo (obs_sent x) hp (obs_sent nx) =
  is_redirect_code (hp_code hp) && hp_loc hp &&
  (negb (nonempty (st_of nx)) ||
   (negb (to_get (hp_code hp) (method_of (st_of x))) ||
    (text_eqb (method_of (st_of nx)) (T "GET") && negb (nonempty (body_of nx)) &&
     negb (has_header "content-length" (lines_of nx)) && negb (has_header "content-type" (lines_of nx)) &&
     negb (has_header "content-encoding" (lines_of nx)) &&
     negb (has_header "transfer-encoding" (lines_of nx)))) &&
   match urlsplit (sn_url nx), urlsplit (hp_joined hp) with
   | UOk un, UOk uj =>
       negb (cross_origin uo un) ||
       (negb (has_header "cookie" (lines_of nx)) &&
        (negb (nonempty (u_netloc uj)) ||
         (negb (has_at (u_netloc un)) && negb (has_header "authorization" (lines_of nx)))))
   | _, _ => false
   end).
Proof.
  unfold chk_pair. rewrite !hop_start_sent, !hop_url_sent, !hop_lines_sent, !hop_body_sent. reflexivity.
Qed.

(* ---------------- header lines ---------------- *)
Lemma tchar_not_colon : forall c, is_tchar c = true -> negb (c =? c_colon) = true.
Proof.
  intros c H. destruct (c =? c_colon) eqn:E; [|reflexivity].
  apply N.eqb_eq in E. subst c. vm_compute in H. discriminate H.
Qed.

Lemma line_name_token k v : is_token k = true -> line_name (header_line (k, v)) = map lower k.
Proof.
  intro H. unfold line_name, header_line. cbn [fst snd].
  change (k ++ [58; 32] ++ v) with (k ++ c_colon :: 32 :: v).
  rewrite partition_at_app; [reflexivity|].
  unfold is_token in H. destruct k as [|c k]; [discriminate H|].
  eapply forallb_impl; [|exact H]. apply tchar_not_colon.
Qed.

Lemma no_line name : forall L : list (text * text),
  (forall k v, In (k, v) L -> map lower k <> T name) ->
  forallb (fun kv => is_token (fst kv)) L = true ->
  has_header name (map header_line L) = false.
Proof.
  unfold has_header. induction L as [|[k v] L IH]; intros HN HT; [reflexivity|].
  cbn [map existsb forallb fst] in *. apply andb_true_iff in HT. destruct HT as [T1 T2].
  rewrite (line_name_token k v T1).
  assert (E : text_eqb (map lower k) (T name) = false).
  { apply text_eqb_neq. apply (HN k v). left. reflexivity. }
  rewrite E. cbn [orb]. apply IH; [|exact T2]. intros k' v' Hin. apply (HN k' v'). right. exact Hin.
Qed.

Lemma no_header_has_header K name h :
  map lower K = T name -> no_header K h ->
  forallb (fun kv => is_token (fst kv)) (get_all h) = true ->
  has_header name (map header_line (get_all h)) = false.
Proof.
  intros EK [_ N2] HT. apply no_line; [|exact HT]. intros k v Hin. rewrite <- EK. eapply N2. exact Hin.
Qed.

(* ---------------- the request line ---------------- *)
Lemma supported_no_space m :
  in_texts m supported_methods = true -> forallb (fun c => negb (c =? 32)) m = true.
Proof.
  unfold in_texts. intro H. apply existsb_exists in H. destruct H as (m' & Hin & E).
  apply text_eqb_eq in E. subst m'. unfold supported_methods in Hin. vm_compute in Hin.
  repeat (destruct Hin as [<-|Hin]; [reflexivity|]). destruct Hin.
Qed.

Lemma method_of_start m rest :
  forallb (fun c => negb (c =? 32)) m = true -> method_of (m ++ [32] ++ rest) = m.
Proof.
  intro H. unfold method_of. change (m ++ [32] ++ rest) with (m ++ 32 :: rest).
  rewrite partition_at_app; [reflexivity|exact H].
Qed.

(* ---------------- inversion of prepare = Sent ---------------- *)
Lemma prepare_sent_shape : forall ver r w,
  prepare ver r = Sent w ->
  in_texts (r_method r) supported_methods = true /\
  (exists path, w_start w = r_method r ++ [32] ++ path ++ T " HTTP/1.1") /\
  w_body w = match r_body r with Some b => b | None => [] end /\
  forallb (fun kv => is_token (fst kv)) (get_all (w_headers w)) = true /\
  exists u, urlsplit (r_url r) = UOk u.
Proof.
  intros ver r w H. unfold prepare in H.
  destruct (urlsplit (r_url r)) as [u|] eqn:Eu; [|discriminate H].
  destruct (negb (in_texts (u_scheme u) [T "http"; T "https"])); [discriminate H|].
  cbv zeta in H.
  destruct (split_host_and_port (hostinfo (u_netloc u))) as [host p].
  destruct (negb (in_texts (r_method r) supported_methods)) eqn:Em; [discriminate H|].
  apply negb_false_iff in Em.
  destruct (credentials (u_netloc u) r) as [|us pw|]; [| |discriminate H].
  - destruct (_ || _); [discriminate H|].
    destruct (match r_body r with Some b => _ | None => _ end) as [h4|]; [|discriminate H].
    destruct (negb (forallb _ _)) eqn:Et; [discriminate H|]. apply negb_false_iff in Et.
    destruct (_ || _); [discriminate H|].
    injection H as <-. cbn [w_start w_body w_headers].
    split; [exact Em|]. split; [eexists; reflexivity|]. split; [reflexivity|].
    split; [exact Et|]. exists u. reflexivity.
  - destruct (_ || _); [discriminate H|].
    destruct (match r_body r with Some b => _ | None => _ end) as [h4|]; [|discriminate H].
    destruct (negb (forallb _ _)) eqn:Et; [discriminate H|]. apply negb_false_iff in Et.
    destruct (_ || _); [discriminate H|].
    injection H as <-. cbn [w_start w_body w_headers].
    split; [exact Em|]. split; [eexists; reflexivity|]. split; [reflexivity|].
    split; [exact Et|]. exists u. reflexivity.
Qed.

Lemma st_of_method ver r w x :
  prepare ver r = Sent w -> sn_wire x = Some w -> method_of (st_of x) = r_method r.
Proof.
  intros Hp Hw. destruct (prepare_sent_shape _ _ _ Hp) as (Hm & (path & Hs) & _).
  unfold st_of. rewrite Hw, Hs. apply method_of_start. apply supported_no_space. exact Hm.
Qed.

(* ---------------- one pair of consecutive requests ---------------- *)
Lemma is_redirect_code_In c : In c [301; 302; 303; 307; 308]%Z -> is_redirect_code c = true.
Proof.
  intro H. unfold is_redirect_code. apply existsb_exists. exists c. split; [exact H|apply Z.eqb_refl].
Qed.

Lemma lower_CL : map lower H_ContentLength = T "content-length".      Proof. reflexivity. Qed.
Lemma lower_CT : map lower H_ContentType = T "content-type".          Proof. reflexivity. Qed.
Lemma lower_CE : map lower H_ContentEncoding = T "content-encoding".  Proof. reflexivity. Qed.
Lemma lower_TE : map lower H_TransferEncoding = T "transfer-encoding". Proof. reflexivity. Qed.
Lemma lower_Cookie : map lower H_Cookie = T "cookie".                 Proof. reflexivity. Qed.
Lemma lower_Auth : map lower H_Authorization = T "authorization".     Proof. reflexivity. Qed.

Lemma chk_pair_ok ver orig uo r w hp r' x nx :
  urlsplit orig = UOk uo ->
  prepare ver r = Sent w -> sn_wire x = Some w ->
  should_follow r (hp_code hp) (hp_loc hp) = true ->
  redirect_request orig r (w_headers w) (hp_code hp) (hp_joined hp) = FRedirect r' ->
  sn_url nx = r_url r' ->
  (sn_wire nx = None \/ exists w', prepare ver r' = Sent w' /\ sn_wire nx = Some w') ->
  chk_pair uo (obs_sent x) hp (obs_sent nx) = true.
Proof.
  intros Ho Hp Hx Hsf Hr Hurl Hnx. rewrite chk_pair_sent.
  apply should_follow_iff in Hsf. destruct Hsf as (_ & Hcode & _ & Hloc).
  rewrite (is_redirect_code_In _ Hcode), Hloc. cbn [andb].
  destruct Hnx as [Hn|(w' & Hp' & Hn)].
  { unfold st_of. rewrite Hn. reflexivity. }
  apply orb_true_iff. right.
  destruct (prepare_sent_shape _ _ _ Hp') as (Hm' & (path' & Hs') & Hb' & Ht' & (un & Eun)).
  assert (Hl : lines_of nx = map header_line (get_all (w_headers w'))) by (unfold lines_of; rewrite Hn; reflexivity).
  apply andb_true_iff. split.
  - (* method rewriting *)
    rewrite (st_of_method _ _ _ _ Hp Hx).
    destruct (to_get (hp_code hp) (r_method r)) eqn:Etg; [|reflexivity]. cbn [negb orb].
    destruct (redirect_to_get _ _ _ _ _ _ Hr Etg) as (Em & Eb & _).
    destruct (redirect_to_get_wire _ _ _ _ _ _ ver w' Hr Etg Hp') as (N1 & N2 & N3 & N4).
    rewrite (st_of_method _ _ _ _ Hp' Hn), Em, text_eqb_refl.
    assert (Eb' : body_of nx = []) by (unfold body_of; rewrite Hn, Hb', Eb; reflexivity).
    rewrite Eb', Hl.
    rewrite (no_header_has_header _ _ _ lower_CL N1 Ht'), (no_header_has_header _ _ _ lower_CT N2 Ht'),
            (no_header_has_header _ _ _ lower_CE N3 Ht'), (no_header_has_header _ _ _ lower_TE N4 Ht').
    reflexivity.
  - (* cross-origin stripping *)
    destruct (redirect_inv _ _ _ _ _ _ Hr) as (h1 & h2 & h3 & h4 & uo' & uj & F).
    destruct F as [Fc1 Fo Fn Fx Fh Fm Fc2 Fmr Ff Fua].
    rewrite Ho in Fo. injection Fo as <-.
    rewrite Hurl, Eun, Fn.
    destruct (cross_origin uo un) eqn:Ex; [|reflexivity]. cbn [negb orb].
    assert (Hd : different_origin uo un) by (apply cross_origin_iff; exact Ex).
    destruct (redirect_cross_origin_wire _ _ _ _ _ _ _ _ ver w' Hr Ho Eun Hd Hp') as [NC _].
    rewrite Hl, (no_header_has_header _ _ _ lower_Cookie NC Ht'). cbn [negb andb].
    destruct (u_netloc uj) as [|c nl] eqn:Enl; [reflexivity|]. cbn [nonempty negb orb].
    assert (Hdj : different_origin uo uj).
    { destruct Fx as [(Hxj & _)|(Hxj & _ & Eurl & _)]; [apply cross_origin_iff; exact Hxj|].
      exfalso. rewrite Eurl, Fn in Eun. injection Eun as <-. congruence. }
    assert (Hne : u_netloc uj <> []) by (rewrite Enl; discriminate).
    destruct (redirect_cross_origin_no_userinfo _ _ _ _ _ _ _ _ Hr Ho Fn Hdj Hne) as (u' & Eu' & Hat & _).
    rewrite Eun in Eu'. injection Eu' as <-. rewrite Hat.
    destruct (redirect_cross_origin_wire_strict _ _ _ _ _ _ _ _ ver w' Hr Ho Fn Hdj Hne Hp') as [_ NA].
    rewrite (no_header_has_header _ _ _ lower_Auth NA Ht'). reflexivity.
Qed.

(* ---------------- inversion of chain ---------------- *)
Lemma chain_head ver orig r script x l f :
  chain ver orig r script = (x :: l, f) ->
  sn_url x = r_url r /\ (exists u, urlsplit (r_url r) = UOk u) /\
  (sn_wire x = None \/ exists w, prepare ver r = Sent w /\ sn_wire x = Some w).
Proof.
  intro H.
  assert (Hu : forall host p tls e, prepare ver r = PostFail host p tls e -> exists u, urlsplit (r_url r) = UOk u).
  { intros host p tls e Hp. unfold prepare in Hp.
    destruct (urlsplit (r_url r)) as [u|]; [exists u; reflexivity|discriminate Hp]. }
  destruct script as [|hp script]; cbn [chain] in H;
    destruct (prepare ver r) as [e|host p tls e|w] eqn:Hp.
  - destruct e; discriminate H.
  - destruct e; try discriminate H; injection H as <- <- <-;
      (split; [reflexivity|split; [eapply Hu; reflexivity|left; reflexivity]]).
  - injection H as <- <- <-. split; [reflexivity|].
    split; [apply (prepare_sent_shape _ _ _ Hp)|]. right. exists w. split; reflexivity.
  - destruct e; discriminate H.
  - destruct e; try discriminate H; injection H as <- <- <-;
      (split; [reflexivity|split; [eapply Hu; reflexivity|left; reflexivity]]).
  - assert (Hx : x = mkSentRec (r_url r) (Some w) (w_host w) (w_port w) (w_tls w)).
    { destruct (should_follow r (hp_code hp) (hp_loc hp)); [|injection H as <- _ _; reflexivity].
      destruct (redirect_request orig r (w_headers w) (hp_code hp) (hp_joined hp)) as [r'| | | |];
        try (injection H as <- _ _; reflexivity).
      destruct (chain ver orig r' script) as [l' f']. injection H as <- _ _. reflexivity. }
    subst x. split; [reflexivity|]. split; [apply (prepare_sent_shape _ _ _ Hp)|].
    right. exists w. split; reflexivity.
Qed.

Lemma chain_cons2 ver orig r script x nx l f :
  chain ver orig r script = (x :: nx :: l, f) ->
  exists w hp script' r',
    script = hp :: script' /\ prepare ver r = Sent w /\ sn_wire x = Some w /\
    should_follow r (hp_code hp) (hp_loc hp) = true /\
    redirect_request orig r (w_headers w) (hp_code hp) (hp_joined hp) = FRedirect r' /\
    chain ver orig r' script' = (nx :: l, f).
Proof.
  intro H. destruct script as [|hp script]; cbn [chain] in H;
    destruct (prepare ver r) as [e|host p tls e|w] eqn:Hp;
    try (destruct e; discriminate H).
  - discriminate H.
  - destruct (should_follow r (hp_code hp) (hp_loc hp)) eqn:Hsf; [|discriminate H].
    destruct (redirect_request orig r (w_headers w) (hp_code hp) (hp_joined hp)) as [r'| | | |] eqn:Hr;
      try discriminate H.
    destruct (chain ver orig r' script) as [l' f'] eqn:Hc. injection H as <- <- <-.
    exists w, hp, script, r'. repeat split; assumption.
Qed.

(* ---------------- every consecutive pair of a chain ---------------- *)
Lemma chk_hops_chain ver orig uo :
  urlsplit orig = UOk uo ->
  forall script r x l f,
    chain ver orig r script = (x :: l, f) ->
    chk_hops uo (obs_sent x) script (map obs_sent l) = true.
Proof.
  intros Ho script. induction script as [|hp script IH]; intros r x l f H.
  - destruct l as [|nx l]; [reflexivity|].
    destruct (chain_cons2 _ _ _ _ _ _ _ _ H) as (w & hp & script' & r' & E & _). discriminate E.
  - destruct l as [|nx l]; [reflexivity|].
    destruct (chain_cons2 _ _ _ _ _ _ _ _ H) as (w & hp' & script' & r' & E & Hp & Hx & Hsf & Hr & Hc).
    injection E as <- <-.
    cbn [map chk_hops]. apply andb_true_iff. split.
    + destruct (chain_head _ _ _ _ _ _ _ Hc) as (Hurl & _ & Hw).
      eapply chk_pair_ok; eauto.
    + eapply IH. exact Hc.
Qed.

(* ---------------- the initial request ---------------- *)
Lemma initial_req_fields rc r :
  initial_req rc = Some r -> r_follow r = rc_follow rc /\ r_maxred r = rc_maxred rc.
Proof.
  unfold initial_req. intro H. destruct (rc_dict rc).
  - injection H as <-. split; reflexivity.
  - destruct (add_all (rc_headers rc) empty_h) as [res h0]. destruct res; try discriminate H.
    destruct (copy h0) as [res h]. destruct res; try discriminate H.
    injection H as <-. split; reflexivity.
Qed.

Lemma check_redir_list rc hops y :
  check_redir rc (OList [OList hops; y]) =
  (Nat.leb (List.length hops)
           (S (if match rc_follow rc with Some b => b | None => true end
               then Z.to_nat (match rc_maxred rc with
                              | Some z => z
                              | None => match rc_defmax rc with Some d => d | None => 5%Z end
                              end) else 0%nat))) &&
  match hops with
  | [] => true
  | first :: rest =>
      match urlsplit (rc_url rc) with
      | UOk uo => chk_hops uo first (rc_script rc) rest
      | UUnmodelled => false
      end
  end.
Proof. reflexivity. Qed.

Lemma check_redir_chain rc r l f y :
  initial_req rc = Some r ->
  chain (rc_ver rc) (rc_url rc) r (rc_script rc) = (l, f) ->
  check_redir rc (OList [OList (map obs_sent l); y]) = true.
Proof.
  intros Hi Hc. rewrite check_redir_list. apply andb_true_iff. split.
  - rewrite map_length. apply Nat.leb_le.
    destruct (initial_req_fields _ _ Hi) as [Ef Em].
    assert (B := fetch_chain_bounded rc r Hi). rewrite Hc in B. cbn [fst] in B.
    destruct (chain_length (rc_ver rc) (rc_url rc) (rc_script rc) r) as [_ B1].
    rewrite Hc in B1. cbn [fst] in B1. unfold follow_of in B1. rewrite Ef in B1.
    destruct (rc_follow rc) as [[|]|]; try exact B. specialize (B1 eq_refl). lia.
  - destruct l as [|x l]; [reflexivity|]. cbn [map].
    destruct (initial_req_facts _ _ Hi) as [Eurl _].
    destruct (chain_head _ _ _ _ _ _ _ Hc) as (_ & (uo & Eu) & _). rewrite Eurl in Eu. rewrite Eu.
    eapply chk_hops_chain; [exact Eu|exact Hc].
Qed.

Theorem check_redir_sound : forall rc, check_redir rc (run_redir rc) = true.
Proof.
  intro rc. unfold run_redir.
  destruct (negb (rcase_ascii rc)); [reflexivity|].
  destruct (initial_req rc) as [r|] eqn:Hi; [|reflexivity].
  destruct (chain (rc_ver rc) (rc_url rc) r (rc_script rc)) as [l f] eqn:Hc.
  destruct f; try reflexivity; eapply check_redir_chain; eauto.
Qed.

Print Assumptions check_redir_sound.
