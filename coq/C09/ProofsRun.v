(* C09 — the redirect theorems applied to run_case's scenario (one fetch against a scripted
   server), and concrete witnesses (non-vacuity; the inputs that used to break the property). *)
From Coq Require Import List NArith ZArith Bool Lia String.
Import ListNotations.
From TV Require Import Lib.Obs C06.Model C06.ProofsBase C09.Model C09.Url C09.Redirect C09.Run
                       C09.ProofsHeaders C09.ProofsRedirect C09.ProofsRedirectTop C09.ProofsMachineA.
Local Open Scope N_scope.

Lemma keys_norm_update_all : forall l h, keys_norm h -> keys_norm (update_all l h).
Proof.
  unfold update_all. induction l as [|kv l IH]; intros h H; simpl; [exact H|].
  apply IH. apply keys_norm_set_item. exact H.
Qed.

Lemma initial_req_facts : forall rc r, initial_req rc = Some r ->
  r_url r = rc_url rc /\ keys_norm (r_headers r).
Proof.
  intros rc r H. unfold initial_req in H.
  destruct (rc_dict rc).
  { inversion H; subst; clear H. simpl. split; [reflexivity|].
    apply keys_norm_update_all. apply keys_norm_empty. }
  destruct (add_all (rc_headers rc) empty_h) as [r0 h0]. destruct r0; try discriminate.
  destruct (copy h0) as [r1 h] eqn:Ec. destruct r1; try discriminate. inversion H; subst; clear H. simpl.
  split; [reflexivity|]. replace h with (snd (copy h0)) by (rewrite Ec; reflexivity). apply keys_norm_copy.
Qed.

(* every request of every redirect chain of a fetch: if its URL has a different scheme or netloc
   than the original URL, it goes out without any Cookie line, and with an Authorization line
   only if its own URL carries userinfo *)
Theorem fetch_chain_clean : forall rc r uo,
  initial_req rc = Some r -> urlsplit (rc_url rc) = UOk uo ->
  Forall (sent_clean uo) (fst (chain (rc_ver rc) (rc_url rc) r (rc_script rc))).
Proof.
  intros rc r uo Hi Ho. destruct (initial_req_facts rc r Hi) as [Eu Hn].
  apply chain_all_clean; [exact Ho|]. apply original_req_clean; [rewrite Eu; exact Ho|exact Hn].
Qed.

Theorem fetch_chain_bounded : forall rc r,
  initial_req rc = Some r ->
  (List.length (fst (chain (rc_ver rc) (rc_url rc) r (rc_script rc))) <=
   S (Z.to_nat (match rc_maxred rc with
                | Some z => z
                | None => match rc_defmax rc with Some d => d | None => 5%Z end
                end)))%nat.
Proof.
  intros rc r Hi. pose proof (proj1 (chain_length (rc_ver rc) (rc_url rc) (rc_script rc) r)) as H.
  unfold initial_req in Hi. destruct (rc_dict rc); [inversion Hi; subst; clear Hi; exact H|].
  destruct (add_all (rc_headers rc) empty_h) as [r0 h0]. destruct r0; try discriminate.
  destruct (copy h0) as [r1 h]. destruct r1; try discriminate. inversion Hi; subst; clear Hi.
  exact H.
Qed.

(* ---------- witnesses ---------- *)
(* The multi-valued Cookie that survived a cross-origin redirect before fix 8cd6af7
   (h.add("Cookie","a=1"); h.add("cookie","b=2"); 302 from http://a.test/x to http://b.test/y). *)
Definition ex_rc : rcase :=
  mkRCase (T "6.6") (T "http://a.test/x") (T "GET") None
          [(T "Cookie", T "a=1"); (T "cookie", T "b=2"); (T "Authorization", T "tok")] false
          None None None None None None
          [mkHop 302 true (T "http://b.test/y")].

Definition ex_multi_cookie :=
  match initial_req ex_rc with
  | Some r =>
      match prepare (T "6.6") r with
      | Sent w =>
          match redirect_request (T "http://a.test/x") r (w_headers w) 302 (T "http://b.test/y") with
          | FRedirect r' =>
              match prepare (T "6.6") r' with
              | Sent w' =>
                  Some (get_list (T "Cookie") (w_headers w), get_list (T "Authorization") (w_headers w),
                        should_follow r 302 true, r_url r',
                        get_list (T "Cookie") (w_headers w'), get_list (T "Authorization") (w_headers w'),
                        map fst (get_all (w_headers w')))
              | _ => None
              end
          | _ => None
          end
      | _ => None
      end
  | None => None
  end.

(* the first request carries both Cookie values and the Authorization header; the follow-up to
   the other host carries neither *)
Example ex_multi_cookie_stripped :
  ex_multi_cookie =
  Some ([T "a=1"; T "b=2"], [T "tok"], true, T "http://b.test/y", [], [],
        [T "Connection"; T "User-Agent"; T "Accept-Encoding"; T "Host"]).
Proof. vm_compute. reflexivity. Qed.

(* URL credentials and auth_username are dropped too, and a 303 turns a POST into a bodiless GET *)
Definition ex_post_303 :=
  match copy (snd (add_all [(T "Content-Type", T "text/plain"); (T "Cookie", T "a=1")] empty_h)) with
  | (RUnit, h) =>
      match redirect_request (T "http://u:p@a.test/x")
              (mkReq (T "http://u:p@a.test/x") (T "POST") (Some [104; 105]) h (Some (T "me")) (Some (T "pw"))
                     (Some 2%Z) None None None)
              (set_item (T "Host") (T "a.test") (set_item (T "Content-Length") (T "2") h))
              303 (T "https://x:y@a.test:8443/z") with
      | FRedirect r' =>
          match prepare (T "6.6") r' with
          | Sent w' => Some (r_url r', r_method r', r_body r', r_auth_user r', r_auth_pass r', r_maxred r',
                             map fst (get_all (w_headers w')), w_start w', w_body w', w_tls w', w_port w')
          | _ => None
          end
      | _ => None
      end
  | _ => None
  end.

Example ex_post_303_credentials :
  ex_post_303 =
  Some (T "https://a.test:8443/z", T "GET", None, None, None, Some 1%Z,
        [T "Connection"; T "Host"; T "User-Agent"; T "Accept-Encoding"], T "GET /z HTTP/1.1", [], true, 8443).
Proof. vm_compute. reflexivity. Qed.

(* Before fix 2ae8e77 the user's future stayed pending for ever when a redirect follow-up failed
   without a response: 301 followed, then the follow-up's connect timer fires. *)
Example ex_followup_error_completes :
  let sp := mkSpec false true 3%Z true false in
  snd (exec [EFetch sp; EConnOk 0; ERespond 0 301 true; ECTimeout 1] (init 1)) =
  [LStart 0; LStart 1; LDone 0 OTimeoutConnecting].
Proof. vm_compute. reflexivity. Qed.

(* max_clients = 1, three fetches: the second starts when the first completes, the third times
   out in the queue and never starts *)
Example ex_queue :
  let sp := mkSpec true true 2%Z true false in
  snd (exec [EFetch sp; EFetch sp; EFetch sp; EConnOk 0; ERespond 0 200 false; EQTimeout 2;
             EConnOk 1; EClose 1] (init 1)) =
  [LStart 0; LStart 1; LDone 0 (OCode 200); LDone 2 OTimeoutQueue; LDone 1 OClosedRead].
Proof. vm_compute. reflexivity. Qed.
