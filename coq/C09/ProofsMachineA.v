(* C09 — machine-level proofs, part A: whole-run semantics (exec), the only lemmas that look
   inside [deliver], generic lemmas, and frame lemmas for every function of the model.
   Part B: counting (T4, T7).  Part C: structure (T1, T2, T3, T8).  Part D: T5, T6, T9, T10. *)
From Coq Require Import List NArith ZArith Bool Arith Lia Sorting.Sorted.
Import ListNotations.
From TV Require Import C09.Model.

(* whole-run semantics with one flat log *)
Fixpoint exec (es : list event) (s : st) : st * list logev :=
  match es with
  | [] => (s, [])
  | e :: es' => let '(s1, l1) := step e s in let '(s2, l2) := exec es' s1 in (s2, l1 ++ l2)
  end.
Definition starts (L : list logev) : list nat :=
  flat_map (fun e => match e with LStart a => [a] | _ => [] end) L.
Definition count_done (f : nat) (L : list logev) : nat :=
  length (filter (fun e => match e with LDone g _ => Nat.eqb g f | _ => false end) L).
Definition count_lost (f : nat) (L : list logev) : nat :=
  length (filter (fun e => match e with LLost g _ => Nat.eqb g f | _ => false end) L).
(* an attempt holds the callback of its owner: it is waiting in the queue, or its connection still has final_callback *)
Definition holds (x : att) : bool :=
  match a_st x with AQueued _ => true | AConn true _ _ _ => true | _ => false end.
Definition holders (f : nat) (s : st) : nat :=
  length (filter (fun x => Nat.eqb (a_owner x) f && holds x) (s_atts s)).

(* ------------------------------------------------------------------ *)
(* deliver: the ONLY two lemmas that look inside [deliver]             *)
(* ------------------------------------------------------------------ *)
Lemma deliver_cases : forall hop f o, deliver hop f o = LDone f o \/ deliver hop f o = LLost f o.
Proof.
  intros hop f o. unfold deliver. destruct (negb hop || hop_delivers o); auto.
Qed.

Lemma deliver_lost : forall hop f o, deliver hop f o = LLost f o -> hop = true /\ is_response o = false.
Proof.
  intros hop f o. unfold deliver, hop_delivers.
  destruct hop, o; simpl; intro H; try discriminate H; auto.
Qed.

(* specific to the fixed model (hop_delivers = fun _ => true): nothing is ever lost *)
Lemma deliver_never_lost : forall hop f o f' o', deliver hop f o <> LLost f' o'.
Proof.
  intros hop f o f' o'. unfold deliver, hop_delivers. rewrite orb_true_r. discriminate.
Qed.

Local Opaque deliver.

Lemma deliver_not_start : forall hop f o a, deliver hop f o <> LStart a.
Proof. intros hop f o a H. destruct (deliver_cases hop f o) as [E|E]; rewrite E in H; discriminate H. Qed.
Lemma deliver_not_bug : forall hop f o b, deliver hop f o <> LBug b.
Proof. intros hop f o b H. destruct (deliver_cases hop f o) as [E|E]; rewrite E in H; discriminate H. Qed.
Lemma deliver_is_lost : forall hop f o g o', deliver hop f o = LLost g o' -> g = f /\ o' = o /\ hop = true /\ is_response o = false.
Proof.
  intros hop f o g o' H. destruct (deliver_cases hop f o) as [E|E].
  - rewrite E in H. discriminate H.
  - assert (HL := deliver_lost hop f o E). rewrite E in H. injection H as <- <-. tauto.
Qed.

(* ------------------------------------------------------------------ *)
(* exec                                                                *)
(* ------------------------------------------------------------------ *)
Lemma exec_invariant (I : st -> list logev -> Prop) :
  (forall e s L s' l, I s L -> step e s = (s', l) -> I s' (L ++ l)) ->
  forall es s L0 s' L, I s L0 -> exec es s = (s', L) -> I s' (L0 ++ L).
Proof.
  intros Hstep es. induction es as [|e es IH]; intros s L0 s' L HI HE; simpl in HE.
  - injection HE as <- <-. rewrite app_nil_r. exact HI.
  - destruct (step e s) as [s1 l1] eqn:Es. destruct (exec es s1) as [s2 l2] eqn:Ee.
    injection HE as <- <-. rewrite app_assoc. eapply IH; [|exact Ee]. eapply Hstep; eauto.
Qed.

(* exec is run_events with the per-event segments concatenated *)
Lemma exec_run_events es : forall s,
  exec es s = (fst (run_events es s), concat (snd (run_events es s))).
Proof.
  induction es as [|e es IH]; intro s; simpl; [reflexivity|].
  destruct (step e s) as [s1 l1]. rewrite IH.
  destruct (run_events es s1) as [s2 ls]. reflexivity.
Qed.

Lemma exec_invariant_init (I : st -> list logev -> Prop) m :
  I (init m) [] ->
  (forall e s L s' l, I s L -> step e s = (s', l) -> I s' (L ++ l)) ->
  forall es s L, exec es (init m) = (s, L) -> I s L.
Proof.
  intros H0 Hstep es s L HE.
  change L with ([] ++ L). eapply exec_invariant; eauto.
Qed.

(* ------------------------------------------------------------------ *)
(* upd_nth / set_st                                                    *)
(* ------------------------------------------------------------------ *)
Lemma upd_nth_length {A} : forall i (x : A) l, length (upd_nth i x l) = length l.
Proof. intros i x l. revert i. induction l as [|y l IH]; intros [|i]; simpl; auto. Qed.

Lemma nth_error_upd_nth {A} : forall (l : list A) i j x,
  nth_error (upd_nth i x l) j =
  if Nat.eqb i j then match nth_error l i with Some _ => Some x | None => None end
  else nth_error l j.
Proof.
  induction l as [|y l IH]; intros i j x.
  - destruct i, j; simpl; try reflexivity. destruct (Nat.eqb i j); reflexivity.
  - destruct i as [|i], j as [|j]; simpl; try reflexivity. apply IH.
Qed.

Lemma set_st_max a x s : s_max (set_st a x s) = s_max s.
Proof. unfold set_st. destruct (nth_error (s_atts s) a); reflexivity. Qed.
Lemma set_st_queue a x s : s_queue (set_st a x s) = s_queue s.
Proof. unfold set_st. destruct (nth_error (s_atts s) a); reflexivity. Qed.
Lemma set_st_active a x s : s_active (set_st a x s) = s_active s.
Proof. unfold set_st. destruct (nth_error (s_atts s) a); reflexivity. Qed.
Lemma set_st_nfetch a x s : s_nfetch (set_st a x s) = s_nfetch s.
Proof. unfold set_st. destruct (nth_error (s_atts s) a); reflexivity. Qed.
Lemma set_st_length a x s : length (s_atts (set_st a x s)) = length (s_atts s).
Proof. unfold set_st. destruct (nth_error (s_atts s) a); simpl; [apply upd_nth_length|reflexivity]. Qed.

Definition with_st (x : att) (y : astate) : att := mkAtt (a_owner x) (a_hop x) (a_spec x) y.

Lemma set_st_nth a x s b :
  nth_error (s_atts (set_st a x s)) b =
  if Nat.eqb a b then match nth_error (s_atts s) a with Some y => Some (with_st y x) | None => None end
  else nth_error (s_atts s) b.
Proof.
  unfold set_st. destruct (nth_error (s_atts s) a) as [y|] eqn:E; simpl.
  - rewrite nth_error_upd_nth, E. reflexivity.
  - destruct (Nat.eqb a b) eqn:Eb; [|reflexivity]. apply Nat.eqb_eq in Eb. subst b. exact E.
Qed.

Lemma set_st_nth_same a x s y :
  nth_error (s_atts s) a = Some y -> nth_error (s_atts (set_st a x s)) a = Some (with_st y x).
Proof. intro H. rewrite set_st_nth, Nat.eqb_refl, H. reflexivity. Qed.

Lemma set_st_nth_other a x s b :
  a <> b -> nth_error (s_atts (set_st a x s)) b = nth_error (s_atts s) b.
Proof. intro H. rewrite set_st_nth. apply Nat.eqb_neq in H. rewrite H. reflexivity. Qed.

Lemma get_st_nth a s y :
  get_st a s = Some y <-> exists f hop sp, nth_error (s_atts s) a = Some (mkAtt f hop sp y).
Proof.
  unfold get_st. split.
  - destruct (nth_error (s_atts s) a) as [[f hop sp z]|]; intro H; [|discriminate H].
    injection H as <-. eauto.
  - intros (f & hop & sp & H). rewrite H. reflexivity.
Qed.

Lemma nth_get_st a s f hop sp y :
  nth_error (s_atts s) a = Some (mkAtt f hop sp y) -> get_st a s = Some y.
Proof. intro H. unfold get_st. rewrite H. reflexivity. Qed.
Lemma nth_owner_of a s f hop sp y :
  nth_error (s_atts s) a = Some (mkAtt f hop sp y) -> owner_of a s = Some (f, hop).
Proof. intro H. unfold owner_of. rewrite H. reflexivity. Qed.

Lemma get_st_set_st a x s b :
  get_st b (set_st a x s) =
  if Nat.eqb a b then match get_st a s with Some _ => Some x | None => None end else get_st b s.
Proof.
  unfold get_st at 1. rewrite set_st_nth. destruct (Nat.eqb a b) eqn:Eb.
  - unfold get_st. destruct (nth_error (s_atts s) a); reflexivity.
  - reflexivity.
Qed.

Lemma get_st_lt a s y : get_st a s = Some y -> a < length (s_atts s).
Proof.
  unfold get_st. intro H. apply nth_error_Some. intro E. rewrite E in H. discriminate H.
Qed.

(* ------------------------------------------------------------------ *)
(* "evolves": what process_queue may do to the attempt table           *)
(* ------------------------------------------------------------------ *)
Definition tmr (sp : spec) : option tkind :=
  if sp_ct sp || sp_rt sp then Some TConnecting else None.
Definition started (x : att) : att := with_st x (AConn true true (tmr (a_spec x)) PConnecting).
Definition is_queued (x : att) : bool := match a_st x with AQueued _ => true | _ => false end.
Definition ev1 (o o' : option att) : Prop :=
  o' = o \/ exists x, o = Some x /\ is_queued x = true /\ o' = Some (started x).
Definition same3 (s s' : st) : Prop :=
  s_max s' = s_max s /\ s_nfetch s' = s_nfetch s /\ length (s_atts s') = length (s_atts s).
Definition evolves (s s' : st) : Prop :=
  same3 s s' /\ forall b, ev1 (nth_error (s_atts s) b) (nth_error (s_atts s') b).

Lemma same3_refl s : same3 s s.
Proof. repeat split. Qed.
Lemma same3_trans s1 s2 s3 : same3 s1 s2 -> same3 s2 s3 -> same3 s1 s3.
Proof. unfold same3. intros (A1 & A2 & A3) (B1 & B2 & B3). repeat split; congruence. Qed.
Lemma same3_set_st a x s : same3 s (set_st a x s).
Proof. repeat split; [apply set_st_max|apply set_st_nfetch|apply set_st_length]. Qed.

Lemma ev1_refl o : ev1 o o.
Proof. left. reflexivity. Qed.
Lemma ev1_trans o1 o2 o3 : ev1 o1 o2 -> ev1 o2 o3 -> ev1 o1 o3.
Proof.
  intros [->|(x & -> & Q & ->)] H2; [exact H2|].
  destruct H2 as [->|(y & E & Qy & _)].
  - right. eauto.
  - injection E as <-. discriminate Qy.
Qed.
Lemma ev1_not_queued x o' : ev1 (Some x) o' -> is_queued x = false -> o' = Some x.
Proof.
  intros [->|(y & E & Q & _)] H; [reflexivity|]. injection E as <-. congruence.
Qed.
Lemma ev1_none o' : ev1 None o' -> o' = None.
Proof. intros [->|(y & E & _)]; [reflexivity|discriminate E]. Qed.

Lemma evolves_refl s : evolves s s.
Proof. split; [apply same3_refl|intro b; apply ev1_refl]. Qed.
Lemma evolves_trans s1 s2 s3 : evolves s1 s2 -> evolves s2 s3 -> evolves s1 s3.
Proof.
  intros [A1 A2] [B1 B2]. split; [eapply same3_trans; eauto|].
  intro b. eapply ev1_trans; eauto.
Qed.
Lemma evolves_same_atts s s' :
  s_max s' = s_max s -> s_nfetch s' = s_nfetch s -> s_atts s' = s_atts s -> evolves s s'.
Proof.
  intros H1 H2 H3. split; [repeat split; congruence|]. intro b. rewrite H3. apply ev1_refl.
Qed.

Lemma start_conn_nth k sp s b :
  nth_error (s_atts (start_conn k sp s)) b =
  if Nat.eqb k b then
    match nth_error (s_atts s) k with
    | Some y => Some (with_st y (AConn true true (tmr sp) PConnecting)) | None => None end
  else nth_error (s_atts s) b.
Proof. unfold start_conn. rewrite set_st_nth. reflexivity. Qed.

Lemma evolves_start_conn k s f hop sp tm :
  nth_error (s_atts s) k = Some (mkAtt f hop sp (AQueued tm)) -> evolves s (start_conn k sp s).
Proof.
  intro H. split.
  - unfold start_conn. eapply same3_trans; [|apply same3_set_st]. repeat split.
  - intro b. rewrite start_conn_nth. destruct (Nat.eqb k b) eqn:Eb.
    + apply Nat.eqb_eq in Eb. subst b. rewrite H. right.
      exists (mkAtt f hop sp (AQueued tm)). repeat split.
    + apply ev1_refl.
Qed.

Definition starts_only (l : list logev) : Prop := forall e, In e l -> exists a, e = LStart a.
(* nothing that completes a fetch *)
Definition quiet (l : list logev) : Prop :=
  forall e, In e l -> (exists a, e = LStart a) \/ (exists b, e = LBug b).

Lemma starts_only_quiet l : starts_only l -> quiet l.
Proof. intros H e Hin. left. auto. Qed.
Lemma quiet_nil : quiet [].
Proof. intros e []. Qed.
Lemma quiet_app l1 l2 : quiet l1 -> quiet l2 -> quiet (l1 ++ l2).
Proof. intros H1 H2 e Hin. apply in_app_or in Hin. destruct Hin; auto. Qed.
Lemma quiet_bug b : quiet [LBug b].
Proof. intros e [<-|[]]. right. eauto. Qed.

Lemma process_queue_frame q : forall s s' l,
  process_queue q s = (s', l) -> evolves s s' /\ starts_only l.
Proof.
  induction q as [|k q IH]; intros s s' l H; simpl in H.
  - injection H as <- <-. split; [apply evolves_same_atts; reflexivity|intros e []].
  - destruct (length (s_active s) <? s_max s) eqn:Elt.
    + destruct (nth_error (s_atts s) k) as [[f hop sp [tm|cb rel t ph|]]|] eqn:En;
        try (apply IH in H; exact H).
      destruct (process_queue q (start_conn k sp s)) as [s2 l2] eqn:Ep.
      injection H as <- <-. apply IH in Ep. destruct Ep as [Ev So]. split.
      * eapply evolves_trans; [eapply evolves_start_conn; eauto|exact Ev].
      * intros e [<-|Hin]; eauto.
    + injection H as <- <-. split; [apply evolves_same_atts; reflexivity|intros e []].
Qed.

Lemma run_queue_frame s s' l : run_queue s = (s', l) -> evolves s s' /\ starts_only l.
Proof. unfold run_queue. apply process_queue_frame. Qed.

(* ------------------------------------------------------------------ *)
(* "fr a s s' y": s' is s with attempt a's state replaced by y, every  *)
(* other attempt either unchanged or started by process_queue.         *)
(* ------------------------------------------------------------------ *)
Definition fr (a : nat) (s s' : st) (y' : astate) : Prop :=
  same3 s s' /\
  (forall b, b <> a -> ev1 (nth_error (s_atts s) b) (nth_error (s_atts s') b)) /\
  exists x, nth_error (s_atts s) a = Some x /\ nth_error (s_atts s') a = Some (with_st x y').

Lemma with_st_id x : with_st x (a_st x) = x.
Proof. destruct x; reflexivity. Qed.
Lemma with_st_with_st x y z : with_st (with_st x y) z = with_st x z.
Proof. reflexivity. Qed.

Lemma fr_nth a s s' y x :
  fr a s s' y -> nth_error (s_atts s) a = Some x -> nth_error (s_atts s') a = Some (with_st x y).
Proof. intros (_ & _ & x0 & A3 & A4) Hn. rewrite Hn in A3. injection A3 as <-. exact A4. Qed.

Lemma fr_id a s x : nth_error (s_atts s) a = Some x -> fr a s s (a_st x).
Proof.
  intro Hn. split; [apply same3_refl|]. split; [intros; apply ev1_refl|].
  exists x. split; [exact Hn|]. rewrite with_st_id. exact Hn.
Qed.

Lemma fr_set_st a s x y : nth_error (s_atts s) a = Some x -> fr a s (set_st a y s) y.
Proof.
  intro Hn. split; [apply same3_set_st|]. split.
  - intros b Hb. rewrite set_st_nth_other by (intro; apply Hb; auto). apply ev1_refl.
  - exists x. split; [exact Hn|]. apply set_st_nth_same. exact Hn.
Qed.

Lemma fr_trans a s1 s2 s3 y z : fr a s1 s2 y -> fr a s2 s3 z -> fr a s1 s3 z.
Proof.
  intros (A1 & A2 & x & A3 & A4) (B1 & B2 & x2 & B3 & B4).
  split; [eapply same3_trans; eauto|]. split.
  - intros b Hb. eapply ev1_trans; eauto.
  - exists x. split; [exact A3|]. rewrite A4 in B3. injection B3 as <-. rewrite B4. reflexivity.
Qed.

Lemma fr_evolves a s1 s2 s3 y :
  fr a s1 s2 y -> (forall x, is_queued (with_st x y) = false) -> evolves s2 s3 -> fr a s1 s3 y.
Proof.
  intros (A1 & A2 & x & A3 & A4) Hq [B1 B2].
  split; [eapply same3_trans; eauto|]. split.
  - intros b Hb. eapply ev1_trans; eauto.
  - exists x. split; [exact A3|]. specialize (B2 a). rewrite A4 in B2.
    apply ev1_not_queued in B2; auto.
Qed.

Lemma fr_same a s1 s2 s3 y :
  fr a s1 s2 y -> s_max s3 = s_max s2 -> s_nfetch s3 = s_nfetch s2 -> s_atts s3 = s_atts s2 ->
  fr a s1 s3 y.
Proof.
  unfold fr, same3. intros (A1 & A2 & A3) H1 H2 H3. rewrite H1, H2, H3. tauto.
Qed.

Definition closed (ph : phase) : phase := match ph with POpen => PFinished | p => p end.

Lemma nth_get_st' a s x : nth_error (s_atts s) a = Some x -> get_st a s = Some (a_st x).
Proof. intro H. unfold get_st. rewrite H. reflexivity. Qed.
Lemma nth_owner_of' a s x : nth_error (s_atts s) a = Some x -> owner_of a s = Some (a_owner x, a_hop x).
Proof. intro H. unfold owner_of. rewrite H. reflexivity. Qed.

Lemma release_fr a s s' l x cb rel t ph :
  nth_error (s_atts s) a = Some x -> a_st x = AConn cb rel t ph -> release a s = (s', l) ->
  fr a s s' (AConn cb false t ph) /\ quiet l.
Proof.
  intros Hn Hst H. unfold release in H.
  rewrite (nth_get_st' _ _ _ Hn), Hst in H. destruct rel; cbv beta iota zeta in H.
  - assert (F1 : fr a s (set_st a (AConn cb false t ph) s) (AConn cb false t ph))
      by (apply fr_set_st with x; exact Hn).
    destruct (mem a (s_active (set_st a (AConn cb false t ph) s))) eqn:Em.
    + apply run_queue_frame in H. destruct H as [Ev So]. split; [|apply starts_only_quiet; exact So].
      eapply fr_evolves; [|intro; reflexivity|exact Ev].
      eapply fr_same; [exact F1|reflexivity|reflexivity|reflexivity].
    + injection H as <- <-. split; [exact F1|apply quiet_bug].
  - injection H as <- <-. split; [|apply quiet_nil]. rewrite <- Hst. apply fr_id. exact Hn.
Qed.

Lemma run_callback_fr a o s s' l x cb rel t ph :
  nth_error (s_atts s) a = Some x -> a_st x = AConn cb rel t ph -> run_callback a o s = (s', l) ->
  fr a s s' (AConn false false t ph) /\ (cb = true -> In (deliver (a_hop x) (a_owner x) o) l).
Proof.
  intros Hn Hst H. unfold run_callback in H. destruct (release a s) as [s1 l1] eqn:R.
  destruct (release_fr _ _ _ _ _ _ _ _ _ Hn Hst R) as [F1 _].
  assert (N1 := fr_nth _ _ _ _ _ F1 Hn).
  rewrite (nth_get_st' _ _ _ N1), (nth_owner_of' _ _ _ N1) in H. simpl in H.
  destruct cb; injection H as <- <-.
  - split.
    + eapply fr_trans; [exact F1|]. eapply fr_set_st. exact N1.
    + intros _. apply in_or_app. right. left. reflexivity.
  - split; [exact F1|]. intro Hc. discriminate Hc.
Qed.

Lemma close_stream_fr a s x cb rel t ph :
  nth_error (s_atts s) a = Some x -> a_st x = AConn cb rel t ph ->
  fr a s (close_stream a s) (AConn cb rel t (closed ph)).
Proof.
  intros Hn Hst. unfold close_stream. rewrite (nth_get_st' _ _ _ Hn), Hst.
  destruct ph; simpl; try (rewrite <- Hst; apply fr_id; exact Hn).
  eapply fr_set_st. exact Hn.
Qed.

Lemma handle_exception_fr a o s s' l x rel t ph :
  nth_error (s_atts s) a = Some x -> a_st x = AConn true rel t ph ->
  handle_exception a o s = (s', l) ->
  fr a s s' (AConn false false None (closed ph)) /\ In (deliver (a_hop x) (a_owner x) o) l.
Proof.
  intros Hn Hst H. unfold handle_exception in H.
  rewrite (nth_get_st' _ _ _ Hn), Hst in H. cbv beta iota zeta in H.
  assert (F1 : fr a s (set_st a (AConn true rel None ph) s) (AConn true rel None ph))
    by (eapply fr_set_st; exact Hn).
  assert (N1 := fr_nth _ _ _ _ _ F1 Hn).
  destruct (run_callback a o (set_st a (AConn true rel None ph) s)) as [s2 l2] eqn:R.
  injection H as <- <-.
  destruct (run_callback_fr _ _ _ _ _ _ _ _ _ _ N1 eq_refl R) as [F2 D2].
  assert (N2 := fr_nth _ _ _ _ _ F2 N1).
  split.
  - eapply fr_trans; [exact F1|]. eapply fr_trans; [exact F2|].
    eapply close_stream_fr; [exact N2|reflexivity].
  - apply D2. reflexivity.
Qed.

Lemma handle_exception_noop a o s :
  (forall rel t ph, get_st a s <> Some (AConn true rel t ph)) -> handle_exception a o s = (s, []).
Proof.
  intro H. unfold handle_exception.
  destruct (get_st a s) as [[tm|[|] rel t ph|]|] eqn:G; try reflexivity.
  exfalso. eapply H. reflexivity.
Qed.

Lemma fetch_impl_frame owner hop sp s s' l :
  fetch_impl owner hop sp s = (s', l) ->
  starts_only l /\ s_max s' = s_max s /\ s_nfetch s' = s_nfetch s /\
  length (s_atts s') = S (length (s_atts s)) /\
  (forall b, b < length (s_atts s) -> ev1 (nth_error (s_atts s) b) (nth_error (s_atts s') b)) /\
  (exists y, nth_error (s_atts s') (length (s_atts s)) = Some (mkAtt owner hop sp y) /\
     (y = AQueued ((s_max s <=? length (s_active s)) && (sp_ct sp || sp_rt sp))
      \/ y = AConn true true (tmr sp) PConnecting)).
Proof.
  unfold fetch_impl. intro H. apply run_queue_frame in H.
  destruct H as [[(E1 & E2 & E3) Ev] So]. cbn [s_max s_nfetch s_atts] in E1, E2, E3, Ev.
  split; [exact So|]. split; [exact E1|]. split; [exact E2|]. split.
  - rewrite E3, app_length. simpl. lia.
  - split.
    + intros b Hb. specialize (Ev b). rewrite nth_error_app1 in Ev by exact Hb. exact Ev.
    + specialize (Ev (length (s_atts s))).
      rewrite nth_error_app2, Nat.sub_diag in Ev by lia. simpl in Ev.
      destruct Ev as [E|(x & E & Q & E')].
      * eexists. split; [exact E|left; reflexivity].
      * injection E as <-. eexists. split; [exact E'|right; reflexivity].
Qed.

(* unfolding lemmas for finish *)
Lemma finish_plain a code hasloc s f hop sp cb rel t ph :
  nth_error (s_atts s) a = Some (mkAtt f hop sp (AConn cb rel t ph)) ->
  should_follow sp code hasloc = false ->
  finish a code hasloc s =
  (let '(s1, l1) := run_callback a (OCode code) (set_st a (AConn cb rel None ph) s) in
   (close_stream a s1, l1)).
Proof. intros Hn Hf. unfold finish. rewrite Hn, Hf. reflexivity. Qed.

Lemma finish_follow a code hasloc s f hop sp rel t ph :
  nth_error (s_atts s) a = Some (mkAtt f hop sp (AConn true rel t ph)) ->
  should_follow sp code hasloc = true ->
  finish a code hasloc s =
  (let '(s2, l2) := release a (set_st a (AConn false rel None ph) (set_st a (AConn true rel None ph) s)) in
   let '(s3, l3) := fetch_impl f true (redirected_spec sp) s2 in
   (close_stream a s3, l2 ++ l3)).
Proof. intros Hn Hf. unfold finish. rewrite Hn, Hf. reflexivity. Qed.

Lemma finish_follow_nocb a code hasloc s f hop sp rel t ph :
  nth_error (s_atts s) a = Some (mkAtt f hop sp (AConn false rel t ph)) ->
  should_follow sp code hasloc = true ->
  finish a code hasloc s = (set_st a (AConn false rel None ph) s, [LBug BNoCallback]).
Proof. intros Hn Hf. unfold finish. rewrite Hn, Hf. reflexivity. Qed.

Lemma finish_noop a code hasloc s :
  (forall cb rel t ph, get_st a s <> Some (AConn cb rel t ph)) -> finish a code hasloc s = (s, []).
Proof.
  intro H. unfold finish.
  destruct (nth_error (s_atts s) a) as [[f hop sp [tm|cb rel t ph|]]|] eqn:En; try reflexivity.
  exfalso. eapply H. eapply nth_get_st. exact En.
Qed.

Lemma finish_plain_fr a code hasloc s s' l f hop sp cb rel t ph :
  nth_error (s_atts s) a = Some (mkAtt f hop sp (AConn cb rel t ph)) ->
  should_follow sp code hasloc = false ->
  finish a code hasloc s = (s', l) ->
  fr a s s' (AConn false false None (closed ph)) /\ (cb = true -> In (deliver hop f (OCode code)) l).
Proof.
  intros Hn Hf H. rewrite (finish_plain _ _ _ _ _ _ _ _ _ _ _ Hn Hf) in H.
  assert (F1 : fr a s (set_st a (AConn cb rel None ph) s) (AConn cb rel None ph))
    by (eapply fr_set_st; exact Hn).
  assert (N1 := fr_nth _ _ _ _ _ F1 Hn).
  destruct (run_callback a (OCode code) (set_st a (AConn cb rel None ph) s)) as [s1 l1] eqn:R.
  injection H as <- <-.
  destruct (run_callback_fr _ _ _ _ _ _ _ _ _ _ N1 eq_refl R) as [F2 D2].
  assert (N2 := fr_nth _ _ _ _ _ F2 N1).
  split.
  - eapply fr_trans; [exact F1|]. eapply fr_trans; [exact F2|].
    eapply close_stream_fr; [exact N2|reflexivity].
  - exact D2.
Qed.
