(* C09 — tornado.simple_httpclient: the admission machine of SimpleAsyncHTTPClient
   (fetch_impl / _process_queue / _release_fetch / _on_timeout / _remove_timeout) together
   with the per-connection completion machine of _HTTPConnection (run / _on_timeout /
   _release / _run_callback / _handle_exception / on_connection_close / finish), as one
   executable transition system over explicit events.  Definitions only.

   An "attempt" is one call of fetch_impl (one `key = object()`); attempts are numbered in
   fetch_impl order.  A user fetch (AsyncHTTPClient.fetch called by the application) owns a
   chain of attempts: the first one, plus one for every redirect that finish() follows
   (finish() moves final_callback to the new fetch). *)
From Coq Require Import List NArith ZArith Bool Arith.
Import ListNotations.

Inductive tkind := TConnecting | TRequest.          (* info string given to _on_timeout *)
Inductive phase :=
| PConnecting      (* tcp_client.connect() future pending *)
| POpen            (* stream open, request written, response awaited *)
| PFinished.       (* connect failed / stream closed *)

Inductive outcome :=
| OCode (c : Z)          (* HTTPResponse with this code (finish) *)
| OTimeoutQueue          (* HTTPTimeoutError "Timeout in request queue" *)
| OTimeoutConnecting     (* HTTPTimeoutError "Timeout while connecting" *)
| OTimeoutRequest        (* HTTPTimeoutError "Timeout during request" *)
| OClosedRead            (* HTTPStreamClosedError "Stream closed" *)
| OClosedMalformed       (* HTTPStreamClosedError "Malformed response" (_read_response, fix 18bc8c4) *)
| OClosedCallback        (* HTTPStreamClosedError "Connection closed" (on_connection_close) *)
| OConnRefused           (* the exception tcp_client.connect() raised *)
| OConnReset             (* stream.error (real_error of StreamClosedError) *)
| OKeyError.             (* "unknown method" raised inside run() after connecting *)

(* what the machine needs to know about a request *)
Record spec := mkSpec {
  sp_ct : bool;          (* connect_timeout is non-zero *)
  sp_rt : bool;          (* request_timeout is non-zero *)
  sp_maxred : Z;         (* max_redirects *)
  sp_follow : bool;      (* follow_redirects *)
  sp_bad : bool          (* method not in _SUPPORTED_METHODS: run() raises KeyError *)
}.

Inductive astate :=
| AQueued (timer : bool)       (* key in self.waiting (and in self.queue); timeout_handle is not None *)
| AConn (cb : bool)            (* final_callback is not None *)
        (rel : bool)           (* release_callback is not None *)
        (timer : option tkind) (* self._timeout *)
        (ph : phase)
| AGone.                       (* removed by SimpleAsyncHTTPClient._on_timeout *)

(* a_hop: this attempt was created by finish() following a redirect *)
Record att := mkAtt { a_owner : nat; a_hop : bool; a_spec : spec; a_st : astate }.

Inductive bug := BRelease (* del self.active[key]: KeyError *)
               | BQueueRemove (* self.queue.remove: ValueError *)
               | BNoCallback. (* finish() reached with final_callback None *)

Inductive logev :=
| LStart (a : nat)                   (* _handle_request called for attempt a *)
| LDone (f : nat) (o : outcome)      (* the future of user fetch f resolved *)
| LLost (f : nat) (o : outcome)      (* the attempt holding f's callback completed, but f's future
                                        was NOT resolved (see deliver) *)
| LBug (b : bug).

Record st := mkSt {
  s_max : nat;                 (* max_clients *)
  s_queue : list nat;          (* self.queue (keys) *)
  s_active : list nat;         (* self.active (keys, insertion order) *)
  s_atts : list att;           (* every attempt so far *)
  s_nfetch : nat               (* number of user fetches so far *)
}.

Definition init (m : nat) : st := mkSt m [] [] [] 0.

Fixpoint upd_nth {A} (i : nat) (x : A) (l : list A) : list A :=
  match l, i with
  | [], _ => []
  | _ :: l', O => x :: l'
  | y :: l', S i' => y :: upd_nth i' x l'
  end.

Definition get_st (a : nat) (s : st) : option astate :=
  match nth_error (s_atts s) a with Some x => Some (a_st x) | None => None end.

Definition set_st (a : nat) (x : astate) (s : st) : st :=
  match nth_error (s_atts s) a with
  | Some y => mkSt (s_max s) (s_queue s) (s_active s)
                   (upd_nth a (mkAtt (a_owner y) (a_hop y) (a_spec y) x) (s_atts s)) (s_nfetch s)
  | None => s
  end.

Definition set_queue (q : list nat) (s : st) : st :=
  mkSt (s_max s) q (s_active s) (s_atts s) (s_nfetch s).
Definition set_active (l : list nat) (s : st) : st :=
  mkSt (s_max s) (s_queue s) l (s_atts s) (s_nfetch s).

Definition mem (a : nat) (l : list nat) : bool := existsb (Nat.eqb a) l.
(* list.remove / del d[k]: the first occurrence *)
Fixpoint remove1 (a : nat) (l : list nat) : list nat :=
  match l with
  | [] => []
  | x :: l' => if Nat.eqb a x then l' else x :: remove1 a l'
  end.

Definition spec_of (a : nat) (s : st) : option spec :=
  match nth_error (s_atts s) a with Some x => Some (a_spec x) | None => None end.
Definition owner_of (a : nat) (s : st) : option (nat * bool) :=
  match nth_error (s_atts s) a with Some x => Some (a_owner x, a_hop x) | None => None end.

(* What reaches the application when the attempt that holds user fetch f's callback completes
   with outcome o.  For the first attempt the callback is AsyncHTTPClient.fetch's
   handle_response: the user's future is resolved (result or exception).  For a redirect
   follow-up the callback is the handle_response of the inner fetch(raise_error=False), chained
   by finish()'s on_redirect_done: a 599 whose error is not a response code makes the inner
   future fail, on_redirect_done catches that and calls the outer final_callback with a 599
   response carrying the same error (fix 2ae8e77; before it, `final_callback(f.result())` raised
   inside the done callback and the user's future stayed pending for ever: hop_delivers was
   is_response, and LLost recorded the lost completion). *)
Definition is_response (o : outcome) : bool := match o with OCode _ => true | _ => false end.
Definition hop_delivers (o : outcome) : bool := true.   (* fix 2ae8e77: on_redirect_done turns the exception into a 599 response *)
Definition deliver (hop : bool) (f : nat) (o : outcome) : logev :=
  if negb hop || hop_delivers o then LDone f o else LLost f o.

(* _process_queue: body for a key that is in self.waiting (then _HTTPConnection.__init__ and
   the start of run(): the "while connecting" timer is armed iff a timeout is configured) *)
Definition start_conn (k : nat) (sp : spec) (s : st) : st :=
  set_st k (AConn true true (if sp_ct sp || sp_rt sp then Some TConnecting else None) PConnecting)
         (set_active (s_active s ++ [k]) s).

(* while self.queue and len(self.active) < self.max_clients: ... *)
Fixpoint process_queue (q : list nat) (s : st) : st * list logev :=
  match q with
  | [] => (set_queue [] s, [])
  | k :: q' =>
      if length (s_active s) <? s_max s then
        match nth_error (s_atts s) k with
        | Some (mkAtt _ _ sp (AQueued _)) =>
            let '(s2, l) := process_queue q' (start_conn k sp s) in (s2, LStart k :: l)
        | _ => process_queue q' s                      (* key not in self.waiting: continue *)
        end
      else (set_queue q s, [])
  end.
Definition run_queue (s : st) : st * list logev := process_queue (s_queue s) s.

(* SimpleAsyncHTTPClient.fetch_impl *)
Definition fetch_impl (owner : nat) (hop : bool) (sp : spec) (s : st) : st * list logev :=
  let k := length (s_atts s) in
  let timer := (s_max s <=? length (s_active s)) && (sp_ct sp || sp_rt sp) in
  run_queue (mkSt (s_max s) (s_queue s ++ [k]) (s_active s)
                  (s_atts s ++ [mkAtt owner hop sp (AQueued timer)]) (s_nfetch s)).

(* _HTTPConnection._release -> SimpleAsyncHTTPClient._release_fetch *)
Definition release (a : nat) (s : st) : st * list logev :=
  match get_st a s with
  | Some (AConn cb true t ph) =>
      let s1 := set_st a (AConn cb false t ph) s in
      if mem a (s_active s1) then run_queue (set_active (remove1 a (s_active s1)) s1)
      else (s1, [LBug BRelease])
  | _ => (s, [])
  end.

(* _HTTPConnection._run_callback *)
Definition run_callback (a : nat) (o : outcome) (s : st) : st * list logev :=
  let '(s1, l1) := release a s in
  match get_st a s1, owner_of a s1 with
  | Some (AConn true rel t ph), Some (f, hop) =>
      (set_st a (AConn false rel t ph) s1, l1 ++ [deliver hop f o])
  | _, _ => (s1, l1)
  end.

Definition close_stream (a : nat) (s : st) : st :=
  match get_st a s with
  | Some (AConn cb rel t POpen) => set_st a (AConn cb rel t PFinished) s
  | _ => s
  end.

(* _HTTPConnection._handle_exception (the part that matters: the True branch) *)
Definition handle_exception (a : nat) (o : outcome) (s : st) : st * list logev :=
  match get_st a s with
  | Some (AConn true rel t ph) =>
      let s1 := set_st a (AConn true rel None ph) s in        (* _remove_timeout *)
      let '(s2, l) := run_callback a o s1 in
      (close_stream a s2, l)                                   (* if hasattr(self, "stream") *)
  | _ => (s, [])
  end.

Definition is_redirect_code (c : Z) : bool :=
  existsb (Z.eqb c) [301; 302; 303; 307; 308]%Z.
(* _HTTPConnection._should_follow_redirect *)
Definition should_follow (sp : spec) (code : Z) (hasloc : bool) : bool :=
  sp_follow sp && is_redirect_code code && (0 <? sp_maxred sp)%Z && hasloc.

Definition redirected_spec (sp : spec) : spec :=
  mkSpec (sp_ct sp) (sp_rt sp) (sp_maxred sp - 1)%Z (sp_follow sp) (sp_bad sp).

(* _HTTPConnection.finish *)
Definition finish (a : nat) (code : Z) (hasloc : bool) (s : st) : st * list logev :=
  match nth_error (s_atts s) a with
  | Some (mkAtt f _ sp (AConn cb rel t ph)) =>
      let s0 := set_st a (AConn cb rel None ph) s in           (* _remove_timeout *)
      if should_follow sp code hasloc then
        if cb then
          let s1 := set_st a (AConn false rel None ph) s0 in   (* final_callback moved away *)
          let '(s2, l2) := release a s1 in
          let '(s3, l3) := fetch_impl f true (redirected_spec sp) s2 in
          (close_stream a s3, l2 ++ l3)                        (* _on_end_request *)
        else (s0, [LBug BNoCallback])
      else
        let '(s1, l1) := run_callback a (OCode code) s0 in
        (close_stream a s1, l1)
  | _ => (s, [])
  end.

Inductive event :=
| EFetch (sp : spec)                 (* the application calls client.fetch() *)
| EQTimeout (a : nat)                (* the queue timer of attempt a fires *)
| ECTimeout (a : nat)                (* the connection timer of attempt a fires *)
| EConnOk (a : nat)                  (* tcp_client.connect() resolves with a stream *)
| EConnFail (a : nat)                (* tcp_client.connect() raises *)
| ERespond (a : nat) (code : Z) (hasloc : bool)   (* a complete response arrives *)
| EClose (a : nat)                   (* the server closes the stream (EOF) *)
| EReset (a : nat)                   (* the stream fails with an OS error *)
| EMalformed (a : nat)               (* a response head that HTTP1Connection cannot parse (bad status
                                        line / header line): read_response closes the stream and
                                        returns False, _read_response raises "Malformed response" *)
| EBadFraming (a : nat).             (* a parsable head with invalid framing (Content-Length: x):
                                        headers_received ran, then the connection is closed and
                                        on_connection_close fails the request *)

Definition step (e : event) (s : st) : st * list logev :=
  match e with
  | EFetch sp =>
      fetch_impl (s_nfetch s) false sp
        (mkSt (s_max s) (s_queue s) (s_active s) (s_atts s) (S (s_nfetch s)))
  | EQTimeout a =>                                    (* SimpleAsyncHTTPClient._on_timeout *)
      match get_st a s, owner_of a s with
      | Some (AQueued true), Some (f, hop) =>
          if mem a (s_queue s)
          then (set_st a AGone (set_queue (remove1 a (s_queue s)) s), [deliver hop f OTimeoutQueue])
          else (s, [LBug BQueueRemove])
      | _, _ => (s, [])
      end
  | ECTimeout a =>                                    (* _HTTPConnection._on_timeout *)
      match get_st a s with
      | Some (AConn cb rel (Some k) ph) =>
          let s1 := set_st a (AConn cb rel None ph) s in
          if cb then handle_exception a (match k with TConnecting => OTimeoutConnecting
                                                    | TRequest => OTimeoutRequest end) s1
          else (s1, [])
      | _ => (s, [])
      end
  | EConnOk a =>                                      (* run() resumes after `await connect` *)
      match nth_error (s_atts s) a with
      | Some (mkAtt _ _ sp (AConn cb rel t PConnecting)) =>
          if cb then
            let s1 := set_st a (AConn cb rel (if sp_rt sp then Some TRequest else None) POpen) s in
            if sp_bad sp then handle_exception a OKeyError s1 else (s1, [])
          else (set_st a (AConn cb rel t PFinished) s, [])   (* stream.close(); return *)
      | _ => (s, [])
      end
  | EConnFail a =>
      match get_st a s with
      | Some (AConn cb rel t PConnecting) =>
          handle_exception a OConnRefused (set_st a (AConn cb rel t PFinished) s)
      | _ => (s, [])
      end
  | ERespond a code hasloc =>
      match get_st a s with
      | Some (AConn _ _ _ POpen) => finish a code hasloc s
      | _ => (s, [])
      end
  | EClose a =>
      match get_st a s with
      | Some (AConn cb rel t POpen) =>
          handle_exception a OClosedRead (set_st a (AConn cb rel t PFinished) s)
      | _ => (s, [])
      end
  | EReset a =>
      match get_st a s with
      | Some (AConn cb rel t POpen) =>
          handle_exception a OConnReset (set_st a (AConn cb rel t PFinished) s)
      | _ => (s, [])
      end
  | EMalformed a =>
      match get_st a s with
      | Some (AConn cb rel t POpen) =>
          handle_exception a OClosedMalformed (set_st a (AConn cb rel t PFinished) s)
      | _ => (s, [])
      end
  | EBadFraming a =>
      match get_st a s with
      | Some (AConn cb rel t POpen) =>
          handle_exception a OClosedCallback (set_st a (AConn cb rel t PFinished) s)
      | _ => (s, [])
      end
  end.

(* the log of a whole schedule: one segment per event *)
Fixpoint run_events (es : list event) (s : st) : st * list (list logev) :=
  match es with
  | [] => (s, [])
  | e :: es' => let '(s1, l) := step e s in
                let '(s2, ls) := run_events es' s1 in (s2, l :: ls)
  end.

Definition n_waiting (s : st) : nat :=
  length (filter (fun x => match a_st x with AQueued _ => true | _ => false end) (s_atts s)).
Definition n_timers (s : st) : nat :=
  length (filter (fun x => match a_st x with
                           | AQueued true => true | AConn _ _ (Some _) _ => true | _ => false end)
                 (s_atts s)).
