(* C09 — machine-level proofs, part C: the structural invariant G1
   (T1 machine_max_clients, T2 machine_active_iff, T3 machine_start_order,
    T8 machine_no_idle_slot_while_queued) and the "no bug under G1" half of T5. *)
From Coq Require Import List NArith ZArith Bool Arith Lia Sorting.Sorted.
Import ListNotations.
From TV Require Import C09.Model C09.ProofsMachineA.

Local Opaque deliver.

(* ---------------- list lemmas ---------------- *)
Lemma mem_In a l : mem a l = true <-> In a l.
Proof.
  unfold mem. rewrite existsb_exists. split.
  - intros (x & Hin & E). apply Nat.eqb_eq in E. subst x. exact Hin.
  - intro Hin. exists a. split; [exact Hin|apply Nat.eqb_refl].
Qed.

Lemma remove1_incl a l b : In b (remove1 a l) -> In b l.
Proof.
  induction l as [|x l IH]; simpl; [tauto|]. destruct (Nat.eqb a x); simpl; tauto.
Qed.

Lemma remove1_In a l b : NoDup l -> (In b (remove1 a l) <-> In b l /\ b <> a).
Proof.
  induction l as [|x l IH]; intro ND; simpl; [tauto|].
  inversion ND as [|? ? Hx ND']; subst. destruct (Nat.eqb a x) eqn:E.
  - apply Nat.eqb_eq in E. subst x. split.
    + intro Hin. split; [right; exact Hin|]. intros ->. contradiction.
    + intros [[->|Hin] Hne]; [contradiction|exact Hin].
  - apply Nat.eqb_neq in E. simpl. rewrite (IH ND'). split.
    + intros [->|[Hin Hne]]; [split; [left; reflexivity|congruence]|tauto].
    + intros [[->|Hin] Hne]; [left; reflexivity|right; tauto].
Qed.

Lemma remove1_NoDup a l : NoDup l -> NoDup (remove1 a l).
Proof.
  induction l as [|x l IH]; intro ND; simpl; [exact ND|].
  inversion ND as [|? ? Hx ND']; subst. destruct (Nat.eqb a x); [exact ND'|].
  constructor; [|apply IH; exact ND']. intro Hin. apply Hx. eapply remove1_incl. exact Hin.
Qed.

Lemma remove1_length a l : length (remove1 a l) <= length l.
Proof.
  induction l as [|x l IH]; simpl; [lia|]. destruct (Nat.eqb a x); simpl; lia.
Qed.

Lemma NoDup_snoc (k : nat) l : NoDup l -> ~ In k l -> NoDup (l ++ [k]).
Proof.
  induction l as [|x l IH]; intros ND Hk; simpl.
  - constructor; [intros []|constructor].
  - inversion ND as [|? ? Hx ND']; subst. constructor.
    + intro Hin. apply in_app_or in Hin. destruct Hin as [Hin|[<-|[]]]; [contradiction|].
      apply Hk. left. reflexivity.
    + apply IH; [exact ND'|]. intro Hin. apply Hk. right. exact Hin.
Qed.

Lemma SS_app_iff (p q : list nat) :
  StronglySorted lt (p ++ q) <->
  StronglySorted lt p /\ StronglySorted lt q /\ (forall x y, In x p -> In y q -> x < y).
Proof.
  induction p as [|z p IH]; simpl.
  - split.
    + intro H. split; [constructor|]. split; [exact H|]. intros x y [].
    + intros (_ & H & _). exact H.
  - split.
    + intro H. inversion H as [|? ? H1 H2]; subst. apply IH in H1. destruct H1 as (A & B & C).
      rewrite Forall_app in H2. destruct H2 as [F1 F2]. split; [constructor; assumption|].
      split; [exact B|]. intros x y [<-|Hx] Hy.
      * rewrite Forall_forall in F2. apply F2. exact Hy.
      * apply C; assumption.
    + intros (A & B & C). inversion A as [|? ? A1 A2]; subst. constructor.
      * apply IH. split; [exact A1|]. split; [exact B|]. intros x y Hx Hy. apply C; [right|]; assumption.
      * apply Forall_app. split; [exact A2|]. apply Forall_forall. intros y Hy. apply C; [left; reflexivity|exact Hy].
Qed.

Lemma SS_remove1 a q : StronglySorted lt q -> StronglySorted lt (remove1 a q).
Proof.
  induction q as [|x q IH]; intro H; simpl; [exact H|].
  inversion H as [|? ? H1 H2]; subst. destruct (Nat.eqb a x); [exact H1|].
  constructor; [apply IH; exact H1|]. rewrite Forall_forall in *. intros y Hy. apply H2.
  eapply remove1_incl. exact Hy.
Qed.

Lemma SS_NoDup q : StronglySorted lt q -> NoDup q.
Proof.
  induction q as [|x q IH]; intro H; [constructor|].
  inversion H as [|? ? H1 H2]; subst. constructor; [|apply IH; exact H1].
  intro Hin. rewrite Forall_forall in H2. specialize (H2 x Hin). lia.
Qed.

(* ---------------- starts ---------------- *)
Lemma starts_app L l : starts (L ++ l) = starts L ++ starts l.
Proof. unfold starts. apply flat_map_app. Qed.
Lemma starts_deliver hop f o : starts [deliver hop f o] = [].
Proof. destruct (deliver_cases hop f o) as [E|E]; rewrite E; reflexivity. Qed.

(* ---------------- nobug ---------------- *)
Definition nobug (l : list logev) : Prop := forall b, ~ In (LBug b) l.
Lemma nobug_nil : nobug [].
Proof. intros b []. Qed.
Lemma nobug_app l1 l2 : nobug l1 -> nobug l2 -> nobug (l1 ++ l2).
Proof. intros H1 H2 b Hin. apply in_app_or in Hin. destruct Hin as [Hin|Hin]; [eapply H1|eapply H2]; eauto. Qed.
Lemma nobug_starts_only l : starts_only l -> nobug l.
Proof. intros H b Hin. destruct (H _ Hin) as [a E]. discriminate E. Qed.
Lemma nobug_deliver hop f o : nobug [deliver hop f o].
Proof. intros b [E|[]]. eapply deliver_not_bug. exact E. Qed.

(* ---------------- kinds ---------------- *)
Definition kind (y : astate) : nat :=
  match y with AQueued _ => 0 | AConn _ true _ _ => 1 | AConn _ false _ _ => 2 | AGone => 3 end.
Definition kd (b : nat) (s : st) : option nat :=
  match get_st b s with Some y => Some (kind y) | None => None end.

Lemma kd_set_st a y s b :
  kd b (set_st a y s) =
  if Nat.eqb a b then match kd a s with Some _ => Some (kind y) | None => None end else kd b s.
Proof.
  unfold kd. rewrite get_st_set_st. destruct (Nat.eqb a b); [|reflexivity].
  destruct (get_st a s); reflexivity.
Qed.

Lemma kd_lt b s k : kd b s = Some k -> b < length (s_atts s).
Proof.
  unfold kd. destruct (get_st b s) as [y|] eqn:G; intro H; [|discriminate H].
  eapply get_st_lt. exact G.
Qed.

Lemma kd_active b s : kd b s = Some 1 <-> exists cb t ph, get_st b s = Some (AConn cb true t ph).
Proof.
  unfold kd. split.
  - destruct (get_st b s) as [[tm|cb [|] t ph|]|]; intro H; try discriminate H. eauto.
  - intros (cb & t & ph & ->). reflexivity.
Qed.
Lemma kd_queued b s : kd b s = Some 0 <-> exists t, get_st b s = Some (AQueued t).
Proof.
  unfold kd. split.
  - destruct (get_st b s) as [[tm|cb [|] t ph|]|]; intro H; try discriminate H. eauto.
  - intros (t & ->). reflexivity.
Qed.

(* ---------------- the invariant ---------------- *)
Definition Inv1 (q : list nat) (s : st) (L : list logev) : Prop :=
  NoDup (s_active s) /\
  length (s_active s) <= s_max s /\
  (forall b, In b (s_active s) <-> kd b s = Some 1) /\
  (forall b, In b q <-> kd b s = Some 0) /\
  StronglySorted lt (starts L ++ q) /\
  Forall (fun b => b < length (s_atts s)) (starts L ++ q) /\
  (forall b, kd b s = Some 1 \/ kd b s = Some 2 -> In b (starts L)).

Definition G1 (s : st) (L : list logev) : Prop :=
  Inv1 (s_queue s) s L /\ (s_queue s <> [] -> length (s_active s) = s_max s).

Lemma Inv1_same q s s' L :
  Inv1 q s L -> s_max s' = s_max s -> s_active s' = s_active s ->
  length (s_atts s') = length (s_atts s) -> (forall b, kd b s' = kd b s) -> Inv1 q s' L.
Proof.
  intros (I1 & I2 & I3 & I4 & I5 & I6 & I7) E1 E2 E3 E4. unfold Inv1.
  rewrite E1, E2, E3. repeat split; try assumption.
  - rewrite E4. apply I3.
  - rewrite E4. apply I3.
  - rewrite E4. apply I4.
  - rewrite E4. apply I4.
  - intro b. rewrite !E4. apply I7.
Qed.

Lemma Inv1_log q s L L' : starts L' = starts L -> Inv1 q s L -> Inv1 q s L'.
Proof. unfold Inv1. intros ->. tauto. Qed.
Lemma G1_log s L L' : starts L' = starts L -> G1 s L -> G1 s L'.
Proof. intros E [H1 H2]. split; [eapply Inv1_log; eauto|exact H2]. Qed.

Lemma G1_deliver s L hop f o : G1 s L -> G1 s (L ++ [deliver hop f o]).
Proof. apply G1_log. rewrite starts_app, starts_deliver, app_nil_r. reflexivity. Qed.

Lemma kd_set_st_same a y s :
  (forall y0, get_st a s = Some y0 -> kind y = kind y0) -> forall b, kd b (set_st a y s) = kd b s.
Proof.
  intros H b. rewrite kd_set_st. destruct (Nat.eqb a b) eqn:Eb; [|reflexivity].
  apply Nat.eqb_eq in Eb. subst b. unfold kd. destruct (get_st a s) as [y0|] eqn:G; [|reflexivity].
  rewrite (H y0 eq_refl). reflexivity.
Qed.

Lemma G1_set_same a y s L :
  G1 s L -> (forall y0, get_st a s = Some y0 -> kind y = kind y0) -> G1 (set_st a y s) L.
Proof.
  intros [H1 H2] Hk. split.
  - rewrite set_st_queue. eapply Inv1_same; [exact H1|apply set_st_max|apply set_st_active|apply set_st_length|].
    apply kd_set_st_same. exact Hk.
  - rewrite set_st_queue, set_st_active, set_st_max. exact H2.
Qed.

Ltac g1_same G :=
  apply G1_set_same; [assumption|];
  let y0 := fresh "y0" in let E := fresh "E" in
  intros y0 E; rewrite G in E; injection E as <-; reflexivity.

(* ---------------- process_queue ---------------- *)
Lemma Inv1_start_conn k q s L f hop sp tm :
  Inv1 (k :: q) s L -> length (s_active s) < s_max s ->
  nth_error (s_atts s) k = Some (mkAtt f hop sp (AQueued tm)) ->
  Inv1 q (start_conn k sp s) (L ++ [LStart k]).
Proof.
  intros (I1 & I2 & I3 & I4 & I5 & I6 & I7) Hlt Hn.
  assert (Hk0 : kd k s = Some 0) by (unfold kd; rewrite (nth_get_st _ _ _ _ _ _ Hn); reflexivity).
  assert (Ea : s_active (start_conn k sp s) = s_active s ++ [k])
    by (unfold start_conn; rewrite set_st_active; reflexivity).
  assert (Em : s_max (start_conn k sp s) = s_max s)
    by (unfold start_conn; rewrite set_st_max; reflexivity).
  assert (El : length (s_atts (start_conn k sp s)) = length (s_atts s))
    by (unfold start_conn; rewrite set_st_length; reflexivity).
  assert (Ek : forall b, kd b (start_conn k sp s) = if Nat.eqb k b then Some 1 else kd b s).
  { intro b. unfold start_conn. rewrite kd_set_st.
    change (kd k (set_active (s_active s ++ [k]) s)) with (kd k s).
    change (kd b (set_active (s_active s ++ [k]) s)) with (kd b s).
    rewrite Hk0. reflexivity. }
  assert (Es : starts (L ++ [LStart k]) = starts L ++ [k]) by (rewrite starts_app; reflexivity).
  assert (Hnq : ~ In k q).
  { apply SS_app_iff in I5. destruct I5 as (_ & S2 & _). apply SS_NoDup in S2.
    inversion S2; assumption. }
  assert (Hna : ~ In k (s_active s)).
  { intro Hin. apply I3 in Hin. congruence. }
  unfold Inv1. rewrite Ea, Em, El, Es. repeat split.
  - apply NoDup_snoc; assumption.
  - rewrite app_length. simpl. lia.
  - intro Hin. rewrite Ek. destruct (Nat.eqb k b) eqn:Eb; [reflexivity|].
    apply Nat.eqb_neq in Eb. apply in_app_or in Hin. destruct Hin as [Hin|[<-|[]]]; [|congruence].
    apply I3. exact Hin.
  - rewrite Ek. destruct (Nat.eqb k b) eqn:Eb.
    + apply Nat.eqb_eq in Eb. subst b. intros _. apply in_or_app. right. left. reflexivity.
    + intro H. apply in_or_app. left. apply I3. exact H.
  - intro Hin. rewrite Ek. destruct (Nat.eqb k b) eqn:Eb.
    + apply Nat.eqb_eq in Eb. subst b. contradiction.
    + apply I4. right. exact Hin.
  - rewrite Ek. destruct (Nat.eqb k b) eqn:Eb; [intro H; discriminate H|].
    apply Nat.eqb_neq in Eb. intro H. apply I4 in H. destruct H as [->|H]; [congruence|exact H].
  - rewrite <- app_assoc. exact I5.
  - rewrite <- app_assoc. exact I6.
  - intro b. rewrite Ek. destruct (Nat.eqb k b) eqn:Eb.
    + apply Nat.eqb_eq in Eb. subst b. intros _. apply in_or_app. right. left. reflexivity.
    + intro H. apply in_or_app. left. apply I7. exact H.
Qed.

Lemma process_queue_G1 q : forall s L s' l,
  Inv1 q s L -> process_queue q s = (s', l) -> G1 s' (L ++ l).
Proof.
  induction q as [|k q IH]; intros s L s' l HI H; simpl in H.
  - injection H as <- <-. rewrite app_nil_r. split; [exact HI|]. simpl. intro C. exfalso. apply C. reflexivity.
  - destruct (length (s_active s) <? s_max s) eqn:Elt.
    + apply Nat.ltb_lt in Elt.
      assert (Hk0 : kd k s = Some 0).
      { destruct HI as (_ & _ & _ & I4 & _). apply I4. left. reflexivity. }
      destruct (nth_error (s_atts s) k) as [[f hop sp [tm|cb rel t ph|]]|] eqn:En;
        try (exfalso; unfold kd, get_st in Hk0; rewrite En in Hk0; simpl in Hk0;
             try destruct rel; discriminate Hk0).
      destruct (process_queue q (start_conn k sp s)) as [s2 l2] eqn:Ep.
      injection H as <- <-.
      apply (IH _ (L ++ [LStart k])) in Ep.
      * rewrite <- app_assoc in Ep. exact Ep.
      * eapply Inv1_start_conn; eauto.
    + injection H as <- <-. rewrite app_nil_r. split; [exact HI|]. simpl. intros _.
      apply Nat.ltb_ge in Elt. destruct HI as (_ & I2 & _). lia.
Qed.

Lemma run_queue_G1 s L s' l : Inv1 (s_queue s) s L -> run_queue s = (s', l) -> G1 s' (L ++ l).
Proof. unfold run_queue. apply process_queue_G1. Qed.

(* ---------------- release ---------------- *)
Lemma Inv1_release q s L a y :
  Inv1 q s L -> kd a s = Some 1 -> kind y = 2 ->
  Inv1 q (set_active (remove1 a (s_active s)) (set_st a y s)) L.
Proof.
  intros (I1 & I2 & I3 & I4 & I5 & I6 & I7) Ha Hy.
  assert (Ek : forall b, kd b (set_active (remove1 a (s_active s)) (set_st a y s))
                         = if Nat.eqb a b then Some 2 else kd b s).
  { intro b. change (kd b (set_active (remove1 a (s_active s)) (set_st a y s))) with (kd b (set_st a y s)).
    rewrite kd_set_st, Ha, Hy. reflexivity. }
  unfold Inv1. simpl s_active. simpl s_max. simpl s_atts.
  rewrite set_st_max, set_st_length. repeat split.
  - apply remove1_NoDup. exact I1.
  - pose proof (remove1_length a (s_active s)). lia.
  - intro Hin. apply remove1_In in Hin; [|exact I1]. destruct Hin as [Hin Hne].
    rewrite Ek. destruct (Nat.eqb a b) eqn:Eb; [apply Nat.eqb_eq in Eb; congruence|]. apply I3. exact Hin.
  - rewrite Ek. destruct (Nat.eqb a b) eqn:Eb; [intro H; discriminate H|].
    apply Nat.eqb_neq in Eb. intro H. apply remove1_In; [exact I1|]. split; [apply I3; exact H|congruence].
  - intro Hin. rewrite Ek. destruct (Nat.eqb a b) eqn:Eb.
    + apply Nat.eqb_eq in Eb. subst b. apply I4 in Hin. congruence.
    + apply I4. exact Hin.
  - rewrite Ek. destruct (Nat.eqb a b) eqn:Eb; [intro H; discriminate H|]. apply I4.
  - exact I5.
  - exact I6.
  - intro b. rewrite Ek. destruct (Nat.eqb a b) eqn:Eb.
    + apply Nat.eqb_eq in Eb. subst b. intros _. apply I7. left. exact Ha.
    + apply I7.
Qed.

Lemma release_G1 a s L s' l :
  G1 s L -> release a s = (s', l) -> G1 s' (L ++ l) /\ nobug l.
Proof.
  intros HG H. unfold release in H.
  destruct (get_st a s) as [[tm|cb [|] t ph|]|] eqn:G;
    try (injection H as <- <-; rewrite app_nil_r; split; [exact HG|apply nobug_nil]).
  cbv zeta in H. rewrite set_st_active in H.
  assert (Ha : kd a s = Some 1) by (unfold kd; rewrite G; reflexivity).
  destruct HG as [HI HF].
  assert (Hin : In a (s_active s)) by (apply HI; exact Ha).
  apply mem_In in Hin. rewrite Hin in H. split.
  - eapply run_queue_G1; [|exact H]. simpl s_queue. rewrite set_st_queue.
    apply Inv1_release; [exact HI|exact Ha|reflexivity].
  - apply run_queue_frame in H. apply nobug_starts_only. apply H.
Qed.

Lemma run_callback_G1 a o s L s' l :
  G1 s L -> run_callback a o s = (s', l) -> G1 s' (L ++ l) /\ nobug l.
Proof.
  intros HG H. unfold run_callback in H. destruct (release a s) as [s1 l1] eqn:R.
  apply (release_G1 _ _ L) in R; [|exact HG]. destruct R as [R1 R2].
  destruct (get_st a s1) as [[tm|[|] rel t ph|]|] eqn:G; destruct (owner_of a s1) as [[g hop]|] eqn:O;
    try (injection H as <- <-; split; assumption).
  injection H as <- <-. split.
  - rewrite app_assoc. apply G1_deliver. g1_same G.
  - apply nobug_app; [exact R2|apply nobug_deliver].
Qed.

Lemma close_stream_G1 a s L : G1 s L -> G1 (close_stream a s) L.
Proof.
  intro HG. unfold close_stream. destruct (get_st a s) as [[tm|cb rel t [| |]|]|] eqn:G; try exact HG.
  g1_same G.
Qed.

Lemma handle_exception_G1 a o s L s' l :
  G1 s L -> handle_exception a o s = (s', l) -> G1 s' (L ++ l) /\ nobug l.
Proof.
  intros HG H. unfold handle_exception in H.
  destruct (get_st a s) as [[tm|[|] rel t ph|]|] eqn:G;
    try (injection H as <- <-; rewrite app_nil_r; split; [exact HG|apply nobug_nil]).
  cbv zeta in H.
  destruct (run_callback a o (set_st a (AConn true rel None ph) s)) as [s2 l2] eqn:R.
  injection H as <- <-.
  apply (run_callback_G1 _ _ _ L) in R; [|g1_same G]. destruct R as [R1 R2].
  split; [apply close_stream_G1; exact R1|exact R2].
Qed.

(* ---------------- fetch_impl ---------------- *)
Lemma fetch_impl_G1 owner hop sp s L s' l :
  G1 s L -> fetch_impl owner hop sp s = (s', l) -> G1 s' (L ++ l) /\ nobug l.
Proof.
  intros [(I1 & I2 & I3 & I4 & I5 & I6 & I7) HF] H. unfold fetch_impl in H. split.
  2:{ apply run_queue_frame in H. apply nobug_starts_only. apply H. }
  eapply run_queue_G1; [|exact H]. simpl s_queue.
  set (k := length (s_atts s)).
  set (tm := (s_max s <=? length (s_active s)) && (sp_ct sp || sp_rt sp)).
  set (s0 := mkSt (s_max s) (s_queue s ++ [k]) (s_active s)
                  (s_atts s ++ [mkAtt owner hop sp (AQueued tm)]) (s_nfetch s)).
  assert (Ek : forall b, kd b s0 = if Nat.eqb b k then Some 0 else kd b s).
  { intro b. unfold kd, get_st. simpl s_atts. destruct (Nat.eqb b k) eqn:Eb.
    - apply Nat.eqb_eq in Eb. subst b. unfold k. rewrite nth_error_app2, Nat.sub_diag by lia. reflexivity.
    - apply Nat.eqb_neq in Eb. destruct (Nat.lt_ge_cases b k) as [Hlt|Hge].
      + rewrite nth_error_app1 by exact Hlt. reflexivity.
      + assert (E1 : nth_error (s_atts s ++ [mkAtt owner hop sp (AQueued tm)]) b = None).
        { apply nth_error_None. rewrite app_length. simpl. unfold k in *. lia. }
        assert (E2 : nth_error (s_atts s) b = None) by (apply nth_error_None; unfold k in *; lia).
        rewrite E1, E2. reflexivity. }
  assert (Hkn : kd k s = None).
  { unfold kd, get_st. assert (E2 : nth_error (s_atts s) k = None) by (apply nth_error_None; unfold k; lia).
    rewrite E2. reflexivity. }
  unfold Inv1. simpl s_active. simpl s_max. simpl s_atts. repeat split.
  - exact I1.
  - exact I2.
  - intro Hin. rewrite Ek. destruct (Nat.eqb b k) eqn:Eb.
    + apply Nat.eqb_eq in Eb. subst b. apply I3 in Hin. congruence.
    + apply I3. exact Hin.
  - rewrite Ek. destruct (Nat.eqb b k) eqn:Eb; [intro E; discriminate E|]. apply I3.
  - intro Hin. rewrite Ek. destruct (Nat.eqb b k) eqn:Eb; [reflexivity|].
    apply Nat.eqb_neq in Eb. apply in_app_or in Hin. destruct Hin as [Hin|[<-|[]]]; [|congruence].
    apply I4. exact Hin.
  - rewrite Ek. destruct (Nat.eqb b k) eqn:Eb.
    + apply Nat.eqb_eq in Eb. subst b. intros _. apply in_or_app. right. left. reflexivity.
    + intro E. apply in_or_app. left. apply I4. exact E.
  - rewrite app_assoc. apply SS_app_iff. split; [exact I5|]. split; [repeat constructor|].
    intros x y Hx [<-|[]]. rewrite Forall_forall in I6. apply I6. exact Hx.
  - rewrite app_assoc. apply Forall_app. split.
    + eapply Forall_impl; [|exact I6]. simpl. intros x Hx. rewrite app_length. simpl. lia.
    + constructor; [|constructor]. rewrite app_length. simpl. unfold k. lia.
  - intro b. rewrite Ek. destruct (Nat.eqb b k) eqn:Eb; [intros [E|E]; discriminate E|]. apply I7.
Qed.

(* ---------------- finish ---------------- *)
Lemma finish_G1 a code hasloc s L s' l :
  G1 s L -> finish a code hasloc s = (s', l) ->
  G1 s' (L ++ l) /\ ((forall rel t ph, get_st a s <> Some (AConn false rel t ph)) -> nobug l).
Proof.
  intros HG H. unfold finish in H.
  destruct (nth_error (s_atts s) a) as [[g hop sp [tm|cb rel t ph|]]|] eqn:En;
    try (injection H as <- <-; rewrite app_nil_r; split; [exact HG|intros _; apply nobug_nil]).
  cbv zeta in H.
  assert (G := nth_get_st _ _ _ _ _ _ En).
  assert (HG0 : G1 (set_st a (AConn cb rel None ph) s) L) by (g1_same G).
  destruct (should_follow sp code hasloc) eqn:Ef.
  - destruct cb.
    + destruct (release a (set_st a (AConn false rel None ph) (set_st a (AConn true rel None ph) s)))
        as [s2 l2] eqn:R.
      destruct (fetch_impl g true (redirected_spec sp) s2) as [s3 l3] eqn:Fi.
      injection H as <- <-.
      apply (release_G1 _ _ L) in R.
      * destruct R as [R1 R2]. apply (fetch_impl_G1 _ _ _ _ (L ++ l2)) in Fi; [|exact R1].
        destruct Fi as [F1 F2]. rewrite app_assoc. split; [apply close_stream_G1; exact F1|].
        intros _. apply nobug_app; assumption.
      * apply G1_set_same; [exact HG0|]. intros y0 E. rewrite get_st_set_st, Nat.eqb_refl, G in E.
        injection E as <-. reflexivity.
    + injection H as <- <-. split.
      * apply G1_log with L; [|exact HG0]. rewrite starts_app, app_nil_r. reflexivity.
      * intro Hc. exfalso. eapply Hc. exact G.
  - destruct (run_callback a (OCode code) (set_st a (AConn cb rel None ph) s)) as [s1 l1] eqn:R.
    injection H as <- <-. apply (run_callback_G1 _ _ _ L) in R; [|exact HG0]. destruct R as [R1 R2].
    split; [apply close_stream_G1; exact R1|intros _; exact R2].
Qed.

(* ---------------- step ---------------- *)
Lemma G1_qtimeout a s L hop f o :
  G1 s L -> kd a s = Some 0 ->
  G1 (set_st a AGone (set_queue (remove1 a (s_queue s)) s)) (L ++ [deliver hop f o]).
Proof.
  intros [(I1 & I2 & I3 & I4 & I5 & I6 & I7) HF] Ha. apply G1_deliver.
  assert (Ek : forall b, kd b (set_st a AGone (set_queue (remove1 a (s_queue s)) s))
                         = if Nat.eqb a b then Some 3 else kd b s).
  { intro b. rewrite kd_set_st.
    change (kd a (set_queue (remove1 a (s_queue s)) s)) with (kd a s).
    change (kd b (set_queue (remove1 a (s_queue s)) s)) with (kd b s).
    rewrite Ha. reflexivity. }
  apply SS_app_iff in I5. destruct I5 as (S1 & S2 & S3).
  apply Forall_app in I6. destruct I6 as [F1 F2].
  assert (NDq := SS_NoDup _ S2).
  split.
  - unfold Inv1. rewrite set_st_queue, set_st_active, set_st_max, set_st_length.
    simpl s_queue. simpl s_active. simpl s_max. simpl s_atts. repeat split.
    + exact I1.
    + exact I2.
    + intro Hin. rewrite Ek. destruct (Nat.eqb a b) eqn:Eb.
      * apply Nat.eqb_eq in Eb. subst b. apply I3 in Hin. congruence.
      * apply I3. exact Hin.
    + rewrite Ek. destruct (Nat.eqb a b) eqn:Eb; [intro E; discriminate E|]. apply I3.
    + intro Hin. apply remove1_In in Hin; [|exact NDq]. destruct Hin as [Hin Hne].
      rewrite Ek. destruct (Nat.eqb a b) eqn:Eb; [apply Nat.eqb_eq in Eb; congruence|]. apply I4. exact Hin.
    + rewrite Ek. destruct (Nat.eqb a b) eqn:Eb; [intro E; discriminate E|].
      apply Nat.eqb_neq in Eb. intro E. apply remove1_In; [exact NDq|]. split; [apply I4; exact E|congruence].
    + apply SS_app_iff. split; [exact S1|]. split; [apply SS_remove1; exact S2|].
      intros x y Hx Hy. apply S3; [exact Hx|]. eapply remove1_incl. exact Hy.
    + apply Forall_app. split; [exact F1|]. rewrite Forall_forall in *. intros y Hy. apply F2.
      eapply remove1_incl. exact Hy.
    + intro b. rewrite Ek. destruct (Nat.eqb a b) eqn:Eb; [intros [E|E]; discriminate E|]. apply I7.
  - rewrite set_st_queue, set_st_active, set_st_max. simpl. intro Hne. apply HF.
    intro E. rewrite E in Hne. apply Hne. reflexivity.
Qed.

Ltac triv HG H :=
  injection H as <- <-; rewrite app_nil_r; split; [exact HG|intros _; apply nobug_nil].

Lemma step_G1 e s L s' l :
  G1 s L -> step e s = (s', l) ->
  G1 s' (L ++ l) /\ ((forall a rel t, get_st a s <> Some (AConn false rel t POpen)) -> nobug l).
Proof.
  intros HG H. destruct e as [sp|a|a|a|a|a code hasloc|a|a|a|a]; simpl in H.
  - (* EFetch *)
    apply (fetch_impl_G1 _ _ _ _ L) in H; [destruct H as [H1 H2]; split; [exact H1|intros _; exact H2]|].
    exact HG.
  - (* EQTimeout *)
    destruct (get_st a s) as [[[|]|cb rel t ph|]|] eqn:G; destruct (owner_of a s) as [[g hop]|] eqn:O;
      try (triv HG H).
    assert (Ha : kd a s = Some 0) by (unfold kd; rewrite G; reflexivity).
    assert (Hin : In a (s_queue s)) by (apply HG; exact Ha).
    apply mem_In in Hin. rewrite Hin in H. injection H as <- <-.
    split; [apply G1_qtimeout; assumption|intros _; apply nobug_deliver].
  - (* ECTimeout *)
    destruct (get_st a s) as [[tm|cb rel [k|] ph|]|] eqn:G; try (triv HG H).
    cbv zeta in H.
    assert (HG1 : G1 (set_st a (AConn cb rel None ph) s) L) by (g1_same G).
    destruct cb.
    + apply (handle_exception_G1 _ _ _ L) in H; [|exact HG1]. destruct H as [H1 H2].
      split; [exact H1|intros _; exact H2].
    + injection H as <- <-. rewrite app_nil_r. split; [exact HG1|intros _; apply nobug_nil].
  - (* EConnOk *)
    destruct (nth_error (s_atts s) a) as [[g hop sp [tm|cb rel t [| |]|]]|] eqn:En; try (triv HG H).
    assert (G := nth_get_st _ _ _ _ _ _ En).
    destruct cb.
    + cbv zeta in H.
      assert (HG1 : G1 (set_st a (AConn true rel (if sp_rt sp then Some TRequest else None) POpen) s) L)
        by (g1_same G).
      destruct (sp_bad sp).
      * apply (handle_exception_G1 _ _ _ L) in H; [|exact HG1]. destruct H as [H1 H2].
        split; [exact H1|intros _; exact H2].
      * injection H as <- <-. rewrite app_nil_r. split; [exact HG1|intros _; apply nobug_nil].
    + injection H as <- <-. rewrite app_nil_r. split; [g1_same G|intros _; apply nobug_nil].
  - (* EConnFail *)
    destruct (get_st a s) as [[tm|cb rel t [| |]|]|] eqn:G; try (triv HG H).
    apply (handle_exception_G1 _ _ _ L) in H; [|g1_same G]. destruct H as [H1 H2].
    split; [exact H1|intros _; exact H2].
  - (* ERespond *)
    destruct (get_st a s) as [[tm|cb rel t [| |]|]|] eqn:G; try (triv HG H).
    apply (finish_G1 _ _ _ _ L) in H; [|exact HG]. destruct H as [H1 H2]. split; [exact H1|].
    intro Hc. apply H2. intros rel0 t0 ph0 E. rewrite G in E. injection E as E1 E2 E3 E4. subst.
    eapply Hc. exact G.
  - (* EClose *)
    destruct (get_st a s) as [[tm|cb rel t [| |]|]|] eqn:G; try (triv HG H).
    apply (handle_exception_G1 _ _ _ L) in H; [|g1_same G]. destruct H as [H1 H2].
    split; [exact H1|intros _; exact H2].
  - (* EReset *)
    destruct (get_st a s) as [[tm|cb rel t [| |]|]|] eqn:G; try (triv HG H).
    apply (handle_exception_G1 _ _ _ L) in H; [|g1_same G]. destruct H as [H1 H2].
    split; [exact H1|intros _; exact H2].
  - (* EMalformed *)
    destruct (get_st a s) as [[tm|cb rel t [| |]|]|] eqn:G; try (triv HG H).
    apply (handle_exception_G1 _ _ _ L) in H; [|g1_same G]. destruct H as [H1 H2].
    split; [exact H1|intros _; exact H2].
  - (* EBadFraming *)
    destruct (get_st a s) as [[tm|cb rel t [| |]|]|] eqn:G; try (triv HG H).
    apply (handle_exception_G1 _ _ _ L) in H; [|g1_same G]. destruct H as [H1 H2].
    split; [exact H1|intros _; exact H2].
Qed.

Lemma G1_init m : G1 (init m) [].
Proof.
  split; [|intro C; exfalso; apply C; reflexivity].
  unfold Inv1, init, kd, get_st. simpl. repeat split; try (constructor; fail); try lia.
  - destruct b; intro E; discriminate E.
  - destruct b; intro E; discriminate E.
  - intro b. destruct b; intros [E|E]; discriminate E.
Qed.

Lemma G1_step e s L s' l : G1 s L -> step e s = (s', l) -> G1 s' (L ++ l).
Proof. intros HG H. eapply step_G1; eauto. Qed.

Lemma G1_exec m es s L : exec es (init m) = (s, L) -> G1 s L.
Proof. apply (exec_invariant_init G1 m (G1_init m) G1_step). Qed.

(* ---------------- s_max is constant ---------------- *)
Lemma fr_max a s s' y : fr a s s' y -> s_max s' = s_max s.
Proof. intros [(H & _) _]. exact H. Qed.

Lemma release_max a s s' l : release a s = (s', l) -> s_max s' = s_max s.
Proof.
  intro H. unfold release in H.
  destruct (get_st a s) as [[tm|cb [|] t ph|]|] eqn:G; try (injection H as <- <-; reflexivity).
  cbv zeta in H. destruct (mem a (s_active (set_st a (AConn cb false t ph) s))).
  - apply run_queue_frame in H. destruct H as [[(E & _) _] _]. rewrite E. simpl. apply set_st_max.
  - injection H as <- <-. apply set_st_max.
Qed.
Lemma run_callback_max a o s s' l : run_callback a o s = (s', l) -> s_max s' = s_max s.
Proof.
  intro H. unfold run_callback in H. destruct (release a s) as [s1 l1] eqn:R. apply release_max in R.
  destruct (get_st a s1) as [[tm|[|] rel t ph|]|]; destruct (owner_of a s1) as [[g hop]|];
    injection H as <- <-; try exact R.
  rewrite set_st_max. exact R.
Qed.
Lemma close_stream_max a s : s_max (close_stream a s) = s_max s.
Proof.
  unfold close_stream. destruct (get_st a s) as [[tm|cb rel t [| |]|]|]; try reflexivity. apply set_st_max.
Qed.
Lemma handle_exception_max a o s s' l : handle_exception a o s = (s', l) -> s_max s' = s_max s.
Proof.
  intro H. unfold handle_exception in H.
  destruct (get_st a s) as [[tm|[|] rel t ph|]|]; try (injection H as <- <-; reflexivity).
  cbv zeta in H. destruct (run_callback a o (set_st a (AConn true rel None ph) s)) as [s2 l2] eqn:R.
  injection H as <- <-. apply run_callback_max in R. rewrite close_stream_max, R. apply set_st_max.
Qed.
Lemma fetch_impl_max owner hop sp s s' l : fetch_impl owner hop sp s = (s', l) -> s_max s' = s_max s.
Proof. intro H. apply fetch_impl_frame in H. apply H. Qed.
Lemma finish_max a code hasloc s s' l : finish a code hasloc s = (s', l) -> s_max s' = s_max s.
Proof.
  intro H. unfold finish in H.
  destruct (nth_error (s_atts s) a) as [[g hop sp [tm|cb rel t ph|]]|]; try (injection H as <- <-; reflexivity).
  cbv zeta in H. destruct (should_follow sp code hasloc).
  - destruct cb.
    + destruct (release a _) as [s2 l2] eqn:R. destruct (fetch_impl g true (redirected_spec sp) s2) as [s3 l3] eqn:Fi.
      injection H as <- <-. apply release_max in R. apply fetch_impl_max in Fi.
      rewrite close_stream_max, Fi, R, !set_st_max. reflexivity.
    + injection H as <- <-. apply set_st_max.
  - destruct (run_callback a (OCode code) _) as [s1 l1] eqn:R. injection H as <- <-.
    apply run_callback_max in R. rewrite close_stream_max, R. apply set_st_max.
Qed.

Lemma step_max e s s' l : step e s = (s', l) -> s_max s' = s_max s.
Proof.
  intro H. destruct e as [sp|a|a|a|a|a code hasloc|a|a|a|a]; simpl in H.
  - apply fetch_impl_max in H. exact H.
  - destruct (get_st a s) as [[[|]|cb rel t ph|]|]; destruct (owner_of a s) as [[g hop]|];
      try (injection H as <- <-; reflexivity).
    destruct (mem a (s_queue s)); injection H as <- <-; [|reflexivity]. rewrite set_st_max. reflexivity.
  - destruct (get_st a s) as [[tm|cb rel [k|] ph|]|]; try (injection H as <- <-; reflexivity).
    cbv zeta in H. destruct cb.
    + apply handle_exception_max in H. rewrite H. apply set_st_max.
    + injection H as <- <-. apply set_st_max.
  - destruct (nth_error (s_atts s) a) as [[g hop sp [tm|cb rel t [| |]|]]|]; try (injection H as <- <-; reflexivity).
    destruct cb.
    + cbv zeta in H. destruct (sp_bad sp).
      * apply handle_exception_max in H. rewrite H. apply set_st_max.
      * injection H as <- <-. apply set_st_max.
    + injection H as <- <-. apply set_st_max.
  - destruct (get_st a s) as [[tm|cb rel t [| |]|]|]; try (injection H as <- <-; reflexivity).
    apply handle_exception_max in H. rewrite H. apply set_st_max.
  - destruct (get_st a s) as [[tm|cb rel t [| |]|]|]; try (injection H as <- <-; reflexivity).
    apply finish_max in H. exact H.
  - destruct (get_st a s) as [[tm|cb rel t [| |]|]|]; try (injection H as <- <-; reflexivity).
    apply handle_exception_max in H. rewrite H. apply set_st_max.
  - destruct (get_st a s) as [[tm|cb rel t [| |]|]|]; try (injection H as <- <-; reflexivity).
    apply handle_exception_max in H. rewrite H. apply set_st_max.
  - destruct (get_st a s) as [[tm|cb rel t [| |]|]|]; try (injection H as <- <-; reflexivity).
    apply handle_exception_max in H. rewrite H. apply set_st_max.
  - destruct (get_st a s) as [[tm|cb rel t [| |]|]|]; try (injection H as <- <-; reflexivity).
    apply handle_exception_max in H. rewrite H. apply set_st_max.
Qed.

Lemma exec_max m es s L : exec es (init m) = (s, L) -> s_max s = m.
Proof.
  apply (exec_invariant_init (fun s _ => s_max s = m) m eq_refl).
  intros e s0 L0 s' l H0 H. apply step_max in H. congruence.
Qed.

(* ---------------- theorems ---------------- *)
(* T1 *)
Theorem machine_max_clients : forall m es s L, exec es (init m) = (s, L) ->
  length (s_active s) <= m /\ NoDup (s_active s) /\ s_max s = m.
Proof.
  intros m es s L H. assert (Hm := exec_max _ _ _ _ H).
  destruct (G1_exec _ _ _ _ H) as [(I1 & I2 & _) _]. rewrite Hm in I2. tauto.
Qed.

(* T2 *)
Theorem machine_active_iff : forall m es s L, exec es (init m) = (s, L) ->
  forall a, In a (s_active s) <-> exists cb t ph, get_st a s = Some (AConn cb true t ph).
Proof.
  intros m es s L H a. destruct (G1_exec _ _ _ _ H) as [(_ & _ & I3 & _) _].
  rewrite I3. apply kd_active.
Qed.

(* T3 *)
Theorem machine_start_order : forall m es s L, exec es (init m) = (s, L) ->
  StronglySorted lt (starts L ++ s_queue s) /\
  (forall a, a < length (s_atts s) -> In a (starts L) \/ In a (s_queue s) \/ get_st a s = Some AGone) /\
  (forall a, In a (s_queue s) <-> exists t, get_st a s = Some (AQueued t)).
Proof.
  intros m es s L H. destruct (G1_exec _ _ _ _ H) as [(_ & _ & I3 & I4 & I5 & I6 & I7) _].
  split; [exact I5|]. split.
  - intros a Ha. apply nth_error_Some in Ha.
    destruct (nth_error (s_atts s) a) as [[f hop sp y]|] eqn:En; [|congruence].
    assert (G := nth_get_st _ _ _ _ _ _ En).
    destruct y as [tm|cb rel t ph|].
    + right. left. apply I4. unfold kd. rewrite G. reflexivity.
    + left. apply I7. unfold kd. rewrite G. simpl. destruct rel; auto.
    + right. right. exact G.
  - intro a. rewrite I4. apply kd_queued.
Qed.

(* T8 *)
Theorem machine_no_idle_slot_while_queued : forall m es s L, exec es (init m) = (s, L) ->
  s_queue s <> [] -> length (s_active s) = s_max s.
Proof. intros m es s L H. destruct (G1_exec _ _ _ _ H) as [_ HF]. exact HF. Qed.

Print Assumptions machine_max_clients.
Print Assumptions machine_active_iff.
Print Assumptions machine_start_order.
Print Assumptions machine_no_idle_slot_while_queued.
