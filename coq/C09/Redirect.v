(* C09 — what _HTTPConnection.run() puts on the wire for one request, and the body of
   _HTTPConnection.finish() that turns a redirect response into the next request
   (tornado/simple_httpclient.py), over C06's HTTPHeaders model and the URL model of Url.v.
   Definitions only. *)
From Coq Require Import List NArith ZArith Bool String.
Import ListNotations.
From TV Require Import C06.Model C09.Url.
Local Open Scope N_scope.

(* HTTPRequest attributes that run()/finish() read; None = "not given" (the _RequestProxy then
   supplies HTTPRequest._DEFAULTS: follow_redirects=True, max_redirects=5, decompress_response=True) *)
Record req := mkReq {
  r_url : text;
  r_method : text;
  r_body : option (list N);
  r_headers : hstate;
  r_auth_user : option text;
  r_auth_pass : option text;
  r_maxred : option Z;
  r_follow : option bool;
  r_ua : option text;
  r_defmax : option Z     (* the client's defaults["max_redirects"] (AsyncHTTPClient(defaults=...)); None: not
                             overridden, the built-in HTTPRequest._DEFAULTS value 5 applies.  The _RequestProxy
                             that run()/finish() see is the pair (request, client defaults). *)
}.

(* self.request.max_redirects through the _RequestProxy: the request's own value, else the client's
   default, else the built-in default *)
Definition maxred_of (r : req) : Z :=
  match r_maxred r with
  | Some z => z
  | None => match r_defmax r with Some d => d | None => 5%Z end
  end.
Definition follow_of (r : req) : bool := match r_follow r with Some b => b | None => true end.

Inductive rerr := RValueError | RKeyError | RAssertionError | RUnmodelled.

(* ---------- base64.b64encode ---------- *)
Definition b64_char (n : N) : N :=
  if n <? 26 then 65 + n else if n <? 52 then 97 + (n - 26) else if n <? 62 then 48 + (n - 52)
  else if n =? 62 then 43 else 47.
Fixpoint b64 (l : list N) : list N :=
  match l with
  | [] => []
  | [a] => [b64_char (a / 4); b64_char ((a mod 4) * 16); 61; 61]
  | [a; b] => [b64_char (a / 4); b64_char ((a mod 4) * 16 + b / 16); b64_char ((b mod 16) * 4); 61]
  | a :: b :: c :: r =>
      b64_char (a / 4) :: b64_char ((a mod 4) * 16 + b / 16) ::
      b64_char ((b mod 16) * 4 + c / 64) :: b64_char (c mod 64) :: b64 r
  end.

Definition supported_methods : list text :=
  map T ["GET"; "HEAD"; "POST"; "PUT"; "DELETE"; "PATCH"; "OPTIONS"]%string.
Definition in_texts (x : text) (l : list text) : bool := existsb (text_eqb x) l.

Definition H_Connection := T "Connection".      Definition H_Host := T "Host".
Definition H_Authorization := T "Authorization". Definition H_Cookie := T "Cookie".
Definition H_UserAgent := T "User-Agent".        Definition H_ContentLength := T "Content-Length".
Definition H_ContentType := T "Content-Type".    Definition H_ContentEncoding := T "Content-Encoding".
Definition H_TransferEncoding := T "Transfer-Encoding".
Definition H_AcceptEncoding := T "Accept-Encoding".

(* the username/password run() authenticates with: URL userinfo first, then auth_username *)
Inductive creds := CNone | CSome (u p : text) | CAssert (* `assert password is not None` *).
Definition credentials (netloc : text) (r : req) : creds :=
  match userinfo netloc with
  | Some (u, Some p) => CSome u p
  | Some (u, None) => CAssert
  | None =>
      match r_auth_user r with
      | Some u => CSome u (match r_auth_pass r with Some (c :: p) => c :: p | _ => [] end)
      | None => CNone
      end
  end.

Record wire := mkWire {
  w_host : text; w_port : N; w_tls : bool;      (* arguments of tcp_client.connect *)
  w_start : text;                               (* request line *)
  w_headers : hstate;                           (* self.request.headers after run() *)
  w_body : list N
}.

Inductive prep :=
| PreFail (e : rerr)                                    (* raised before tcp_client.connect *)
| PostFail (host : text) (port : N) (tls : bool) (e : rerr)   (* connected; nothing written *)
| Sent (w : wire).

Definition header_line (kv : text * text) : text := fst kv ++ [58; 32] ++ snd kv.
Definition has_crlf (l : text) : bool := existsb (fun c => (c =? 13) || (c =? 10)) l.

(* _HTTPConnection.run() up to and including the request body (tornado_version: tornado.version) *)
Definition prepare (tornado_version : text) (r : req) : prep :=
  match urlsplit (r_url r) with
  | UUnmodelled => PreFail RUnmodelled
  | UOk u =>
      if negb (in_texts (u_scheme u) [T "http"; T "https"]) then PreFail RValueError else
      let tls := text_eqb (u_scheme u) (T "https") in
      let netloc := hostinfo (u_netloc u) in       (* if "@" in netloc: netloc.rpartition("@")[2] *)
      let '(host, p) := split_host_and_port netloc in
      let port := match p with Some n => n | None => if tls then 443 else 80 end in
      let fail := PostFail host port tls in
      if negb (in_texts (r_method r) supported_methods) then fail RKeyError else
      let h := r_headers r in
      let h := if contains H_Connection h then h else set_item H_Connection (T "close") h in
      let h := if contains H_Host h then h else set_item H_Host netloc h in
      match credentials (u_netloc u) r with
      | CAssert => fail RAssertionError
      | c =>
          let h := match c with
                   | CSome us pw => set_item H_Authorization (T "Basic " ++ b64 (us ++ c_colon :: pw)) h
                   | _ => h
                   end in
          let h := match r_ua r with
                   | Some (c :: ua) => set_item H_UserAgent (c :: ua) h
                   | _ => if contains H_UserAgent h then h
                          else set_item H_UserAgent (T "Tornado/" ++ tornado_version) h
                   end in
          let body_expected := in_texts (r_method r) [T "POST"; T "PATCH"; T "PUT"] in
          let body_present := match r_body r with Some _ => true | None => false end in
          if (body_expected && negb body_present) || (body_present && negb body_expected)
          then fail RValueError else
          match (match r_body r with
                 | Some b => match to_dec (N.of_nat (List.length b)) with
                             | Some d => Some (set_item H_ContentLength d h)
                             | None => None
                             end
                 | None => Some h
                 end) with
          | None => fail RUnmodelled
          | Some h =>
              let h := if text_eqb (r_method r) (T "POST") && negb (contains H_ContentType h)
                       then set_item H_ContentType (T "application/x-www-form-urlencoded") h else h in
              let h := set_item H_AcceptEncoding (T "gzip") h in
              let path := (match u_path u with [] => [c_slash] | p => p end) ++
                          (match u_query u with [] => [] | q => c_qm :: q end) in
              let start := r_method r ++ [32] ++ path ++ T " HTTP/1.1" in
              (* HTTP1Connection.write_headers: names must be tokens, no CR/LF in any line *)
              if negb (forallb (fun kv => is_token (fst kv)) (get_all h)) then fail RValueError else
              if has_crlf start || existsb (fun kv => has_crlf (header_line kv)) (get_all h)
              then fail RValueError else
              Sent (mkWire host port tls start h (match r_body r with Some b => b | None => [] end))
          end
      end
  end.

(* ---------- finish() ---------- *)
Definition is_redirect_code (c : Z) : bool := existsb (Z.eqb c) [301; 302; 303; 307; 308]%Z.
(* _should_follow_redirect *)
Definition should_follow (r : req) (code : Z) (hasloc : bool) : bool :=
  follow_of r && is_redirect_code code && (0 <? maxred_of r)%Z && hasloc.

(* try: del headers[n]  except KeyError: pass *)
Definition del_quiet (n : text) (h : hstate) : hstate := snd (del_item n h).

Definition to_get (code : Z) (method : text) : bool :=
  ((code =? 303)%Z && negb (text_eqb method (T "HEAD"))) ||
  (((code =? 301)%Z || (code =? 302)%Z) && text_eqb method (T "POST")).

Definition cross_origin (uo un : usplit) : bool :=
  negb (text_eqb (u_scheme uo) (u_scheme un)) || negb (text_eqb (u_netloc uo) (u_netloc un)).

(* the netloc finish() gives a cross-origin URL that contains "@" *)
Inductive nlres := NOk (nl : text) | NRaise | NUnmodelled.
Definition stripped_netloc (netloc : text) : nlres :=
  match port netloc with
  | PValueError => NRaise                                    (* ValueError from .port *)
  | PSome n =>
      match to_dec n with
      | Some d => NOk ((match hostname netloc with Some hn => hn | None => T "None" end) ++ c_colon :: d)
      | None => NUnmodelled
      end
  | PNone => match hostname netloc with Some hn => NOk hn | None => NRaise (* assert *) end
  end.

Inductive fin :=
| FRedirect (r' : req)      (* the request handed to self.client.fetch(new_request) *)
| FRaise                    (* an exception escaped finish(): HTTP1Connection turns it into _QuietException *)
| FRaiseInput               (* HTTPInputError from self.request.headers.copy() (a header that add()
                               rejects, e.g. put there through a dict): _ExceptionLoggingContext lets it
                               through, _read_message treats it as a malformed message, closes and
                               returns False; _read_response then raises "Malformed response" *)
| FStuck                    (* HTTPInputError from fetch()'s HTTPHeaders(request.headers), i.e. AFTER
                               final_callback was cleared and the slot released: nobody would complete
                               the fetch.  Proved unreachable (ProofsRedirectTop.redirect_never_stuck) *)
| FUnmodelled.

(* finish(), the branch taken when _should_follow_redirect() holds.
   h      : self.request.headers as run() left them
   orig   : original_request.url
   joined : urllib.parse.urljoin(self.request.url, self.headers["Location"])  (not modelled) *)
Definition redirect_request (orig : text) (r : req) (h : hstate) (code : Z) (joined : text) : fin :=
  match copy h with                                           (* self.request.headers.copy() *)
  | (RUnit, h1) =>
      match urlsplit orig, urlsplit joined with
      | UOk uo, UOk un =>
          let step2 (url : text) (h2 : hstate) (au ap : option text) : fin :=
            match del_item H_Host h2 with                     (* del new_request.headers["Host"] *)
            | (RUnit, h3) =>
                let '(m, b, h4) :=
                  if to_get code (r_method r)
                  then (T "GET", None,
                        del_quiet H_TransferEncoding (del_quiet H_ContentEncoding
                          (del_quiet H_ContentType (del_quiet H_ContentLength h3))))
                  else (r_method r, r_body r, h3) in
                match copy h4 with                            (* fetch(): HTTPHeaders(request.headers) *)
                | (RUnit, h5) =>
                    FRedirect (mkReq url m b h5 au ap (Some (maxred_of r - 1)%Z) (r_follow r) (r_ua r) (r_defmax r))
                | _ => FStuck
                end
            | _ => FRaise
            end in
          if cross_origin uo un then
            let h2 := del_quiet H_Cookie (del_quiet H_Authorization h1) in
            if has_at (u_netloc un) then
              match stripped_netloc (u_netloc un) with
              | NOk nl => step2 (urlunsplit (mkU (u_scheme un) nl (u_path un) (u_query un) (u_frag un)))
                                h2 None None
              | NRaise => FRaise
              | NUnmodelled => FUnmodelled
              end
            else step2 (urlunsplit un) h2 None None
          else step2 joined h1 (r_auth_user r) (r_auth_pass r)
      | _, _ => FUnmodelled
      end
  | _ => FRaiseInput
  end.

(* ---------- a whole fetch against a scripted server ---------- *)
Record hop := mkHop { hp_code : Z; hp_loc : bool; hp_joined : text }.

(* What the user's future sees.  An error of a redirect follow-up reaches it unchanged:
   finish()'s on_redirect_done turns the inner future's exception into a 599 response with the
   same error (fix 2ae8e77; before it the user's future stayed pending for ever). *)
Inductive final :=
| FinCode (code : Z) (effective_url : text)
| FinError (e : rerr)
| FinQuiet            (* _QuietException *)
| FinMalformed        (* HTTPStreamClosedError "Malformed response" (599) *)
| FinStuck            (* the user's future would stay pending (unreachable) *)
| FinUnmodelled.

Record sent := mkSentRec { sn_url : text; sn_wire : option wire;
                           sn_host : text; sn_port : N; sn_tls : bool }.

(* structural in the script: every followed redirect consumes one scripted response; after the
   script the server answers 200 *)
Fixpoint chain (ver orig : text) (r : req) (script : list hop) : list sent * final :=
  match prepare ver r with
  | PreFail RUnmodelled => ([], FinUnmodelled)
  | PreFail e => ([], FinError e)
  | PostFail host p tls RUnmodelled => ([], FinUnmodelled)
  | PostFail host p tls e => ([mkSentRec (r_url r) None host p tls], FinError e)
  | Sent w =>
      let me := mkSentRec (r_url r) (Some w) (w_host w) (w_port w) (w_tls w) in
      match script with
      | [] => ([me], FinCode 200 (r_url r))
      | hp :: script' =>
          if should_follow r (hp_code hp) (hp_loc hp) then
            match redirect_request orig r (w_headers w) (hp_code hp) (hp_joined hp) with
            | FRedirect r' => let '(l, f) := chain ver orig r' script' in (me :: l, f)
            | FRaise => ([me], FinQuiet)
            | FRaiseInput => ([me], FinMalformed)
            | FStuck => ([me], FinStuck)
            | FUnmodelled => ([me], FinUnmodelled)
            end
          else ([me], FinCode (hp_code hp) (r_url r))
      end
  end.
