(* C09 — the redirect theorems in their final form. *)
From Coq Require Import List NArith ZArith Bool Lia String.
Import ListNotations.
From TV Require Import C06.Model C06.ProofsBase C09.Url C09.Redirect C09.ProofsHeaders C09.ProofsRedirect.
Local Open Scope N_scope.

(* "the header block has no line with this name" (names compared case-insensitively) *)
Definition no_header (K : text) (h : hstate) : Prop :=
  (forall n, normalize n = K -> contains n h = false /\ get_list n h = []) /\
  (forall k v, In (k, v) (get_all h) -> map lower k <> map lower K).

Lemma lacks_no_header : forall K h, keys_norm h -> normalize K = K -> hask K h = false -> no_header K h.
Proof.
  intros K h Hn HK Hl. split.
  - intros n Hnk. split; [apply lacks_contains|apply lacks_get_list]; rewrite Hnk; exact Hl.
  - apply lacks_get_all_ci; assumption.
Qed.

(* ---------- when a redirect is followed, and termination ---------- *)
Lemma should_follow_iff : forall r code hasloc,
  should_follow r code hasloc = true <->
  follow_of r = true /\ In code [301; 302; 303; 307; 308]%Z /\ (0 < maxred_of r)%Z /\ hasloc = true.
Proof.
  intros r code hasloc. unfold should_follow, is_redirect_code.
  rewrite !andb_true_iff, existsb_exists, Z.ltb_lt. split.
  - intros [[[H1 [x [Hx Hc]]] H3] H4]. apply Z.eqb_eq in Hc. subst. tauto.
  - intros [H1 [H2 [H3 H4]]]. repeat split; auto. exists code. split; [exact H2|apply Z.eqb_refl].
Qed.

Lemma redirect_decrements : forall orig r h code joined r',
  redirect_request orig r h code joined = FRedirect r' ->
  maxred_of r' = (maxred_of r - 1)%Z /\ follow_of r' = follow_of r.
Proof.
  intros orig r h code joined r' H. apply redirect_inv in H.
  destruct H as [h1 [h2 [h3 [h4 [uo [un F]]]]]].
  unfold maxred_of at 1, follow_of. rewrite (rf_maxred _ _ _ _ _ _ _ _ _ _ _ _ F), (rf_follow _ _ _ _ _ _ _ _ _ _ _ _ F).
  split; reflexivity.
Qed.

(* a fetch sends at most 1 + max_redirects requests, whatever the server answers *)
Lemma chain_length : forall ver orig script r,
  (List.length (fst (chain ver orig r script)) <= S (Z.to_nat (maxred_of r)))%nat /\
  (follow_of r = false -> (List.length (fst (chain ver orig r script)) <= 1)%nat).
Proof.
  intros ver orig script. induction script as [|hp script IH]; intro r; simpl.
  - destruct (prepare ver r) as [[]| ? ? ? []|w]; simpl; split; intros; lia.
  - destruct (prepare ver r) as [[]| ? ? ? []|w]; simpl; try (split; intros; lia).
    destruct (should_follow r (hp_code hp) (hp_loc hp)) eqn:Es; [|simpl; split; intros; lia].
    apply should_follow_iff in Es. destruct Es as [Hf [_ [Hm _]]].
    destruct (redirect_request orig r (w_headers w) (hp_code hp) (hp_joined hp)) as [r'| | | |] eqn:Er;
      try (simpl; split; intros; lia).
    apply redirect_decrements in Er. destruct Er as [Em Ef].
    destruct (IH r') as [IH1 IH2]. destruct (chain ver orig r' script) as [l f]. simpl in *.
    split; [|intro Hc; congruence]. rewrite Em in IH1. lia.
Qed.

(* ---------- method rewriting ---------- *)
Lemma T_GET_not_POST : T "GET" <> T "POST".          Proof. discriminate. Qed.

Theorem redirect_to_get : forall orig r h code joined r',
  redirect_request orig r h code joined = FRedirect r' ->
  to_get code (r_method r) = true ->
  r_method r' = T "GET" /\ r_body r' = None /\
  no_header H_ContentLength (r_headers r') /\ no_header H_ContentType (r_headers r') /\
  no_header H_ContentEncoding (r_headers r') /\ no_header H_TransferEncoding (r_headers r').
Proof.
  intros orig r h code joined r' H Hg. apply redirect_inv in H.
  destruct H as [h1 [h2 [h3 [h4 [uo [un F]]]]]].
  pose proof (new_headers_norm _ _ _ _ _ _ _ _ _ _ _ _ F) as Hn.
  destruct (to_get_lacks _ _ _ _ _ _ _ _ _ _ _ _ F Hg) as [A [B [C D]]].
  destruct (rf_method _ _ _ _ _ _ _ _ _ _ _ _ F) as [[_ [M [Bd _]]]|[Hx _]]; [|congruence].
  split; [exact M|]. split; [exact Bd|].
  split; [|split; [|split]]; apply lacks_no_header; auto.
Qed.

(* ... and on the wire: run() does not put them back *)
Theorem redirect_to_get_wire : forall orig r h code joined r' ver w,
  redirect_request orig r h code joined = FRedirect r' ->
  to_get code (r_method r) = true ->
  prepare ver r' = Sent w ->
  no_header H_ContentLength (w_headers w) /\ no_header H_ContentType (w_headers w) /\
  no_header H_ContentEncoding (w_headers w) /\ no_header H_TransferEncoding (w_headers w).
Proof.
  intros orig r h code joined r' ver w H Hg Hp.
  pose proof H as H0. apply redirect_inv in H. destruct H as [h1 [h2 [h3 [h4 [uo [un F]]]]]].
  pose proof (new_headers_norm _ _ _ _ _ _ _ _ _ _ _ _ F) as Hn.
  destruct (to_get_lacks _ _ _ _ _ _ _ _ _ _ _ _ F Hg) as [A [B [C D]]].
  destruct (rf_method _ _ _ _ _ _ _ _ _ _ _ _ F) as [[_ [M [Bd _]]]|[Hx _]]; [|congruence].
  destruct (prepare_inv_headers ver r' w Hp Hn) as [Hnw Hk].
  assert (L : forall K, normalize K = K -> hask K (r_headers r') = false ->
              K <> H_Connection -> K <> H_Host -> K <> H_UserAgent -> K <> H_AcceptEncoding ->
              K <> H_Authorization -> (K = H_ContentLength -> True) -> (K <> H_ContentType \/ True) ->
              (K = H_ContentLength \/ K = H_ContentType \/ (K <> H_ContentLength /\ K <> H_ContentType)) ->
              no_header K (w_headers w)).
  { intros K HK Hl N1 N2 N3 N4 N5 _ _ Hc. apply lacks_no_header; auto.
    destruct (hask K (w_headers w)) eqn:E; [|reflexivity]. exfalso.
    destruct (Hk K E) as [X|[X|[X|[X|[X|[[X _]|[[X Y]|[X Y]]]]]]]]; try congruence.
    rewrite M in Y. exact (T_GET_not_POST Y). }
  split; [|split; [|split]]; apply L; auto; try discriminate; try reflexivity; try tauto;
    try (right; right; split; discriminate).
Qed.

(* ---------- cross-origin stripping ---------- *)
Definition different_origin (uo un : usplit) : Prop :=
  u_scheme uo <> u_scheme un \/ u_netloc uo <> u_netloc un.

Lemma cross_origin_iff : forall uo un, cross_origin uo un = true <-> different_origin uo un.
Proof.
  intros uo un. unfold cross_origin, different_origin. rewrite orb_true_iff, !negb_true_iff, !text_eqb_neq. tauto.
Qed.

(* the request finish() builds for a Location whose scheme or netloc differs from the ORIGINAL
   request's: no Authorization, no Cookie (however many values, however spelled), no
   auth_username/auth_password, and the URL is rebuilt around a netloc without userinfo *)
Theorem redirect_cross_origin_strips : forall orig r h code joined r' uo un,
  redirect_request orig r h code joined = FRedirect r' ->
  urlsplit orig = UOk uo -> urlsplit joined = UOk un ->
  different_origin uo un ->
  no_header H_Authorization (r_headers r') /\ no_header H_Cookie (r_headers r') /\
  r_auth_user r' = None /\ r_auth_pass r' = None /\
  exists nl, has_at nl = false /\
             r_url r' = urlunsplit (mkU (u_scheme un) nl (u_path un) (u_query un) (u_frag un)).
Proof.
  intros orig r h code joined r' uo un H Ho En Hd. apply redirect_inv in H.
  destruct H as [h1 [h2 [h3 [h4 [uo' [un' F]]]]]].
  pose proof (rf_orig _ _ _ _ _ _ _ _ _ _ _ _ F) as Eo'. pose proof (rf_new _ _ _ _ _ _ _ _ _ _ _ _ F) as En'.
  rewrite Ho in Eo'. rewrite En in En'. inversion Eo'; inversion En'; subst uo' un'. clear Eo' En'.
  apply cross_origin_iff in Hd.
  pose proof (new_headers_norm _ _ _ _ _ _ _ _ _ _ _ _ F) as Hn.
  destruct (cross_lacks_cookie_auth _ _ _ _ _ _ _ _ _ _ _ _ F Hd) as [Hc Ha].
  destruct (rf_cross _ _ _ _ _ _ _ _ _ _ _ _ F) as [[_ [_ [Hu [Hp Hurl]]]]|[Hx _]]; [|congruence].
  split; [apply lacks_no_header; auto|]. split; [apply lacks_no_header; auto|].
  split; [exact Hu|]. split; [exact Hp|].
  destruct Hurl as [[Hat [nl [Hs Hurl]]]|[Hat Hurl]].
  - exists nl. split; [eapply stripped_netloc_lacks_at; exact Hs|exact Hurl].
  - exists (u_netloc un). split; [exact Hat|]. rewrite Hurl. destruct un; reflexivity.
Qed.

(* the same, phrased on the URL the new request actually carries: if THAT url has a different
   scheme or netloc than the original one, everything was stripped (a same-origin Location is
   passed through unchanged, so it cannot re-split as cross-origin) *)
Theorem redirect_strips_by_new_url : forall orig r h code joined r' uo u',
  redirect_request orig r h code joined = FRedirect r' ->
  urlsplit orig = UOk uo -> urlsplit (r_url r') = UOk u' ->
  different_origin uo u' ->
  no_header H_Authorization (r_headers r') /\ no_header H_Cookie (r_headers r') /\
  r_auth_user r' = None /\ r_auth_pass r' = None.
Proof.
  intros orig r h code joined r' uo u' H Ho Eu Hd. pose proof H as H0. apply redirect_inv in H.
  destruct H as [h1 [h2 [h3 [h4 [uo' [un F]]]]]].
  pose proof (rf_orig _ _ _ _ _ _ _ _ _ _ _ _ F) as Eo'. rewrite Ho in Eo'. inversion Eo'; subst uo'. clear Eo'.
  destruct (cross_origin uo un) eqn:Ex.
  - apply cross_origin_iff in Ex.
    destruct (redirect_cross_origin_strips _ _ _ _ _ _ _ _ H0 Ho (rf_new _ _ _ _ _ _ _ _ _ _ _ _ F) Ex)
      as [A [B [C [D _]]]]. auto.
  - exfalso. destruct (rf_cross _ _ _ _ _ _ _ _ _ _ _ _ F) as [[Hx _]|[_ [_ [Hurl _]]]]; [congruence|].
    rewrite Hurl, (rf_new _ _ _ _ _ _ _ _ _ _ _ _ F) in Eu. inversion Eu; subst u'.
    apply cross_origin_iff in Hd. congruence.
Qed.

(* ---------- on the wire ---------- *)
Lemma const_neq : H_Cookie <> H_Connection /\ H_Cookie <> H_Host /\ H_Cookie <> H_UserAgent /\
                  H_Cookie <> H_AcceptEncoding /\ H_Cookie <> H_Authorization /\
                  H_Cookie <> H_ContentLength /\ H_Cookie <> H_ContentType.
Proof. repeat split; discriminate. Qed.

(* a request without a Cookie key (normalised keys) is sent without any Cookie line; an
   Authorization line is sent only if the request had one or run() derived one from credentials *)
Lemma prepare_wire_strip : forall ver r w,
  prepare ver r = Sent w -> keys_norm (r_headers r) ->
  (hask H_Cookie (r_headers r) = false -> no_header H_Cookie (w_headers w)) /\
  (hask H_Authorization (r_headers r) = false -> r_auth_user r = None ->
   no_header H_Authorization (w_headers w) \/
   exists u us pw, urlsplit (r_url r) = UOk u /\ userinfo (u_netloc u) = Some (us, Some pw)).
Proof.
  intros ver r w Hp Hn. destruct (prepare_inv_headers ver r w Hp Hn) as [Hnw Hk]. split.
  - intro Hc. apply lacks_no_header; auto. destruct (hask H_Cookie (w_headers w)) eqn:E; [|reflexivity].
    exfalso. destruct const_neq as [N1 [N2 [N3 [N4 [N5 [N6 N7]]]]]].
    destruct (Hk _ E) as [X|[X|[X|[X|[X|[[X _]|[[X _]|[X _]]]]]]]]; congruence.
  - intros Ha Hu. destruct (hask H_Authorization (w_headers w)) eqn:E.
    + right. destruct (Hk _ E) as [X|[X|[X|[X|[X|[[_ [u [Eu [us [pw Ec]]]]]|[[X _]|[X _]]]]]]]];
        try congruence; try discriminate.
      exists u. unfold credentials in Ec. rewrite Hu in Ec.
      destruct (userinfo (u_netloc u)) as [[us' [pw'|]]|]; try discriminate.
      exists us', pw'. split; [exact Eu|reflexivity].
    + left. apply lacks_no_header; auto.
Qed.

(* cross-origin follow-up on the wire: never a Cookie line; an Authorization line only when the
   follow-up URL itself carries userinfo (then it is "Basic" of THAT userinfo, computed by run();
   the inherited header and auth_username/auth_password are gone) *)
Theorem redirect_cross_origin_wire : forall orig r h code joined r' uo u' ver w,
  redirect_request orig r h code joined = FRedirect r' ->
  urlsplit orig = UOk uo -> urlsplit (r_url r') = UOk u' -> different_origin uo u' ->
  prepare ver r' = Sent w ->
  no_header H_Cookie (w_headers w) /\
  (no_header H_Authorization (w_headers w) \/ exists us pw, userinfo (u_netloc u') = Some (us, Some pw)).
Proof.
  intros orig r h code joined r' uo u' ver w H Ho Eu Hd Hp.
  destruct (redirect_strips_by_new_url _ _ _ _ _ _ _ _ H Ho Eu Hd) as [[A _] [[B _] [C D]]].
  apply redirect_inv in H. destruct H as [h1 [h2 [h3 [h4 [uo' [un F]]]]]].
  pose proof (new_headers_norm _ _ _ _ _ _ _ _ _ _ _ _ F) as Hn.
  destruct (prepare_wire_strip ver r' w Hp Hn) as [P1 P2]. split.
  - apply P1. exact (proj1 (B H_Cookie norm_Cookie)).
  - destruct (P2 (proj1 (A H_Authorization norm_Authorization)) C) as [X|[u [us [pw [E1 E2]]]]]; [left; exact X|].
    right. rewrite Eu in E1. inversion E1; subst u. exists us, pw. exact E2.
Qed.

(* ---------- whole chains: every request of every redirect chain ---------- *)
(* r is "clean with respect to the original origin": if its URL is cross-origin it carries no
   Cookie / Authorization header and no auth_username *)
Definition req_clean (uo : usplit) (r : req) : Prop :=
  keys_norm (r_headers r) /\
  forall u', urlsplit (r_url r) = UOk u' -> different_origin uo u' ->
             hask H_Cookie (r_headers r) = false /\ hask H_Authorization (r_headers r) = false /\
             r_auth_user r = None.

Definition sent_clean (uo : usplit) (x : sent) : Prop :=
  match sn_wire x, urlsplit (sn_url x) with
  | Some w, UOk u' =>
      different_origin uo u' ->
      no_header H_Cookie (w_headers w) /\
      (no_header H_Authorization (w_headers w) \/ exists us pw, userinfo (u_netloc u') = Some (us, Some pw))
  | _, _ => True
  end.

Lemma redirect_req_clean : forall orig uo r h code joined r',
  urlsplit orig = UOk uo ->
  redirect_request orig r h code joined = FRedirect r' -> req_clean uo r'.
Proof.
  intros orig uo r h code joined r' Ho H. split.
  - pose proof H as H0. apply redirect_inv in H0. destruct H0 as [h1 [h2 [h3 [h4 [uo' [un F]]]]]].
    exact (new_headers_norm _ _ _ _ _ _ _ _ _ _ _ _ F).
  - intros u' Eu Hd. destruct (redirect_strips_by_new_url _ _ _ _ _ _ _ _ H Ho Eu Hd) as [[A _] [[B _] [C D]]].
    split; [exact (proj1 (B H_Cookie norm_Cookie))|]. split; [exact (proj1 (A H_Authorization norm_Authorization))|exact C].
Qed.

Theorem chain_all_clean : forall ver orig uo script r,
  urlsplit orig = UOk uo -> req_clean uo r ->
  Forall (sent_clean uo) (fst (chain ver orig r script)).
Proof.
  intros ver orig uo script. induction script as [|hp script IH]; intros r Ho [Hn Hc]; simpl.
  - destruct (prepare ver r) as [[]| ? ? ? []|w] eqn:Ep; simpl; repeat constructor.
    unfold sent_clean. simpl. destruct (urlsplit (r_url r)) as [u'|] eqn:Eu; [|exact I].
    intro Hd. destruct (Hc u' eq_refl Hd) as [C1 [C2 C3]].
    destruct (prepare_wire_strip ver r w Ep Hn) as [P1 P2]. split; [auto|].
    destruct (P2 C2 C3) as [X|[u [us [pw [E1 E2]]]]]; [left; exact X|]. right.
    rewrite Eu in E1. inversion E1; subst. eauto.
  - destruct (prepare ver r) as [[]| ? ? ? []|w] eqn:Ep; simpl; repeat constructor.
    assert (Me : sent_clean uo (mkSentRec (r_url r) (Some w) (w_host w) (w_port w) (w_tls w))).
    { unfold sent_clean. simpl. destruct (urlsplit (r_url r)) as [u'|] eqn:Eu; [|exact I].
      intro Hd. destruct (Hc u' eq_refl Hd) as [C1 [C2 C3]].
      destruct (prepare_wire_strip ver r w Ep Hn) as [P1 P2]. split; [auto|].
      destruct (P2 C2 C3) as [X|[u [us [pw [E1 E2]]]]]; [left; exact X|]. right.
      rewrite Eu in E1. inversion E1; subst. eauto. }
    destruct (should_follow r (hp_code hp) (hp_loc hp)); [|simpl; repeat constructor; exact Me].
    destruct (redirect_request orig r (w_headers w) (hp_code hp) (hp_joined hp)) as [r'| | | |] eqn:Er;
      try (simpl; repeat constructor; exact Me).
    pose proof (IH r' Ho (redirect_req_clean _ _ _ _ _ _ _ Ho Er)) as IHr.
    destruct (chain ver orig r' script) as [l f]. simpl in *. constructor; [exact Me|exact IHr].
Qed.

(* the original request is clean by definition (its URL is the original URL) *)
Lemma original_req_clean : forall uo r, urlsplit (r_url r) = UOk uo -> keys_norm (r_headers r) -> req_clean uo r.
Proof.
  intros uo r Eu Hn. split; [exact Hn|]. intros u' Eu' Hd. rewrite Eu in Eu'. inversion Eu'; subst u'.
  destruct Hd as [Hd|Hd]; congruence.
Qed.
