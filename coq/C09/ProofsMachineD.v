(* C09 — machine-level proofs, part D: per-attempt flags and timers (T6, T9), no bug (T5),
   idle => complete, and local progress (T10). *)
From Coq Require Import List NArith ZArith Bool Arith Lia Sorting.Sorted.
Import ListNotations.
From TV Require Import C09.Model C09.ProofsMachineA C09.ProofsMachineB C09.ProofsMachineC.

Local Opaque deliver.

(* ---------------- the per-attempt invariant ---------------- *)
Definition flags_ok (x : att) : Prop :=
  match a_st x with
  | AConn cb rel t ph =>
      (cb = true -> rel = true) /\ (ph = POpen -> cb = true) /\ (t <> None -> cb = true)
  | _ => True
  end.
Definition timers_ok (x : att) : Prop :=
  match a_st x with
  | AQueued t => t = (sp_ct (a_spec x) || sp_rt (a_spec x))
  | AConn true rel t PConnecting => t = tmr (a_spec x)
  | AConn true rel t POpen => t = (if sp_rt (a_spec x) then Some TRequest else None)
  | _ => True
  end.
Definition att_ok (x : att) : Prop := flags_ok x /\ timers_ok x.

Definition G2 (s : st) : Prop := forall b x, nth_error (s_atts s) b = Some x -> att_ok x.
(* ... except attempt a *)
Definition G2x (a : nat) (s : st) : Prop :=
  forall b x, b <> a -> nth_error (s_atts s) b = Some x -> att_ok x.

Lemma G2_G2x a s : G2 s -> G2x a s.
Proof. intros H b x _ Hn. eapply H. exact Hn. Qed.

Lemma att_ok_started x : att_ok (started x).
Proof.
  unfold att_ok, flags_ok, timers_ok, started, with_st. simpl.
  repeat split; auto; intro H; discriminate H.
Qed.

Lemma att_ok_ev1 x o' x' : att_ok x -> ev1 (Some x) o' -> o' = Some x' -> att_ok x'.
Proof.
  intros Hok [->|(z & E & _ & ->)] E'.
  - injection E' as <-. exact Hok.
  - injection E' as <-. apply att_ok_started.
Qed.

Lemma ev1_Some_inv o x' : ev1 o (Some x') -> exists x, o = Some x.
Proof.
  intros [E|(z & E & _)]; [exists x'; symmetry; exact E|exists z; exact E].
Qed.

Lemma att_ok_dead x ph : att_ok (with_st x (AConn false false None (closed ph))).
Proof.
  unfold att_ok, flags_ok, timers_ok, with_st. simpl. split; [|exact I].
  split; [intro H; discriminate H|]. split.
  - destruct ph; simpl; intro H; discriminate H.
  - intro H. exfalso. apply H. reflexivity.
Qed.

Lemma G2x_fr a s s' y : G2x a s -> fr a s s' y -> G2x a s'.
Proof.
  intros HG (_ & Hev & _) b x' Hb Hn'. specialize (Hev b Hb). rewrite Hn' in Hev.
  destruct (ev1_Some_inv _ _ Hev) as [x Hx]. rewrite Hx in Hev.
  eapply att_ok_ev1; [eapply HG; eauto|exact Hev|reflexivity].
Qed.

Lemma G2x_G2 a s : G2x a s -> (forall x, nth_error (s_atts s) a = Some x -> att_ok x) -> G2 s.
Proof.
  intros HG Ha b x Hn. destruct (Nat.eq_dec b a) as [->|Hne]; [apply Ha; exact Hn|].
  eapply HG; eauto.
Qed.

Lemma G2_fr a s s' y :
  G2 s -> fr a s s' y -> (forall x, nth_error (s_atts s) a = Some x -> att_ok (with_st x y)) -> G2 s'.
Proof.
  intros HG Hfr Hy. apply (G2x_G2 a).
  - eapply G2x_fr; [apply G2_G2x; exact HG|exact Hfr].
  - intros x' Hn'. destruct Hfr as (_ & _ & x & Hx & Hx'). rewrite Hx' in Hn'. injection Hn' as <-.
    apply Hy. exact Hx.
Qed.

Lemma G2_same_atts s s' : G2 s -> s_atts s' = s_atts s -> G2 s'.
Proof. intros HG E b x Hn. rewrite E in Hn. eapply HG. exact Hn. Qed.

(* ---------------- handle_exception after a set_st ---------------- *)
Lemma he_after_set a o s s' l x cb rel t ph :
  nth_error (s_atts s) a = Some x ->
  handle_exception a o (set_st a (AConn cb rel t ph) s) = (s', l) ->
  (cb = true /\ fr a s s' (AConn false false None (closed ph)) /\ In (deliver (a_hop x) (a_owner x) o) l)
  \/ (cb = false /\ s' = set_st a (AConn cb rel t ph) s /\ l = []).
Proof.
  intros Hn H.
  assert (F1 : fr a s (set_st a (AConn cb rel t ph) s) (AConn cb rel t ph)) by (eapply fr_set_st; exact Hn).
  assert (N1 := fr_nth _ _ _ _ _ F1 Hn).
  destruct cb.
  - left. split; [reflexivity|].
    destruct (handle_exception_fr _ _ _ _ _ _ _ _ _ N1 eq_refl H) as [F2 D2].
    split; [eapply fr_trans; eauto|exact D2].
  - right. rewrite handle_exception_noop in H.
    + injection H as <- <-. auto.
    + intros rel0 t0 ph0 E. rewrite (nth_get_st' _ _ _ N1) in E. discriminate E.
Qed.

Lemma G2_he a o s s' l x cb rel t ph :
  G2 s -> nth_error (s_atts s) a = Some x ->
  (cb = false -> att_ok (with_st x (AConn false rel t ph))) ->
  handle_exception a o (set_st a (AConn cb rel t ph) s) = (s', l) -> G2 s'.
Proof.
  intros HG Hn Hc H. destruct (he_after_set _ _ _ _ _ _ _ _ _ _ Hn H) as [(-> & F & _)|(-> & -> & _)].
  - eapply G2_fr; [exact HG|exact F|]. intros x0 _. apply att_ok_dead.
  - eapply G2_fr; [exact HG|eapply fr_set_st; exact Hn|].
    intros x0 Hx0. rewrite Hn in Hx0. injection Hx0 as <-. apply Hc. reflexivity.
Qed.

(* ---------------- fetch_impl ---------------- *)
Lemma fetch_impl_starts_now owner hop sp s s' l :
  s_queue s = [] -> length (s_active s) < s_max s ->
  fetch_impl owner hop sp s = (s', l) ->
  nth_error (s_atts s') (length (s_atts s)) = Some (mkAtt owner hop sp (AConn true true (tmr sp) PConnecting)).
Proof.
  intros Hq Hlt H. unfold fetch_impl, run_queue in H. cbn [s_queue] in H. rewrite Hq in H.
  cbn [app process_queue s_active s_max s_atts] in H.
  apply Nat.ltb_lt in Hlt. rewrite Hlt in H.
  rewrite nth_error_app2, Nat.sub_diag in H by lia. cbn [nth_error] in H.
  injection H as <- _. cbn [s_atts set_queue].
  rewrite start_conn_nth, Nat.eqb_refl. cbn [s_atts].
  rewrite nth_error_app2, Nat.sub_diag by lia. reflexivity.
Qed.

Definition full (s : st) : Prop := s_queue s <> [] -> length (s_active s) = s_max s.

Lemma fetch_impl_new_ok owner hop sp s s' l :
  full s -> fetch_impl owner hop sp s = (s', l) ->
  exists y, nth_error (s_atts s') (length (s_atts s)) = Some (mkAtt owner hop sp y) /\
            att_ok (mkAtt owner hop sp y) /\ holds_st y = true.
Proof.
  intros HF H. destruct (s_max s <=? length (s_active s)) eqn:Em.
  - destruct (fetch_impl_frame _ _ _ _ _ _ H) as (_ & _ & _ & _ & _ & y & Hy & [->| ->]).
    + eexists. split; [exact Hy|]. rewrite Em. split; [|reflexivity].
      unfold att_ok, flags_ok, timers_ok. simpl. auto.
    + eexists. split; [exact Hy|]. split; [|reflexivity].
      apply (att_ok_started (mkAtt owner hop sp (AQueued true))).
  - apply Nat.leb_gt in Em.
    assert (Hq : s_queue s = []).
    { destruct (s_queue s) as [|z q] eqn:Eq; [reflexivity|]. exfalso.
      assert (length (s_active s) = s_max s) by (apply HF; rewrite Eq; discriminate). lia. }
    eexists. split; [eapply fetch_impl_starts_now; eauto|]. split; [|reflexivity].
    apply (att_ok_started (mkAtt owner hop sp (AQueued true))).
Qed.

Lemma fetch_impl_G2x a owner hop sp s s' l :
  full s -> a <> length (s_atts s) -> G2x a s -> fetch_impl owner hop sp s = (s', l) -> G2x a s'.
Proof.
  intros HF Ha HG H b x' Hb Hn'.
  destruct (fetch_impl_new_ok _ _ _ _ _ _ HF H) as (y & Hy & Hok & _).
  destruct (fetch_impl_frame _ _ _ _ _ _ H) as (_ & _ & _ & HL & Hev & _).
  assert (Hlt : b < length (s_atts s')) by (apply nth_error_Some; congruence).
  rewrite HL in Hlt.
  destruct (Nat.eq_dec b (length (s_atts s))) as [->|Hne].
  - rewrite Hy in Hn'. injection Hn' as <-. exact Hok.
  - assert (Hlt' : b < length (s_atts s)) by lia. specialize (Hev b Hlt'). rewrite Hn' in Hev.
    destruct (ev1_Some_inv _ _ Hev) as [x Hx]. rewrite Hx in Hev.
    eapply att_ok_ev1; [eapply HG; eauto|exact Hev|reflexivity].
Qed.

Lemma fetch_impl_G2 owner hop sp s s' l :
  full s -> G2 s -> fetch_impl owner hop sp s = (s', l) -> G2 s'.
Proof.
  intros HF HG H. apply (G2x_G2 (S (length (s_atts s')))).
  - destruct (fetch_impl_frame _ _ _ _ _ _ H) as (_ & _ & _ & HL & _).
    eapply fetch_impl_G2x; [exact HF| |apply G2_G2x; exact HG|exact H]. lia.
  - intros x Hn. assert (Hlt : S (length (s_atts s')) < length (s_atts s')) by (apply nth_error_Some; congruence).
    lia.
Qed.

Lemma close_stream_nth_other a s b :
  b <> a -> nth_error (s_atts (close_stream a s)) b = nth_error (s_atts s) b.
Proof.
  intro Hb. unfold close_stream. destruct (get_st a s) as [[tm|cb rel t [| |]|]|]; try reflexivity.
  apply set_st_nth_other. auto.
Qed.

(* ---------------- finish, redirect branch ---------------- *)
Lemma finish_follow_spec a code hasloc s s' l f hop sp rel t ph L :
  G1 s L ->
  nth_error (s_atts s) a = Some (mkAtt f hop sp (AConn true rel t ph)) ->
  should_follow sp code hasloc = true ->
  finish a code hasloc s = (s', l) ->
  quiet l /\
  (forall b, b <> a -> b < length (s_atts s) -> ev1 (nth_error (s_atts s) b) (nth_error (s_atts s') b)) /\
  length (s_atts s') = S (length (s_atts s)) /\
  nth_error (s_atts s') a = Some (mkAtt f hop sp (AConn false false None (closed ph))) /\
  exists y, nth_error (s_atts s') (length (s_atts s)) = Some (mkAtt f true (redirected_spec sp) y) /\
            att_ok (mkAtt f true (redirected_spec sp) y) /\ holds_st y = true.
Proof.
  intros HG1 Hn Hf H. rewrite (finish_follow _ _ _ _ _ _ _ _ _ _ Hn Hf) in H.
  set (s0 := set_st a (AConn true rel None ph) s) in *.
  set (s1 := set_st a (AConn false rel None ph) s0) in *.
  destruct (release a s1) as [s2 l2] eqn:R.
  destruct (fetch_impl f true (redirected_spec sp) s2) as [s3 l3] eqn:Fi.
  injection H as <- <-.
  assert (G := nth_get_st _ _ _ _ _ _ Hn).
  assert (F0 : fr a s s0 (AConn true rel None ph)) by (eapply fr_set_st; exact Hn).
  assert (N0 := fr_nth _ _ _ _ _ F0 Hn).
  assert (F1 : fr a s s1 (AConn false rel None ph))
    by (eapply fr_trans; [exact F0|eapply fr_set_st; exact N0]).
  assert (N1 := fr_nth _ _ _ _ _ F1 Hn).
  destruct (release_fr _ _ _ _ _ _ _ _ _ N1 eq_refl R) as [F2' Q2].
  assert (F2 : fr a s s2 (AConn false false None ph)) by (eapply fr_trans; eauto).
  assert (N2 := fr_nth _ _ _ _ _ F2 Hn).
  assert (HG0 : G1 s0 L) by (unfold s0; g1_same G).
  assert (HGs1 : G1 s1 L).
  { unfold s1. apply G1_set_same; [exact HG0|]. intros y0 E.
    rewrite (nth_get_st' _ _ _ N0) in E. injection E as <-. reflexivity. }
  destruct (release_G1 _ _ _ _ _ HGs1 R) as [[_ HF2] _].
  destruct F2 as ((_ & _ & HL2) & Hev2 & _).
  assert (Ha : a < length (s_atts s)) by (apply nth_error_Some; congruence).
  destruct (fetch_impl_new_ok _ _ _ _ _ _ HF2 Fi) as (y & Hy & Hok & Hh).
  destruct (fetch_impl_frame _ _ _ _ _ _ Fi) as (So3 & _ & _ & HL3 & Hev3 & _).
  rewrite HL2 in *.
  split; [apply quiet_app; [exact Q2|apply starts_only_quiet; exact So3]|].
  split; [|split; [|split]].
  - intros b Hb Hlt. rewrite close_stream_nth_other by exact Hb.
    eapply ev1_trans; [apply Hev2; exact Hb|apply Hev3; exact Hlt].
  - assert (E : length (s_atts (close_stream a s3)) = length (s_atts s3)).
    { unfold close_stream. destruct (get_st a s3) as [[tm|cb0 rel0 t0 [| |]|]|]; try reflexivity.
      apply set_st_length. }
    rewrite E. exact HL3.
  - assert (N3 : nth_error (s_atts s3) a = Some (with_st (mkAtt f hop sp (AConn true rel t ph)) (AConn false false None ph))).
    { specialize (Hev3 a Ha). rewrite N2 in Hev3. apply ev1_not_queued in Hev3; [exact Hev3|reflexivity]. }
    assert (F3 := close_stream_fr a s3 _ false false None ph N3 eq_refl).
    apply (fr_nth _ _ _ _ _ F3 N3).
  - exists y. split; [|split; assumption].
    rewrite close_stream_nth_other by lia. exact Hy.
Qed.

(* ---------------- step preserves G2 (given G1) ---------------- *)
Ltac aok :=
  unfold att_ok, flags_ok, timers_ok, with_st in *; simpl in *;
  intuition (try discriminate; try congruence).

Lemma G2_step e s L s' l : G1 s L -> G2 s -> step e s = (s', l) -> G2 s'.
Proof.
  intros HG1 HG H. destruct e as [sp|a|a|a|a|a code hasloc|a|a|a|a]; simpl in H.
  - (* EFetch *)
    eapply fetch_impl_G2; [| |exact H].
    + exact (proj2 HG1).
    + exact HG.
  - (* EQTimeout *)
    destruct (nth_error (s_atts s) a) as [x|] eqn:En.
    + rewrite (nth_get_st' _ _ _ En), (nth_owner_of' _ _ _ En) in H.
      destruct (a_st x) as [[|]|cb rel t ph|] eqn:Ex; try (injection H as <- <-; exact HG).
      destruct (mem a (s_queue s)); injection H as <- <-; [|exact HG].
      eapply (G2_fr a (set_queue (remove1 a (s_queue s)) s)); [exact HG|eapply fr_set_st; exact En|].
      intros x0 _. unfold att_ok, flags_ok, timers_ok. simpl. auto.
    + unfold get_st in H. rewrite En in H. injection H as <- <-. exact HG.
  - (* ECTimeout *)
    destruct (nth_error (s_atts s) a) as [[f hop sp y]|] eqn:En.
    + rewrite (nth_get_st _ _ _ _ _ _ En) in H.
      destruct y as [tm|cb rel [k|] ph|]; try (injection H as <- <-; exact HG).
      cbv zeta in H. assert (Hok := HG _ _ En). destruct cb.
      * eapply G2_he; [exact HG|exact En| |exact H]. intro E. discriminate E.
      * injection H as <- <-. eapply G2_fr; [exact HG|eapply fr_set_st; exact En|].
        intros x0 Hx0. rewrite En in Hx0. injection Hx0 as <-. clear - Hok. aok.
    + unfold get_st in H. rewrite En in H. injection H as <- <-. exact HG.
  - (* EConnOk *)
    destruct (nth_error (s_atts s) a) as [[f hop sp [tm|cb rel t [| |]|]]|] eqn:En;
      try (injection H as <- <-; exact HG).
    assert (Hok := HG _ _ En). destruct cb.
    + cbv zeta in H. destruct (sp_bad sp).
      * eapply G2_he; [exact HG|exact En| |exact H]. intro E. discriminate E.
      * injection H as <- <-. eapply G2_fr; [exact HG|eapply fr_set_st; exact En|].
        intros x0 Hx0. rewrite En in Hx0. injection Hx0 as <-. clear - Hok. aok.
    + injection H as <- <-. eapply G2_fr; [exact HG|eapply fr_set_st; exact En|].
      intros x0 Hx0. rewrite En in Hx0. injection Hx0 as <-. clear - Hok. aok.
  - (* EConnFail *)
    destruct (nth_error (s_atts s) a) as [[f hop sp y]|] eqn:En.
    + rewrite (nth_get_st _ _ _ _ _ _ En) in H.
      destruct y as [tm|cb rel t [| |]|]; try (injection H as <- <-; exact HG).
      assert (Hok := HG _ _ En).
      eapply G2_he; [exact HG|exact En| |exact H]. intros ->. clear - Hok. aok.
    + unfold get_st in H. rewrite En in H. injection H as <- <-. exact HG.
  - (* ERespond *)
    destruct (nth_error (s_atts s) a) as [[f hop sp y]|] eqn:En.
    + rewrite (nth_get_st _ _ _ _ _ _ En) in H.
      destruct y as [tm|cb rel t [| |]|]; try (injection H as <- <-; exact HG).
      assert (Hok := HG _ _ En).
      assert (Hcb : cb = true) by (clear - Hok; aok). subst cb.
      destruct (should_follow sp code hasloc) eqn:Ef.
      * destruct (finish_follow_spec _ _ _ _ _ _ _ _ _ _ _ _ L HG1 En Ef H)
          as (_ & Hev & HL & Na & y & Hy & Hoky & _).
        intros b x' Hn'.
        assert (Hlt : b < length (s_atts s')) by (apply nth_error_Some; congruence).
        rewrite HL in Hlt.
        destruct (Nat.eq_dec b a) as [->|Hne].
        { rewrite Na in Hn'. injection Hn' as <-.
          apply (att_ok_dead (mkAtt f hop sp (AConn true rel t POpen)) POpen). }
        destruct (Nat.eq_dec b (length (s_atts s))) as [->|Hne2].
        { rewrite Hy in Hn'. injection Hn' as <-. exact Hoky. }
        assert (Hlt' : b < length (s_atts s)) by lia.
        specialize (Hev b Hne Hlt'). rewrite Hn' in Hev.
        destruct (ev1_Some_inv _ _ Hev) as [x Hx]. rewrite Hx in Hev.
        eapply att_ok_ev1; [eapply HG; eauto|exact Hev|reflexivity].
      * destruct (finish_plain_fr _ _ _ _ _ _ _ _ _ _ _ _ _ En Ef H) as [F _].
        eapply G2_fr; [exact HG|exact F|]. intros x0 _. apply att_ok_dead.
    + unfold get_st in H. rewrite En in H. injection H as <- <-. exact HG.
  - (* EClose *)
    destruct (nth_error (s_atts s) a) as [[f hop sp y]|] eqn:En.
    + rewrite (nth_get_st _ _ _ _ _ _ En) in H.
      destruct y as [tm|cb rel t [| |]|]; try (injection H as <- <-; exact HG).
      assert (Hok := HG _ _ En).
      eapply G2_he; [exact HG|exact En| |exact H]. intros ->. clear - Hok. aok.
    + unfold get_st in H. rewrite En in H. injection H as <- <-. exact HG.
  - (* EReset *)
    destruct (nth_error (s_atts s) a) as [[f hop sp y]|] eqn:En.
    + rewrite (nth_get_st _ _ _ _ _ _ En) in H.
      destruct y as [tm|cb rel t [| |]|]; try (injection H as <- <-; exact HG).
      assert (Hok := HG _ _ En).
      eapply G2_he; [exact HG|exact En| |exact H]. intros ->. clear - Hok. aok.
    + unfold get_st in H. rewrite En in H. injection H as <- <-. exact HG.
  - (* EMalformed *)
    destruct (nth_error (s_atts s) a) as [[f hop sp y]|] eqn:En.
    + rewrite (nth_get_st _ _ _ _ _ _ En) in H.
      destruct y as [tm|cb rel t [| |]|]; try (injection H as <- <-; exact HG).
      assert (Hok := HG _ _ En).
      eapply G2_he; [exact HG|exact En| |exact H]. intros ->. clear - Hok. aok.
    + unfold get_st in H. rewrite En in H. injection H as <- <-. exact HG.
  - (* EBadFraming *)
    destruct (nth_error (s_atts s) a) as [[f hop sp y]|] eqn:En.
    + rewrite (nth_get_st _ _ _ _ _ _ En) in H.
      destruct y as [tm|cb rel t [| |]|]; try (injection H as <- <-; exact HG).
      assert (Hok := HG _ _ En).
      eapply G2_he; [exact HG|exact En| |exact H]. intros ->. clear - Hok. aok.
    + unfold get_st in H. rewrite En in H. injection H as <- <-. exact HG.
Qed.

(* ---------------- the combined invariant ---------------- *)
Definition MInv (s : st) (L : list logev) : Prop := G1 s L /\ G2 s /\ nobug L.

Lemma G2_no_open_nocb s : G2 s -> forall a rel t, get_st a s <> Some (AConn false rel t POpen).
Proof.
  intros HG a rel t E. apply get_st_nth in E. destruct E as (f & hop & sp & En).
  assert (Hok := HG _ _ En). clear - Hok. aok.
Qed.

Lemma MInv_init m : MInv (init m) [].
Proof.
  split; [apply G1_init|]. split; [|apply nobug_nil].
  intros b x Hn. destruct b; discriminate Hn.
Qed.

Lemma MInv_step e s L s' l : MInv s L -> step e s = (s', l) -> MInv s' (L ++ l).
Proof.
  intros (H1 & H2 & H3) H. destruct (step_G1 _ _ _ _ _ H1 H) as [K1 K2].
  split; [exact K1|]. split; [exact (G2_step _ _ _ _ _ H1 H2 H)|].
  apply nobug_app; [exact H3|]. exact (K2 (G2_no_open_nocb s H2)).
Qed.

Lemma MInv_exec m es s L : exec es (init m) = (s, L) -> MInv s L.
Proof. apply (exec_invariant_init MInv m (MInv_init m) MInv_step). Qed.

(* T5 *)
Theorem machine_no_bug : forall m es s L, exec es (init m) = (s, L) -> forall b, ~ In (LBug b) L.
Proof. intros m es s L H. destruct (MInv_exec _ _ _ _ H) as (_ & _ & H3). exact H3. Qed.

(* T6 *)
Theorem machine_flags : forall m es s L, exec es (init m) = (s, L) ->
  forall a cb rel t ph, get_st a s = Some (AConn cb rel t ph) ->
  (cb = true -> rel = true) /\ (ph = POpen -> cb = true) /\ (t <> None -> cb = true).
Proof.
  intros m es s L H a cb rel t ph E. destruct (MInv_exec _ _ _ _ H) as (_ & H2 & _).
  apply get_st_nth in E. destruct E as (f & hop & sp & En).
  destruct (H2 _ _ En) as [Hf _]. exact Hf.
Qed.

(* T9 *)
Theorem machine_timers_armed : forall m es s L, exec es (init m) = (s, L) ->
  forall a f hop sp x, nth_error (s_atts s) a = Some (mkAtt f hop sp x) ->
  (forall t, x = AQueued t -> t = (sp_ct sp || sp_rt sp)) /\
  (forall rel t, x = AConn true rel t PConnecting ->
     t = (if sp_ct sp || sp_rt sp then Some TConnecting else None)) /\
  (forall rel t, x = AConn true rel t POpen -> t = (if sp_rt sp then Some TRequest else None)).
Proof.
  intros m es s L H a f hop sp x En. destruct (MInv_exec _ _ _ _ H) as (_ & H2 & _).
  destruct (H2 _ _ En) as [_ Ht]. unfold timers_ok in Ht. simpl in Ht.
  split; [|split].
  - intros t ->. exact Ht.
  - intros rel t ->. exact Ht.
  - intros rel t ->. exact Ht.
Qed.

(* ---------------- idle => complete ---------------- *)
Lemma filter_none {A} (p : A -> bool) l : (forall x, In x l -> p x = false) -> length (filter p l) = 0.
Proof.
  induction l as [|x l IH]; intro H; [reflexivity|]. simpl.
  rewrite (H x (or_introl eq_refl)). apply IH. intros y Hy. apply H. right. exact Hy.
Qed.

Lemma idle_no_holders s L f :
  G1 s L -> G2 s -> s_active s = [] -> s_queue s = [] -> holders f s = 0.
Proof.
  intros [(_ & _ & I3 & I4 & _) _] HG Ha Hq. unfold holders. apply filter_none.
  intros x Hin. apply In_nth_error in Hin. destruct Hin as [b Hb].
  destruct x as [g hop sp y]. assert (Hok := HG _ _ Hb).
  assert (Gb := nth_get_st _ _ _ _ _ _ Hb).
  unfold holds. simpl. destruct y as [tm|[|] rel t ph|]; try apply andb_false_r.
  - exfalso. assert (K : kd b s = Some 0) by (unfold kd; rewrite Gb; reflexivity).
    apply I4 in K. rewrite Hq in K. destruct K.
  - exfalso. assert (Hr : rel = true) by (clear - Hok; aok). subst rel.
    assert (K : kd b s = Some 1) by (unfold kd; rewrite Gb; reflexivity).
    apply I3 in K. rewrite Ha in K. destruct K.
Qed.

Theorem machine_idle_complete : forall m es s L, exec es (init m) = (s, L) ->
  s_active s = [] -> s_queue s = [] ->
  forall f, f < s_nfetch s -> count_lost f L = 0 -> count_done f L = 1.
Proof.
  intros m es s L H Ha Hq f Hf Hl. destruct (MInv_exec _ _ _ _ H) as (H1 & H2 & _).
  assert (K := machine_exactly_once m es s L H f).
  rewrite (idle_no_holders s L f H1 H2 Ha Hq), Hl in K.
  apply Nat.ltb_lt in Hf. rewrite Hf in K. lia.
Qed.

Theorem machine_idle_complete' : forall m es s L, exec es (init m) = (s, L) ->
  s_active s = [] -> s_queue s = [] ->
  forall f, f < s_nfetch s -> count_done f L = 1.
Proof.
  intros m es s L H Ha Hq f Hf. eapply machine_idle_complete; eauto.
  apply count_lost_zero. eapply machine_never_lost. exact H.
Qed.

(* ---------------- T10: local progress ---------------- *)
Lemma quiet_no_done l : quiet l -> forall g o, ~ In (LDone g o) l /\ ~ In (LLost g o) l.
Proof.
  intros Q g o. split; intro Hin; destruct (Q _ Hin) as [[a E]|[b E]]; discriminate E.
Qed.

Lemma progress_qtimeout s L a f hop sp :
  G1 s L -> nth_error (s_atts s) a = Some (mkAtt f hop sp (AQueued true)) ->
  exists s', step (EQTimeout a) s = (s', [deliver hop f OTimeoutQueue]).
Proof.
  intros [(_ & _ & _ & I4 & _) _] En. simpl.
  rewrite (nth_get_st _ _ _ _ _ _ En), (nth_owner_of _ _ _ _ _ _ En).
  assert (Hin : In a (s_queue s)).
  { apply I4. unfold kd. rewrite (nth_get_st _ _ _ _ _ _ En). reflexivity. }
  apply mem_In in Hin. rewrite Hin. eexists. reflexivity.
Qed.

Lemma progress_connfail s a f hop sp rel t :
  nth_error (s_atts s) a = Some (mkAtt f hop sp (AConn true rel t PConnecting)) ->
  exists s' l, step (EConnFail a) s = (s', l) /\ In (deliver hop f OConnRefused) l.
Proof.
  intro En. simpl. rewrite (nth_get_st _ _ _ _ _ _ En).
  destruct (handle_exception a OConnRefused (set_st a (AConn true rel t PFinished) s)) as [s' l] eqn:H.
  exists s', l. split; [reflexivity|].
  destruct (he_after_set _ _ _ _ _ _ _ _ _ _ En H) as [(_ & _ & D)|(E & _)]; [exact D|discriminate E].
Qed.

Lemma progress_ctimeout s a f hop sp rel k ph :
  nth_error (s_atts s) a = Some (mkAtt f hop sp (AConn true rel (Some k) ph)) ->
  exists s' l, step (ECTimeout a) s = (s', l) /\
    In (deliver hop f (match k with TConnecting => OTimeoutConnecting | TRequest => OTimeoutRequest end)) l.
Proof.
  intro En. simpl. rewrite (nth_get_st _ _ _ _ _ _ En). cbv zeta.
  destruct (handle_exception a (match k with TConnecting => OTimeoutConnecting | TRequest => OTimeoutRequest end)
              (set_st a (AConn true rel None ph) s)) as [s' l] eqn:H.
  exists s', l. split; [reflexivity|].
  destruct (he_after_set _ _ _ _ _ _ _ _ _ _ En H) as [(_ & _ & D)|(E & _)]; [exact D|discriminate E].
Qed.

Lemma progress_close s a f hop sp rel t :
  nth_error (s_atts s) a = Some (mkAtt f hop sp (AConn true rel t POpen)) ->
  exists s' l, step (EClose a) s = (s', l) /\ In (deliver hop f OClosedRead) l.
Proof.
  intro En. simpl. rewrite (nth_get_st _ _ _ _ _ _ En).
  destruct (handle_exception a OClosedRead (set_st a (AConn true rel t PFinished) s)) as [s' l] eqn:H.
  exists s', l. split; [reflexivity|].
  destruct (he_after_set _ _ _ _ _ _ _ _ _ _ En H) as [(_ & _ & D)|(E & _)]; [exact D|discriminate E].
Qed.

Lemma progress_reset s a f hop sp rel t :
  nth_error (s_atts s) a = Some (mkAtt f hop sp (AConn true rel t POpen)) ->
  exists s' l, step (EReset a) s = (s', l) /\ In (deliver hop f OConnReset) l.
Proof.
  intro En. simpl. rewrite (nth_get_st _ _ _ _ _ _ En).
  destruct (handle_exception a OConnReset (set_st a (AConn true rel t PFinished) s)) as [s' l] eqn:H.
  exists s', l. split; [reflexivity|].
  destruct (he_after_set _ _ _ _ _ _ _ _ _ _ En H) as [(_ & _ & D)|(E & _)]; [exact D|discriminate E].
Qed.

Lemma progress_malformed s a f hop sp rel t :
  nth_error (s_atts s) a = Some (mkAtt f hop sp (AConn true rel t POpen)) ->
  exists s' l, step (EMalformed a) s = (s', l) /\ In (deliver hop f OClosedMalformed) l.
Proof.
  intro En. simpl. rewrite (nth_get_st _ _ _ _ _ _ En).
  destruct (handle_exception a OClosedMalformed (set_st a (AConn true rel t PFinished) s)) as [s' l] eqn:H.
  exists s', l. split; [reflexivity|].
  destruct (he_after_set _ _ _ _ _ _ _ _ _ _ En H) as [(_ & _ & D)|(E & _)]; [exact D|discriminate E].
Qed.

Lemma progress_badframing s a f hop sp rel t :
  nth_error (s_atts s) a = Some (mkAtt f hop sp (AConn true rel t POpen)) ->
  exists s' l, step (EBadFraming a) s = (s', l) /\ In (deliver hop f OClosedCallback) l.
Proof.
  intro En. simpl. rewrite (nth_get_st _ _ _ _ _ _ En).
  destruct (handle_exception a OClosedCallback (set_st a (AConn true rel t PFinished) s)) as [s' l] eqn:H.
  exists s', l. split; [reflexivity|].
  destruct (he_after_set _ _ _ _ _ _ _ _ _ _ En H) as [(_ & _ & D)|(E & _)]; [exact D|discriminate E].
Qed.

Lemma progress_respond s a f hop sp rel t code hasloc :
  nth_error (s_atts s) a = Some (mkAtt f hop sp (AConn true rel t POpen)) ->
  should_follow sp code hasloc = false ->
  exists s' l, step (ERespond a code hasloc) s = (s', l) /\ In (deliver hop f (OCode code)) l.
Proof.
  intros En Ef. simpl. rewrite (nth_get_st _ _ _ _ _ _ En).
  destruct (finish a code hasloc s) as [s' l] eqn:H. exists s', l. split; [reflexivity|].
  destruct (finish_plain_fr _ _ _ _ _ _ _ _ _ _ _ _ _ En Ef H) as [_ D]. apply D. reflexivity.
Qed.

Lemma progress_redirect s L a f hop sp rel t code hasloc :
  G1 s L ->
  nth_error (s_atts s) a = Some (mkAtt f hop sp (AConn true rel t POpen)) ->
  should_follow sp code hasloc = true ->
  exists s' l y, step (ERespond a code hasloc) s = (s', l) /\
    nth_error (s_atts s') (length (s_atts s)) = Some (mkAtt f true (redirected_spec sp) y) /\
    holds (mkAtt f true (redirected_spec sp) y) = true /\
    (forall g o, ~ In (LDone g o) l /\ ~ In (LLost g o) l).
Proof.
  intros HG1 En Ef. simpl. rewrite (nth_get_st _ _ _ _ _ _ En).
  destruct (finish a code hasloc s) as [s' l] eqn:H.
  destruct (finish_follow_spec _ _ _ _ _ _ _ _ _ _ _ _ L HG1 En Ef H) as (Q & _ & _ & _ & y & Hy & _ & Hh).
  exists s', l, y. split; [reflexivity|]. split; [exact Hy|]. split; [exact Hh|].
  apply quiet_no_done. exact Q.
Qed.

(* the same for reachable states *)
Theorem machine_progress : forall m es s L, exec es (init m) = (s, L) ->
  forall a f hop sp x, nth_error (s_atts s) a = Some (mkAtt f hop sp x) ->
  (x = AQueued true -> exists s', step (EQTimeout a) s = (s', [deliver hop f OTimeoutQueue])) /\
  (forall rel t, x = AConn true rel t PConnecting ->
     exists s' l, step (EConnFail a) s = (s', l) /\ In (deliver hop f OConnRefused) l) /\
  (forall rel k ph, x = AConn true rel (Some k) ph ->
     exists s' l, step (ECTimeout a) s = (s', l) /\
       In (deliver hop f (match k with TConnecting => OTimeoutConnecting | TRequest => OTimeoutRequest end)) l) /\
  (forall rel t, x = AConn true rel t POpen ->
     exists s' l, step (EClose a) s = (s', l) /\ In (deliver hop f OClosedRead) l) /\
  (forall rel t, x = AConn true rel t POpen ->
     exists s' l, step (EReset a) s = (s', l) /\ In (deliver hop f OConnReset) l) /\
  (forall rel t code hasloc, x = AConn true rel t POpen -> should_follow sp code hasloc = false ->
     exists s' l, step (ERespond a code hasloc) s = (s', l) /\ In (deliver hop f (OCode code)) l) /\
  (forall rel t code hasloc, x = AConn true rel t POpen -> should_follow sp code hasloc = true ->
     exists s' l y, step (ERespond a code hasloc) s = (s', l) /\
       nth_error (s_atts s') (length (s_atts s)) = Some (mkAtt f true (redirected_spec sp) y) /\
       holds (mkAtt f true (redirected_spec sp) y) = true /\
       (forall g o, ~ In (LDone g o) l /\ ~ In (LLost g o) l)) /\
  (forall rel t, x = AConn true rel t POpen ->
     exists s' l, step (EMalformed a) s = (s', l) /\ In (deliver hop f OClosedMalformed) l) /\
  (forall rel t, x = AConn true rel t POpen ->
     exists s' l, step (EBadFraming a) s = (s', l) /\ In (deliver hop f OClosedCallback) l).
Proof.
  intros m es s L H a f hop sp x En. destruct (MInv_exec _ _ _ _ H) as (H1 & _ & _).
  split; [|split; [|split; [|split; [|split; [|split; [|split; [|split]]]]]]].
  - intros ->. eapply progress_qtimeout; eauto.
  - intros rel t ->. eapply progress_connfail; eauto.
  - intros rel k ph ->. eapply progress_ctimeout; eauto.
  - intros rel t ->. eapply progress_close; eauto.
  - intros rel t ->. eapply progress_reset; eauto.
  - intros rel t code hasloc -> Ef. eapply progress_respond; eauto.
  - intros rel t code hasloc -> Ef. eapply progress_redirect; eauto.
  - intros rel t ->. eapply progress_malformed; eauto.
  - intros rel t ->. eapply progress_badframing; eauto.
Qed.

Print Assumptions machine_no_bug.
Print Assumptions machine_flags.
Print Assumptions machine_timers_armed.
Print Assumptions machine_idle_complete.
Print Assumptions machine_idle_complete'.
Print Assumptions machine_progress.
