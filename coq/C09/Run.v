(* Executable entry points used by the correspondence check. *)
From Coq Require Import List NArith ZArith String Bool Arith.
Import ListNotations.
From TV Require Import Lib.Obs C06.Model C09.Model C09.Url C09.Redirect.
Local Open Scope string_scope.
Local Open Scope list_scope.
Local Open Scope nat_scope.

(* one fetch against a scripted server *)
Record rcase := mkRCase {
  rc_ver : text;                       (* tornado.version *)
  rc_url : text; rc_method : text; rc_body : option (list N);
  rc_headers : list (text * text);     (* h = HTTPHeaders(); h.add(n, v) for each -- or the items of a dict *)
  rc_dict : bool;                      (* headers given as a plain dict (HTTPHeaders(dict) = update = __setitem__) *)
  rc_auth_user : option text; rc_auth_pass : option text;
  rc_maxred : option Z; rc_follow : option bool; rc_ua : option text;
  rc_defmax : option Z;                (* AsyncHTTPClient(defaults=dict(max_redirects=N)) *)
  rc_script : list hop                 (* the server's answers, with urljoin's result for each *)
}.

Inductive case :=
| CSched (max : nat) (evs : list event)
| CRedir (rc : rcase).

(* ---------- observables of a schedule ---------- *)
Definition obs_outcome (o : outcome) : obs :=
  match o with
  | OCode c => OList [OTag "code"; OInt c]
  | OTimeoutQueue => OList [OTag "timeout"; OTag "queue"]
  | OTimeoutConnecting => OList [OTag "timeout"; OTag "connecting"]
  | OTimeoutRequest => OList [OTag "timeout"; OTag "request"]
  | OClosedRead => OList [OTag "closed"; OTag "read"]
  | OClosedMalformed => OList [OTag "closed"; OTag "malformed"]
  | OClosedCallback => OList [OTag "closed"; OTag "callback"]
  | OConnRefused => OList [OTag "error"; OTag "ConnectionRefusedError"]
  | OConnReset => OList [OTag "error"; OTag "ConnectionResetError"]
  | OKeyError => OList [OTag "error"; OTag "KeyError"]
  end.

(* LLost is the absence of anything observable on the user's future *)
Definition obs_logev (e : logev) : list obs :=
  match e with
  | LStart a => [OList [OTag "start"; OInt (Z.of_nat a)]]
  | LDone f o => [OList [OTag "done"; OInt (Z.of_nat f); obs_outcome o]]
  | LLost _ _ => []
  | LBug _ => [OList [OTag "bug"]]
  end.

Definition obs_snap (s : st) : obs :=
  OList [OTag "snap"; OInt (Z.of_nat (List.length (s_active s))); OInt (Z.of_nat (List.length (s_queue s)));
         OInt (Z.of_nat (n_waiting s)); OInt (Z.of_nat (n_timers s))].

(* after every event: what the event emitted, then a snapshot of the client's sizes *)
Fixpoint run_obs (es : list event) (s : st) : list obs :=
  match es with
  | [] => []
  | e :: es' => let '(s1, l) := step e s in
                flat_map obs_logev l ++ obs_snap s1 :: run_obs es' s1
  end.

(* ---------- observables of a redirect scenario ---------- *)
Definition obs_rerr (e : rerr) : obs :=
  OTag (match e with RValueError => "ValueError" | RKeyError => "KeyError"
                   | RAssertionError => "AssertionError" | RUnmodelled => "unmodelled" end).

Definition obs_sent (x : sent) : obs :=
  match sn_wire x with
  | Some w => OList [OBytes (sn_url x); OBytes (sn_host x); OInt (Z.of_N (sn_port x)); OBool (sn_tls x);
                     OBytes (w_start w); OList (map (fun kv => OBytes (header_line kv)) (get_all (w_headers w)));
                     OBytes (w_body w)]
  | None => OList [OBytes (sn_url x); OBytes (sn_host x); OInt (Z.of_N (sn_port x)); OBool (sn_tls x);
                   OBytes []; OList []; OBytes []]
  end.

Definition obs_final (f : final) : obs :=
  match f with
  | FinCode c u => OList [OTag "code"; OInt c; OBytes u]
  | FinError e => OList [OTag "error"; obs_rerr e]
  | FinQuiet => OList [OTag "error"; OTag "_QuietException"]
  | FinMalformed => OList [OTag "httperror"; OInt 599]
  | FinStuck => OList [OTag "pending"]
  | FinUnmodelled => OTag "unmodelled"
  end.

Definition ascii_text (l : text) : bool := forallb (fun c => N.ltb c 128) l.
Definition ascii_opt (o : option text) : bool := match o with Some l => ascii_text l | None => true end.
(* the modelled domain: ASCII everywhere except the body *)
Definition rcase_ascii (rc : rcase) : bool :=
  ascii_text (rc_ver rc) && ascii_text (rc_url rc) && ascii_text (rc_method rc) &&
  forallb (fun kv => ascii_text (fst kv) && ascii_text (snd kv)) (rc_headers rc) &&
  ascii_opt (rc_auth_user rc) && ascii_opt (rc_auth_pass rc) && ascii_opt (rc_ua rc) &&
  forallb (fun hp => ascii_text (hp_joined hp)) (rc_script rc).

(* the request as AsyncHTTPClient.fetch hands it to fetch_impl *)
Definition initial_req (rc : rcase) : option req :=
  if rc_dict rc then
    (* fetch(): HTTPHeaders(request.headers) with a dict: MutableMapping.update, no validation *)
    Some (mkReq (rc_url rc) (rc_method rc) (rc_body rc) (update_all (rc_headers rc) empty_h)
                (rc_auth_user rc) (rc_auth_pass rc) (rc_maxred rc) (rc_follow rc) (rc_ua rc) (rc_defmax rc))
  else
  match add_all (rc_headers rc) empty_h with
  | (RUnit, h0) =>
      match copy h0 with                          (* fetch(): HTTPHeaders(request.headers) *)
      | (RUnit, h) => Some (mkReq (rc_url rc) (rc_method rc) (rc_body rc) h (rc_auth_user rc)
                                  (rc_auth_pass rc) (rc_maxred rc) (rc_follow rc) (rc_ua rc) (rc_defmax rc))
      | _ => None
      end
  | _ => None
  end.

Definition run_redir (rc : rcase) : obs :=
  if negb (rcase_ascii rc) then OTag "unmodelled" else
  match initial_req rc with
  | None => OList [OList []; OList [OTag "fetch-raised"; OTag "HTTPInputError"]]
  | Some r =>
      let '(l, f) := chain (rc_ver rc) (rc_url rc) r (rc_script rc) in
      match f with
      | FinUnmodelled => OTag "unmodelled"
      | _ => OList [OList (map obs_sent l); obs_final f]
      end
  end.

Definition run_case (c : case) : obs :=
  match c with
  | CSched m es => OList (run_obs es (init m))
  | CRedir rc => run_redir rc
  end.

(* ---------- the property on the observable of a schedule ---------- *)
Definition is_fetch (e : event) : bool := match e with EFetch _ => true | _ => false end.
Definition n_fetches (es : list event) : nat := List.length (filter is_fetch es).

Record chk := mkChk {
  k_ok : bool;
  k_last_start : option nat;      (* the last attempt that started *)
  k_done : list nat;              (* user fetches already completed *)
  k_idle : bool;                  (* the last snapshot showed nothing active and nothing queued *)
  k_sub : nat;                    (* fetches submitted so far *)
  k_evs : list event              (* events whose snapshot has not been seen yet *)
}.

Definition znat (z : Z) : option nat := if (z <? 0)%Z then None else Some (Z.to_nat z).

Definition chk_fail (k : chk) : chk :=
  mkChk false (k_last_start k) (k_done k) (k_idle k) (k_sub k) (k_evs k).

Definition chk_entry (max nf : nat) (k : chk) (o : obs) : chk :=
  match o with
  | OList [OTag "start"; OInt a] =>
      match znat a with
      | Some a' =>
          let ok := match k_last_start k with Some b => b <? a' | None => true end in
          mkChk (k_ok k && ok) (Some a') (k_done k) (k_idle k) (k_sub k) (k_evs k)
      | None => chk_fail k
      end
  | OList [OTag "done"; OInt f; _] =>
      match znat f with
      | Some f' =>
          mkChk (k_ok k && (f' <? nf) && negb (mem f' (k_done k))) (k_last_start k)
                (f' :: k_done k) (k_idle k) (k_sub k) (k_evs k)
      | None => chk_fail k
      end
  | OList [OTag "snap"; OInt a; OInt q; OInt _; OInt _] =>
      (* one snapshot per event; conservation: every fetch submitted so far is waiting in the
         queue, or holds a slot, or has completed *)
      match k_evs k with
      | e :: evs =>
          let sub := (if is_fetch e then 1 else 0) + k_sub k in
          mkChk (k_ok k && (a <=? Z.of_nat max)%Z && (0 <=? a)%Z && (0 <=? q)%Z &&
                 (a + q + Z.of_nat (List.length (k_done k)) =? Z.of_nat sub)%Z)
                (k_last_start k) (k_done k) ((a =? 0)%Z && (q =? 0)%Z) sub evs
      | [] => chk_fail k
      end
  | _ => chk_fail k
  end.

(* at most max_clients active at every snapshot; attempts start in submission order; no user
   fetch completes twice; |active| + |queue| + completed = submitted after every event; when the
   client is idle at the end, every fetch has completed *)
Definition check_sched (max : nat) (es : list event) (o : obs) : bool :=
  match o with
  | OList l =>
      let k := fold_left (chk_entry max (n_fetches es)) l (mkChk true None [] true 0 es) in
      k_ok k && (negb (k_idle k) || (List.length (k_done k) =? n_fetches es)) &&
      match k_evs k with [] => true | _ => false end
  | _ => false
  end.

(* ---------- the property on the observable of a redirect scenario ---------- *)
(* one observed request: [url; host; port; tls; request line; header lines; body] *)
Definition hop_url (o : obs) : option text :=
  match o with OList (OBytes u :: _) => Some u | _ => None end.
Definition hop_start (o : obs) : option text :=
  match o with OList [_; _; _; _; OBytes s; _; _] => Some s | _ => None end.
Definition hop_lines (o : obs) : option (list text) :=
  match o with
  | OList [_; _; _; _; _; OList ls; _] =>
      fold_right (fun x acc => match x, acc with OBytes l, Some r => Some (l :: r) | _, _ => None end)
                 (Some []) ls
  | _ => None
  end.
Definition hop_body (o : obs) : option text :=
  match o with OList [_; _; _; _; _; _; OBytes b] => Some b | _ => None end.

Definition line_name (l : text) : text := map lower (fst (partition_at c_colon l)).
Definition has_header (name : string) (ls : list text) : bool :=
  existsb (fun l => text_eqb (line_name l) (T name)) ls.
Definition method_of (start : text) : text := fst (partition_at 32%N start).

(* the request `nx` that followed the scripted answer `hp` to the request `prev` *)
Definition chk_pair (uo : usplit) (prev : obs) (hp : hop) (nx : obs) : bool :=
  match hop_start prev, hop_url nx, hop_start nx, hop_lines nx, hop_body nx with
  | Some pstart, Some url, Some start, Some ls, Some body =>
      is_redirect_code (hp_code hp) && hp_loc hp &&
      (* a follow-up that failed before it wrote anything carried nothing *)
      (negb (nonempty start) ||
      (* 303 to a non-HEAD request, 301/302 to a POST: a bodiless GET *)
      (negb (to_get (hp_code hp) (method_of pstart)) ||
       (text_eqb (method_of start) (T "GET") && negb (nonempty body) &&
        negb (has_header "content-length" ls) && negb (has_header "content-type" ls) &&
        negb (has_header "content-encoding" ls) && negb (has_header "transfer-encoding" ls))) &&
      (* a different scheme or netloc than the original request: no Cookie, no Authorization, no
         userinfo.  (When the Location-derived URL parses with an EMPTY netloc, urlunsplit of
         CPython 3.12.1 can re-create a netloc from a path that starts with "//": credentials
         found there were put into Location by the redirecting server, they are not the
         original ones; only the Cookie clause is checked then.) *)
      match urlsplit url, urlsplit (hp_joined hp) with
      | UOk un, UOk uj =>
          negb (cross_origin uo un) ||
          (negb (has_header "cookie" ls) &&
           (negb (nonempty (u_netloc uj)) ||
            (negb (has_at (u_netloc un)) && negb (has_header "authorization" ls))))
      | _, _ => false
      end)
  | _, _, _, _, _ => false
  end.

Fixpoint chk_hops (uo : usplit) (prev : obs) (script : list hop) (rest : list obs) : bool :=
  match rest with
  | [] => true
  | nx :: rest' =>
      match script with
      | [] => false
      | hp :: script' => chk_pair uo prev hp nx && chk_hops uo nx script' rest'
      end
  end.

Definition check_redir (rc : rcase) (o : obs) : bool :=
  match o with
  | OList [OList hops; _] =>
      (* the limit, whatever its source: the request, the client's defaults, the built-in 5 *)
      let maxred := match rc_maxred rc with
                    | Some z => z
                    | None => match rc_defmax rc with Some d => d | None => 5%Z end
                    end in
      let follow := match rc_follow rc with Some b => b | None => true end in
      (* at most max_redirects redirects are followed *)
      (List.length hops <=? S (if follow then Z.to_nat maxred else 0)) &&
      match hops with
      | [] => true
      | first :: rest =>
          match urlsplit (rc_url rc) with
          | UOk uo => chk_hops uo first (rc_script rc) rest
          | UUnmodelled => false
          end
      end
  | OTag "unmodelled" => true    (* the model's own "outside my domain" marker; the implementation's
                                    observable is never this tag, so nothing is accepted by it *)
  | _ => false
  end.

Definition check_case (c : case) (o : obs) : bool :=
  match c with
  | CSched m es => check_sched m es o
  | CRedir rc => check_redir rc o
  end.
