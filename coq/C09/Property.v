(* C09 — HTTP client completes each fetch once, honours max_clients, redirects safely.
   Property theorems only; proofs are in ProofsMachine{A..F}.v, ProofsHeaders.v,
   ProofsRedirect.v, ProofsRedirectTop.v, ProofsResplit.v, ProofsRun.v.

   Part 1 quantifies over EVERY max_clients m and EVERY event list es (application fetches,
   connect results, responses, closes, queue and connection timers in any order) of the
   transition system Model.step;  `exec es (init m) = (s, L)`: s is the client state afterwards,
   L the log of connection starts (LStart attempt) and of resolutions of the users' futures
   (LDone fetch outcome).  Attempts are numbered in fetch_impl (= submission) order.
   Part 2 quantifies over every request, header set, response code and Location-derived URL. *)
From Coq Require Import List NArith ZArith Bool Sorted String.
Import ListNotations.
From TV Require Import Lib.Obs C06.Model C09.Model C09.Url C09.Redirect C09.Run
  C09.ProofsMachineA C09.ProofsMachineB C09.ProofsMachineC C09.ProofsMachineD C09.ProofsMachineF C09.ProofsMachineE
  C09.ProofsHeaders C09.ProofsRedirect C09.ProofsRedirectTop C09.ProofsResplit C09.ProofsStuck C09.ProofsRun C09.ProofsCheckRedir.

(* ===================== Part 1: admission and completion ===================== *)

(* at most max_clients requests are in progress, after every schedule *)
Theorem C09_max_clients : forall m es s L, exec es (init m) = (s, L) ->
  List.length (s_active s) <= m /\ NoDup (s_active s) /\ s_max s = m.
Proof. exact machine_max_clients. Qed.
Print Assumptions C09_max_clients.

(* the active set is exactly the set of connections that have not released their slot *)
Theorem C09_active_iff_slot_held : forall m es s L, exec es (init m) = (s, L) ->
  forall a, In a (s_active s) <-> exists cb t ph, get_st a s = Some (AConn cb true t ph).
Proof. exact machine_active_iff. Qed.
Print Assumptions C09_active_iff_slot_held.

(* connections start in submission order; whatever is still queued was submitted after everything
   that started; an attempt that neither started nor is queued timed out in the queue *)
Theorem C09_start_order : forall m es s L, exec es (init m) = (s, L) ->
  StronglySorted lt (starts L ++ s_queue s) /\
  (forall a, a < List.length (s_atts s) -> In a (starts L) \/ In a (s_queue s) \/ get_st a s = Some AGone) /\
  (forall a, In a (s_queue s) <-> exists t, get_st a s = Some (AQueued t)).
Proof. exact machine_start_order. Qed.
Print Assumptions C09_start_order.

(* nobody waits while a slot is free *)
Theorem C09_no_idle_slot_while_queued : forall m es s L, exec es (init m) = (s, L) ->
  s_queue s <> [] -> List.length (s_active s) = s_max s.
Proof. exact machine_no_idle_slot_while_queued. Qed.
Print Assumptions C09_no_idle_slot_while_queued.

(* EXACTLY ONCE, as a conservation law: every submitted fetch is, at every moment, either held by
   exactly one live attempt (queued, or a connection whose final_callback is still set) or has
   resolved its future exactly once -- never both, never twice, never neither *)
Theorem C09_exactly_once : forall m es s L, exec es (init m) = (s, L) ->
  forall f, holders f s + count_done f L = (if f <? s_nfetch s then 1 else 0).
Proof. exact machine_exactly_once'. Qed.
Print Assumptions C09_exactly_once.

Theorem C09_at_most_once : forall m es s L, exec es (init m) = (s, L) ->
  forall f, count_done f L <= 1.
Proof. exact machine_at_most_once. Qed.
Print Assumptions C09_at_most_once.

(* no completion is ever lost (before fix 2ae8e77 a failed redirect follow-up lost it) *)
Theorem C09_never_lost : forall m es s L, exec es (init m) = (s, L) ->
  forall f o, ~ In (LLost f o) L.
Proof. exact machine_never_lost. Qed.
Print Assumptions C09_never_lost.

(* when nothing is active and nothing is queued, every fetch has completed exactly once *)
Theorem C09_idle_means_all_completed : forall m es s L, exec es (init m) = (s, L) ->
  s_active s = [] -> s_queue s = [] -> forall f, f < s_nfetch s -> count_done f L = 1.
Proof. exact machine_idle_complete'. Qed.
Print Assumptions C09_idle_means_all_completed.

(* the slot is held as long as the callback is pending; an open stream implies a pending callback *)
Theorem C09_flags : forall m es s L, exec es (init m) = (s, L) ->
  forall a cb rel t ph, get_st a s = Some (AConn cb rel t ph) ->
    (cb = true -> rel = true) /\ (ph = POpen -> cb = true) /\ (t <> None -> cb = true).
Proof. exact machine_flags. Qed.
Print Assumptions C09_flags.

(* ... and exactly as long: between events, a connection holds its slot iff its callback is pending *)
Theorem C09_slot_iff_callback : forall m es s L, exec es (init m) = (s, L) ->
  forall a cb rel t ph, get_st a s = Some (AConn cb rel t ph) -> cb = rel.
Proof. exact machine_slot_iff_callback. Qed.
Print Assumptions C09_slot_iff_callback.

(* conservation in numbers: every submitted fetch is waiting in the queue, or holds a slot, or has
   completed -- no completion is lost and no slot leaks *)
Theorem C09_conservation : forall m es s L, exec es (init m) = (s, L) ->
  List.length (s_active s) + List.length (s_queue s) + List.length (dones L) = s_nfetch s.
Proof. exact machine_conservation. Qed.
Print Assumptions C09_conservation.

(* none of the would-be internal errors (KeyError in _release_fetch, ValueError in queue.remove,
   finish() without a callback) is reachable *)
Theorem C09_no_internal_error : forall m es s L, exec es (init m) = (s, L) ->
  forall b, ~ In (LBug b) L.
Proof. exact machine_no_bug. Qed.
Print Assumptions C09_no_internal_error.

(* PROGRESS.  A configured timeout always has its timer armed ... *)
Theorem C09_timers_armed : forall m es s L, exec es (init m) = (s, L) ->
  forall a f hop sp x, nth_error (s_atts s) a = Some (mkAtt f hop sp x) ->
    (forall t, x = AQueued t -> t = (sp_ct sp || sp_rt sp)) /\
    (forall rel t, x = AConn true rel t PConnecting ->
                   t = (if sp_ct sp || sp_rt sp then Some TConnecting else None)) /\
    (forall rel t, x = AConn true rel t POpen -> t = (if sp_rt sp then Some TRequest else None)).
Proof. exact machine_timers_armed. Qed.
Print Assumptions C09_timers_armed.

(* ... and every terminal event on a live attempt resolves the owner's future (a followed redirect
   hands the callback to a new attempt with max_redirects - 1 instead) *)
Theorem C09_progress : forall m es s L, exec es (init m) = (s, L) ->
  forall a f hop sp x, nth_error (s_atts s) a = Some (mkAtt f hop sp x) ->
    (x = AQueued true -> exists s', step (EQTimeout a) s = (s', [deliver hop f OTimeoutQueue])) /\
    (forall rel t, x = AConn true rel t PConnecting ->
       exists s' l, step (EConnFail a) s = (s', l) /\ In (deliver hop f OConnRefused) l) /\
    (forall rel k ph, x = AConn true rel (Some k) ph ->
       exists s' l, step (ECTimeout a) s = (s', l) /\
         In (deliver hop f (match k with TConnecting => OTimeoutConnecting | TRequest => OTimeoutRequest end)) l) /\
    (forall rel t, x = AConn true rel t POpen ->
       exists s' l, step (EClose a) s = (s', l) /\ In (deliver hop f OClosedRead) l) /\
    (forall rel t, x = AConn true rel t POpen ->
       exists s' l, step (EReset a) s = (s', l) /\ In (deliver hop f OConnReset) l) /\
    (forall rel t code hasloc, x = AConn true rel t POpen -> Model.should_follow sp code hasloc = false ->
       exists s' l, step (ERespond a code hasloc) s = (s', l) /\ In (deliver hop f (OCode code)) l) /\
    (forall rel t code hasloc, x = AConn true rel t POpen -> Model.should_follow sp code hasloc = true ->
       exists s' l y, step (ERespond a code hasloc) s = (s', l) /\
         nth_error (s_atts s') (List.length (s_atts s)) = Some (mkAtt f true (redirected_spec sp) y) /\
         holds (mkAtt f true (redirected_spec sp) y) = true /\
         (forall g o, ~ In (LDone g o) l /\ ~ In (LLost g o) l)) /\
    (forall rel t, x = AConn true rel t POpen ->
       exists s' l, step (EMalformed a) s = (s', l) /\ In (deliver hop f OClosedMalformed) l) /\
    (forall rel t, x = AConn true rel t POpen ->
       exists s' l, step (EBadFraming a) s = (s', l) /\ In (deliver hop f OClosedCallback) l).
Proof. exact machine_progress. Qed.
Print Assumptions C09_progress.

(* deliver always resolves the future (LDone) *)
Theorem C09_deliver_resolves : forall hop f o, deliver hop f o = LDone f o.
Proof.
  intros hop f o. destruct (deliver_cases hop f o) as [H|H]; [exact H|].
  exfalso. exact (deliver_never_lost hop f o f o H).
Qed.
Print Assumptions C09_deliver_resolves.

(* the model satisfies the checker that ./check applies to the implementation's observable *)
Theorem C09_model_passes_schedule_checker : forall m es,
  check_case (CSched m es) (run_case (CSched m es)) = true.
Proof. exact check_sched_sound. Qed.
Print Assumptions C09_model_passes_schedule_checker.

(* ===================== Part 2: redirects ===================== *)

(* followed iff follow_redirects, code in {301,302,303,307,308}, max_redirects > 0, Location present *)
Theorem C09_redirect_followed_iff : forall r code hasloc,
  Redirect.should_follow r code hasloc = true <->
  follow_of r = true /\ In code [301; 302; 303; 307; 308]%Z /\ (0 < maxred_of r)%Z /\ hasloc = true.
Proof. exact should_follow_iff. Qed.
Print Assumptions C09_redirect_followed_iff.

Theorem C09_redirect_decrements : forall orig r h code joined r',
  redirect_request orig r h code joined = FRedirect r' ->
  maxred_of r' = (maxred_of r - 1)%Z /\ follow_of r' = follow_of r.
Proof. exact redirect_decrements. Qed.
Print Assumptions C09_redirect_decrements.

(* whatever the server answers (any script, any length): at most 1 + max_redirects requests *)
Theorem C09_redirect_chain_bounded : forall ver orig script r,
  (List.length (fst (chain ver orig r script)) <= S (Z.to_nat (maxred_of r)))%nat /\
  (follow_of r = false -> (List.length (fst (chain ver orig r script)) <= 1)%nat).
Proof. exact chain_length. Qed.
Print Assumptions C09_redirect_chain_bounded.

(* "at most max_redirects redirects are followed", whatever the SOURCE of the limit: set on the
   request, or the client's defaults (AsyncHTTPClient(defaults=dict(max_redirects=N))), or the
   built-in default 5 -- for every script of answers, redirect loops included *)
Theorem C09_fetch_redirects_bounded_any_source : forall rc r,
  initial_req rc = Some r ->
  (List.length (fst (chain (rc_ver rc) (rc_url rc) r (rc_script rc))) <=
   S (Z.to_nat (match rc_maxred rc with
                | Some z => z
                | None => match rc_defmax rc with Some d => d | None => 5%Z end
                end)))%nat.
Proof. exact fetch_chain_bounded. Qed.
Print Assumptions C09_fetch_redirects_bounded_any_source.

(* the limit run()/finish() see through the _RequestProxy, and every follow-up gets it minus one
   as an EXPLICIT value (so the defaults are consulted once, not once per hop) *)
Theorem C09_maxred_sources : forall r,
  maxred_of r = match r_maxred r with
                | Some z => z
                | None => match r_defmax r with Some d => d | None => 5%Z end
                end.
Proof. reflexivity. Qed.
Print Assumptions C09_maxred_sources.

Theorem C09_followup_limit_is_explicit : forall orig r h code joined r',
  redirect_request orig r h code joined = FRedirect r' ->
  r_maxred r' = Some (maxred_of r - 1)%Z.
Proof.
  intros orig r h code joined r' H. apply redirect_inv in H.
  destruct H as [h1 [h2 [h3 [h4 [uo [un F]]]]]]. exact (rf_maxred _ _ _ _ _ _ _ _ _ _ _ _ F).
Qed.
Print Assumptions C09_followup_limit_is_explicit.

(* 303 to a non-HEAD request, 301/302 to a POST: a GET without body and without
   Content-Length / Content-Type / Content-Encoding / Transfer-Encoding, also on the wire *)
Theorem C09_redirect_to_get : forall orig r h code joined r',
  redirect_request orig r h code joined = FRedirect r' ->
  to_get code (r_method r) = true ->
  r_method r' = T "GET"%string /\ r_body r' = None /\
  no_header H_ContentLength (r_headers r') /\ no_header H_ContentType (r_headers r') /\
  no_header H_ContentEncoding (r_headers r') /\ no_header H_TransferEncoding (r_headers r').
Proof. exact redirect_to_get. Qed.
Print Assumptions C09_redirect_to_get.

Theorem C09_redirect_to_get_wire : forall orig r h code joined r' ver w,
  redirect_request orig r h code joined = FRedirect r' ->
  to_get code (r_method r) = true ->
  prepare ver r' = Sent w ->
  no_header H_ContentLength (w_headers w) /\ no_header H_ContentType (w_headers w) /\
  no_header H_ContentEncoding (w_headers w) /\ no_header H_TransferEncoding (w_headers w).
Proof. exact redirect_to_get_wire. Qed.
Print Assumptions C09_redirect_to_get_wire.

Theorem C09_to_get_iff : forall code m,
  to_get code m = true <->
  (code = 303%Z /\ m <> T "HEAD"%string) \/ ((code = 301%Z \/ code = 302%Z) /\ m = T "POST"%string).
Proof.
  intros code m. unfold to_get.
  rewrite orb_true_iff, !andb_true_iff, orb_true_iff, negb_true_iff, !Z.eqb_eq.
  rewrite ProofsBase.text_eqb_neq, ProofsBase.text_eqb_eq. tauto.
Qed.
Print Assumptions C09_to_get_iff.

(* scheme or netloc different from the ORIGINAL request: no Authorization, no Cookie (any number
   of values, any spelling; no hypothesis on how the headers were built), no auth_username /
   auth_password, URL rebuilt around a netloc without userinfo *)
Theorem C09_redirect_cross_origin_strips : forall orig r h code joined r' uo un,
  redirect_request orig r h code joined = FRedirect r' ->
  urlsplit orig = UOk uo -> urlsplit joined = UOk un ->
  different_origin uo un ->
  no_header H_Authorization (r_headers r') /\ no_header H_Cookie (r_headers r') /\
  r_auth_user r' = None /\ r_auth_pass r' = None /\
  exists nl, has_at nl = false /\
             r_url r' = urlunsplit (mkU (u_scheme un) nl (u_path un) (u_query un) (u_frag un)).
Proof. exact redirect_cross_origin_strips. Qed.
Print Assumptions C09_redirect_cross_origin_strips.

(* finish() cannot fail AFTER it has cleared final_callback and released the slot (the only raise
   site there is fetch()'s HTTPHeaders(request.headers) copy): otherwise nobody would complete the
   fetch.  Holds for every header object, however it was built (dict or add()). *)
Theorem C09_redirect_never_stuck : forall orig r h code joined,
  redirect_request orig r h code joined <> FStuck.
Proof. exact redirect_never_stuck. Qed.
Print Assumptions C09_redirect_never_stuck.

(* the same, judged on the URL the follow-up request actually carries *)
Theorem C09_redirect_strips_by_new_url : forall orig r h code joined r' uo u',
  redirect_request orig r h code joined = FRedirect r' ->
  urlsplit orig = UOk uo -> urlsplit (r_url r') = UOk u' ->
  different_origin uo u' ->
  no_header H_Authorization (r_headers r') /\ no_header H_Cookie (r_headers r') /\
  r_auth_user r' = None /\ r_auth_pass r' = None.
Proof. exact redirect_strips_by_new_url. Qed.
Print Assumptions C09_redirect_strips_by_new_url.

(* on the wire: never a Cookie line; an Authorization line only if the follow-up URL itself has
   userinfo (run() then derives "Basic ..." from THAT userinfo) *)
Theorem C09_redirect_cross_origin_wire : forall orig r h code joined r' uo u' ver w,
  redirect_request orig r h code joined = FRedirect r' ->
  urlsplit orig = UOk uo -> urlsplit (r_url r') = UOk u' -> different_origin uo u' ->
  prepare ver r' = Sent w ->
  no_header H_Cookie (w_headers w) /\
  (no_header H_Authorization (w_headers w) \/ exists us pw, userinfo (u_netloc u') = Some (us, Some pw)).
Proof. exact redirect_cross_origin_wire. Qed.
Print Assumptions C09_redirect_cross_origin_wire.

(* every request of every redirect chain of a fetch (any script of answers) *)
Theorem C09_fetch_chain_clean : forall rc r uo,
  initial_req rc = Some r -> urlsplit (rc_url rc) = UOk uo ->
  Forall (sent_clean uo) (fst (chain (rc_ver rc) (rc_url rc) r (rc_script rc))).
Proof. exact fetch_chain_clean. Qed.
Print Assumptions C09_fetch_chain_clean.

(* the model satisfies the checker that ./check applies to the implementation's observable, on
   EVERY input: schedules and redirect scenarios *)
Theorem C09_model_passes_checker : forall c, check_case c (run_case c) = true.
Proof. intros [m es|rc]; [exact (check_sched_sound m es)|exact (check_redir_sound rc)]. Qed.
Print Assumptions C09_model_passes_checker.

(* URL credentials, at full strength: when the Location-derived URL has a non-empty netloc, the
   URL the follow-up carries RE-PARSES to a netloc without userinfo ... *)
Theorem C09_redirect_cross_origin_no_userinfo : forall orig r h code joined r' uo un,
  redirect_request orig r h code joined = FRedirect r' ->
  urlsplit orig = UOk uo -> urlsplit joined = UOk un ->
  different_origin uo un -> u_netloc un <> [] ->
  exists u', urlsplit (r_url r') = UOk u' /\ has_at (u_netloc u') = false /\
             userinfo (u_netloc u') = None /\ u_scheme u' = u_scheme un.
Proof. exact redirect_cross_origin_no_userinfo. Qed.
Print Assumptions C09_redirect_cross_origin_no_userinfo.

(* ... and the bytes run() writes for it have neither a Cookie nor an Authorization line *)
Theorem C09_redirect_cross_origin_wire_strict : forall orig r h code joined r' uo un ver w,
  redirect_request orig r h code joined = FRedirect r' ->
  urlsplit orig = UOk uo -> urlsplit joined = UOk un ->
  different_origin uo un -> u_netloc un <> [] ->
  prepare ver r' = Sent w ->
  no_header H_Cookie (w_headers w) /\ no_header H_Authorization (w_headers w).
Proof. exact redirect_cross_origin_wire_strict. Qed.
Print Assumptions C09_redirect_cross_origin_wire_strict.

(* The hypothesis `u_netloc un <> []` cannot be dropped: CPython 3.12.1's urlunsplit turns an empty
   netloc and a path starting with "//" into a URL whose netloc is the head of that path.  The
   userinfo that appears was written into Location by the redirecting server (it is not the
   original request's); Cookie / Authorization / auth_username are still stripped
   (C09_redirect_cross_origin_strips has no such hypothesis).  See NOTES.md. *)
Theorem C09_empty_netloc_urlunsplit_witness :
  urlsplit (T "https:////u:p@b.test/y") = UOk (mkU (T "https") [] (T "//u:p@b.test/y") [] []) /\
  urlsplit (urlunsplit (mkU (T "https") [] (T "//u:p@b.test/y") [] [])) =
    UOk (mkU (T "https") (T "u:p@b.test") (T "/y") [] []).
Proof. split; vm_compute; reflexivity. Qed.
Print Assumptions C09_empty_netloc_urlunsplit_witness.
