(* C09 — machine-level proofs, part B: the counting invariant.
   T4 machine_exactly_once, machine_at_most_once, T7 machine_lost_only_after_redirect_error. *)
From Coq Require Import List NArith ZArith Bool Arith Lia.
Import ListNotations.
From TV Require Import C09.Model C09.ProofsMachineA.

Local Opaque deliver.

Definition b2n (b : bool) : nat := if b then 1 else 0.
Definition hkey (f : nat) (x : att) : bool := Nat.eqb (a_owner x) f && holds x.
Definition holds_st (y : astate) : bool :=
  match y with AQueued _ => true | AConn true _ _ _ => true | _ => false end.
Definition cnt (f : nat) (l : list logev) : nat := count_done f l + count_lost f l.

Lemma holds_with_st x y : holds (with_st x y) = holds_st y.
Proof. reflexivity. Qed.
Lemma holds_holds_st x : holds x = holds_st (a_st x).
Proof. reflexivity. Qed.

(* ---------------- generic filter lemmas ---------------- *)
Lemma filter_upd_nth {A} (p : A -> bool) : forall l a y x,
  nth_error l a = Some x ->
  length (filter p (upd_nth a y l)) + b2n (p x) = length (filter p l) + b2n (p y).
Proof.
  induction l as [|z l IH]; intros [|a] y x H; simpl in *; try discriminate H.
  - injection H as ->. destruct (p x), (p y); simpl; lia.
  - specialize (IH a y x H). destruct (p z); simpl; lia.
Qed.

Lemma filter_pointwise {A} (p : A -> bool) : forall l l',
  length l = length l' ->
  (forall b x x', nth_error l b = Some x -> nth_error l' b = Some x' -> p x = p x') ->
  length (filter p l) = length (filter p l').
Proof.
  induction l as [|x l IH]; intros [|x' l'] HL HP; simpl in *; try discriminate HL; auto.
  rewrite (HP 0 x x' eq_refl eq_refl).
  assert (E : length (filter p l) = length (filter p l')).
  { apply IH; [lia|]. intros b y y' H1 H2. apply (HP (S b)); auto. }
  destruct (p x'); simpl; lia.
Qed.

(* ---------------- holders ---------------- *)
Lemma holders_hkey f s : holders f s = length (filter (hkey f) (s_atts s)).
Proof. reflexivity. Qed.

Lemma holders_set_st f a y s x :
  nth_error (s_atts s) a = Some x ->
  holders f (set_st a y s) + b2n (hkey f x) = holders f s + b2n (Nat.eqb (a_owner x) f && holds_st y).
Proof.
  intro H. rewrite !holders_hkey. unfold set_st. rewrite H. simpl.
  apply (filter_upd_nth (hkey f) (s_atts s) a (mkAtt (a_owner x) (a_hop x) (a_spec x) y) x H).
Qed.

Lemma holders_set_st_same f a y s :
  (forall y0, get_st a s = Some y0 -> holds_st y = holds_st y0) ->
  holders f (set_st a y s) = holders f s.
Proof.
  intro H. destruct (nth_error (s_atts s) a) as [x|] eqn:E.
  - assert (K := holders_set_st f a y s x E).
    rewrite (H (a_st x) (nth_get_st' _ _ _ E)) in K.
    unfold hkey in K. rewrite holds_holds_st in K. lia.
  - unfold set_st. rewrite E. reflexivity.
Qed.

Lemma holders_evolves f s s' : evolves s s' -> holders f s' = holders f s.
Proof.
  intros [(_ & _ & HL) Ev]. rewrite !holders_hkey. apply filter_pointwise; [exact HL|].
  intros b x' x H' H. specialize (Ev b). rewrite H, H' in Ev.
  destruct Ev as [E|(z & E & Q & E')].
  - injection E as ->. reflexivity.
  - injection E as <-. injection E' as ->. unfold hkey, started. rewrite holds_with_st.
    unfold is_queued in Q. rewrite holds_holds_st. simpl.
    destruct (a_st x); try discriminate Q. reflexivity.
Qed.

(* ---------------- log counting ---------------- *)
Lemma count_done_app f l1 l2 : count_done f (l1 ++ l2) = count_done f l1 + count_done f l2.
Proof. unfold count_done. rewrite filter_app, app_length. reflexivity. Qed.
Lemma count_lost_app f l1 l2 : count_lost f (l1 ++ l2) = count_lost f l1 + count_lost f l2.
Proof. unfold count_lost. rewrite filter_app, app_length. reflexivity. Qed.
Lemma cnt_app f l1 l2 : cnt f (l1 ++ l2) = cnt f l1 + cnt f l2.
Proof. unfold cnt. rewrite count_done_app, count_lost_app. lia. Qed.
Lemma cnt_nil f : cnt f [] = 0.
Proof. reflexivity. Qed.
Lemma cnt_quiet f l : quiet l -> cnt f l = 0.
Proof.
  induction l as [|e l IH]; intro Q; [reflexivity|].
  change (e :: l) with ([e] ++ l). rewrite cnt_app, IH.
  - destruct (Q e (or_introl eq_refl)) as [[a ->]|[b ->]]; reflexivity.
  - intros e' Hin. apply Q. right. exact Hin.
Qed.
Lemma cnt_deliver f hop g o : cnt f [deliver hop g o] = b2n (Nat.eqb g f).
Proof.
  destruct (deliver_cases hop g o) as [E|E]; rewrite E; unfold cnt, count_done, count_lost; simpl;
    destruct (Nat.eqb g f); reflexivity.
Qed.

(* every log entry is a start, a bug, or a delivery *)
Definition oklog (l : list logev) : Prop :=
  forall e, In e l ->
    (exists a, e = LStart a) \/ (exists b, e = LBug b) \/ (exists hop f o, e = deliver hop f o).
Lemma oklog_nil : oklog [].
Proof. intros e []. Qed.
Lemma oklog_quiet l : quiet l -> oklog l.
Proof. intros Q e Hin. destruct (Q e Hin) as [H|H]; auto. Qed.
Lemma oklog_app l1 l2 : oklog l1 -> oklog l2 -> oklog (l1 ++ l2).
Proof. intros H1 H2 e Hin. apply in_app_or in Hin. destruct Hin; auto. Qed.
Lemma oklog_deliver hop f o : oklog [deliver hop f o].
Proof. intros e [<-|[]]. right. right. eauto. Qed.
Lemma oklog_bug b : oklog [LBug b].
Proof. apply oklog_quiet, quiet_bug. Qed.

(* ---------------- per-function counting ---------------- *)
Ltac hs_same G :=
  apply holders_set_st_same;
  let y0 := fresh "y0" in let E := fresh "E" in
  intros y0 E; rewrite G in E; injection E as <-; reflexivity.

Lemma run_queue_count f s s' l :
  run_queue s = (s', l) -> holders f s' = holders f s /\ s_nfetch s' = s_nfetch s /\ quiet l.
Proof.
  intro H. apply run_queue_frame in H. destruct H as [Ev So]. split; [apply holders_evolves; exact Ev|].
  split; [apply Ev|apply starts_only_quiet; exact So].
Qed.

Lemma release_count f a s s' l :
  release a s = (s', l) -> holders f s' = holders f s /\ s_nfetch s' = s_nfetch s /\ quiet l.
Proof.
  intro H. unfold release in H.
  destruct (get_st a s) as [[tm|cb [|] t ph|]|] eqn:G;
    try (injection H as <- <-; repeat split; apply quiet_nil).
  cbv zeta in H.
  assert (Hh : holders f (set_st a (AConn cb false t ph) s) = holders f s) by (hs_same G).
  destruct (mem a (s_active (set_st a (AConn cb false t ph) s))) eqn:Em.
  - apply (run_queue_count f) in H. destruct H as (H1 & H2 & H3). split; [|split].
    + rewrite H1. exact Hh.
    + rewrite H2. simpl. apply set_st_nfetch.
    + exact H3.
  - injection H as <- <-. split; [exact Hh|]. split; [apply set_st_nfetch|apply quiet_bug].
Qed.

Lemma run_callback_count f a o s s' l :
  run_callback a o s = (s', l) ->
  holders f s' + cnt f l = holders f s /\ s_nfetch s' = s_nfetch s /\ oklog l.
Proof.
  intro H. unfold run_callback in H. destruct (release a s) as [s1 l1] eqn:R.
  apply (release_count f) in R. destruct R as (R1 & R2 & R3).
  assert (C1 := cnt_quiet f l1 R3).
  destruct (nth_error (s_atts s1) a) as [x|] eqn:En.
  - rewrite (nth_get_st' _ _ _ En), (nth_owner_of' _ _ _ En) in H.
    destruct (a_st x) as [tm|[|] rel t ph|] eqn:Ex;
      try (injection H as <- <-; split; [lia|split; [exact R2|apply oklog_quiet; exact R3]]).
    injection H as <- <-. split; [|split].
    + assert (K := holders_set_st f a (AConn false rel t ph) s1 x En).
      unfold hkey in K. rewrite holds_holds_st, Ex in K. simpl in K.
      rewrite cnt_app, cnt_deliver. destruct (Nat.eqb (a_owner x) f); simpl in K |- *; lia.
    + rewrite set_st_nfetch. exact R2.
    + apply oklog_app; [apply oklog_quiet; exact R3|apply oklog_deliver].
  - unfold get_st in H. rewrite En in H. injection H as <- <-.
    split; [lia|split; [exact R2|apply oklog_quiet; exact R3]].
Qed.

Lemma close_stream_holders f a s : holders f (close_stream a s) = holders f s.
Proof.
  unfold close_stream. destruct (get_st a s) as [[tm|cb rel t [| |]|]|] eqn:G; try reflexivity.
  hs_same G.
Qed.
Lemma close_stream_nfetch a s : s_nfetch (close_stream a s) = s_nfetch s.
Proof.
  unfold close_stream. destruct (get_st a s) as [[tm|cb rel t [| |]|]|]; try reflexivity.
  apply set_st_nfetch.
Qed.

Lemma handle_exception_count f a o s s' l :
  handle_exception a o s = (s', l) ->
  holders f s' + cnt f l = holders f s /\ s_nfetch s' = s_nfetch s /\ oklog l.
Proof.
  intro H. unfold handle_exception in H.
  destruct (get_st a s) as [[tm|[|] rel t ph|]|] eqn:G;
    try (injection H as <- <-; rewrite cnt_nil; split; [lia|split; [reflexivity|apply oklog_nil]]).
  cbv zeta in H.
  assert (Hh : holders f (set_st a (AConn true rel None ph) s) = holders f s) by (hs_same G).
  destruct (run_callback a o (set_st a (AConn true rel None ph) s)) as [s2 l2] eqn:R.
  injection H as <- <-. apply (run_callback_count f) in R. destruct R as (R1 & R2 & R3).
  rewrite close_stream_holders, close_stream_nfetch. split; [lia|].
  split; [rewrite R2; apply set_st_nfetch|exact R3].
Qed.

Lemma fetch_impl_count f owner hop sp s s' l :
  fetch_impl owner hop sp s = (s', l) ->
  holders f s' = holders f s + b2n (Nat.eqb owner f) /\ s_nfetch s' = s_nfetch s /\ quiet l.
Proof.
  intro H. unfold fetch_impl in H. apply (run_queue_count f) in H. destruct H as (H1 & H2 & H3).
  split; [|split; [exact H2|exact H3]].
  rewrite H1. rewrite !holders_hkey. simpl. rewrite filter_app, app_length. simpl.
  unfold hkey at 2. simpl. rewrite andb_true_r. destruct (Nat.eqb owner f); reflexivity.
Qed.

Lemma finish_count f a code hasloc s s' l :
  finish a code hasloc s = (s', l) ->
  holders f s' + cnt f l = holders f s /\ s_nfetch s' = s_nfetch s /\ oklog l.
Proof.
  intro H. unfold finish in H.
  destruct (nth_error (s_atts s) a) as [[g hop sp [tm|cb rel t ph|]]|] eqn:En;
    try (injection H as <- <-; rewrite cnt_nil; split; [lia|split; [reflexivity|apply oklog_nil]]).
  cbv zeta in H.
  assert (G := nth_get_st _ _ _ _ _ _ En).
  assert (Hh : holders f (set_st a (AConn cb rel None ph) s) = holders f s) by (hs_same G).
  assert (N0 := set_st_nth_same a (AConn cb rel None ph) s _ En).
  destruct (should_follow sp code hasloc) eqn:Ef.
  - destruct cb.
    + destruct (release a (set_st a (AConn false rel None ph) (set_st a (AConn true rel None ph) s)))
        as [s2 l2] eqn:R.
      destruct (fetch_impl g true (redirected_spec sp) s2) as [s3 l3] eqn:Fi.
      injection H as <- <-.
      apply (release_count f) in R. destruct R as (R1 & R2 & R3).
      apply (fetch_impl_count f) in Fi. destruct Fi as (F1 & F2 & F3).
      assert (K := holders_set_st f a (AConn false rel None ph) _ _ N0).
      unfold hkey, with_st in K. simpl in K.
      rewrite close_stream_holders, close_stream_nfetch, cnt_app.
      rewrite (cnt_quiet f l2 R3), (cnt_quiet f l3 F3).
      split; [|split].
      * rewrite andb_true_r, andb_false_r in K. simpl in K. lia.
      * rewrite F2, R2, !set_st_nfetch. reflexivity.
      * apply oklog_app; apply oklog_quiet; assumption.
    + injection H as <- <-. rewrite (cnt_quiet f _ (quiet_bug _)).
      split; [lia|split; [apply set_st_nfetch|apply oklog_bug]].
  - destruct (run_callback a (OCode code) (set_st a (AConn cb rel None ph) s)) as [s1 l1] eqn:R.
    injection H as <- <-. apply (run_callback_count f) in R. destruct R as (R1 & R2 & R3).
    rewrite close_stream_holders, close_stream_nfetch. split; [lia|].
    split; [rewrite R2; apply set_st_nfetch|exact R3].
Qed.

(* ---------------- step ---------------- *)
Lemma step_fetch_count f sp s s' l :
  step (EFetch sp) s = (s', l) ->
  holders f s' = holders f s + b2n (Nat.eqb (s_nfetch s) f) /\ s_nfetch s' = S (s_nfetch s) /\ quiet l.
Proof. intro H. simpl in H. apply (fetch_impl_count f) in H. exact H. Qed.

Ltac triv H f :=
  injection H as <- <-; rewrite cnt_nil; split; [lia|split; [reflexivity|apply oklog_nil]].

Lemma step_other_count f e s s' l :
  (forall sp, e <> EFetch sp) -> step e s = (s', l) ->
  holders f s' + cnt f l = holders f s /\ s_nfetch s' = s_nfetch s /\ oklog l.
Proof.
  intros Hne H. destruct e as [sp|a|a|a|a|a code hasloc|a|a|a|a]; simpl in H.
  - exfalso. eapply Hne. reflexivity.
  - (* EQTimeout *)
    destruct (nth_error (s_atts s) a) as [x|] eqn:En.
    + rewrite (nth_get_st' _ _ _ En), (nth_owner_of' _ _ _ En) in H.
      destruct (a_st x) as [[|]|cb rel t ph|] eqn:Ex; try (triv H f).
      destruct (mem a (s_queue s)).
      * injection H as <- <-. split; [|split].
        -- assert (K := holders_set_st f a AGone (set_queue (remove1 a (s_queue s)) s) x En).
           unfold hkey in K. rewrite holds_holds_st, Ex in K. simpl in K.
           rewrite cnt_deliver.
           change (holders f (set_queue (remove1 a (s_queue s)) s)) with (holders f s) in K.
           destruct (Nat.eqb (a_owner x) f); simpl in K |- *; lia.
        -- rewrite set_st_nfetch. reflexivity.
        -- apply oklog_deliver.
      * injection H as <- <-. rewrite (cnt_quiet f _ (quiet_bug _)).
        split; [lia|split; [reflexivity|apply oklog_bug]].
    + unfold get_st in H. rewrite En in H. triv H f.
  - (* ECTimeout *)
    destruct (get_st a s) as [[tm|cb rel [k|] ph|]|] eqn:G; try (triv H f).
    cbv zeta in H.
    assert (Hh : holders f (set_st a (AConn cb rel None ph) s) = holders f s) by (hs_same G).
    destruct cb.
    + apply (handle_exception_count f) in H. destruct H as (H1 & H2 & H3).
      split; [lia|split; [rewrite H2; apply set_st_nfetch|exact H3]].
    + injection H as <- <-. rewrite cnt_nil. split; [lia|split; [apply set_st_nfetch|apply oklog_nil]].
  - (* EConnOk *)
    destruct (nth_error (s_atts s) a) as [[g hop sp [tm|cb rel t [| |]|]]|] eqn:En; try (triv H f).
    assert (G := nth_get_st _ _ _ _ _ _ En).
    destruct cb.
    + cbv zeta in H.
      assert (Hh : holders f (set_st a (AConn true rel (if sp_rt sp then Some TRequest else None) POpen) s)
                   = holders f s) by (hs_same G).
      destruct (sp_bad sp).
      * apply (handle_exception_count f) in H. destruct H as (H1 & H2 & H3).
        split; [lia|split; [rewrite H2; apply set_st_nfetch|exact H3]].
      * injection H as <- <-. rewrite cnt_nil.
        split; [lia|split; [apply set_st_nfetch|apply oklog_nil]].
    + injection H as <- <-. rewrite cnt_nil.
      split; [|split; [apply set_st_nfetch|apply oklog_nil]].
      assert (Hh : holders f (set_st a (AConn false rel t PFinished) s) = holders f s) by (hs_same G).
      lia.
  - (* EConnFail *)
    destruct (get_st a s) as [[tm|cb rel t [| |]|]|] eqn:G; try (triv H f).
    assert (Hh : holders f (set_st a (AConn cb rel t PFinished) s) = holders f s) by (hs_same G).
    apply (handle_exception_count f) in H. destruct H as (H1 & H2 & H3).
    split; [lia|split; [rewrite H2; apply set_st_nfetch|exact H3]].
  - (* ERespond *)
    destruct (get_st a s) as [[tm|cb rel t [| |]|]|] eqn:G; try (triv H f).
    apply (finish_count f) in H. exact H.
  - (* EClose *)
    destruct (get_st a s) as [[tm|cb rel t [| |]|]|] eqn:G; try (triv H f).
    assert (Hh : holders f (set_st a (AConn cb rel t PFinished) s) = holders f s) by (hs_same G).
    apply (handle_exception_count f) in H. destruct H as (H1 & H2 & H3).
    split; [lia|split; [rewrite H2; apply set_st_nfetch|exact H3]].
  - (* EReset *)
    destruct (get_st a s) as [[tm|cb rel t [| |]|]|] eqn:G; try (triv H f).
    assert (Hh : holders f (set_st a (AConn cb rel t PFinished) s) = holders f s) by (hs_same G).
    apply (handle_exception_count f) in H. destruct H as (H1 & H2 & H3).
    split; [lia|split; [rewrite H2; apply set_st_nfetch|exact H3]].
  - (* EMalformed *)
    destruct (get_st a s) as [[tm|cb rel t [| |]|]|] eqn:G; try (triv H f).
    assert (Hh : holders f (set_st a (AConn cb rel t PFinished) s) = holders f s) by (hs_same G).
    apply (handle_exception_count f) in H. destruct H as (H1 & H2 & H3).
    split; [lia|split; [rewrite H2; apply set_st_nfetch|exact H3]].
  - (* EBadFraming *)
    destruct (get_st a s) as [[tm|cb rel t [| |]|]|] eqn:G; try (triv H f).
    assert (Hh : holders f (set_st a (AConn cb rel t PFinished) s) = holders f s) by (hs_same G).
    apply (handle_exception_count f) in H. destruct H as (H1 & H2 & H3).
    split; [lia|split; [rewrite H2; apply set_st_nfetch|exact H3]].
Qed.

Lemma step_oklog e s s' l : step e s = (s', l) -> oklog l.
Proof.
  intro H. destruct e as [sp|a|a|a|a|a code hasloc|a|a|a|a];
    try (apply (step_other_count 0) in H; [apply H|intros sp0 E0; discriminate E0]).
  apply (step_fetch_count 0) in H. apply oklog_quiet, H.
Qed.

(* ---------------- the counting invariant ---------------- *)
Definition CInv (s : st) (L : list logev) : Prop :=
  forall f, holders f s + count_done f L + count_lost f L = (if f <? s_nfetch s then 1 else 0).

Lemma CInv_init m : CInv (init m) [].
Proof. intro f. reflexivity. Qed.

Lemma CInv_step e s L s' l : CInv s L -> step e s = (s', l) -> CInv s' (L ++ l).
Proof.
  intros HI H f. specialize (HI f). rewrite count_done_app, count_lost_app.
  destruct e as [sp|a|a|a|a|a code hasloc|a|a|a|a];
    try (apply (step_other_count f) in H; [|intros sp0 E0; discriminate E0];
         destruct H as (H1 & H2 & _); rewrite H2; unfold cnt in H1; lia).
  apply (step_fetch_count f) in H. destruct H as (H1 & H2 & H3).
  assert (C := cnt_quiet f l H3). unfold cnt in C. rewrite H1, H2.
  destruct (Nat.eqb (s_nfetch s) f) eqn:E1.
  - apply Nat.eqb_eq in E1. subst f.
    assert (E2 : (s_nfetch s <? s_nfetch s) = false) by (apply Nat.ltb_ge; lia).
    assert (E3 : (s_nfetch s <? S (s_nfetch s)) = true) by (apply Nat.ltb_lt; lia).
    rewrite E2 in HI. rewrite E3. simpl. lia.
  - apply Nat.eqb_neq in E1.
    destruct (f <? s_nfetch s) eqn:E2.
    + apply Nat.ltb_lt in E2. assert (E3 : (f <? S (s_nfetch s)) = true) by (apply Nat.ltb_lt; lia).
      rewrite E3. simpl. lia.
    + apply Nat.ltb_ge in E2. assert (E3 : (f <? S (s_nfetch s)) = false) by (apply Nat.ltb_ge; lia).
      rewrite E3. simpl. lia.
Qed.

Lemma CInv_exec m es s L : exec es (init m) = (s, L) -> CInv s L.
Proof. apply (exec_invariant_init CInv m (CInv_init m) CInv_step). Qed.

(* T4 *)
Theorem machine_exactly_once : forall m es s L, exec es (init m) = (s, L) ->
  forall f, holders f s + count_done f L + count_lost f L = (if f <? s_nfetch s then 1 else 0).
Proof. intros m es s L H. exact (CInv_exec m es s L H). Qed.

Theorem machine_at_most_once : forall m es s L, exec es (init m) = (s, L) ->
  forall f, count_done f L <= 1.
Proof.
  intros m es s L H f. assert (K := machine_exactly_once m es s L H f).
  destruct (f <? s_nfetch s); lia.
Qed.

(* T7 *)
Definition LInv (s : st) (L : list logev) : Prop :=
  forall f o, In (LLost f o) L -> is_response o = false.

Lemma LInv_step e s L s' l : LInv s L -> step e s = (s', l) -> LInv s' (L ++ l).
Proof.
  intros HI H f o Hin. apply in_app_or in Hin. destruct Hin as [Hin|Hin]; [eapply HI; eauto|].
  apply step_oklog in H. destruct (H _ Hin) as [[a E]|[[b E]|(hop & g & o' & E)]]; try discriminate E.
  symmetry in E. apply deliver_is_lost in E. destruct E as (_ & -> & _ & E). exact E.
Qed.

Theorem machine_lost_only_after_redirect_error : forall m es s L, exec es (init m) = (s, L) ->
  forall f o, In (LLost f o) L -> is_response o = false.
Proof.
  intros m es s L H.
  refine (exec_invariant_init LInv m _ LInv_step es s L H). intros f o [].
Qed.

(* the fixed model never loses a completion *)
Definition NLInv (s : st) (L : list logev) : Prop := forall f o, ~ In (LLost f o) L.

Lemma NLInv_step e s L s' l : NLInv s L -> step e s = (s', l) -> NLInv s' (L ++ l).
Proof.
  intros HI H f o Hin. apply in_app_or in Hin. destruct Hin as [Hin|Hin]; [eapply HI; eauto|].
  apply step_oklog in H. destruct (H _ Hin) as [[a E]|[[b E]|(hop & g & o' & E)]]; try discriminate E.
  symmetry in E. eapply deliver_never_lost. exact E.
Qed.

Theorem machine_never_lost : forall m es s L, exec es (init m) = (s, L) ->
  forall f o, ~ In (LLost f o) L.
Proof.
  intros m es s L H.
  refine (exec_invariant_init NLInv m _ NLInv_step es s L H). intros f o [].
Qed.

Lemma count_lost_zero f L : (forall g o, ~ In (LLost g o) L) -> count_lost f L = 0.
Proof.
  induction L as [|e L IH]; intro H; [reflexivity|].
  change (e :: L) with ([e] ++ L). rewrite count_lost_app, IH.
  - destruct e as [a|g o|g o|b]; try reflexivity. exfalso. eapply H. left. reflexivity.
  - intros g o Hin. eapply H. right. exact Hin.
Qed.

Theorem machine_exactly_once' : forall m es s L, exec es (init m) = (s, L) ->
  forall f, holders f s + count_done f L = (if f <? s_nfetch s then 1 else 0).
Proof.
  intros m es s L H f. assert (K := machine_exactly_once m es s L H f).
  rewrite (count_lost_zero f L (machine_never_lost m es s L H)) in K. lia.
Qed.

Print Assumptions machine_exactly_once.
Print Assumptions machine_never_lost.
Print Assumptions machine_exactly_once'.
Print Assumptions machine_at_most_once.
Print Assumptions machine_lost_only_after_redirect_error.
