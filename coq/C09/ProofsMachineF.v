(* C09 — machine-level proofs, part F (compiled BEFORE part E, which imports it):
   F1 machine_slot_iff_callback : at event boundaries a connection holds its slot exactly as long
      as its callback is pending (cb = rel);
   F2 machine_conservation : |active| + |queue| + |dones L| = number of user fetches. *)
From Coq Require Import List NArith ZArith Bool Arith Lia Sorting.Sorted Sorting.Permutation.
Import ListNotations.
From TV Require Import C09.Model
  C09.ProofsMachineA C09.ProofsMachineB C09.ProofsMachineC C09.ProofsMachineD.

Local Opaque deliver.

(* ---------------- the user fetches completed so far ---------------- *)
Definition dones (L : list logev) : list nat :=
  flat_map (fun e => match e with LDone f _ => [f] | _ => [] end) L.

Lemma dones_app L l : dones (L ++ l) = dones L ++ dones l.
Proof. unfold dones. apply flat_map_app. Qed.

Lemma count_done_occ f L : count_done f L = count_occ Nat.eq_dec (dones L) f.
Proof.
  induction L as [|e L IH]; [reflexivity|].
  change (e :: L) with ([e] ++ L). rewrite count_done_app, dones_app, count_occ_app, IH.
  f_equal. destruct e as [a|g o|g o|b]; try reflexivity.
  unfold count_done. simpl. destruct (Nat.eq_dec g f) as [->|Hne].
  - rewrite Nat.eqb_refl. reflexivity.
  - apply Nat.eqb_neq in Hne. rewrite Hne. reflexivity.
Qed.

Lemma In_dones_count f L : In f (dones L) <-> 1 <= count_done f L.
Proof.
  rewrite count_done_occ. rewrite (count_occ_In Nat.eq_dec). unfold gt, lt. reflexivity.
Qed.

(* ================================================================== *)
(* F1                                                                  *)
(* ================================================================== *)
Definition eq_ok (x : att) : Prop :=
  match a_st x with AConn cb rel _ _ => cb = rel | _ => True end.
Definition G3 (s : st) : Prop := forall b x, nth_error (s_atts s) b = Some x -> eq_ok x.

Lemma eq_ok_started x : eq_ok (started x).
Proof. reflexivity. Qed.
Lemma eq_ok_dead x t ph : eq_ok (with_st x (AConn false false t ph)).
Proof. reflexivity. Qed.

Lemma eq_ok_ev1 x o' x' : eq_ok x -> ev1 (Some x) o' -> o' = Some x' -> eq_ok x'.
Proof.
  intros Hok [->|(z & E & _ & ->)] E'.
  - injection E' as <-. exact Hok.
  - injection E' as <-. apply eq_ok_started.
Qed.

Lemma G3_ev1 s b o' x' :
  G3 s -> ev1 (nth_error (s_atts s) b) o' -> o' = Some x' -> eq_ok x'.
Proof.
  intros HG Hev E. subst o'. destruct (ev1_Some_inv _ _ Hev) as [x Hx]. rewrite Hx in Hev.
  eapply eq_ok_ev1; [eapply HG; exact Hx|exact Hev|reflexivity].
Qed.

Lemma G3_fr a s s' y :
  G3 s -> fr a s s' y -> (forall x, nth_error (s_atts s) a = Some x -> eq_ok (with_st x y)) -> G3 s'.
Proof.
  intros HG (_ & Hev & x & Hx & Hx') Hy b x' Hn'. destruct (Nat.eq_dec b a) as [->|Hne].
  - rewrite Hx' in Hn'. injection Hn' as <-. apply Hy. exact Hx.
  - eapply (G3_ev1 s b); [exact HG|apply Hev; exact Hne|exact Hn'].
Qed.

Lemma G3_he a o s s' l x cb rel t ph :
  G3 s -> nth_error (s_atts s) a = Some x ->
  (cb = false -> eq_ok (with_st x (AConn false rel t ph))) ->
  handle_exception a o (set_st a (AConn cb rel t ph) s) = (s', l) -> G3 s'.
Proof.
  intros HG Hn Hc H. destruct (he_after_set _ _ _ _ _ _ _ _ _ _ Hn H) as [(-> & F & _)|(-> & -> & _)].
  - eapply G3_fr; [exact HG|exact F|]. intros x0 _. apply eq_ok_dead.
  - eapply G3_fr; [exact HG|eapply fr_set_st; exact Hn|].
    intros x0 Hx0. rewrite Hn in Hx0. injection Hx0 as <-. apply Hc. reflexivity.
Qed.

Lemma fetch_impl_G3 owner hop sp s s' l :
  G3 s -> fetch_impl owner hop sp s = (s', l) -> G3 s'.
Proof.
  intros HG H b x' Hn'.
  destruct (fetch_impl_frame _ _ _ _ _ _ H) as (_ & _ & _ & HL & Hev & y & Hy & Hyy).
  assert (Hlt : b < List.length (s_atts s')) by (apply nth_error_Some; congruence).
  rewrite HL in Hlt.
  destruct (Nat.eq_dec b (List.length (s_atts s))) as [->|Hne].
  - rewrite Hy in Hn'. injection Hn' as <-. destruct Hyy as [-> | ->]; reflexivity.
  - eapply (G3_ev1 s b); [exact HG|apply Hev; lia|exact Hn'].
Qed.

Ltac eok := unfold eq_ok, with_st in *; simpl in *; congruence.

Lemma G3_step e s L s' l : MInv s L -> G3 s -> step e s = (s', l) -> G3 s'.
Proof.
  intros (HG1 & HG2 & _) HG H. destruct e as [sp|a|a|a|a|a code hasloc|a|a|a|a]; simpl in H.
  - (* EFetch *)
    eapply fetch_impl_G3; [|exact H]. exact HG.
  - (* EQTimeout *)
    destruct (nth_error (s_atts s) a) as [x|] eqn:En.
    + rewrite (nth_get_st' _ _ _ En), (nth_owner_of' _ _ _ En) in H.
      destruct (a_st x) as [[|]|cb rel t ph|] eqn:Ex; try (injection H as <- <-; exact HG).
      destruct (mem a (s_queue s)); injection H as <- <-; [|exact HG].
      eapply (G3_fr a (set_queue (remove1 a (s_queue s)) s)); [exact HG|eapply fr_set_st; exact En|].
      intros x0 _. exact I.
    + unfold get_st in H. rewrite En in H. injection H as <- <-. exact HG.
  - (* ECTimeout *)
    destruct (nth_error (s_atts s) a) as [[f hop sp y]|] eqn:En.
    + rewrite (nth_get_st _ _ _ _ _ _ En) in H.
      destruct y as [tm|cb rel [k|] ph|]; try (injection H as <- <-; exact HG).
      cbv zeta in H. assert (Hok := HG _ _ En). destruct cb.
      * eapply G3_he; [exact HG|exact En| |exact H]. intro E. discriminate E.
      * injection H as <- <-. eapply G3_fr; [exact HG|eapply fr_set_st; exact En|].
        intros x0 Hx0. rewrite En in Hx0. injection Hx0 as <-. clear - Hok. eok.
    + unfold get_st in H. rewrite En in H. injection H as <- <-. exact HG.
  - (* EConnOk *)
    destruct (nth_error (s_atts s) a) as [[f hop sp [tm|cb rel t [| |]|]]|] eqn:En;
      try (injection H as <- <-; exact HG).
    assert (Hok := HG _ _ En). destruct cb.
    + cbv zeta in H. destruct (sp_bad sp).
      * eapply G3_he; [exact HG|exact En| |exact H]. intro E. discriminate E.
      * injection H as <- <-. eapply G3_fr; [exact HG|eapply fr_set_st; exact En|].
        intros x0 Hx0. rewrite En in Hx0. injection Hx0 as <-. clear - Hok. eok.
    + injection H as <- <-. eapply G3_fr; [exact HG|eapply fr_set_st; exact En|].
      intros x0 Hx0. rewrite En in Hx0. injection Hx0 as <-. clear - Hok. eok.
  - (* EConnFail *)
    destruct (nth_error (s_atts s) a) as [[f hop sp y]|] eqn:En.
    + rewrite (nth_get_st _ _ _ _ _ _ En) in H.
      destruct y as [tm|cb rel t [| |]|]; try (injection H as <- <-; exact HG).
      assert (Hok := HG _ _ En).
      eapply G3_he; [exact HG|exact En| |exact H]. intros ->. clear - Hok. eok.
    + unfold get_st in H. rewrite En in H. injection H as <- <-. exact HG.
  - (* ERespond *)
    destruct (nth_error (s_atts s) a) as [[f hop sp y]|] eqn:En.
    + rewrite (nth_get_st _ _ _ _ _ _ En) in H.
      destruct y as [tm|cb rel t [| |]|]; try (injection H as <- <-; exact HG).
      assert (Hcb : cb = true).
      { destruct (HG2 _ _ En) as [Hf _]. unfold flags_ok in Hf. simpl in Hf.
        destruct Hf as (_ & Hp & _). apply Hp. reflexivity. }
      subst cb.
      destruct (should_follow sp code hasloc) eqn:Ef.
      * destruct (finish_follow_spec _ _ _ _ _ _ _ _ _ _ _ _ L HG1 En Ef H)
          as (_ & Hev & HL & Na & y & Hy & Hoky & Hh).
        intros b x' Hn'.
        assert (Hlt : b < List.length (s_atts s')) by (apply nth_error_Some; congruence).
        rewrite HL in Hlt.
        destruct (Nat.eq_dec b a) as [->|Hne].
        { rewrite Na in Hn'. injection Hn' as <-. reflexivity. }
        destruct (Nat.eq_dec b (List.length (s_atts s))) as [->|Hne2].
        { rewrite Hy in Hn'. injection Hn' as <-.
          destruct y as [tm|[|] rel0 t0 ph0|]; simpl in Hh; try discriminate Hh; [exact I|].
          destruct Hoky as [(Hr & _) _]. unfold eq_ok. simpl. symmetry. apply Hr. reflexivity. }
        eapply (G3_ev1 s b); [exact HG|apply Hev; [exact Hne|lia]|exact Hn'].
      * destruct (finish_plain_fr _ _ _ _ _ _ _ _ _ _ _ _ _ En Ef H) as [F _].
        eapply G3_fr; [exact HG|exact F|]. intros x0 _. apply eq_ok_dead.
    + unfold get_st in H. rewrite En in H. injection H as <- <-. exact HG.
  - (* EClose *)
    destruct (nth_error (s_atts s) a) as [[f hop sp y]|] eqn:En.
    + rewrite (nth_get_st _ _ _ _ _ _ En) in H.
      destruct y as [tm|cb rel t [| |]|]; try (injection H as <- <-; exact HG).
      assert (Hok := HG _ _ En).
      eapply G3_he; [exact HG|exact En| |exact H]. intros ->. clear - Hok. eok.
    + unfold get_st in H. rewrite En in H. injection H as <- <-. exact HG.
  - (* EReset *)
    destruct (nth_error (s_atts s) a) as [[f hop sp y]|] eqn:En.
    + rewrite (nth_get_st _ _ _ _ _ _ En) in H.
      destruct y as [tm|cb rel t [| |]|]; try (injection H as <- <-; exact HG).
      assert (Hok := HG _ _ En).
      eapply G3_he; [exact HG|exact En| |exact H]. intros ->. clear - Hok. eok.
    + unfold get_st in H. rewrite En in H. injection H as <- <-. exact HG.
  - (* EMalformed *)
    destruct (nth_error (s_atts s) a) as [[f hop sp y]|] eqn:En.
    + rewrite (nth_get_st _ _ _ _ _ _ En) in H.
      destruct y as [tm|cb rel t [| |]|]; try (injection H as <- <-; exact HG).
      assert (Hok := HG _ _ En).
      eapply G3_he; [exact HG|exact En| |exact H]. intros ->. clear - Hok. eok.
    + unfold get_st in H. rewrite En in H. injection H as <- <-. exact HG.
  - (* EBadFraming *)
    destruct (nth_error (s_atts s) a) as [[f hop sp y]|] eqn:En.
    + rewrite (nth_get_st _ _ _ _ _ _ En) in H.
      destruct y as [tm|cb rel t [| |]|]; try (injection H as <- <-; exact HG).
      assert (Hok := HG _ _ En).
      eapply G3_he; [exact HG|exact En| |exact H]. intros ->. clear - Hok. eok.
    + unfold get_st in H. rewrite En in H. injection H as <- <-. exact HG.
Qed.

Definition MInv3 (s : st) (L : list logev) : Prop := MInv s L /\ G3 s.

Lemma MInv3_init m : MInv3 (init m) [].
Proof. split; [apply MInv_init|]. intros b x Hn. destruct b; discriminate Hn. Qed.

Lemma MInv3_step e s L s' l : MInv3 s L -> step e s = (s', l) -> MInv3 s' (L ++ l).
Proof.
  intros [H1 H2] H. split; [eapply MInv_step; eauto|]. exact (G3_step _ _ _ _ _ H1 H2 H).
Qed.

Lemma MInv3_exec m es s L : exec es (init m) = (s, L) -> MInv3 s L.
Proof. apply (exec_invariant_init MInv3 m (MInv3_init m) MInv3_step). Qed.

(* F1 *)
Theorem machine_slot_iff_callback : forall m es s L, exec es (init m) = (s, L) ->
  forall a cb rel t ph, get_st a s = Some (AConn cb rel t ph) -> cb = rel.
Proof.
  intros m es s L H a cb rel t ph E. destruct (MInv3_exec _ _ _ _ H) as [_ H3].
  apply get_st_nth in E. destruct E as (f & hop & sp & En). exact (H3 _ _ En).
Qed.

(* ================================================================== *)
(* F2                                                                  *)
(* ================================================================== *)

(* ---------------- finite sums ---------------- *)
Fixpoint sumn (n : nat) (g : nat -> nat) : nat :=
  match n with 0 => 0 | S k => sumn k g + g k end.

Lemma sumn_ext n g h : (forall f, f < n -> g f = h f) -> sumn n g = sumn n h.
Proof.
  induction n as [|n IH]; intro H; simpl; [reflexivity|].
  rewrite IH, (H n) by (intros; auto with arith). reflexivity.
Qed.
Lemma sumn_add n g h : sumn n (fun f => g f + h f) = sumn n g + sumn n h.
Proof. induction n as [|n IH]; simpl; [reflexivity|]. rewrite IH. lia. Qed.
Lemma sumn_zero n g : (forall f, f < n -> g f = 0) -> sumn n g = 0.
Proof.
  induction n as [|n IH]; intro H; simpl; [reflexivity|].
  rewrite IH, (H n) by (intros; auto with arith). reflexivity.
Qed.
Lemma sumn_one n : sumn n (fun _ => 1) = n.
Proof. induction n as [|n IH]; simpl; [reflexivity|]. rewrite IH. lia. Qed.
Lemma sumn_eqb n k : sumn n (fun f => b2n (Nat.eqb k f)) = b2n (k <? n).
Proof.
  induction n as [|n IH]; simpl sumn; [reflexivity|]. rewrite IH.
  destruct (Nat.ltb_spec k n), (Nat.eqb_spec k n), (Nat.ltb_spec k (S n)); simpl; lia.
Qed.

Lemma sum_filter {A} (key : A -> nat) (p : A -> bool) n : forall l,
  (forall x, In x l -> p x = true -> key x < n) ->
  sumn n (fun f => List.length (filter (fun x => Nat.eqb (key x) f && p x) l)) = List.length (filter p l).
Proof.
  induction l as [|a l IH]; intro H.
  - apply sumn_zero. reflexivity.
  - rewrite (sumn_ext n _ (fun f => b2n (Nat.eqb (key a) f && p a)
                                    + List.length (filter (fun x => Nat.eqb (key x) f && p x) l))).
    2:{ intros f _. simpl. destruct (Nat.eqb (key a) f && p a); reflexivity. }
    rewrite sumn_add, IH by (intros x Hx; apply H; right; exact Hx).
    simpl. destruct (p a) eqn:Ep.
    + rewrite (sumn_ext n _ (fun f => b2n (Nat.eqb (key a) f)))
        by (intros f _; rewrite andb_true_r; reflexivity).
      rewrite sumn_eqb. assert (Hk : key a < n) by (apply H; [left; reflexivity|exact Ep]).
      apply Nat.ltb_lt in Hk. rewrite Hk. reflexivity.
    + rewrite sumn_zero by (intros f _; rewrite andb_false_r; reflexivity). reflexivity.
Qed.

Lemma filter_ge1 {A} (q : A -> bool) x l : In x l -> q x = true -> 1 <= List.length (filter q l).
Proof.
  induction l as [|y l IH]; intros Hin Hq; [destruct Hin|]. simpl. destruct Hin as [->|Hin].
  - rewrite Hq. simpl. lia.
  - destruct (q y); simpl; [lia|apply IH; assumption].
Qed.

(* ---------------- counting by indices ---------------- *)
Lemma map_nth_error_seq {A} (l : list A) :
  map (nth_error l) (seq 0 (List.length l)) = map Some l.
Proof.
  induction l as [|x l IH]; [reflexivity|].
  simpl List.length. rewrite <- cons_seq, <- seq_shift. simpl. rewrite map_map. simpl.
  f_equal. exact IH.
Qed.

Lemma filter_map_length {A B} (f : A -> B) (h : B -> bool) l :
  List.length (filter h (map f l)) = List.length (filter (fun a => h (f a)) l).
Proof.
  induction l as [|x l IH]; [reflexivity|]. simpl. destruct (h (f x)); simpl; rewrite IH; reflexivity.
Qed.

Definition popt {A} (p : A -> bool) (o : option A) : bool :=
  match o with Some x => p x | None => false end.

Lemma idx_count {A} (l : list A) (p : A -> bool) (q : list nat) :
  NoDup q ->
  (forall a, In a q <-> popt p (nth_error l a) = true) ->
  List.length q = List.length (filter p l).
Proof.
  intros ND Hq.
  set (idx := filter (fun a => popt p (nth_error l a)) (seq 0 (List.length l))).
  assert (P : Permutation q idx).
  { apply NoDup_Permutation; [exact ND|apply NoDup_filter, seq_NoDup|].
    intro a. rewrite Hq. unfold idx. rewrite filter_In, in_seq. split.
    - intro Hp. split; [|exact Hp]. split; [lia|]. simpl. apply nth_error_Some.
      intro E. rewrite E in Hp. discriminate Hp.
    - intros [_ Hp]. exact Hp. }
  apply Permutation_length in P. rewrite P. unfold idx.
  rewrite <- (filter_map_length (nth_error l) (popt p)), map_nth_error_seq, filter_map_length.
  reflexivity.
Qed.

Lemma filter_split {A} (p q r : A -> bool) l :
  (forall x, In x l -> p x = q x || r x) -> (forall x, In x l -> q x && r x = false) ->
  List.length (filter p l) = List.length (filter q l) + List.length (filter r l).
Proof.
  induction l as [|x l IH]; intros H1 H2; [reflexivity|]. simpl.
  assert (E := IH (fun y Hy => H1 y (or_intror Hy)) (fun y Hy => H2 y (or_intror Hy))).
  specialize (H1 x (or_introl eq_refl)). specialize (H2 x (or_introl eq_refl)).
  rewrite H1. destruct (q x), (r x); simpl in *; try discriminate H2; lia.
Qed.

Lemma filter_ext_in_length {A} (p q : A -> bool) l :
  (forall x, In x l -> p x = q x) -> List.length (filter p l) = List.length (filter q l).
Proof. intro H. rewrite (filter_ext_in p q l H). reflexivity. Qed.

(* ---------------- the three classes of attempts ---------------- *)
Definition is_rel (x : att) : bool := match a_st x with AConn _ true _ _ => true | _ => false end.
Definition is_cb (x : att) : bool := match a_st x with AConn true _ _ _ => true | _ => false end.

Lemma kd_popt b s k (p : att -> bool) :
  (forall x, p x = Nat.eqb (kind (a_st x)) k) ->
  (kd b s = Some k <-> popt p (nth_error (s_atts s) b) = true).
Proof.
  intro Hp. unfold kd, get_st. destruct (nth_error (s_atts s) b) as [x|]; simpl.
  - rewrite Hp. split.
    + intro E. injection E as ->. apply Nat.eqb_refl.
    + intro E. apply Nat.eqb_eq in E. rewrite E. reflexivity.
  - split; intro E; discriminate E.
Qed.

Lemma holders_total s L :
  G1 s L -> G3 s ->
  List.length (filter holds (s_atts s)) = List.length (s_queue s) + List.length (s_active s).
Proof.
  intros [(I1 & _ & I3 & I4 & I5 & _) _] H3.
  rewrite (filter_split holds is_queued is_cb).
  - f_equal.
    + symmetry. apply idx_count.
      * apply SS_app_iff in I5. destruct I5 as (_ & S2 & _). apply SS_NoDup. exact S2.
      * intro a. rewrite I4. apply kd_popt. intro x. unfold is_queued.
        destruct (a_st x) as [tm|cb [|] t ph|]; reflexivity.
    + rewrite (filter_ext_in_length is_cb is_rel).
      * symmetry. apply idx_count; [exact I1|].
        intro a. rewrite I3. apply kd_popt. intro x. unfold is_rel.
        destruct (a_st x) as [tm|cb [|] t ph|]; reflexivity.
      * intros x Hin. apply In_nth_error in Hin. destruct Hin as [b Hb].
        assert (Hok := H3 _ _ Hb). unfold eq_ok in Hok. unfold is_cb, is_rel.
        destruct (a_st x) as [tm|cb rel t ph|]; try reflexivity. subst rel. reflexivity.
  - intros x _. unfold holds, is_queued, is_cb. destruct (a_st x) as [tm|[|] rel t ph|]; reflexivity.
  - intros x _. unfold is_queued, is_cb. destruct (a_st x) as [tm|[|] rel t ph|]; reflexivity.
Qed.

(* ---------------- summing exactly-once over the owners ---------------- *)
Lemma count_done_filter f L :
  count_done f L = List.length (filter (fun x => Nat.eqb x f && true) (dones L)).
Proof.
  induction L as [|e L IH]; [reflexivity|].
  change (e :: L) with ([e] ++ L). rewrite count_done_app, dones_app, filter_app, app_length, IH.
  f_equal. destruct e as [a|g o|g o|b]; try reflexivity.
  unfold count_done. simpl. rewrite andb_true_r. destruct (Nat.eqb g f); reflexivity.
Qed.

Lemma filter_true_length {A} (l : list A) : List.length (filter (fun _ => true) l) = List.length l.
Proof. induction l as [|x l IH]; [reflexivity|]. simpl. rewrite IH. reflexivity. Qed.

Lemma total_count s L :
  (forall f, holders f s + count_done f L = (if f <? s_nfetch s then 1 else 0)) ->
  List.length (filter holds (s_atts s)) + List.length (dones L) = s_nfetch s.
Proof.
  intro HC. set (n := s_nfetch s) in *.
  assert (S1 : sumn n (fun f => holders f s) = List.length (filter holds (s_atts s))).
  { apply (sum_filter a_owner holds n (s_atts s)). intros x Hin Hh.
    assert (K := HC (a_owner x)).
    assert (G : 1 <= holders (a_owner x) s).
    { unfold holders. apply (filter_ge1 _ x); [exact Hin|]. rewrite Nat.eqb_refl, Hh. reflexivity. }
    destruct (a_owner x <? n) eqn:E; [apply Nat.ltb_lt in E; exact E|lia]. }
  assert (S2 : sumn n (fun f => count_done f L) = List.length (dones L)).
  { rewrite (sumn_ext n _ (fun f => List.length (filter (fun x => Nat.eqb x f && true) (dones L))))
      by (intros f _; apply count_done_filter).
    rewrite (sum_filter (fun x => x) (fun _ => true) n (dones L)); [apply filter_true_length|].
    intros g Hin _. apply In_dones_count in Hin. assert (K := HC g).
    destruct (g <? n) eqn:E; [apply Nat.ltb_lt in E; exact E|lia]. }
  rewrite <- S1, <- S2, <- sumn_add.
  rewrite (sumn_ext n _ (fun _ => 1)); [apply sumn_one|].
  intros f Hf. rewrite HC. apply Nat.ltb_lt in Hf. rewrite Hf. reflexivity.
Qed.

(* conservation from the invariants alone (used for every prefix of a schedule) *)
Lemma conservation_inv s L :
  G1 s L -> G3 s -> CInv s L -> (forall g o, ~ In (LLost g o) L) ->
  List.length (s_active s) + List.length (s_queue s) + List.length (dones L) = s_nfetch s.
Proof.
  intros H1 H3 HC HN.
  assert (T : List.length (filter holds (s_atts s)) + List.length (dones L) = s_nfetch s).
  { apply total_count. intro f. specialize (HC f). rewrite (count_lost_zero f L HN) in HC. lia. }
  rewrite (holders_total s L H1 H3) in T. lia.
Qed.

(* F2 *)
Theorem machine_conservation : forall m es s L, exec es (init m) = (s, L) ->
  List.length (s_active s) + List.length (s_queue s) + List.length (dones L) = s_nfetch s.
Proof.
  intros m es s L H. destruct (MInv3_exec _ _ _ _ H) as [(H1 & _ & _) H3].
  assert (T := total_count s L (machine_exactly_once' m es s L H)).
  rewrite (holders_total s L H1 H3) in T. lia.
Qed.

Print Assumptions machine_slot_iff_callback.
Print Assumptions machine_conservation.
