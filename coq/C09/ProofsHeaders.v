(* C09 — which keys an HTTPHeaders object (C06 model) can have after add / __setitem__ /
   __delitem__ / copy.  Used by the redirect theorems. *)
From Coq Require Import List NArith Bool Lia.
Import ListNotations.
From TV Require Import C06.Model C06.ProofsBase.
Local Open Scope N_scope.

Definition hask (k : text) (h : hstate) : bool := d_mem k (as_list h).
(* every stored key is in normalised (Http-Header-Case) form *)
Definition keys_norm (h : hstate) : Prop := forall k, hask k h = true -> normalize k = k.

Lemma d_mem_get {V} : forall k (d : list (text * V)), d_mem k d = true <-> exists v, d_get k d = Some v.
Proof.
  intros k d. unfold d_mem. destruct (d_get k d) as [v|]; split; intro H; try discriminate; eauto.
  destruct H as [v H]. discriminate.
Qed.

Lemma d_mem_set {V} : forall k k0 (v : V) d,
  d_mem k (d_set k0 v d) = true <-> k = k0 \/ d_mem k d = true.
Proof.
  intros k k0 v d. unfold d_mem. destruct (text_eqb k0 k) eqn:E.
  - apply text_eqb_eq in E. subst. rewrite d_get_set_same. tauto.
  - apply text_eqb_neq in E. rewrite d_get_set_other by exact E. split; [tauto|].
    intros [H|H]; [congruence|exact H].
Qed.

Lemma d_mem_del {V} : forall k k0 (d : list (text * V)),
  d_mem k (d_del k0 d) = true <-> k <> k0 /\ d_mem k d = true.
Proof.
  intros k k0 d. unfold d_mem. destruct (text_eqb k0 k) eqn:E.
  - apply text_eqb_eq in E. subst. rewrite d_get_del_same. split; [discriminate|]. intros [H _]. congruence.
  - apply text_eqb_neq in E. rewrite d_get_del_other by exact E. split; [|tauto].
    intro H. split; [congruence|exact H].
Qed.

Lemma hask_empty : forall k, hask k empty_h = false.
Proof. reflexivity. Qed.

Lemma hask_set_item : forall k n v h,
  hask k (set_item n v h) = true <-> k = normalize n \/ hask k h = true.
Proof. intros. unfold hask, set_item. simpl. apply d_mem_set. Qed.

Lemma hask_del_item : forall k n h,
  hask k (snd (del_item n h)) = true <-> k <> normalize n /\ hask k h = true.
Proof.
  intros k n h. unfold del_item, hask.
  destruct (d_mem (normalize n) (as_list h)) eqn:E; simpl.
  - apply d_mem_del.
  - split; [|tauto]. intro H. split; [|exact H]. intro Heq. subst. congruence.
Qed.

Lemma hask_add : forall k n v h,
  hask k (snd (add n v h)) = true -> k = normalize n \/ hask k h = true.
Proof.
  intros k n v h. unfold add.
  destruct (negb (is_token n)); [simpl; tauto|].
  destruct (negb (is_field_value v)); [simpl; tauto|].
  cbn [as_list cache last_key]. rewrite normalize_idem.
  destruct (d_mem (normalize n) (as_list h)) eqn:E.
  - destruct (d_get (normalize n) (as_list h)) as [vs|] eqn:G; simpl.
    + unfold hask. simpl. intro H. apply d_mem_set in H. exact H.
    + tauto.
  - simpl. intro H. apply hask_set_item in H. rewrite normalize_idem in H. exact H.
Qed.

Lemma hask_add_mono : forall k n v h, hask k h = true -> hask k (snd (add n v h)) = true.
Proof.
  intros k n v h Hk. unfold add.
  destruct (negb (is_token n)); [exact Hk|].
  destruct (negb (is_field_value v)); [exact Hk|].
  cbn [as_list cache last_key]. rewrite normalize_idem.
  destruct (d_mem (normalize n) (as_list h)) eqn:E.
  - destruct (d_get (normalize n) (as_list h)) as [vs|] eqn:G; simpl.
    + unfold hask. simpl. apply d_mem_set. right. exact Hk.
    + exact Hk.
  - simpl. apply hask_set_item. right. exact Hk.
Qed.

Lemma hask_add_all : forall ps k h,
  hask k (snd (add_all ps h)) = true ->
  hask k h = true \/ exists n v, In (n, v) ps /\ k = normalize n.
Proof.
  induction ps as [|[n v] ps IH]; intros k h H; simpl in *; [left; exact H|].
  destruct (add n v h) as [r h'] eqn:E.
  assert (Hadd : hask k h' = true -> k = normalize n \/ hask k h = true).
  { intro Hk. pose proof (hask_add k n v h) as A. rewrite E in A. exact (A Hk). }
  destruct r; simpl in H;
    try (destruct (Hadd H) as [->|Hk]; [right; exists n, v; split; [left; reflexivity|reflexivity]|left; exact Hk]).
  destruct (IH k h' H) as [Hk|[n' [v' [Hin Hn]]]].
  - destruct (Hadd Hk) as [->|Hk']; [right; exists n, v; split; [left; reflexivity|reflexivity]|left; exact Hk'].
  - right. exists n', v'. split; [right; exact Hin|exact Hn].
Qed.

Lemma pairs_of_keys : forall (al : list (text * list text)) k v,
  In (k, v) (pairs_of al) -> In k (map fst al).
Proof.
  induction al as [|[k0 vs] al IH]; intros k v H; simpl in *; [contradiction|].
  apply in_app_or in H. destruct H as [H|H].
  - apply in_map_iff in H. destruct H as [x [Hx _]]. inversion Hx. left. reflexivity.
  - right. eapply IH. exact H.
Qed.

Lemma get_all_hask : forall k v h, In (k, v) (get_all h) -> hask k h = true.
Proof.
  intros k v h H. unfold hask. apply d_mem_in_keys. eapply pairs_of_keys. exact H.
Qed.

(* the keys of a copy are the normalised keys of the source *)
Lemma hask_copy : forall k h,
  hask k (snd (copy h)) = true -> exists k', hask k' h = true /\ k = normalize k'.
Proof.
  intros k h H. unfold copy in H. apply hask_add_all in H.
  destruct H as [H|[n [v [Hin Hn]]]]; [rewrite hask_empty in H; discriminate|].
  exists n. split; [eapply get_all_hask; exact Hin|exact Hn].
Qed.

Lemma keys_norm_empty : keys_norm empty_h.
Proof. intros k H. rewrite hask_empty in H. discriminate. Qed.

Lemma keys_norm_set_item : forall n v h, keys_norm h -> keys_norm (set_item n v h).
Proof.
  intros n v h Hn k Hk. apply hask_set_item in Hk. destruct Hk as [->|Hk]; [apply normalize_idem|auto].
Qed.

Lemma keys_norm_del_item : forall n h, keys_norm h -> keys_norm (snd (del_item n h)).
Proof. intros n h Hn k Hk. apply hask_del_item in Hk. apply Hn. tauto. Qed.

Lemma keys_norm_add : forall n v h, keys_norm h -> keys_norm (snd (add n v h)).
Proof.
  intros n v h Hn k Hk. apply hask_add in Hk. destruct Hk as [->|Hk]; [apply normalize_idem|auto].
Qed.

Lemma keys_norm_add_all : forall ps h, keys_norm h -> keys_norm (snd (add_all ps h)).
Proof.
  induction ps as [|[n v] ps IH]; intros h Hn; simpl; [exact Hn|].
  pose proof (keys_norm_add n v h Hn) as A. destruct (add n v h) as [r h'] eqn:E. simpl in A.
  destruct r; simpl; auto.
Qed.

(* whatever the source: a copy only has normalised keys *)
Lemma keys_norm_copy : forall h, keys_norm (snd (copy h)).
Proof. intro h. unfold copy. apply keys_norm_add_all. apply keys_norm_empty. Qed.

(* a key that the (normalised) source does not have is not in the copy *)
Lemma copy_lacks : forall k h, keys_norm h -> hask k h = false -> hask k (snd (copy h)) = false.
Proof.
  intros k h Hn Hk. destruct (hask k (snd (copy h))) eqn:E; [|reflexivity].
  apply hask_copy in E. destruct E as [k' [H1 H2]]. rewrite (Hn k' H1) in H2. subst. congruence.
Qed.

Lemma del_lacks_same : forall n h, hask (normalize n) (snd (del_item n h)) = false.
Proof.
  intros n h. destruct (hask (normalize n) (snd (del_item n h))) eqn:E; [|reflexivity].
  apply hask_del_item in E. destruct E as [E _]. congruence.
Qed.

Lemma del_lacks_other : forall k n h, hask k h = false -> hask k (snd (del_item n h)) = false.
Proof.
  intros k n h Hk. destruct (hask k (snd (del_item n h))) eqn:E; [|reflexivity].
  apply hask_del_item in E. destruct E as [_ E]. congruence.
Qed.

Lemma set_lacks : forall k n v h, k <> normalize n -> hask k h = false -> hask k (set_item n v h) = false.
Proof.
  intros k n v h Hne Hk. destruct (hask k (set_item n v h)) eqn:E; [|reflexivity].
  apply hask_set_item in E. destruct E as [E|E]; congruence.
Qed.

(* consequences for the read interface *)
Lemma lacks_contains : forall n h, hask (normalize n) h = false -> contains n h = false.
Proof. intros n h H. exact H. Qed.

Lemma lacks_get_list : forall n h, hask (normalize n) h = false -> get_list n h = [].
Proof.
  intros n h H. unfold get_list. unfold hask, d_mem in H.
  destruct (d_get (normalize n) (as_list h)); [discriminate|reflexivity].
Qed.

(* no stored line has that name, compared case-insensitively *)
Lemma lacks_get_all_ci : forall K h, keys_norm h -> normalize K = K -> hask K h = false ->
  forall k v, In (k, v) (get_all h) -> map lower k <> map lower K.
Proof.
  intros K h Hn HK Hl k v Hin Heq. apply get_all_hask in Hin.
  apply normalize_eq_iff_ci in Heq. rewrite (Hn k Hin), HK in Heq. subst. congruence.
Qed.
