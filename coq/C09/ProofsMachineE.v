(* C09 — machine-level proofs, part E (compiled AFTER part F): the model passes the schedule checker of Run.v.
   check_sched_sound : forall m es, check_sched m es (OList (run_obs es (init m))) = true. *)
From Coq Require Import List NArith ZArith String Bool Arith Lia Sorting.Sorted Sorting.Permutation.
Import ListNotations.
From TV Require Import Lib.Obs C09.Run C09.Model
  C09.ProofsMachineA C09.ProofsMachineB C09.ProofsMachineC C09.ProofsMachineD C09.ProofsMachineF.
Local Open Scope string_scope.
Local Open Scope list_scope.
Local Open Scope nat_scope.

Local Opaque deliver.

(* ---------------- chk_entry on the three kinds of entries ---------------- *)
Lemma znat_of_nat a : znat (Z.of_nat a) = Some a.
Proof.
  unfold znat. assert (E : (Z.of_nat a <? 0)%Z = false) by (apply Z.ltb_ge; lia).
  rewrite E, Nat2Z.id. reflexivity.
Qed.

Lemma chk_start mx nf k a :
  chk_entry mx nf k (OList [OTag "start"; OInt a]) =
  match znat a with
  | Some a' =>
      mkChk (k_ok k && match k_last_start k with Some b => b <? a' | None => true end)
            (Some a') (k_done k) (k_idle k) (k_sub k) (k_evs k)
  | None => chk_fail k
  end.
Proof. reflexivity. Qed.

Lemma chk_done mx nf k f x :
  chk_entry mx nf k (OList [OTag "done"; OInt f; x]) =
  match znat f with
  | Some f' =>
      mkChk (k_ok k && (f' <? nf) && negb (mem f' (k_done k))) (k_last_start k)
            (f' :: k_done k) (k_idle k) (k_sub k) (k_evs k)
  | None => chk_fail k
  end.
Proof. reflexivity. Qed.

Lemma chk_snap mx nf k a q x y :
  chk_entry mx nf k (OList [OTag "snap"; OInt a; OInt q; OInt x; OInt y]) =
  match k_evs k with
  | e :: evs =>
      mkChk (k_ok k && (a <=? Z.of_nat mx)%Z && (0 <=? a)%Z && (0 <=? q)%Z &&
             (a + q + Z.of_nat (List.length (k_done k)) =? Z.of_nat ((if is_fetch e then 1 else 0) + k_sub k))%Z)
            (k_last_start k) (k_done k) ((a =? 0)%Z && (q =? 0)%Z)
            ((if is_fetch e then 1 else 0) + k_sub k) evs
  | [] => chk_fail k
  end.
Proof. reflexivity. Qed.

(* ---------------- dones / last_opt ---------------- *)
Definition last_opt (l : list nat) : option nat :=
  match rev l with [] => None | x :: _ => Some x end.

Lemma last_opt_snoc l a : last_opt (l ++ [a]) = Some a.
Proof. unfold last_opt. rewrite rev_app_distr. reflexivity. Qed.

Lemma last_opt_In l b : last_opt l = Some b -> In b l.
Proof.
  unfold last_opt. destruct (rev l) as [|x r] eqn:E; intro H; [discriminate H|].
  injection H as ->. apply in_rev. rewrite E. left. reflexivity.
Qed.

(* ---------------- one log segment ---------------- *)
Definition KL (k : chk) (L : list logev) : Prop :=
  k_ok k = true /\ k_last_start k = last_opt (starts L) /\ k_done k = rev (dones L).

Definition LogOK (nf : nat) (X : list logev) : Prop :=
  StronglySorted lt (starts X) /\ (forall f, count_done f X <= 1) /\
  (forall f, In f (dones X) -> f < nf) /\ nobug X.

Lemma ev_fold mx nf e L l' k :
  LogOK nf (L ++ e :: l') -> KL k L ->
  KL (fold_left (chk_entry mx nf) (obs_logev e) k) (L ++ [e]) /\
  k_idle (fold_left (chk_entry mx nf) (obs_logev e) k) = k_idle k /\
  k_sub (fold_left (chk_entry mx nf) (obs_logev e) k) = k_sub k /\
  k_evs (fold_left (chk_entry mx nf) (obs_logev e) k) = k_evs k.
Proof.
  intros (S1 & S2 & S3 & S4) (K1 & K2 & K3). destruct e as [a|f o|f o|b]; cbn [obs_logev fold_left].
  - (* LStart *)
    rewrite chk_start, znat_of_nat. split; [|repeat split].
    unfold KL. cbn [k_ok k_last_start k_done k_idle]. split; [|split].
    + rewrite K1, andb_true_l. destruct (k_last_start k) as [b|] eqn:Eb; [|reflexivity].
      apply Nat.ltb_lt. symmetry in K2. apply last_opt_In in K2.
      rewrite starts_app in S1. apply SS_app_iff in S1. destruct S1 as (_ & _ & C).
      apply C; [exact K2|]. left. reflexivity.
    + rewrite starts_app. change (starts [LStart a]) with [a]. rewrite last_opt_snoc. reflexivity.
    + rewrite dones_app. change (dones [LStart a]) with (@nil nat). rewrite app_nil_r. exact K3.
  - (* LDone *)
    rewrite chk_done, znat_of_nat. split; [|repeat split].
    unfold KL. cbn [k_ok k_last_start k_done k_idle]. split; [|split].
    + rewrite K1, andb_true_l.
      assert (Hlt : f < nf).
      { apply S3. rewrite dones_app. apply in_or_app. right. left. reflexivity. }
      apply Nat.ltb_lt in Hlt. rewrite Hlt, andb_true_l.
      destruct (mem f (k_done k)) eqn:Em; [|reflexivity]. exfalso.
      apply mem_In in Em. rewrite K3 in Em. apply in_rev in Em. apply In_dones_count in Em.
      specialize (S2 f). change (LDone f o :: l') with ([LDone f o] ++ l') in S2.
      rewrite !count_done_app in S2.
      assert (E1 : count_done f [LDone f o] = 1) by (unfold count_done; simpl; rewrite Nat.eqb_refl; reflexivity).
      lia.
    + rewrite starts_app. change (starts [LDone f o]) with (@nil nat). rewrite app_nil_r. exact K2.
    + rewrite dones_app. change (dones [LDone f o]) with [f]. rewrite rev_app_distr.
      cbn [rev app]. rewrite K3. reflexivity.
  - (* LLost *)
    split; [|repeat split]. split; [exact K1|]. split.
    + rewrite starts_app. change (starts [LLost f o]) with (@nil nat). rewrite app_nil_r. exact K2.
    + rewrite dones_app. change (dones [LLost f o]) with (@nil nat). rewrite app_nil_r. exact K3.
  - (* LBug *)
    exfalso. apply (S4 b). apply in_or_app. right. left. reflexivity.
Qed.

Lemma seg_fold mx nf : forall l L k,
  LogOK nf (L ++ l) -> KL k L ->
  KL (fold_left (chk_entry mx nf) (flat_map obs_logev l) k) (L ++ l) /\
  k_idle (fold_left (chk_entry mx nf) (flat_map obs_logev l) k) = k_idle k /\
  k_sub (fold_left (chk_entry mx nf) (flat_map obs_logev l) k) = k_sub k /\
  k_evs (fold_left (chk_entry mx nf) (flat_map obs_logev l) k) = k_evs k.
Proof.
  induction l as [|e l IH]; intros L k HX HK.
  - simpl. rewrite app_nil_r. split; [exact HK|repeat split].
  - cbn [flat_map]. rewrite fold_left_app.
    destruct (ev_fold mx nf e L l k HX HK) as (HK1 & HI1 & HS1 & HE1).
    assert (E : L ++ e :: l = (L ++ [e]) ++ l) by (rewrite <- app_assoc; reflexivity).
    rewrite E in HX |- *.
    destruct (IH (L ++ [e]) _ HX HK1) as (HK2 & HI2 & HS2 & HE2).
    split; [exact HK2|]. rewrite HI2, HS2, HE2. auto.
Qed.

(* ---------------- whole schedules ---------------- *)
Definition KI (k : chk) (s : st) (L : list logev) (es : list event) : Prop :=
  KL k L /\ (k_idle k = true -> s_active s = [] /\ s_queue s = []) /\
  k_sub k = s_nfetch s /\ k_evs k = es.

Lemma LogOK_of_inv nf s L :
  MInv s L -> CInv s L -> s_nfetch s <= nf -> LogOK nf L.
Proof.
  intros ([(_ & _ & _ & _ & I5 & _) _] & _ & HB) HC Hn. split; [|split; [|split]].
  - apply SS_app_iff in I5. apply I5.
  - intro f. specialize (HC f). destruct (f <? s_nfetch s); lia.
  - intros f Hin. apply In_dones_count in Hin. specialize (HC f).
    destruct (f <? s_nfetch s) eqn:E; [apply Nat.ltb_lt in E; lia|lia].
  - exact HB.
Qed.

Lemma step_nfetch e s s' l :
  step e s = (s', l) -> s_nfetch s' = (if is_fetch e then 1 else 0) + s_nfetch s.
Proof.
  intro H. destruct e as [sp|a|a|a|a|a code hasloc|a|a|a|a];
    try (apply (step_other_count 0) in H; [apply H|intros sp0 E0; discriminate E0]).
  apply (step_fetch_count 0) in H. simpl. apply H.
Qed.

Lemma n_fetches_cons e es : n_fetches (e :: es) = (if is_fetch e then 1 else 0) + n_fetches es.
Proof. unfold n_fetches. simpl. destruct (is_fetch e); reflexivity. Qed.

Lemma sched_fold mx nf : forall es s L k,
  MInv3 s L -> CInv s L -> NLInv s L -> s_max s = mx -> s_nfetch s + n_fetches es = nf ->
  KI k s L es ->
  forall s' L', exec es s = (s', L') ->
  KI (fold_left (chk_entry mx nf) (run_obs es s) k) s' (L ++ L') [] /\ s_nfetch s' = nf.
Proof.
  induction es as [|e es IH]; intros s L k HM HC HN Hmx Hnf HK s' L' HE; simpl in HE.
  - injection HE as <- <-. simpl. rewrite app_nil_r. split; [exact HK|].
    unfold n_fetches in Hnf. simpl in Hnf. lia.
  - cbn [run_obs]. destruct (step e s) as [s1 l] eqn:Es. destruct (exec es s1) as [s2 l2] eqn:Ee.
    injection HE as <- <-.
    assert (HM1 := MInv3_step _ _ _ _ _ HM Es).
    assert (HC1 := CInv_step _ _ _ _ _ HC Es).
    assert (HN1 := NLInv_step _ _ _ _ _ HN Es).
    assert (Hmx1 : s_max s1 = mx) by (rewrite (step_max _ _ _ _ Es); exact Hmx).
    assert (Hn1 := step_nfetch _ _ _ _ Es).
    rewrite n_fetches_cons in Hnf.
    assert (Hnf1 : s_nfetch s1 + n_fetches es = nf) by lia.
    assert (HX : LogOK nf (L ++ l)) by (eapply LogOK_of_inv; [exact (proj1 HM1)|exact HC1|lia]).
    destruct HK as (HKL & HKI & HKS & HKE).
    destruct (seg_fold mx nf l L k HX HKL) as ((K1 & K2 & K3) & _ & K5 & K6).
    rewrite fold_left_app. cbn [fold_left].
    set (k1 := fold_left (chk_entry mx nf) (flat_map obs_logev l) k) in *.
    unfold obs_snap. rewrite chk_snap, K6, HKE, K5, HKS, <- Hn1.
    rewrite app_assoc. eapply IH; [exact HM1|exact HC1|exact HN1|exact Hmx1|exact Hnf1| |exact Ee].
    destruct HM1 as [(HG1 & _ & _) HG3].
    assert (Cons := conservation_inv s1 (L ++ l) HG1 HG3 HC1 HN1).
    destruct HG1 as [(_ & I2 & _) _].
    unfold KI, KL. cbn [k_ok k_last_start k_done k_idle k_sub k_evs].
    split; [split; [|split]|split; [|split; reflexivity]].
    + rewrite K1, andb_true_l.
      assert (E1 : (Z.of_nat (List.length (s_active s1)) <=? Z.of_nat mx)%Z = true) by (apply Z.leb_le; lia).
      assert (E2 : (0 <=? Z.of_nat (List.length (s_active s1)))%Z = true) by (apply Z.leb_le; lia).
      assert (E3 : (0 <=? Z.of_nat (List.length (s_queue s1)))%Z = true) by (apply Z.leb_le; lia).
      assert (E4 : (Z.of_nat (List.length (s_active s1)) + Z.of_nat (List.length (s_queue s1))
                    + Z.of_nat (List.length (k_done k1)) =? Z.of_nat (s_nfetch s1))%Z = true).
      { apply Z.eqb_eq. rewrite K3, rev_length. lia. }
      rewrite E1, E2, E3, E4. reflexivity.
    + exact K2.
    + exact K3.
    + intro Hi. apply andb_true_iff in Hi. destruct Hi as [Ha Hq].
      apply Z.eqb_eq in Ha. apply Z.eqb_eq in Hq.
      split; apply length_zero_iff_nil; lia.
Qed.

(* a list of naturals that contains every f < n exactly once and nothing else has length n *)
Lemma exact_cover_length (D : list nat) n :
  (forall f, count_occ Nat.eq_dec D f = if f <? n then 1 else 0) -> List.length D = n.
Proof.
  intro H.
  assert (ND : NoDup D).
  { apply (NoDup_count_occ Nat.eq_dec). intro f. rewrite H. destruct (f <? n); lia. }
  assert (P : Permutation D (seq 0 n)).
  { apply NoDup_Permutation; [exact ND|apply seq_NoDup|]. intro f.
    rewrite (count_occ_In Nat.eq_dec), H, in_seq. destruct (f <? n) eqn:E.
    - apply Nat.ltb_lt in E. split; intro; lia.
    - apply Nat.ltb_ge in E. split; intro; lia. }
  apply Permutation_length in P. rewrite seq_length in P. exact P.
Qed.

Lemma idle_all_done m es s L :
  exec es (init m) = (s, L) -> s_active s = [] -> s_queue s = [] ->
  List.length (dones L) = s_nfetch s.
Proof.
  intros H Ha Hq. apply exact_cover_length. intro f. rewrite <- count_done_occ.
  destruct (f <? s_nfetch s) eqn:E.
  - apply Nat.ltb_lt in E. eapply machine_idle_complete'; eauto.
  - assert (K := machine_exactly_once' _ _ _ _ H f). rewrite E in K. lia.
Qed.

(* the checker state after the whole schedule *)
Theorem check_sched_state : forall m es s L, exec es (init m) = (s, L) ->
  let k := fold_left (chk_entry m (n_fetches es)) (run_obs es (init m)) (mkChk true None [] true 0 es) in
  k_ok k = true /\ k_last_start k = last_opt (starts L) /\ k_done k = rev (dones L) /\
  (k_idle k = true -> s_active s = [] /\ s_queue s = []) /\ s_nfetch s = n_fetches es /\
  k_sub k = n_fetches es /\ k_evs k = [].
Proof.
  intros m es s L H k.
  assert (K0 : KI (mkChk true None [] true 0 es) (init m) [] es).
  { split; [repeat split|]. split; [intros _; split; reflexivity|split; reflexivity]. }
  assert (N0 : NLInv (init m) []) by (intros f o []).
  destruct (sched_fold m (n_fetches es) es (init m) [] _ (MInv3_init m) (CInv_init m) N0 eq_refl eq_refl K0 s L H)
    as [((K1 & K2 & K3) & K4 & K6 & K7) K5].
  simpl app in *. fold k in K1, K2, K3, K4, K6, K7. rewrite K5 in K6. tauto.
Qed.

Theorem check_sched_sound : forall m es, check_sched m es (OList (run_obs es (init m))) = true.
Proof.
  intros m es. unfold check_sched. cbv zeta.
  destruct (exec es (init m)) as [s L] eqn:H.
  destruct (check_sched_state m es s L H) as (K1 & _ & K3 & K4 & K5 & _ & K7).
  rewrite K1, K7, andb_true_r, andb_true_l.
  destruct (k_idle (fold_left (chk_entry m (n_fetches es)) (run_obs es (init m)) (mkChk true None [] true 0 es)))
    eqn:Ei; [|reflexivity].
  simpl. destruct (K4 eq_refl) as [Ha Hq].
  rewrite K3, rev_length, (idle_all_done m es s L H Ha Hq), K5. apply Nat.eqb_refl.
Qed.

Print Assumptions check_sched_state.
Print Assumptions check_sched_sound.
