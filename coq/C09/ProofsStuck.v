(* C09 — finish() cannot fail after it has given up its callback: the second header copy (made by
   fetch() for the follow-up, AFTER final_callback was cleared and the slot released) never raises,
   because the headers it copies were produced by a validated copy plus deletions. *)
From Coq Require Import List NArith ZArith Bool String.
Import ListNotations.
From TV Require Import C06.Model C06.Spec C06.ProofsBase C06.ProofsRefine C06.ProofsProg C06.ProofsValid C06.ProofsLaws
                       C09.Url C09.Redirect C09.ProofsHeaders C09.ProofsRedirect.

Lemma add_all_valid : forall ps h, map_valid (as_list h) -> map_valid (as_list (snd (add_all ps h))).
Proof.
  induction ps as [|[k v] ps IH]; intros h H; simpl; [exact H|].
  pose proof (add_valid k v h H) as A. destruct (add k v h) as [r h'] eqn:E. simpl in A.
  destruct r; simpl; auto.
Qed.

Lemma copy_good : forall h h1, copy h = (RUnit, h1) -> good h1.
Proof.
  intros h h1 H. assert (E : h1 = snd (copy h)) by (rewrite H; reflexivity). subst h1. unfold copy. split.
  - apply (proj2 (add_all_refines (get_all h) empty_h inv_empty)).
  - apply add_all_valid. constructor.
Qed.

Lemma del_good : forall n h, good h -> good (snd (del_item n h)).
Proof.
  intros n h [Hi Hm]. split.
  - exact (proj2 (step_refines (DelItem n) h Hi)).
  - unfold del_item. destruct (d_mem (normalize n) (as_list h)); simpl; [|exact Hm].
    apply d_del_Forall. exact Hm.
Qed.

Lemma good_copies : forall h, good h -> exists h', copy h = (RUnit, h').
Proof.
  intros h [Hi Hm]. destruct (copy_equal h Hi (map_valid_pairs _ Hm)) as [h' [E _]]. exists h'. exact E.
Qed.

Theorem redirect_never_stuck : forall orig r h code joined, redirect_request orig r h code joined <> FStuck.
Proof.
  intros orig r h code joined H. unfold redirect_request in H.
  destruct (copy h) as [rc h1] eqn:Ec1. destruct rc; try discriminate.
  pose proof (copy_good _ _ Ec1) as G1.
  destruct (urlsplit orig) as [uo|]; [|discriminate].
  destruct (urlsplit joined) as [un|]; [|discriminate].
  assert (S2 : forall url h2 au ap, good h2 ->
    match del_item H_Host h2 with
    | (RUnit, h3) =>
        let '(m, b, h4) :=
          if to_get code (r_method r)
          then (T "GET"%string, None,
                del_quiet H_TransferEncoding (del_quiet H_ContentEncoding
                  (del_quiet H_ContentType (del_quiet H_ContentLength h3))))
          else (r_method r, r_body r, h3) in
        match copy h4 with
        | (RUnit, h5) =>
            FRedirect (mkReq url m b h5 au ap (Some (maxred_of r - 1)%Z) (r_follow r) (r_ua r) (r_defmax r))
        | _ => FStuck
        end
    | _ => FRaise
    end <> FStuck).
  { intros url h2 au ap G2 E. pose proof (del_good H_Host h2 G2) as G3.
    destruct (del_item H_Host h2) as [rs h3]. simpl in G3. destruct rs; try discriminate.
    destruct (to_get code (r_method r)).
    - assert (G4 : good (del_quiet H_TransferEncoding (del_quiet H_ContentEncoding
                         (del_quiet H_ContentType (del_quiet H_ContentLength h3))))).
      { unfold del_quiet. repeat apply del_good. exact G3. }
      destruct (good_copies _ G4) as [h5 E5]. rewrite E5 in E. discriminate.
    - destruct (good_copies _ G3) as [h5 E5]. rewrite E5 in E. discriminate. }
  destruct (cross_origin uo un).
  - assert (G2 : good (del_quiet H_Cookie (del_quiet H_Authorization h1))).
    { unfold del_quiet. repeat apply del_good. exact G1. }
    destruct (has_at (u_netloc un)).
    + destruct (stripped_netloc (u_netloc un)); try discriminate. exact (S2 _ _ _ _ G2 H).
    + exact (S2 _ _ _ _ G2 H).
  - exact (S2 _ _ _ _ G1 H).
Qed.
