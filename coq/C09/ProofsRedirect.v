(* C09 — theorems about finish()'s redirect rewriting (Redirect.redirect_request), about what
   run() then puts on the wire (Redirect.prepare), and about whole redirect chains. *)
From Coq Require Import List NArith ZArith Bool Lia String.
Import ListNotations.
From TV Require Import C06.Model C06.ProofsBase C09.Url C09.Redirect C09.ProofsHeaders.
Local Open Scope N_scope.

(* ---------- the header names are in normalised form ---------- *)
Lemma norm_Cookie : normalize H_Cookie = H_Cookie.              Proof. reflexivity. Qed.
Lemma norm_Authorization : normalize H_Authorization = H_Authorization. Proof. reflexivity. Qed.
Lemma norm_Host : normalize H_Host = H_Host.                    Proof. reflexivity. Qed.
Lemma norm_CL : normalize H_ContentLength = H_ContentLength.    Proof. reflexivity. Qed.
Lemma norm_CT : normalize H_ContentType = H_ContentType.        Proof. reflexivity. Qed.
Lemma norm_CE : normalize H_ContentEncoding = H_ContentEncoding. Proof. reflexivity. Qed.
Lemma norm_TE : normalize H_TransferEncoding = H_TransferEncoding. Proof. reflexivity. Qed.
Lemma norm_Connection : normalize H_Connection = H_Connection.  Proof. reflexivity. Qed.
Lemma norm_UA : normalize H_UserAgent = H_UserAgent.            Proof. reflexivity. Qed.
Lemma norm_AE : normalize H_AcceptEncoding = H_AcceptEncoding.  Proof. reflexivity. Qed.

Definition the_dels (h3 : hstate) : hstate :=
  del_quiet H_TransferEncoding (del_quiet H_ContentEncoding
    (del_quiet H_ContentType (del_quiet H_ContentLength h3))).

(* ---------- inversion of redirect_request ---------- *)
Record redirect_facts (orig : text) (r : req) (h : hstate) (code : Z) (joined : text) (r' : req)
       (rf_h1 rf_h2 rf_h3 rf_h4 : hstate) (rf_uo rf_un : usplit) : Prop := {
  rf_copy1 : copy h = (RUnit, rf_h1);
  rf_orig : urlsplit orig = UOk rf_uo;
  rf_new : urlsplit joined = UOk rf_un;
  rf_cross :
    (cross_origin rf_uo rf_un = true /\
     rf_h2 = del_quiet H_Cookie (del_quiet H_Authorization rf_h1) /\
     r_auth_user r' = None /\ r_auth_pass r' = None /\
     ((has_at (u_netloc rf_un) = true /\
       exists nl, stripped_netloc (u_netloc rf_un) = NOk nl /\
                  r_url r' = urlunsplit (mkU (u_scheme rf_un) nl (u_path rf_un) (u_query rf_un) (u_frag rf_un))) \/
      (has_at (u_netloc rf_un) = false /\ r_url r' = urlunsplit rf_un))) \/
    (cross_origin rf_uo rf_un = false /\ rf_h2 = rf_h1 /\ r_url r' = joined /\
     r_auth_user r' = r_auth_user r /\ r_auth_pass r' = r_auth_pass r);
  rf_host : del_item H_Host rf_h2 = (RUnit, rf_h3);
  rf_method :
    (to_get code (r_method r) = true /\ r_method r' = T "GET" /\ r_body r' = None /\ rf_h4 = the_dels rf_h3) \/
    (to_get code (r_method r) = false /\ r_method r' = r_method r /\ r_body r' = r_body r /\ rf_h4 = rf_h3);
  rf_copy2 : copy rf_h4 = (RUnit, r_headers r');
  rf_maxred : r_maxred r' = Some (maxred_of r - 1)%Z;
  rf_follow : r_follow r' = r_follow r;
  rf_ua : r_ua r' = r_ua r
}.

Lemma step2_inv : forall (r : req) (code : Z) url h2 au ap r',
  match del_item H_Host h2 with
  | (RUnit, h3) =>
      let '(m, b, h4) :=
        if to_get code (r_method r)
        then (T "GET", None,
              del_quiet H_TransferEncoding (del_quiet H_ContentEncoding
                (del_quiet H_ContentType (del_quiet H_ContentLength h3))))
        else (r_method r, r_body r, h3) in
      match copy h4 with
      | (RUnit, h5) =>
          FRedirect (mkReq url m b h5 au ap (Some (maxred_of r - 1)%Z) (r_follow r) (r_ua r) (r_defmax r))
      | _ => FStuck
      end
  | _ => FRaise
  end = FRedirect r' ->
  exists h3 h4,
    del_item H_Host h2 = (RUnit, h3) /\
    ((to_get code (r_method r) = true /\ r_method r' = T "GET" /\ r_body r' = None /\ h4 = the_dels h3) \/
     (to_get code (r_method r) = false /\ r_method r' = r_method r /\ r_body r' = r_body r /\ h4 = h3)) /\
    copy h4 = (RUnit, r_headers r') /\
    r_url r' = url /\ r_auth_user r' = au /\ r_auth_pass r' = ap /\
    r_maxred r' = Some (maxred_of r - 1)%Z /\ r_follow r' = r_follow r /\ r_ua r' = r_ua r.
Proof.
  intros r code url h2 au ap r' H.
  destruct (del_item H_Host h2) as [rs h3] eqn:Ed. destruct rs; try discriminate.
  destruct (to_get code (r_method r)) eqn:Eg.
  - destruct (copy (del_quiet H_TransferEncoding (del_quiet H_ContentEncoding
              (del_quiet H_ContentType (del_quiet H_ContentLength h3))))) as [rc h5] eqn:Ec.
    destruct rc; try discriminate. inversion H; subst; clear H.
    exists h3, (the_dels h3). simpl. repeat split; auto; tauto.
  - destruct (copy h3) as [rc h5] eqn:Ec. destruct rc; try discriminate. inversion H; subst; clear H.
    exists h3, h3. simpl. repeat split; auto; tauto.
Qed.

Lemma redirect_inv : forall orig r h code joined r',
  redirect_request orig r h code joined = FRedirect r' ->
  exists h1 h2 h3 h4 uo un, redirect_facts orig r h code joined r' h1 h2 h3 h4 uo un.
Proof.
  intros orig r h code joined r' H. unfold redirect_request in H.
  destruct (copy h) as [rc h1] eqn:Ec1. destruct rc; try discriminate.
  destruct (urlsplit orig) as [uo|] eqn:Eo; [|discriminate].
  destruct (urlsplit joined) as [un|] eqn:En; [|discriminate].
  destruct (cross_origin uo un) eqn:Ex.
  - destruct (has_at (u_netloc un)) eqn:Ea.
    + destruct (stripped_netloc (u_netloc un)) as [nl| |] eqn:Es; try discriminate.
      apply step2_inv in H. destruct H as [h3 [h4 [Hd [Hm [Hc [Hu [Hau [Hap [Hmr [Hf Hua]]]]]]]]]].
      exists h1, (del_quiet H_Cookie (del_quiet H_Authorization h1)), h3, h4, uo, un.
      constructor; auto.
      left. repeat split; auto. left. split; [exact Ea|]. exists nl. split; [exact Es|exact Hu].
    + apply step2_inv in H. destruct H as [h3 [h4 [Hd [Hm [Hc [Hu [Hau [Hap [Hmr [Hf Hua]]]]]]]]]].
      exists h1, (del_quiet H_Cookie (del_quiet H_Authorization h1)), h3, h4, uo, un.
      constructor; auto.
      left. repeat split; auto.
  - apply step2_inv in H. destruct H as [h3 [h4 [Hd [Hm [Hc [Hu [Hau [Hap [Hmr [Hf Hua]]]]]]]]]].
    exists h1, h1, h3, h4, uo, un. constructor; auto.
    right. repeat split; auto.
Qed.

(* ---------- the headers of the new request ---------- *)
Lemma copy_snd : forall h h', copy h = (RUnit, h') -> h' = snd (copy h).
Proof. intros h h' H. rewrite H. reflexivity. Qed.

Lemma del_item_snd : forall n h h', del_item n h = (RUnit, h') -> h' = snd (del_item n h).
Proof. intros n h h' H. rewrite H. reflexivity. Qed.

Lemma the_dels_lacks : forall k h, hask k h = false -> hask k (the_dels h) = false.
Proof. intros k h H. unfold the_dels, del_quiet. repeat apply del_lacks_other. exact H. Qed.

Lemma the_dels_norm : forall h, keys_norm h -> keys_norm (the_dels h).
Proof. intros h H. unfold the_dels, del_quiet. repeat apply keys_norm_del_item. exact H. Qed.

Section Facts.
  Variables (orig : text) (r : req) (h : hstate) (code : Z) (joined : text) (r' : req).
  Variables (h1 h2 h3 h4 : hstate) (uo un : usplit).
  Hypothesis F : redirect_facts orig r h code joined r' h1 h2 h3 h4 uo un.

  Lemma rf_h4_norm : keys_norm h4.
  Proof.
    assert (N1 : keys_norm h1).
    { rewrite (copy_snd _ _ (rf_copy1 _ _ _ _ _ _ _ _ _ _ _ _ F)). apply keys_norm_copy. }
    assert (N2 : keys_norm h2).
    { destruct (rf_cross _ _ _ _ _ _ _ _ _ _ _ _ F) as [[_ [E _]]|[_ [E _]]]; rewrite E; [|exact N1].
      unfold del_quiet. repeat apply keys_norm_del_item. exact N1. }
    assert (N3 : keys_norm h3).
    { rewrite (del_item_snd _ _ _ (rf_host _ _ _ _ _ _ _ _ _ _ _ _ F)). apply keys_norm_del_item. exact N2. }
    destruct (rf_method _ _ _ _ _ _ _ _ _ _ _ _ F) as [[_ [_ [_ E]]]|[_ [_ [_ E]]]]; rewrite E; [apply the_dels_norm|]; exact N3.
  Qed.

  Lemma new_headers_norm : keys_norm (r_headers r').
  Proof. rewrite (copy_snd _ _ (rf_copy2 _ _ _ _ _ _ _ _ _ _ _ _ F)). apply keys_norm_copy. Qed.

  (* a key absent after the deletions is absent from the new request *)
  Lemma h4_to_new : forall k, hask k h4 = false -> hask k (r_headers r') = false.
  Proof.
    intros k Hk. rewrite (copy_snd _ _ (rf_copy2 _ _ _ _ _ _ _ _ _ _ _ _ F)). apply copy_lacks; [apply rf_h4_norm|exact Hk].
  Qed.

  Lemma h2_to_h4 : forall k, hask k h2 = false -> hask k h4 = false.
  Proof.
    intros k Hk.
    assert (H3 : hask k h3 = false).
    { rewrite (del_item_snd _ _ _ (rf_host _ _ _ _ _ _ _ _ _ _ _ _ F)). apply del_lacks_other. exact Hk. }
    destruct (rf_method _ _ _ _ _ _ _ _ _ _ _ _ F) as [[_ [_ [_ E]]]|[_ [_ [_ E]]]]; rewrite E; [apply the_dels_lacks|]; exact H3.
  Qed.

  (* the Host header never survives (the follow-up computes its own) *)
  Lemma new_lacks_host : hask H_Host (r_headers r') = false.
  Proof.
    apply h4_to_new.
    assert (H3 : hask H_Host h3 = false).
    { rewrite (del_item_snd _ _ _ (rf_host _ _ _ _ _ _ _ _ _ _ _ _ F)). rewrite <- norm_Host at 1. apply del_lacks_same. }
    destruct (rf_method _ _ _ _ _ _ _ _ _ _ _ _ F) as [[_ [_ [_ E]]]|[_ [_ [_ E]]]]; rewrite E; [apply the_dels_lacks|]; exact H3.
  Qed.

  Lemma cross_lacks_cookie_auth :
    cross_origin uo un = true ->
    hask H_Cookie (r_headers r') = false /\ hask H_Authorization (r_headers r') = false.
  Proof.
    intro Hx. destruct (rf_cross _ _ _ _ _ _ _ _ _ _ _ _ F) as [[_ [E _]]|[Hn _]]; [|congruence].
    split; apply h4_to_new; apply h2_to_h4; rewrite E; unfold del_quiet.
    - rewrite <- norm_Cookie at 1. apply del_lacks_same.
    - apply del_lacks_other. rewrite <- norm_Authorization at 1. apply del_lacks_same.
  Qed.

  Lemma to_get_lacks :
    to_get code (r_method r) = true ->
    hask H_ContentLength (r_headers r') = false /\ hask H_ContentType (r_headers r') = false /\
    hask H_ContentEncoding (r_headers r') = false /\ hask H_TransferEncoding (r_headers r') = false.
  Proof.
    intro Hg. destruct (rf_method _ _ _ _ _ _ _ _ _ _ _ _ F) as [[_ [_ [_ E]]]|[Hn _]]; [|congruence].
    repeat split; apply h4_to_new; rewrite E; unfold the_dels, del_quiet.
    - do 3 apply del_lacks_other. rewrite <- norm_CL at 1. apply del_lacks_same.
    - do 2 apply del_lacks_other. rewrite <- norm_CT at 1. apply del_lacks_same.
    - do 1 apply del_lacks_other. rewrite <- norm_CE at 1. apply del_lacks_same.
    - rewrite <- norm_TE at 1. apply del_lacks_same.
  Qed.
End Facts.

(* ---------- the rewritten netloc has no userinfo ---------- *)
Lemma has_at_app : forall a b, has_at (a ++ b) = has_at a || has_at b.
Proof. intros. unfold has_at. apply existsb_app. Qed.

Lemma rpartition_snd_lacks : forall d l, existsb (N.eqb d) (snd (rpartition_at d l)) = false.
Proof.
  intros d l. induction l as [|c r IH]; simpl; [reflexivity|].
  destruct (rpartition_at d r) as [[a|] b] eqn:E; simpl in *; [exact IH|].
  destruct (c =? d) eqn:Ec; simpl; [exact IH|]. rewrite IH. rewrite N.eqb_sym, Ec. reflexivity.
Qed.

Lemma partition_fst_lacks : forall (p : N -> bool) d l,
  existsb p l = false -> existsb p (fst (partition_at d l)) = false.
Proof.
  intros p d l. induction l as [|c r IH]; simpl; intro H; [reflexivity|].
  apply orb_false_iff in H. destruct H as [H1 H2].
  destruct (c =? d); [reflexivity|]. destruct (partition_at d r) as [a b] eqn:E. simpl in *.
  rewrite H1. apply IH. exact H2.
Qed.

Lemma partition_snd_lacks : forall (p : N -> bool) d l z,
  existsb p l = false -> snd (partition_at d l) = Some z -> existsb p z = false.
Proof.
  intros p d l. induction l as [|c r IH]; simpl; intros z H Hz; [discriminate|].
  apply orb_false_iff in H. destruct H as [H1 H2].
  destruct (c =? d); [simpl in Hz; inversion Hz; subst; exact H2|].
  destruct (partition_at d r) as [a b] eqn:E. simpl in *. apply IH; assumption.
Qed.

Lemma lower_at : forall c, (c_at =? lower c) = (c_at =? c).
Proof.
  intro c. unfold lower, in_range, c_at.
  destruct ((65 <=? c) && (c <=? 90)) eqn:E; [|reflexivity].
  apply andb_true_iff in E. destruct E as [E1 E2]. apply N.leb_le in E1, E2.
  destruct (64 =? c + 32) eqn:A; destruct (64 =? c) eqn:B; try reflexivity;
    try apply N.eqb_eq in A; try apply N.eqb_eq in B; lia.
Qed.

Lemma has_at_lower : forall l, has_at (map lower l) = has_at l.
Proof.
  induction l as [|c r IH]; [reflexivity|]. unfold has_at in *. cbn [map existsb]. rewrite IH, lower_at. reflexivity.
Qed.

Lemma hostname_lacks_at : forall nl hn, hostname nl = Some hn -> has_at hn = false.
Proof.
  intros nl hn H. unfold hostname in H.
  assert (Hh : has_at (fst (host_port nl)) = false).
  { unfold host_port. pose proof (rpartition_snd_lacks c_at nl) as A. fold (hostinfo nl) in A.
    pose proof (partition_fst_lacks (N.eqb c_at) c_colon (hostinfo nl) A) as B.
    destruct (partition_at c_colon (hostinfo nl)) as [h0 [[|c p]|]]; exact B. }
  destruct (fst (host_port nl)) as [|c0 h0] eqn:Eh; [discriminate|]. rewrite <- Eh in *. clear Eh.
  pose proof (partition_fst_lacks (N.eqb c_at) c_pct _ Hh) as A.
  destruct (partition_at c_pct (fst (host_port nl))) as [a [z|]] eqn:Ep; inversion H; subst; simpl in A.
  - rewrite has_at_app, has_at_lower. unfold has_at at 1. rewrite A. simpl.
    change (has_at z = false). unfold has_at.
    eapply partition_snd_lacks; [exact Hh|rewrite Ep; reflexivity].
  - rewrite has_at_lower. exact A.
Qed.

Lemma dec_digits_lacks_at : forall f n acc t,
  dec_digits f n acc = Some t -> has_at acc = false -> has_at t = false.
Proof.
  induction f as [|f IH]; intros n acc t H Ha; cbn [dec_digits] in H; [discriminate|].
  destruct (n <? 10) eqn:E.
  - assert (Et : t = (48 + n) :: acc) by congruence. subst t. clear H.
    unfold has_at in *. cbn [existsb]. rewrite Ha.
    apply N.ltb_lt in E. destruct (c_at =? 48 + n) eqn:A; [apply N.eqb_eq in A; unfold c_at in A; lia|reflexivity].
  - eapply IH; [exact H|]. unfold has_at in *. cbn [existsb]. rewrite Ha.
    pose proof (N.mod_lt n 10 ltac:(lia)) as M.
    destruct (c_at =? 48 + n mod 10) eqn:A; [apply N.eqb_eq in A; unfold c_at in A; lia|reflexivity].
Qed.

Lemma stripped_netloc_lacks_at : forall nl nl', stripped_netloc nl = NOk nl' -> has_at nl' = false.
Proof.
  intros nl nl' H. unfold stripped_netloc in H.
  destruct (port nl) as [|n|]; try discriminate.
  - destruct (hostname nl) as [hn|] eqn:Eh; [|discriminate]. inversion H; subst.
    eapply hostname_lacks_at. exact Eh.
  - destruct (to_dec n) as [d|] eqn:Ed; [|discriminate]. inversion H; subst. clear H.
    rewrite has_at_app. unfold to_dec in Ed.
    assert (Hd : has_at d = false) by (eapply dec_digits_lacks_at; [exact Ed|reflexivity]).
    assert (Hc : has_at (c_colon :: d) = false) by (unfold has_at in *; cbn [existsb]; rewrite Hd; reflexivity).
    rewrite Hc, orb_false_r.
    destruct (hostname nl) as [hn|] eqn:Eh; [eapply hostname_lacks_at; exact Eh|reflexivity].
Qed.

(* ---------- what run() adds ---------- *)
Lemma prepare_inv_headers : forall ver r w,
  prepare ver r = Sent w ->
  keys_norm (r_headers r) ->
  keys_norm (w_headers w) /\
  (forall k, hask k (w_headers w) = true ->
     hask k (r_headers r) = true \/
     k = H_Connection \/ k = H_Host \/ k = H_UserAgent \/ k = H_AcceptEncoding \/
     (k = H_Authorization /\ exists u, urlsplit (r_url r) = UOk u /\
                                       exists us pw, credentials (u_netloc u) r = CSome us pw) \/
     (k = H_ContentLength /\ r_body r <> None) \/
     (k = H_ContentType /\ r_method r = T "POST")).
Proof.
  intros ver r w H Hn. unfold prepare in H.
  destruct (urlsplit (r_url r)) as [u|] eqn:Eu; [|discriminate].
  destruct (negb (in_texts (u_scheme u) [T "http"; T "https"])); [discriminate|].
  destruct (split_host_and_port (hostinfo (u_netloc u))) as [host p].
  destruct (negb (in_texts (r_method r) supported_methods)); [discriminate|].
  set (h1 := if contains H_Connection (r_headers r) then r_headers r
             else set_item H_Connection (T "close") (r_headers r)) in *.
  set (h2 := if contains H_Host h1 then h1 else set_item H_Host (hostinfo (u_netloc u)) h1) in *.
  assert (P1 : keys_norm h1 /\ forall k, hask k h1 = true -> hask k (r_headers r) = true \/ k = H_Connection).
  { unfold h1. destruct (contains H_Connection (r_headers r)); [split; [exact Hn|auto]|].
    split; [apply keys_norm_set_item; exact Hn|]. intros k Hk. apply hask_set_item in Hk.
    rewrite norm_Connection in Hk. tauto. }
  assert (P2 : keys_norm h2 /\ forall k, hask k h2 = true -> hask k h1 = true \/ k = H_Host).
  { unfold h2. destruct (contains H_Host h1); [split; [exact (proj1 P1)|auto]|].
    split; [apply keys_norm_set_item; exact (proj1 P1)|]. intros k Hk. apply hask_set_item in Hk.
    rewrite norm_Host in Hk. tauto. }
  destruct (credentials (u_netloc u) r) as [|us pw|] eqn:Ecr; [| |discriminate].
  - (* no credentials *)
    set (h3 := match r_ua r with
               | Some (c :: ua) => set_item H_UserAgent (c :: ua) h2
               | _ => if contains H_UserAgent h2 then h2
                      else set_item H_UserAgent (T "Tornado/" ++ ver) h2
               end) in *.
    assert (P3 : keys_norm h3 /\ forall k, hask k h3 = true -> hask k h2 = true \/ k = H_UserAgent).
    { unfold h3. destruct (r_ua r) as [[|c ua]|];
        try (destruct (contains H_UserAgent h2); [split; [exact (proj1 P2)|auto]|]);
        (split; [apply keys_norm_set_item; exact (proj1 P2)|]; intros k Hk; apply hask_set_item in Hk;
         rewrite norm_UA in Hk; tauto). }
    destruct ((in_texts (r_method r) [T "POST"; T "PATCH"; T "PUT"] &&
               negb match r_body r with Some _ => true | None => false end) ||
              (match r_body r with Some _ => true | None => false end &&
               negb (in_texts (r_method r) [T "POST"; T "PATCH"; T "PUT"]))); [discriminate|].
    destruct (match r_body r with
              | Some b => match to_dec (N.of_nat (List.length b)) with
                          | Some d => Some (set_item H_ContentLength d h3)
                          | None => None
                          end
              | None => Some h3
              end) as [h4|] eqn:E4; [|discriminate].
    assert (P4 : keys_norm h4 /\ forall k, hask k h4 = true -> hask k h3 = true \/ (k = H_ContentLength /\ r_body r <> None)).
    { destruct (r_body r) as [b|].
      - destruct (to_dec (N.of_nat (List.length b))) as [d|]; [|discriminate]. inversion E4; subst.
        split; [apply keys_norm_set_item; exact (proj1 P3)|]. intros k Hk. apply hask_set_item in Hk.
        rewrite norm_CL in Hk. destruct Hk as [Hk|Hk]; [right; split; [exact Hk|discriminate]|left; exact Hk].
      - inversion E4; subst. split; [exact (proj1 P3)|auto]. }
    set (h5 := if text_eqb (r_method r) (T "POST") && negb (contains H_ContentType h4)
               then set_item H_ContentType (T "application/x-www-form-urlencoded") h4 else h4) in *.
    assert (P5 : keys_norm h5 /\ forall k, hask k h5 = true -> hask k h4 = true \/ (k = H_ContentType /\ r_method r = T "POST")).
    { unfold h5. destruct (text_eqb (r_method r) (T "POST")) eqn:Em; simpl; [|split; [exact (proj1 P4)|auto]].
      destruct (negb (contains H_ContentType h4)); [|split; [exact (proj1 P4)|auto]].
      split; [apply keys_norm_set_item; exact (proj1 P4)|]. intros k Hk. apply hask_set_item in Hk.
      rewrite norm_CT in Hk. apply text_eqb_eq in Em. tauto. }
    destruct (negb (forallb (fun kv => is_token (fst kv)) (get_all (set_item H_AcceptEncoding (T "gzip") h5)))); [discriminate|].
    destruct (has_crlf _ || existsb _ _); [discriminate|]. inversion H; subst; clear H. simpl.
    split; [apply keys_norm_set_item; exact (proj1 P5)|].
    intros k Hk. apply hask_set_item in Hk. rewrite norm_AE in Hk.
    destruct Hk as [Hk|Hk]; [tauto|].
    destruct (proj2 P5 k Hk) as [Hk5|Hk5]; [|tauto].
    destruct (proj2 P4 k Hk5) as [Hk4|Hk4]; [|tauto].
    destruct (proj2 P3 k Hk4) as [Hk3|Hk3]; [|tauto].
    destruct (proj2 P2 k Hk3) as [Hk2|Hk2]; [|tauto].
    destruct (proj2 P1 k Hk2) as [Hk1|Hk1]; tauto.
  - (* credentials: Authorization is set *)
    set (h2' := set_item H_Authorization (T "Basic " ++ b64 (us ++ c_colon :: pw)) h2) in *.
    assert (P2' : keys_norm h2' /\ forall k, hask k h2' = true -> hask k h2 = true \/ k = H_Authorization).
    { unfold h2'. split; [apply keys_norm_set_item; exact (proj1 P2)|]. intros k Hk.
      apply hask_set_item in Hk. rewrite norm_Authorization in Hk. tauto. }
    set (h3 := match r_ua r with
               | Some (c :: ua) => set_item H_UserAgent (c :: ua) h2'
               | _ => if contains H_UserAgent h2' then h2'
                      else set_item H_UserAgent (T "Tornado/" ++ ver) h2'
               end) in *.
    assert (P3 : keys_norm h3 /\ forall k, hask k h3 = true -> hask k h2' = true \/ k = H_UserAgent).
    { unfold h3. destruct (r_ua r) as [[|c ua]|];
        try (destruct (contains H_UserAgent h2'); [split; [exact (proj1 P2')|auto]|]);
        (split; [apply keys_norm_set_item; exact (proj1 P2')|]; intros k Hk; apply hask_set_item in Hk;
         rewrite norm_UA in Hk; tauto). }
    destruct ((in_texts (r_method r) [T "POST"; T "PATCH"; T "PUT"] &&
               negb match r_body r with Some _ => true | None => false end) ||
              (match r_body r with Some _ => true | None => false end &&
               negb (in_texts (r_method r) [T "POST"; T "PATCH"; T "PUT"]))); [discriminate|].
    destruct (match r_body r with
              | Some b => match to_dec (N.of_nat (List.length b)) with
                          | Some d => Some (set_item H_ContentLength d h3)
                          | None => None
                          end
              | None => Some h3
              end) as [h4|] eqn:E4; [|discriminate].
    assert (P4 : keys_norm h4 /\ forall k, hask k h4 = true -> hask k h3 = true \/ (k = H_ContentLength /\ r_body r <> None)).
    { destruct (r_body r) as [b|].
      - destruct (to_dec (N.of_nat (List.length b))) as [d|]; [|discriminate]. inversion E4; subst.
        split; [apply keys_norm_set_item; exact (proj1 P3)|]. intros k Hk. apply hask_set_item in Hk.
        rewrite norm_CL in Hk. destruct Hk as [Hk|Hk]; [right; split; [exact Hk|discriminate]|left; exact Hk].
      - inversion E4; subst. split; [exact (proj1 P3)|auto]. }
    set (h5 := if text_eqb (r_method r) (T "POST") && negb (contains H_ContentType h4)
               then set_item H_ContentType (T "application/x-www-form-urlencoded") h4 else h4) in *.
    assert (P5 : keys_norm h5 /\ forall k, hask k h5 = true -> hask k h4 = true \/ (k = H_ContentType /\ r_method r = T "POST")).
    { unfold h5. destruct (text_eqb (r_method r) (T "POST")) eqn:Em; simpl; [|split; [exact (proj1 P4)|auto]].
      destruct (negb (contains H_ContentType h4)); [|split; [exact (proj1 P4)|auto]].
      split; [apply keys_norm_set_item; exact (proj1 P4)|]. intros k Hk. apply hask_set_item in Hk.
      rewrite norm_CT in Hk. apply text_eqb_eq in Em. tauto. }
    destruct (negb (forallb (fun kv => is_token (fst kv)) (get_all (set_item H_AcceptEncoding (T "gzip") h5)))); [discriminate|].
    destruct (has_crlf _ || existsb _ _); [discriminate|]. inversion H; subst; clear H. simpl.
    split; [apply keys_norm_set_item; exact (proj1 P5)|].
    intros k Hk. apply hask_set_item in Hk. rewrite norm_AE in Hk.
    destruct Hk as [Hk|Hk]; [tauto|].
    destruct (proj2 P5 k Hk) as [Hk5|Hk5]; [|tauto].
    destruct (proj2 P4 k Hk5) as [Hk4|Hk4]; [|tauto].
    destruct (proj2 P3 k Hk4) as [Hk3|Hk3]; [|tauto].
    destruct (proj2 P2' k Hk3) as [Hk2'|Hk2'].
    + destruct (proj2 P2 k Hk2') as [Hk2|Hk2]; [|tauto].
      destruct (proj2 P1 k Hk2) as [Hk1|Hk1]; tauto.
    + right. right. right. right. right. left. split; [exact Hk2'|].
      exists u. split; [first [exact Eu|reflexivity]|]. exists us, pw. first [exact Ecr|reflexivity].
Qed.
