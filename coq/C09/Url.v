(* C09 — the pieces of urllib.parse (CPython 3.12.1) and tornado.httputil that
   _HTTPConnection.run()/finish() apply to URLs, on ASCII text without bracketed (IPv6) hosts:
   urlsplit, urlunsplit, SplitResult.username/password/hostname/port, split_host_and_port.
   Anything outside that domain is an explicit `Unmodelled` result.  urljoin is NOT modelled: its
   result is an input of the redirect model.  Definitions only. *)
From Coq Require Import List NArith Bool String Ascii.
Import ListNotations.
From TV Require Import C06.Model.
Local Open Scope N_scope.

(* text literals *)
Definition T (s : string) : text := map N_of_ascii (list_ascii_of_string s).

Record usplit := mkU { u_scheme : text; u_netloc : text; u_path : text; u_query : text; u_frag : text }.
Inductive ures := UOk (u : usplit) | UUnmodelled.

Definition is_alpha (c : N) : bool := in_range 65 90 c || in_range 97 122 c.
Definition is_digit (c : N) : bool := in_range 48 57 c.
(* urllib.parse.scheme_chars *)
Definition scheme_char (c : N) : bool :=
  is_alpha c || is_digit c || (c =? 43) || (c =? 45) || (c =? 46).

(* url.lstrip(_WHATWG_C0_CONTROL_OR_SPACE) *)
Fixpoint lstrip_c0 (l : text) : text :=
  match l with [] => [] | c :: r => if c <=? 32 then lstrip_c0 r else l end.
(* for b in "\t\r\n": url = url.replace(b, "") *)
Definition is_unsafe (c : N) : bool := (c =? 9) || (c =? 10) || (c =? 13).
Definition remove_unsafe (l : text) : text := filter (fun c => negb (is_unsafe c)) l.

(* s.partition(d): (before, Some after), or (s, None) when d does not occur *)
Fixpoint partition_at (d : N) (l : text) : text * option text :=
  match l with
  | [] => ([], None)
  | c :: r => if c =? d then ([], Some r)
              else let '(a, b) := partition_at d r in (c :: a, b)
  end.
(* s.rpartition(d): (Some before, after), or (None, s) *)
Fixpoint rpartition_at (d : N) (l : text) : option text * text :=
  match l with
  | [] => (None, [])
  | c :: r =>
      match rpartition_at d r with
      | (Some a, b) => (Some (c :: a), b)
      | (None, b) => if c =? d then (Some [], b) else (None, c :: b)
      end
  end.

Definition c_colon := 58.  Definition c_at := 64.  Definition c_slash := 47.
Definition c_qm := 63.     Definition c_hash := 35. Definition c_pct := 37.

(* i = url.find(':'); if i > 0 and url[0] is an ASCII letter and all of url[:i] are scheme
   characters: scheme, url = url[:i].lower(), url[i+1:] *)
Definition split_scheme (url : text) : text * text :=
  match partition_at c_colon url with
  | (c :: pre, Some post) =>
      if is_alpha c && forallb scheme_char (c :: pre) then (map lower (c :: pre), post) else ([], url)
  | _ => ([], url)
  end.

(* _splitnetloc(url, 2) applied to the text after the leading "//" *)
Definition is_delim (c : N) : bool := (c =? c_slash) || (c =? c_qm) || (c =? c_hash).
Fixpoint span_netloc (l : text) : text * text :=
  match l with
  | [] => ([], [])
  | c :: r => if is_delim c then ([], l) else let '(a, b) := span_netloc r in (c :: a, b)
  end.

Definition split_opt (d : N) (l : text) : text * text :=
  match partition_at d l with (a, Some b) => (a, b) | (a, None) => (a, []) end.

Definition urlsplit (url0 : text) : ures :=
  if existsb (fun c => 128 <=? c) url0 then UUnmodelled else
  let url := remove_unsafe (lstrip_c0 url0) in
  let '(scheme, rest) := split_scheme url in
  let '(netloc, rest1) :=
    match rest with
    | a :: b :: r => if (a =? c_slash) && (b =? c_slash) then span_netloc r else ([], rest)
    | _ => ([], rest)
    end in
  if existsb (fun c => (c =? 91) || (c =? 93)) netloc then UUnmodelled else     (* "[" "]" *)
  let '(rest2, frag) := split_opt c_hash rest1 in
  let '(path, query) := split_opt c_qm rest2 in
  UOk (mkU scheme netloc path query frag).

Definition uses_netloc : list text :=
  map T [""; "ftp"; "http"; "gopher"; "nntp"; "telnet"; "imap"; "wais"; "file"; "mms"; "https"; "shttp";
         "snews"; "prospero"; "rtsp"; "rtsps"; "rtspu"; "rsync"; "svn"; "svn+ssh"; "sftp"; "nfs"; "git";
         "git+ssh"; "ws"; "wss"; "itms-services"]%string.

Definition nonempty (l : text) : bool := match l with [] => false | _ => true end.
Definition starts_slashslash (l : text) : bool :=
  match l with a :: b :: _ => (a =? c_slash) && (b =? c_slash) | _ => false end.

Definition urlunsplit (u : usplit) : text :=
  let url := u_path u in
  let url :=
    if nonempty (u_netloc u) ||
       (nonempty (u_scheme u) && existsb (text_eqb (u_scheme u)) uses_netloc && negb (starts_slashslash url))
    then
      let url := match url with
                 | c :: _ => if c =? c_slash then url else c_slash :: url
                 | [] => url
                 end in
      c_slash :: c_slash :: u_netloc u ++ url
    else url in
  let url := if nonempty (u_scheme u) then u_scheme u ++ c_colon :: url else url in
  let url := if nonempty (u_query u) then url ++ c_qm :: u_query u else url in
  if nonempty (u_frag u) then url ++ c_hash :: u_frag u else url.

(* ---------- SplitResult attributes (no brackets in netloc) ---------- *)
Definition has_at (netloc : text) : bool := existsb (N.eqb c_at) netloc.

(* _userinfo: (username, password); username None when there is no "@" *)
Definition userinfo (netloc : text) : option (text * option text) :=
  match rpartition_at c_at netloc with
  | (Some ui, _) => Some (partition_at c_colon ui)
  | (None, _) => None
  end.

Definition hostinfo (netloc : text) : text := snd (rpartition_at c_at netloc).
(* _hostinfo: (hostname, port) with port None when empty *)
Definition host_port (netloc : text) : text * option text :=
  match partition_at c_colon (hostinfo netloc) with
  | (h, Some (c :: p)) => (h, Some (c :: p))
  | (h, _) => (h, None)
  end.
(* .hostname: None when empty; lower-cased up to a "%" zone separator *)
Definition hostname (netloc : text) : option text :=
  match fst (host_port netloc) with
  | [] => None
  | h => match partition_at c_pct h with
         | (a, Some z) => Some (map lower a ++ c_pct :: z)
         | (a, None) => Some (map lower a)
         end
  end.

Definition dec_value (ds : text) : N := fold_left (fun acc c => 10 * acc + (c - 48)) ds 0.
Inductive pres := PNone | PSome (n : N) | PValueError.
(* .port *)
Definition port (netloc : text) : pres :=
  match snd (host_port netloc) with
  | None => PNone
  | Some p => if forallb is_digit p
              then (if dec_value p <=? 65535 then PSome (dec_value p) else PValueError)
              else PValueError
  end.

(* str(n) *)
Fixpoint dec_digits (fuel : nat) (n : N) (acc : text) : option text :=
  match fuel with
  | O => None
  | S f => if n <? 10 then Some ((48 + n) :: acc)
           else dec_digits f (n / 10) ((48 + n mod 10) :: acc)
  end.
Definition to_dec (n : N) : option text := dec_digits (S (N.to_nat (N.size n))) n [].

(* tornado.httputil.split_host_and_port: _netloc_re = ^(.+):(\d+)$ *)
Definition split_host_and_port (netloc : text) : text * option N :=
  match rpartition_at c_colon netloc with
  | (Some (c :: h), d :: ds) =>
      if forallb is_digit (d :: ds) && Nat.leb (List.length (d :: ds)) 4300
      then (c :: h, Some (dec_value (d :: ds))) else (netloc, None)
  | _ => (netloc, None)
  end.
