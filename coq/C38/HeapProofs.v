(* C38 — machine-checked facts about the executable heapq model of C38/Model.v:
   heappush / heappop preserve the multiset of elements and the heap order, and the
   head of a heap-ordered array is a minimum. *)
From Coq Require Import List ZArith Arith Bool Lia Permutation.
Import ListNotations.
From TV Require Import C38.Model.
Local Open Scope Z_scope.

(* parent index arithmetic; [lia] treats [(i - 1) / 2] as an atom, these give it its meaning *)
Lemma par_spec : forall i, (0 < i)%nat ->
  (i = 2 * ((i - 1) / 2) + 1 \/ i = 2 * ((i - 1) / 2) + 2)%nat.
Proof.
  intros i Hi.
  pose proof (Nat.div_mod (i - 1) 2 ltac:(lia)) as H.
  pose proof (Nat.mod_upper_bound (i - 1) 2 ltac:(lia)) as H2.
  lia.
Qed.

Lemma par_uniq : forall i p, (i = 2 * p + 1 \/ i = 2 * p + 2)%nat -> ((i - 1) / 2 = p)%nat.
Proof.
  intros i p H.
  pose proof (par_spec i ltac:(lia)) as H1. lia.
Qed.

Section HeapProofs.
  Context {A : Type} (key : A -> Z) (d : A).

  Definition heap_ok (h : list A) : Prop :=
    forall i, (0 < i < length h)%nat -> key (nth ((i - 1) / 2) h d) <= key (nth i h d).

  (* ---------------------------------------------------------------- *)
  (* arrays *)

  Lemma upd_length : forall (l : list A) i x, length (upd l i x) = length l.
  Proof.
    induction l as [|a l IH]; intros i x; [reflexivity|].
    destruct i; simpl; [reflexivity|]. now rewrite IH.
  Qed.

  Lemma nth_upd_eq : forall (l : list A) i x, (i < length l)%nat -> nth i (upd l i x) d = x.
  Proof.
    induction l as [|a l IH]; intros i x Hi; simpl in Hi; [lia|].
    destruct i; simpl; [reflexivity|]. apply IH; lia.
  Qed.

  Lemma nth_upd_neq : forall (l : list A) i j x, j <> i -> nth j (upd l i x) d = nth j l d.
  Proof.
    induction l as [|a l IH]; intros i j x Hij; [reflexivity|].
    destruct i; destruct j; simpl; try reflexivity; try lia.
    apply IH; lia.
  Qed.

  Lemma upd_nth_same : forall (l : list A) i, upd l i (nth i l d) = l.
  Proof.
    induction l as [|a l IH]; intros i; [reflexivity|].
    destruct i; simpl; [reflexivity|]. now rewrite IH.
  Qed.

  Lemma perm_upd : forall (l : list A) i x, (i < length l)%nat ->
    Permutation (x :: l) (nth i l d :: upd l i x).
  Proof.
    induction l as [|a l IH]; intros i x Hi; simpl in Hi; [lia|].
    destruct i; simpl.
    - apply perm_swap.
    - eapply perm_trans; [apply perm_swap|].
      eapply perm_trans; [apply perm_skip; apply (IH i x); lia|].
      apply perm_swap.
  Qed.

  (* moving the element at j into slot i and then writing x at j, versus writing x at i *)
  Lemma upd_move_perm : forall (l : list A) i j x,
    i <> j -> (i < length l)%nat -> (j < length l)%nat ->
    Permutation (upd (upd l i (nth j l d)) j x) (upd l i x).
  Proof.
    intros l i j x Hij Hi Hj.
    apply (Permutation_cons_inv (a := nth j l d)).
    apply (Permutation_cons_inv (a := nth i l d)).
    (* left: nth i l :: nth j l :: upd (upd l i l[j]) j x *)
    pose proof (perm_upd (upd l i (nth j l d)) j x ltac:(rewrite upd_length; lia)) as P1.
    rewrite nth_upd_neq in P1 by lia.
    pose proof (perm_upd l i (nth j l d) Hi) as P2.
    pose proof (perm_upd l i x Hi) as P3.
    (* x :: l[j] :: l  ~  both sides *)
    apply perm_trans with (x :: nth j l d :: l).
    - apply Permutation_sym.
      eapply perm_trans; [apply perm_skip; apply P2|].
      eapply perm_trans; [apply perm_swap|].
      apply perm_skip. exact P1.
    - eapply perm_trans; [apply perm_swap|].
      eapply perm_trans; [apply perm_skip; apply P3|].
      apply perm_swap.
  Qed.

  (* ---------------------------------------------------------------- *)
  (* unfolding equations *)

  Lemma siftdown_0 : forall h pos x, siftdown key d 0 h pos x = upd h pos x.
  Proof. reflexivity. Qed.

  Lemma siftdown_S : forall fu h pos x,
    siftdown key d (S fu) h pos x =
    if (pos =? 0)%nat then upd h pos x
    else if klt key x (nth ((pos - 1) / 2) h d)
         then siftdown key d fu (upd h pos (nth ((pos - 1) / 2) h d)) ((pos - 1) / 2) x
         else upd h pos x.
  Proof. intros fu h pos x. destruct pos; reflexivity. Qed.

  Lemma siftup_loop_S : forall fu h pos,
    siftup_loop key d (S fu) h pos =
    if (2 * pos + 1 <? length h)%nat then
      let c' := if ((2 * pos + 1 + 1 <? length h)%nat &&
                    negb (klt key (nth (2 * pos + 1) h d) (nth (2 * pos + 1 + 1) h d)))%bool
                then (2 * pos + 1 + 1)%nat else (2 * pos + 1)%nat in
      siftup_loop key d fu (upd h pos (nth c' h d)) c'
    else (h, pos).
  Proof. reflexivity. Qed.

  (* ---------------------------------------------------------------- *)
  (* lengths and permutations *)

  Lemma siftdown_perm : forall fuel h pos x, (pos < length h)%nat ->
    Permutation (siftdown key d fuel h pos x) (upd h pos x).
  Proof.
    induction fuel as [|fu IH]; intros h pos x Hpos.
    - rewrite siftdown_0. apply Permutation_refl.
    - rewrite siftdown_S.
      destruct (pos =? 0)%nat eqn:E0; [apply Permutation_refl|].
      apply Nat.eqb_neq in E0.
      pose proof (par_spec pos ltac:(lia)) as Hp.
      destruct (klt key x (nth ((pos - 1) / 2) h d)); [|apply Permutation_refl].
      eapply perm_trans.
      + apply IH. rewrite upd_length. lia.
      + apply upd_move_perm; lia.
  Qed.

  Lemma siftdown_length : forall fuel h pos x,
    length (siftdown key d fuel h pos x) = length h.
  Proof.
    induction fuel as [|fu IH]; intros h pos x.
    - rewrite siftdown_0. apply upd_length.
    - rewrite siftdown_S.
      destruct (pos =? 0)%nat; [apply upd_length|].
      destruct (klt key x (nth ((pos - 1) / 2) h d)); [|apply upd_length].
      rewrite IH. apply upd_length.
  Qed.

  Lemma siftup_loop_perm : forall fuel h pos h' p,
    siftup_loop key d fuel h pos = (h', p) -> (pos < length h)%nat ->
    (p < length h')%nat /\ length h' = length h /\
    forall x, Permutation (upd h' p x) (upd h pos x).
  Proof.
    induction fuel as [|fu IH]; intros h pos h' p E Hpos.
    - simpl in E. inversion E; subst. repeat split; auto.
    - rewrite siftup_loop_S in E.
      destruct (2 * pos + 1 <? length h)%nat eqn:Ec.
      + apply Nat.ltb_lt in Ec.
        cbv zeta in E.
        remember (if ((2 * pos + 1 + 1 <? length h)%nat &&
                      negb (klt key (nth (2 * pos + 1) h d) (nth (2 * pos + 1 + 1) h d)))%bool
                  then (2 * pos + 1 + 1)%nat else (2 * pos + 1)%nat) as c' eqn:Ec'.
        assert (Hc' : (c' < length h /\ c' <> pos)%nat).
        { subst c'. destruct (2 * pos + 1 + 1 <? length h)%nat eqn:Er; cbn [andb].
          - apply Nat.ltb_lt in Er.
            destruct (negb _); lia.
          - lia. }
        destruct Hc' as [Hc'1 Hc'2].
        apply IH in E; [|rewrite upd_length; lia].
        destruct E as (E1 & E2 & E3).
        rewrite upd_length in E2.
        repeat split; auto.
        intros x. eapply perm_trans; [apply E3|].
        apply upd_move_perm; lia.
      + inversion E; subst. repeat split; auto.
  Qed.

  Lemma siftup0_perm : forall g, (0 < length g)%nat -> Permutation (siftup0 key d g) g.
  Proof.
    intros g Hg. unfold siftup0.
    destruct (siftup_loop key d (length g) g 0) as [h' p] eqn:E.
    apply siftup_loop_perm in E; [|lia].
    destruct E as (E1 & E2 & E3).
    eapply perm_trans; [apply siftdown_perm; lia|].
    eapply perm_trans; [apply E3|].
    rewrite upd_nth_same. apply Permutation_refl.
  Qed.

  Lemma siftup0_length : forall g, (0 < length g)%nat -> length (siftup0 key d g) = length g.
  Proof.
    intros g Hg. apply Permutation_length. now apply siftup0_perm.
  Qed.

  Lemma heappush_perm : forall h x, Permutation (heappush key d h x) (x :: h).
  Proof.
    intros h x. unfold heappush.
    eapply perm_trans.
    - apply siftdown_perm. rewrite app_length. simpl. lia.
    - replace (upd (h ++ [x]) (length h) x) with (h ++ [x]).
      + apply Permutation_sym. apply Permutation_cons_append.
      + clear. induction h as [|a h IH]; simpl; [reflexivity|]. now rewrite <- IH.
  Qed.

  Lemma heappush_length : forall h x, length (heappush key d h x) = S (length h).
  Proof.
    intros h x. apply (Permutation_length (heappush_perm h x)).
  Qed.

  Lemma heappop_cons2 : forall top t, t <> [] ->
    heappop key d (top :: t) = Some (top, siftup0 key d (last t d :: removelast t)).
  Proof. intros top [|b l] Hne; [congruence|reflexivity]. Qed.

  Lemma heappop_single : forall top, heappop key d [top] = Some (top, []).
  Proof. reflexivity. Qed.

  Lemma heappop_none : forall h, heappop key d h = None <-> h = [].
  Proof.
    intros h. split.
    - destruct h as [|top [|b l]]; [reflexivity| |].
      + rewrite heappop_single. discriminate.
      + rewrite heappop_cons2 by discriminate. discriminate.
    - intros ->. reflexivity.
  Qed.

  Lemma heappop_top : forall h x h', heappop key d h = Some (x, h') -> exists t, h = x :: t.
  Proof.
    intros h x h' E.
    destruct h as [|top [|b l]].
    - discriminate.
    - rewrite heappop_single in E. inversion E; subst. now exists [].
    - rewrite heappop_cons2 in E by discriminate. injection E as E1 E2. subst x.
      now exists (b :: l).
  Qed.

  Lemma heappop_perm : forall h x h', heappop key d h = Some (x, h') -> Permutation h (x :: h').
  Proof.
    intros h x h' E.
    destruct h as [|top [|b l]].
    - discriminate.
    - rewrite heappop_single in E. inversion E; subst. apply Permutation_refl.
    - assert (Hne : b :: l <> []) by discriminate.
      revert E Hne. generalize (b :: l) as t. intros t E Hne.
      rewrite heappop_cons2 in E by exact Hne. injection E as E1 E2. subst x h'.
      apply perm_skip. apply Permutation_sym.
      eapply perm_trans; [apply siftup0_perm; simpl; lia|].
      eapply perm_trans; [apply Permutation_cons_append|].
      rewrite <- app_removelast_last by exact Hne.
      apply Permutation_refl.
  Qed.

  Lemma heappop_length : forall h x h', heappop key d h = Some (x, h') -> length h = S (length h').
  Proof.
    intros h x h' E. apply (Permutation_length (heappop_perm h x h' E)).
  Qed.

  (* ---------------------------------------------------------------- *)
  (* heap order *)

  Lemma heap_ok_nil : heap_ok [].
  Proof. intros i Hi. simpl in Hi. lia. Qed.

  Lemma heap_ok_root_le : forall h, heap_ok h ->
    forall i, (i < length h)%nat -> key (nth 0 h d) <= key (nth i h d).
  Proof.
    intros h Hh i.
    induction i as [i IH] using lt_wf_ind.
    intros Hi.
    destruct (Nat.eq_dec i 0) as [->|Hne]; [lia|].
    pose proof (par_spec i ltac:(lia)) as Hp.
    pose proof (Hh i ltac:(lia)) as H1.
    pose proof (IH ((i - 1) / 2)%nat ltac:(lia) ltac:(lia)) as H2.
    lia.
  Qed.

  Lemma heap_ok_head_min : forall x t, heap_ok (x :: t) -> forall y, In y t -> key x <= key y.
  Proof.
    intros x t Hh y Hy.
    destruct (In_nth t y d Hy) as (n & Hn & En).
    pose proof (heap_ok_root_le (x :: t) Hh (S n) ltac:(simpl; lia)) as H.
    simpl in H. now rewrite En in H.
  Qed.

  Lemma heap_ok_prefix : forall a b, heap_ok (a ++ b) -> heap_ok a.
  Proof.
    intros a b H i Hi.
    pose proof (par_spec i ltac:(lia)) as Hp.
    pose proof (H i ltac:(rewrite app_length; lia)) as H1.
    rewrite !app_nth1 in H1 by lia. exact H1.
  Qed.

  (* bubble-up *)
  Lemma siftdown_ok : forall fuel h pos x,
    (pos < fuel)%nat -> (pos < length h)%nat ->
    (forall i, (0 < i < length h)%nat -> i <> pos -> ((i - 1) / 2)%nat <> pos ->
               key (nth ((i - 1) / 2) h d) <= key (nth i h d)) ->
    (forall i, (0 < i < length h)%nat -> ((i - 1) / 2)%nat = pos -> key x <= key (nth i h d)) ->
    ((0 < pos)%nat -> forall i, (0 < i < length h)%nat -> ((i - 1) / 2)%nat = pos ->
               key (nth ((pos - 1) / 2) h d) <= key (nth i h d)) ->
    heap_ok (siftdown key d fuel h pos x).
  Proof.
    induction fuel as [|fu IH]; intros h pos x Hfuel Hpos H1 H2 H3; [lia|].
    rewrite siftdown_S.
    destruct (pos =? 0)%nat eqn:E0.
    - apply Nat.eqb_eq in E0. subst pos.
      intros i Hi. rewrite upd_length in Hi.
      pose proof (par_spec i ltac:(lia)) as Hp.
      rewrite (nth_upd_neq h 0 i) by lia.
      destruct (Nat.eq_dec ((i - 1) / 2) 0) as [Ep|Ep].
      + rewrite Ep. rewrite nth_upd_eq by lia. apply H2; lia.
      + rewrite nth_upd_neq by lia. apply H1; lia.
    - apply Nat.eqb_neq in E0.
      pose proof (par_spec pos ltac:(lia)) as Hpp.
      set (pp := ((pos - 1) / 2)%nat) in *.
      unfold klt. destruct (key x <? key (nth pp h d)) eqn:Elt.
      + apply Z.ltb_lt in Elt.
        assert (Hpar : (0 < pp)%nat -> key (nth ((pp - 1) / 2) h d) <= key (nth pp h d)).
        { intros Hpp0. pose proof (par_spec pp Hpp0) as Hq. apply H1; lia. }
        apply IH.
        * lia.
        * rewrite upd_length. lia.
        * intros i Hi Hne1 Hne2. rewrite upd_length in Hi.
          pose proof (par_spec i ltac:(lia)) as Hp.
          destruct (Nat.eq_dec i pos) as [->|Hip]; [fold pp in Hne2; lia|].
          rewrite (nth_upd_neq h pos i) by lia.
          destruct (Nat.eq_dec ((i - 1) / 2) pos) as [Ep|Ep].
          -- rewrite Ep. rewrite nth_upd_eq by lia. apply H3; lia.
          -- rewrite nth_upd_neq by lia. apply H1; lia.
        * intros i Hi Epar. rewrite upd_length in Hi.
          destruct (Nat.eq_dec i pos) as [->|Hip].
          -- rewrite nth_upd_eq by lia. lia.
          -- rewrite nth_upd_neq by lia.
             pose proof (H1 i Hi Hip ltac:(lia)) as H. rewrite Epar in H. lia.
        * intros Hpp0 i Hi Epar. rewrite upd_length in Hi.
          pose proof (par_spec pp Hpp0) as Hq.
          specialize (Hpar Hpp0).
          rewrite (nth_upd_neq h pos ((pp - 1) / 2)) by lia.
          destruct (Nat.eq_dec i pos) as [->|Hip].
          -- rewrite nth_upd_eq by lia. exact Hpar.
          -- rewrite nth_upd_neq by lia.
             pose proof (H1 i Hi Hip ltac:(lia)) as H. rewrite Epar in H. lia.
      + apply Z.ltb_ge in Elt.
        intros i Hi. rewrite upd_length in Hi.
        pose proof (par_spec i ltac:(lia)) as Hp.
        destruct (Nat.eq_dec i pos) as [->|Hip].
        * fold pp. rewrite nth_upd_eq by lia. rewrite nth_upd_neq by lia. lia.
        * rewrite (nth_upd_neq h pos i) by lia.
          destruct (Nat.eq_dec ((i - 1) / 2) pos) as [Ep|Ep].
          -- rewrite Ep. rewrite nth_upd_eq by lia. apply H2; lia.
          -- rewrite nth_upd_neq by lia. apply H1; lia.
  Qed.

  (* hole-down *)
  Lemma siftup_loop_ok : forall fuel h pos h' p,
    siftup_loop key d fuel h pos = (h', p) ->
    (length h <= fuel + pos)%nat -> (pos < length h)%nat ->
    (forall i, (0 < i < length h)%nat -> i <> pos -> ((i - 1) / 2)%nat <> pos ->
               key (nth ((i - 1) / 2) h d) <= key (nth i h d)) ->
    ((0 < pos)%nat -> forall i, (0 < i < length h)%nat -> ((i - 1) / 2)%nat = pos ->
               key (nth ((pos - 1) / 2) h d) <= key (nth i h d)) ->
    length h' = length h /\ (p < length h')%nat /\ (length h' <= 2 * p + 1)%nat /\
    (forall i, (0 < i < length h')%nat -> i <> p -> ((i - 1) / 2)%nat <> p ->
               key (nth ((i - 1) / 2) h' d) <= key (nth i h' d)).
  Proof.
    induction fuel as [|fu IH]; intros h pos h' p E Hfuel Hpos J1 J2; [lia|].
    rewrite siftup_loop_S in E.
    destruct (2 * pos + 1 <? length h)%nat eqn:Ec.
    - apply Nat.ltb_lt in Ec.
      cbv zeta in E.
      remember (if ((2 * pos + 1 + 1 <? length h)%nat &&
                    negb (klt key (nth (2 * pos + 1) h d) (nth (2 * pos + 1 + 1) h d)))%bool
                then (2 * pos + 1 + 1)%nat else (2 * pos + 1)%nat) as c' eqn:Ec'.
      assert (Hc' : (c' < length h)%nat /\ (c' = 2 * pos + 1 \/ c' = 2 * pos + 2)%nat /\
                    forall i, (i < length h)%nat -> (i = 2 * pos + 1 \/ i = 2 * pos + 2)%nat ->
                              key (nth c' h d) <= key (nth i h d)).
      { subst c'. unfold klt.
        destruct (2 * pos + 1 + 1 <? length h)%nat eqn:Er; cbn [andb negb].
        - apply Nat.ltb_lt in Er.
          destruct (key (nth (2 * pos + 1) h d) <? key (nth (2 * pos + 1 + 1) h d)) eqn:Ek;
            cbn [andb negb].
          + apply Z.ltb_lt in Ek.
            split; [lia|]. split; [lia|].
            intros i Hi [->| ->]; [lia|].
            replace (2 * pos + 2)%nat with (2 * pos + 1 + 1)%nat by lia. lia.
          + apply Z.ltb_ge in Ek.
            split; [lia|]. split; [lia|].
            intros i Hi [->| ->]; [lia|].
            replace (2 * pos + 2)%nat with (2 * pos + 1 + 1)%nat by lia. lia.
        - apply Nat.ltb_ge in Er.
          split; [lia|]. split; [lia|].
          intros i Hi [->| ->]; lia. }
      destruct Hc' as (Hc1 & Hc2 & Hc3).
      clear Ec'.
      pose proof (par_uniq c' pos Hc2) as Hparc.
      apply IH in E.
      + rewrite upd_length in E. exact E.
      + rewrite upd_length. lia.
      + rewrite upd_length. lia.
      + intros i Hi Hne1 Hne2. rewrite upd_length in Hi.
        pose proof (par_spec i ltac:(lia)) as Hp.
        destruct (Nat.eq_dec i pos) as [->|Hip].
        * rewrite nth_upd_eq by lia.
          rewrite nth_upd_neq by lia.
          apply J2; lia.
        * rewrite (nth_upd_neq h pos i) by lia.
          destruct (Nat.eq_dec ((i - 1) / 2) pos) as [Ep|Ep].
          -- rewrite Ep. rewrite nth_upd_eq by lia. apply Hc3; lia.
          -- rewrite nth_upd_neq by lia. apply J1; lia.
      + intros Hc0 i Hi Epar. rewrite upd_length in Hi.
        pose proof (par_spec i ltac:(lia)) as Hp.
        rewrite Hparc. rewrite nth_upd_eq by lia.
        rewrite nth_upd_neq by lia.
        pose proof (J1 i Hi ltac:(lia) ltac:(lia)) as H. rewrite Epar in H. exact H.
    - apply Nat.ltb_ge in Ec.
      inversion E; subst h' p.
      repeat split; auto; lia.
  Qed.

  Lemma siftup0_ok : forall g, (0 < length g)%nat ->
    (forall i, (0 < i < length g)%nat -> ((i - 1) / 2)%nat <> 0%nat ->
               key (nth ((i - 1) / 2) g d) <= key (nth i g d)) ->
    heap_ok (siftup0 key d g).
  Proof.
    intros g Hg Hrel. unfold siftup0.
    destruct (siftup_loop key d (length g) g 0) as [h' p] eqn:E.
    apply siftup_loop_ok in E.
    - destruct E as (E1 & E2 & E3 & E4).
      apply siftdown_ok.
      + lia.
      + lia.
      + exact E4.
      + intros i Hi Epar. pose proof (par_spec i ltac:(lia)) as Hp. lia.
      + intros _ i Hi Epar. pose proof (par_spec i ltac:(lia)) as Hp. lia.
    - lia.
    - lia.
    - intros i Hi _ Hne. apply Hrel; assumption.
    - lia.
  Qed.

  Lemma heappush_ok : forall h x, heap_ok h -> heap_ok (heappush key d h x).
  Proof.
    intros h x Hh. unfold heappush.
    apply siftdown_ok.
    - lia.
    - rewrite app_length. simpl. lia.
    - intros i Hi Hne1 Hne2. rewrite app_length in Hi. simpl in Hi.
      pose proof (par_spec i ltac:(lia)) as Hp.
      rewrite !app_nth1 by lia. apply Hh. lia.
    - intros i Hi Epar. rewrite app_length in Hi. simpl in Hi.
      pose proof (par_spec i ltac:(lia)) as Hp. lia.
    - intros _ i Hi Epar. rewrite app_length in Hi. simpl in Hi.
      pose proof (par_spec i ltac:(lia)) as Hp. lia.
  Qed.

  Lemma heappop_ok : forall h x h', heap_ok h -> heappop key d h = Some (x, h') -> heap_ok h'.
  Proof.
    intros h x h' Hh E.
    destruct h as [|top [|b l]].
    - discriminate.
    - rewrite heappop_single in E. inversion E; subst. apply heap_ok_nil.
    - assert (Hne : b :: l <> []) by discriminate.
      revert Hh E Hne. generalize (b :: l) as t. intros t Hh E Hne.
      rewrite heappop_cons2 in E by exact Hne. injection E as E1 E2. subst x h'.
      assert (Hpre : heap_ok (top :: removelast t)).
      { apply heap_ok_prefix with (b := [last t d]).
        change ((top :: removelast t) ++ [last t d])
          with (top :: (removelast t ++ [last t d])).
        rewrite <- app_removelast_last by exact Hne. exact Hh. }
      apply siftup0_ok.
      + simpl. lia.
      + intros i Hi Hq.
        pose proof (Hpre i Hi) as H.
        destruct i as [|i]; [lia|].
        destruct ((S i - 1) / 2)%nat as [|q] eqn:Eq; [lia|].
        exact H.
  Qed.

End HeapProofs.

Print Assumptions heap_ok_nil.
Print Assumptions heap_ok_head_min.
Print Assumptions heappop_none.
Print Assumptions heappop_top.
Print Assumptions heappush_perm.
Print Assumptions heappop_perm.
Print Assumptions heappush_ok.
Print Assumptions heappop_ok.
