(* C38 — exceptions raised by callbacks are logged, exactly those, immediately. *)
From Coq Require Import List ZArith Arith Bool Lia.
Import ListNotations.
From TV Require Import C38.Model C38.Spec C38.Steps.
Local Open Scope Z_scope.

Lemma lfold_app st a b : lfold st (a ++ b) = match lfold st a with Some st' => lfold st' b | None => None end.
Proof. revert st. induction a as [|e a IH]; intro st; simpl; auto. destruct (lstep st e); auto. Qed.

(* the trace is accepted and nothing is owed *)
Definition LOK (k : option rkind) (s : st) : Prop := lfold (None, None) (ctr s) = Some (k, None).

Definition quiet (e : ev) : Prop :=
  match e with ELog _ | ERun _ _ _ | EEnd _ (EndRaise _) => False | _ => True end.

Lemma lstep_quiet k e : quiet e -> lstep (k, None) e = Some (k, None).
Proof. destruct e as [| | | | | | |? []| | | | |]; simpl; tauto. Qed.

Lemma LOK_emit k s e : quiet e -> LOK k s -> LOK k (emit e s).
Proof.
  unfold LOK. intros Q H. change (ctr (emit e s)) with (ctr s ++ [e]).
  rewrite lfold_app, H. simpl. rewrite lstep_quiet; auto.
Qed.

Lemma LOK_frame k s s' : trace s' = trace s -> LOK k s -> LOK k s'.
Proof. unfold LOK, ctr. intros ->. auto. Qed.

Lemma resolve_trace key r s s' : resolve key r s = Some s' -> trace s' = trace s.
Proof. unfold resolve. destruct (fget (futs s) key); intro H; inversion H; reflexivity. Qed.

Lemma add_done_callback_trace key c s : trace (add_done_callback key c s) = trace s.
Proof. unfold add_done_callback. destruct (fget (futs s) key); reflexivity. Qed.

Lemma LOK_step k s s' :
  (trace s' = trace s \/ exists e, quiet e /\ trace s' = e :: trace s) -> LOK k s -> LOK k s'.
Proof.
  intros [E|(e & Q & E)] L.
  - eapply LOK_frame; eauto.
  - eapply LOK_frame with (s:=emit e s); [exact E|]. apply LOK_emit; auto.
Qed.

Lemma exec_op_trace o s s' r : exec_op o s = (s', r) ->
  trace s' = trace s \/ exists e, quiet e /\ trace s' = e :: trace s.
Proof.
  destruct o as [b|fm t b|n|f b|f v|f e|f|t]; cbn [exec_op]; intros H.
  - inversion H; subst. right. eexists; split; [|reflexivity]. exact I.
  - inversion H; subst. right. eexists; split; [|reflexivity]. exact I.
  - destruct (nth_error (handles s) n); inversion H; subst; auto.
    right. eexists; split; [|reflexivity]. exact I.
  - inversion H; subst. right. exists (EAf (next s) f). split; [exact I|].
    rewrite add_done_callback_trace. reflexivity.
  - destruct (resolve f (FOk (Some v)) s) as [s1|] eqn:R; inversion H; subst; right.
    + exists (ERs f 0 v). split; [exact I|]. simpl. rewrite (resolve_trace _ _ _ _ R). reflexivity.
    + exists EOr. split; [exact I|reflexivity].
  - destruct (resolve f (FExc (XUser e)) s) as [s1|] eqn:R; inversion H; subst; right.
    + exists (ERs f 1 e). split; [exact I|]. simpl. rewrite (resolve_trace _ _ _ _ R). reflexivity.
    + exists EOr. split; [exact I|reflexivity].
  - destruct (resolve f FCancelled s) as [s1|] eqn:R; inversion H; subst; auto. right.
    exists (ERs f 2 0). split; [exact I|]. simpl. rewrite (resolve_trace _ _ _ _ R). reflexivity.
  - inversion H; subst. right. eexists; split; [|reflexivity]. exact I.
Qed.

Lemma exec_op_LOK k o s s' r : exec_op o s = (s', r) -> LOK k s -> LOK k s'.
Proof. intros H. apply LOK_step. eapply exec_op_trace; eauto. Qed.

Lemma exec_ops_LOK k os : forall s s' r, exec_ops os s = (s', r) -> LOK k s -> LOK k s'.
Proof.
  induction os as [|o os IH]; simpl; intros s s' r H L.
  - inversion H; subst; auto.
  - destruct (exec_op o s) as [s1 r1] eqn:E. apply (exec_op_LOK k) in E; auto.
    destruct r1; [inversion H; subst; auto|eauto].
Qed.

(* after the user function: accepted, with the log record owed iff it raised (and is not run_sync's function) *)
Lemma run_fn_lfold k0 i rk b s s' e :
  run_fn i rk b s = (s', e) -> LOK k0 s ->
  lfold (None, None) (ctr s') =
  Some (Some rk, match e, rk with
                 | EndRaise _, RFn => None
                 | EndRaise _, _ => Some i
                 | _, _ => None
                 end).
Proof.
  unfold run_fn. destruct (exec_ops (b_ops b) (emit (ERun i rk (b_label b)) s)) as [s1 r] eqn:E.
  intros H L. inversion H; subst; clear H.
  assert (L1 : LOK (Some rk) (emit (ERun i rk (b_label b)) s)).
  { unfold LOK in *. change (ctr (emit (ERun i rk (b_label b)) s)) with (ctr s ++ [ERun i rk (b_label b)]).
    rewrite lfold_app, L. reflexivity. }
  apply (exec_ops_LOK (Some rk)) in E; auto. unfold LOK in E.
  match goal with |- context [emit (EEnd i ?x) s1] => set (en := x) end.
  change (ctr (emit (EEnd i en) s1)) with (ctr s1 ++ [EEnd i en]).
  rewrite lfold_app, E. simpl.
  destruct en as [| | |x]; try reflexivity. destruct rk; reflexivity.
Qed.

Lemma run_handle_LOK k h s : LOK k s -> exists k', LOK k' (run_handle h s).
Proof.
  intro L. destruct h as [i hk b|key| |i b|w]; simpl.
  - destruct (run_fn i (rkind_of hk) b s) as [s1 e] eqn:R.
    pose proof (run_fn_lfold _ _ _ _ _ _ _ R L) as F.
    destruct e as [| |f|x].
    + exists (Some (rkind_of hk)). exact F.
    + exists (Some (rkind_of hk)). exact F.
    + exists (Some (rkind_of hk)). eapply LOK_frame; [apply add_done_callback_trace|exact F].
    + exists (Some (rkind_of hk)). unfold LOK. change (ctr (emit (ELog i) s1)) with (ctr s1 ++ [ELog i]).
      rewrite lfold_app, F. destruct hk; cbn [rkind_of lfold lstep snd fst]; rewrite Nat.eqb_refl; reflexivity.
  - exists k. destruct (fget (futs s) key); auto. apply LOK_emit; [exact I|auto].
  - exists k. eapply LOK_frame; [|exact L]. reflexivity.
  - destruct (run_fn i RFn b s) as [s1 e] eqn:R.
    pose proof (run_fn_lfold _ _ _ _ _ _ _ R L) as F. exists (Some RFn).
    destruct e as [| |f|x]; (eapply LOK_frame; [|exact F]); try reflexivity.
    rewrite add_done_callback_trace. reflexivity.
  - exists k. destruct (cell s) as [[r|f]|] eqn:C.
    + eapply LOK_frame; [|exact L]. reflexivity.
    + destruct (resolve f FCancelled (set_tcalled s)) as [s2|] eqn:R.
      * apply LOK_emit; [exact I|].
        eapply LOK_frame; [eapply resolve_trace; eauto|]. eapply LOK_frame; [|exact L]. reflexivity.
      * eapply LOK_frame; [|exact L]. reflexivity.
    + apply LOK_emit; [exact I|]. eapply LOK_frame; [|exact L]. reflexivity.
Qed.

Lemma run_todo_LOK todo : forall k s, LOK k s -> exists k', LOK k' (run_todo todo s).
Proof.
  induction todo as [|h t IH]; intros k s L; simpl; [eauto|].
  destruct (is_cancelled s h); [eauto|].
  destruct (run_handle_LOK k h s L) as (k' & L'). eauto.
Qed.

Lemma drop_cancelled_trace fuel : forall s, trace (drop_cancelled fuel s) = trace s.
Proof.
  induction fuel as [|fu IH]; intro s; simpl; auto.
  destruct (heap s) as [|h0 hs]; auto. destruct (is_cancelled s h0); auto.
  destruct (hpop (h0 :: hs)) as [[h hp]|]; auto. rewrite IH. reflexivity.
Qed.

Lemma run_once_LOK k s s' : run_once s = Some s' -> LOK k s -> exists k', LOK k' s'.
Proof.
  rewrite run_once_unfold. cbv zeta.
  pose proof (drop_cancelled_trace (length (heap s)) s) as D.
  revert D. generalize (drop_cancelled (length (heap s)) s). intros s1 D.
  destruct (select_timeout s1) as [dt|]; [|discriminate].
  intros H L. inversion H; subst; clear H.
  apply run_todo_LOK with (k:=k).
  eapply LOK_frame with (s:=emit (EIt (now s1 + dt)) (set_now (now s1 + dt) s1)).
  - simpl. generalize (pop_due_trace (length (heap s1)) (emit (EIt (now s1 + dt)) (set_now (now s1 + dt) s1))).
    unfold ctr. intro E. apply (f_equal (@rev ev)) in E. rewrite !rev_involutive in E. exact E.
  - apply LOK_emit; [exact I|]. eapply LOK_frame; [|exact L]. simpl. exact D.
Qed.

Lemma run_loop_LOK fuel : forall k s s' e, run_loop fuel s = (s', e) -> LOK k s -> exists k', LOK k' s'.
Proof.
  induction fuel as [|fu IH]; intros k s s' e; simpl; intros H L.
  - inversion H; subst; eauto.
  - destruct (run_once s) as [s2|] eqn:R.
    + destruct (run_once_LOK _ _ _ R L) as (k2 & L2).
      destruct (stopping s2); [inversion H; subst; eauto|eauto].
    + inversion H; subst; eauto.
Qed.

(* ------------------------------------------------------------------ *)
(* what acceptance means *)
Lemma last_kind_snoc tr e : last_kind (tr ++ [e]) = match e with ERun _ k _ => Some k | _ => last_kind tr end.
Proof. unfold last_kind. rewrite fold_left_app. reflexivity. Qed.

Lemma lfold_fst : forall tr st st', lfold st tr = Some st' ->
  fst st' = fold_left (fun k e => match e with ERun _ k' _ => Some k' | _ => k end) tr (fst st).
Proof.
  induction tr as [|e tr IH]; intros st st' H; simpl in *; [inversion H; auto|].
  destruct (lstep st e) as [st1|] eqn:E; [|discriminate].
  rewrite (IH _ _ H). f_equal.
  unfold lstep in E. destruct st as [k o]; simpl in *. destruct o as [i|].
  - destruct e; try discriminate. destruct (i =? i0)%nat; inversion E; reflexivity.
  - destruct e as [| | | | | | |? []| | | | |]; inversion E; try reflexivity.
    destruct k as [[]|]; inversion E; reflexivity.
Qed.


Lemma lfold_owed : forall tr k i, lfold (None, None) tr = Some (k, Some i) ->
  exists tr0 x, tr = tr0 ++ [EEnd i (EndRaise x)].
Proof.
  intro tr. induction tr as [|e tr0 _] using rev_ind; intros k i H; [discriminate|].
  rewrite lfold_app in H. destruct (lfold (None, None) tr0) as [[k0 o0]|]; [|discriminate].
  simpl in H. destruct (lstep (k0, o0) e) as [st1|] eqn:E; [|discriminate]. inversion H; subst; clear H.
  unfold lstep in E. simpl in E. destruct o0 as [j|].
  - destruct e; try discriminate. destruct (j =? i0)%nat; discriminate.
  - destruct e as [| | | | | | |j []| | | | |]; try discriminate.
    destruct k0 as [[]|]; inversion E; subst; eauto.
Qed.

Theorem log_discipline tr k : lfold (None, None) tr = Some (k, None) ->
  (forall tr1 i x tr2, tr = tr1 ++ EEnd i (EndRaise x) :: tr2 -> last_kind tr1 <> Some RFn ->
     exists tr3, tr2 = ELog i :: tr3) /\
  (forall tr1 i tr2, tr = tr1 ++ ELog i :: tr2 -> exists tr0 x, tr1 = tr0 ++ [EEnd i (EndRaise x)]).
Proof.
  intro H. split.
  - intros tr1 i x tr2 E NK. subst tr. rewrite lfold_app in H.
    destruct (lfold (None, None) tr1) as [[k1 o1]|] eqn:F; [|discriminate].
    pose proof (lfold_fst _ _ _ F) as FK. simpl in FK. fold (last_kind tr1) in FK.
    destruct o1 as [j|]; [simpl in H; inversion H|].
    assert (S1 : lstep (k1, None) (EEnd i (EndRaise x)) = Some (k1, Some i)).
    { simpl. destruct k1 as [[]|]; try reflexivity. exfalso. apply NK. rewrite <- FK. reflexivity. }
    change (lfold (k1, None) (EEnd i (EndRaise x) :: tr2))
      with (match lstep (k1, None) (EEnd i (EndRaise x)) with Some st' => lfold st' tr2 | None => None end) in H.
    rewrite S1 in H.
    destruct tr2 as [|e tr3]; [simpl in H; inversion H|].
    simpl in H. unfold lstep in H. simpl in H. destruct e; try (inversion H; fail).
    destruct (i =? i0)%nat eqn:EQ; [|inversion H]. apply Nat.eqb_eq in EQ. subst. eauto.
  - intros tr1 i tr2 E. subst tr. rewrite lfold_app in H.
    destruct (lfold (None, None) tr1) as [[k1 o1]|] eqn:F; [|discriminate].
    simpl in H. destruct o1 as [j|].
    + simpl in H. unfold lstep in H. simpl in H.
      destruct (j =? i)%nat eqn:EQ; [|inversion H]. apply Nat.eqb_eq in EQ. subst j.
      eapply lfold_owed; eauto.
    + simpl in H. unfold lstep in H. simpl in H. inversion H.
Qed.
