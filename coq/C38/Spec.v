(* C38 — vocabulary for stating the property on a chronological event trace.
   Definitions only. *)
From Coq Require Import List ZArith Arith Bool.
Import ListNotations.
From TV Require Import C38.Model.
Local Open Scope Z_scope.

(* the chronological trace of a state *)
Definition ctr (s : st) : list ev := rev (trace s).

Definition rkind_eqb (a b : rkind) : bool :=
  match a, b with
  | RCb, RCb | RTo, RTo | RFut, RFut | RFn, RFn => true
  | _, _ => false
  end.

(* instances created by add_callback, in call order *)
Definition sc_list (tr : list ev) : list nat :=
  flat_map (fun e => match e with ESc i => [i] | _ => [] end) tr.
(* instances created by timeout calls *)
Definition st_ids (tr : list ev) : list nat :=
  flat_map (fun e => match e with ESt i _ => [i] | _ => [] end) tr.
(* instances created by add_future *)
Definition af_ids (tr : list ev) : list nat :=
  flat_map (fun e => match e with EAf i _ => [i] | _ => [] end) tr.
(* instances of kind k that started running, in run order *)
Definition runs (k : rkind) (tr : list ev) : list nat :=
  flat_map (fun e => match e with ERun i k' _ => if rkind_eqb k k' then [i] else [] | _ => [] end) tr.

(* the loop's clock after the events of tr (0 = the virtual epoch) *)
Definition clock_step (c : Z) (e : ev) : Z := match e with EIt t | EAdv t => t | _ => c end.
Definition clock_of (tr : list ev) : Z := fold_left clock_step tr 0.

(* Q holds at every event e of tr, given the events tr1 that precede it *)
Definition all_prefix (Q : list ev -> ev -> Prop) (tr : list ev) : Prop :=
  forall tr1 e tr2, tr = tr1 ++ e :: tr2 -> Q tr1 e.

(* an iteration boundary occurs in tr *)
Definition has_it (tr : list ev) : Prop := exists t, In (EIt t) tr.

(* ---------- handles ---------- *)
Definition cb_id (h : handle) : list nat := match h with HUser i KCb _ => [i] | _ => [] end.
Definition cb_ids (l : list handle) : list nat := flat_map cb_id l.
Definition to_id (h : handle) : list nat := match h with HUser i (KTo _) _ => [i] | _ => [] end.
Definition to_ids (l : list handle) : list nat := flat_map to_id l.
Definition fut_id (h : handle) : list nat := match h with HUser i (KFut _) _ => [i] | _ => [] end.
Definition fut_ids (l : list handle) : list nat := flat_map fut_id l.
Definition timerlike (h : handle) : bool :=
  match h with HUser _ (KTo _) _ | HTimeoutCb _ => true | _ => false end.
Definition le_when (a b : handle) : Prop := hwhen a <= hwhen b.

(* ---------- the logging discipline as an automaton over the chronological trace ----------
   state: (kind of the instance that started last, instance whose "Exception in callback" record is owed) *)
Definition lstate := (option rkind * option nat)%type.
Definition lstep (st : lstate) (e : ev) : option lstate :=
  match snd st with
  | Some i => match e with ELog j => if (i =? j)%nat then Some (fst st, None) else None | _ => None end
  | None =>
      match e with
      | ELog _ => None
      | ERun _ k _ => Some (Some k, None)
      | EEnd i (EndRaise _) =>
          match fst st with
          | Some RFn => Some st            (* run_sync's function: the exception goes to the future *)
          | _ => Some (fst st, Some i)
          end
      | _ => Some st
      end
  end.

Fixpoint lfold (st : lstate) (tr : list ev) : option lstate :=
  match tr with
  | [] => Some st
  | e :: tr' => match lstep st e with Some st' => lfold st' tr' | None => None end
  end.

(* kind of the instance that started last in tr *)
Definition last_kind (tr : list ev) : option rkind :=
  fold_left (fun k e => match e with ERun _ k' _ => Some k' | _ => k end) tr None.

(* ---------- futures ---------- *)
Definition resolved (f : nat) (tr : list ev) : Prop := exists how v, In (ERs f how v) tr.
(* event e occurs in tr and an iteration boundary follows it *)
Definition aged_after (e : ev) (tr : list ev) : Prop := exists a b, tr = a ++ e :: b /\ has_it b.

(* ---------- timeouts scheduled before / during the current iteration ----------
   (old, young): timeout instances scheduled before the last iteration boundary / since it.  A timeout
   scheduled by a callback of the current iteration ("young") cannot overtake the timeouts that this
   iteration has already collected from the heap; every other pending timeout is ordered by deadline. *)
Definition sched_step (acc : list nat * list nat) (e : ev) : list nat * list nat :=
  match e with
  | EIt _ => (fst acc ++ snd acc, [])
  | ESt i _ => (fst acc, snd acc ++ [i])
  | _ => acc
  end.
Definition sched_split (tr : list ev) : list nat * list nat := fold_left sched_step tr ([], []).
Definition old_ids (tr : list ev) : list nat := fst (sched_split tr).
Definition young_ids (tr : list ev) : list nat := snd (sched_split tr).
