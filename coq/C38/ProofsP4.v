(* C38 phase 4 — the add_callback monitor chk_cb accepts the model's (squashed) trace, for ALL inputs. *)
From Coq Require Import List ZArith Arith Bool Lia.
Import ListNotations.
From TV Require Import C38.Model C38.Spec C38.Monitor C38.Run C38.Steps C38.Invariants C38.LogProofs C38.FutProofs C38.Proofs.
Local Open Scope Z_scope.

Lemma fold_opt_app {S} (step : S -> ev -> option S) s a b :
  fold_opt step s (a ++ b) = match fold_opt step s a with Some s' => fold_opt step s' b | None => None end.
Proof. revert s. induction a as [|e a IH]; intro s; simpl; auto. destruct (step s e); auto. Qed.

Lemma all_prefix_app_l Q a b : all_prefix Q (a ++ b) -> all_prefix Q a.
Proof. intros H tr1 e tr2 E. apply (H tr1 e (tr2 ++ b)). rewrite E, <- app_assoc. reflexivity. Qed.

Lemma all_prefix_last Q a e : all_prefix Q (a ++ [e]) -> Q a e.
Proof. intro H. apply (H a e []). reflexivity. Qed.

(* what the trace must satisfy at each add_callback event, given the events before it *)
Definition Qcb (tr1 : list ev) (e : ev) : Prop :=
  match e with
  | ESc i => ~ In i (sc_list tr1)
  | ERun i RCb _ => exists rest, sc_list tr1 = runs RCb tr1 ++ i :: rest
  | _ => True
  end.

Lemma astep_Qcb c c' : astep c c' -> Inv (fst c) (snd c) ->
  all_prefix Qcb (ctr (snd c)) -> all_prefix Qcb (ctr (snd c')).
Proof.
  intros A. destruct A; cbn [fst snd]; intros HI HP.
  - rewrite ctr_emit. apply all_prefix_snoc; auto. destruct e; simpl in *; tauto.
  - change (ctr (push_ready [HUser (next s) KCb b] (emit (ESc (next s)) (bump s)))) with (ctr s ++ [ESc (next s)]).
    apply all_prefix_snoc; auto. simpl. destruct HI. intro H.
    rewrite Forall_forall in v_sc_fresh. apply v_sc_fresh in H. lia.
  - change (ctr (add_handle (next s) (sched_timer (HUser (next s) (KTo dl) b) (emit (ESt (next s) dl) (bump s)))))
      with (ctr s ++ [ESt (next s) dl]). apply all_prefix_snoc; auto. exact I.
  - change (ctr (cancel_inst i (emit (ERm i) s))) with (ctr s ++ [ERm i]). apply all_prefix_snoc; auto. exact I.
  - unfold ctr. rewrite add_done_callback_trace. change (rev (trace (emit (EAf (next s) f) (bump s)))) with (ctr s ++ [EAf (next s) f]).
    apply all_prefix_snoc; auto. exact I.
  - unfold ctr. rewrite add_done_callback_trace. exact HP.
  - rewrite ctr_emit. apply all_prefix_snoc; [|exact I]. unfold ctr. rewrite (resolve_trace _ _ _ _ H). exact HP.
  - change (ctr (emit (EAdv t) (set_now t s))) with (ctr s ++ [EAdv t]). apply all_prefix_snoc; auto. exact I.
  - rewrite ctr_emit. apply all_prefix_snoc; auto. destruct k as [|d|f]; simpl; auto.
    destruct HI. exists (cb_ids (td ++ ready s)). rewrite v_cb. reflexivity.
  - exact HP.
  - exact HP.
  - exact HP.
  - rewrite ctr_emit. apply all_prefix_snoc; auto. exact I.
  - exact HP.
  - exact HP.
  - exact HP.
  - exact HP.
  - exact HP.
  - exact HP.
  - change (ctr (emit (EIt t) (set_now t s))) with (ctr s ++ [EIt t]). apply all_prefix_snoc; auto. exact I.
  - exact HP.
Qed.

Lemma asteps_Qcb c c' : asteps c c' -> Inv (fst c) (snd c) -> all_prefix Qcb (ctr (snd c)) ->
  Inv (fst c') (snd c') /\ all_prefix Qcb (ctr (snd c')).
Proof.
  induction 1; auto. intros HI HP. apply IHasteps.
  - eapply astep_preserves; eauto.
  - eapply astep_Qcb; eauto.
Qed.

Lemma Qcb_init c s0 : init_of c = Some s0 -> all_prefix Qcb (ctr s0).
Proof.
  destruct c as [b|b tm|]; simpl; intro H; inversion H; subst.
  - change (ctr (init_prog b)) with ([] ++ [ESc 0%nat]). apply all_prefix_snoc; [apply all_prefix_nil|]. simpl. tauto.
  - assert (E : ctr (init_sync b tm) = []) by (unfold init_sync; destruct tm; reflexivity).
    rewrite E. apply all_prefix_nil.
Qed.

Lemma mem_false_notin i l : ~ In i l -> mem i l = false.
Proof.
  intro H. unfold mem. destruct (existsb (Nat.eqb i) l) eqn:E; auto.
  apply existsb_exists in E. destruct E as (x & H1 & H2). apply Nat.eqb_eq in H2. subst. contradiction.
Qed.

Lemma runs_snoc_other k tr e : (forall i l, e <> ERun i k l) -> runs k (tr ++ [e]) = runs k tr.
Proof.
  intro N. rewrite runs_app. destruct e as [| | | | | |i k' l| | | | | |]; simpl; rewrite ?app_nil_r; auto.
  destruct k, k'; simpl; rewrite ?app_nil_r; auto; exfalso; eapply N; eauto.
Qed.

(* the monitor's queue after tr is exactly the scheduled-but-not-yet-run suffix *)
Lemma cb_accepts tr : all_prefix Qcb tr ->
  exists q, fold_opt cb_step [] tr = Some q /\ sc_list tr = runs RCb tr ++ q.
Proof.
  induction tr as [|e tr0 IH] using rev_ind; intro AP.
  - exists []. split; reflexivity.
  - destruct (IH (all_prefix_app_l _ _ _ AP)) as (q & F & E). pose proof (all_prefix_last _ _ _ AP) as Q.
    rewrite fold_opt_app, F. cbn [fold_opt].
    destruct e as [i|i d|i|i f|f h v| |i k l|i x|i|f| |t|t];
      try (exists q; split; [reflexivity|]; rewrite sc_list_app, runs_snoc_other by (intros; discriminate);
           simpl; rewrite app_nil_r; exact E).
    + (* ESc *)
      simpl in Q. assert (NI : ~ In i q) by (intro H; apply Q; rewrite E; apply in_or_app; auto).
      cbn [cb_step]. rewrite (mem_false_notin _ _ NI). exists (q ++ [i]). split; [reflexivity|].
      rewrite sc_list_app, runs_snoc_other by (intros; discriminate). simpl. rewrite E, <- app_assoc. reflexivity.
    + (* ERun *)
      destruct k.
      * simpl in Q. destruct Q as (rest & Q). rewrite E in Q. apply app_inv_head in Q. subst q.
        cbn [cb_step]. rewrite Nat.eqb_refl. exists rest. split; [reflexivity|].
        rewrite sc_list_app, runs_app. simpl. rewrite app_nil_r, E, <- app_assoc. reflexivity.
      * exists q. split; [reflexivity|]. rewrite sc_list_app, runs_snoc_other by (intros; discriminate).
        simpl; rewrite app_nil_r; exact E.
      * exists q. split; [reflexivity|]. rewrite sc_list_app, runs_snoc_other by (intros; discriminate).
        simpl; rewrite app_nil_r; exact E.
      * exists q. split; [reflexivity|]. rewrite sc_list_app, runs_snoc_other by (intros; discriminate).
        simpl; rewrite app_nil_r; exact E.
Qed.

(* dropping empty iterations does not matter to this monitor *)
Lemma cb_fold_squash : forall tr q, fold_opt cb_step q (squash tr) = fold_opt cb_step q tr.
Proof.
  induction tr as [|e tr IH]; intro q; [reflexivity|].
  destruct e; try (simpl; destruct (cb_step q _); auto; fail);
    try (simpl; rewrite IH; reflexivity).
  - simpl. destruct (mem i q); auto.
  - simpl. destruct k; try apply IH. destruct q as [|j q']; auto. destruct (i =? j)%nat; auto.
  - (* EIt *)
    destruct tr as [|e' tr'].
    + reflexivity.
    + change (fold_opt cb_step q (EIt now :: e' :: tr')) with (fold_opt cb_step q (e' :: tr')).
      rewrite <- IH. destruct e'; reflexivity.
Qed.

Definition is_idle (e : loop_end) : bool := match e with Idle => true | _ => false end.

Theorem chk_cb_accepts_model c s0 fuel s e :
  init_of c = Some s0 -> run_loop fuel s0 = (s, e) -> e <> OutOfFuel ->
  chk_cb (is_idle e) (trace_of s) = true.
Proof.
  intros HI HR NE.
  assert (AP : all_prefix Qcb (ctr s)).
  { pose proof (Inv_init _ _ HI) as I1. pose proof (Qcb_init _ _ HI) as P1.
    pose proof HR as HR'. apply run_loop_steps in HR'; [|eapply ntl_init; eauto]. destruct e; [| |congruence].
    - destruct HR' as (s1 & A & _ & _ & T & _). destruct (asteps_Qcb _ _ A I1 P1) as [_ P].
      simpl in P. rewrite (ctr_eq _ _ T) in P. exact P.
    - destruct (asteps_Qcb _ _ HR' I1 P1) as [_ P]. exact P. }
  destruct (cb_accepts _ AP) as (q & F & E).
  unfold chk_cb, trace_of. rewrite cb_fold_squash. fold (ctr s). rewrite F.
  destruct e; simpl; auto.
  destruct (callbacks_exactly_once_in_order _ _ _ _ HI HR) as [R _].
  rewrite R in E. rewrite <- (app_nil_r (sc_list (ctr s))) in E at 1. apply app_inv_head in E. subst q. reflexivity.
Qed.
