(* C38 — the loop model decomposed into atomic actions.
   [astep (td, s) (td', s')]: one atomic action of the model, where td is the list of handles
   of the current iteration's snapshot that are still to be run (the remaining `ntodo`).
   Every function of Model.v is shown to be a sequence of atomic actions; invariants are then
   proved once per atomic action (Invariants.v). *)
From Coq Require Import List ZArith Arith Bool Lia.
Import ListNotations.
From TV Require Import C38.Model C38.Spec.
Local Open Scope Z_scope.

Definition cfg := (list handle * st)%type.

(* events that carry no scheduling information *)
Definition misc_ev (e : ev) : Prop :=
  match e with
  | EOr | EEnd _ _ | ELog _ | ELogd _ | EBad => True
  | _ => False
  end.

Inductive astep : cfg -> cfg -> Prop :=
| A_misc td s e : misc_ev e -> astep (td, s) (td, emit e s)
| A_sched_cb td s b :
    astep (td, s) (td, push_ready [HUser (next s) KCb b] (emit (ESc (next s)) (bump s)))
| A_sched_to td s dl b :
    astep (td, s) (td, add_handle (next s) (sched_timer (HUser (next s) (KTo dl) b)
                                             (emit (ESt (next s) dl) (bump s))))
| A_cancel td s i : In i (handles s) -> astep (td, s) (td, cancel_inst i (emit (ERm i) s))
| A_add_future td s f b :
    astep (td, s) (td, add_done_callback f (FcUser (next s) b) (emit (EAf (next s) f) (bump s)))
| A_add_done td s key c : (c = FcDiscard \/ c = FcStop) -> astep (td, s) (td, add_done_callback key c s)
| A_resolve td s f r s' how v :
    resolve f r s = Some s' ->
    ((how = 0%nat /\ r = FOk (Some v)) \/ (how = 1%nat /\ r = FExc (XUser v)) \/ (how = 2%nat /\ r = FCancelled /\ v = 0)) ->
    astep (td, s) (td, emit (ERs f how v) s')
| A_adv td s t : now s <= t -> astep (td, s) (td, emit (EAdv t) (set_now t s))
| A_run_user td s i k b :
    is_cancelled s (HUser i k b) = false ->
    astep (HUser i k b :: td, s) (td, emit (ERun i (rkind_of k) (b_label b)) s)
| A_skip td s h : is_cancelled s h = true -> astep (h :: td, s) (td, s)
| A_discard td s key : astep (HDiscard key :: td, s) (td, s)
| A_stop td s : astep (HStop :: td, s) (td, set_stopping s)
| A_run_sync td s i b : astep (HRunSync i b :: td, s) (td, emit (ERun i RFn (b_label b)) s)
| A_cell_fresh td s r : (* run() stores a new, already finished future in the cell and registers the stop callback *)
    (exists v, r = FOk v) \/ (exists x, r = FExc x) ->
    astep (td, s) (td, push_ready [HStop] (set_cell (CFresh r) s))
| A_cell_fut td s f : astep (td, s) (td, set_cell (CUser f) s)
| A_timeout_cb td s w : astep (HTimeoutCb w :: td, s) (td, set_tcalled s)
| A_timeout_stop td s : astep (td, s) (td, set_stopping s)
| A_heap_drop s h hp :
    hpop (heap s) = Some (h, hp) -> is_cancelled s h = true -> astep ([], s) ([], set_heap hp s)
| A_heap_pop s h hp :   (* only right after the iteration mark: no event since *)
    hpop (heap s) = Some (h, hp) -> hwhen h <= now s -> (exists tr0 t, ctr s = tr0 ++ [EIt t]) ->
    astep ([], s) ([], push_ready [h] (set_heap hp s))
| A_tick s t :          (* at the start of an iteration the ready queue holds no timer handles *)
    now s <= t -> filter timerlike (ready s) = [] -> astep ([], s) ([], emit (EIt t) (set_now t s))
| A_todo s : (exists tr0 t, ctr s = tr0 ++ [EIt t]) -> astep ([], s) (ready s, set_ready [] s).

Inductive asteps : cfg -> cfg -> Prop :=
| AS_refl c : asteps c c
| AS_step c1 c2 c3 : astep c1 c2 -> asteps c2 c3 -> asteps c1 c3.

Lemma asteps_trans c1 c2 c3 : asteps c1 c2 -> asteps c2 c3 -> asteps c1 c3.
Proof. induction 1; intros; auto. econstructor; eauto. Qed.

Lemma asteps_one c1 c2 : astep c1 c2 -> asteps c1 c2.
Proof. intros. econstructor; eauto. constructor. Qed.

(* ------------------------------------------------------------------ *)
Lemma exec_op_steps td o s s' r : exec_op o s = (s', r) -> asteps (td, s) (td, s').
Proof.
  destruct o as [b|fm t b|k|f b|f v|f e|f|t]; cbn [exec_op]; intro H.
  - inversion H; subst. apply asteps_one. apply A_sched_cb.
  - inversion H; subst. apply asteps_one. apply A_sched_to.
  - destruct (nth_error (handles s) k) as [i|] eqn:NE; inversion H; subst.
    + apply asteps_one. apply A_cancel. eapply nth_error_In; eauto.
    + constructor.
  - inversion H; subst. apply asteps_one. apply A_add_future.
  - destruct (resolve f (FOk (Some v)) s) as [s1|] eqn:R; inversion H; subst.
    + apply asteps_one. eapply A_resolve; eauto.
    + apply asteps_one. apply A_misc. exact I.
  - destruct (resolve f (FExc (XUser e)) s) as [s1|] eqn:R; inversion H; subst.
    + apply asteps_one. eapply A_resolve; eauto.
    + apply asteps_one. apply A_misc. exact I.
  - destruct (resolve f FCancelled s) as [s1|] eqn:R; inversion H; subst.
    + apply asteps_one. eapply A_resolve; eauto 7.
    + constructor.
  - inversion H; subst. apply asteps_one. apply A_adv. lia.
Qed.

Lemma exec_ops_steps td os : forall s s' r, exec_ops os s = (s', r) -> asteps (td, s) (td, s').
Proof.
  induction os as [|o os IH]; simpl; intros s s' r H.
  - inversion H; subst. constructor.
  - destruct (exec_op o s) as [s1 r1] eqn:E. apply (exec_op_steps td) in E.
    destruct r1.
    + inversion H; subst. exact E.
    + eapply asteps_trans; eauto.
Qed.

(* the part of run_fn after the ERun event *)
Lemma run_fn_steps td i k b s s' e :
  run_fn i k b s = (s', e) -> asteps (td, emit (ERun i k (b_label b)) s) (td, s').
Proof.
  unfold run_fn. destruct (exec_ops (b_ops b) (emit (ERun i k (b_label b)) s)) as [s1 r] eqn:E.
  intro H. inversion H; subst. apply (exec_ops_steps td) in E.
  eapply asteps_trans; [exact E|]. apply asteps_one. apply A_misc. exact I.
Qed.

Lemma run_handle_steps td h s :
  is_cancelled s h = false -> asteps (h :: td, s) (td, run_handle h s).
Proof.
  intro NC. destruct h as [i k b|key| |i b|w]; simpl.
  - destruct (run_fn i (rkind_of k) b s) as [s1 e] eqn:R.
    apply (run_fn_steps td) in R.
    eapply AS_step; [apply A_run_user; exact NC|].
    eapply asteps_trans; [exact R|].
    destruct e as [| |f|x].
    + constructor.
    + constructor.
    + apply asteps_one. apply A_add_done. auto.
    + apply asteps_one. apply A_misc. exact I.
  - eapply AS_step; [apply A_discard|].
    destruct (fget (futs s) key); try constructor.
    apply asteps_one. apply A_misc. exact I.
  - apply asteps_one. apply A_stop.
  - destruct (run_fn i RFn b s) as [s1 e] eqn:R.
    apply (run_fn_steps td) in R.
    eapply AS_step; [apply A_run_sync|].
    eapply asteps_trans; [exact R|].
    destruct e as [| |f|x].
    + apply asteps_one. apply A_cell_fresh. left; eauto.
    + apply asteps_one. apply A_cell_fresh. right; eauto.
    + eapply AS_step; [apply A_cell_fut|]. apply asteps_one. apply A_add_done. auto.
    + apply asteps_one. apply A_cell_fresh. right; eauto.
  - eapply AS_step; [apply A_timeout_cb|].
    simpl. destruct (cell s) as [[r|f]|] eqn:C.
    + apply asteps_one. apply A_timeout_stop.
    + destruct (resolve f FCancelled (set_tcalled s)) as [s2|] eqn:R.
      * apply asteps_one. eapply A_resolve; eauto 7.
      * apply asteps_one. apply A_timeout_stop.
    + apply asteps_one. apply A_misc. exact I.
Qed.

Lemma run_todo_steps todo : forall s, asteps (todo, s) ([], run_todo todo s).
Proof.
  induction todo as [|h t IH]; intro s; simpl.
  - constructor.
  - destruct (is_cancelled s h) eqn:C.
    + eapply AS_step; [apply A_skip; exact C|]. apply IH.
    + eapply asteps_trans; [apply run_handle_steps; exact C|]. apply IH.
Qed.

Lemma hpop_head h0 hs h hp : hpop (h0 :: hs) = Some (h, hp) -> h = h0.
Proof.
  unfold hpop, heappop. destruct hs as [|x l]; simpl; intro P; inversion P; reflexivity.
Qed.

Lemma drop_cancelled_steps fuel : forall s, asteps ([], s) ([], drop_cancelled fuel s).
Proof.
  induction fuel as [|fu IH]; intro s; simpl; [constructor|].
  destruct (heap s) as [|h0 hs] eqn:H; [constructor|].
  destruct (is_cancelled s h0) eqn:C; [|constructor].
  destruct (hpop (h0 :: hs)) as [[h hp]|] eqn:P; [|constructor].
  assert (h = h0) by (eapply hpop_head; eauto). subst h. eapply AS_step; [|apply IH]. eapply A_heap_drop; [rewrite H; exact P|exact C].
Qed.

Lemma pop_due_trace fuel : forall s, ctr (pop_due fuel s) = ctr s.
Proof.
  induction fuel as [|fu IH]; intro s; simpl; auto.
  destruct (heap s) as [|h0 hs]; auto. destruct (hwhen h0 <=? now s); auto.
  destruct (hpop (h0 :: hs)) as [[h hp]|]; auto. rewrite IH. reflexivity.
Qed.

Lemma pop_due_steps fuel : forall s,
  (exists tr0 t, ctr s = tr0 ++ [EIt t]) -> asteps ([], s) ([], pop_due fuel s).
Proof.
  induction fuel as [|fu IH]; intros s L; simpl; [constructor|].
  destruct (heap s) as [|h0 hs] eqn:H; [constructor|].
  destruct (hwhen h0 <=? now s) eqn:C; [|constructor].
  destruct (hpop (h0 :: hs)) as [[h hp]|] eqn:P; [|constructor].
  assert (h = h0) by (eapply hpop_head; eauto). subst h.
  eapply AS_step; [|apply IH; exact L]. eapply A_heap_pop; [rewrite H; exact P| |exact L]. apply Z.leb_le; exact C.
Qed.

(* ---------- the ready queue holds no timer handles, except while pop_due fills it ---------- *)
Definition ntl (s : st) : Prop := filter timerlike (ready s) = [].

Lemma ntl_push hs s : filter timerlike hs = [] -> ntl s -> ntl (push_ready hs s).
Proof. unfold ntl. simpl. intros H N. rewrite filter_app, N, H. reflexivity. Qed.

Lemma fcb_handles_ntl key cbs : filter timerlike (map (handle_of_fcb key) cbs) = [].
Proof. induction cbs as [|c cbs IH]; simpl; auto. destruct c; simpl; auto. Qed.

Lemma ntl_add_done_callback key c s : ntl s -> ntl (add_done_callback key c s).
Proof.
  intro N. unfold add_done_callback. destruct (fget (futs s) key); try exact N;
    apply ntl_push; auto; destruct c; reflexivity.
Qed.

Lemma ntl_resolve key r s s' : resolve key r s = Some s' -> ntl s -> ntl s'.
Proof.
  unfold resolve. destruct (fget (futs s) key); try discriminate. intros E N. inversion E; subst.
  apply ntl_push; [apply fcb_handles_ntl|exact N].
Qed.

Lemma ntl_exec_op o s s' r : exec_op o s = (s', r) -> ntl s -> ntl s'.
Proof.
  destruct o as [b|fm t b|k|f b|f v|f e|f|t]; cbn [exec_op]; intros H N.
  - inversion H; subst. apply ntl_push; auto.
  - inversion H; subst. exact N.
  - destruct (nth_error (handles s) k); inversion H; subst; exact N.
  - inversion H; subst. apply ntl_add_done_callback. exact N.
  - destruct (resolve f (FOk (Some v)) s) as [s1|] eqn:R; inversion H; subst; [|exact N].
    eapply ntl_resolve in R; eauto.
  - destruct (resolve f (FExc (XUser e)) s) as [s1|] eqn:R; inversion H; subst; [|exact N].
    eapply ntl_resolve in R; eauto.
  - destruct (resolve f FCancelled s) as [s1|] eqn:R; inversion H; subst; [|exact N].
    eapply ntl_resolve in R; eauto.
  - inversion H; subst. exact N.
Qed.

Lemma ntl_exec_ops os : forall s s' r, exec_ops os s = (s', r) -> ntl s -> ntl s'.
Proof.
  induction os as [|o os IH]; simpl; intros s s' r H N; [inversion H; subst; auto|].
  destruct (exec_op o s) as [s1 r1] eqn:E. apply ntl_exec_op in E; auto.
  destruct r1; [inversion H; subst; auto|eauto].
Qed.

Lemma ntl_run_fn i k b s s' e : run_fn i k b s = (s', e) -> ntl s -> ntl s'.
Proof.
  unfold run_fn. destruct (exec_ops (b_ops b) (emit (ERun i k (b_label b)) s)) as [s1 r] eqn:E.
  intros H N. inversion H; subst. apply ntl_exec_ops in E; auto.
Qed.

Lemma ntl_run_handle h s : ntl s -> ntl (run_handle h s).
Proof.
  intro N. destruct h as [i k b|key| |i b|w]; simpl.
  - destruct (run_fn i (rkind_of k) b s) as [s1 e] eqn:R. apply ntl_run_fn in R; auto.
    destruct e; auto. apply ntl_add_done_callback; auto.
  - destruct (fget (futs s) key); auto.
  - exact N.
  - destruct (run_fn i RFn b s) as [s1 e] eqn:R. apply ntl_run_fn in R; auto.
    destruct e; try (apply ntl_push; auto). apply ntl_add_done_callback. exact R.
  - destruct (cell s) as [[r|f]|]; try exact N.
    destruct (resolve f FCancelled (set_tcalled s)) as [s2|] eqn:R; [|exact N].
    eapply ntl_resolve in R; eauto.
Qed.

Lemma ntl_run_todo todo : forall s, ntl s -> ntl (run_todo todo s).
Proof.
  induction todo as [|h t IH]; intros s N; simpl; auto.
  destruct (is_cancelled s h); auto. apply IH. apply ntl_run_handle; auto.
Qed.

Lemma drop_cancelled_ready fuel : forall s, ready (drop_cancelled fuel s) = ready s.
Proof.
  induction fuel as [|n IHn]; intro s; simpl; auto.
  destruct (heap s) as [|h0 hs]; auto. destruct (is_cancelled s h0); auto.
  destruct (hpop (h0 :: hs)) as [[h hp]|]; auto. rewrite IHn. reflexivity.
Qed.

Definition select_timeout (s1 : st) : option Z :=
  match ready s1, heap s1 with
  | _ :: _, _ => Some 0
  | [], h0 :: _ => Some (Z.min (Z.max 0 (hwhen h0 - now s1)) MAX_SELECT)
  | [], [] => None
  end.

Lemma run_once_unfold s :
  run_once s =
  let s1 := drop_cancelled (length (heap s)) s in
  match select_timeout s1 with
  | None => None
  | Some dt =>
      let s3 := emit (EIt (now s1 + dt)) (set_now (now s1 + dt) s1) in
      let s4 := pop_due (length (heap s3)) s3 in
      Some (run_todo (ready s4) (set_ready [] s4))
  end.
Proof.
  unfold run_once, select_timeout. simpl.
  destruct (ready (drop_cancelled (length (heap s)) s)); [destruct (heap (drop_cancelled (length (heap s)) s))|]; reflexivity.
Qed.

Lemma select_timeout_nonneg s dt : select_timeout s = Some dt -> 0 <= dt.
Proof.
  unfold select_timeout, MAX_SELECT. destruct (ready s); [destruct (heap s)|]; intro H; inversion H; lia.
Qed.

Lemma run_once_steps s s' : ntl s -> run_once s = Some s' -> asteps ([], s) ([], s') /\ ntl s'.
Proof.
  intro N. rewrite run_once_unfold. cbv zeta.
  generalize (drop_cancelled_steps (length (heap s)) s).
  generalize (drop_cancelled_ready (length (heap s)) s).
  generalize (drop_cancelled (length (heap s)) s). intros s1 RD D.
  destruct (select_timeout s1) as [dt|] eqn:T; [|discriminate].
  intro H. inversion H; subst; clear H.
  apply select_timeout_nonneg in T. split.
  - eapply asteps_trans; [exact D|].
    eapply AS_step; [apply (A_tick s1 (now s1 + dt)); [lia|rewrite RD; exact N]|].
    eapply asteps_trans; [apply pop_due_steps; exists (ctr s1), (now s1 + dt); reflexivity|].
    eapply AS_step; [apply A_todo|apply run_todo_steps].
    rewrite pop_due_trace. exists (ctr s1), (now s1 + dt). reflexivity.
  - apply ntl_run_todo. reflexivity.
Qed.

(* when the selector would block forever: nothing ready, no timers *)
Lemma run_once_idle s :
  run_once s = None ->
  exists s1, asteps ([], s) ([], s1) /\ ready s1 = [] /\ heap s1 = [] /\ s1 = drop_cancelled (length (heap s)) s.
Proof.
  rewrite run_once_unfold. cbv zeta.
  destruct (select_timeout (drop_cancelled (length (heap s)) s)) as [dt|] eqn:T; [discriminate|].
  intros _. exists (drop_cancelled (length (heap s)) s). split; [apply drop_cancelled_steps|].
  unfold select_timeout in T.
  destruct (ready (drop_cancelled (length (heap s)) s)); [|discriminate].
  destruct (heap (drop_cancelled (length (heap s)) s)); [|discriminate]. auto.
Qed.

Lemma drop_cancelled_same fuel : forall s,
  trace (drop_cancelled fuel s) = trace s /\ futs (drop_cancelled fuel s) = futs s /\
  cell (drop_cancelled fuel s) = cell s /\ tcalled (drop_cancelled fuel s) = tcalled s.
Proof.
  induction fuel as [|n IHn]; intro s; simpl; auto.
  destruct (heap s) as [|h0 hs]; auto. destruct (is_cancelled s h0); auto.
  destruct (hpop (h0 :: hs)) as [[h hp]|]; auto.
  destruct (IHn (set_heap hp s)) as (A & B & C & D). rewrite A, B, C, D. auto.
Qed.

Lemma run_loop_steps fuel : forall s s' e,
  ntl s -> run_loop fuel s = (s', e) ->
  match e with
  | OutOfFuel => True
  | Stopped => asteps ([], s) ([], s')
  | Idle => exists s1, asteps ([], s) ([], s1) /\ ready s1 = [] /\ heap s1 = [] /\ trace s1 = trace s' /\
                       futs s1 = futs s' /\ cell s1 = cell s' /\ tcalled s1 = tcalled s'
  end.
Proof.
  induction fuel as [|fu IH]; intros s s' e N; simpl.
  - intro H; inversion H; subst. exact I.
  - destruct (run_once s) as [s2|] eqn:R.
    + apply run_once_steps in R; auto. destruct R as [R N2].
      destruct (stopping s2).
      * intro H; inversion H; subst. exact R.
      * intro H. apply IH in H; auto. destruct e; auto.
        -- destruct H as (s1 & A & B). exists s1. split; auto. eapply asteps_trans; eauto.
        -- eapply asteps_trans; eauto.
    + intro H; inversion H; subst. apply run_once_idle in R.
      destruct R as (s1 & A & B & C & D). exists s1. subst s1.
      destruct (drop_cancelled_same (length (heap s')) s') as (E1 & E2 & E3 & E4). repeat split; auto.
Qed.
