(* C38 — add_future callbacks run on a later iteration; futures resolve once; future state vs trace. *)
From Coq Require Import List ZArith Arith Bool Lia.
Import ListNotations.
From TV Require Import C38.Model C38.Spec C38.Steps C38.Invariants.
Local Open Scope Z_scope.

Definition Qfut (tr1 : list ev) (e : ev) : Prop :=
  match e with
  | ERun i RFut _ => exists f, aged_after (EAf i f) tr1 /\ exists how v, aged_after (ERs f how v) tr1
  | ERs f _ _ => ~ resolved f tr1
  | _ => True
  end.

Record Inv2 (td : list handle) (s : st) : Prop := {
  w_td : forall i f b, In (HUser i (KFut f) b) td ->
      aged_after (EAf i f) (ctr s) /\ exists how v, aged_after (ERs f how v) (ctr s);
  w_ready : forall i f b, In (HUser i (KFut f) b) (ready s) -> In (EAf i f) (ctr s) /\ resolved f (ctr s);
  w_cbs : forall f cbs i b, fget (futs s) f = FPending cbs -> In (FcUser i b) cbs -> In (EAf i f) (ctr s);
  w_state : forall f,
      match fget (futs s) f with
      | FPending _ => ~ resolved f (ctr s)
      | FOk (Some v) => In (ERs f 0 v) (ctr s)
      | FExc (XUser y) => In (ERs f 1 y) (ctr s)
      | FCancelled => In (ERs f 2 0) (ctr s)
      | _ => False
      end;
  w_P : all_prefix Qfut (ctr s)
}.

Lemma aged_after_snoc e tr x : aged_after e tr -> aged_after e (tr ++ [x]).
Proof.
  intros (a & b & E & (t & H)). exists a, (b ++ [x]). split.
  - rewrite E, <- app_assoc. reflexivity.
  - exists t. apply in_or_app; auto.
Qed.

Lemma resolved_snoc f tr x : resolved f tr -> resolved f (tr ++ [x]).
Proof. intros (h & v & H). exists h, v. apply in_or_app; auto. Qed.

Lemma resolved_snoc_inv f tr x : (forall h v, x <> ERs f h v) -> resolved f (tr ++ [x]) -> resolved f tr.
Proof.
  intros N (h & v & H). apply in_app_or in H. destruct H as [H|[H|[]]]; [exists h, v; auto|].
  exfalso. eapply N; eauto.
Qed.

(* appending an event that is neither a resolution nor a future-callback start *)
Definition fneutral (e : ev) : Prop :=
  match e with ERs _ _ _ | ERun _ RFut _ => False | _ => True end.

Lemma Inv2_emit td s e : fneutral e -> Inv2 td s -> Inv2 td (emit e s).
Proof.
  intros N [].
  assert (NR : forall f h v, e <> ERs f h v) by (intros f h v E; subst; exact N).
  constructor; cbn [ready futs emit]; rewrite ?ctr_emit.
  - intros i f b H. destruct (w_td0 i f b H) as (A & h & v & B).
    split; [apply aged_after_snoc; auto|]. exists h, v. apply aged_after_snoc; auto.
  - intros i f b H. destruct (w_ready0 i f b H) as (A & B). split; [apply in_or_app; auto|apply resolved_snoc; auto].
  - intros f cbs i b H1 H2. apply in_or_app; left. eapply w_cbs0; eauto.
  - intro f. specialize (w_state0 f). destruct (fget (futs s) f) as [cbs|[v|]|[y| |]|]; auto.
    + intro R. apply w_state0. eapply resolved_snoc_inv; eauto.
    + apply in_or_app; auto.
    + apply in_or_app; auto.
    + apply in_or_app; auto.
  - apply all_prefix_snoc; auto. destruct e as [| | | | | |? []| | | | | |]; simpl in *; tauto.
Qed.

Lemma Inv2_frame td s s' :
  trace s' = trace s -> ready s' = ready s -> futs s' = futs s -> Inv2 td s -> Inv2 td s'.
Proof.
  intros T R F []. assert (CT : ctr s' = ctr s) by (unfold ctr; rewrite T; reflexivity).
  constructor; rewrite ?CT, ?R, ?F; auto.
Qed.

Lemma Inv2_drop_head td s h : Inv2 (h :: td) s -> Inv2 td s.
Proof. intros []. constructor; auto. intros i f b H. apply (w_td0 i f b). right; auto. Qed.

(* pushing handles that are not add_future callbacks *)
Lemma Inv2_push_other td s hs :
  (forall i f b, ~ In (HUser i (KFut f) b) hs) -> Inv2 td s -> Inv2 td (push_ready hs s).
Proof.
  intros N []. constructor; cbn [ready futs push_ready]; change (ctr (push_ready hs s)) with (ctr s); auto.
  intros i f b H. apply in_app_or in H. destruct H as [H|H]; [eauto|]. exfalso. eapply N; eauto.
Qed.

Lemma fget_fset_same fs k v : fget (fset fs k v) k = v.
Proof. unfold fset. simpl. rewrite Nat.eqb_refl. reflexivity. Qed.

Lemma fget_filter_other fs k k' : k <> k' -> fget (filter (fun p => negb (fst p =? k)%nat) fs) k' = fget fs k'.
Proof.
  intro NE. induction fs as [|[a x] fs IH]; simpl; auto.
  destruct (a =? k)%nat eqn:E; simpl.
  - apply Nat.eqb_eq in E. subst a. destruct (k =? k')%nat eqn:E2; [apply Nat.eqb_eq in E2; congruence|auto].
  - destruct (a =? k')%nat; auto.
Qed.

Lemma fget_fset_other fs k v k' : k <> k' -> fget (fset fs k v) k' = fget fs k'.
Proof.
  intro NE. unfold fset. simpl. destruct (k =? k')%nat eqn:E; [apply Nat.eqb_eq in E; congruence|].
  apply fget_filter_other; auto.
Qed.

Lemma Inv2_add_done_callback td s key c :
  (forall i b, c = FcUser i b -> In (EAf i key) (ctr s)) ->
  Inv2 td s -> Inv2 td (add_done_callback key c s).
Proof.
  intros HC I0. unfold add_done_callback. destruct (fget (futs s) key) as [cbs| | |] eqn:G.
  - destruct I0. constructor; cbn [ready futs set_futs];
      change (ctr (set_futs (fset (futs s) key (FPending (cbs ++ [c]))) s)) with (ctr s); auto.
    + intros f cbs' i b H1 H2. destruct (Nat.eq_dec key f) as [E|NE].
      * subst f. rewrite fget_fset_same in H1. inversion H1; subst. apply in_app_or in H2.
        destruct H2 as [H2|[H2|[]]]; [eapply w_cbs0; eauto|subst; eapply HC; eauto].
      * rewrite fget_fset_other in H1; auto. eapply w_cbs0; eauto.
    + intro f. destruct (Nat.eq_dec key f) as [E|NE].
      * subst f. rewrite fget_fset_same. specialize (w_state0 key). rewrite G in w_state0. auto.
      * rewrite fget_fset_other; auto. apply w_state0.
  - (* already done: call_soon *)
    destruct c as [i b| |]; [|apply Inv2_push_other; auto; intros i f b [H|[]]; discriminate
                              |apply Inv2_push_other; auto; intros i f b [H|[]]; discriminate].
    pose proof I0 as I1. destruct I0. constructor; cbn [ready futs push_ready handle_of_fcb];
      change (ctr (push_ready [HUser i (KFut key) b] s)) with (ctr s); auto.
    intros i' f b' H. apply in_app_or in H. destruct H as [H|[H|[]]]; [eauto|].
    inversion H; subst. split; [eapply HC; eauto|].
    specialize (w_state0 f). rewrite G in w_state0. destruct v as [v|]; [|contradiction]. exists 0%nat, v. auto.
  - destruct c as [i b| |]; [|apply Inv2_push_other; auto; intros i f b [H|[]]; discriminate
                              |apply Inv2_push_other; auto; intros i f b [H|[]]; discriminate].
    pose proof I0 as I1. destruct I0. constructor; cbn [ready futs push_ready handle_of_fcb];
      change (ctr (push_ready [HUser i (KFut key) b] s)) with (ctr s); auto.
    intros i' f b' H. apply in_app_or in H. destruct H as [H|[H|[]]]; [eauto|].
    inversion H; subst. split; [eapply HC; eauto|].
    specialize (w_state0 f). rewrite G in w_state0. destruct x as [y| |]; try contradiction. exists 1%nat, y. auto.
  - destruct c as [i b| |]; [|apply Inv2_push_other; auto; intros i f b [H|[]]; discriminate
                              |apply Inv2_push_other; auto; intros i f b [H|[]]; discriminate].
    pose proof I0 as I1. destruct I0. constructor; cbn [ready futs push_ready handle_of_fcb];
      change (ctr (push_ready [HUser i (KFut key) b] s)) with (ctr s); auto.
    intros i' f b' H. apply in_app_or in H. destruct H as [H|[H|[]]]; [eauto|].
    inversion H; subst. split; [eapply HC; eauto|].
    specialize (w_state0 f). rewrite G in w_state0. exists 2%nat, 0. auto.
Qed.

Lemma Inv2_resolve td s f r s' how v :
  resolve f r s = Some s' ->
  ((how = 0%nat /\ r = FOk (Some v)) \/ (how = 1%nat /\ r = FExc (XUser v)) \/ (how = 2%nat /\ r = FCancelled /\ v = 0)) ->
  Inv2 td s -> Inv2 td (emit (ERs f how v) s').
Proof.
  unfold resolve. destruct (fget (futs s) f) as [cbs| | |] eqn:G; try discriminate.
  intros E HR []. inversion E; subst s'; clear E.
  pose proof (w_state0 f) as NRES. rewrite G in NRES.
  constructor; cbn [ready futs emit push_ready set_futs]; rewrite ?ctr_emit;
    change (ctr (push_ready (map (handle_of_fcb f) cbs) (set_futs (fset (futs s) f r) s))) with (ctr s).
  - intros i g b H. destruct (w_td0 i g b H) as (A & h & x & B).
    split; [apply aged_after_snoc; auto|]. exists h, x. apply aged_after_snoc; auto.
  - intros i g b H. apply in_app_or in H. destruct H as [H|H].
    + destruct (w_ready0 i g b H) as (A & B). split; [apply in_or_app; auto|apply resolved_snoc; auto].
    + apply in_map_iff in H. destruct H as (c & H1 & H2). destruct c as [i' b'| |]; simpl in H1; try discriminate.
      inversion H1; subst. split.
      * apply in_or_app; left. eapply w_cbs0; eauto.
      * exists how, v. apply in_or_app; right; simpl; auto.
  - intros g cbs' i b H1 H2. destruct (Nat.eq_dec f g) as [EQ|NE].
    + subst g. rewrite fget_fset_same in H1. subst r. destruct HR as [[_ HR]|[[_ HR]|[_ [HR _]]]]; discriminate.
    + rewrite fget_fset_other in H1; auto. apply in_or_app; left. eapply w_cbs0; eauto.
  - intro g. destruct (Nat.eq_dec f g) as [EQ|NE].
    + subst g. rewrite fget_fset_same.
      destruct HR as [[H1 H2]|[[H1 H2]|[H1 [H2 H3]]]]; subst; apply in_or_app; right; simpl; auto.
    + rewrite fget_fset_other; auto. specialize (w_state0 g).
      destruct (fget (futs s) g) as [cbs'|[x|]|[y| |]|]; auto; try (apply in_or_app; auto).
      intro R. apply w_state0. eapply resolved_snoc_inv; eauto. intros h x E. inversion E; congruence.
  - apply all_prefix_snoc; auto.
Qed.

Lemma in_not_last {A} (x e : A) tr0 : x <> e -> In x (tr0 ++ [e]) -> In x tr0.
Proof. intros NE H. apply in_app_or in H. destruct H as [H|[H|[]]]; auto. congruence. Qed.

Lemma aged_of_last_it e tr0 t : In e tr0 -> aged_after e (tr0 ++ [EIt t]).
Proof.
  intro H. apply in_split in H. destruct H as (a & b & E). exists a, (b ++ [EIt t]). split.
  - rewrite E, <- app_assoc. reflexivity.
  - exists t. apply in_or_app; right; simpl; auto.
Qed.

Lemma Inv2_todo s : (exists tr0 t, ctr s = tr0 ++ [EIt t]) -> Inv2 [] s -> Inv2 (ready s) (set_ready [] s).
Proof.
  intros (tr0 & t & E) []. constructor; cbn [ready futs set_ready]; change (ctr (set_ready [] s)) with (ctr s); auto.
  - intros i f b H. destruct (w_ready0 i f b H) as (A & (h & v & B)). rewrite E in *.
    split.
    + apply aged_of_last_it. eapply in_not_last; eauto. discriminate.
    + exists h, v. apply aged_of_last_it. eapply in_not_last; eauto. discriminate.
  - intros i f b [].
Qed.

Lemma Inv2_push_timerish td s h : timerlike h = true -> Inv2 td s -> Inv2 td (push_ready [h] s).
Proof.
  intros T. apply Inv2_push_other. intros i f b [H|[]]. subst h. discriminate.
Qed.

Lemma astep_preserves2 c c' : astep c c' -> Inv (fst c) (snd c) -> Inv2 (fst c) (snd c) -> Inv2 (fst c') (snd c').
Proof.
  intros A. destruct A; cbn [fst snd]; intros HI H2.
  - apply Inv2_emit; auto. destruct e; simpl in *; tauto.
  - apply Inv2_push_other; [intros i f b' [E|[]]; discriminate|].
    apply Inv2_emit; [exact I|]. eapply Inv2_frame with (s:=s); auto.
  - eapply Inv2_frame with (s:=emit (ESt (next s) dl) (bump s)); auto.
    apply Inv2_emit; [exact I|]. eapply Inv2_frame with (s:=s); auto.
  - eapply Inv2_frame with (s:=emit (ERm i) s); auto. apply Inv2_emit; [exact I|auto].
  - apply Inv2_add_done_callback.
    + intros i b' E. inversion E; subst. rewrite ctr_emit. apply in_or_app; right; simpl; auto.
    + apply Inv2_emit; [exact I|]. eapply Inv2_frame with (s:=s); auto.
  - apply Inv2_add_done_callback; auto. intros i b E. destruct H; subst; discriminate.
  - eapply Inv2_resolve; eauto.
  - apply Inv2_emit; [exact I|]. eapply Inv2_frame with (s:=s); auto.
  - (* a user instance starts *)
    destruct k as [|d|f]; simpl.
    + apply Inv2_emit; [exact I|]. eapply Inv2_drop_head; eauto.
    + apply Inv2_emit; [exact I|]. eapply Inv2_drop_head; eauto.
    + pose proof H2 as H3. destruct H3.
      destruct (w_td0 i f b (or_introl eq_refl)) as (A & h & v & B).
      apply Inv2_drop_head in H2. destruct H2.
      constructor; cbn [ready futs emit]; rewrite ?ctr_emit.
      * intros i' g b' H'. destruct (w_td1 i' g b' H') as (A' & h' & v' & B').
        split; [apply aged_after_snoc; auto|]. exists h', v'. apply aged_after_snoc; auto.
      * intros i' g b' H'. destruct (w_ready1 i' g b' H') as (A' & B'). split; [apply in_or_app; auto|apply resolved_snoc; auto].
      * intros g cbs i' b' H1 H2'. apply in_or_app; left. eapply w_cbs1; eauto.
      * intro g. specialize (w_state1 g). destruct (fget (futs s) g) as [cbs|[x|]|[y| |]|]; auto; try (apply in_or_app; auto).
        intro R. apply w_state1. eapply resolved_snoc_inv; eauto. discriminate.
      * apply all_prefix_snoc; auto. simpl. exists f. split; auto. exists h, v. auto.
  - eapply Inv2_drop_head; eauto.
  - eapply Inv2_drop_head; eauto.
  - eapply Inv2_frame with (s:=s); auto. eapply Inv2_drop_head; eauto.
  - apply Inv2_emit; [exact I|]. eapply Inv2_drop_head; eauto.
  - apply Inv2_push_other; [intros i f b [E|[]]; discriminate|]. eapply Inv2_frame with (s:=s); auto.
  - eapply Inv2_frame with (s:=s); auto.
  - eapply Inv2_frame with (s:=s); auto. eapply Inv2_drop_head; eauto.
  - eapply Inv2_frame with (s:=s); auto.
  - eapply Inv2_frame with (s:=s); auto.
  - apply Inv2_push_timerish.
    + destruct HI. apply v_heap_tl. destruct (hpop_facts _ _ _ H) as (_ & (t & ET) & _). rewrite ET. left; auto.
    + eapply Inv2_frame with (s:=s); auto.
  - apply Inv2_emit; [exact I|]. eapply Inv2_frame with (s:=s); auto.
  - apply Inv2_todo; auto.
Qed.

Lemma asteps_preserve2 c c' : asteps c c' -> Inv (fst c) (snd c) -> Inv2 (fst c) (snd c) ->
  Inv (fst c') (snd c') /\ Inv2 (fst c') (snd c').
Proof.
  induction 1; auto. intros HI H2. apply IHasteps.
  - eapply astep_preserves; eauto.
  - eapply astep_preserves2; eauto.
Qed.

Lemma Inv2_empty s :
  trace s = [] -> futs s = [] -> (forall i f b, ~ In (HUser i (KFut f) b) (ready s)) -> Inv2 [] s.
Proof.
  intros T F R. assert (CT : ctr s = []) by (unfold ctr; rewrite T; reflexivity).
  constructor; rewrite ?CT, ?F.
  - intros i f b [].
  - intros i f b H. exfalso. eapply R; eauto.
  - intros f cbs i b H1 H2. simpl in H1. inversion H1; subst. destruct H2.
  - intro f. simpl. intros (h & v & []).
  - apply all_prefix_nil.
Qed.

Lemma Inv2_init_prog b : Inv2 [] (init_prog b).
Proof.
  unfold init_prog. apply Inv2_push_other; [intros i f b' [E|[]]; discriminate|].
  apply Inv2_emit; [exact I|]. apply Inv2_empty; try reflexivity. intros i f b' [].
Qed.

Lemma Inv2_init_sync b t : Inv2 [] (init_sync b t).
Proof.
  unfold init_sync.
  assert (I1 : Inv2 [] (push_ready [HRunSync 0 b] (bump st0))).
  { apply Inv2_empty; try reflexivity. intros i f b' [E|[]]; discriminate. }
  destruct t as [t|]; auto. eapply Inv2_frame; [| | |exact I1]; reflexivity.
Qed.
