(* C38 — the loop invariant for callbacks and timeouts, preserved by every atomic action. *)
From Coq Require Import List ZArith Arith Bool Lia Permutation Sorted.
Import ListNotations.
From TV Require Import C38.Model C38.Spec C38.HeapProofs C38.Steps.
Local Open Scope Z_scope.

(* ------------------------------------------------------------------ *)
(* traces *)
Lemma ctr_emit e s : ctr (emit e s) = ctr s ++ [e].
Proof. reflexivity. Qed.

Lemma sc_list_app a b : sc_list (a ++ b) = sc_list a ++ sc_list b.
Proof. apply flat_map_app. Qed.
Lemma st_ids_app a b : st_ids (a ++ b) = st_ids a ++ st_ids b.
Proof. apply flat_map_app. Qed.
Lemma af_ids_app a b : af_ids (a ++ b) = af_ids a ++ af_ids b.
Proof. apply flat_map_app. Qed.
Lemma runs_app k a b : runs k (a ++ b) = runs k a ++ runs k b.
Proof. apply flat_map_app. Qed.
Lemma cb_ids_app a b : cb_ids (a ++ b) = cb_ids a ++ cb_ids b.
Proof. apply flat_map_app. Qed.
Lemma to_ids_app a b : to_ids (a ++ b) = to_ids a ++ to_ids b.
Proof. apply flat_map_app. Qed.

Lemma clock_of_snoc tr e : clock_of (tr ++ [e]) = clock_step (clock_of tr) e.
Proof. unfold clock_of. rewrite fold_left_app. reflexivity. Qed.

Lemma all_prefix_nil Q : all_prefix Q [].
Proof. intros tr1 e tr2 H. destruct tr1; discriminate. Qed.

Lemma all_prefix_snoc Q tr e : all_prefix Q tr -> Q tr e -> all_prefix Q (tr ++ [e]).
Proof.
  intros HP HQ tr1 e' tr2 E.
  destruct (exists_last (l:=e' :: tr2)) as (l' & x & EL); [discriminate|].
  rewrite EL in E. rewrite app_assoc in E. apply app_inj_tail in E. destruct E as [E1 E2]. subst x.
  destruct tr2 as [|y tr2'].
  - destruct l'; [|destruct l'; discriminate]. simpl in EL. inversion EL. subst e'.
    rewrite app_nil_r in E1. subst tr1. exact HQ.
  - destruct l' as [|z l'']; [destruct tr2'; discriminate|].
    simpl in EL. inversion EL; subst z. eapply HP. rewrite E1. reflexivity.
Qed.

Lemma NoDup_app_r {A} (a b : list A) : NoDup (a ++ b) -> NoDup b.
Proof. induction a; simpl; auto. intro H. inversion H; auto. Qed.
Lemma NoDup_app_l {A} (a b : list A) : NoDup (a ++ b) -> NoDup a.
Proof.
  induction a; simpl; intro H; [constructor|]. inversion H; subst. constructor; auto.
  intro HH. apply H2. apply in_or_app; auto.
Qed.


Lemma st_unique tr : NoDup (st_ids tr) ->
  forall i d d', In (ESt i d) tr -> In (ESt i d') tr -> d = d'.
Proof.
  induction tr as [|e tr IH]; intros ND i d d' H1 H2; [destruct H1|].
  assert (IN : forall j a, In (ESt j a) tr -> In j (st_ids tr)).
  { clear. intros j a H. unfold st_ids. apply in_flat_map. exists (ESt j a). split; simpl; auto. }
  change (e :: tr) with ([e] ++ tr) in ND. rewrite st_ids_app in ND.
  destruct H1 as [H1|H1], H2 as [H2|H2].
  - subst e. inversion H2; auto.
  - subst e. simpl in ND. apply NoDup_cons_iff in ND. destruct ND as [ND _]. exfalso. apply ND. eapply IN; eauto.
  - subst e. simpl in ND. apply NoDup_cons_iff in ND. destruct ND as [ND _]. exfalso. apply ND. eapply IN; eauto.
  - apply NoDup_app_r in ND. eapply IH; eauto.
Qed.

Lemma in_st_ids tr i : In i (st_ids tr) <-> exists d, In (ESt i d) tr.
Proof.
  unfold st_ids. rewrite in_flat_map. split.
  - intros (e & H1 & H2). destruct e; simpl in H2; try contradiction. destruct H2 as [H2|[]]. subst. eauto.
  - intros (d & H). exists (ESt i d). simpl; auto.
Qed.

(* ---------- old / young timeouts ---------- *)
Lemma sched_split_snoc tr e : sched_split (tr ++ [e]) = sched_step (sched_split tr) e.
Proof. unfold sched_split. rewrite fold_left_app. reflexivity. Qed.

Lemma old_young_st tr : old_ids tr ++ young_ids tr = st_ids tr.
Proof.
  induction tr as [|e tr IH] using rev_ind; [reflexivity|].
  unfold old_ids, young_ids in *. rewrite sched_split_snoc, st_ids_app.
  destruct (sched_split tr) as [o y]. simpl in IH.
  destruct e; simpl; rewrite ?app_nil_r, <- ?IH; auto. rewrite app_assoc. reflexivity.
Qed.

Definition keeps_split (e : ev) : Prop := match e with EIt _ | ESt _ _ => False | _ => True end.

Lemma split_snoc_keep tr e : keeps_split e -> sched_split (tr ++ [e]) = sched_split tr.
Proof. intro K. rewrite sched_split_snoc. destruct e; simpl in *; tauto. Qed.

Lemma young_snoc_keep tr e : keeps_split e -> young_ids (tr ++ [e]) = young_ids tr.
Proof. intro K. unfold young_ids. rewrite split_snoc_keep; auto. Qed.

Lemma old_snoc_keep tr e : keeps_split e -> old_ids (tr ++ [e]) = old_ids tr.
Proof. intro K. unfold old_ids. rewrite split_snoc_keep; auto. Qed.

Lemma young_snoc_st tr i d : young_ids (tr ++ [ESt i d]) = young_ids tr ++ [i].
Proof. unfold young_ids. rewrite sched_split_snoc. reflexivity. Qed.

Lemma young_snoc_it tr t : young_ids (tr ++ [EIt t]) = [].
Proof. unfold young_ids. rewrite sched_split_snoc. reflexivity. Qed.

Lemma old_not_young tr i : NoDup (st_ids tr) -> In i (old_ids tr) -> ~ In i (young_ids tr).
Proof.
  rewrite <- old_young_st. intros ND O Y.
  induction (old_ids tr) as [|a l IH]; [destruct O|]. simpl in ND. inversion ND; subst.
  destruct O as [O|O]; [subst; apply H1; apply in_or_app; auto|auto].
Qed.

(* ------------------------------------------------------------------ *)
(* what the trace must satisfy at each event, given the events before it *)
Definition Qto (tr1 : list ev) (e : ev) : Prop :=
  match e with
  | ERun j RTo _ =>
      ~ In (ERm j) tr1 /\ ~ In j (runs RTo tr1) /\
      exists d, In (ESt j d) tr1 /\ d <= clock_of tr1 /\
        forall i di, In (ESt i di) tr1 -> In i (old_ids tr1) ->
                     ~ In i (runs RTo tr1) -> ~ In (ERm i) tr1 -> d <= di
  | _ => True
  end.

Definition young_h (h : handle) (tr : list ev) : Prop :=
  exists i d b, h = HUser i (KTo d) b /\ In i (young_ids tr).

Record Inv (td : list handle) (s : st) : Prop := {
  v_cb : sc_list (ctr s) = runs RCb (ctr s) ++ cb_ids (td ++ ready s);
  v_sc_fresh : Forall (fun i => (i < next s)%nat) (sc_list (ctr s));
  v_sc_nodup : NoDup (sc_list (ctr s));
  v_st_fresh : Forall (fun i => (i < next s)%nat) (st_ids (ctr s));
  v_st_nodup : NoDup (st_ids (ctr s));
  v_to_nodup : NoDup (runs RTo (ctr s) ++ to_ids (heap s ++ td ++ ready s));
  v_to_cover : forall i, In i (st_ids (ctr s)) ->
      In i (runs RTo (ctr s)) \/ In i (to_ids (heap s ++ td ++ ready s)) \/ In i (cancelled s);
  v_cancel : forall i, In i (cancelled s) <-> In (ERm i) (ctr s);
  v_link : forall i d b, In (HUser i (KTo d) b) (heap s ++ td ++ ready s) -> In (ESt i d) (ctr s);
  v_clock : clock_of (ctr s) = now s;
  v_heap_ok : heap_ok hwhen HStop (heap s);
  v_heap_tl : forall h, In h (heap s) -> timerlike h = true;
  v_sorted : StronglySorted le_when (filter timerlike (td ++ ready s));
  (* a handle already collected by this iteration is not later than any timer still in the heap,
     except timers scheduled during this very iteration *)
  v_popped_le : forall p h, In p (filter timerlike (td ++ ready s)) -> In h (heap s) ->
      hwhen p <= hwhen h \/ young_h h (ctr s);
  v_due : forall p, In p (filter timerlike (td ++ ready s)) -> hwhen p <= now s;
  v_P : all_prefix Qto (ctr s)
}.

(* events that do not concern callbacks/timeouts *)
Definition neutral_ev (e : ev) : Prop :=
  match e with
  | ESc _ | ESt _ _ | ERm _ | EIt _ | EAdv _ | ERun _ RCb _ | ERun _ RTo _ => False
  | _ => True
  end.

Lemma in_snoc_neutral {A} (x e : A) tr : x <> e -> (In x (tr ++ [e]) <-> In x tr).
Proof.
  intro NE. rewrite in_app_iff. simpl. split; [intros [H|[H|[]]]; auto; congruence|auto].
Qed.

Lemma in_snoc_other {A} (x e : A) tr : In x tr -> In x (tr ++ [e]).
Proof. intro. apply in_or_app; auto. Qed.

Lemma young_h_keep h tr e : keeps_split e -> young_h h tr -> young_h h (tr ++ [e]).
Proof. intros K (i & d & b & E & Y). exists i, d, b. split; auto. rewrite young_snoc_keep; auto. Qed.

Lemma popped_le_keep (P : handle -> Prop) (Hp : handle -> Prop) tr e :
  keeps_split e ->
  (forall p h, P p -> Hp h -> hwhen p <= hwhen h \/ young_h h tr) ->
  (forall p h, P p -> Hp h -> hwhen p <= hwhen h \/ young_h h (tr ++ [e])).
Proof. intros K H p h A B. destruct (H p h A B); auto. right. apply young_h_keep; auto. Qed.

Lemma Inv_emit_neutral td s e : neutral_ev e -> Inv td s -> Inv td (emit e s).
Proof.
  intros N [].
  assert (E1 : sc_list [e] = []) by (destruct e as [| | | | | |? [] ?| | | | | |]; simpl in *; tauto).
  assert (E2 : st_ids [e] = []) by (destruct e as [| | | | | |? [] ?| | | | | |]; simpl in *; tauto).
  assert (E3 : runs RCb [e] = []) by (destruct e as [| | | | | |? [] ?| | | | | |]; simpl in *; tauto).
  assert (E4 : runs RTo [e] = []) by (destruct e as [| | | | | |? [] ?| | | | | |]; simpl in *; tauto).
  assert (E5 : forall c, clock_step c e = c) by (destruct e as [| | | | | |? [] ?| | | | | |]; simpl in *; tauto).
  assert (E6 : forall i, ERm i <> e) by (intros i HH; subst e; simpl in N; tauto).
  assert (E7 : forall tr, Qto tr e) by (destruct e as [| | | | | |? [] ?| | | | | |]; simpl in *; tauto).
  assert (E8 : keeps_split e) by (destruct e; simpl in *; tauto).
  constructor; rewrite ?ctr_emit, ?sc_list_app, ?st_ids_app, ?runs_app, ?E1, ?E2, ?E3, ?E4, ?app_nil_r; cbn [ready heap next cancelled now emit]; auto.
  - intro i. rewrite v_cancel0. symmetry. apply in_snoc_neutral. apply E6.
  - intros i d b H. apply in_snoc_other. eapply v_link0; eauto.
  - rewrite clock_of_snoc, E5. auto.
  - intros p h A B. destruct (v_popped_le0 p h A B); auto. right. apply young_h_keep; auto.
  - apply all_prefix_snoc; auto.
Qed.

(* state changes that do not touch what the invariant reads *)
Lemma Inv_frame td s s' :
  trace s' = trace s -> ready s' = ready s -> heap s' = heap s -> cancelled s' = cancelled s ->
  now s' = now s -> (next s <= next s')%nat -> Inv td s -> Inv td s'.
Proof.
  intros T R H C N X [].
  assert (CT : ctr s' = ctr s) by (unfold ctr; rewrite T; reflexivity).
  constructor; rewrite ?CT, ?R, ?H, ?C, ?N; auto.
  - eapply Forall_impl; [|exact v_sc_fresh0]. simpl; intros; lia.
  - eapply Forall_impl; [|exact v_st_fresh0]. simpl; intros; lia.
Qed.

Definition neutral_h (h : handle) : Prop :=
  match h with HUser _ (KFut _) _ | HDiscard _ | HStop => True | _ => False end.

Lemma neutral_h_facts hs : Forall neutral_h hs -> cb_ids hs = [] /\ to_ids hs = [] /\ filter timerlike hs = [].
Proof.
  induction 1 as [|h hs H _ IH]; simpl; auto.
  destruct IH as (A & B & C).
  destruct h as [i [| |] b| | | |]; simpl in *; try contradiction; rewrite ?A, ?B, ?C; auto.
Qed.

Lemma filter_app_nil {A} f (a b : list A) : filter f b = [] -> filter f (a ++ b) = filter f a.
Proof. intro H. rewrite filter_app, H, app_nil_r. reflexivity. Qed.

Lemma Inv_push_neutral td s hs : Forall neutral_h hs -> Inv td s -> Inv td (push_ready hs s).
Proof.
  intros N []. destruct (neutral_h_facts hs N) as (A & B & C).
  assert (T : to_ids (heap s ++ td ++ ready s ++ hs) = to_ids (heap s ++ td ++ ready s)).
  { rewrite !to_ids_app, B, app_nil_r. reflexivity. }
  assert (F : filter timerlike (td ++ ready s ++ hs) = filter timerlike (td ++ ready s)).
  { rewrite app_assoc. apply filter_app_nil. exact C. }
  constructor; cbn [ready heap next cancelled now push_ready]; change (ctr (push_ready hs s)) with (ctr s); rewrite ?T, ?F; auto.
  - rewrite app_assoc, cb_ids_app, A, app_nil_r. auto.
  - intros i d b H. apply (v_link0 i d b). rewrite !app_assoc in H. apply in_app_or in H. destruct H as [H|H].
    + rewrite <- !app_assoc in H. exact H.
    + exfalso. rewrite Forall_forall in N. apply N in H. exact H.
Qed.

(* ------------------------------------------------------------------ *)
Lemma Forall_lt_S (l : list nat) n : Forall (fun i => (i < n)%nat) l -> Forall (fun i => (i < S n)%nat) l.
Proof. intro H. eapply Forall_impl; [|exact H]. simpl; intros; lia. Qed.

Lemma NoDup_snoc_fresh (l : list nat) n : Forall (fun i => (i < n)%nat) l -> NoDup l -> NoDup (l ++ [n]).
Proof.
  intros F ND. induction l as [|a l IH]; simpl; [constructor; auto; constructor|].
  inversion F; subst. inversion ND; subst. constructor; auto.
  rewrite in_app_iff. simpl. intros [H|[H|[]]]; [auto|lia].
Qed.

Lemma Inv_sched_cb td s b :
  Inv td s -> Inv td (push_ready [HUser (next s) KCb b] (emit (ESc (next s)) (bump s))).
Proof.
  intros [].
  set (n := next s).
  assert (T : to_ids (heap s ++ td ++ ready s ++ [HUser n KCb b]) = to_ids (heap s ++ td ++ ready s)).
  { rewrite !to_ids_app. simpl. rewrite app_nil_r. reflexivity. }
  assert (F : filter timerlike (td ++ ready s ++ [HUser n KCb b]) = filter timerlike (td ++ ready s)).
  { rewrite app_assoc. apply filter_app_nil. reflexivity. }
  constructor; cbn [ready heap next cancelled now push_ready emit bump];
    change (ctr (push_ready [HUser n KCb b] (emit (ESc n) (bump s)))) with (ctr s ++ [ESc n]);
    rewrite ?sc_list_app, ?st_ids_app, ?runs_app, ?T, ?F; simpl (sc_list [_]); simpl (st_ids [_]); simpl (runs _ [_]);
    rewrite ?app_nil_r; auto.
  - rewrite v_cb0, !cb_ids_app. simpl. rewrite <- !app_assoc. reflexivity.
  - apply Forall_app. split; [apply Forall_lt_S; auto|constructor; [lia|constructor]].
  - apply NoDup_snoc_fresh; auto.
  - apply Forall_lt_S; auto.
  - intro i. rewrite v_cancel0. symmetry. apply in_snoc_neutral. discriminate.
  - intros i d b' H.
    assert (H' : In (HUser i (KTo d) b') (heap s ++ td ++ ready s)).
    { rewrite !app_assoc in H. apply in_app_or in H. destruct H as [H|[H|[]]]; [|discriminate].
      rewrite <- !app_assoc in H. exact H. }
    apply in_snoc_other. eapply v_link0; eauto.
  - rewrite clock_of_snoc. simpl. auto.
  - intros p h A B. destruct (v_popped_le0 p h A B); auto. right. apply young_h_keep; auto. exact I.
  - apply all_prefix_snoc; auto. exact I.
Qed.

(* ------------------------------------------------------------------ *)
Lemma to_ids_perm a b : Permutation a b -> Permutation (to_ids a) (to_ids b).
Proof. intro H. unfold to_ids. apply Permutation_flat_map. exact H. Qed.

Lemma in_to_ids l i : In i (to_ids l) <-> exists d b, In (HUser i (KTo d) b) l.
Proof.
  unfold to_ids. rewrite in_flat_map. split.
  - intros (h & H1 & H2). destruct h as [j [|d|] b| | | |]; simpl in H2; try contradiction.
    destruct H2 as [H2|[]]. subst. eauto.
  - intros (d & b & H). exists (HUser i (KTo d) b). simpl; auto.
Qed.

Lemma in_runs k tr i : In i (runs k tr) <-> exists l, In (ERun i k l) tr.
Proof.
  unfold runs. rewrite in_flat_map. split.
  - intros (e & H1 & H2). destruct e as [| | | | | |j k' l| | | | | |]; simpl in H2; try contradiction.
    destruct k, k'; simpl in H2; try contradiction; destruct H2 as [H2|[]]; subst; eauto.
  - intros (l & H). exists (ERun i k l). split; auto. destruct k; simpl; auto.
Qed.

Lemma runs_in_st tr : all_prefix Qto tr -> forall i, In i (runs RTo tr) -> In i (st_ids tr).
Proof.
  intros P i H. apply in_runs in H. destruct H as (l & H). apply in_split in H.
  destruct H as (tr1 & tr2 & E). specialize (P tr1 (ERun i RTo l) tr2 E). simpl in P.
  destruct P as (_ & _ & d & H & _). apply in_st_ids. exists d. subst tr. apply in_or_app; auto.
Qed.

Lemma Inv_pending_in_st td s : Inv td s ->
  forall i, In i (runs RTo (ctr s) ++ to_ids (heap s ++ td ++ ready s)) -> In i (st_ids (ctr s)).
Proof.
  intros [] i H. apply in_app_or in H. destruct H as [H|H].
  - eapply runs_in_st; eauto.
  - apply in_to_ids in H. destruct H as (d & b & H). apply v_link0 in H. apply in_st_ids. eauto.
Qed.

Lemma in_hpush l x h : In h (hpush l x) <-> h = x \/ In h l.
Proof.
  unfold hpush. split; intro H.
  - apply (Permutation_in _ (heappush_perm hwhen HStop l x)) in H. destruct H; auto.
  - apply (Permutation_in _ (Permutation_sym (heappush_perm hwhen HStop l x))). destruct H; [left|right]; auto.
Qed.

Lemma Inv_sched_to td s dl b :
  Inv td s ->
  Inv td (add_handle (next s) (sched_timer (HUser (next s) (KTo dl) b) (emit (ESt (next s) dl) (bump s)))).
Proof.
  intro I0. pose proof (Inv_pending_in_st td s I0) as PS. destruct I0.
  set (n := next s) in *.
  set (H := HUser n (KTo dl) b).
  assert (PM : Permutation (to_ids (hpush (heap s) H ++ td ++ ready s)) (n :: to_ids (heap s ++ td ++ ready s))).
  { change (n :: to_ids (heap s ++ td ++ ready s)) with (to_ids ((H :: heap s) ++ td ++ ready s)).
    apply to_ids_perm. apply Permutation_app_tail. apply heappush_perm. }
  assert (FR : ~ In n (runs RTo (ctr s) ++ to_ids (heap s ++ td ++ ready s))).
  { intro HH. apply PS in HH. rewrite Forall_forall in v_st_fresh0. apply v_st_fresh0 in HH. lia. }
  constructor; cbn [ready heap next cancelled now add_handle sched_timer set_heap emit bump];
    change (ctr (add_handle n (sched_timer H (emit (ESt n dl) (bump s))))) with (ctr s ++ [ESt n dl]);
    rewrite ?sc_list_app, ?st_ids_app, ?runs_app; simpl (sc_list [_]); simpl (st_ids [_]); simpl (runs _ [_]);
    rewrite ?app_nil_r; auto.
  - apply Forall_lt_S; auto.
  - apply Forall_app. split; [apply Forall_lt_S; auto|constructor; [lia|constructor]].
  - apply NoDup_snoc_fresh; auto.
  - eapply Permutation_NoDup.
    + apply Permutation_app_head. apply Permutation_sym. exact PM.
    + eapply Permutation_NoDup; [apply Permutation_middle|]. constructor; auto.
  - intros i Hi. apply in_app_or in Hi. destruct Hi as [Hi|[Hi|[]]].
    + destruct (v_to_cover0 i Hi) as [A|[A|A]]; auto.
      right; left. apply (Permutation_in _ (Permutation_sym PM)). right; auto.
    + subst i. right; left. apply (Permutation_in _ (Permutation_sym PM)). left; auto.
  - intro i. rewrite v_cancel0. symmetry. apply in_snoc_neutral. discriminate.
  - intros i d b' Hin. apply in_app_or in Hin. destruct Hin as [Hin|Hin].
    + apply in_hpush in Hin. destruct Hin as [Hin|Hin].
      * unfold H in Hin. inversion Hin; subst. apply in_or_app; right; simpl; auto.
      * apply in_snoc_other. apply (v_link0 i d b'). apply in_or_app; auto.
    + apply in_snoc_other. apply (v_link0 i d b'). apply in_or_app; auto.
  - rewrite clock_of_snoc. simpl. auto.
  - apply heappush_ok; auto.
  - intros h Hh. apply in_hpush in Hh. destruct Hh as [Hh|Hh]; [subst h; reflexivity|auto].
  - intros p h Hp Hh. apply in_hpush in Hh. destruct Hh as [Hh|Hh].
    + subst h. right. exists n, dl, b. split; auto. rewrite young_snoc_st. apply in_or_app; right; simpl; auto.
    + destruct (v_popped_le0 p h Hp Hh) as [L|(i & d & b' & E & Y)]; auto.
      right. exists i, d, b'. split; auto. rewrite young_snoc_st. apply in_or_app; auto.
  - apply all_prefix_snoc; auto. exact I.
Qed.

(* ------------------------------------------------------------------ *)
Lemma Inv_cancel td s i : Inv td s -> Inv td (cancel_inst i (emit (ERm i) s)).
Proof.
  intros [].
  constructor; cbn [ready heap next cancelled now cancel_inst emit];
    change (ctr (cancel_inst i (emit (ERm i) s))) with (ctr s ++ [ERm i]);
    rewrite ?sc_list_app, ?st_ids_app, ?runs_app; simpl (sc_list [_]); simpl (st_ids [_]); simpl (runs _ [_]);
    rewrite ?app_nil_r; auto.
  - intros j Hj. destruct (v_to_cover0 j Hj) as [A|[A|A]]; auto. right; right; right; auto.
  - intro j. rewrite in_app_iff. simpl. rewrite <- v_cancel0. split.
    + intros [H|H]; [subst; auto|auto].
    + intros [H|[H|[]]]; [auto|inversion H; auto].
  - intros j d b H. apply in_snoc_other. eapply v_link0; eauto.
  - rewrite clock_of_snoc. simpl. auto.
  - intros p h A B. destruct (v_popped_le0 p h A B); auto. right. apply young_h_keep; auto. exact I.
  - apply all_prefix_snoc; auto. exact I.
Qed.

Lemma Inv_adv td s t : now s <= t -> Inv td s -> Inv td (emit (EAdv t) (set_now t s)).
Proof.
  intros Hle [].
  constructor; cbn [ready heap next cancelled now set_now emit];
    change (ctr (emit (EAdv t) (set_now t s))) with (ctr s ++ [EAdv t]);
    rewrite ?sc_list_app, ?st_ids_app, ?runs_app; simpl (sc_list [_]); simpl (st_ids [_]); simpl (runs _ [_]);
    rewrite ?app_nil_r; auto.
  - intro j. rewrite v_cancel0. symmetry. apply in_snoc_neutral. discriminate.
  - intros j d b H. apply in_snoc_other. eapply v_link0; eauto.
  - rewrite clock_of_snoc. reflexivity.
  - intros p h A B. destruct (v_popped_le0 p h A B); auto. right. apply young_h_keep; auto. exact I.
  - intros p Hp. apply v_due0 in Hp. lia.
  - apply all_prefix_snoc; auto. exact I.
Qed.

(* the iteration mark: nothing has been collected yet, so scheduled timers may all become "old" *)
Lemma Inv_tick s t : now s <= t -> filter timerlike (ready s) = [] -> Inv [] s -> Inv [] (emit (EIt t) (set_now t s)).
Proof.
  intros Hle NT []. simpl in *.
  constructor; cbn [ready heap next cancelled now set_now emit app];
    change (ctr (emit (EIt t) (set_now t s))) with (ctr s ++ [EIt t]);
    rewrite ?sc_list_app, ?st_ids_app, ?runs_app; simpl (sc_list [_]); simpl (st_ids [_]); simpl (runs _ [_]);
    rewrite ?app_nil_r, ?NT; auto.
  - intro j. rewrite v_cancel0. symmetry. apply in_snoc_neutral. discriminate.
  - intros j d b H. apply in_snoc_other. eapply v_link0; eauto.
  - rewrite clock_of_snoc. reflexivity.
  - constructor.
  - intros p h [].
  - intros p [].
  - apply all_prefix_snoc; auto. exact I.
Qed.

Lemma Inv_todo s : Inv [] s -> Inv (ready s) (set_ready [] s).
Proof.
  intros []. simpl in *.
  constructor; cbn [ready heap next cancelled now set_ready];
    change (ctr (set_ready [] s)) with (ctr s); rewrite ?app_nil_r; auto.
Qed.

Lemma StronglySorted_tail {A} (R : A -> A -> Prop) a l : StronglySorted R (a :: l) -> StronglySorted R l.
Proof. intro H. inversion H; auto. Qed.

(* removing the head of the todo list when it is neither a callback nor a timeout instance *)
Lemma Inv_drop_head td s h : cb_id h = [] -> to_id h = [] -> Inv (h :: td) s -> Inv td s.
Proof.
  intros C T [].
  assert (TI : to_ids (heap s ++ (h :: td) ++ ready s) = to_ids (heap s ++ td ++ ready s)).
  { rewrite !to_ids_app. simpl. rewrite T. reflexivity. }
  assert (FI : forall p, In p (filter timerlike (td ++ ready s)) -> In p (filter timerlike ((h :: td) ++ ready s))).
  { intros p Hp. simpl. destruct (timerlike h); [right|]; auto. }
  rewrite TI in *.
  constructor; auto.
  - rewrite v_cb0. simpl. rewrite C. reflexivity.
  - intros i d b H. apply (v_link0 i d b). apply in_app_or in H. apply in_or_app. destruct H; auto.
    right. simpl. auto.
  - simpl in v_sorted0. destruct (timerlike h); [eapply StronglySorted_tail; eauto|auto].
Qed.

Lemma not_cancelled_not_in s i d b : is_cancelled s (HUser i (KTo d) b) = false -> ~ In i (cancelled s).
Proof.
  simpl. intros H HI. assert (existsb (Nat.eqb i) (cancelled s) = true); [|congruence].
  apply existsb_exists. exists i. split; auto. apply Nat.eqb_refl.
Qed.

Lemma cancelled_is s h : is_cancelled s h = true -> exists i d b, h = HUser i (KTo d) b /\ In i (cancelled s).
Proof.
  destruct h as [i [|d|] b| | | |]; simpl; try discriminate. intro H.
  apply existsb_exists in H. destruct H as (j & H1 & H2). apply Nat.eqb_eq in H2. subst j. eauto 7.
Qed.

Lemma NoDup_app_notin {A} (a b : list A) x : NoDup (a ++ b) -> In x b -> ~ In x a.
Proof.
  induction a as [|y a IH]; simpl; intros ND Hb; [tauto|]. inversion ND; subst.
  intros [H|H]; [subst; apply H1; apply in_or_app; auto|]. eapply IH; eauto.
Qed.

Lemma Inv_run_user td s i k b :
  is_cancelled s (HUser i k b) = false ->
  Inv (HUser i k b :: td) s -> Inv td (emit (ERun i (rkind_of k) (b_label b)) s).
Proof.
  intros NC I0. destruct k as [|d|f].
  - (* add_callback instance *)
    destruct I0.
    assert (TI : to_ids (heap s ++ (HUser i KCb b :: td) ++ ready s) = to_ids (heap s ++ td ++ ready s)).
    { rewrite !to_ids_app. reflexivity. }
    rewrite TI in *. simpl in v_sorted0, v_popped_le0, v_due0.
    constructor; cbn [ready heap next cancelled now emit rkind_of];
      rewrite ?ctr_emit, ?sc_list_app, ?st_ids_app, ?runs_app; simpl (sc_list [_]); simpl (st_ids [_]); simpl (runs _ [_]);
      rewrite ?app_nil_r; auto.
    + rewrite v_cb0. simpl. rewrite <- app_assoc. reflexivity.
    + intro j. rewrite v_cancel0. symmetry. apply in_snoc_neutral. discriminate.
    + intros j d b' H. apply in_snoc_other. apply (v_link0 j d b').
      apply in_app_or in H. apply in_or_app. destruct H; auto. right; simpl; auto.
    + rewrite clock_of_snoc. auto.
    + intros p h A B. destruct (v_popped_le0 p h A B); auto. right. apply young_h_keep; auto. exact I.
    + apply all_prefix_snoc; auto. exact I.
  - (* timeout instance *)
    set (H := HUser i (KTo d) b) in *.
    pose proof I0 as I1. destruct I0.
    assert (PM : Permutation (to_ids (heap s ++ (H :: td) ++ ready s)) (i :: to_ids (heap s ++ td ++ ready s))).
    { change (i :: to_ids (heap s ++ td ++ ready s)) with (to_ids (H :: heap s ++ td ++ ready s)).
      apply to_ids_perm. apply Permutation_sym. simpl. apply Permutation_middle. }
    assert (ND : NoDup (runs RTo (ctr s) ++ i :: to_ids (heap s ++ td ++ ready s))).
    { eapply Permutation_NoDup; [|exact v_to_nodup0]. apply Permutation_app_head. exact PM. }
    simpl in v_sorted0, v_popped_le0, v_due0.
    assert (HL : In H (heap s ++ (H :: td) ++ ready s)) by (apply in_or_app; right; simpl; auto).
    pose proof (v_link0 i d b HL) as HS.
    constructor; cbn [ready heap next cancelled now emit rkind_of];
      rewrite ?ctr_emit, ?sc_list_app, ?st_ids_app, ?runs_app; simpl (sc_list [_]); simpl (st_ids [_]); simpl (runs _ [_]);
      rewrite ?app_nil_r; auto.
    + rewrite <- app_assoc. simpl. exact ND.
    + intros j Hj. destruct (v_to_cover0 j Hj) as [A|[A|A]]; auto.
      * left. apply in_or_app; auto.
      * apply (Permutation_in _ PM) in A. destruct A as [A|A]; [subst; left; apply in_or_app; simpl; auto|auto].
    + intro j. rewrite v_cancel0. symmetry. apply in_snoc_neutral. discriminate.
    + intros j d' b' Hin. apply in_snoc_other. apply (v_link0 j d' b').
      apply in_app_or in Hin. apply in_or_app. destruct Hin; auto. right; simpl; auto.
    + rewrite clock_of_snoc. auto.
    + eapply StronglySorted_tail; eauto.
    + intros p h A B. destruct (v_popped_le0 p h (or_intror A) B); auto. right. apply young_h_keep; auto. exact I.
    + apply all_prefix_snoc; auto. simpl.
      assert (NR : ~ In i (runs RTo (ctr s))).
      { eapply NoDup_app_notin; [exact ND|]. simpl; auto. }
      split; [|split; auto].
      * rewrite <- v_cancel0. eapply not_cancelled_not_in; eauto.
      * exists d. split; auto. split.
        -- rewrite v_clock0. specialize (v_due0 H (or_introl eq_refl)). simpl in v_due0. lia.
        -- intros i' di HSt OLD NR' NM.
           assert (Hi' : In i' (st_ids (ctr s))) by (apply in_st_ids; eauto).
           destruct (v_to_cover0 i' Hi') as [A|[A|A]]; [contradiction| |apply v_cancel0 in A; contradiction].
           apply in_to_ids in A. destruct A as (d' & b' & A).
           pose proof (v_link0 i' d' b' A) as A1.
           pose proof (st_unique _ v_st_nodup0 _ _ _ HSt A1) as EW. subst di.
           apply in_app_or in A. destruct A as [A|A].
           ++ destruct (v_popped_le0 H _ (or_introl eq_refl) A) as [L|(i2 & d2 & b2 & E2 & Y)]; [exact L|].
              inversion E2; subst. exfalso. eapply old_not_young; eauto.
           ++ simpl in A. destruct A as [A|A]; [inversion A; subst; lia|].
              inversion v_sorted0 as [|? ? _ FA]; subst. rewrite Forall_forall in FA.
              assert (In (HUser i' (KTo d') b') (filter timerlike (td ++ ready s))) by (apply filter_In; split; auto).
              apply FA in H0. exact H0.
  - (* add_future instance *)
    apply Inv_emit_neutral; [exact I|]. eapply Inv_drop_head; eauto; reflexivity.
Qed.

(* ------------------------------------------------------------------ *)
Lemma NoDup_remove_mid {A} (a : list A) x b : NoDup (a ++ x :: b) -> NoDup (a ++ b).
Proof. apply NoDup_remove_1. Qed.

(* a cancelled timer handle is skipped by the run loop *)
Lemma Inv_skip td s h : is_cancelled s h = true -> Inv (h :: td) s -> Inv td s.
Proof.
  intros C I0. destruct (cancelled_is s h C) as (i & d & b & E & HC). subst h.
  set (H := HUser i (KTo d) b) in *. destruct I0.
  assert (PM : Permutation (to_ids (heap s ++ (H :: td) ++ ready s)) (i :: to_ids (heap s ++ td ++ ready s))).
  { change (i :: to_ids (heap s ++ td ++ ready s)) with (to_ids (H :: heap s ++ td ++ ready s)).
    apply to_ids_perm. apply Permutation_sym. simpl. apply Permutation_middle. }
  simpl in v_sorted0, v_popped_le0, v_due0.
  constructor; auto.
  - assert (ND : NoDup (runs RTo (ctr s) ++ i :: to_ids (heap s ++ td ++ ready s))).
    { eapply Permutation_NoDup; [|exact v_to_nodup0]. apply Permutation_app_head. exact PM. }
    eapply NoDup_remove_mid; eauto.
  - intros j Hj. destruct (v_to_cover0 j Hj) as [A|[A|A]]; auto.
    apply (Permutation_in _ PM) in A. destruct A as [A|A]; [subst; auto|auto].
  - intros j d' b' Hin. apply (v_link0 j d' b').
    apply in_app_or in Hin. apply in_or_app. destruct Hin; auto. right; simpl; auto.
  - eapply StronglySorted_tail; eauto.
Qed.

Lemma hpop_facts l h hp : hpop l = Some (h, hp) ->
  Permutation l (h :: hp) /\ (exists t, l = h :: t) /\ (heap_ok hwhen HStop l -> heap_ok hwhen HStop hp).
Proof.
  unfold hpop. intro P. split; [|split].
  - eapply heappop_perm; eauto.
  - eapply heappop_top; eauto.
  - intro OK. eapply heappop_ok; eauto.
Qed.

Lemma Inv_heap_drop s h hp :
  hpop (heap s) = Some (h, hp) -> is_cancelled s h = true -> Inv [] s -> Inv [] (set_heap hp s).
Proof.
  intros P C I0. destruct (cancelled_is s h C) as (i & d & b & E & HC). subst h.
  set (H := HUser i (KTo d) b) in *.
  destruct (hpop_facts _ _ _ P) as (PM0 & _ & OK). destruct I0.
  assert (PM : Permutation (to_ids (heap s ++ [] ++ ready s)) (i :: to_ids (hp ++ [] ++ ready s))).
  { change (i :: to_ids (hp ++ [] ++ ready s)) with (to_ids ((H :: hp) ++ [] ++ ready s)).
    apply to_ids_perm. apply Permutation_app_tail. exact PM0. }
  assert (SUB : forall x, In x hp -> In x (heap s)).
  { intros x Hx. apply (Permutation_in _ (Permutation_sym PM0)). right; auto. }
  constructor; cbn [ready heap next cancelled now set_heap]; change (ctr (set_heap hp s)) with (ctr s); auto.
  - assert (ND : NoDup (runs RTo (ctr s) ++ i :: to_ids (hp ++ [] ++ ready s))).
    { eapply Permutation_NoDup; [|exact v_to_nodup0]. apply Permutation_app_head. exact PM. }
    eapply NoDup_remove_mid; eauto.
  - intros j Hj. destruct (v_to_cover0 j Hj) as [A|[A|A]]; auto.
    apply (Permutation_in _ PM) in A. destruct A as [A|A]; [subst; auto|auto].
  - intros j d' b' Hin. apply (v_link0 j d' b').
    apply in_app_or in Hin. apply in_or_app. destruct Hin; auto.
Qed.

Lemma StronglySorted_snoc {A} (R : A -> A -> Prop) l x :
  StronglySorted R l -> (forall y, In y l -> R y x) -> StronglySorted R (l ++ [x]).
Proof.
  induction 1 as [|a l S IH F]; intro H; simpl.
  - constructor; [constructor|constructor].
  - constructor.
    + apply IH. intros y Hy. apply H. right; auto.
    + apply Forall_app. split; auto. constructor; [apply H; left; auto|constructor].
Qed.

(* collecting a due timer, right after the iteration mark (so no timer is "young") *)
Lemma Inv_heap_pop s h hp :
  hpop (heap s) = Some (h, hp) -> hwhen h <= now s -> (exists tr0 t, ctr s = tr0 ++ [EIt t]) ->
  Inv [] s -> Inv [] (push_ready [h] (set_heap hp s)).
Proof.
  intros P DUE (tr0 & t0 & LAST) I0.
  destruct (hpop_facts _ _ _ P) as (PM0 & (t & ET) & OK). destruct I0. simpl in *.
  assert (NY : forall x, ~ young_h x (ctr s)).
  { intros x (i & d & b & _ & Y). rewrite LAST, young_snoc_it in Y. exact Y. }
  assert (TL : timerlike h = true) by (apply v_heap_tl0; rewrite ET; left; auto).
  assert (CB : cb_id h = []) by (destruct h as [? [| |] ?| | | |]; simpl in *; auto; discriminate).
  assert (PM : Permutation (to_ids (heap s ++ ready s)) (to_ids (hp ++ ready s ++ [h]))).
  { apply to_ids_perm.
    eapply Permutation_trans; [apply Permutation_app_tail; exact PM0|]. simpl.
    rewrite app_assoc. apply Permutation_cons_append. }
  assert (SUB : forall x, In x hp -> In x (heap s)).
  { intros x Hx. apply (Permutation_in _ (Permutation_sym PM0)). right; auto. }
  assert (MIN : forall y, In y hp -> hwhen h <= hwhen y).
  { intros y Hy. rewrite ET in v_heap_ok0, PM0. apply Permutation_cons_inv in PM0.
    apply (heap_ok_head_min hwhen HStop h t v_heap_ok0).
    apply (Permutation_in _ (Permutation_sym PM0)). exact Hy. }
  assert (FI : filter timerlike (ready s ++ [h]) = filter timerlike (ready s) ++ [h]).
  { rewrite filter_app. simpl. rewrite TL. reflexivity. }
  constructor; cbn [ready heap next cancelled now set_heap push_ready app];
    change (ctr (push_ready [h] (set_heap hp s))) with (ctr s); rewrite ?FI; auto.
  - rewrite cb_ids_app. simpl. rewrite CB, !app_nil_r. exact v_cb0.
  - eapply Permutation_NoDup; [|exact v_to_nodup0]. apply Permutation_app_head. exact PM.
  - intros j Hj. destruct (v_to_cover0 j Hj) as [A|[A|A]]; auto.
    right; left. apply (Permutation_in _ PM). exact A.
  - intros j d' b' Hin. apply (v_link0 j d' b').
    apply in_app_or in Hin. destruct Hin as [Hin|Hin]; [apply in_or_app; left; auto|].
    apply in_app_or in Hin. destruct Hin as [Hin|[Hin|[]]]; [apply in_or_app; right; auto|].
    apply in_or_app; left. rewrite ET. left; auto.
  - apply StronglySorted_snoc; auto. intros y Hy.
    destruct (v_popped_le0 y h Hy) as [L|Y]; [rewrite ET; left; auto|exact L|exfalso; eapply NY; eauto].
  - intros p x Hp Hx. apply in_app_or in Hp. destruct Hp as [Hp|[Hp|[]]].
    + apply v_popped_le0; auto.
    + subst p. left. apply MIN; auto.
  - intros p Hp. apply in_app_or in Hp. destruct Hp as [Hp|[Hp|[]]]; [auto|subst; auto].
Qed.

(* ------------------------------------------------------------------ *)
Lemma handle_of_fcb_neutral key c : neutral_h (handle_of_fcb key c).
Proof. destruct c; exact I. Qed.

Lemma Inv_add_done_callback td s key c : Inv td s -> Inv td (add_done_callback key c s).
Proof.
  intro H. unfold add_done_callback. destruct (fget (futs s) key).
  - eapply Inv_frame with (s:=s); auto.
  - apply Inv_push_neutral; auto. constructor; [apply handle_of_fcb_neutral|constructor].
  - apply Inv_push_neutral; auto. constructor; [apply handle_of_fcb_neutral|constructor].
  - apply Inv_push_neutral; auto. constructor; [apply handle_of_fcb_neutral|constructor].
Qed.

Lemma Inv_resolve td s key r s' : resolve key r s = Some s' -> Inv td s -> Inv td s'.
Proof.
  unfold resolve. destruct (fget (futs s) key) as [cbs| | |]; try discriminate.
  intros E H. inversion E; subst. apply Inv_push_neutral.
  - apply Forall_forall. intros h Hh. apply in_map_iff in Hh. destruct Hh as (c & <- & _). apply handle_of_fcb_neutral.
  - eapply Inv_frame with (s:=s); auto.
Qed.

Lemma astep_preserves c c' : astep c c' -> Inv (fst c) (snd c) -> Inv (fst c') (snd c').
Proof.
  intros A. destruct A; cbn [fst snd]; intro HI.
  - apply Inv_emit_neutral; auto. destruct e; simpl in *; tauto.
  - apply Inv_sched_cb; auto.
  - apply Inv_sched_to; auto.
  - apply Inv_cancel; auto.
  - apply Inv_add_done_callback. apply Inv_emit_neutral; [exact I|].
    eapply Inv_frame with (s:=s); auto. simpl; lia.
  - apply Inv_add_done_callback; auto.
  - apply Inv_emit_neutral; [exact I|]. eapply Inv_resolve; eauto.
  - apply Inv_adv; auto.
  - apply Inv_run_user; auto.
  - eapply Inv_skip; eauto.
  - eapply Inv_drop_head; eauto; reflexivity.
  - eapply Inv_frame with (s:=s); auto. eapply Inv_drop_head; eauto; reflexivity.
  - apply Inv_emit_neutral; [exact I|]. eapply Inv_drop_head; eauto; reflexivity.
  - apply Inv_push_neutral; [constructor; [exact I|constructor]|]. eapply Inv_frame with (s:=s); auto.
  - eapply Inv_frame with (s:=s); auto.
  - eapply Inv_frame with (s:=s); auto. eapply Inv_drop_head; eauto; reflexivity.
  - eapply Inv_frame with (s:=s); auto.
  - eapply Inv_heap_drop; eauto.
  - eapply Inv_heap_pop; eauto.
  - apply Inv_tick; auto.
  - apply Inv_todo; auto.
Qed.

Lemma asteps_preserve c c' : asteps c c' -> Inv (fst c) (snd c) -> Inv (fst c') (snd c').
Proof. induction 1; auto. intro. apply IHasteps. eapply astep_preserves; eauto. Qed.

(* ------------------------------------------------------------------ *)
(* initial states *)
Lemma Inv_empty s :
  trace s = [] -> heap s = [] -> cancelled s = [] -> now s = 0 ->
  cb_ids (ready s) = [] -> to_ids (ready s) = [] -> filter timerlike (ready s) = [] -> Inv [] s.
Proof.
  intros T H C N R1 R2 R3.
  assert (CT : ctr s = []) by (unfold ctr; rewrite T; reflexivity).
  constructor; rewrite ?CT, ?H, ?C, ?N; cbn [app sc_list st_ids runs flat_map clock_of fold_left]; rewrite ?R1, ?R2, ?R3.
  - reflexivity.
  - constructor.
  - constructor.
  - constructor.
  - constructor.
  - constructor.
  - intros i [].
  - intro i. simpl. tauto.
  - intros i d b Hin. exfalso.
    assert (HH : In i (to_ids (ready s))) by (apply in_to_ids; eauto). rewrite R2 in HH. exact HH.
  - reflexivity.
  - apply heap_ok_nil.
  - intros h [].
  - constructor.
  - intros p h [].
  - intros p [].
  - apply all_prefix_nil.
Qed.

Lemma Inv_init_prog b : Inv [] (init_prog b).
Proof. unfold init_prog. apply (Inv_sched_cb [] st0 b). apply Inv_empty; reflexivity. Qed.

Lemma Inv_sched_timeoutcb td s w :
  (forall p, In p (filter timerlike (td ++ ready s)) -> hwhen p <= w) ->
  Inv td s -> Inv td (sched_timer (HTimeoutCb w) s).
Proof.
  intros LE [].
  assert (PM : Permutation (to_ids (hpush (heap s) (HTimeoutCb w) ++ td ++ ready s)) (to_ids (heap s ++ td ++ ready s))).
  { change (to_ids (heap s ++ td ++ ready s)) with (to_ids ((HTimeoutCb w :: heap s) ++ td ++ ready s)).
    apply to_ids_perm. apply Permutation_app_tail. apply heappush_perm. }
  constructor; cbn [ready heap next cancelled now sched_timer set_heap];
    change (ctr (sched_timer (HTimeoutCb w) s)) with (ctr s); auto.
  - eapply Permutation_NoDup; [|exact v_to_nodup0]. apply Permutation_app_head. apply Permutation_sym. exact PM.
  - intros i Hi. destruct (v_to_cover0 i Hi) as [A|[A|A]]; auto.
    right; left. apply (Permutation_in _ (Permutation_sym PM)). exact A.
  - intros i d b Hin. apply (v_link0 i d b). apply in_app_or in Hin. destruct Hin as [Hin|Hin].
    + apply in_hpush in Hin. destruct Hin as [Hin|Hin]; [discriminate|apply in_or_app; auto].
    + apply in_or_app; auto.
  - apply heappush_ok; auto.
  - intros h Hh. apply in_hpush in Hh. destruct Hh as [Hh|Hh]; [subst; reflexivity|auto].
  - intros p h Hp Hh. apply in_hpush in Hh. destruct Hh as [Hh|Hh]; [subst h; left; simpl; auto|auto].
Qed.

Lemma Inv_init_sync b t : Inv [] (init_sync b t).
Proof.
  unfold init_sync.
  assert (I1 : Inv [] (push_ready [HRunSync 0 b] (bump st0))) by (apply Inv_empty; reflexivity).
  destruct t as [t|]; auto.
  apply Inv_sched_timeoutcb; auto. intros p [].
Qed.
