(* C38 — IOLoop callbacks and timeouts run once, in order, and survive errors.
   Property theorems only; proofs are in Proofs.v (via Steps.v, Invariants.v, HeapProofs.v).
   `ctr s` is the chronological event trace of a model state (Spec.v); `init_of c` is the initial
   state of an IOLoop program (IProg) or of a run_sync call (ISync); the theorems hold for EVERY
   scheduling program, every fuel, and both ways the loop can end (idle / stopped). *)
From Coq Require Import List ZArith.
Import ListNotations.
From TV Require Import C38.Model C38.Spec C38.Proofs.
Local Open Scope Z_scope.

(* add_callback: at any end of the loop the callbacks that ran are a prefix of those scheduled, in
   scheduling order, and no instance id is scheduled twice ... *)
Theorem C38_callbacks_run_in_scheduling_order :
  forall c s0 fuel s e, init_of c = Some s0 -> run_loop fuel s0 = (s, e) -> e <> OutOfFuel ->
    NoDup (sc_list (ctr s)) /\ exists pending, sc_list (ctr s) = runs RCb (ctr s) ++ pending.
Proof. exact callbacks_fifo_prefix. Qed.
Print Assumptions C38_callbacks_run_in_scheduling_order.

(* ... and when the loop runs until it is idle, every add_callback callback ran exactly once, in
   scheduling order (whatever the callbacks did: raise, return values, return failing futures). *)
Theorem C38_callbacks_run_exactly_once_in_order :
  forall c s0 fuel s, init_of c = Some s0 -> run_loop fuel s0 = (s, Idle) ->
    runs RCb (ctr s) = sc_list (ctr s) /\ NoDup (sc_list (ctr s)).
Proof. exact callbacks_exactly_once_in_order. Qed.
Print Assumptions C38_callbacks_run_exactly_once_in_order.

(* timeouts: no timeout runs twice; when timeout j runs it has not been removed, it was scheduled
   with some deadline d that is not after the loop's clock, and no other pending (scheduled, not run,
   not removed) timeout has a strictly earlier effective deadline w = max(deadline, clock at the call);
   the effective deadline in the trace is that maximum; instance ids identify one call. *)
Theorem C38_timeouts_once_not_early_in_deadline_order_never_after_removal :
  forall c s0 fuel s e, init_of c = Some s0 -> run_loop fuel s0 = (s, e) -> e <> OutOfFuel ->
    NoDup (runs RTo (ctr s)) /\
    (forall tr1 j l tr2, ctr s = tr1 ++ ERun j RTo l :: tr2 ->
       ~ In (ERm j) tr1 /\ ~ In j (runs RTo tr1) /\
       exists d w, In (ESt j d w) tr1 /\ d <= clock_of tr1 /\
         forall i di wi, In (ESt i di wi) tr1 -> ~ In i (runs RTo tr1) -> ~ In (ERm i) tr1 -> w <= wi) /\
    (forall tr1 i d w tr2, ctr s = tr1 ++ ESt i d w :: tr2 -> w = Z.max (clock_of tr1) d) /\
    (forall i d w d' w', In (ESt i d w) (ctr s) -> In (ESt i d' w') (ctr s) -> d = d' /\ w = w').
Proof. exact timeouts_safety. Qed.
Print Assumptions C38_timeouts_once_not_early_in_deadline_order_never_after_removal.

(* when the loop runs until idle every scheduled timeout either ran or was removed *)
Theorem C38_timeouts_run_unless_removed :
  forall c s0 fuel s, init_of c = Some s0 -> run_loop fuel s0 = (s, Idle) ->
    forall i d w, In (ESt i d w) (ctr s) -> In i (runs RTo (ctr s)) \/ In (ERm i) (ctr s).
Proof. exact timeouts_complete. Qed.
Print Assumptions C38_timeouts_run_unless_removed.

(* several threads calling add_callback: for ANY arrival order of the (atomic) appends to the ready
   queue, the loop runs them in arrival order, hence in per-thread scheduling order, each once *)
Theorem C38_threads_fifo_for_every_interleaving :
  forall arrivals, arrivals_run_order arrivals = arrivals /\
    forall t, of_thread t (arrivals_run_order arrivals) = of_thread t arrivals.
Proof. intro a. split; [apply arrivals_run_order_id|intro; apply threads_per_thread_order]. Qed.
Print Assumptions C38_threads_fifo_for_every_interleaving.
