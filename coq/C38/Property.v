(* C38 — IOLoop callbacks and timeouts run once, in order, and survive errors.
   Property theorems only; proofs are in Proofs.v (via Steps.v, Invariants.v, HeapProofs.v).
   `ctr s` is the chronological event trace of a model state (Spec.v); `init_of c` is the initial
   state of an IOLoop program (IProg) or of a run_sync call (ISync); the theorems hold for EVERY
   scheduling program, every fuel, and both ways the loop can end (idle / stopped). *)
From Coq Require Import List ZArith.
Import ListNotations.
From TV Require Import Lib.Obs C38.Model C38.Spec C38.Monitor C38.Run C38.DeadlineProofs C38.Proofs C38.Bounded C38.ProofsP4 C38.ProofsP4b.
Local Open Scope Z_scope.

(* add_callback: at any end of the loop the callbacks that ran are a prefix of those scheduled, in
   scheduling order, and no instance id is scheduled twice ... *)
Theorem C38_callbacks_run_in_scheduling_order :
  forall c s0 fuel s e, init_of c = Some s0 -> run_loop fuel s0 = (s, e) -> e <> OutOfFuel ->
    NoDup (sc_list (ctr s)) /\ exists pending, sc_list (ctr s) = runs RCb (ctr s) ++ pending.
Proof. exact callbacks_fifo_prefix. Qed.
Print Assumptions C38_callbacks_run_in_scheduling_order.

(* ... and when the loop runs until it is idle, every add_callback callback ran exactly once, in
   scheduling order (whatever the callbacks did: raise, return values, return failing futures). *)
Theorem C38_callbacks_run_exactly_once_in_order :
  forall c s0 fuel s, init_of c = Some s0 -> run_loop fuel s0 = (s, Idle) ->
    runs RCb (ctr s) = sc_list (ctr s) /\ NoDup (sc_list (ctr s)).
Proof. exact callbacks_exactly_once_in_order. Qed.
Print Assumptions C38_callbacks_run_exactly_once_in_order.

(* timeouts: no timeout runs twice; when timeout j runs it has not been removed, it was scheduled with a
   deadline d that is not after the loop's clock, and every other pending (scheduled, not run, not removed)
   timeout i that was scheduled before the current iteration began (old_ids: before the last iteration mark)
   has a REQUESTED deadline di >= d: timeouts run in requested-deadline order, overdue ones included, ties
   unordered.  (A timeout scheduled by a callback of the very iteration that already collected j from the heap
   cannot overtake j: see Bounded.v, a_timeout_scheduled_during_an_iteration_does_not_overtake_collected_ones.)
   Instance ids identify one call. *)
Theorem C38_timeouts_once_not_early_in_deadline_order_never_after_removal :
  forall c s0 fuel s e, init_of c = Some s0 -> run_loop fuel s0 = (s, e) -> e <> OutOfFuel ->
    NoDup (runs RTo (ctr s)) /\
    (forall tr1 j l tr2, ctr s = tr1 ++ ERun j RTo l :: tr2 ->
       ~ In (ERm j) tr1 /\ ~ In j (runs RTo tr1) /\
       exists d, In (ESt j d) tr1 /\ d <= clock_of tr1 /\
         forall i di, In (ESt i di) tr1 -> In i (old_ids tr1) ->
                      ~ In i (runs RTo tr1) -> ~ In (ERm i) tr1 -> d <= di) /\
    (forall i d d', In (ESt i d) (ctr s) -> In (ESt i d') (ctr s) -> d = d').
Proof. exact timeouts_safety. Qed.
Print Assumptions C38_timeouts_once_not_early_in_deadline_order_never_after_removal.

(* old_ids / young_ids partition the scheduled timeouts at the last iteration mark, in schedule order *)
Theorem C38_old_young_partition : forall tr, old_ids tr ++ young_ids tr = st_ids tr.
Proof. exact old_young_partition. Qed.
Print Assumptions C38_old_young_partition.

(* when the loop runs until idle every scheduled timeout either ran or was removed *)
Theorem C38_timeouts_run_unless_removed :
  forall c s0 fuel s, init_of c = Some s0 -> run_loop fuel s0 = (s, Idle) ->
    forall i d, In (ESt i d) (ctr s) -> In i (runs RTo (ctr s)) \/ In (ERm i) (ctr s).
Proof. exact timeouts_complete. Qed.
Print Assumptions C38_timeouts_run_unless_removed.

(* several threads calling add_callback: for ANY arrival order of the (atomic) appends to the ready
   queue, the loop runs them in arrival order, hence in per-thread scheduling order, each once *)
Theorem C38_threads_fifo_for_every_interleaving :
  forall arrivals, arrivals_run_order arrivals = arrivals /\
    forall t, of_thread t (arrivals_run_order arrivals) = of_thread t arrivals.
Proof. intro a. split; [apply arrivals_run_order_id|intro; apply threads_per_thread_order]. Qed.
Print Assumptions C38_threads_fifo_for_every_interleaving.

(* exceptions: whenever a callback instance ends by raising (and is not run_sync's own function, whose
   exception goes to the returned future), the very next event is the "Exception in callback" log record
   for that instance; and a log record only ever follows such a raise.  Together with the theorems above
   (which hold for every program, raising callbacks included) the loop goes on with the rest of the schedule.
   Holds at every end of the loop, for any fuel. *)
Theorem C38_exceptions_are_logged_and_nothing_else_is :
  forall c s0 fuel s e, init_of c = Some s0 -> run_loop fuel s0 = (s, e) ->
    (forall tr1 i x tr2, ctr s = tr1 ++ EEnd i (EndRaise x) :: tr2 -> last_kind tr1 <> Some RFn ->
       exists tr3, tr2 = ELog i :: tr3) /\
    (forall tr1 i tr2, ctr s = tr1 ++ ELog i :: tr2 -> exists tr0 x, tr1 = tr0 ++ [EEnd i (EndRaise x)]).
Proof. exact errors_logged. Qed.
Print Assumptions C38_exceptions_are_logged_and_nothing_else_is.

(* add_future: a callback registered with add_future(f, cb) starts only after an iteration boundary that
   follows the add_future call AND an iteration boundary that follows the resolution of f; a future is
   resolved at most once. *)
Theorem C38_add_future_callbacks_run_on_a_later_iteration :
  forall c s0 fuel s e, init_of c = Some s0 -> run_loop fuel s0 = (s, e) -> e <> OutOfFuel ->
    (forall tr1 i l tr2, ctr s = tr1 ++ ERun i RFut l :: tr2 ->
       exists f, aged_after (EAf i f) tr1 /\ exists how v, aged_after (ERs f how v) tr1) /\
    (forall tr1 f how v tr2, ctr s = tr1 ++ ERs f how v :: tr2 -> ~ resolved f tr1).
Proof. exact future_callbacks_later_iteration. Qed.
Print Assumptions C38_add_future_callbacks_run_on_a_later_iteration.

(* the final state of every future is the (unique) resolution recorded in the trace *)
Theorem C38_future_state_matches_trace :
  forall c s0 fuel s e, init_of c = Some s0 -> run_loop fuel s0 = (s, e) -> e <> OutOfFuel ->
    forall f, match fget (futs s) f with
              | FPending _ => ~ resolved f (ctr s)
              | FOk (Some v) => In (ERs f 0 v) (ctr s)
              | FExc (XUser y) => In (ERs f 1 y) (ctr s)
              | FCancelled => In (ERs f 2 0) (ctr s)
              | _ => False
              end.
Proof. exact future_state_matches_trace. Qed.
Print Assumptions C38_future_state_matches_trace.

(* run_sync, in full: at any end of the run (any program as the function, any timeout, any fuel) the function
   (instance 0) ended exactly once, in a way x, and run_sync's result r is:
     x = returned None            -> returns None
     x = returned a non-awaitable -> raises BadYieldError
     x = raised y                 -> re-raises y
     x = returned future f        -> returns v   only if f was resolved with result v (ERs f 0 v in the trace),
                                     re-raises y only if f was resolved with exception y,
                                     raises TimeoutError only if a timeout was given and f is CANCELLED (ERs f 2 0:
                                       every successful cancel is in the trace, the timeout's own included),
                                     "stopped before completion" only if the program itself cancelled f,
                                     is left idle only without a timeout and with f never resolved;
   and (C38_add_future_callbacks_run_on_a_later_iteration) a future is resolved at most once, so the case is
   determined by f's unique resolution.  Not stated: the wall-clock bound of the timeout. *)
Theorem C38_run_sync_returns_result_reraises_or_times_out_after_cancelling :
  forall b tm fuel s e, run_loop fuel (init_sync b tm) = (s, e) -> e <> OutOfFuel ->
    let r := sync_result_of s e in
    exists x, In (EEnd 0 x) (ctr s) /\ (forall x', In (EEnd 0 x') (ctr s) -> x' = x) /\
      match x with
      | EndNone => r = RRet None
      | EndVal => r = RExc XBadYield
      | EndRaise y => r = RExc y
      | EndFut f =>
          (exists v, r = RRet (Some v) /\ In (ERs f 0 v) (ctr s)) \/
          (exists y, r = RExc (XUser y) /\ In (ERs f 1 y) (ctr s)) \/
          (r = RTimeout /\ tm <> None /\ In (ERs f 2 0) (ctr s)) \/
          (r = RStopped /\ e = Stopped /\ In (ERs f 2 0) (ctr s)) \/
          (r = RIdle /\ e = Idle /\ tm = None /\ ~ resolved f (ctr s))
      end.
Proof. exact run_sync_result. Qed.
Print Assumptions C38_run_sync_returns_result_reraises_or_times_out_after_cancelling.

(* deadline forms.  datetime.timedelta normalisation (days may be negative, 0 <= seconds < 86400,
   0 <= microseconds < 10^6) keeps the total, so total_seconds() is the real offset ... *)
Theorem C38_timedelta_total_is_preserved_by_normalisation :
  forall d s us, td_total_us (td_normalize d s us) = (d * 86400 + s) * 1000000 + us.
Proof. exact td_normalize_total. Qed.
Print Assumptions C38_timedelta_total_is_preserved_by_normalisation.

(* ... whereas `seconds + microseconds/1e6` (seeded change C38_2) is right exactly when the normalised days are 0 *)
Theorem C38_dropping_timedelta_days_is_wrong_iff_days_nonzero :
  forall d s us, let '(d', s', us') := td_normalize d s us in
    s' * 1000000 + us' = td_total_us (td_normalize d s us) <-> d' = 0.
Proof. exact dropping_days_is_wrong. Qed.
Print Assumptions C38_dropping_timedelta_days_is_wrong_iff_days_nonzero.

(* every form of the call -- add_timeout(number), call_at(number), call_later(delay), add_timeout(timedelta(days, t)),
   with any sign -- records and schedules (TimerHandle._when) exactly the absolute deadline it denotes; together with
   the timeout theorems above: it runs not before that deadline and in the order of those deadlines. *)
Theorem C38_every_deadline_form_schedules_the_requested_deadline :
  forall fm t b s,
    let dl := match fm with
              | FAbs | FCallAt => t
              | FLater => now s + t
              | FDelta days => now s + days * 345600 + t
              end in
    exists s', exec_op (OTo fm t b) s = (s', false) /\
      trace s' = ESt (next s) dl :: trace s /\
      In (HUser (next s) (KTo dl) b) (heap s') /\ hwhen (HUser (next s) (KTo dl) b) = dl.
Proof. exact timeout_call_schedules_requested_deadline. Qed.
Print Assumptions C38_every_deadline_form_schedules_the_requested_deadline.

(* the former finding, now fixed in /repo (call_at no longer clamps overdue deadlines): the witness program
   call_later(10, f), f = [add_timeout(T0+8, a); add_timeout(T0+5, b)] runs b before a. *)
Theorem C38_overdue_timeouts_run_in_requested_deadline_order_witness :
  exists s, run_loop 20 (init_prog overdue_witness) = (s, Idle) /\
    ctr s = [ESc 0; EIt 0; ERun 0 RCb 0; ESt 1 10; EEnd 0 EndNone; EIt 10; ERun 1 RTo 1; ESt 2 8; ESt 3 5;
             EEnd 1 EndNone; EIt 10; ERun 3 RTo 0; EEnd 3 EndNone; ERun 2 RTo 0; EEnd 2 EndNone].
Proof. exact overdue_timeouts_run_in_requested_deadline_order. Qed.
Print Assumptions C38_overdue_timeouts_run_in_requested_deadline_order_witness.

(* BOUNDED: the model's observable passes the trace monitor check_case (the checker applied to the REAL loop's
   traces) for every IOLoop program with at most 2 top-level ops over a 28-op alphabet and every run_sync call
   of such a function with 4 outcomes x 4 timeouts (13821 inputs, swept by vm_compute); in particular all of
   them run to completion within fuel_for.  The general statement (all programs) is not proved. *)
Theorem C38_model_passes_monitor_small_scope_partial :
  forall c, In c small_inputs -> check_case c (run_case c) = true.
Proof. apply forallb_forall. exact model_passes_monitor_small_scope. Qed.
Print Assumptions C38_model_passes_monitor_small_scope_partial.

(* add_callback's thread decision: plain call_soon only when the caller is running THIS loop ... *)
Theorem C38_add_callback_uses_call_soon_only_on_its_own_loop :
  forall c, add_callback_path c = PCallSoon <-> c = CSameLoop.
Proof. exact add_callback_path_spec. Qed.
Print Assumptions C38_add_callback_uses_call_soon_only_on_its_own_loop.

(* ... so every add_callback from any other thread -- one running its own event loop included -- onto a loop that is
   idle in select() with no timers is delivered without any further wake-up: all run, once each, in arrival order,
   and the ready queue is empty afterwards.  (Atomic appends; real preemption is a harness stress check.) *)
Theorem C38_cross_thread_add_callback_is_delivered_without_further_wakeup :
  forall calls, (forall ca, In ca calls -> fst ca <> CSameLoop) ->
    x_ran (x_deliver calls) = map snd calls /\ x_ready (x_deliver calls) = [].
Proof. exact cross_thread_add_callback_delivered. Qed.
Print Assumptions C38_cross_thread_add_callback_is_delivered_without_further_wakeup.

(* with plain call_soon instead (seeded change C38_3) the callback is stranded in the sleeping loop's queue *)
Theorem C38_call_soon_from_another_thread_would_strand_the_callback :
  forall a, let l := x_settle (x_add_via PCallSoon a x_idle) in x_ran l = [] /\ x_ready l = [a].
Proof. exact call_soon_from_another_thread_is_not_delivered. Qed.
Print Assumptions C38_call_soon_from_another_thread_would_strand_the_callback.

(* phase 4: two conjuncts of check_case, each for ALL inputs (every program / run_sync call, every fuel, whichever way
   the run ends): the monitors that check_case applies to the REAL loop's traces accept the model's own squashed
   trace (trace_of = what run_case renders).  chk_cb = add_callback callbacks run once, in scheduling order, all of
   them at idle; chk_to = timeouts run once, not before their deadline, never after remove_timeout, in requested-
   deadline order (w.r.t. those scheduled before the iteration), and all run unless removed at idle. *)
Theorem C38_add_callback_monitor_accepts_model_for_all_inputs :
  forall c s0 fuel s e, init_of c = Some s0 -> run_loop fuel s0 = (s, e) -> e <> OutOfFuel ->
    chk_cb (is_idle e) (trace_of s) = true.
Proof. exact chk_cb_accepts_model. Qed.
Print Assumptions C38_add_callback_monitor_accepts_model_for_all_inputs.

Theorem C38_timeout_monitor_accepts_model_for_all_inputs :
  forall c s0 fuel s e, init_of c = Some s0 -> run_loop fuel s0 = (s, e) -> e <> OutOfFuel ->
    chk_to (is_idle e) (trace_of s) = true.
Proof. exact chk_to_accepts_model. Qed.
Print Assumptions C38_timeout_monitor_accepts_model_for_all_inputs.
