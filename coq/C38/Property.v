(* C38 — IOLoop callbacks and timeouts run once, in order, and survive errors.
   Property theorems only; proofs are in Proofs.v (via Steps.v, Invariants.v, HeapProofs.v).
   `ctr s` is the chronological event trace of a model state (Spec.v); `init_of c` is the initial
   state of an IOLoop program (IProg) or of a run_sync call (ISync); the theorems hold for EVERY
   scheduling program, every fuel, and both ways the loop can end (idle / stopped). *)
From Coq Require Import List ZArith.
Import ListNotations.
From TV Require Import Lib.Obs C38.Model C38.Spec C38.Monitor C38.Run C38.Proofs C38.Bounded.
Local Open Scope Z_scope.

(* add_callback: at any end of the loop the callbacks that ran are a prefix of those scheduled, in
   scheduling order, and no instance id is scheduled twice ... *)
Theorem C38_callbacks_run_in_scheduling_order :
  forall c s0 fuel s e, init_of c = Some s0 -> run_loop fuel s0 = (s, e) -> e <> OutOfFuel ->
    NoDup (sc_list (ctr s)) /\ exists pending, sc_list (ctr s) = runs RCb (ctr s) ++ pending.
Proof. exact callbacks_fifo_prefix. Qed.
Print Assumptions C38_callbacks_run_in_scheduling_order.

(* ... and when the loop runs until it is idle, every add_callback callback ran exactly once, in
   scheduling order (whatever the callbacks did: raise, return values, return failing futures). *)
Theorem C38_callbacks_run_exactly_once_in_order :
  forall c s0 fuel s, init_of c = Some s0 -> run_loop fuel s0 = (s, Idle) ->
    runs RCb (ctr s) = sc_list (ctr s) /\ NoDup (sc_list (ctr s)).
Proof. exact callbacks_exactly_once_in_order. Qed.
Print Assumptions C38_callbacks_run_exactly_once_in_order.

(* timeouts: no timeout runs twice; when timeout j runs it has not been removed, it was scheduled with a
   deadline d that is not after the loop's clock, and every other pending (scheduled, not run, not removed)
   timeout i that was scheduled before the current iteration began (old_ids: before the last iteration mark)
   has a REQUESTED deadline di >= d: timeouts run in requested-deadline order, overdue ones included, ties
   unordered.  (A timeout scheduled by a callback of the very iteration that already collected j from the heap
   cannot overtake j: see Bounded.v, a_timeout_scheduled_during_an_iteration_does_not_overtake_collected_ones.)
   Instance ids identify one call. *)
Theorem C38_timeouts_once_not_early_in_deadline_order_never_after_removal :
  forall c s0 fuel s e, init_of c = Some s0 -> run_loop fuel s0 = (s, e) -> e <> OutOfFuel ->
    NoDup (runs RTo (ctr s)) /\
    (forall tr1 j l tr2, ctr s = tr1 ++ ERun j RTo l :: tr2 ->
       ~ In (ERm j) tr1 /\ ~ In j (runs RTo tr1) /\
       exists d, In (ESt j d) tr1 /\ d <= clock_of tr1 /\
         forall i di, In (ESt i di) tr1 -> In i (old_ids tr1) ->
                      ~ In i (runs RTo tr1) -> ~ In (ERm i) tr1 -> d <= di) /\
    (forall i d d', In (ESt i d) (ctr s) -> In (ESt i d') (ctr s) -> d = d').
Proof. exact timeouts_safety. Qed.
Print Assumptions C38_timeouts_once_not_early_in_deadline_order_never_after_removal.

(* old_ids / young_ids partition the scheduled timeouts at the last iteration mark, in schedule order *)
Theorem C38_old_young_partition : forall tr, old_ids tr ++ young_ids tr = st_ids tr.
Proof. exact old_young_partition. Qed.
Print Assumptions C38_old_young_partition.

(* when the loop runs until idle every scheduled timeout either ran or was removed *)
Theorem C38_timeouts_run_unless_removed :
  forall c s0 fuel s, init_of c = Some s0 -> run_loop fuel s0 = (s, Idle) ->
    forall i d, In (ESt i d) (ctr s) -> In i (runs RTo (ctr s)) \/ In (ERm i) (ctr s).
Proof. exact timeouts_complete. Qed.
Print Assumptions C38_timeouts_run_unless_removed.

(* several threads calling add_callback: for ANY arrival order of the (atomic) appends to the ready
   queue, the loop runs them in arrival order, hence in per-thread scheduling order, each once *)
Theorem C38_threads_fifo_for_every_interleaving :
  forall arrivals, arrivals_run_order arrivals = arrivals /\
    forall t, of_thread t (arrivals_run_order arrivals) = of_thread t arrivals.
Proof. intro a. split; [apply arrivals_run_order_id|intro; apply threads_per_thread_order]. Qed.
Print Assumptions C38_threads_fifo_for_every_interleaving.

(* exceptions: whenever a callback instance ends by raising (and is not run_sync's own function, whose
   exception goes to the returned future), the very next event is the "Exception in callback" log record
   for that instance; and a log record only ever follows such a raise.  Together with the theorems above
   (which hold for every program, raising callbacks included) the loop goes on with the rest of the schedule.
   Holds at every end of the loop, for any fuel. *)
Theorem C38_exceptions_are_logged_and_nothing_else_is :
  forall c s0 fuel s e, init_of c = Some s0 -> run_loop fuel s0 = (s, e) ->
    (forall tr1 i x tr2, ctr s = tr1 ++ EEnd i (EndRaise x) :: tr2 -> last_kind tr1 <> Some RFn ->
       exists tr3, tr2 = ELog i :: tr3) /\
    (forall tr1 i tr2, ctr s = tr1 ++ ELog i :: tr2 -> exists tr0 x, tr1 = tr0 ++ [EEnd i (EndRaise x)]).
Proof. exact errors_logged. Qed.
Print Assumptions C38_exceptions_are_logged_and_nothing_else_is.

(* add_future: a callback registered with add_future(f, cb) starts only after an iteration boundary that
   follows the add_future call AND an iteration boundary that follows the resolution of f; a future is
   resolved at most once. *)
Theorem C38_add_future_callbacks_run_on_a_later_iteration :
  forall c s0 fuel s e, init_of c = Some s0 -> run_loop fuel s0 = (s, e) -> e <> OutOfFuel ->
    (forall tr1 i l tr2, ctr s = tr1 ++ ERun i RFut l :: tr2 ->
       exists f, aged_after (EAf i f) tr1 /\ exists how v, aged_after (ERs f how v) tr1) /\
    (forall tr1 f how v tr2, ctr s = tr1 ++ ERs f how v :: tr2 -> ~ resolved f tr1).
Proof. exact future_callbacks_later_iteration. Qed.
Print Assumptions C38_add_future_callbacks_run_on_a_later_iteration.

(* the final state of every future is the (unique) resolution recorded in the trace *)
Theorem C38_future_state_matches_trace :
  forall c s0 fuel s e, init_of c = Some s0 -> run_loop fuel s0 = (s, e) -> e <> OutOfFuel ->
    forall f, match fget (futs s) f with
              | FPending _ => ~ resolved f (ctr s)
              | FOk (Some v) => In (ERs f 0 v) (ctr s)
              | FExc (XUser y) => In (ERs f 1 y) (ctr s)
              | FCancelled => In (ERs f 2 0) (ctr s)
              | _ => False
              end.
Proof. exact future_state_matches_trace. Qed.
Print Assumptions C38_future_state_matches_trace.

(* run_sync, PARTIAL.  Full statement wanted: "run_sync returns the value the function's future was resolved
   with, re-raises the exception it was resolved with (or that the function raised), or raises TimeoutError
   after cancelling the future, and only when the timeout elapsed first".  Proved here: when the cell holds
   the future f returned by the function, the result is exactly what the trace says about f (value v only if
   f was resolved with v, exception y only if resolved with y, TimeoutError only after the timeout callback
   ran and f is cancelled-or-unresolved).  NOT proved in general: that the cell is the function's outcome,
   that TimeoutError implies f was actually cancelled, and the timing; these are checked by the monitor
   sync_ok on every correspondence case and proved for the small scope below. *)
Theorem C38_run_sync_result_partial :
  forall b timeout fuel s e, run_loop fuel (init_sync b timeout) = (s, e) -> e <> OutOfFuel ->
    forall f, cell s = Some (CUser f) ->
      match sync_result_of s e with
      | RRet (Some v) => In (ERs f 0 v) (ctr s)
      | RExc (XUser y) => In (ERs f 1 y) (ctr s)
      | RTimeout => tcalled s = true /\ (In (ERs f 2 0) (ctr s) \/ ~ resolved f (ctr s))
      | RStopped | RIdle => tcalled s = false /\ (In (ERs f 2 0) (ctr s) \/ ~ resolved f (ctr s))
      | _ => False
      end.
Proof. exact run_sync_result_vs_trace. Qed.
Print Assumptions C38_run_sync_result_partial.

(* the former finding, now fixed in /repo (call_at no longer clamps overdue deadlines): the witness program
   call_later(10, f), f = [add_timeout(T0+8, a); add_timeout(T0+5, b)] runs b before a. *)
Theorem C38_overdue_timeouts_run_in_requested_deadline_order_witness :
  exists s, run_loop 20 (init_prog overdue_witness) = (s, Idle) /\
    ctr s = [ESc 0; EIt 0; ERun 0 RCb 0; ESt 1 10; EEnd 0 EndNone; EIt 10; ERun 1 RTo 1; ESt 2 8; ESt 3 5;
             EEnd 1 EndNone; EIt 10; ERun 3 RTo 0; EEnd 3 EndNone; ERun 2 RTo 0; EEnd 2 EndNone].
Proof. exact overdue_timeouts_run_in_requested_deadline_order. Qed.
Print Assumptions C38_overdue_timeouts_run_in_requested_deadline_order_witness.

(* BOUNDED: the model's observable passes the trace monitor check_case (the checker applied to the REAL loop's
   traces) for every IOLoop program with at most 2 top-level ops over a 28-op alphabet and every run_sync call
   of such a function with 4 outcomes x 4 timeouts (13821 inputs, swept by vm_compute); in particular all of
   them run to completion within fuel_for.  The general statement (all programs) is not proved. *)
Theorem C38_model_passes_monitor_small_scope_partial :
  forall c, In c small_inputs -> check_case c (run_case c) = true.
Proof. apply forallb_forall. exact model_passes_monitor_small_scope. Qed.
Print Assumptions C38_model_passes_monitor_small_scope_partial.
