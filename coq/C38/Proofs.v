(* C38 — main theorems about callbacks and timeouts, for every program and every fuel. *)
From Coq Require Import List ZArith Arith Bool Lia Permutation Sorted.
Import ListNotations.
From TV Require Import C38.Model C38.Spec C38.HeapProofs C38.Steps C38.Invariants.
Local Open Scope Z_scope.

Lemma arrivals_run_order_id : forall l, arrivals_run_order l = l.
Proof.
  intro l. unfold arrivals_run_order.
  assert (H : forall acc, fold_left (fun ran a => ran ++ [a]) l acc = acc ++ l).
  { induction l as [|a l IH]; intro acc; simpl; [now rewrite app_nil_r|].
    rewrite IH, <- app_assoc. reflexivity. }
  apply (H []).
Qed.

(* per-thread order for ANY interleaving of atomic appends *)
Lemma threads_per_thread_order : forall arrivals t,
  of_thread t (arrivals_run_order arrivals) = of_thread t arrivals.
Proof. intros. rewrite arrivals_run_order_id. reflexivity. Qed.

(* the initial states of the two kinds of run *)
Definition init_of (c : c38_input) : option st :=
  match c with
  | IProg b => Some (init_prog b)
  | ISync b t => Some (init_sync b t)
  | IThreads _ _ => None
  end.

Lemma Inv_init c s0 : init_of c = Some s0 -> Inv [] s0.
Proof.
  destruct c; simpl; intro H; inversion H; subst; [apply Inv_init_prog|apply Inv_init_sync].
Qed.

(* whatever way the loop ends (idle or stopped), the final trace is the trace of a state satisfying the invariant *)
Lemma run_loop_Inv c s0 fuel s e :
  init_of c = Some s0 -> run_loop fuel s0 = (s, e) -> e <> OutOfFuel ->
  exists s1, Inv [] s1 /\ trace s1 = trace s /\ (e = Idle -> ready s1 = [] /\ heap s1 = []).
Proof.
  intros HI HR NE. apply Inv_init in HI. apply run_loop_steps in HR. destruct e.
  - destruct HR as (s1 & A & B & C & D). exists s1. split; [|split; auto].
    apply (asteps_preserve _ _ A). exact HI.
  - exists s. split; [|split; auto; discriminate]. apply (asteps_preserve _ _ HR). exact HI.
  - congruence.
Qed.

Lemma ctr_eq s1 s : trace s1 = trace s -> ctr s1 = ctr s.
Proof. unfold ctr. intros ->. reflexivity. Qed.

(* ---------- add_callback ---------- *)
Theorem callbacks_fifo_prefix c s0 fuel s e :
  init_of c = Some s0 -> run_loop fuel s0 = (s, e) -> e <> OutOfFuel ->
  NoDup (sc_list (ctr s)) /\ exists pending, sc_list (ctr s) = runs RCb (ctr s) ++ pending.
Proof.
  intros HI HR NE. destruct (run_loop_Inv _ _ _ _ _ HI HR NE) as (s1 & I1 & T & _).
  rewrite <- (ctr_eq _ _ T). destruct I1. split; auto. eexists; eauto.
Qed.

Theorem callbacks_exactly_once_in_order c s0 fuel s :
  init_of c = Some s0 -> run_loop fuel s0 = (s, Idle) ->
  runs RCb (ctr s) = sc_list (ctr s) /\ NoDup (sc_list (ctr s)).
Proof.
  intros HI HR. destruct (run_loop_Inv _ _ _ _ _ HI HR) as (s1 & I1 & T & E); [discriminate|].
  destruct (E eq_refl) as [R H]. rewrite <- (ctr_eq _ _ T). destruct I1. split; auto.
  rewrite v_cb, R. simpl. rewrite app_nil_r. reflexivity.
Qed.

(* ---------- timeouts ---------- *)
Theorem timeouts_safety c s0 fuel s e :
  init_of c = Some s0 -> run_loop fuel s0 = (s, e) -> e <> OutOfFuel ->
  NoDup (runs RTo (ctr s)) /\
  (forall tr1 j l tr2, ctr s = tr1 ++ ERun j RTo l :: tr2 ->
     ~ In (ERm j) tr1 /\ ~ In j (runs RTo tr1) /\
     exists d w, In (ESt j d w) tr1 /\ d <= clock_of tr1 /\
       forall i di wi, In (ESt i di wi) tr1 -> ~ In i (runs RTo tr1) -> ~ In (ERm i) tr1 -> w <= wi) /\
  (forall tr1 i d w tr2, ctr s = tr1 ++ ESt i d w :: tr2 -> w = Z.max (clock_of tr1) d) /\
  (forall i d w d' w', In (ESt i d w) (ctr s) -> In (ESt i d' w') (ctr s) -> d = d' /\ w = w').
Proof.
  intros HI HR NE. destruct (run_loop_Inv _ _ _ _ _ HI HR NE) as (s1 & I1 & T & _).
  rewrite <- (ctr_eq _ _ T). destruct I1. split; [|split; [|split]].
  - eapply NoDup_app_l; eauto.
  - intros tr1 j l tr2 E. exact (v_P tr1 (ERun j RTo l) tr2 E).
  - intros tr1 i d w tr2 E. exact (v_P tr1 (ESt i d w) tr2 E).
  - intros. eapply st_unique; eauto.
Qed.

Theorem timeouts_complete c s0 fuel s :
  init_of c = Some s0 -> run_loop fuel s0 = (s, Idle) ->
  forall i d w, In (ESt i d w) (ctr s) -> In i (runs RTo (ctr s)) \/ In (ERm i) (ctr s).
Proof.
  intros HI HR i d w H. destruct (run_loop_Inv _ _ _ _ _ HI HR) as (s1 & I1 & T & E); [discriminate|].
  destruct (E eq_refl) as [R HP]. rewrite <- (ctr_eq _ _ T) in *. destruct I1.
  assert (Hi : In i (st_ids (ctr s1))) by (apply in_st_ids; eauto).
  destruct (v_to_cover i Hi) as [A|[A|A]]; auto.
  - rewrite HP, R in A. simpl in A. contradiction.
  - right. apply v_cancel. exact A.
Qed.
