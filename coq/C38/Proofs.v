(* C38 — main theorems about callbacks and timeouts, for every program and every fuel. *)
From Coq Require Import List ZArith Arith Bool Lia Permutation Sorted.
Import ListNotations.
From TV Require Import C38.Model C38.Spec C38.HeapProofs C38.Steps C38.Invariants C38.LogProofs C38.FutProofs C38.SyncProofs.
Local Open Scope Z_scope.

Lemma arrivals_run_order_id : forall l, arrivals_run_order l = l.
Proof.
  intro l. unfold arrivals_run_order.
  assert (H : forall acc, fold_left (fun ran a => ran ++ [a]) l acc = acc ++ l).
  { induction l as [|a l IH]; intro acc; simpl; [now rewrite app_nil_r|].
    rewrite IH, <- app_assoc. reflexivity. }
  apply (H []).
Qed.

(* per-thread order for ANY interleaving of atomic appends *)
Lemma threads_per_thread_order : forall arrivals t,
  of_thread t (arrivals_run_order arrivals) = of_thread t arrivals.
Proof. intros. rewrite arrivals_run_order_id. reflexivity. Qed.

(* the initial states of the two kinds of run *)
Definition init_of (c : c38_input) : option st :=
  match c with
  | IProg b => Some (init_prog b)
  | ISync b t => Some (init_sync b t)
  | IThreads _ _ _ => None
  end.

Lemma Inv_init c s0 : init_of c = Some s0 -> Inv [] s0.
Proof.
  destruct c; simpl; intro H; inversion H; subst; [apply Inv_init_prog|apply Inv_init_sync].
Qed.

Lemma ntl_init c s0 : init_of c = Some s0 -> ntl s0.
Proof. destruct c as [b|b [t|]|]; simpl; intro H; inversion H; subst; reflexivity. Qed.

Lemma Inv2_init c s0 : init_of c = Some s0 -> Inv2 [] s0.
Proof.
  destruct c; simpl; intro H; inversion H; subst; [apply Inv2_init_prog|apply Inv2_init_sync].
Qed.

(* whatever way the loop ends (idle or stopped), the final trace is the trace of a state satisfying the invariants *)
Lemma run_loop_Inv12 c s0 fuel s e :
  init_of c = Some s0 -> run_loop fuel s0 = (s, e) -> e <> OutOfFuel ->
  exists s1, Inv [] s1 /\ Inv2 [] s1 /\ trace s1 = trace s /\
    (e = Idle -> ready s1 = [] /\ heap s1 = []) /\
    futs s1 = futs s /\ cell s1 = cell s /\ tcalled s1 = tcalled s.
Proof.
  intros HI HR NE. pose proof (Inv_init _ _ HI) as I1. pose proof (Inv2_init _ _ HI) as I2.
  apply run_loop_steps in HR; [|eapply ntl_init; eauto]. destruct e.
  - destruct HR as (s1 & A & B & C & D & E1 & E2 & E3). exists s1.
    destruct (asteps_preserve2 _ _ A I1 I2) as [J1 J2].
    split; [exact J1|]. split; [exact J2|]. split; [exact D|]. split; [auto|]. auto.
  - exists s. destruct (asteps_preserve2 _ _ HR I1 I2) as [J1 J2].
    split; [exact J1|]. split; [exact J2|]. split; [reflexivity|]. split; [intro X; discriminate X|auto].
  - congruence.
Qed.

Lemma run_loop_Inv c s0 fuel s e :
  init_of c = Some s0 -> run_loop fuel s0 = (s, e) -> e <> OutOfFuel ->
  exists s1, Inv [] s1 /\ trace s1 = trace s /\ (e = Idle -> ready s1 = [] /\ heap s1 = []).
Proof.
  intros HI HR NE. destruct (run_loop_Inv12 _ _ _ _ _ HI HR NE) as (s1 & A & _ & B & C & _). eauto.
Qed.

Lemma ctr_eq s1 s : trace s1 = trace s -> ctr s1 = ctr s.
Proof. unfold ctr. intros ->. reflexivity. Qed.

(* ---------- add_callback ---------- *)
Theorem callbacks_fifo_prefix c s0 fuel s e :
  init_of c = Some s0 -> run_loop fuel s0 = (s, e) -> e <> OutOfFuel ->
  NoDup (sc_list (ctr s)) /\ exists pending, sc_list (ctr s) = runs RCb (ctr s) ++ pending.
Proof.
  intros HI HR NE. destruct (run_loop_Inv _ _ _ _ _ HI HR NE) as (s1 & I1 & T & _).
  rewrite <- (ctr_eq _ _ T). destruct I1. split; auto. eexists; eauto.
Qed.

Theorem callbacks_exactly_once_in_order c s0 fuel s :
  init_of c = Some s0 -> run_loop fuel s0 = (s, Idle) ->
  runs RCb (ctr s) = sc_list (ctr s) /\ NoDup (sc_list (ctr s)).
Proof.
  intros HI HR. destruct (run_loop_Inv _ _ _ _ _ HI HR) as (s1 & I1 & T & E); [discriminate|].
  destruct (E eq_refl) as [R H]. rewrite <- (ctr_eq _ _ T). destruct I1. split; auto.
  rewrite v_cb, R. simpl. rewrite app_nil_r. reflexivity.
Qed.

(* ---------- timeouts ---------- *)
Theorem timeouts_safety c s0 fuel s e :
  init_of c = Some s0 -> run_loop fuel s0 = (s, e) -> e <> OutOfFuel ->
  NoDup (runs RTo (ctr s)) /\
  (forall tr1 j l tr2, ctr s = tr1 ++ ERun j RTo l :: tr2 ->
     ~ In (ERm j) tr1 /\ ~ In j (runs RTo tr1) /\
     exists d, In (ESt j d) tr1 /\ d <= clock_of tr1 /\
       forall i di, In (ESt i di) tr1 -> In i (old_ids tr1) ->
                    ~ In i (runs RTo tr1) -> ~ In (ERm i) tr1 -> d <= di) /\
  (forall i d d', In (ESt i d) (ctr s) -> In (ESt i d') (ctr s) -> d = d').
Proof.
  intros HI HR NE. destruct (run_loop_Inv _ _ _ _ _ HI HR NE) as (s1 & I1 & T & _).
  rewrite <- (ctr_eq _ _ T). destruct I1. split; [|split].
  - eapply NoDup_app_l; eauto.
  - intros tr1 j l tr2 E. exact (v_P tr1 (ERun j RTo l) tr2 E).
  - intros. eapply st_unique; eauto.
Qed.

Theorem timeouts_complete c s0 fuel s :
  init_of c = Some s0 -> run_loop fuel s0 = (s, Idle) ->
  forall i d, In (ESt i d) (ctr s) -> In i (runs RTo (ctr s)) \/ In (ERm i) (ctr s).
Proof.
  intros HI HR i d H. destruct (run_loop_Inv _ _ _ _ _ HI HR) as (s1 & I1 & T & E); [discriminate|].
  destruct (E eq_refl) as [R HP]. rewrite <- (ctr_eq _ _ T) in *. destruct I1.
  assert (Hi : In i (st_ids (ctr s1))) by (apply in_st_ids; eauto).
  destruct (v_to_cover i Hi) as [A|[A|A]]; auto.
  - rewrite HP, R in A. simpl in A. contradiction.
  - right. apply v_cancel. exact A.
Qed.

(* old_ids: exactly the timeouts scheduled before the last iteration mark *)
Theorem old_young_partition tr : old_ids tr ++ young_ids tr = st_ids tr.
Proof. apply old_young_st. Qed.

(* ---------- errors ---------- *)
Lemma LOK_init c s0 : init_of c = Some s0 -> exists k, LOK k s0.
Proof.
  destruct c; simpl; intro H; inversion H; subst; exists None.
  - reflexivity.
  - unfold LOK, init_sync. destruct timeout; reflexivity.
Qed.

Theorem errors_logged c s0 fuel s e :
  init_of c = Some s0 -> run_loop fuel s0 = (s, e) ->
  (forall tr1 i x tr2, ctr s = tr1 ++ EEnd i (EndRaise x) :: tr2 -> last_kind tr1 <> Some RFn ->
     exists tr3, tr2 = ELog i :: tr3) /\
  (forall tr1 i tr2, ctr s = tr1 ++ ELog i :: tr2 -> exists tr0 x, tr1 = tr0 ++ [EEnd i (EndRaise x)]).
Proof.
  intros HI HR. destruct (LOK_init _ _ HI) as (k & L).
  destruct (run_loop_LOK _ _ _ _ _ HR L) as (k' & L'). eapply log_discipline; eauto.
Qed.

(* ---------- futures ---------- *)
Theorem future_callbacks_later_iteration c s0 fuel s e :
  init_of c = Some s0 -> run_loop fuel s0 = (s, e) -> e <> OutOfFuel ->
  (forall tr1 i l tr2, ctr s = tr1 ++ ERun i RFut l :: tr2 ->
     exists f, aged_after (EAf i f) tr1 /\ exists how v, aged_after (ERs f how v) tr1) /\
  (forall tr1 f how v tr2, ctr s = tr1 ++ ERs f how v :: tr2 -> ~ resolved f tr1).
Proof.
  intros HI HR NE. destruct (run_loop_Inv12 _ _ _ _ _ HI HR NE) as (s1 & _ & I2 & T & _).
  rewrite <- (ctr_eq _ _ T). destruct I2. split.
  - intros tr1 i l tr2 E. exact (w_P tr1 (ERun i RFut l) tr2 E).
  - intros tr1 f how v tr2 E. exact (w_P tr1 (ERs f how v) tr2 E).
Qed.

(* the state of a future at the end of the run is what the trace says *)
Theorem future_state_matches_trace c s0 fuel s e :
  init_of c = Some s0 -> run_loop fuel s0 = (s, e) -> e <> OutOfFuel ->
  forall f, match fget (futs s) f with
            | FPending _ => ~ resolved f (ctr s)
            | FOk (Some v) => In (ERs f 0 v) (ctr s)
            | FExc (XUser y) => In (ERs f 1 y) (ctr s)
            | FCancelled => In (ERs f 2 0) (ctr s)
            | _ => False
            end.
Proof.
  intros HI HR NE f. destruct (run_loop_Inv12 _ _ _ _ _ HI HR NE) as (s1 & _ & I2 & T & _ & F & _).
  rewrite <- (ctr_eq _ _ T), <- F. destruct I2. apply w_state.
Qed.

(* run_sync: what the result says about the future the function returned (the cell) *)
Theorem run_sync_result_vs_trace b timeout fuel s e :
  run_loop fuel (init_sync b timeout) = (s, e) -> e <> OutOfFuel ->
  forall f, cell s = Some (CUser f) ->
    match sync_result_of s e with
    | RRet (Some v) => In (ERs f 0 v) (ctr s)
    | RExc (XUser y) => In (ERs f 1 y) (ctr s)
    | RTimeout => tcalled s = true /\ (In (ERs f 2 0) (ctr s) \/ ~ resolved f (ctr s))
    | RStopped | RIdle => tcalled s = false /\ (In (ERs f 2 0) (ctr s) \/ ~ resolved f (ctr s))
    | _ => False
    end.
Proof.
  intros HR NE f C.
  pose proof (future_state_matches_trace (ISync b timeout) _ fuel s e eq_refl HR NE f) as W.
  unfold sync_result_of. rewrite C. destruct e; [| |congruence];
    destruct (fget (futs s) f) as [cbs|[v|]|[y| |]|]; auto; try contradiction;
    destruct (tcalled s); auto.
Qed.

(* ---------- run_sync, in full ---------- *)
Theorem run_sync_result b tm fuel s e :
  run_loop fuel (init_sync b tm) = (s, e) -> e <> OutOfFuel ->
  let r := sync_result_of s e in
  exists x, In (EEnd 0 x) (ctr s) /\ (forall x', In (EEnd 0 x') (ctr s) -> x' = x) /\
    match x with
    | EndNone => r = RRet None
    | EndVal => r = RExc XBadYield
    | EndRaise y => r = RExc y
    | EndFut f =>
        (exists v, r = RRet (Some v) /\ In (ERs f 0 v) (ctr s)) \/
        (exists y, r = RExc (XUser y) /\ In (ERs f 1 y) (ctr s)) \/
        (r = RTimeout /\ tm <> None /\ In (ERs f 2 0) (ctr s)) \/
        (r = RStopped /\ e = Stopped /\ In (ERs f 2 0) (ctr s)) \/
        (r = RIdle /\ e = Idle /\ tm = None /\ ~ resolved f (ctr s))
    end.
Proof.
  intros HR NE r.
  pose proof (future_state_matches_trace (ISync b tm) _ fuel s e eq_refl HR NE) as W.
  destruct (run_sync_final b tm fuel s e HR NE) as (s1 & J & NC & T & F & C & TC & HI & HS).
  assert (CT : ctr s1 = ctr s) by (apply ctr_eq; auto).
  destruct J. rewrite CT in *.
  destruct (cell s1) as [c|] eqn:CC; [|congruence]. clear NC.
  pose proof (j_cell c eq_refl) as CM.
  assert (NIDLE : e <> Idle \/ e = Idle) by (destruct e; auto; left; discriminate).
  destruct c as [r0|f]; simpl in CM.
  - destruct CM as (x & HIn & FR). exists x. split; auto. split; [intros x' H'; eapply j_endz; eauto|].
    unfold r, sync_result_of. rewrite <- C. destruct e; [| |congruence];
      destruct x as [| |f|y]; simpl in FR; inversion FR; subst; reflexivity.
  - exists (EndFut f). split; auto. split; [intros x' H'; eapply j_endz; eauto|].
    specialize (W f). unfold r, sync_result_of. rewrite <- C, <- TC.
    assert (CPi : (exists cbs, fget (futs s) f = FPending cbs) -> cellpend s1).
    { intros (cbs & G). exists f, cbs. split; auto. rewrite F. auto. }
    destruct (fget (futs s) f) as [cbs|[v|]|[y| |]|] eqn:G; try contradiction.
    + (* never resolved *)
      assert (CP : cellpend s1) by (apply CPi; eauto).
      destruct (tcalled s1) eqn:TCs; [exfalso; eapply j_tc; eauto|].
      destruct e; [| |congruence].
      * right; right; right; right. split; auto. split; auto. split; auto.
        destruct (HI eq_refl) as (R0 & H0 & S0).
        destruct tm as [t|]; auto. destruct j_to as [(w & Hw)|Hw]; [|congruence].
        unfold allh in Hw. rewrite R0, H0 in Hw. destruct Hw.
      * exfalso. destruct (j_stopping (HS eq_refl)); [congruence|contradiction].
    + left. exists v. destruct e; [| |congruence]; auto.
    + right; left. exists y. destruct e; [| |congruence]; auto.
    + (* cancelled *)
      assert (NCP : ~ cellpend s1).
      { intros (g & cb & A & B). rewrite CC in A. inversion A; subst g. rewrite F in B. congruence. }
      destruct (tcalled s1) eqn:TCs.
      * right; right; left. split; [destruct e; [| |congruence]; reflexivity|]. split; auto.
        destruct tm; [discriminate|]. destruct j_to. congruence.
      * destruct e; [| |congruence].
        -- exfalso. destruct (HI eq_refl) as (R0 & H0 & S0).
           assert (NN : Some (CUser f) <> None) by discriminate.
           destruct (j_liveb NN NCP) as [H|H]; [rewrite R0 in H; destruct H|congruence].
        -- right; right; right; left. auto.
Qed.

(* ---------- add_callback from other threads onto an idle loop ---------- *)
Lemma x_fold_threadsafe calls : forall l,
  (forall ca, In ca calls -> fst ca <> CSameLoop) ->
  let l' := fold_left (fun l ca => x_add (fst ca) (snd ca) l) calls l in
  x_ready l' = x_ready l ++ map snd calls /\ x_ran l' = x_ran l /\
  x_woken l' = (match calls with [] => x_woken l | _ => true end).
Proof.
  induction calls as [|[c a] calls IH]; intros l H; simpl.
  - rewrite app_nil_r. auto.
  - assert (Hc : c <> CSameLoop) by (apply (H (c, a)); left; reflexivity).
    destruct (IH (x_add c a l)) as (A & B & C); [intros ca Hin; apply H; right; auto|].
    simpl in A, B, C. rewrite A, B, C.
    unfold x_add, add_callback_path. destruct c; [congruence| |]; simpl; rewrite <- app_assoc; simpl;
      (split; [reflexivity|split; [reflexivity|destruct calls; reflexivity]]).
Qed.

(* every add_callback made from a thread other than the loop's own (whether that thread runs another event loop or
   none) onto a loop that is idle in select() is delivered: the loop runs all of them, each once, in arrival order,
   and nothing stays behind in the ready queue -- no further wake-up is needed *)
Theorem cross_thread_add_callback_delivered calls :
  (forall ca, In ca calls -> fst ca <> CSameLoop) ->
  x_ran (x_deliver calls) = map snd calls /\ x_ready (x_deliver calls) = [].
Proof.
  intro H. unfold x_deliver. destruct (x_fold_threadsafe calls x_idle H) as (A & B & C).
  unfold x_settle. rewrite C. destruct calls as [|ca calls]; simpl in *.
  - auto.
  - rewrite B, A. simpl. auto.
Qed.

(* the decision matters: were a caller running ANOTHER loop treated like the loop's own thread (plain call_soon,
   as in seeded change C38_3), the callback would stay in the ready queue of the sleeping loop *)
Lemma call_soon_from_another_thread_is_not_delivered a :
  let l := x_settle (x_add_via PCallSoon a x_idle) in x_ran l = [] /\ x_ready l = [a].
Proof. simpl. auto. Qed.

Lemma add_callback_path_spec c : add_callback_path c = PCallSoon <-> c = CSameLoop.
Proof. destruct c; simpl; split; intro H; congruence. Qed.
