(* C38 — run_sync: an invariant on the loop state (at the granularity of model functions) that ties the
   future cell, the stop callback, the timeout callback and the trace together. *)
From Coq Require Import List ZArith Arith Bool Lia Permutation.
Import ListNotations.
From TV Require Import C38.Model C38.Spec C38.HeapProofs C38.Steps C38.Invariants C38.FutProofs.
Local Open Scope Z_scope.

Definition allh (td : list handle) (s : st) : list handle := td ++ ready s ++ heap s.

(* the future in the cell is still pending *)
Definition cellpend (s : st) : Prop :=
  exists f cbs, cell s = Some (CUser f) /\ fget (futs s) f = FPending cbs.

Definition fresh_res (x : ended) : option fstate :=
  match x with
  | EndNone => Some (FOk None)
  | EndVal => Some (FExc XBadYield)
  | EndRaise y => Some (FExc y)
  | EndFut _ => None
  end.

Definition cell_matches (c : cellv) (tr : list ev) : Prop :=
  match c with
  | CFresh r => exists x, In (EEnd 0 x) tr /\ fresh_res x = Some r
  | CUser f => In (EEnd 0 (EndFut f)) tr
  end.

Record SJ (tm : option Z) (td : list handle) (s : st) : Prop := {
  j_next : (1 <= next s)%nat;
  j_ids : forall i k b, In (HUser i k b) (allh td s) -> (1 <= i)%nat;
  j_fids : forall f cbs i b, fget (futs s) f = FPending cbs -> In (FcUser i b) cbs -> (1 <= i)%nat;
  j_nors : forall i b, ~ In (HRunSync i b) (allh td s);
  j_cell : forall c, cell s = Some c -> cell_matches c (ctr s);
  j_none : cell s = None ->
           tcalled s = false /\ stopping s = false /\ (forall x, ~ In (EEnd 0 x) (ctr s)) /\ ~ In HStop (allh td s);
  j_endz : forall x x', In (EEnd 0 x) (ctr s) -> In (EEnd 0 x') (ctr s) -> x = x';
  j_tc : tcalled s = true -> ~ cellpend s;
  j_hstop : In HStop (allh td s) -> ~ cellpend s;
  j_stopping : stopping s = true -> tcalled s = true \/ ~ cellpend s;
  j_fcstop : forall f cbs, fget (futs s) f = FPending cbs -> In FcStop cbs -> cell s = Some (CUser f);
  j_livea : forall f cbs, cell s = Some (CUser f) -> fget (futs s) f = FPending cbs -> In FcStop cbs;
  j_liveb : cell s <> None -> ~ cellpend s -> In HStop (td ++ ready s) \/ stopping s = true;
  j_to : match tm with
         | Some _ => (exists w, In (HTimeoutCb w) (allh td s)) \/ tcalled s = true
         | None => tcalled s = false /\ forall w, ~ In (HTimeoutCb w) (allh td s)
         end
}.

(* ------------------------------------------------------------------ *)
(* primitive state changes *)
Definition benign (h : handle) : Prop :=
  (exists i k b, h = HUser i k b /\ (1 <= i)%nat) \/ (exists key, h = HDiscard key).

(* anything that leaves cell/flags/futures alone, appends non-EEnd-0 events, and adds only benign handles *)
Lemma SJ_step tm td td' s s' :
  SJ tm td s ->
  cell s' = cell s -> tcalled s' = tcalled s -> stopping s' = stopping s -> futs s' = futs s ->
  (next s <= next s')%nat ->
  (exists evs, ctr s' = ctr s ++ evs /\ forall x, ~ In (EEnd 0 x) evs) ->
  (forall h, In h (allh td' s') -> In h (allh td s) \/ benign h) ->
  (forall h, In h (td ++ ready s) -> In h (td' ++ ready s')) ->
  (forall w, In (HTimeoutCb w) (allh td s) -> In (HTimeoutCb w) (allh td' s')) ->
  SJ tm td' s'.
Proof.
  intros [] C T S F N (evs & E & NE) HN HK HT.
  assert (CP : cellpend s' <-> cellpend s) by (unfold cellpend; rewrite C, F; tauto).
  assert (INE : forall x, In (EEnd 0 x) (ctr s') <-> In (EEnd 0 x) (ctr s)).
  { intro x. rewrite E, in_app_iff. split; [intros [H|H]; auto; exfalso; eapply NE; eauto|auto]. }
  assert (NB1 : forall i b, ~ benign (HRunSync i b)).
  { intros i b [(i' & k' & b' & H & _)|(k & H)]; discriminate. }
  assert (NB2 : ~ benign HStop).
  { intros [(i' & k' & b' & H & _)|(k & H)]; discriminate. }
  assert (NB3 : forall w, ~ benign (HTimeoutCb w)).
  { intros w [(i' & k' & b' & H & _)|(k & H)]; discriminate. }
  constructor; rewrite ?C, ?T, ?S, ?F; auto.
  - lia.
  - intros i k b H. apply HN in H. destruct H as [H|[(i' & k' & b' & H & L)|(key & H)]];
      [eauto|inversion H; subst; auto|discriminate].
  - intros i b H. apply HN in H. destruct H as [H|H]; [eapply j_nors0; eauto|eapply NB1; eauto].
  - intros c Hc. specialize (j_cell0 c Hc). destruct c as [r|f]; simpl in *.
    + destruct j_cell0 as (x & A & B). exists x. split; auto. apply INE; auto.
    + apply INE; auto.
  - intro Hc. destruct (j_none0 Hc) as (A & B & D & G). repeat split; auto.
    + intros x H. apply INE in H. eapply D; eauto.
    + intro H. apply HN in H. destruct H as [H|H]; auto.
  - intros x x' H1 H2. apply INE in H1. apply INE in H2. eauto.
  - intros Ht. rewrite CP. auto.
  - intros H. rewrite CP. apply HN in H. destruct H as [H|H]; [auto|contradiction].
  - intros Hs. rewrite CP. auto.
  - intros Hc Hp. rewrite CP in Hp. destruct (j_liveb0 Hc Hp); auto.
  - destruct tm.
    + destruct j_to0 as [(w & H)|H]; auto. left. exists w. auto.
    + destruct j_to0 as [A B]. split; auto. intros w H. apply HN in H.
      destruct H as [H|H]; [eapply B; eauto|eapply NB3; eauto].
Qed.

Lemma SJ_emit tm td s e : (forall x, e <> EEnd 0 x) -> SJ tm td s -> SJ tm td (emit e s).
Proof.
  intros NE J. apply SJ_step with (td:=td) (s:=s); auto.
  exists [e]. split; [reflexivity|]. intros x [H|[]]. eapply NE; eauto.
Qed.

Lemma SJ_frame tm td s s' :
  SJ tm td s -> cell s' = cell s -> tcalled s' = tcalled s -> stopping s' = stopping s -> futs s' = futs s ->
  (next s <= next s')%nat -> trace s' = trace s -> ready s' = ready s -> heap s' = heap s -> SJ tm td s'.
Proof.
  intros J C T S F N TR R H. apply SJ_step with (td:=td) (s:=s); auto.
  - exists []. rewrite app_nil_r. split; [unfold ctr; rewrite TR; reflexivity|intros y []].
  - unfold allh. rewrite R, H. auto.
  - rewrite R. auto.
  - unfold allh. rewrite R, H. auto.
Qed.

(* future updates *)
Lemma SJ_add_done_callback tm td s f c :
  (match c with FcUser i _ => (1 <= i)%nat | FcDiscard => True | FcStop => False end) ->
  SJ tm td s -> SJ tm td (add_done_callback f c s).
Proof.
  intros HC J. unfold add_done_callback. destruct (fget (futs s) f) as [cbs| | |] eqn:G.
  - (* pending: remember the callback *)
    destruct J.
    assert (CP : cellpend (set_futs (fset (futs s) f (FPending (cbs ++ [c]))) s) <-> cellpend s).
    { unfold cellpend. cbn [cell futs set_futs push_ready]. split; intros (g & cb & A & B).
      - destruct (Nat.eq_dec f g) as [->|NE]; [eauto|]. rewrite fget_fset_other in B; eauto.
      - destruct (Nat.eq_dec f g) as [->|NE]; [exists g; eexists; split; eauto; apply fget_fset_same|].
        exists g, cb. split; auto. rewrite fget_fset_other; auto. }
    constructor; cbn [cell tcalled stopping next set_futs]; auto;
      try (change (allh td (set_futs (fset (futs s) f (FPending (cbs ++ [c]))) s)) with (allh td s));
      try (change (ctr (set_futs (fset (futs s) f (FPending (cbs ++ [c]))) s)) with (ctr s)); rewrite ?CP; auto.
    + intros g cb i b H1 H2. cbn [futs set_futs push_ready] in H1. destruct (Nat.eq_dec f g) as [->|NE].
      * rewrite fget_fset_same in H1. inversion H1; subst. apply in_app_or in H2.
        destruct H2 as [H2|[H2|[]]]; [eauto|subst c; auto].
      * rewrite fget_fset_other in H1; eauto.
    + intros g cb H1 H2. cbn [futs set_futs push_ready] in H1. destruct (Nat.eq_dec f g) as [->|NE].
      * rewrite fget_fset_same in H1. inversion H1; subst. apply in_app_or in H2.
        destruct H2 as [H2|[H2|[]]]; [eauto|subst c; contradiction].
      * rewrite fget_fset_other in H1; eauto.
    + intros g cb Hc H1. cbn [futs set_futs push_ready] in H1. destruct (Nat.eq_dec f g) as [->|NE].
      * rewrite fget_fset_same in H1. inversion H1; subst. apply in_or_app. left. eauto.
      * rewrite fget_fset_other in H1; eauto.
  - apply SJ_step with (td:=td) (s:=s); auto.
    + exists []. rewrite app_nil_r. split; [reflexivity|intros y []].
    + intros h H. unfold allh in *. simpl in H. rewrite !in_app_iff in *. simpl in H.
      destruct H as [H|[[H|[H|[]]]|H]]; auto. right. destruct c as [i b| |]; simpl in H; subst.
      * left; eauto.
      * right; eauto.
      * contradiction.
    + intros h H. simpl. rewrite !in_app_iff in *. tauto.
    + intros w H. unfold allh in *. simpl. rewrite !in_app_iff in *. tauto.
  - apply SJ_step with (td:=td) (s:=s); auto.
    + exists []. rewrite app_nil_r. split; [reflexivity|intros y []].
    + intros h H. unfold allh in *. simpl in H. rewrite !in_app_iff in *. simpl in H.
      destruct H as [H|[[H|[H|[]]]|H]]; auto. right. destruct c as [i b| |]; simpl in H; subst.
      * left; eauto.
      * right; eauto.
      * contradiction.
    + intros h H. simpl. rewrite !in_app_iff in *. tauto.
    + intros w H. unfold allh in *. simpl. rewrite !in_app_iff in *. tauto.
  - apply SJ_step with (td:=td) (s:=s); auto.
    + exists []. rewrite app_nil_r. split; [reflexivity|intros y []].
    + intros h H. unfold allh in *. simpl in H. rewrite !in_app_iff in *. simpl in H.
      destruct H as [H|[[H|[H|[]]]|H]]; auto. right. destruct c as [i b| |]; simpl in H; subst.
      * left; eauto.
      * right; eauto.
      * contradiction.
    + intros h H. simpl. rewrite !in_app_iff in *. tauto.
    + intros w H. unfold allh in *. simpl. rewrite !in_app_iff in *. tauto.
Qed.

Lemma cellpend_dec s : cellpend s \/ ~ cellpend s.
Proof.
  unfold cellpend. destruct (cell s) as [[r|g]|].
  - right. intros (f & cb & A & _). discriminate.
  - destruct (fget (futs s) g) as [cb| | |] eqn:G.
    + left. eauto.
    + right. intros (f & cb & A & B). inversion A; subst. congruence.
    + right. intros (f & cb & A & B). inversion A; subst. congruence.
    + right. intros (f & cb & A & B). inversion A; subst. congruence.
  - right. intros (f & cb & A & _). discriminate.
Qed.

Lemma SJ_resolve tm td s f r s' :
  (forall cbs, r <> FPending cbs) -> resolve f r s = Some s' -> SJ tm td s -> SJ tm td s'.
Proof.
  intros NP. unfold resolve. destruct (fget (futs s) f) as [cbs| | |] eqn:G; try discriminate.
  intros E J. inversion E; subst s'; clear E. destruct J.
  assert (CPI : cellpend (push_ready (map (handle_of_fcb f) cbs) (set_futs (fset (futs s) f r) s)) -> cellpend s /\ cell s <> Some (CUser f)).
  { unfold cellpend. cbn [cell futs set_futs push_ready]. intros (g & cb & A & B). destruct (Nat.eq_dec f g) as [->|NE].
    - rewrite fget_fset_same in B. exfalso. eapply NP; eauto.
    - rewrite fget_fset_other in B; auto. split; [eauto|]. rewrite A. intro X. inversion X. congruence. }
  assert (INH : forall h, In h (allh td (push_ready (map (handle_of_fcb f) cbs) (set_futs (fset (futs s) f r) s))) <->
                          In h (allh td s) \/ In h (map (handle_of_fcb f) cbs)).
  { intro h. unfold allh. simpl. rewrite !in_app_iff. tauto. }
  assert (NEWH : forall h, In h (map (handle_of_fcb f) cbs) ->
                 (exists i b, h = HUser i (KFut f) b /\ (1 <= i)%nat) \/ h = HDiscard f \/ (h = HStop /\ In FcStop cbs)).
  { intros h H. apply in_map_iff in H. destruct H as (c & H1 & H2). destruct c as [i b| |]; simpl in H1; subst; auto.
    left. exists i, b. split; auto. eapply j_fids0; eauto. }
  constructor; cbn [cell tcalled stopping next ready heap push_ready set_futs];
    change (ctr (push_ready (map (handle_of_fcb f) cbs) (set_futs (fset (futs s) f r) s))) with (ctr s); auto.
  - intros i k b H. apply INH in H. destruct H as [H|H]; [eauto|].
    apply NEWH in H. destruct H as [(i' & b' & H & L)|[H|[H _]]]; [inversion H; subst; auto|discriminate|discriminate].
  - intros g cb i b H1 H2. cbn [futs set_futs push_ready] in H1. destruct (Nat.eq_dec f g) as [->|NE].
    + rewrite fget_fset_same in H1. exfalso. eapply NP; eauto.
    + rewrite fget_fset_other in H1; eauto.
  - intros i b H. apply INH in H. destruct H as [H|H]; [eapply j_nors0; eauto|].
    apply NEWH in H. destruct H as [(i' & b' & H & L)|[H|[H _]]]; discriminate.
  - intro Hc. destruct (j_none0 Hc) as (A & B & D & GG). repeat split; auto.
    intro H. apply INH in H. destruct H as [H|H]; auto.
    apply NEWH in H. destruct H as [(i' & b' & H & L)|[H|[_ H]]]; try discriminate.
    rewrite (j_fcstop0 f cbs G H) in Hc. discriminate.
  - intros Ht Hp. apply CPI in Hp. destruct Hp. eapply j_tc0; eauto.
  - intros H Hp. apply CPI in Hp. destruct Hp as [Hp NC]. apply INH in H. destruct H as [H|H]; [eapply j_hstop0; eauto|].
    apply NEWH in H. destruct H as [(i' & b' & H & L)|[H|[_ H]]]; try discriminate.
    apply NC. eapply j_fcstop0; eauto.
  - intros Hs. destruct (j_stopping0 Hs); auto. right. intro Hp. apply CPI in Hp. tauto.
  - intros g cb H1 H2. cbn [futs set_futs push_ready] in H1. destruct (Nat.eq_dec f g) as [->|NE].
    + rewrite fget_fset_same in H1. exfalso. eapply NP; eauto.
    + rewrite fget_fset_other in H1; eauto.
  - intros g cb Hc H1. cbn [futs set_futs push_ready] in H1. destruct (Nat.eq_dec f g) as [->|NE].
    + rewrite fget_fset_same in H1. exfalso. eapply NP; eauto.
    + rewrite fget_fset_other in H1; eauto.
  - intros Hc Hp. destruct (cellpend_dec s) as [P|NPp].
    + destruct P as (g & cb & A & B). destruct (Nat.eq_dec f g) as [->|NE].
      * left. rewrite G in B. inversion B; subst cb. apply in_or_app. right. apply in_or_app. right.
        apply in_map_iff. exists FcStop. split; auto. eapply j_livea0; eauto.
      * exfalso. apply Hp. exists g, cb. split; auto. cbn [futs set_futs push_ready]. rewrite fget_fset_other; auto.
    + destruct (j_liveb0 Hc NPp) as [H|H]; auto. left. rewrite !in_app_iff in *. tauto.
  - destruct tm.
    + destruct j_to0 as [(w & H)|H]; auto. left. exists w. apply INH. auto.
    + destruct j_to0 as [A B]. split; auto. intros w H. apply INH in H. destruct H as [H|H]; [eapply B; eauto|].
      apply NEWH in H. destruct H as [(i' & b' & H & L)|[H|[H _]]]; discriminate.
Qed.

(* ------------------------------------------------------------------ *)
(* ops *)
Lemma exec_op_cell o s s' r : exec_op o s = (s', r) ->
  cell s' = cell s /\ tcalled s' = tcalled s /\ stopping s' = stopping s.
Proof.
  destruct o as [b|fm t b|k|f b|f v|f e|f|t]; cbn [exec_op]; intro H.
  - inversion H; subst; auto.
  - inversion H; subst; auto.
  - destruct (nth_error (handles s) k); inversion H; subst; auto.
  - inversion H; subst. unfold add_done_callback. destruct (fget _ f); auto.
  - unfold resolve in H. destruct (fget (futs s) f); inversion H; subst; auto.
  - unfold resolve in H. destruct (fget (futs s) f); inversion H; subst; auto.
  - unfold resolve in H. destruct (fget (futs s) f); inversion H; subst; auto.
  - inversion H; subst; auto.
Qed.

Lemma exec_op_SJ tm td o s s' r : exec_op o s = (s', r) -> SJ tm td s -> SJ tm td s'.
Proof.
  destruct o as [b|fm t b|k|f b|f v|f e|f|t]; cbn [exec_op]; intros H J.
  - inversion H; subst; clear H.
    apply SJ_step with (td:=td) (s:=s); [exact J|reflexivity|reflexivity|reflexivity|reflexivity|simpl; lia| | | |].
    + exists [ESc (next s)]. split; [reflexivity|]. intros x [X|[]]; discriminate.
    + intros h Hh. unfold allh in *. simpl in Hh. rewrite !in_app_iff in *. simpl in Hh.
      destruct Hh as [Hh|[[Hh|[Hh|[]]]|Hh]]; auto. right. left. subst. do 3 eexists. split; eauto. destruct J; auto.
    + intros h Hh. simpl. rewrite !in_app_iff in *. tauto.
    + intros w Hh. unfold allh in *. simpl. rewrite !in_app_iff in *. tauto.
  - inversion H; subst; clear H.
    apply SJ_step with (td:=td) (s:=s); [exact J|reflexivity|reflexivity|reflexivity|reflexivity|simpl; lia| | | |].
    + exists [ESt (next s) (deadline_of fm t (now s))]. split; [reflexivity|]. intros x [X|[]]; discriminate.
    + intros h Hh. unfold allh in *. simpl in Hh. rewrite !in_app_iff in *.
      destruct Hh as [Hh|[Hh|Hh]]; auto. apply in_hpush in Hh. destruct Hh as [Hh|Hh]; auto.
      right. left. subst. do 3 eexists. split; eauto. destruct J; auto.
    + intros h Hh. simpl. exact Hh.
    + intros w Hh. unfold allh in *. simpl. rewrite !in_app_iff in *.
      destruct Hh as [Hh|[Hh|Hh]]; auto. right; right. apply in_hpush. auto.
  - destruct (nth_error (handles s) k); inversion H; subst; auto.
    apply SJ_frame with (s:=emit (ERm n) s); auto. apply SJ_emit; auto. discriminate.
  - inversion H; subst; clear H. apply SJ_add_done_callback.
    + destruct J; auto.
    + apply SJ_emit; [discriminate|]. apply SJ_frame with (s:=s); auto. simpl; lia.
  - destruct (resolve f (FOk (Some v)) s) as [s1|] eqn:R; inversion H; subst.
    + apply SJ_emit; [discriminate|]. eapply SJ_resolve; eauto. discriminate.
    + apply SJ_emit; [discriminate|auto].
  - destruct (resolve f (FExc (XUser e)) s) as [s1|] eqn:R; inversion H; subst.
    + apply SJ_emit; [discriminate|]. eapply SJ_resolve; eauto. discriminate.
    + apply SJ_emit; [discriminate|auto].
  - destruct (resolve f FCancelled s) as [s1|] eqn:R; inversion H; subst; auto.
    apply SJ_emit; [discriminate|]. eapply SJ_resolve; eauto. discriminate.
  - inversion H; subst. apply SJ_emit; [discriminate|]. apply SJ_frame with (s:=s); auto.
Qed.

Lemma exec_ops_SJ tm td os : forall s s' r, exec_ops os s = (s', r) -> SJ tm td s ->
  SJ tm td s' /\ cell s' = cell s /\ tcalled s' = tcalled s /\ stopping s' = stopping s.
Proof.
  induction os as [|o os IH]; simpl; intros s s' r H J.
  - inversion H; subst; auto.
  - destruct (exec_op o s) as [s1 r1] eqn:E.
    pose proof (exec_op_SJ tm td _ _ _ _ E J) as J1. destruct (exec_op_cell _ _ _ _ E) as (A & B & C).
    destruct r1.
    + inversion H; subst; auto.
    + destruct (IH _ _ _ H J1) as (J2 & A2 & B2 & C2). split; [exact J2|]. split; [congruence|]. split; congruence.
Qed.

(* the user function of an instance i >= 1 *)
Lemma run_fn_SJ tm td i k b s s' e : (1 <= i)%nat -> run_fn i k b s = (s', e) -> SJ tm td s ->
  SJ tm td s' /\ cell s' = cell s /\ tcalled s' = tcalled s /\ stopping s' = stopping s.
Proof.
  intros Hi. unfold run_fn. destruct (exec_ops (b_ops b) (emit (ERun i k (b_label b)) s)) as [s1 r] eqn:E.
  intros H J. inversion H; subst; clear H.
  assert (J0 : SJ tm td (emit (ERun i k (b_label b)) s)) by (apply SJ_emit; [discriminate|auto]).
  destruct (exec_ops_SJ tm td _ _ _ _ E J0) as (J1 & A & B & C). split; [|auto].
  apply SJ_emit; auto. intros x X. inversion X. lia.
Qed.

Lemma SJ_drop_head tm td s h :
  h <> HStop -> (forall w, h <> HTimeoutCb w) -> SJ tm (h :: td) s -> SJ tm td s.
Proof.
  intros N1 N2 []. unfold allh in *. simpl in *.
  constructor; auto.
  - intros i k b H. eapply j_ids0; eauto.
  - intros i b H. eapply j_nors0; eauto.
  - intro Hc. destruct (j_none0 Hc) as (A & B & D & G). repeat split; auto.
  - intros Hc Hp. destruct (j_liveb0 Hc Hp) as [[H|H]|H]; auto; congruence.
  - destruct tm.
    + destruct j_to0 as [(w & [H|H])|H]; auto; [exfalso; eapply N2; eauto|eauto].
    + destruct j_to0 as [A B]. split; auto. intros w H. eapply B; eauto.
Qed.

Lemma head_user_id tm td s i k b : SJ tm (HUser i k b :: td) s -> (1 <= i)%nat.
Proof. intros []. eapply j_ids0. left. reflexivity. Qed.

Lemma SJ_set_stopping tm td s :
  SJ tm td s -> cell s <> None -> (tcalled s = true \/ ~ cellpend s) -> SJ tm td (set_stopping s).
Proof.
  intros [] NC H.
  constructor; cbn [cell tcalled stopping next futs set_stopping];
    try (change (allh td (set_stopping s)) with (allh td s)); try (change (ctr (set_stopping s)) with (ctr s)); auto.
  intro Hc. contradiction.
Qed.

Lemma resolve_set_tcalled f r s :
  resolve f r (set_tcalled s) = match resolve f r s with Some s' => Some (set_tcalled s') | None => None end.
Proof. unfold resolve. simpl. destruct (fget (futs s) f); reflexivity. Qed.

Lemma SJ_set_tcalled tm td s :
  SJ tm td s -> cell s <> None -> ~ cellpend s -> tm <> None -> SJ tm td (set_tcalled s).
Proof.
  intros [] NC NP NT.
  constructor; cbn [cell tcalled stopping next futs set_tcalled];
    try (change (allh td (set_tcalled s)) with (allh td s)); try (change (ctr (set_tcalled s)) with (ctr s)); auto.
  - intro Hc. contradiction.
  - destruct tm; [auto|congruence].
Qed.

Lemma resolve_none_not_pending f r s : resolve f r s = None -> forall cbs, fget (futs s) f <> FPending cbs.
Proof. unfold resolve. destruct (fget (futs s) f); try discriminate; intros _ cbs X; discriminate. Qed.

Lemma resolve_some_not_pending f r s s' : (forall cbs, r <> FPending cbs) -> resolve f r s = Some s' ->
  forall cbs, fget (futs s') f <> FPending cbs.
Proof.
  unfold resolve. destruct (fget (futs s) f); try discriminate. intros NP H. inversion H; subst.
  intros cbs0. cbn [futs set_futs push_ready]. rewrite fget_fset_same. apply NP.
Qed.

(* one handle of the snapshot, once run() has filled the cell *)
Lemma run_handle_SJ tm td h s :
  is_cancelled s h = false -> SJ tm (h :: td) s -> cell s <> None ->
  SJ tm td (run_handle h s) /\ cell (run_handle h s) <> None.
Proof.
  intros NCn J NC. destruct h as [i k b|key| |i b|w]; simpl.
  - pose proof (head_user_id _ _ _ _ _ _ J) as Hi.
    assert (J0 : SJ tm td s) by (eapply SJ_drop_head; eauto; discriminate).
    destruct (run_fn i (rkind_of k) b s) as [s1 e] eqn:R.
    destruct (run_fn_SJ tm td _ _ _ _ _ _ Hi R J0) as (J1 & A & B & C).
    destruct e as [| |f|x].
    + split; [auto|congruence].
    + split; [auto|congruence].
    + split; [apply SJ_add_done_callback; auto|].
      unfold add_done_callback. destruct (fget (futs s1) f); simpl; congruence.
    + split; [apply SJ_emit; auto; discriminate|simpl; congruence].
  - assert (J0 : SJ tm td s) by (eapply SJ_drop_head; eauto; discriminate).
    destruct (fget (futs s) key); auto. split; auto. apply SJ_emit; auto. discriminate.
  - (* the stop callback *)
    split; auto. destruct J. unfold allh in *. simpl in *.
    assert (NP : ~ cellpend s) by (apply j_hstop0; auto).
    constructor; cbn [cell tcalled stopping next futs set_stopping];
      try (change (ctr (set_stopping s)) with (ctr s)); unfold allh; cbn [ready heap set_stopping]; auto.
    + intros i k b H. eapply j_ids0; eauto.
    + intros i b H. eapply j_nors0; eauto.
    + intro Hc. contradiction.
    + destruct tm.
      * destruct j_to0 as [(w & [H|H])|H]; auto; [discriminate|eauto].
      * destruct j_to0 as [A B]. split; auto. intros w H. eapply B; eauto.
  - exfalso. destruct J. eapply j_nors0. left. reflexivity.
  - (* run_sync's timeout callback *)
    assert (TM : tm <> None).
    { destruct J. destruct tm; [discriminate|]. destruct j_to0 as [_ B]. exfalso. eapply B. left. reflexivity. }
    assert (J0 : SJ tm td s -> True) by auto.
    (* dropping the head keeps everything except the presence of the timeout handle, which tcalled replaces *)
    assert (JD : forall s', SJ tm (HTimeoutCb w :: td) s' -> tcalled s' = true -> SJ tm td s').
    { intros s' [] TC. unfold allh in *. simpl in *. constructor; auto.
      - intros i k b H. eapply j_ids0; eauto.
      - intros i b H. eapply j_nors0; eauto.
      - intro Hc. destruct (j_none0 Hc) as (A & _). congruence.
      - intros Hc Hp. destruct (j_liveb0 Hc Hp) as [[H|H]|H]; auto. discriminate.
      - destruct tm; [auto|]. destruct j_to0. congruence. }
    destruct (cell s) as [[r|f]|] eqn:C; [| |congruence].
    + split; [|simpl; rewrite C; discriminate]. apply JD; [|reflexivity].
      apply SJ_set_stopping; [|simpl; rewrite C; discriminate|left; reflexivity].
      apply SJ_set_tcalled; [exact J|rewrite C; discriminate| |exact TM].
      intros (g & cb & A & _). congruence.
    + rewrite resolve_set_tcalled. destruct (resolve f FCancelled s) as [s2|] eqn:R.
      * assert (C2 : cell s2 = Some (CUser f)).
        { unfold resolve in R. destruct (fget (futs s) f); inversion R; subst; auto. }
        split; [|simpl; rewrite C2; discriminate]. apply JD; [|reflexivity].
        apply SJ_emit; [discriminate|]. apply SJ_set_tcalled; [|rewrite C2; discriminate| |exact TM].
        -- eapply SJ_resolve; eauto. discriminate.
        -- intros (g & cb & A & B). rewrite C2 in A. inversion A; subst g.
           eapply resolve_some_not_pending; eauto. discriminate.
      * assert (NP : ~ cellpend s).
        { intros (g & cb & A & B). rewrite C in A. inversion A; subst g. eapply resolve_none_not_pending; eauto. }
        split; [|simpl; rewrite C; discriminate]. apply JD; [|reflexivity].
        apply SJ_set_stopping; [|simpl; rewrite C; discriminate|left; reflexivity].
        apply SJ_set_tcalled; [exact J|rewrite C; discriminate|exact NP|exact TM].
Qed.

Lemma SJ_skip tm td s h : is_cancelled s h = true -> SJ tm (h :: td) s -> SJ tm td s.
Proof.
  intros C J. destruct (cancelled_is s h C) as (i & d & b & E & _). subst h.
  eapply SJ_drop_head; eauto; discriminate.
Qed.

Lemma run_todo_SJ tm todo : forall s, SJ tm todo s -> cell s <> None ->
  SJ tm [] (run_todo todo s) /\ cell (run_todo todo s) <> None.
Proof.
  induction todo as [|h t IH]; intros s J NC; simpl; auto.
  destruct (is_cancelled s h) eqn:C.
  - apply IH; auto. eapply SJ_skip; eauto.
  - destruct (run_handle_SJ tm t h s C J NC). apply IH; auto.
Qed.

(* ------------------------------------------------------------------ *)
(* the timer heap and the iteration skeleton *)
Lemma hpop_in l h hp : hpop l = Some (h, hp) -> forall x, In x l <-> x = h \/ In x hp.
Proof.
  intros P x. destruct (hpop_facts _ _ _ P) as (PM & _ & _). split; intro H.
  - apply (Permutation_in _ PM) in H. destruct H; auto.
  - apply (Permutation_in _ (Permutation_sym PM)). destruct H; [left|right]; auto.
Qed.

Lemma drop_cancelled_SJ tm fuel : forall s, SJ tm [] s -> SJ tm [] (drop_cancelled fuel s).
Proof.
  induction fuel as [|fu IH]; intros s J; simpl; auto.
  destruct (heap s) as [|h0 hs] eqn:H; auto. destruct (is_cancelled s h0) eqn:C; auto.
  destruct (hpop (h0 :: hs)) as [[h hp]|] eqn:P; auto.
  assert (h = h0) by (eapply hpop_head; eauto). subst h.
  destruct (cancelled_is s h0 C) as (i & d & b & E & _).
  apply IH. rewrite <- H in P.
  apply SJ_step with (td:=[]) (s:=s); [exact J|reflexivity|reflexivity|reflexivity|reflexivity|simpl; lia| | | |].
  - exists []. rewrite app_nil_r. split; [reflexivity|intros y []].
  - intros x Hx. left. unfold allh in *. simpl in *. rewrite in_app_iff in *. destruct Hx; auto.
    right. apply (hpop_in _ _ _ P). auto.
  - intros x Hx. exact Hx.
  - intros w Hw. unfold allh in *. simpl in *. rewrite in_app_iff in *. destruct Hw as [Hw|Hw]; auto.
    right. apply (hpop_in _ _ _ P) in Hw. destruct Hw as [Hw|Hw]; auto. subst h0. discriminate.
Qed.

Lemma pop_due_SJ tm fuel : forall s, SJ tm [] s -> SJ tm [] (pop_due fuel s).
Proof.
  induction fuel as [|fu IH]; intros s J; simpl; auto.
  destruct (heap s) as [|h0 hs] eqn:H; auto. destruct (hwhen h0 <=? now s); auto.
  destruct (hpop (h0 :: hs)) as [[h hp]|] eqn:P; auto.
  apply IH. rewrite <- H in P.
  apply SJ_step with (td:=[]) (s:=s); [exact J|reflexivity|reflexivity|reflexivity|reflexivity|simpl; lia| | | |].
  - exists []. rewrite app_nil_r. split; [reflexivity|intros y []].
  - intros x Hx. left. unfold allh in *. simpl in *. rewrite !in_app_iff in *. simpl in Hx.
    destruct Hx as [[Hx|[Hx|[]]]|Hx]; auto; right; apply (hpop_in _ _ _ P); auto.
  - intros x Hx. simpl in *. rewrite in_app_iff. auto.
  - intros w Hw. unfold allh in *. simpl in *. rewrite !in_app_iff in *. destruct Hw as [Hw|Hw]; auto.
    apply (hpop_in _ _ _ P) in Hw. destruct Hw as [Hw|Hw]; [subst; left; right; simpl; auto|auto].
Qed.

Lemma pop_due_flags fuel : forall s,
  cell (pop_due fuel s) = cell s /\ stopping (pop_due fuel s) = stopping s.
Proof.
  induction fuel as [|fu IH]; intro s; simpl; auto.
  destruct (heap s) as [|h0 hs]; auto. destruct (hwhen h0 <=? now s); auto.
  destruct (hpop (h0 :: hs)) as [[h hp]|]; auto. destruct (IH (push_ready [h] (set_heap hp s))) as [A B].
  rewrite A, B. auto.
Qed.

Lemma drop_cancelled_flags fuel : forall s,
  stopping (drop_cancelled fuel s) = stopping s.
Proof.
  induction fuel as [|fu IH]; intro s; simpl; auto.
  destruct (heap s) as [|h0 hs]; auto. destruct (is_cancelled s h0); auto.
  destruct (hpop (h0 :: hs)) as [[h hp]|]; auto. rewrite IH. reflexivity.
Qed.

Lemma SJ_todo tm s : SJ tm [] s -> SJ tm (ready s) (set_ready [] s).
Proof.
  intro J. apply SJ_step with (td:=[]) (s:=s); [exact J|reflexivity|reflexivity|reflexivity|reflexivity|simpl; lia| | | |].
  - exists []. rewrite app_nil_r. split; [reflexivity|intros y []].
  - intros x Hx. left. unfold allh in *. simpl in *. rewrite !in_app_iff in *. simpl in Hx. tauto.
  - intros x Hx. simpl in *. rewrite app_nil_r. exact Hx.
  - intros w Hw. unfold allh in *. simpl in *. rewrite !in_app_iff in *. simpl. tauto.
Qed.

Lemma run_once_SJ tm s s' : SJ tm [] s -> cell s <> None -> run_once s = Some s' ->
  SJ tm [] s' /\ cell s' <> None.
Proof.
  intros J NC. rewrite run_once_unfold. cbv zeta.
  pose proof (drop_cancelled_SJ tm (length (heap s)) s J) as J1.
  destruct (drop_cancelled_same (length (heap s)) s) as (_ & _ & C1 & _).
  revert J1 C1. generalize (drop_cancelled (length (heap s)) s). intros s1 J1 C1.
  destruct (select_timeout s1) as [dt|]; [|discriminate]. intro H. inversion H; subst; clear H.
  set (s3 := emit (EIt (now s1 + dt)) (set_now (now s1 + dt) s1)).
  assert (J3 : SJ tm [] s3).
  { apply SJ_emit; [discriminate|]. apply SJ_frame with (s:=s1); auto. }
  apply run_todo_SJ.
  - apply SJ_todo. apply pop_due_SJ. exact J3.
  - cbn [cell set_ready]. rewrite (proj1 (pop_due_flags _ _)). unfold s3. simpl. congruence.
Qed.

(* ------------------------------------------------------------------ *)
(* the first iteration: run() fills the cell *)
Record SPre (tm : option Z) (tl : list handle) (s : st) : Prop := {
  p_cell : cell s = None; p_tc : tcalled s = false; p_stop : stopping s = false;
  p_futs : futs s = []; p_next : next s = 1%nat; p_ready : ready s = [];
  p_noend : forall x, ~ In (EEnd 0 x) (ctr s);
  p_only : forall h, In h (tl ++ heap s) -> exists w, h = HTimeoutCb w;
  p_to : match tm with Some _ => exists w, In (HTimeoutCb w) (tl ++ heap s) | None => tl ++ heap s = [] end
}.

Lemma SJ_of_SPre tm tl s l : SPre tm tl s -> SJ tm tl (emit (ERun 0 RFn l) s).
Proof.
  intros [].
  assert (AH : forall h, In h (allh tl (emit (ERun 0 RFn l) s)) -> exists w, h = HTimeoutCb w).
  { intros h H. unfold allh in H. simpl in H. rewrite p_ready0 in H. simpl in H. auto. }
  assert (NE : forall x, ~ In (EEnd 0 x) (ctr (emit (ERun 0 RFn l) s))).
  { intros x H. rewrite ctr_emit in H. apply in_app_or in H. destruct H as [H|[H|[]]]; [eapply p_noend0; eauto|discriminate]. }
  constructor; cbn [cell tcalled stopping next futs emit]; rewrite ?p_cell0, ?p_tc0, ?p_stop0, ?p_futs0, ?p_next0; auto.
  - intros i k b H. apply AH in H. destruct H; discriminate.
  - intros f cbs i b H. simpl in H. inversion H; subst. intros [].
  - intros i b H. apply AH in H. destruct H; discriminate.
  - intros c H. discriminate.
  - intros _. repeat split; auto. intro H. apply AH in H. destruct H; discriminate.
  - intros x x' H. exfalso. eapply NE; eauto.
  - discriminate.
  - intros H. apply AH in H. destruct H; discriminate.
  - intros f cbs H. simpl in H. inversion H; subst. intros [].
  - intros f cbs H. discriminate.
  - destruct tm.
    + left. destruct p_to0 as (w & H). exists w. unfold allh. simpl. rewrite p_ready0. simpl. exact H.
    + split; auto. intros w H. unfold allh in H. simpl in H. rewrite p_ready0 in H. simpl in H. rewrite p_to0 in H. exact H.
Qed.

Lemma SJ_fill_fresh tm td s x r :
  SJ tm td s -> cell s = None -> fresh_res x = Some r ->
  SJ tm td (push_ready [HStop] (set_cell (CFresh r) (emit (EEnd 0 x) s))).
Proof.
  intros [] CN FR. destruct (j_none0 CN) as (TC & ST & NE & NH).
  set (s' := push_ready [HStop] (set_cell (CFresh r) (emit (EEnd 0 x) s))).
  assert (NP : ~ cellpend s') by (intros (g & cb & A & _); discriminate).
  assert (INH : forall h, In h (allh td s') <-> In h (allh td s) \/ h = HStop).
  { intro h. unfold allh. simpl. rewrite !in_app_iff. simpl. intuition. }
  assert (NOFS : forall f cbs, fget (futs s) f = FPending cbs -> ~ In FcStop cbs).
  { intros f cbs G H. rewrite (j_fcstop0 f cbs G H) in CN. discriminate. }
  constructor; cbn [cell tcalled stopping next futs emit push_ready set_cell s'];
    change (ctr s') with (ctr s ++ [EEnd 0 x]); rewrite ?TC, ?ST; auto.
  - intros i k b H. apply INH in H. destruct H as [H|H]; [eauto|discriminate].
  - intros i b H. apply INH in H. destruct H as [H|H]; [eapply j_nors0; eauto|discriminate].
  - intros c H. inversion H; subst. simpl. exists x. split; auto. apply in_or_app; right; simpl; auto.
  - discriminate.
  - intros y y' H1 H2. apply in_app_or in H1. apply in_app_or in H2.
    destruct H1 as [H1|[H1|[]]]; [exfalso; eapply NE; eauto|].
    destruct H2 as [H2|[H2|[]]]; [exfalso; eapply NE; eauto|]. congruence.
  - intros f cbs G H. exfalso. eapply NOFS; eauto.
  - intros f cbs H. discriminate.
  - intros _ _. left. unfold s'. simpl. rewrite !in_app_iff. simpl. auto.
  - destruct tm.
    + destruct j_to0 as [(w & H)|H]; [|congruence]. left. exists w. apply INH. auto.
    + destruct j_to0 as [A B]. split; auto. intros w H. apply INH in H. destruct H as [H|H]; [eapply B; eauto|discriminate].
Qed.

Lemma SJ_fill_done tm td s f :
  SJ tm td s -> cell s = None -> (forall cbs, fget (futs s) f <> FPending cbs) ->
  SJ tm td (push_ready [HStop] (set_cell (CUser f) (emit (EEnd 0 (EndFut f)) s))).
Proof.
  intros [] CN ND. destruct (j_none0 CN) as (TC & ST & NE & NH).
  set (s' := push_ready [HStop] (set_cell (CUser f) (emit (EEnd 0 (EndFut f)) s))).
  assert (NP : ~ cellpend s').
  { intros (g & cb & A & B). unfold s' in A, B. simpl in A, B. inversion A; subst g. eapply ND; eauto. }
  assert (INH : forall h, In h (allh td s') <-> In h (allh td s) \/ h = HStop).
  { intro h. unfold allh. simpl. rewrite !in_app_iff. simpl. intuition. }
  assert (NOFS : forall g cbs, fget (futs s) g = FPending cbs -> ~ In FcStop cbs).
  { intros g cbs G H. rewrite (j_fcstop0 g cbs G H) in CN. discriminate. }
  constructor; cbn [cell tcalled stopping next futs emit push_ready set_cell s'];
    change (ctr s') with (ctr s ++ [EEnd 0 (EndFut f)]); rewrite ?TC, ?ST; auto.
  - intros i k b H. apply INH in H. destruct H as [H|H]; [eauto|discriminate].
  - intros i b H. apply INH in H. destruct H as [H|H]; [eapply j_nors0; eauto|discriminate].
  - intros c H. inversion H; subst. simpl. apply in_or_app; right; simpl; auto.
  - discriminate.
  - intros y y' H1 H2. apply in_app_or in H1. apply in_app_or in H2.
    destruct H1 as [H1|[H1|[]]]; [exfalso; eapply NE; eauto|].
    destruct H2 as [H2|[H2|[]]]; [exfalso; eapply NE; eauto|]. congruence.
  - intros g cbs G H. exfalso. eapply NOFS; eauto.
  - intros g cbs H G. inversion H; subst g. exfalso. eapply ND; eauto.
  - intros _ _. left. unfold s'. simpl. rewrite !in_app_iff. simpl. auto.
  - destruct tm.
    + destruct j_to0 as [(w & H)|H]; [|congruence]. left. exists w. apply INH. auto.
    + destruct j_to0 as [A B]. split; auto. intros w H. apply INH in H. destruct H as [H|H]; [eapply B; eauto|discriminate].
Qed.

Lemma SJ_fill_fut tm td s f :
  SJ tm td s -> cell s = None ->
  SJ tm td (add_done_callback f FcStop (set_cell (CUser f) (emit (EEnd 0 (EndFut f)) s))).
Proof.
  intros J CN. unfold add_done_callback. cbn [futs set_cell emit].
  destruct (fget (futs s) f) as [cbs| | |] eqn:G;
    [|apply SJ_fill_done; auto; intros cb X; congruence
      |apply SJ_fill_done; auto; intros cb X; congruence
      |apply SJ_fill_done; auto; intros cb X; congruence].
  destruct J. destruct (j_none0 CN) as (TC & ST & NE & NH).
  assert (NOFS : forall g cbs, fget (futs s) g = FPending cbs -> ~ In FcStop cbs).
  { intros g cb G' H. rewrite (j_fcstop0 g cb G' H) in CN. discriminate. }
  set (s' := set_futs (fset (futs s) f (FPending (cbs ++ [FcStop]))) (set_cell (CUser f) (emit (EEnd 0 (EndFut f)) s))).
  assert (CPd : cellpend s').
  { exists f, (cbs ++ [FcStop]). split; [reflexivity|]. unfold s'. cbn [futs set_futs]. apply fget_fset_same. }
  constructor; cbn [cell tcalled stopping next futs emit set_futs set_cell s'];
    change (ctr s') with (ctr s ++ [EEnd 0 (EndFut f)]); change (allh td s') with (allh td s); rewrite ?TC, ?ST; auto.
  - intros g cb i b H1 H2. destruct (Nat.eq_dec f g) as [->|NEq].
    + rewrite fget_fset_same in H1. inversion H1; subst. apply in_app_or in H2.
      destruct H2 as [H2|[H2|[]]]; [eauto|discriminate].
    + rewrite fget_fset_other in H1; eauto.
  - intros c H. inversion H; subst. simpl. apply in_or_app; right; simpl; auto.
  - discriminate.
  - intros y y' H1 H2. apply in_app_or in H1. apply in_app_or in H2.
    destruct H1 as [H1|[H1|[]]]; [exfalso; eapply NE; eauto|].
    destruct H2 as [H2|[H2|[]]]; [exfalso; eapply NE; eauto|]. congruence.
  - discriminate.
  - intros g cb H1 H2. destruct (Nat.eq_dec f g) as [->|NEq]; [reflexivity|].
    rewrite fget_fset_other in H1; auto. exfalso. eapply NOFS; eauto.
  - intros g cb H H1. inversion H; subst g. rewrite fget_fset_same in H1. inversion H1; subst.
    apply in_or_app; right; simpl; auto.
  - destruct tm; [|tauto]. destruct j_to0 as [H|H]; [auto|congruence].
Qed.

Lemma run_fn_cell i k b s s' e : run_fn i k b s = (s', e) -> cell s' = cell s.
Proof.
  unfold run_fn. destruct (exec_ops (b_ops b) (emit (ERun i k (b_label b)) s)) as [s1 r] eqn:E.
  intro H. inversion H; subst. simpl.
  assert (X : forall os a a' r', exec_ops os a = (a', r') -> cell a' = cell a).
  { clear. induction os as [|o os IH]; simpl; intros a a' r' H; [inversion H; auto|].
    destruct (exec_op o a) as [a1 r1] eqn:E. destruct (exec_op_cell _ _ _ _ E) as (A & _).
    destruct r1; [inversion H; subst; auto|]. rewrite (IH _ _ _ H). auto. }
  rewrite (X _ _ _ _ E). reflexivity.
Qed.

(* run() *)
Lemma run_sync_handle_SJ tm tl b s :
  SPre tm tl s -> SJ tm tl (run_handle (HRunSync 0 b) s) /\ cell (run_handle (HRunSync 0 b) s) <> None.
Proof.
  intro P. pose proof (SJ_of_SPre tm tl s (b_label b) P) as J0. simpl.
  unfold run_fn. destruct (exec_ops (b_ops b) (emit (ERun 0 RFn (b_label b)) s)) as [s1 r] eqn:E.
  destruct (exec_ops_SJ tm tl _ _ _ _ E J0) as (J1 & C1 & _).
  assert (CN : cell s1 = None) by (rewrite C1; simpl; destruct P; auto).
  assert (NF : forall g, fresh_res (EndFut g) = None) by reflexivity.
  destruct r.
  - split; [apply (SJ_fill_fresh tm tl s1 (EndRaise XInvalidState)); auto|discriminate].
  - destruct (b_out b) as [| |e|f].
    + split; [apply (SJ_fill_fresh tm tl s1 EndNone); auto|discriminate].
    + split; [apply (SJ_fill_fresh tm tl s1 EndVal); auto|discriminate].
    + split; [apply (SJ_fill_fresh tm tl s1 (EndRaise (XUser e))); auto|discriminate].
    + split; [apply SJ_fill_fut; auto|].
      unfold add_done_callback. destruct (fget _ f); discriminate.
Qed.

(* ------------------------------------------------------------------ *)
(* the first iteration of run_sync *)
Lemma first_iteration_SJ b tm :
  exists sB, run_once (init_sync b tm) = Some sB /\ SJ tm [] sB /\ cell sB <> None.
Proof.
  rewrite run_once_unfold. unfold init_sync.
  destruct tm as [t|].
  - (* with a timeout: one TimerHandle in the heap *)
    cbn [now push_ready bump st0 Z.add].
    set (s0 := sched_timer (HTimeoutCb t) (push_ready [HRunSync 0 b] (bump st0))).
    assert (H0 : heap s0 = [HTimeoutCb t]) by reflexivity.
    assert (D0 : drop_cancelled (length (heap s0)) s0 = s0) by (rewrite H0; reflexivity).
    cbv zeta. rewrite D0.
    assert (ST : select_timeout s0 = Some 0) by reflexivity. rewrite ST.
    set (s3 := emit (EIt (now s0 + 0)) (set_now (now s0 + 0) s0)).
    destruct (t <=? 0) eqn:LE.
    + assert (P4 : pop_due (length (heap s3)) s3 = push_ready [HTimeoutCb t] (set_heap [] s3)).
      { unfold s3. simpl. rewrite LE. reflexivity. }
      rewrite P4. eexists. split; [reflexivity|].
      cbn [ready push_ready set_heap s3 emit set_now s0 sched_timer bump st0 app].
      cbn [run_todo is_cancelled].
      match goal with |- context [run_handle (HRunSync 0 b) ?sA] => set (sa := sA) end.
      assert (PRE : SPre (Some t) [HTimeoutCb t] sa).
      { constructor; try reflexivity.
        - intros x [H|[]]. discriminate.
        - intros h [H|[]]. eauto.
        - exists t. left. reflexivity. }
      destruct (run_sync_handle_SJ (Some t) [HTimeoutCb t] b sa PRE) as [J NC].
      exact (run_todo_SJ (Some t) [HTimeoutCb t] _ J NC).
    + assert (P4 : pop_due (length (heap s3)) s3 = s3).
      { unfold s3. simpl. rewrite LE. reflexivity. }
      rewrite P4. eexists. split; [reflexivity|].
      cbn [ready push_ready set_heap s3 emit set_now s0 sched_timer bump st0 app].
      cbn [run_todo is_cancelled].
      match goal with |- context [run_handle (HRunSync 0 b) ?sA] => set (sa := sA) end.
      assert (PRE : SPre (Some t) [] sa).
      { constructor; try reflexivity.
        - intros x [H|[]]. discriminate.
        - intros h [H|[]]. eauto.
        - exists t. left. reflexivity. }
      destruct (run_sync_handle_SJ (Some t) [] b sa PRE) as [J NC]. auto.
  - set (s0 := push_ready [HRunSync 0 b] (bump st0)).
    cbv zeta. change (drop_cancelled (length (heap s0)) s0) with s0.
    change (select_timeout s0) with (Some 0).
    eexists. split; [reflexivity|].
    cbn [ready push_ready set_heap emit set_now s0 bump st0 app pop_due length heap].
    cbn [run_todo is_cancelled].
    match goal with |- context [run_handle (HRunSync 0 b) ?sA] => set (sa := sA) end.
    assert (PRE : SPre None [] sa).
    { constructor; try reflexivity. - intros x [H|[]]. discriminate. - intros h []. }
    destruct (run_sync_handle_SJ None [] b sa PRE) as [J NC]. auto.
Qed.

(* ------------------------------------------------------------------ *)
Lemma run_loop_SJ tm fuel : forall s s' e,
  SJ tm [] s -> cell s <> None -> stopping s = false -> run_loop fuel s = (s', e) -> e <> OutOfFuel ->
  exists s1, SJ tm [] s1 /\ cell s1 <> None /\ trace s1 = trace s' /\ futs s1 = futs s' /\ cell s1 = cell s' /\
             tcalled s1 = tcalled s' /\
             (e = Idle -> ready s1 = [] /\ heap s1 = [] /\ stopping s1 = false) /\
             (e = Stopped -> stopping s1 = true).
Proof.
  induction fuel as [|fu IH]; intros s s' e J NC ST; simpl.
  - intros H NE. inversion H; subst. congruence.
  - destruct (run_once s) as [s2|] eqn:R.
    + destruct (run_once_SJ tm s s2 J NC R) as [J2 NC2].
      destruct (stopping s2) eqn:S2.
      * intros H NE. inversion H; subst. exists s'.
        split; [exact J2|]. split; [exact NC2|]. split; [reflexivity|]. split; [reflexivity|].
        split; [reflexivity|]. split; [reflexivity|]. split; [intro X; discriminate X|auto].
      * intros H NE. eapply IH; eauto.
    + intros H NE. inversion H; subst. apply run_once_idle in R. destruct R as (s1 & _ & B & C & D).
      exists s1. subst s1.
      destruct (drop_cancelled_same (length (heap s')) s') as (E1 & E2 & E3 & E4).
      split; [apply drop_cancelled_SJ; auto|]. split; [rewrite E3; auto|].
      split; auto. split; auto. split; auto. split; auto. split; [|discriminate].
      intros _. split; auto. split; auto. rewrite drop_cancelled_flags. auto.
Qed.

Lemma run_sync_final b tm fuel s e :
  run_loop fuel (init_sync b tm) = (s, e) -> e <> OutOfFuel ->
  exists s1, SJ tm [] s1 /\ cell s1 <> None /\ trace s1 = trace s /\ futs s1 = futs s /\ cell s1 = cell s /\
             tcalled s1 = tcalled s /\
             (e = Idle -> ready s1 = [] /\ heap s1 = [] /\ stopping s1 = false) /\
             (e = Stopped -> stopping s1 = true).
Proof.
  destruct fuel as [|fu]; simpl; [intros H NE; inversion H; subst; congruence|].
  destruct (first_iteration_SJ b tm) as (sB & R & J & NC). rewrite R.
  destruct (stopping sB) eqn:S.
  - intros H NE. inversion H; subst. exists s.
    split; [exact J|]. split; [exact NC|]. split; [reflexivity|]. split; [reflexivity|].
    split; [reflexivity|]. split; [reflexivity|]. split; [intro X; discriminate X|auto].
  - intros H NE. eapply run_loop_SJ; eauto.
Qed.
