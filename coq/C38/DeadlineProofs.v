(* C38 — the deadline forms of add_timeout / call_later / call_at: timedelta normalisation keeps the total,
   and every form schedules the TimerHandle at exactly the requested absolute deadline. *)
From Coq Require Import List ZArith Lia.
Import ListNotations.
From TV Require Import C38.Model C38.HeapProofs.
Local Open Scope Z_scope.

Lemma td_normalize_total d s us :
  td_total_us (td_normalize d s us) = (d * 86400 + s) * 1000000 + us.
Proof.
  unfold td_total_us, td_normalize.
  pose proof (Z.div_mod us 1000000 ltac:(lia)) as H1.
  pose proof (Z.div_mod (s + us / 1000000) 86400 ltac:(lia)) as H2.
  lia.
Qed.

Lemma td_normalize_ranges d s us :
  let '(_, s', us') := td_normalize d s us in 0 <= s' < 86400 /\ 0 <= us' < 1000000.
Proof.
  unfold td_normalize. split; apply Z.mod_pos_bound; lia.
Qed.

Lemma delta_ticks_spec days t : delta_ticks days t = days * DAY_TICKS + t.
Proof.
  unfold delta_ticks, DAY_TICKS, TICK_US. rewrite td_normalize_total.
  replace ((days * 86400 + 0) * 1000000 + t * 250000) with ((days * 345600 + t) * 250000) by lia.
  apply Z.div_mul. lia.
Qed.

(* the deadline each call form must ask for *)
Definition deadline_spec (fm : tform) (t now : Z) : Z :=
  match fm with
  | FAbs | FCallAt => t
  | FLater => now + t
  | FDelta days => now + days * DAY_TICKS + t
  end.

Lemma deadline_of_spec fm t now : deadline_of fm t now = deadline_spec fm t now.
Proof. destruct fm; simpl; auto. rewrite delta_ticks_spec. lia. Qed.

(* every timeout call records exactly that deadline and puts a TimerHandle with _when = that deadline in the heap,
   whatever the form (absolute number, call_later, call_at, timedelta with any days / negative delta) *)
Theorem timeout_call_schedules_requested_deadline fm t b s :
  let dl := deadline_spec fm t (now s) in
  exists s', exec_op (OTo fm t b) s = (s', false) /\
    trace s' = ESt (next s) dl :: trace s /\
    In (HUser (next s) (KTo dl) b) (heap s') /\ hwhen (HUser (next s) (KTo dl) b) = dl.
Proof.
  cbv zeta. eexists. cbn [exec_op]. rewrite deadline_of_spec. split; [reflexivity|]. split; [reflexivity|].
  split; [|reflexivity]. simpl.
  apply (Permutation.Permutation_in _ (Permutation.Permutation_sym (HeapProofs.heappush_perm hwhen HStop (heap s) _))).
  left; reflexivity.
Qed.

(* the formula of seeded change C38_2 (seconds + microseconds/1e6, dropping days) is wrong exactly when the
   normalised days field is non-zero *)
Lemma dropping_days_is_wrong d s us :
  let '(d', s', us') := td_normalize d s us in
  s' * 1000000 + us' = td_total_us (td_normalize d s us) <-> d' = 0.
Proof.
  unfold td_normalize, td_total_us. lia.
Qed.

Example negative_delta_has_negative_days : td_normalize 0 (-1) 0 = (-1, 86399, 0).
Proof. reflexivity. Qed.
